(* driver.ml -- unverified glue: reads one case per line, runs the extracted model,
   prints one canonical observation per line.  See harness/streams.py for the format. *)
open Model
type string = String.t   (* Model exports the Coq string type under this name; the driver only uses OCaml strings *)

exception Timeout
let rec nat_of_int n = if n <= 0 then O else S (nat_of_int (n - 1))
let rec int_of_nat = function O -> 0 | S n -> 1 + int_of_nat n

let ecls_name = function
  | EResolveReference -> "ResolveReference" | EInternal -> "Internal"
  | ENormalization -> "Normalization" | EJsonPointer -> "JsonPointer"
  | EJsonSchema -> "JsonSchema" | ERegex -> "Regex" | EGrammar -> "Grammar"
  | EXmlSchema -> "XmlSchema" | EOpenApi -> "OpenApi" | EConfig -> "Config"
  | EIndexError -> "IndexError" | EKeyError -> "KeyError" | EAttributeError -> "AttributeError"
  | EAssertionError -> "AssertionError" | ETypeError -> "TypeError" | EValueError -> "ValueError"
  | ENotImplemented -> "NotImplementedError" | EOtherPy -> "Other"

let show_res f = function
  | Ok a -> "ok:" ^ f a
  | LibErr c -> "lib:" ^ ecls_name c
  | PyErr c -> "py:" ^ ecls_name c
  | OutOfFuel -> "fuel"

let ints l = String.concat "." (List.map (fun n -> string_of_int (int_of_nat n)) l)
let show_dist = function None -> "inf" | Some n -> string_of_int (int_of_nat n)

(* token stream *)
let toks = ref [||] and pos = ref 0
let next () = let t = !toks.(!pos) in incr pos; int_of_string t
let next_nat () = nat_of_int (next ())
let next_opt () = let v = next () in if v < 0 then None else Some (nat_of_int v)
(* node ids / reference names of the G streams: small numbers, 0 = the empty string *)
let id_of_int v = if v = 0 then [] else [nat_of_int v]
let next_id () = let v = next () in if v < 0 then None else Some (id_of_int v)
let next_list () = let n = next () in List.init n (fun _ -> next_nat ())

let read_ops () =
  let n = next () in
  List.init n (fun _ ->
    match next () with
    | 0 -> let v = next () in let id = next_id () in NewNode (KLeaf (v <> 0), id)
    | 1 -> let a = next () in let no = next () in let id = next_id () in
           NewNode (KDec (a <> 0, no <> 0), id)
    | 2 -> let nm = id_of_int (next ()) in let id = next_id () in NewNode (KRef nm, id)
    | 3 -> let s = next_nat () in let t = next_nat () in AddT (s, t)
    | 4 -> AddT (O, O) (* placeholder, see read_prog *)
    | _ -> failwith "bad op")

(* a program: API ops interleaved with GEN (= exhaust generate_paths() on the root) *)
type pop = POp of op | PGen
let read_prog () =
  let n = next () in
  List.init n (fun _ ->
    match next () with
    | 0 -> let v = next () in let id = next_id () in POp (NewNode (KLeaf (v <> 0), id))
    | 1 -> let a = next () in let no = next () in let id = next_id () in
           POp (NewNode (KDec (a <> 0, no <> 0), id))
    | 2 -> let nm = id_of_int (next ()) in let id = next_id () in POp (NewNode (KRef nm, id))
    | 3 -> let s = next_nat () in let t = next_nat () in POp (AddT (s, t))
    | 4 -> PGen
    | _ -> failwith "bad op")

let show_ret = function None -> "N" | Some n -> let k = int_of_nat n in if k mod 3 = 2 then "N" else string_of_int k
let show_vtrace tr = String.concat "." (List.map (fun (n, fr) ->
  string_of_int (int_of_nat n) ^ "<" ^ (match fr with None -> "-" | Some m -> string_of_int (int_of_nat m))) tr)
let show_execv (tr, v) = show_vtrace tr ^ ">" ^ show_ret v

let read_variant () =
  let a = next () in let b = next () in let c = next () in
  { fix_leaf = (a <> 0); fix_af = (b <> 0); fix_reset = (c <> 0) }

let dump_annot ?(only : int list option) g (lr : amap) (lv : amap) =
  let b = Buffer.create 256 in
  List.iteri (fun n nd ->
    if (match only with None -> true | Some l -> List.mem n l) then begin
      List.iteri (fun p _ ->
          Buffer.add_string b (Printf.sprintf "r%d.%d=%s," n p (show_dist (lr (nat_of_int n) (nat_of_int p)))))
        nd.ins;
      List.iteri (fun i _ ->
          Buffer.add_string b (Printf.sprintf "v%d.%d=%s," n i (show_dist (lv (nat_of_int n) (nat_of_int i)))))
        nd.outs end) g;
  Buffer.contents b

let show_entry e =
  Printf.sprintf "%d/%s/%d" (int_of_nat e.etarget) (ints e.epath) (if e.evalid then 1 else 0)

(* ---- strings: token S97-98-99 (code points), S alone = empty ---- *)
let str_of_tok t =
  if String.length t <= 1 then [] else
  List.map (fun x -> nat_of_int (int_of_string x))
    (String.split_on_char '-' (String.sub t 1 (String.length t - 1)))
let tok_of_str s = "S" ^ String.concat "-" (List.map (fun n -> string_of_int (int_of_nat n)) s)
let next_tok () = let t = !toks.(!pos) in incr pos; t
let next_str () = str_of_tok (next_tok ())

let show_kind = function
  | KLeaf v -> if v then "L1" else "L0"
  | KDec (a, n) -> "D" ^ (if a then "1" else "0") ^ (if n then "1" else "0")
  | KRef nm -> "R" ^ (match nm with [] -> "0" | x :: _ -> string_of_int (int_of_nat x))
let dump_graph (g : graph) =
  String.concat ";" (List.mapi (fun n nd ->
    Printf.sprintf "%d:%s:%s:%s" n (show_kind nd.nkind) (ints nd.outs)
      (String.concat "," (List.map (fun (s, i) -> Printf.sprintf "%d.%d" (int_of_nat s) (int_of_nat i)) nd.ins))) g)

(* stream GR: build, resolve(root, extra) -> result root, full node table *)
let run_gr () =
  let fuel = next_nat () in
  let root = next_nat () in
  let g = build (read_ops ()) in
  let extra = next_list () in
  match resolve fuel g root extra with
  | Ok (g', r) ->
    print_endline (Printf.sprintf "res=ok:%d|cons=%d|graph=%s" (int_of_nat r)
      (if ins_okb g' && outs_okb g' then 1 else 0) (dump_graph g'))
  | r -> print_endline ("res=" ^ show_res (fun _ -> "") r)

(* stream GO: build, optimize(root) -> node table, then the observations of stream G *)
let observe_g b v fuel g root lr0 lv0 xpaths =
  Buffer.add_string b (Printf.sprintf "wf=%d|prod=%d|acyc=%d|"
    (if wfb g root then 1 else 0) (if productiveb g then 1 else 0) (if acyclicb g then 1 else 0));
  Buffer.add_string b ("items=" ^ show_res ints (items fuel g root));
  (match generate_paths v fuel g root lr0 lv0 with
   | Ok (a, (es, st)) when es <> [] || st = Ok () ->
     Buffer.add_string b ("|valid=" ^ ints a.a_valid ^ "|invalid=" ^ ints a.a_invalid);
     let only = (match items fuel g root with Ok l -> Some (List.map int_of_nat l) | _ -> None) in
     Buffer.add_string b ("|annot=" ^ dump_annot ?only g a.a_lr a.a_lv);
     Buffer.add_string b ("|entries=" ^ String.concat ";" (List.map show_entry es));
     Buffer.add_string b ("|status=" ^ show_res (fun () -> "") st);
     Buffer.add_string b ("|exec=" ^ String.concat ";"
        (List.map (fun e -> show_res show_execv (executev fuel g root e.epath)) es))
   | Ok (_, (_, st)) -> Buffer.add_string b ("|fail=" ^ show_res (fun () -> "") st)
   | r -> Buffer.add_string b ("|fail=" ^ show_res (fun _ -> "") r));
  Buffer.add_string b ("|xexec=" ^ String.concat ";"
        (List.map (fun p -> show_res show_execv (executev fuel g root p)) xpaths))

let run_go () =
  let v = read_variant () in
  let fuel = next_nat () in
  let root = next_nat () in
  let g = build (read_ops ()) in
  match optimize fuel g root with
  | Ok g' ->
    let b = Buffer.create 1024 in
    Buffer.add_string b ("opt=ok|graph=" ^ dump_graph g' ^ "|");
    observe_g b v fuel g' root aempty aempty [];
    print_endline (Buffer.contents b)
  | r -> print_endline ("opt=" ^ show_res (fun _ -> "") r)

(* stream G: graph program -> items, analysis, entries, execution of every entry, extra paths *)
let run_g () =
  let v = read_variant () in
  let fuel = next_nat () in
  let root = next_nat () in
  let prog = read_prog () in
  let (g, lr0, lv0) = List.fold_left (fun (g, lr, lv) o ->
      match o with
      | POp o -> (apply_op g o, lr, lv)
      | PGen -> (match generate_paths v fuel g root lr lv with
                 | Ok (a, _) -> (g, a.a_lr, a.a_lv)
                 | _ -> (g, lr, lv))) ([], aempty, aempty) prog in
  let npaths = next () in
  let xpaths = List.init npaths (fun _ -> next_list ()) in
  let b = Buffer.create 1024 in
  Buffer.add_string b (Printf.sprintf "wf=%d|prod=%d|acyc=%d|"
    (if wfb g root then 1 else 0) (if productiveb g then 1 else 0) (if acyclicb g then 1 else 0));
  Buffer.add_string b ("items=" ^ show_res ints (items fuel g root));
  (match generate_paths v fuel g root lr0 lv0 with
   | Ok (a, (es, st)) when es <> [] || st = Ok () ->
     Buffer.add_string b ("|valid=" ^ ints a.a_valid ^ "|invalid=" ^ ints a.a_invalid);
     let only = (match items fuel g root with Ok l -> Some (List.map int_of_nat l) | _ -> None) in
     Buffer.add_string b ("|annot=" ^ dump_annot ?only g a.a_lr a.a_lv);
     Buffer.add_string b ("|entries=" ^ String.concat ";" (List.map show_entry es));
     Buffer.add_string b ("|status=" ^ show_res (fun () -> "") st);
     Buffer.add_string b ("|exec=" ^ String.concat ";"
        (List.map (fun e -> show_res show_execv (executev fuel g root e.epath)) es))
   | Ok (_, (_, st)) -> Buffer.add_string b ("|fail=" ^ show_res (fun () -> "") st)
   | r -> Buffer.add_string b ("|fail=" ^ show_res (fun _ -> "") r));
  Buffer.add_string b ("|xexec=" ^ String.concat ";"
        (List.map (fun p -> show_res show_execv (executev fuel g root p)) xpaths));
  print_endline (Buffer.contents b)

(* stream F: format_parameter_value *)
let read_elem () =
  match next_tok () with
  | "e" -> EStr (next_str ())
  | _ -> ENum (next_str ())
let read_value () =
  match next_tok () with
  | "s" -> VStr (next_str ())
  | "b" -> VBool (next () <> 0)
  | "n" -> VNum (next_str ())
  | "l" -> let k = next () in VList (List.init k (fun _ -> read_elem ()))
  | "d" -> let k = next () in VDict (List.init k (fun _ -> let key = next_str () in (key, read_elem ())))
  | _ -> VOther
let show_oval = function
  | OStr s -> "s" ^ tok_of_str s
  | ORaw (EStr s) -> "s" ^ tok_of_str s
  | ORaw (ENum r) -> "n" ^ tok_of_str r
let show_decoded = function
  | None -> "none"
  | Some (DPrim s) -> "P:" ^ tok_of_str s
  | Some (DArr l) -> "A:" ^ String.concat "," (List.map tok_of_str l)
  | Some (DObj d) -> "O:" ^ String.concat "," (List.map (fun (k, v) -> tok_of_str k ^ "=" ^ tok_of_str v) d)
let run_f () =
  let name = next_str () in
  let st = if next () = 0 then Simple else Form in
  let explode = next () <> 0 in
  let v = read_value () in
  let r = format_parameter_value name st explode v in
  let dec = match r with Ok out -> show_decoded (decode st explode name (shape_of v) out) | _ -> "none" in
  print_endline ("out=" ^ show_res (fun out -> String.concat ";"
      (List.map (fun (k, o) -> tok_of_str k ^ "~" ^ show_oval o) out)) r
    ^ "|dec=" ^ dec ^ "|strs=" ^ show_decoded (strs v))

(* ---- canonical dump of a front-end graph: nodes numbered in items() order from the root ---- *)
let dump_canon (g : graph) (show_pay : int -> string) fuel root =
  match items fuel g root with
  | Ok its ->
    let its = List.map int_of_nat its in
    let num = Hashtbl.create 64 in
    List.iteri (fun i n -> Hashtbl.replace num n i) its;
    let c n = match Hashtbl.find_opt num n with Some i -> string_of_int i | None -> "x" in
    let arr = Array.of_list g in
    "ok:" ^ String.concat ";" (List.map (fun n ->
      let nd = arr.(n) in
      Printf.sprintf "%s:%s:%s:%s:%s" (c n) (show_kind nd.nkind) (show_pay n)
        (String.concat "." (List.map (fun t -> c (int_of_nat t)) nd.outs))
        (String.concat "," (List.map (fun (s, i) -> c (int_of_nat s) ^ "." ^ string_of_int (int_of_nat i)) nd.ins))) its)
  | r -> show_res (fun _ -> "") r
let canon_entries (g : graph) fuel root es =
  match items fuel g root with
  | Ok its ->
    let its = List.map int_of_nat its in
    let num = Hashtbl.create 64 in
    List.iteri (fun i n -> Hashtbl.replace num n i) its;
    String.concat ";" (List.map (fun e ->
      Printf.sprintf "%d/%s/%d" (try Hashtbl.find num (int_of_nat e.etarget) with Not_found -> -1) (ints e.epath)
        (if e.evalid then 1 else 0)) es)
  | _ -> "?"

(* stream R: regex AST -> graph, entries, samples; RS: generate_random_string *)
let read_quant () =
  match next_tok () with
  | "n" -> None
  | "*" -> Some QStar | "+" -> Some QPlus | "?" -> Some QOpt
  | "e" -> let n = next_nat () in Some (QRange (n, None))
  | "a" -> let n = next_nat () in Some (QRange (n, Some None))
  | "b" -> let n = next_nat () in let m = next_nat () in Some (QRange (n, Some (Some m)))
  | t -> failwith ("quant " ^ t)
let read_citem () =
  match next_tok () with
  | "c" -> CChar (next_nat ())
  | _ -> let a = next_nat () in let b = next_nat () in CRange (a, b)
let rec read_regex () =
  match next_tok () with
  | "A1" -> RAlt1 (read_sub ())
  | _ -> let s = read_sub () in let r = read_regex () in RAlt (s, r)
and read_sub () =
  match next_tok () with
  | "S1" -> SOne (read_item ())
  | _ -> let i = read_item () in let s = read_sub () in SCons (i, s)
and read_item () =
  match next_tok () with
  | "C" -> let c = next_nat () in let q = read_quant () in IChar (c, q)
  | "K" -> let n = next () in let l = List.init n (fun _ -> read_citem ()) in let q = read_quant () in
           IClass (List.hd l, List.tl l, q)
  | _ -> let nc = next () <> 0 in let r = read_regex () in let q = read_quant () in IGroup (nc, r, q)
let show_payload st n =
  match List.nth_opt st.b_pay n with
  | Some (PChars s) -> tok_of_str s | Some PInput -> "I" | Some POutput -> "O" | _ -> "-"
let run_r () =
  let v = read_variant () in
  let fuel = next_nat () in
  let r = read_regex () in
  match parse_regex fuel r with
  | Ok (st, root) ->
    let g = st.b_graph in
    let b = Buffer.create 1024 in
    Buffer.add_string b ("graph=" ^ dump_canon g (show_payload st) fuel root);
    (match generate_paths v fuel g root aempty aempty with
     | Ok (_, (es, stt)) ->
       Buffer.add_string b ("|entries=" ^ canon_entries g fuel root es ^ "|status=" ^ show_res (fun () -> "") stt);
       Buffer.add_string b ("|samples=" ^ String.concat ";" (List.map (fun e ->
         show_res (fun tr -> tok_of_str (output_of st tr)) (execute fuel g root e.epath)) es))
     | r -> Buffer.add_string b ("|fail=" ^ show_res (fun _ -> "") r));
    print_endline (Buffer.contents b)
  | r -> print_endline ("parse=" ^ show_res (fun _ -> "") r)
let run_rs () =
  let v = read_variant () in
  let fuel = next_nat () in
  let mn = next_nat () in
  let mx = next_opt () in
  let pat = if next () <> 0 then Some (read_regex ()) else None in
  print_endline ("str=" ^ show_res tok_of_str (gen_random_string v fuel mn mx pat))

(* stream GM: grammar -> graph, entries, samples *)
let rec read_rhs () =
  match next_tok () with
  | "T" -> GTerm (next_str ())
  | "N" -> GNT (next_str ())
  | "C" -> let k = next () in GConcat (List.init k (fun _ -> read_rhs ()))
  | "A" -> let k = next () in GAlt (List.init k (fun _ -> read_rhs ()))
  | "R" -> let a = next_nat () in let b = next_nat () in GRange (a, b)
  | _ -> let start = next_nat () in let stop = next_opt () in let e = read_rhs () in GRep (e, start, stop)
let front_end_obs v fuel st root =
  let g = st.b_graph in
  let b = Buffer.create 1024 in
  Buffer.add_string b ("graph=" ^ dump_canon g (show_payload st) fuel root);
  (match generate_paths v fuel g root aempty aempty with
   | Ok (_, (es, stt)) ->
     Buffer.add_string b ("|entries=" ^ canon_entries g fuel root es ^ "|status=" ^ show_res (fun () -> "") stt);
     Buffer.add_string b ("|samples=" ^ String.concat ";" (List.map (fun e ->
       show_res (fun tr -> tok_of_str (output_of st tr)) (execute fuel g root e.epath)) es))
   | r -> Buffer.add_string b ("|fail=" ^ show_res (fun _ -> "") r));
  Buffer.contents b
let run_gm () =
  let v = read_variant () in
  let fuel = next_nat () in
  let n = next () in
  let g = List.init n (fun _ -> let name = next_str () in (name, read_rhs ())) in
  let start = next_str () in
  match parse_grammar fuel g start with
  | Ok (st, root) -> print_endline (front_end_obs v fuel st root)
  | r -> print_endline ("parse=" ^ show_res (fun _ -> "") r)

(* ---- JSON values: prefix tokens  n | t | f | i<int> | s<S..> | a<k> v.. | o<k> (S.. v).. ---- *)
let rec pos_of_int n = if n <= 1 then XH else if n land 1 = 0 then XO (pos_of_int (n lsr 1)) else XI (pos_of_int (n lsr 1))
let z_of_int n = if n = 0 then Z0 else if n > 0 then Zpos (pos_of_int n) else Zneg (pos_of_int (- n))
let rec int_of_pos = function XH -> 1 | XO p -> 2 * int_of_pos p | XI p -> 2 * int_of_pos p + 1
let int_of_z = function Z0 -> 0 | Zpos p -> int_of_pos p | Zneg p -> - (int_of_pos p)
let rec read_json () =
  let t = next_tok () in
  match t.[0] with
  | 'n' -> JNull | 't' -> JBool true | 'f' -> JBool false
  | 'i' -> JNum (z_of_int (int_of_string (String.sub t 1 (String.length t - 1))))
  | 's' -> JStr (str_of_tok (String.sub t 1 (String.length t - 1)))
  | 'a' -> let k = int_of_string (String.sub t 1 (String.length t - 1)) in JArr (List.init k (fun _ -> read_json ()))
  | 'o' -> let k = int_of_string (String.sub t 1 (String.length t - 1)) in
           JObj (List.init k (fun _ -> let key = next_str () in (key, read_json ())))
  | _ -> failwith ("json " ^ t)
let rec show_json = function
  | JNull -> "n" | JBool true -> "t" | JBool false -> "f"
  | JNum z -> "i" ^ string_of_int (int_of_z z)
  | JStr s -> "s" ^ tok_of_str s
  | JArr l -> String.concat " " (("a" ^ string_of_int (List.length l)) :: List.map show_json l)
  | JObj d -> String.concat " " (("o" ^ string_of_int (List.length d)) :: List.map (fun (k, v) -> tok_of_str k ^ " " ^ show_json v) d)

(* stream N: normalize *)
let run_n () =
  let sv = (next () <> 0) in
  let fm = (next () <> 0) in
  let dd = (next () <> 0) in
  let fuel = next_nat () in
  let s = read_json () in
  let cfg = { full_merge = fm; discard_fields = default_discard; detect_dup = dd } in
  print_endline ("norm=" ^ show_res show_json (normalize sv cfg fuel s))

(* stream NS: a document of the propositional-scalar fragment and instances: the membership test fragb, the evaluator semb
   per instance, and the model's normal form evaluated keyword set by keyword set on the same instances
   (C06_fragment_exec, run) *)
let run_ns () =
  let depth = next_nat () in
  let fuel = next_nat () in
  let s = read_json () in
  let k = next () in
  let xs = List.init k (fun _ -> read_json ()) in
  let fb = fragb depth s in
  let bits = String.concat "" (List.map (fun x -> if semb depth x s then "1" else "0") xs) in
  let cfg = { full_merge = true; discard_fields = default_discard; detect_dup = false } in
  let nf = try (match normalize true cfg fuel s with
    | Ok n ->
      (match any_of n with
       | Ok alts ->
         "ok:" ^ String.concat "" (List.map (fun x ->
           if List.exists (fun a -> match a with
                                    | JObj d -> List.for_all (fun (k, v) -> kvalidb k v x) d
                                    | _ -> false) alts then "1" else "0") xs)
       | r -> show_res (fun _ -> "") r)
    | r -> show_res (fun _ -> "") r) with Timeout -> "timeout" | Stack_overflow -> "timeout" | Out_of_memory -> "timeout" in
  print_endline (Printf.sprintf "frag=%d|sem=%s|nf=%s" (if fb then 1 else 0) bits nf)

(* stream J: JSON schema -> graph, entries, samples *)
let cjson j = String.concat "," (String.split_on_char ' ' (show_json j))
let show_jpay st n =
  match List.nth_opt st.jb_pay n with
  | Some (JPSet v) -> "=" ^ cjson v | Some (JPKey k) -> "K" ^ tok_of_str k
  | Some JPArr -> "A" | Some JPAppend -> "+" | Some JPObj -> "{" | Some JPInput -> "I" | Some JPOutput -> "O"
  | _ -> "-"
let run_j () =
  let v = read_variant () in
  let sv = (next () <> 0) in
  let fuel = next_nat () in
  let mode = next () in
  let s = read_json () in
  let r = if mode = 0 then parse_json_schema sv fuel s else parse_nf fuel s in
  match r with
  | Ok (st, root) ->
    let g = st.jb_graph in
    let b = Buffer.create 4096 in
    Buffer.add_string b ("graph=" ^ dump_canon g (show_jpay st) fuel root);
    (match generate_paths v fuel g root aempty aempty with
     | Ok (_, (es, stt)) ->
       Buffer.add_string b ("|entries=" ^ canon_entries g fuel root es ^ "|status=" ^ show_res (fun () -> "") stt);
       Buffer.add_string b ("|samples=" ^ String.concat ";" (List.map (fun e ->
         show_res cjson (jsample fuel st root e.epath)) es))
     | r -> Buffer.add_string b ("|fail=" ^ show_res (fun _ -> "") r));
    print_endline (Buffer.contents b)
  | r -> print_endline ("parse=" ^ show_res (fun _ -> "") r)

(* stream W: a node table dumped from an implementation graph -> the model's well-formedness checkers
   (wfb is proved sufficient for wf: GraphCheck.wfb_wf, so C03/C04/C05 apply to this very graph) *)
let run_w () =
  let root = next_nat () in
  let n = next () in
  let g = List.init n (fun _ ->
    let k = match next () with
      | 0 -> KLeaf false | 1 -> KLeaf true
      | 2 -> KDec (false, false) | 3 -> KDec (false, true) | 4 -> KDec (true, false) | 5 -> KDec (true, true)
      | _ -> KRef [] in
    let outs = next_list () in
    let ni = next () in
    let ins = List.init ni (fun _ -> let s = next_nat () in let i = next_nat () in (s, i)) in
    { nkind = k; nid = None; outs = outs; ins = ins }) in
  print_endline (Printf.sprintf "wf=%d|cons=%d|prod=%d|acyc=%d"
    (if wfb g root then 1 else 0) (if ins_okb g && outs_okb g then 1 else 0)
    (if productiveb g then 1 else 0) (if acyclicb g then 1 else 0))

(* stream WG: the node table of a front-end graph: the certificate of stream W, then generate_paths of the model *)
let run_wg () =
  let fuel = next_nat () in
  let root = next_nat () in
  let n = next () in
  let g = List.init n (fun _ ->
    let k = match next () with
      | 0 -> KLeaf false | 1 -> KLeaf true
      | 2 -> KDec (false, false) | 3 -> KDec (false, true) | 4 -> KDec (true, false) | 5 -> KDec (true, true)
      | _ -> KRef [] in
    let outs = next_list () in
    let ni = next () in
    let ins = List.init ni (fun _ -> let s = next_nat () in let i = next_nat () in (s, i)) in
    { nkind = k; nid = None; outs = outs; ins = ins }) in
  let cert = Printf.sprintf "wf=%d|cons=%d|prod=%d|acyc=%d"
    (if wfb g root then 1 else 0) (if ins_okb g && outs_okb g then 1 else 0)
    (if productiveb g then 1 else 0) (if acyclicb g then 1 else 0) in
  let v = { fix_leaf = true; fix_af = true; fix_reset = true } in
  (match generate_paths v fuel g root aempty aempty with
   | Ok (_, (es, st)) ->
     print_endline (cert ^ "|entries=" ^ String.concat ";" (List.map show_entry es) ^ "|status=" ^ show_res (fun () -> "") st)
   | r -> print_endline (cert ^ "|entries=|status=" ^ show_res (fun _ -> "") r))

(* stream X: XML schema tree + the numbers drawn at parse time -> graph, entries *)
let rec read_xml () =
  let tag = next_str () in
  let na = next () in
  let attrs = List.init na (fun _ -> let k = next_str () in let v = next_str () in (k, v)) in
  let nk = next () in
  let kids = List.init nk (fun _ -> read_xml ()) in
  XEl (tag, attrs, kids)
let show_xpay (st : xbst) n =
  match List.nth_opt st.x_pay n with
  | Some XPStart -> "S"
  | Some (XPFetch None) -> "F-"
  | Some (XPFetch (Some ns)) -> "F" ^ tok_of_str ns
  | Some (XPAttr a) -> "A" ^ tok_of_str a
  | Some (XPElem t) -> "E" ^ tok_of_str t
  | Some (XPSet v) -> "=" ^ tok_of_str v
  | _ -> "-"
let rec show_doc (d : xdoc) =
  match d with XD (t, a, tx, ks) ->
    String.concat " " ([tok_of_str t; string_of_int (List.length a)]
      @ List.concat_map (fun (k, v) -> [tok_of_str k; tok_of_str v]) a
      @ [(match tx with Some v -> "T" ^ tok_of_str v | None -> "-"); string_of_int (List.length ks)]
      @ List.map show_doc ks)
let run_x () =
  let v = read_variant () in
  let fuel = next_nat () in
  let nd = next () in
  let draws = List.init nd (fun _ -> z_of_int (next ())) in
  let schema = read_xml () in
  match parse_xsd fuel schema draws with
  | Ok (st, root) ->
    let g = st.x_graph in
    let b = Buffer.create 1024 in
    Buffer.add_string b ("graph=" ^ dump_canon g (show_xpay st) fuel root);
    (match generate_paths v fuel g root aempty aempty with
     | Ok (_, (es, stt)) ->
       Buffer.add_string b ("|entries=" ^ canon_entries g fuel root es ^ "|status=" ^ show_res (fun () -> "") stt);
       Buffer.add_string b ("|samples=" ^ String.concat ";" (List.map (fun e -> show_res show_doc (xsample fuel st root e.epath)) es))
     | r -> Buffer.add_string b ("|fail=" ^ show_res (fun _ -> "") r));
    print_endline (Buffer.contents b)
  | r -> print_endline ("parse=" ^ show_res (fun _ -> "") r)

(* stream O: SampleCache histories *)
let ecls_of_code = function
  | 0 -> EResolveReference | 1 -> EInternal | 2 -> ENormalization | 3 -> EJsonPointer
  | 4 -> EJsonSchema | 5 -> ERegex | 6 -> EGrammar | 7 -> EXmlSchema | 8 -> EOpenApi | 9 -> EConfig
  | 10 -> EIndexError | 11 -> EKeyError | 12 -> EAttributeError | 13 -> EAssertionError
  | 14 -> ETypeError | 15 -> EValueError | 16 -> ENotImplemented | _ -> EOtherPy
let pos_of = function 0 -> PQuery | 1 -> PHeader | 2 -> PPath | _ -> PCookie
let pos_name = function PQuery -> "query" | PHeader -> "header" | PPath -> "path" | PCookie -> "cookie"
let show_param p = Printf.sprintf "%d.%s" (int_of_nat p.p_name) (pos_name p.p_pos)
let run_o with_graph =
  let gv = if with_graph then Some (read_variant ()) else None in
  let v = (next () <> 0) in
  let ncomp = next () in
  let tbl = Hashtbl.create 16 in
  for _ = 1 to ncomp do
    let k = next () in let b = next () in let kind = next () in let a = next () in
    let r = match kind with
      | 0 -> let vs = next_list () in let is = next_list () in Ok (vs, is)
      | 1 -> LibErr (ecls_of_code a)
      | _ -> PyErr (ecls_of_code a) in
    Hashtbl.replace tbl (k, b) r
  done;
  let compute k b =
    match Hashtbl.find_opt tbl (int_of_nat k, if b then 1 else 0) with
    | Some r -> r | None -> PyErr EOtherPy in
  let nops = next () in
  let ops = Array.init nops (fun _ ->
    let id = next_nat () in
    let np = next () in
    let ps = List.init np (fun _ ->
      let name = next_nat () in let pos = pos_of (next ()) in let req = next () <> 0 in
      let sch = next_nat () in { p_name = name; p_pos = pos; p_required = req; p_schema = sch }) in
    let body = if next () <> 0 then (let k = next_nat () in let r = next () <> 0 in Some (k, r)) else None in
    { o_id = id; o_params = ps; o_body = body }) in
  let ncalls = next () in
  let c = ref empty_cache in
  let outs = ref [] in
  for _ = 1 to ncalls do
    let kind = next () in
    let op = ops.(next ()) in
    let n = next () in
    if kind = 0 then begin
      let ov = List.init n (fun _ -> let name = next_nat () in (name, next_list ())) in
      let (c', r) = generate_all v compute !c op ov in
      c := c';
      outs := show_res (fun pl -> String.concat ";" (List.map (fun g ->
          (match g.g_param with Some p -> show_param p | None -> "body")
          ^ "/o" ^ (match g.g_omit with None -> "-" | Some true -> "1" | Some false -> "0")
          ^ "/v" ^ ints g.g_valid ^ "/i" ^ ints g.g_invalid) pl)
          ^ (match gv with
             | None -> ""
             | Some gvar ->
               (* the request graph of the plan and what generate_paths yields for it *)
               let fuel = nat_of_int 64 in
               let g = plan_graph pl in
               (match generate_paths gvar fuel g O aempty aempty with
                | Ok (_, (es, stt)) ->
                  "|entries=" ^ String.concat "," (List.map (fun e ->
                    ints e.epath ^ ":" ^ (if e.evalid then "1" else "0") ^ ":" ^
                    (match picks pl e.epath with
                     | Some cs -> String.concat "." (List.map (fun (_, c) ->
                         match c with COmit -> "o" | CVal s -> string_of_int (int_of_nat s)) cs)
                     | None -> "?")) es)
                  ^ "|status=" ^ show_res (fun () -> "") stt
                  ^ "|wf=" ^ (if wfb g O then "1" else "0")
                | r -> "|fail=" ^ show_res (fun _ -> "") r))) r :: !outs
    end else begin
      let ow = List.init n (fun _ -> let name = next_nat () in (name, next_nat ())) in
      let (c', r) = generate_one_valid compute !c op ow in
      c := c';
      outs := show_res (fun (l, b) -> String.concat ";" (List.map (fun (p, s) ->
          show_param p ^ "=" ^ string_of_int (int_of_nat s)) l)
          ^ "/b" ^ (match b with None -> "-" | Some s -> string_of_int (int_of_nat s))) r :: !outs
    end
  done;
  print_endline (String.concat " # " (List.rev !outs))

(* a case that keeps the model busy for more than [limit] seconds is given up (reported as error=timeout):
   the harness counts it and draws no conclusion from it *)
let limit = try int_of_string (Sys.getenv "FENCES_DRIVER_LIMIT") with _ -> 30

let () =
  Sys.set_signal Sys.sigalrm (Sys.Signal_handle (fun _ -> raise Timeout));
  try
    while true do
      let line = input_line stdin in
      let ts = Array.of_list (List.filter (fun s -> s <> "") (String.split_on_char ' ' line)) in
      if Array.length ts > 0 then begin
        toks := ts; pos := 1;
        ignore (Unix.alarm limit);
        (try
           match ts.(0) with
           | "G" -> run_g ()
           | "GR" -> run_gr ()
           | "GO" -> run_go ()
           | "R" -> run_r ()
           | "RS" -> run_rs ()
           | "GM" -> run_gm ()
           | "N" -> run_n ()
           | "W" -> run_w ()
           | "WG" -> run_wg ()
           | "X" -> run_x ()
           | "J" -> run_j ()
           | "NS" -> run_ns ()
           | "F" -> run_f ()
           | "O" -> run_o false
           | "OG" -> run_o true
           | t -> print_endline ("error=unknown-stream:" ^ t)
         with Stack_overflow -> print_endline "error=stack-overflow"
            | Failure m -> print_endline ("error=failure:" ^ m)
            | Invalid_argument m -> print_endline ("error=invalid:" ^ m)
            | Timeout -> print_endline "error=timeout"
            | Out_of_memory -> print_endline "error=timeout");
        ignore (Unix.alarm 0)
      end
    done
  with End_of_file -> ()

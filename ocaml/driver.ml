(* driver.ml -- unverified glue: reads one case per line, runs the extracted model,
   prints one canonical observation per line.  See harness/streams.py for the format. *)
open Model

let rec nat_of_int n = if n <= 0 then O else S (nat_of_int (n - 1))
let rec int_of_nat = function O -> 0 | S n -> 1 + int_of_nat n

let ecls_name = function
  | EResolveReference -> "ResolveReference" | EInternal -> "Internal"
  | ENormalization -> "Normalization" | EJsonPointer -> "JsonPointer"
  | EJsonSchema -> "JsonSchema" | ERegex -> "Regex" | EGrammar -> "Grammar"
  | EXmlSchema -> "XmlSchema" | EOpenApi -> "OpenApi" | EConfig -> "Config"
  | EIndexError -> "IndexError" | EKeyError -> "KeyError" | EAttributeError -> "AttributeError"
  | EAssertionError -> "AssertionError" | ETypeError -> "TypeError" | EValueError -> "ValueError"
  | ENotImplemented -> "NotImplementedError" | EOtherPy -> "Other"

let show_res f = function
  | Ok a -> "ok:" ^ f a
  | LibErr c -> "lib:" ^ ecls_name c
  | PyErr c -> "py:" ^ ecls_name c
  | OutOfFuel -> "fuel"

let ints l = String.concat "." (List.map (fun n -> string_of_int (int_of_nat n)) l)
let show_dist = function None -> "inf" | Some n -> string_of_int (int_of_nat n)

(* token stream *)
let toks = ref [||] and pos = ref 0
let next () = let t = !toks.(!pos) in incr pos; int_of_string t
let next_nat () = nat_of_int (next ())
let next_opt () = let v = next () in if v < 0 then None else Some (nat_of_int v)
let next_list () = let n = next () in List.init n (fun _ -> next_nat ())

let read_ops () =
  let n = next () in
  List.init n (fun _ ->
    match next () with
    | 0 -> let v = next () in let id = next_opt () in NewNode (KLeaf (v <> 0), id)
    | 1 -> let a = next () in let no = next () in let id = next_opt () in
           NewNode (KDec (a <> 0, no <> 0), id)
    | 2 -> let nm = next_nat () in let id = next_opt () in NewNode (KRef nm, id)
    | 3 -> let s = next_nat () in let t = next_nat () in AddT (s, t)
    | _ -> failwith "bad op")

let read_variant () =
  let a = next () in let b = next () in { fix_leaf = (a <> 0); fix_af = (b <> 0) }

let dump_annot g (lr : amap) (lv : amap) =
  let b = Buffer.create 256 in
  List.iteri (fun n nd ->
      List.iteri (fun p _ ->
          Buffer.add_string b (Printf.sprintf "r%d.%d=%s," n p (show_dist (lr (nat_of_int n) (nat_of_int p)))))
        nd.ins;
      List.iteri (fun i _ ->
          Buffer.add_string b (Printf.sprintf "v%d.%d=%s," n i (show_dist (lv (nat_of_int n) (nat_of_int i)))))
        nd.outs) g;
  Buffer.contents b

let show_entry e =
  Printf.sprintf "%d/%s/%d" (int_of_nat e.etarget) (ints e.epath) (if e.evalid then 1 else 0)

(* stream G: graph program -> items, analysis, entries, execution of every entry, extra paths *)
let run_g () =
  let v = read_variant () in
  let fuel = next_nat () in
  let root = next_nat () in
  let g = build (read_ops ()) in
  let npaths = next () in
  let xpaths = List.init npaths (fun _ -> next_list ()) in
  let b = Buffer.create 1024 in
  Buffer.add_string b (Printf.sprintf "wf=%d|prod=%d|acyc=%d|"
    (if wfb g root then 1 else 0) (if productiveb g then 1 else 0) (if acyclicb g then 1 else 0));
  Buffer.add_string b ("items=" ^ show_res ints (items fuel g root));
  (match generate_paths v fuel g root aempty aempty with
   | Ok (a, (es, st)) when es <> [] || st = Ok () ->
     Buffer.add_string b ("|valid=" ^ ints a.a_valid ^ "|invalid=" ^ ints a.a_invalid);
     Buffer.add_string b ("|annot=" ^ dump_annot g a.a_lr a.a_lv);
     Buffer.add_string b ("|entries=" ^ String.concat ";" (List.map show_entry es));
     Buffer.add_string b ("|status=" ^ show_res (fun () -> "") st);
     Buffer.add_string b ("|exec=" ^ String.concat ";"
        (List.map (fun e -> show_res ints (execute fuel g root e.epath)) es))
   | Ok (_, (_, st)) -> Buffer.add_string b ("|fail=" ^ show_res (fun () -> "") st)
   | r -> Buffer.add_string b ("|fail=" ^ show_res (fun _ -> "") r));
  Buffer.add_string b ("|xexec=" ^ String.concat ";"
        (List.map (fun p -> show_res ints (execute fuel g root p)) xpaths));
  print_endline (Buffer.contents b)

let () =
  try
    while true do
      let line = input_line stdin in
      let ts = Array.of_list (List.filter (fun s -> s <> "") (String.split_on_char ' ' line)) in
      if Array.length ts > 0 then begin
        toks := ts; pos := 1;
        (try
           match ts.(0) with
           | "G" -> run_g ()
           | t -> print_endline ("error=unknown-stream:" ^ t)
         with Stack_overflow -> print_endline "error=stack-overflow"
            | Failure m -> print_endline ("error=failure:" ^ m)
            | Invalid_argument m -> print_endline ("error=invalid:" ^ m))
      end
    done
  with End_of_file -> ()

#!/bin/bash
# Build the Coq development (full .vo build) and the extracted OCaml driver. Offline.
set -e
cd "$(dirname "$0")"
# fail closed on forbidden vernacular
if grep -rnE '\b(Admitted|admit|Axiom|Parameter|Conjecture|Admit Obligations)\b|Unset Guard|bypass_check|type-in-type|impredicative-set' coq/*.v coq/Properties/*.v 2>/dev/null | grep -v '^\S*:\s*[0-9]*:\s*(\*' ; then
  echo "forbidden vernacular found" >&2; exit 2
fi
mkdir -p build evidence replays
( cd coq && coq_makefile -f _CoqProject -o Makefile >/dev/null && timeout 3000 make -j16 2>&1 | tail -40; exit ${PIPESTATUS[0]} )
cp coq/model.ml coq/model.mli build/
cp ocaml/driver.ml build/
( cd build && timeout 600 ocamlfind ocamlopt -package unix -linkpkg -O3 -w -a model.mli model.ml driver.ml -o driver 2>/dev/null || timeout 600 ocamlfind ocamlopt -package unix -linkpkg -w -a model.mli model.ml driver.ml -o driver )
echo "setup ok"

(* GrammarLang.v -- every complete execution of the graph that the model of grammar/convert.py builds for a grammar
   yields a string that the start symbol derives (C08). *)
From Fences Require Import Grammar GraphSpec GraphLinks GraphExec GraphRun GraphOpt GraphResolve GraphResolveSem RegexLang.

(* ---------- the state of the builder ---------- *)
Definition gok (st : bst) : Prop :=
  okst st /\ consistent (b_graph st) /\ outs_dec (b_graph st) /\ payinv st.

Lemma nid_add_t s t st m : nid (getn (b_graph (add_t s t st)) m) = nid (getn (b_graph st) m).
Proof.
  unfold add_t, add_transition. cbn [b_graph].
  assert (A : forall h y f, (forall nd, nid (f nd) = nid nd) -> nid (getn (upd_node h y f) m) = nid (getn h m)).
  { intros h y f Hf. destruct (Nat.eq_dec m y) as [->|Ne].
    - destruct (Nat.lt_ge_cases y (length h)) as [Lt|Ge].
      + rewrite getn_upd_same by exact Lt. apply Hf.
      + rewrite upd_node_out by exact Ge. reflexivity.
    - rewrite getn_upd_other by exact Ne. reflexivity. }
  rewrite A by reflexivity. rewrite A by reflexivity. reflexivity.
Qed.

Lemma gok_new k id p st : gok st ->
  (forall s, p = PChars s -> exists v, k = KLeaf v) -> (forall v, k = KLeaf v -> v = true) ->
  let st' := mkBst (b_graph st ++ [mkNode k id [] []]) (b_pay st ++ [p]) in
  gok st' /\ len st' = S (len st) /\ same_on (fun m => m < len st) st st' /\ view st' (len st) = (k, [], p) /\
  nid (getn (b_graph st') (len st)) = id /\ (forall m, m < len st -> nid (getn (b_graph st') m) = nid (getn (b_graph st) m)).
Proof.
  intros (Ok & Co & Od & Py) Hp Hk st'.
  (* the id does not matter for anything but nid: reuse the lemmas about new_node through a node with the same view *)
  assert (E : new_node k p st = (mkBst (b_graph st ++ [mkNode k None [] []]) (b_pay st ++ [p]), len st)) by reflexivity.
  assert (G : forall m, m < len st -> getn (b_graph st') m = getn (b_graph st) m) by (intros m L; apply getn_app_old; exact L).
  assert (Gn : getn (b_graph st') (len st) = mkNode k id [] []).
  { unfold getn, len, st'. cbn [b_graph]. rewrite app_nth2 by lia. rewrite Nat.sub_diag. reflexivity. }
  assert (Ls : len st' = S (len st)) by (unfold len, st'; cbn [b_graph]; rewrite app_length; simpl; lia).
  destruct Ok as [Lp Ot].
  assert (Ok' : okst st').
  { split; [unfold len, st' in *; cbn [b_graph b_pay]; rewrite !app_length; simpl; lia|].
    intros m t Ht. rewrite Ls. destruct (Nat.lt_ge_cases m (len st)) as [L|L].
    - unfold outs_of in Ht. rewrite G in Ht by exact L. specialize (Ot m t Ht). lia.
    - destruct (Nat.eq_dec m (len st)) as [->|Ne].
      + unfold outs_of in Ht. rewrite Gn in Ht. destruct Ht.
      + rewrite outs_of_out in Ht; [destruct Ht|]. fold (len st'). lia. }
  split; [split; [exact Ok'|split; [|split]]|].
  - apply new_node_consistent. exact Co.
  - intros s Hs. destruct (Nat.lt_ge_cases s (len st)) as [L|L].
    + unfold outs_of, is_dec, kind_of in *. rewrite G in * by exact L. apply Od. exact Hs.
    + exfalso. apply Hs. destruct (Nat.eq_dec s (len st)) as [->|Ne].
      * unfold outs_of. rewrite Gn. reflexivity.
      * apply outs_of_out. fold (len st'). lia.
  - destruct Py as (Lq & Hq & Hv). split; [unfold len, st' in *; cbn [b_graph b_pay]; rewrite !app_length; simpl; lia|]. split.
    + intros m s Hm. unfold pay_of, is_leaf, kind_of in *. unfold st' in Hm. cbn [b_pay] in Hm.
      destruct (Nat.lt_ge_cases m (len st)) as [L|L].
      * rewrite app_nth1 in Hm by (rewrite Lp; exact L). rewrite G by exact L. eapply Hq; eauto.
      * destruct (Nat.eq_dec m (len st)) as [->|Ne].
        -- rewrite app_nth2 in Hm by lia. rewrite Lp, Nat.sub_diag in Hm. cbn [nth] in Hm.
           destruct (Hp s Hm) as [v ->]. rewrite Gn. reflexivity.
        -- rewrite nth_overflow in Hm; [discriminate|]. rewrite app_length. simpl. lia.
    + intros m v Hm. unfold kind_of in *. destruct (Nat.lt_ge_cases m (len st)) as [L|L].
      * rewrite G in Hm by exact L. eapply Hv; eauto.
      * destruct (Nat.eq_dec m (len st)) as [->|Ne].
        -- rewrite Gn in Hm. apply Hk. exact Hm.
        -- rewrite getn_out in Hm; [cbn in Hm; inversion Hm; reflexivity|]. fold (len st'). lia.
  - split; [exact Ls|]. split; [|split; [|split]].
    + intros m L. unfold view, kind_of, outs_of, pay_of. rewrite G by exact L.
      unfold st'. cbn [b_pay]. rewrite app_nth1 by (rewrite Lp; exact L). reflexivity.
    + unfold view, kind_of, outs_of, pay_of. rewrite Gn. unfold st'. cbn [b_pay nkind outs].
      rewrite app_nth2 by lia. rewrite Lp, Nat.sub_diag. reflexivity.
    + rewrite Gn. reflexivity.
    + intros m L. rewrite G by exact L. reflexivity.
Qed.

Lemma gok_add_t s t st : gok st -> is_dec (b_graph st) s = true -> t < len st ->
  let st' := add_t s t st in
  gok st' /\ len st' = len st /\ same_on (fun m => m <> s) st st' /\
  view st' s = (kind_of (b_graph st) s, outs_of (b_graph st) s ++ [t], pay_of st s) /\
  (forall m, nid (getn (b_graph st') m) = nid (getn (b_graph st) m)).
Proof.
  intros (Ok & Co & Od & Py) Ds Lt st'.
  pose proof (is_dec_lt _ _ Ds) as Ls.
  destruct (add_t_spec s t st Ok Ls Lt) as (L1 & Ok1 & S1 & V1).
  destruct (add_transition_spec (b_graph st) s t Ls Lt) as (K & O & _ & _).
  split; [split; [exact Ok1|split; [|split]]|].
  - apply add_transition_consistent; auto.
  - intros x Hx. unfold st', add_t in *. cbn [b_graph] in *. unfold is_dec. rewrite K. fold (is_dec (b_graph st) x).
    rewrite O in Hx. destruct (Nat.eqb_spec x s) as [E|Ne]; [subst x; exact Ds|apply Od; exact Hx].
  - apply payinv_add_t. exact Py.
  - split; auto. split; auto. split; auto. intros m. apply nid_add_t.
Qed.

(* ---------- what the converter builds for a right-hand side ---------- *)
Definition rep_count (start : nat) (stop : option nat) (k : nat) : Prop :=
  k = start \/ (k = match stop with Some s => s | None => start + 3 end).

Inductive shape (R : nat -> Prop) (st : bst) : nat -> rhs -> Prop :=
| sh_term x s : R x -> view st x = (KLeaf true, [], PChars s) -> shape R st x (GTerm s)
| sh_nt x name : R x -> view st x = (KRef name, [], PNone) -> shape R st x (GNT name)
| sh_concat x cs l : R x -> view st x = (KDec true true, cs, PNone) -> shapes R st cs l -> shape R st x (GConcat l)
| sh_alt x cs l : R x -> view st x = (KDec false true, cs, PNone) -> shapes R st cs l -> shape R st x (GAlt l)
| sh_range x a b l1 l2 : R x -> R l1 -> R l2 -> view st x = (KDec false true, [l1; l2], PNone) ->
    view st l1 = (KLeaf true, [], PChars [a]) -> view st l2 = (KLeaf true, [], PChars [b]) -> shape R st x (GRange a b)
| sh_rep x e start stop child alts : R x -> view st x = (KDec false true, alts, PNone) -> shape R st child e ->
    (forall a, In a alts -> R a /\ ((view st a = (KLeaf true, [], PNone) /\ start = 0) \/
                                   (exists k, view st a = (KDec true true, repeat child k, PNone) /\ rep_count start stop k))) ->
    shape R st x (GRep e start stop)
with shapes (R : nat -> Prop) (st : bst) : list nat -> list rhs -> Prop :=
| shapes_nil : shapes R st [] []
| shapes_cons c e cs l : shape R st c e -> shapes R st cs l -> shapes R st (c :: cs) (e :: l).

Scheme shape_mind := Induction for shape Sort Prop
  with shapes_mind := Induction for shapes Sort Prop.

Lemma shape_move (R R' : nat -> Prop) st st' x e :
  shape R st x e -> (forall m, R m -> R' m) -> same_on R st st' -> shape R' st' x e.
Proof.
  intros H W S. induction H using shape_mind with (P0 := fun cs l _ => shapes R' st' cs l).
  - apply sh_term; auto. rewrite (S x r). assumption.
  - apply sh_nt; auto. rewrite (S x r). assumption.
  - eapply sh_concat; eauto. rewrite (S x r). assumption.
  - eapply sh_alt; eauto. rewrite (S x r). assumption.
  - apply (sh_range R' st' x a b l1 l2); auto;
      first [rewrite (S x r); assumption | rewrite (S l1 r0); assumption | rewrite (S l2 r1); assumption].
  - eapply sh_rep; eauto; [rewrite (S x r); eassumption|].
    intros a0 Ha. destruct (a a0 Ha) as [Ra Hv]. split; auto. rewrite (S a0 Ra). exact Hv.
  - constructor.
  - constructor; auto.
Qed.

Lemma shapes_app R st cs1 l1 cs2 l2 : shapes R st cs1 l1 -> shapes R st cs2 l2 -> shapes R st (cs1 ++ cs2) (l1 ++ l2).
Proof. intros H1 H2. induction H1; cbn [app]; auto. constructor; auto. Qed.

Lemma shapes_move (R R' : nat -> Prop) st st' cs l :
  shapes R st cs l -> (forall m, R m -> R' m) -> same_on R st st' -> shapes R' st' cs l.
Proof. intros H W S. induction H; constructor; auto. eapply shape_move; eauto. Qed.

(* structural induction over right-hand sides (lists of right-hand sides inside) *)
Lemma rhs_ind' (P : rhs -> Prop) :
  (forall s, P (GTerm s)) -> (forall n, P (GNT n)) ->
  (forall l, Forall P l -> P (GConcat l)) -> (forall l, Forall P l -> P (GAlt l)) ->
  (forall a b, P (GRange a b)) -> (forall e s t, P e -> P (GRep e s t)) -> forall e, P e.
Proof.
  intros Ht Hn Hc Ha Hr Hp. fix F 1. intros [s|n|l|l|a b|e s t].
  - apply Ht.
  - apply Hn.
  - apply Hc. induction l as [|x l IH]; constructor; [apply F|exact IH].
  - apply Ha. induction l as [|x l IH]; constructor; [apply F|exact IH].
  - apply Hr.
  - apply Hp. apply F.
Qed.

Fixpoint gchildren (root : nat) (l : list rhs) (st : bst) : bst :=
  match l with
  | [] => st
  | x :: r => let '(st, c) := gconv x st in gchildren root r (add_t root c st)
  end.

Lemma gconv_concat_eq l st :
  gconv (GConcat l) st = let '(st1, root) := noop_dec true st in (gchildren root l st1, root).
Proof.
  cbn [gconv]. destruct (noop_dec true st) as [st1 root]. f_equal.
  revert st1. induction l as [|x l IH]; intros st1; cbn [gchildren]; [reflexivity|].
  destruct (gconv x st1) as [st2 c]. apply IH.
Qed.

Lemma gconv_alt_eq l st :
  gconv (GAlt l) st = let '(st1, root) := noop_dec false st in (gchildren root l st1, root).
Proof.
  cbn [gconv]. destruct (noop_dec false st) as [st1 root]. f_equal.
  revert st1. induction l as [|x l IH]; intros st1; cbn [gchildren]; [reflexivity|].
  destruct (gconv x st1) as [st2 c]. apply IH.
Qed.

Definition gspec (st st' : bst) (root : nat) (e : rhs) : Prop :=
  gok st' /\ len st <= root /\ root < len st' /\ same_on (fun m => m < len st) st st' /\
  (forall m, m < len st -> nid (getn (b_graph st') m) = nid (getn (b_graph st) m)) /\
  (forall m, len st <= m -> nid (getn (b_graph st') m) = None) /\
  shape (fun m => len st <= m < len st') st' root e.

Lemma view_kind st x k l p : view st x = (k, l, p) -> kind_of (b_graph st) x = k.
Proof. intros H. destruct (view_eq _ _ _ _ _ H) as (K & _ & _). exact K. Qed.

Lemma gchildren_spec root : forall l st st' k0 cs0,
  Forall (fun e => forall st st' c, gok st -> gconv e st = (st', c) -> gspec st st' c e) l ->
  gok st -> root < len st -> view st root = (KDec k0 true, cs0, PNone) ->
  gchildren root l st = st' ->
  gok st' /\ len st <= len st' /\ same_on (fun m => m < len st /\ m <> root) st st' /\
  (forall m, m < len st -> nid (getn (b_graph st') m) = nid (getn (b_graph st) m)) /\
  (forall m, len st <= m -> nid (getn (b_graph st') m) = None) /\
  exists cs, view st' root = (KDec k0 true, cs0 ++ cs, PNone) /\ shapes (fun m => len st <= m < len st') st' cs l.
Proof.
  induction l as [|e l IH]; intros st st' k0 cs0 HF Ok Lr V H; cbn [gchildren] in H.
  - subst st'. split; auto. split; auto. split; [apply same_on_refl|]. split; auto. split.
    + intros m L. unfold getn. rewrite nth_overflow by exact L. reflexivity.
    + exists []. rewrite app_nil_r. split; auto. constructor.
  - destruct (gconv e st) as [st1 c] eqn:E.
    inversion HF as [|e0 l0 He Hl]; subst e0 l0.
    destruct (He st st1 c Ok E) as (Ok1 & Lc1 & Lc2 & S1 & I1 & N1 & Sh1).
    pose proof (S1 root Lr) as Vr. rewrite V in Vr.
    assert (Dr : is_dec (b_graph st1) root = true) by (unfold is_dec; rewrite (view_kind _ _ _ _ _ Vr); reflexivity).
    destruct (gok_add_t root c st1 Ok1 Dr Lc2) as (Ok2 & L2 & S2 & V2 & I2).
    set (st2 := add_t root c st1) in *.
    destruct (view_eq _ _ _ _ _ Vr) as (Kr & Or & Pr). rewrite Kr, Or, Pr in V2.
    destruct (IH st2 st' k0 (cs0 ++ [c]) Hl Ok2 ltac:(cbv beta; lia) V2 H) as (Ok' & L' & S' & I' & N' & cs & V' & Sh').
    split; auto. split; [lia|]. split; [|split; [|split]].
    + intros m [Lm Nm]. rewrite (S' m ltac:(cbv beta; lia)). rewrite (S2 m Nm). apply S1. exact Lm.
    + intros m Lm. rewrite I' by lia. rewrite I2. apply I1. exact Lm.
    + intros m Lm. destruct (Nat.lt_ge_cases m (len st2)) as [Lb|Lb].
      * rewrite I' by exact Lb. rewrite I2. apply N1. exact Lm.
      * apply N'. exact Lb.
    + exists (c :: cs). rewrite <- app_assoc in V'. split; [exact V'|]. constructor.
      * eapply shape_move; [exact Sh1| |].
        -- cbv beta. intros m [A B]. lia.
        -- intros m [A B]. rewrite (S' m ltac:(cbv beta; lia)). apply S2. cbv beta. lia.
      * eapply shapes_move; [exact Sh'| |apply same_on_refl]. cbv beta. intros m [A B]. lia.
Qed.

Lemma gok_add_times k : forall s t st, gok st -> is_dec (b_graph st) s = true -> t < len st ->
  let st' := add_times k s t st in
  gok st' /\ len st' = len st /\ same_on (fun m => m <> s) st st' /\
  view st' s = (kind_of (b_graph st) s, outs_of (b_graph st) s ++ repeat t k, pay_of st s) /\
  (forall m, nid (getn (b_graph st') m) = nid (getn (b_graph st) m)).
Proof.
  induction k as [|k IH]; intros s t st Ok Ds Lt; cbn [add_times].
  - split; auto. split; auto. split; [apply same_on_refl|]. split; auto. cbn [repeat]. rewrite app_nil_r. reflexivity.
  - destruct (gok_add_t s t st Ok Ds Lt) as (Ok1 & L1 & S1 & V1 & I1).
    assert (Ds1 : is_dec (b_graph (add_t s t st)) s = true).
    { unfold is_dec. rewrite (view_kind _ _ _ _ _ V1). exact Ds. }
    destruct (IH s t (add_t s t st) Ok1 Ds1 ltac:(cbv beta; lia)) as (Ok2 & L2 & S2 & V2 & I2).
    split; auto. split; [lia|]. split; [eapply same_on_trans; eauto|]. split.
    + rewrite V2. destruct (view_eq _ _ _ _ _ V1) as (K & O & P). rewrite K, O, P. cbn [repeat]. rewrite <- app_assoc. reflexivity.
    + intros m. rewrite I2. apply I1.
Qed.

Ltac gnew E Ok Hk Hp := 
  match type of E with new_node ?k ?p ?st = (?st1, ?n) =>
    unfold new_node in E; inversion E; subst st1 n; clear E
  end.

Lemma gconv_spec : forall e st st' root, gok st -> gconv e st = (st', root) -> gspec st st' root e.
Proof.
  induction e as [s|n|l HF|l HF|a b|e s t IHe] using rhs_ind'; intros st st' root Ok Hg.
  - (* terminal *)
    cbn [gconv] in Hg. unfold str_leaf, new_node in Hg. inversion Hg; subst st' root. clear Hg. change (length (b_graph st)) with (len st) in *.
    destruct (gok_new (KLeaf true) None (PChars s) st Ok) as (Ok1 & L1 & S1 & V1 & I1 & J1); [eauto|intros v X; inversion X; auto|].
    split; auto. split; [lia|]. split; [lia|]. split; auto. split; auto. split.
    + intros m Lm. destruct (Nat.eq_dec m (len st)) as [->|Ne]; auto.
      unfold getn. rewrite nth_overflow; [reflexivity|]. fold (len (mkBst (b_graph st ++ [mkNode (KLeaf true) None [] []]) (b_pay st ++ [PChars s]))). lia.
    + apply sh_term; [lia|exact V1].
  - (* non-terminal: a Reference *)
    cbn [gconv] in Hg. unfold new_node in Hg. inversion Hg; subst st' root. clear Hg. change (length (b_graph st)) with (len st) in *.
    destruct (gok_new (KRef n) None PNone st Ok) as (Ok1 & L1 & S1 & V1 & I1 & J1); [intros s X; discriminate X|intros v X; discriminate X|].
    split; auto. split; [lia|]. split; [lia|]. split; auto. split; auto. split.
    + intros m Lm. destruct (Nat.eq_dec m (len st)) as [->|Ne]; auto.
      unfold getn. rewrite nth_overflow; [reflexivity|]. fold (len (mkBst (b_graph st ++ [mkNode (KRef n) None [] []]) (b_pay st ++ [PNone]))). lia.
    + apply sh_nt; [lia|exact V1].
  - (* concatenation *)
    rewrite gconv_concat_eq in Hg. unfold noop_dec, new_node in Hg.
    destruct (gok_new (KDec true true) None PNone st Ok) as (Ok1 & L1 & S1 & V1 & I1 & J1); [intros s X; discriminate X|intros v X; discriminate X|].
    set (st1 := mkBst (b_graph st ++ [mkNode (KDec true true) None [] []]) (b_pay st ++ [PNone])) in *.
    assert (EE : st' = gchildren (len st) l st1 /\ root = len st) by (inversion Hg; auto). destruct EE as [E1 ->]. clear Hg.
    destruct (gchildren_spec (len st) l st1 st' true [] HF Ok1 ltac:(cbv beta; lia) V1 (eq_sym E1)) as (Ok' & L' & S' & I' & N' & cs & V' & Sh').
    cbn [app] in V'.
    split; auto. split; [lia|]. split; [lia|]. split; [|split; [|split]].
    + intros m Lm. rewrite (S' m ltac:(cbv beta; lia)). apply S1. exact Lm.
    + intros m Lm. rewrite I' by lia. apply J1. exact Lm.
    + intros m Lm. destruct (Nat.eq_dec m (len st)) as [->|Ne]; [rewrite I' by lia; exact I1|]. apply N'. lia.
    + eapply sh_concat; [lia|exact V'|]. eapply shapes_move; [exact Sh'| |apply same_on_refl]. cbv beta. intros m [A B]. lia.
  - (* alternative *)
    rewrite gconv_alt_eq in Hg. unfold noop_dec, new_node in Hg.
    destruct (gok_new (KDec false true) None PNone st Ok) as (Ok1 & L1 & S1 & V1 & I1 & J1); [intros s X; discriminate X|intros v X; discriminate X|].
    set (st1 := mkBst (b_graph st ++ [mkNode (KDec false true) None [] []]) (b_pay st ++ [PNone])) in *.
    assert (EE : st' = gchildren (len st) l st1 /\ root = len st) by (inversion Hg; auto). destruct EE as [E1 ->]. clear Hg.
    destruct (gchildren_spec (len st) l st1 st' false [] HF Ok1 ltac:(cbv beta; lia) V1 (eq_sym E1)) as (Ok' & L' & S' & I' & N' & cs & V' & Sh').
    cbn [app] in V'.
    split; auto. split; [lia|]. split; [lia|]. split; [|split; [|split]].
    + intros m Lm. rewrite (S' m ltac:(cbv beta; lia)). apply S1. exact Lm.
    + intros m Lm. rewrite I' by lia. apply J1. exact Lm.
    + intros m Lm. destruct (Nat.eq_dec m (len st)) as [->|Ne]; [rewrite I' by lia; exact I1|]. apply N'. lia.
    + eapply sh_alt; [lia|exact V'|]. eapply shapes_move; [exact Sh'| |apply same_on_refl]. cbv beta. intros m [A B]. lia.
  - (* character range *)
    cbn [gconv] in Hg. unfold noop_dec, str_leaf, new_node in Hg. cbn [b_graph b_pay] in Hg.
    destruct (gok_new (KDec false true) None PNone st Ok) as (Ok1 & L1 & S1 & V1 & I1 & J1); [intros s X; discriminate X|intros v X; discriminate X|].
    set (st1 := mkBst (b_graph st ++ [mkNode (KDec false true) None [] []]) (b_pay st ++ [PNone])) in *.
    destruct (gok_new (KLeaf true) None (PChars [a]) st1 Ok1) as (Ok2 & L2 & S2 & V2 & I2 & J2); [eauto|intros v X; inversion X; auto|].
    set (st2 := mkBst (b_graph st1 ++ [mkNode (KLeaf true) None [] []]) (b_pay st1 ++ [PChars [a]])) in *.
    assert (D2 : is_dec (b_graph st2) (len st) = true).
    { unfold is_dec. rewrite (view_kind _ _ _ _ _ (eq_trans (S2 (len st) ltac:(cbv beta; lia)) V1)). reflexivity. }
    destruct (gok_add_t (len st) (len st1) st2 Ok2 D2 ltac:(cbv beta; lia)) as (Ok3 & L3 & S3 & V3 & I3).
    set (st3 := add_t (len st) (len st1) st2) in *.
    destruct (gok_new (KLeaf true) None (PChars [b]) st3 Ok3) as (Ok4 & L4 & S4 & V4 & I4 & J4); [eauto|intros v X; inversion X; auto|].
    set (st4 := mkBst (b_graph st3 ++ [mkNode (KLeaf true) None [] []]) (b_pay st3 ++ [PChars [b]])) in *.
    assert (Vr3 : view st3 (len st) = (KDec false true, [len st1], PNone)).
    { rewrite V3. destruct (view_eq _ _ _ _ _ (eq_trans (S2 (len st) ltac:(cbv beta; lia)) V1)) as (K & O & P). rewrite K, O, P. reflexivity. }
    assert (D4 : is_dec (b_graph st4) (len st) = true).
    { unfold is_dec. rewrite (view_kind _ _ _ _ _ (eq_trans (S4 (len st) ltac:(cbv beta; lia)) Vr3)). reflexivity. }
    destruct (gok_add_t (len st) (len st3) st4 Ok4 D4 ltac:(cbv beta; lia)) as (Ok5 & L5 & S5 & V5 & I5).
    set (st5 := add_t (len st) (len st3) st4) in *.
    assert (EE : st' = st5 /\ root = len st) by (inversion Hg; auto). destruct EE as [-> ->]. clear Hg.
    assert (Vr5 : view st5 (len st) = (KDec false true, [len st1; len st3], PNone)).
    { rewrite V5. destruct (view_eq _ _ _ _ _ (eq_trans (S4 (len st) ltac:(cbv beta; lia)) Vr3)) as (K & O & P). rewrite K, O, P. reflexivity. }
    split; auto. split; [lia|]. split; [lia|]. split; [|split; [|split]].
    + intros m Lm. rewrite (S5 m ltac:(cbv beta; lia)). rewrite (S4 m ltac:(cbv beta; lia)). rewrite (S3 m ltac:(cbv beta; lia)).
      rewrite (S2 m ltac:(cbv beta; lia)). apply S1. exact Lm.
    + intros m Lm. rewrite I5. rewrite J4 by lia. rewrite I3. rewrite J2 by lia. apply J1. exact Lm.
    + intros m Lm. rewrite I5.
      destruct (Nat.eq_dec m (len st3)) as [->|N3]; [exact I4|].
      destruct (Nat.lt_ge_cases m (len st3)) as [Lb|Lb].
      * rewrite J4 by exact Lb. rewrite I3.
        destruct (Nat.eq_dec m (len st1)) as [->|N1]; [exact I2|].
        destruct (Nat.lt_ge_cases m (len st1)) as [Lc|Lc]; [|lia].
        rewrite J2 by exact Lc. assert (m = len st) by lia. subst m. exact I1.
      * unfold getn. rewrite nth_overflow; [reflexivity|]. fold (len st4). lia.
    + eapply (sh_range _ _ _ a b (len st1) (len st3)); try (cbv beta; lia); auto.
      * rewrite (S5 (len st1) ltac:(cbv beta; lia)). rewrite (S4 (len st1) ltac:(cbv beta; lia)). rewrite (S3 (len st1) ltac:(cbv beta; lia)). exact V2.
      * rewrite (S5 (len st3) ltac:(cbv beta; lia)). exact V4.
  - (* repetition *)
    cbn [gconv] in Hg. unfold noop_dec at 1 in Hg. unfold new_node at 1 in Hg.
    destruct (gok_new (KDec false true) None PNone st Ok) as (Ok1 & L1 & S1 & V1 & I1 & J1); [intros x X; discriminate X|intros v X; discriminate X|].
    set (st1 := mkBst (b_graph st ++ [mkNode (KDec false true) None [] []]) (b_pay st ++ [PNone])) in *.
    change (length (b_graph st)) with (len st) in Hg.
    destruct (gconv e st1) as [st2 child] eqn:E2.
    destruct (IHe st1 st2 child Ok1 E2) as (Ok2 & Lc1 & Lc2 & S2 & I2 & N2 & Sh2).
    (* the alternatives below the root *)
    set (altc := fun (cur : bst) (a : nat) =>
           (view cur a = (KLeaf true, [], PNone) /\ s = 0) \/
           (exists k, view cur a = (KDec true true, repeat child k, PNone) /\ rep_count s t k)).
    set (AInv := fun cur : bst =>
           gok cur /\ len st2 <= len cur /\ same_on (fun m => m < len st2 /\ m <> len st) st2 cur /\
           (forall m, m < len st2 -> nid (getn (b_graph cur) m) = nid (getn (b_graph st2) m)) /\
           (forall m, len st2 <= m -> nid (getn (b_graph cur) m) = None) /\
           exists alts, view cur (len st) = (KDec false true, alts, PNone) /\
                        forall a, In a alts -> len st2 <= a < len cur /\ altc cur a).
    assert (A0 : AInv st2).
    { split; auto. split; auto. split; [apply same_on_refl|]. split; auto. split.
      - intros m Lm. unfold getn. rewrite nth_overflow by exact Lm. reflexivity.
      - exists []. split; [rewrite (S2 (len st) ltac:(cbv beta; lia)); exact V1|intros a []]. }
    assert (Keep : forall cur cur', len cur <= len cur' -> same_on (fun m => m < len cur /\ m <> len st) cur cur' ->
                   forall a, len st2 <= a < len cur -> altc cur a -> altc cur' a).
    { intros cur cur' Lc Sc a La Ha. unfold altc in *. rewrite (Sc a ltac:(cbv beta; lia)). exact Ha. }
    assert (StageLeaf : forall cur, AInv cur -> s = 0 -> AInv (let '(st0, l) := noop_leaf cur in add_t (len st) l st0)).
    { intros cur (OkC & LC & SC & IC & NC & alts & VC & HA) Hs0. unfold noop_leaf, new_node.
      destruct (gok_new (KLeaf true) None PNone cur OkC) as (OkA & LA & SA & VA & IA & JA); [intros x X; discriminate X|intros v X; inversion X; auto|].
      set (stA := mkBst (b_graph cur ++ [mkNode (KLeaf true) None [] []]) (b_pay cur ++ [PNone])) in *.
      change (length (b_graph cur)) with (len cur).
      assert (DA : is_dec (b_graph stA) (len st) = true).
      { unfold is_dec. rewrite (view_kind _ _ _ _ _ (eq_trans (SA (len st) ltac:(cbv beta; lia)) VC)). reflexivity. }
      destruct (gok_add_t (len st) (len cur) stA OkA DA ltac:(cbv beta; lia)) as (OkB & LB & SB & VB & IB).
      set (stB := add_t (len st) (len cur) stA) in *.
      assert (KeepB : same_on (fun m => m < len cur /\ m <> len st) cur stB).
      { intros m [A B]. rewrite (SB m B). apply SA. exact A. }
      split; auto. split; [lia|]. split; [|split; [|split]].
      - intros m [A B]. rewrite (KeepB m ltac:(cbv beta; lia)). apply SC. auto.
      - intros m Lm. rewrite IB. rewrite JA by lia. apply IC. exact Lm.
      - intros m Lm. rewrite IB. destruct (Nat.eq_dec m (len cur)) as [->|Ne]; [exact IA|].
        destruct (Nat.lt_ge_cases m (len cur)) as [Lb|Lb]; [rewrite JA by exact Lb; apply NC; exact Lm|].
        unfold getn. rewrite nth_overflow; [reflexivity|]. fold (len stA). lia.
      - destruct (view_eq _ _ _ _ _ (eq_trans (SA (len st) ltac:(cbv beta; lia)) VC)) as (K & O & P).
        exists (alts ++ [len cur]). split; [rewrite VB, K, O, P; reflexivity|].
        intros a Ha. apply in_app_or in Ha. destruct Ha as [Ha|[<-|[]]].
        + destruct (HA a Ha) as [La Hc]. split; [lia|]. eapply Keep; [| |exact La|exact Hc]; [lia|exact KeepB].
        + split; [lia|]. left. split; auto. rewrite (SB (len cur) ltac:(cbv beta; lia)). exact VA. }
    assert (StageRep : forall cur k, AInv cur -> rep_count s t k ->
              AInv (let '(st0, sub) := noop_dec true cur in add_t (len st) sub (add_times k sub child st0))).
    { intros cur k (OkC & LC & SC & IC & NC & alts & VC & HA) Hk. unfold noop_dec, new_node.
      destruct (gok_new (KDec true true) None PNone cur OkC) as (OkA & LA & SA & VA & IA & JA); [intros x X; discriminate X|intros v X; discriminate X|].
      set (stA := mkBst (b_graph cur ++ [mkNode (KDec true true) None [] []]) (b_pay cur ++ [PNone])) in *.
      change (length (b_graph cur)) with (len cur).
      assert (DsA : is_dec (b_graph stA) (len cur) = true) by (unfold is_dec; rewrite (view_kind _ _ _ _ _ VA); reflexivity).
      destruct (gok_add_times k (len cur) child stA OkA DsA ltac:(cbv beta; lia)) as (OkT & LT & ST & VT & IT).
      set (stT := add_times k (len cur) child stA) in *.
      destruct (view_eq _ _ _ _ _ VA) as (KA & OA & PA). rewrite KA, OA, PA in VT. cbn [app] in VT.
      assert (VrT : view stT (len st) = (KDec false true, alts, PNone)).
      { rewrite (ST (len st) ltac:(cbv beta; lia)). rewrite (SA (len st) ltac:(cbv beta; lia)). exact VC. }
      assert (DT : is_dec (b_graph stT) (len st) = true) by (unfold is_dec; rewrite (view_kind _ _ _ _ _ VrT); reflexivity).
      destruct (gok_add_t (len st) (len cur) stT OkT DT ltac:(cbv beta; lia)) as (OkB & LB & SB & VB & IB).
      set (stB := add_t (len st) (len cur) stT) in *.
      assert (KeepB : same_on (fun m => m < len cur /\ m <> len st) cur stB).
      { intros m [A B]. rewrite (SB m B). rewrite (ST m ltac:(cbv beta; lia)). apply SA. exact A. }
      split; auto. split; [lia|]. split; [|split; [|split]].
      - intros m [A B]. rewrite (KeepB m ltac:(cbv beta; lia)). apply SC. auto.
      - intros m Lm. rewrite IB, IT. rewrite JA by lia. apply IC. exact Lm.
      - intros m Lm. rewrite IB, IT. destruct (Nat.eq_dec m (len cur)) as [->|Ne]; [exact IA|].
        destruct (Nat.lt_ge_cases m (len cur)) as [Lb|Lb]; [rewrite JA by exact Lb; apply NC; exact Lm|].
        unfold getn. rewrite nth_overflow; [reflexivity|]. fold (len stA). lia.
      - destruct (view_eq _ _ _ _ _ VrT) as (K & O & P).
        exists (alts ++ [len cur]). split; [rewrite VB, K, O, P; reflexivity|].
        intros a Ha. apply in_app_or in Ha. destruct Ha as [Ha|[<-|[]]].
        + destruct (HA a Ha) as [La Hc]. split; [lia|]. eapply Keep; [| |exact La|exact Hc]; [lia|exact KeepB].
        + split; [lia|]. right. exists k. split; auto. rewrite (SB (len cur) ltac:(cbv beta; lia)). exact VT. }
    (* the two stages of _convert_repetition *)
    set (st3 := if s =? 0 then let '(st0, l) := noop_leaf st2 in add_t (len st) l st0
                else let '(st0, lower) := noop_dec true st2 in add_t (len st) lower (add_times s lower child st0)) in *.
    assert (A3 : AInv st3).
    { unfold st3. destruct (Nat.eqb_spec s 0) as [E0|N0]; [apply StageLeaf; auto|apply StageRep; auto]. left. reflexivity. }
    assert (Fin : forall stf, AInv stf -> gspec st stf (len st) (GRep e s t)).
    { intros stf (OkF & LF & SF & IF & NF & alts & VF & HA).
      split; auto. split; [lia|]. split; [lia|]. split; [|split; [|split]].
      - intros m Lm. rewrite (SF m ltac:(cbv beta; lia)). rewrite (S2 m ltac:(cbv beta; lia)). apply S1. exact Lm.
      - intros m Lm. rewrite IF by lia. rewrite I2 by lia. apply J1. exact Lm.
      - intros m Lm. destruct (Nat.lt_ge_cases m (len st2)) as [Lb|Lb]; [|apply NF; exact Lb].
        rewrite IF by exact Lb. destruct (Nat.eq_dec m (len st)) as [->|Ne]; [rewrite I2 by lia; exact I1|]. apply N2. lia.
      - eapply (sh_rep _ _ _ e s t child alts); [lia|exact VF| |].
        + eapply shape_move; [exact Sh2| |].
          * cbv beta. intros m [A B]. lia.
          * intros m [A B]. apply SF. cbv beta. lia.
        + intros a Ha. destruct (HA a Ha) as [La Hc]. split; [lia|exact Hc]. }
    destruct (match t with Some s0 => s =? s0 | None => false end).
    + inversion Hg; subst st' root. apply Fin. exact A3.
    + match type of Hg with (let '(_, _) := noop_dec true _ in _) = _ => idtac end.
      assert (A4 : AInv (let '(st0, upper) := noop_dec true st3 in
                         add_t (len st) upper (add_times (match t with Some s0 => s0 | None => s + 3 end) upper child st0))).
      { apply StageRep; auto. right. reflexivity. }
      destruct (noop_dec true st3) as [st0 upper]. inversion Hg; subst st' root. apply Fin. exact A4.
Qed.

(* ---------- convert(): one decision per rule ---------- *)
Definition rule_ok (st : bst) (n : nat) (rule : str * rhs) : Prop :=
  n < len st /\ nid (getn (b_graph st) n) = Some (fst rule) /\
  exists c, view st n = (KDec false true, [c], PNone) /\ shape (fun m => m < len st) st c (snd rule).

Definition rules_inv (G1 : grammar) (s : bst * list nat) : Prop :=
  gok (fst s) /\ Forall2 (rule_ok (fst s)) (snd s) G1 /\
  (forall m name, nid (getn (b_graph (fst s)) m) = Some name -> In m (snd s)).

Definition rule_step (s : bst * list nat) (rule : str * rhs) : bst * list nat :=
  let '(st, acc) := s in let '(name, r) := rule in
  let '(st, n) := new_idnode (KDec false true) (Some name) PNone st in
  let '(st, c) := gconv r st in
  (add_t n c st, acc ++ [n]).

Lemma rule_ok_move st st' n rule : rule_ok st n rule -> len st <= len st' ->
  same_on (fun m => m < len st) st st' -> (forall m, m < len st -> nid (getn (b_graph st') m) = nid (getn (b_graph st) m)) ->
  rule_ok st' n rule.
Proof.
  intros (Ln & Hn & c & V & Sh) L S I. split; [lia|]. split; [rewrite I by exact Ln; exact Hn|].
  exists c. split; [rewrite (S n Ln); exact V|]. eapply shape_move; [exact Sh| |exact S]. cbv beta. intros m Lm. lia.
Qed.

Lemma rule_step_inv G1 s rule : rules_inv G1 s -> rules_inv (G1 ++ [rule]) (rule_step s rule).
Proof.
  destruct s as [st acc]. destruct rule as [name r]. intros (Ok & F & Ids). cbn [fst snd] in *.
  unfold rule_step, new_idnode.
  destruct (gok_new (KDec false true) (Some name) PNone st Ok) as (Ok1 & L1 & S1 & V1 & I1 & J1); [intros x X; discriminate X|intros v X; discriminate X|].
  set (st1 := mkBst (b_graph st ++ [mkNode (KDec false true) (Some name) [] []]) (b_pay st ++ [PNone])) in *.
  change (length (b_graph st)) with (len st).
  destruct (gconv r st1) as [st2 c] eqn:E2.
  destruct (gconv_spec r st1 st2 c Ok1 E2) as (Ok2 & Lc1 & Lc2 & S2 & I2 & N2 & Sh2).
  assert (D2 : is_dec (b_graph st2) (len st) = true).
  { unfold is_dec. rewrite (view_kind _ _ _ _ _ (eq_trans (S2 (len st) ltac:(cbv beta; lia)) V1)). reflexivity. }
  destruct (gok_add_t (len st) c st2 Ok2 D2 Lc2) as (Ok3 & L3 & S3 & V3 & I3).
  set (st3 := add_t (len st) c st2) in *.
  assert (Sall : same_on (fun m => m < len st) st st3).
  { intros m Lm. rewrite (S3 m ltac:(cbv beta; lia)). rewrite (S2 m ltac:(cbv beta; lia)). apply S1. exact Lm. }
  assert (Iall : forall m, m < len st -> nid (getn (b_graph st3) m) = nid (getn (b_graph st) m)).
  { intros m Lm. rewrite I3. rewrite I2 by lia. apply J1. exact Lm. }
  cbn [fst snd]. split; [exact Ok3|]. split.
  - apply Forall2_app.
    + eapply Forall2_weaken; [|exact F]. intros n0 rule0 Hr. apply (rule_ok_move st st3 n0 rule0 Hr); [lia|exact Sall|exact Iall].
    + constructor; [|constructor]. cbn [fst snd]. split; [lia|]. split; [rewrite I3; rewrite I2 by lia; exact I1|].
      exists c. cbn [fst snd]. split.
      * rewrite V3. destruct (view_eq _ _ _ _ _ (eq_trans (S2 (len st) ltac:(cbv beta; lia)) V1)) as (K & O & P). rewrite K, O, P. reflexivity.
      * eapply shape_move; [exact Sh2| |].
        -- cbv beta. intros m [A B]. lia.
        -- intros m [A B]. apply S3. lia.
  - intros m nm Hm. apply in_or_app. rewrite I3 in Hm.
    destruct (Nat.lt_ge_cases m (len st)) as [Lm|Lm].
    + left. rewrite I2 in Hm by lia. rewrite J1 in Hm by exact Lm. eapply Ids; eauto.
    + destruct (Nat.eq_dec m (len st)) as [->|Ne]; [right; left; reflexivity|].
      rewrite N2 in Hm by lia. discriminate.
Qed.

Lemma rules_fold : forall G2 G1 s, rules_inv G1 s -> rules_inv (G1 ++ G2) (fold_left rule_step G2 s).
Proof.
  induction G2 as [|rule G2 IH]; intros G1 s H; cbn [fold_left]; [rewrite app_nil_r; exact H|].
  replace (G1 ++ rule :: G2) with ((G1 ++ [rule]) ++ G2) by (rewrite <- app_assoc; reflexivity).
  apply IH. apply rule_step_inv. exact H.
Qed.

Lemma gok_empty : gok bempty.
Proof.
  split; [split; [reflexivity|intros n t Ht; unfold outs_of, getn in Ht; cbn in Ht; destruct n; destruct Ht]|].
  split; [apply empty_consistent|]. split.
  - intros s Hs. exfalso. apply Hs. unfold outs_of, getn. cbn. destruct s; reflexivity.
  - split; [reflexivity|]. split; [intros n s X; unfold pay_of in X; cbn in X; destruct n; discriminate|].
    intros n v X. unfold kind_of, getn in X. cbn in X. destruct n; cbn in X; inversion X; reflexivity.
Qed.

Lemma rules_inv_empty : rules_inv [] (bempty, []).
Proof.
  split; [apply gok_empty|]. split; [constructor|]. intros m name H. cbn [fst] in H. unfold getn in H. cbn in H.
  destruct m; discriminate.
Qed.

(* ---------- well-formed right-hand sides: ranges and repetition bounds in order ---------- *)
Inductive wfr : rhs -> Prop :=
| wfr_term s : wfr (GTerm s)
| wfr_nt n : wfr (GNT n)
| wfr_concat l : Forall wfr l -> wfr (GConcat l)
| wfr_alt l : Forall wfr l -> wfr (GAlt l)
| wfr_range a b : a <= b -> wfr (GRange a b)
| wfr_rep e s t : wfr e -> (forall s0, t = Some s0 -> s <= s0) -> wfr (GRep e s t).

Lemma shapes_repeat R st child e k : shape R st child e -> shapes R st (repeat child k) (repeat e k).
Proof. intros H. induction k; cbn [repeat]; constructor; auto. Qed.

Lemma Forall2_repeat_l {A B} (P : A -> B -> Prop) a k : forall ws, Forall2 P (repeat a k) ws -> length ws = k /\ Forall (P a) ws.
Proof.
  induction k as [|k IH]; intros ws H; cbn [repeat] in H; inversion H; subst; [split; [reflexivity|constructor]|].
  destruct (IH _ H4) as [L F]. split; [cbn; lia|constructor; auto].
Qed.

Lemma Forall_repeat {A} (P : A -> Prop) a k : P a -> Forall P (repeat a k).
Proof. intros H. induction k; cbn [repeat]; constructor; auto. Qed.

(* ---------- executions of the resolved graph are derivations ---------- *)
Section Sem.
Variable G : grammar.
Variable st : bst.                 (* the state before resolve() *)
Variable gr : graph.               (* the table after resolve() *)
Variable t : idtable.
Variable vis : list nat.
Variable rules : list nat.
Let g := b_graph st.
Hypothesis WG : forall name r, In (name, r) G -> wfr r.
Hypothesis Same : same_nodes g gr.
Hypothesis TW : tbl_wf g t.
Hypothesis Sem : forall x, In x vis -> Forall2 (DR g t) (outs_of g x) (outs_of gr x).
Hypothesis Clo : forall x, In x vis -> is_dec gr x = true -> forall c, In c (outs_of gr x) -> In c vis.
Hypothesis Rules : Forall2 (rule_ok st) rules G.
Hypothesis Ids : forall m name, nid (getn g m) = Some name -> In m rules.

Definition R0 : nat -> Prop := fun m => m < len st.

Lemma kind_gr x : kind_of gr x = kind_of g x.
Proof. destruct Same as (K & _ & _). apply K. Qed.

Lemma DR_nonref x x' : DR g t x x' -> is_ref g x = false -> x' = x.
Proof.
  intros H N. inversion H; subst; auto. unfold is_ref in N. rewrite H0 in N. discriminate.
Qed.

Lemma rule_of m name : nid (getn g m) = Some name ->
  exists r c, In (name, r) G /\ view st m = (KDec false true, [c], PNone) /\ shape R0 st c r.
Proof.
  intros H. pose proof (Ids m name H) as Hin.
  assert (X : forall ns G', Forall2 (rule_ok st) ns G' -> In m ns ->
              exists r c, In (name, r) G' /\ view st m = (KDec false true, [c], PNone) /\ shape R0 st c r).
  { clear - H. unfold g in H. intros ns G' F. induction F as [|n rule ns G' Hr F IH]; intros Hin; [destruct Hin|].
    destruct Hin as [->|Hin].
    - destruct Hr as (Ln & Hn & c & V & Sh). rewrite Hn in H. inversion H; subst name.
      destruct rule as [nm r]. cbn [fst snd] in *. exists r, c. split; [left; reflexivity|]. split; auto.
    - destruct (IH Hin) as (r & c & A & B & C). exists r, c. split; [right; exact A|]. auto. }
  exact (X rules G Rules Hin).
Qed.

Lemma view_nonref x k l p : view st x = (k, l, p) -> (forall n, k <> KRef n) -> is_ref g x = false.
Proof. intros V N. unfold is_ref, g. rewrite (view_kind _ _ _ _ _ V). destruct k; auto. exfalso. eapply N; eauto. Qed.

Lemma out_single_pnone x l k : view st x = (k, l, PNone) -> output_of st [x] = [].
Proof. intros V. rewrite output_of_single. destruct (view_eq _ _ _ _ _ V) as (_ & _ & P). rewrite P. reflexivity. Qed.

Lemma out_cons x tr : output_of st (x :: tr) = output_of st [x] ++ output_of st tr.
Proof. change (x :: tr) with ([x] ++ tr). apply output_of_app. Qed.

Lemma ref_target x x' name : kind_of g x = KRef name -> DR g t x x' ->
  exists r c, In (name, r) G /\ view st x' = (KDec false true, [c], PNone) /\ shape R0 st c r.
Proof.
  intros K H. inversion H as [c0 Nr|c0 nm m1 m K' F D']; subst.
  - unfold is_ref in Nr. rewrite K in Nr. discriminate.
  - rewrite K in K'. inversion K'; subst nm.
    pose proof (TW _ _ F) as Hn. destruct (rule_of m1 name Hn) as (r & c1 & Hin & Vm & Shc).
    assert (x' = m1) by (eapply DR_nonref; [exact D'|eapply view_nonref; [exact Vm|intros ? X; discriminate X]]). subst x'.
    eauto.
Qed.

Lemma shape_term_inv x s : shape R0 st x (GTerm s) -> view st x = (KLeaf true, [], PChars s).
Proof. intros H. inversion H; subst; auto. Qed.
Lemma shape_nt_inv x n : shape R0 st x (GNT n) -> view st x = (KRef n, [], PNone).
Proof. intros H. inversion H; subst; auto. Qed.
Lemma shape_concat_inv x l : shape R0 st x (GConcat l) -> exists cs, view st x = (KDec true true, cs, PNone) /\ shapes R0 st cs l.
Proof. intros H. inversion H; subst; eauto. Qed.
Lemma shape_alt_inv x l : shape R0 st x (GAlt l) -> exists cs, view st x = (KDec false true, cs, PNone) /\ shapes R0 st cs l.
Proof. intros H. inversion H; subst; eauto. Qed.
Lemma shape_range_inv x a b : shape R0 st x (GRange a b) -> exists l1 l2,
  view st x = (KDec false true, [l1; l2], PNone) /\ R0 l1 /\ R0 l2 /\
  view st l1 = (KLeaf true, [], PChars [a]) /\ view st l2 = (KLeaf true, [], PChars [b]).
Proof. intros H. inversion H; subst. exists l1, l2. auto 6. Qed.
Lemma shape_rep_inv x e start stop : shape R0 st x (GRep e start stop) -> exists child alts,
  view st x = (KDec false true, alts, PNone) /\ shape R0 st child e /\
  forall a, In a alts -> R0 a /\ ((view st a = (KLeaf true, [], PNone) /\ start = 0) \/
                                 (exists k, view st a = (KDec true true, repeat child k, PNone) /\ rep_count start stop k)).
Proof. intros H. inversion H; subst. exists child, alts. auto. Qed.

Lemma pick_child outs' : forall cs es i t', Forall2 (DR g t) cs outs' -> shapes R0 st cs es ->
  nth_error outs' i = Some t' -> exists c e, In e es /\ DR g t c t' /\ shape R0 st c e.
Proof.
  induction outs' as [|b outs' IH]; intros cs es i t' F Sh N; [destruct i; discriminate|].
  inversion F as [|a b' la lb Dab Fr]; subst. inversion Sh; subst.
  destruct i; cbn in N.
  - inversion N; subst. exists a, e. split; [left; reflexivity|]. auto.
  - destruct (IH _ _ _ _ Fr H3 N) as (c & e' & A & B & C). exists c, e'. split; [right; exact A|]. auto.
Qed.

Lemma pick_alt outs' : forall alts i t', Forall2 (DR g t) alts outs' -> nth_error outs' i = Some t' ->
  exists a, In a alts /\ DR g t a t'.
Proof.
  induction outs' as [|b outs' IH]; intros alts i t' F N; [destruct i; discriminate|].
  inversion F as [|a b' la lb Dab Fr]; subst. destruct i; cbn in N.
  - inversion N; subst. exists a. split; [left; reflexivity|exact Dab].
  - destruct (IH _ _ _ Fr N) as (a' & A & B). exists a'. split; [right; exact A|exact B].
Qed.

Lemma same_node x x' k l p : view st x = (k, l, p) -> (forall n, k <> KRef n) -> DR g t x x' -> x' = x.
Proof. intros V N D. eapply DR_nonref; [exact D|eapply view_nonref; eauto]. Qed.

Lemma kind_at x k l p : view st x = (k, l, p) -> kind_of gr x = k.
Proof. intros V. rewrite kind_gr. unfold g. eapply view_kind; eauto. Qed.

Theorem run_derives : forall x' c tr, Run0 gr x' c tr ->
  forall x e, In x' vis -> DR g t x x' -> shape R0 st x e -> wfr e -> derives G e (output_of st tr).
Proof.
  intros x' c tr H.
  induction H using Run0_mind with
    (P0 := fun cs' c trs _ => forall cs es, (forall c', In c' cs' -> In c' vis) -> Forall2 (DR g t) cs cs' ->
             shapes R0 st cs es -> Forall wfr es ->
             exists ws, Forall2 (derives G) es ws /\ output_of st trs = concat ws).
  - (* a leaf is applied *)
    rename e into Kn. intros x e0 Hv Hd Sh Wf. destruct e0 as [s|nm|l|l|a b|e0 s0 t0].
    + pose proof (shape_term_inv _ _ Sh) as V. assert (n = x) by (eapply same_node; [exact V|intros ? X; discriminate X|exact Hd]). subst n.
      rewrite output_of_single. destruct (view_eq _ _ _ _ _ V) as (_ & _ & P). rewrite P. constructor.
    + exfalso. pose proof (shape_nt_inv _ _ Sh) as V.
      destruct (ref_target x n nm (view_kind _ _ _ _ _ V) Hd) as (rr & cc0 & _ & Vm & _).
      rewrite (kind_at _ _ _ _ Vm) in Kn. discriminate.
    + exfalso. destruct (shape_concat_inv _ _ Sh) as (cs & V & _).
      assert (n = x) by (eapply same_node; [exact V|intros ? X; discriminate X|exact Hd]). subst n. rewrite (kind_at _ _ _ _ V) in Kn. discriminate.
    + exfalso. destruct (shape_alt_inv _ _ Sh) as (cs & V & _).
      assert (n = x) by (eapply same_node; [exact V|intros ? X; discriminate X|exact Hd]). subst n. rewrite (kind_at _ _ _ _ V) in Kn. discriminate.
    + exfalso. destruct (shape_range_inv _ _ _ Sh) as (l1 & l2 & V & _).
      assert (n = x) by (eapply same_node; [exact V|intros ? X; discriminate X|exact Hd]). subst n. rewrite (kind_at _ _ _ _ V) in Kn. discriminate.
    + exfalso. destruct (shape_rep_inv _ _ _ _ Sh) as (ch & alts & V & _).
      assert (n = x) by (eapply same_node; [exact V|intros ? X; discriminate X|exact Hd]). subst n. rewrite (kind_at _ _ _ _ V) in Kn. discriminate.
  - (* a choose-one decision takes one branch *)
    rename e into Kn. rename e0 into Nt. rename t0 into t'. intros x e1 Hv Hd Sh Wf.
    assert (Ht : In t' vis).
    { apply (Clo n Hv); [unfold is_dec; rewrite Kn; reflexivity|eapply nth_error_In; eauto]. }
    destruct e1 as [s|nm|l|l|a b|e1 s1 t1].
    + exfalso. pose proof (shape_term_inv _ _ Sh) as V.
      assert (n = x) by (eapply same_node; [exact V|intros ? X; discriminate X|exact Hd]). subst n. rewrite (kind_at _ _ _ _ V) in Kn. discriminate.
    + (* reference: the rule node and then its right-hand side *)
      pose proof (shape_nt_inv _ _ Sh) as V.
      destruct (ref_target x n nm (view_kind _ _ _ _ _ V) Hd) as (rr & cc1 & Hin & Vm & Shc).
      pose proof (Sem n Hv) as F. destruct (view_eq _ _ _ _ _ Vm) as (_ & Om & _). fold g in Om. rewrite Om in F.
      destruct (pick_child _ [cc1] [rr] i t' F ltac:(constructor; [exact Shc|constructor]) Nt) as (c2 & e2 & [<-|[]] & Dc & Sh2).
      rewrite out_cons, (out_single_pnone _ _ _ Vm). cbn [app].
      eapply D_nt; [exact Hin|]. eapply IHRun0; eauto.
    + exfalso. destruct (shape_concat_inv _ _ Sh) as (cs & V & _).
      assert (n = x) by (eapply same_node; [exact V|intros ? X; discriminate X|exact Hd]). subst n. rewrite (kind_at _ _ _ _ V) in Kn. discriminate.
    + (* alternative *)
      destruct (shape_alt_inv _ _ Sh) as (cs & V & Shs).
      assert (n = x) by (eapply same_node; [exact V|intros ? X; discriminate X|exact Hd]). subst n.
      pose proof (Sem x Hv) as F. destruct (view_eq _ _ _ _ _ V) as (_ & Ox & _). fold g in Ox. rewrite Ox in F.
      destruct (pick_child _ cs l i t' F Shs Nt) as (c2 & e2 & Hin & Dc & Sh2).
      rewrite out_cons, (out_single_pnone _ _ _ V). cbn [app].
      inversion Wf as [| |?|l0 Wl| |]; subst. rewrite Forall_forall in Wl.
      eapply D_alt; [exact Hin|]. eapply IHRun0; eauto.
    + (* range *)
      destruct (shape_range_inv _ _ _ Sh) as (l1 & l2 & V & R1 & R2 & V1 & V2).
      assert (n = x) by (eapply same_node; [exact V|intros ? X; discriminate X|exact Hd]). subst n.
      pose proof (Sem x Hv) as F. destruct (view_eq _ _ _ _ _ V) as (_ & Ox & _). fold g in Ox. rewrite Ox in F.
      destruct (pick_alt _ [l1; l2] i t' F Nt) as (a0 & Ha0 & Da0).
      rewrite out_cons, (out_single_pnone _ _ _ V). cbn [app].
      inversion Wf; subst.
      destruct Ha0 as [<-|[<-|[]]].
      * assert (Dv : derives G (GTerm [a]) (output_of st tr)) by (eapply IHRun0; eauto; [apply sh_term; auto|constructor]).
        inversion Dv; subst. constructor. lia.
      * assert (Dv : derives G (GTerm [b]) (output_of st tr)) by (eapply IHRun0; eauto; [apply sh_term; auto|constructor]).
        inversion Dv; subst. constructor. lia.
    + (* repetition: the empty leaf, or a do-all of k copies *)
      destruct (shape_rep_inv _ _ _ _ Sh) as (child & alts & V & Shc & HA).
      assert (n = x) by (eapply same_node; [exact V|intros ? X; discriminate X|exact Hd]). subst n.
      pose proof (Sem x Hv) as F. destruct (view_eq _ _ _ _ _ V) as (_ & Ox & _). fold g in Ox. rewrite Ox in F.
      destruct (pick_alt _ alts i t' F Nt) as (a0 & Ha0 & Da0).
      rewrite out_cons, (out_single_pnone _ _ _ V). cbn [app].
      inversion Wf as [| | | | |e' s' t'' We Wb]; subst.
      destruct (HA a0 Ha0) as [Ra [[Va S0]|(k & Va & Hk)]].
      * (* zero occurrences *)
        assert (t' = a0) by (eapply same_node; [exact Va|intros ? X; discriminate X|exact Da0]). subst t'.
        inversion H; subst; try (rewrite (kind_at _ _ _ _ Va) in *; discriminate).
        rewrite (out_single_pnone _ _ _ Va).
        apply (D_rep G e1 0 t1 []); [cbn; lia|intros; cbn; lia|constructor].
      * (* k occurrences *)
        assert (Dv : derives G (GConcat (repeat e1 k)) (output_of st tr)).
        { eapply IHRun0; eauto.
          - eapply sh_concat; [exact Ra|exact Va|]. apply shapes_repeat. exact Shc.
          - constructor. apply Forall_repeat. exact We. }
        inversion Dv as [| |l0 ws Fw| | |]; subst. destruct (Forall2_repeat_l _ _ _ _ Fw) as [Lw Fw'].
        apply D_rep; auto.
        -- rewrite Lw. destruct Hk as [->| ->]; [lia|]. destruct t1 as [s0|]; [apply Wb; reflexivity|lia].
        -- intros s0 Es. rewrite Lw. subst t1. destruct Hk as [->| ->]; [apply Wb; reflexivity|lia].
  - (* a do-all decision runs all branches *)
    rename e into Kn. intros x e1 Hv Hd Sh Wf.
    destruct e1 as [s|nm|l|l|a b|e1 s1 t1].
    + exfalso. pose proof (shape_term_inv _ _ Sh) as V.
      assert (n = x) by (eapply same_node; [exact V|intros ? X; discriminate X|exact Hd]). subst n. rewrite (kind_at _ _ _ _ V) in Kn. discriminate.
    + exfalso. pose proof (shape_nt_inv _ _ Sh) as V.
      destruct (ref_target x n nm (view_kind _ _ _ _ _ V) Hd) as (rr & cc1 & _ & Vm & _).
      rewrite (kind_at _ _ _ _ Vm) in Kn. discriminate.
    + destruct (shape_concat_inv _ _ Sh) as (cs & V & Shs).
      assert (n = x) by (eapply same_node; [exact V|intros ? X; discriminate X|exact Hd]). subst n.
      pose proof (Sem x Hv) as F. destruct (view_eq _ _ _ _ _ V) as (_ & Ox & _). fold g in Ox. rewrite Ox in F.
      rewrite out_cons, (out_single_pnone _ _ _ V). cbn [app]. clear Ox.
      inversion Wf as [| |l0 Wl| | |]; subst l0.
      destruct (IHRun0 cs l) as (ws & Fw & ->); auto.
      * intros c' Hc'. apply (Clo x Hv); [unfold is_dec; rewrite Kn; reflexivity|exact Hc'].
      * constructor. exact Fw.
    + exfalso. destruct (shape_alt_inv _ _ Sh) as (cs & V & _).
      assert (n = x) by (eapply same_node; [exact V|intros ? X; discriminate X|exact Hd]). subst n. rewrite (kind_at _ _ _ _ V) in Kn. discriminate.
    + exfalso. destruct (shape_range_inv _ _ _ Sh) as (l1 & l2 & V & _).
      assert (n = x) by (eapply same_node; [exact V|intros ? X; discriminate X|exact Hd]). subst n. rewrite (kind_at _ _ _ _ V) in Kn. discriminate.
    + exfalso. destruct (shape_rep_inv _ _ _ _ Sh) as (ch & alts & V & _).
      assert (n = x) by (eapply same_node; [exact V|intros ? X; discriminate X|exact Hd]). subst n. rewrite (kind_at _ _ _ _ V) in Kn. discriminate.
  - intros cs es _ F Sh Wf. inversion F; subst. inversion Sh; subst. exists []. split; constructor.
  - intros cs es Hvis F Sh Wf. inversion F as [|a b la lb Dab Fr]; subst. inversion Sh; subst. inversion Wf; subst.
    destruct (IHRun1 la l) as (ws & Fw & Ew); auto; [intros c' Hc'; apply Hvis; right; exact Hc'|].
    exists (output_of st tr :: ws). split.
    + constructor; auto. eapply IHRun0; eauto. apply Hvis. left. reflexivity.
    + rewrite output_of_app, Ew. reflexivity.
Qed.
End Sem.

(* ---------- convert() as a whole ---------- *)
Lemma Forall2_rule_ok_move st st' rules G : Forall2 (rule_ok st) rules G -> len st <= len st' ->
  same_on (fun m => m < len st) st st' -> (forall m, m < len st -> nid (getn (b_graph st') m) = nid (getn (b_graph st) m)) ->
  Forall2 (rule_ok st') rules G.
Proof. intros F L S I. eapply Forall2_weaken; [|exact F]. intros n rule Hr. eapply rule_ok_move; eauto. Qed.

Theorem parse_grammar_lang : forall fuel G start stF r,
  (forall name rhs0, In (name, rhs0) G -> wfr rhs0) ->
  parse_grammar fuel G start = Ok (stF, r) ->
  forall c tr, Run0 (b_graph stF) r c tr -> derives G (GNT start) (output_of stF tr).
Proof.
  intros fuel G start stF r WG H c tr HR. unfold parse_grammar in H.
  assert (FE : forall (f h : bst * list nat -> str * rhs -> bst * list nat), (forall a b, f a b = h a b) ->
                forall l a0, fold_left f l a0 = fold_left h l a0).
  { intros f h E l. induction l as [|x l IHl]; intros a0; cbn [fold_left]; [reflexivity|]. rewrite E. apply IHl. }
  match type of H with context [fold_left ?f G (bempty, [])] =>
    rewrite (FE f rule_step) in H by (intros [s0 acc0] [name0 r1]; reflexivity) end.
  pose proof (rules_fold G [] (bempty, []) rules_inv_empty) as RI. cbn [app] in RI.
  destruct (fold_left rule_step G (bempty, [])) as [st0 rules] eqn:EF.
  destruct RI as (Ok0 & F0 & Ids0). cbn [fst snd] in *.
  (* the input node, the reference to the start symbol, the output node *)
  unfold new_node at 1 in H.
  destruct (gok_new (KDec true false) None PInput st0 Ok0) as (Ok1 & L1 & S1 & V1 & I1 & J1); [intros x X; discriminate X|intros v X; discriminate X|].
  set (st1 := mkBst (b_graph st0 ++ [mkNode (KDec true false) None [] []]) (b_pay st0 ++ [PInput])) in *.
  change (length (b_graph st0)) with (len st0) in H.
  unfold new_node at 1 in H.
  destruct (gok_new (KRef start) None PNone st1 Ok1) as (Ok2 & L2 & S2 & V2 & I2 & J2); [intros x X; discriminate X|intros v X; discriminate X|].
  set (st2 := mkBst (b_graph st1 ++ [mkNode (KRef start) None [] []]) (b_pay st1 ++ [PNone])) in *.
  change (length (b_graph st1)) with (len st1) in H.
  assert (D2 : is_dec (b_graph st2) (len st0) = true).
  { unfold is_dec. rewrite (view_kind _ _ _ _ _ (eq_trans (S2 (len st0) ltac:(cbv beta; lia)) V1)). reflexivity. }
  destruct (gok_add_t (len st0) (len st1) st2 Ok2 D2 ltac:(cbv beta; lia)) as (Ok3 & L3 & S3 & V3 & I3).
  set (st3 := add_t (len st0) (len st1) st2) in *.
  unfold new_node at 1 in H.
  destruct (gok_new (KLeaf true) None POutput st3 Ok3) as (Ok4 & L4 & S4 & V4 & I4 & J4); [intros x X; discriminate X|intros v X; inversion X; auto|].
  set (st4 := mkBst (b_graph st3 ++ [mkNode (KLeaf true) None [] []]) (b_pay st3 ++ [POutput])) in *.
  change (length (b_graph st3)) with (len st3) in H.
  assert (Vr3 : view st3 (len st0) = (KDec true false, [len st1], PInput)).
  { rewrite V3. destruct (view_eq _ _ _ _ _ (eq_trans (S2 (len st0) ltac:(cbv beta; lia)) V1)) as (K & O & P). rewrite K, O, P. reflexivity. }
  assert (D4 : is_dec (b_graph st4) (len st0) = true).
  { unfold is_dec. rewrite (view_kind _ _ _ _ _ (eq_trans (S4 (len st0) ltac:(cbv beta; lia)) Vr3)). reflexivity. }
  destruct (gok_add_t (len st0) (len st3) st4 Ok4 D4 ltac:(cbv beta; lia)) as (Ok5 & L5 & S5 & V5 & I5).
  set (st5 := add_t (len st0) (len st3) st4) in *.
  assert (Vroot : view st5 (len st0) = (KDec true false, [len st1; len st3], PInput)).
  { rewrite V5. destruct (view_eq _ _ _ _ _ (eq_trans (S4 (len st0) ltac:(cbv beta; lia)) Vr3)) as (K & O & P). rewrite K, O, P. reflexivity. }
  assert (Vref : view st5 (len st1) = (KRef start, [], PNone)).
  { rewrite (S5 (len st1) ltac:(cbv beta; lia)). rewrite (S4 (len st1) ltac:(cbv beta; lia)). rewrite (S3 (len st1) ltac:(cbv beta; lia)). exact V2. }
  assert (Vfo : view st5 (len st3) = (KLeaf true, [], POutput)).
  { rewrite (S5 (len st3) ltac:(cbv beta; lia)). exact V4. }
  assert (S05 : same_on (fun m => m < len st0) st0 st5).
  { intros m Lm. rewrite (S5 m ltac:(cbv beta; lia)). rewrite (S4 m ltac:(cbv beta; lia)). rewrite (S3 m ltac:(cbv beta; lia)).
    rewrite (S2 m ltac:(cbv beta; lia)). apply S1. exact Lm. }
  assert (I05 : forall m, m < len st0 -> nid (getn (b_graph st5) m) = nid (getn (b_graph st0) m)).
  { intros m Lm. rewrite I5. rewrite J4 by lia. rewrite I3. rewrite J2 by lia. apply J1. exact Lm. }
  assert (F5 : Forall2 (rule_ok st5) rules G) by (eapply Forall2_rule_ok_move; eauto; lia).
  assert (Ids5 : forall m name, nid (getn (b_graph st5) m) = Some name -> In m rules).
  { intros m name Hm. destruct (Nat.lt_ge_cases m (len st0)) as [Lm|Lm]; [rewrite I05 in Hm by exact Lm; eapply Ids0; eauto|].
    exfalso. rewrite I5 in Hm.
    destruct (Nat.eq_dec m (len st3)) as [->|N3]; [rewrite I4 in Hm; discriminate|].
    destruct (Nat.lt_ge_cases m (len st3)) as [Lb|Lb].
    - rewrite J4 in Hm by exact Lb. rewrite I3 in Hm.
      destruct (Nat.eq_dec m (len st1)) as [->|N1]; [rewrite I2 in Hm; discriminate|].
      destruct (Nat.lt_ge_cases m (len st1)) as [Lc|Lc]; [|lia].
      rewrite J2 in Hm by exact Lc. assert (m = len st0) by lia. subst m. rewrite I1 in Hm. discriminate.
    - unfold getn in Hm. rewrite nth_overflow in Hm; [discriminate|]. fold (len st4). lia. }
  (* resolve() *)
  destruct (resolve fuel (b_graph st5) (len st0) rules) as [[gr r0]| | |] eqn:ER; cbn [bind] in H; try discriminate.
  destruct Ok5 as (OkS & [IOc OOc] & ODc & Pyc).
  destruct (resolve_sem _ _ _ _ _ _ ER OOc (ins_ok_nr_of_ins_ok _ IOc) ODc) as (t & vis & TW & DRr & Same & Inr & Sem & Clo).
  assert (r0 = len st0).
  { eapply DR_nonref; [exact DRr|]. unfold is_ref. rewrite (view_kind _ _ _ _ _ Vroot). reflexivity. } subst r0.
  (* optimize() *)
  destruct (optimize fuel gr (len st0)) as [gr'| | |] eqn:EO; cbn [bind] in H; try discriminate.
  inversion H; subst stF r. clear H.
  destruct (optimize_sem _ _ _ _ EO) as [_ Bwd].
  destruct (Bwd _ _ _ HR) as (c2 & tr2 & R2 & EV).
  assert (Kgr : forall x, kind_of gr x = kind_of (b_graph st5) x) by (destruct Same as (K & _ & _); exact K).
  assert (NPp : forall n, is_noop gr n = true -> forall s, pay_of st5 n <> PChars s).
  { intros n Hn s X. destruct Pyc as (_ & Hp & _). specialize (Hp n s X).
    unfold is_noop in Hn. rewrite Kgr in Hn. unfold is_leaf in Hp. destruct (kind_of (b_graph st5) n); discriminate. }
  assert (EOut : output_of st5 tr = output_of st5 tr2).
  { rewrite <- (output_vis st5 _ tr NPp), <- EV. apply output_vis. exact NPp. }
  change (derives G (GNT start) (output_of st5 tr)). rewrite EOut.
  (* the execution in the resolved graph: input node, start symbol, output node *)
  pose proof (Sem (len st0) Inr) as Fr. destruct (view_eq _ _ _ _ _ Vroot) as (Kr & Or & Pr). rewrite Or in Fr.
  inversion Fr as [|a1 b1 la lb D1 Fr1 Ea Eb]; subst. inversion Fr1 as [|a2 b2 la2 lb2 D2' Fr2 Ea2 Eb2]; subst. inversion Fr2; subst.
  assert (b2 = len st3) by (eapply DR_nonref; [exact D2'|unfold is_ref; rewrite (view_kind _ _ _ _ _ Vfo); reflexivity]). subst b2.
  inversion R2 as [n v Kn|n noop i t' c0 tr0 Kn Nt R0'|n noop c0 trs Kn RA]; subst;
    try (rewrite Kgr, Kr in Kn; discriminate).
  rewrite <- Eb in RA.
  inversion RA as [|t1 ts c1 tr1 c3 trs1 Ra Rb]; subst.
  inversion Rb as [|t2 ts2 c4 tr4 c5 trs2 Rc Rd]; subst. inversion Rd; subst.
  assert (Hb1 : In b1 vis).
  { apply (Clo (len st0) Inr); [unfold is_dec; rewrite Kgr, Kr; reflexivity|rewrite <- Eb; left; reflexivity]. }
  assert (Dstart : derives G (GNT start) (output_of st5 tr1)).
  { eapply (run_derives G st5 gr t vis rules WG Same TW Sem Clo F5 Ids5 b1 c1 tr1 Ra (len st1) (GNT start) Hb1 D1).
    - apply sh_nt; [unfold R0; lia|exact Vref].
    - constructor. }
  inversion Rc as [n v Kn2| |]; subst; try (rewrite Kgr, (view_kind _ _ _ _ _ Vfo) in *; discriminate).
  change (len st0 :: tr1 ++ [len st3] ++ []) with ([len st0] ++ tr1 ++ [len st3]).
  rewrite !output_of_app, !output_of_single, Pr.
  destruct (view_eq _ _ _ _ _ Vfo) as (_ & _ & Pf). rewrite Pf. cbn [app]. rewrite app_nil_r. exact Dstart.
Qed.

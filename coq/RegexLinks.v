(* RegexLinks.v -- the table the regex converters build is consistently linked; hence, after optimize() and the three
   wrapper nodes, every node reachable from the root of the graph parse_regex returns is linked on both ends
   (C14 for the regex front end). *)
From Fences Require Import Regex GraphSpec GraphLinks GraphOps GraphOpt GraphOptLinks RegexLang.
From Coq Require Import Lia.
Local Open Scope list_scope.

Definition cg (st : bst) : Prop := consistent (b_graph st).
Definition ext (st st' : bst) : Prop :=
  len st <= len st' /\ forall m, m < len st -> kind_of (b_graph st') m = kind_of (b_graph st) m.

Lemma ext_refl st : ext st st.
Proof. split; auto. Qed.
Lemma ext_trans a b c : ext a b -> ext b c -> ext a c.
Proof. intros [L1 K1] [L2 K2]. split; [lia|]. intros m Hm. rewrite K2 by lia. apply K1. exact Hm. Qed.

Lemma ext_dec st st' n : ext st st' -> n < len st -> is_dec (b_graph st) n = true -> is_dec (b_graph st') n = true.
Proof. intros [_ K] L D. unfold is_dec in *. rewrite (K n L). exact D. Qed.

Lemma cg_new k p st : cg st ->
  let st' := fst (new_node k p st) in
  cg st' /\ ext st st' /\ len st' = S (len st) /\ kind_of (b_graph st') (len st) = k.
Proof.
  intros C. cbn [new_node fst]. unfold cg, ext, len. cbn [b_graph]. split; [apply new_node_consistent; exact C|].
  split; [split; [rewrite app_length; cbn; lia|]|split; [rewrite app_length; cbn; lia|]].
  - intros m Hm. unfold kind_of, getn. rewrite app_nth1 by exact Hm. reflexivity.
  - unfold kind_of, getn. rewrite app_nth2 by lia. rewrite Nat.sub_diag. reflexivity.
Qed.

Lemma cg_add_t s t st : cg st -> is_dec (b_graph st) s = true -> t < len st ->
  cg (add_t s t st) /\ ext st (add_t s t st) /\ len (add_t s t st) = len st.
Proof.
  intros C D L. unfold cg, ext, len, add_t. cbn [b_graph].
  destruct (add_transition_spec (b_graph st) s t (is_dec_lt _ _ D) L) as (K & _ & _ & Ln).
  split; [apply add_transition_consistent; auto|]. split; [split; [lia|intros m _; apply K]|exact Ln].
Qed.

Lemma cg_add_times : forall k s t st, cg st -> is_dec (b_graph st) s = true -> t < len st ->
  cg (add_times k s t st) /\ ext st (add_times k s t st) /\ len (add_times k s t st) = len st.
Proof.
  induction k as [|k IH]; intros s t st C D L; cbn [add_times]; [split; [exact C|split; [apply ext_refl|reflexivity]]|].
  destruct (cg_add_t s t st C D L) as (C1 & E1 & L1).
  destruct (IH s t (add_t s t st) C1) as (C2 & E2 & L2).
  - apply (ext_dec st); auto. exact (is_dec_lt _ _ D).
  - unfold len in *. lia.
  - split; [exact C2|]. split; [eapply ext_trans; eauto|unfold len in *; lia].
Qed.

(* the result of a converter: consistent table, nothing older changed kind, the returned node exists *)
Definition good (st st' : bst) (n : nat) : Prop := cg st' /\ ext st st' /\ n < len st'.

Lemma add_repetition_cg root it times st : cg st -> is_dec (b_graph st) root = true -> it < len st ->
  cg (add_repetition root it times st) /\ ext st (add_repetition root it times st).
Proof.
  intros C D L. pose proof (is_dec_lt _ _ D) as Lr. unfold add_repetition, noop_dec.
  destruct (cg_new (KDec true true) PNone st C) as (C1 & E1 & L1 & K1). cbn [new_node fst] in *.
  set (st1 := mkBst (b_graph st ++ [mkNode (KDec true true) None [] []]) (b_pay st ++ [PNone])) in *.
  assert (Ds : is_dec (b_graph st1) (len st) = true) by (unfold is_dec; rewrite K1; reflexivity).
  destruct (cg_add_times times (len st) it st1 C1 Ds) as (C2 & E2 & L2); [(unfold len in *; lia)|].
  destruct (cg_add_t root (len st) (add_times times (len st) it st1) C2) as (C3 & E3 & L3).
  - apply (ext_dec st1); [exact E2|(unfold len in *; lia)|]. apply (ext_dec st); auto.
  - (unfold len in *; lia).
  - split; [exact C3|]. eapply ext_trans; [exact E1|]. eapply ext_trans; eauto.
Qed.

Lemma repeat_cg root it rp st : cg st -> is_dec (b_graph st) root = true -> it < len st ->
  cg (repeat_ root it rp st) /\ ext st (repeat_ root it rp st).
Proof.
  intros C D L. pose proof (is_dec_lt _ _ D) as Lr. unfold repeat_. destruct rp as [mn mx].
  set (mx' := match mx with None => mn + 2 | Some m => m end).
  (* the empty leaf *)
  set (st1 := if (mn =? 0) || (mx' =? 0) then let '(st, l) := noop_leaf st in add_t root l st else st).
  assert (S1 : cg st1 /\ ext st st1).
  { unfold st1. destruct ((mn =? 0) || (mx' =? 0)); [|split; [exact C|apply ext_refl]].
    unfold noop_leaf. destruct (cg_new (KLeaf true) PNone st C) as (C1 & E1 & L1 & K1). cbn [new_node fst] in *.
    set (sta := mkBst (b_graph st ++ [mkNode (KLeaf true) None [] []]) (b_pay st ++ [PNone])) in *.
    destruct (cg_add_t root (len st) sta C1) as (C2 & E2 & L2).
    - apply (ext_dec st); auto.
    - (unfold len in *; lia).
    - split; [exact C2|eapply ext_trans; eauto]. }
  destruct S1 as [C1 E1].
  assert (D1 : is_dec (b_graph st1) root = true) by (apply (ext_dec st); auto; exact (is_dec_lt _ _ D)).
  assert (L1 : it < len st1) by (destruct E1; (unfold len in *; lia)).
  assert (S2 : cg (if 0 <? mn then add_repetition root it mn st1 else st1) /\ ext st1 (if 0 <? mn then add_repetition root it mn st1 else st1)).
  { destruct (0 <? mn); [apply add_repetition_cg; auto|split; [exact C1|apply ext_refl]]. }
  destruct S2 as [C2 E2]. set (st2 := if 0 <? mn then add_repetition root it mn st1 else st1) in *.
  destruct (mx' =? mn).
  - split; [exact C2|eapply ext_trans; eauto].
  - destruct (add_repetition_cg root it mx' st2 C2) as [C3 E3].
    + apply (ext_dec st1); auto. exact (is_dec_lt _ _ D1).
    + destruct E2; (unfold len in *; lia).
    + split; [exact C3|]. eapply ext_trans; [exact E1|]. eapply ext_trans; eauto.
Qed.

Lemma with_quant_cg q it st st' n : cg st -> it < len st -> with_quant q it st = Ok (st', n) -> good st st' n.
Proof.
  intros C L H. unfold with_quant in H. destruct q as [q|].
  - destruct (rep_of q) as [rp| | |]; cbn [bind] in H; try discriminate. unfold noop_dec in H.
    destruct (cg_new (KDec false true) PNone st C) as (C1 & E1 & L1 & K1). cbn [new_node fst] in *.
    set (st1 := mkBst (b_graph st ++ [mkNode (KDec false true) None [] []]) (b_pay st ++ [PNone])) in *.
    inversion H; subst st' n.
    destruct (repeat_cg (length (b_graph st)) it rp st1 C1) as [C2 E2].
    + unfold is_dec. change (length (b_graph st)) with (len st). rewrite K1. reflexivity.
    + (unfold len in *; lia).
    + split; [exact C2|]. split; [eapply ext_trans; eauto|]. change (length (b_graph st)) with (len st). destruct E2; (unfold len in *; lia).
  - inversion H; subst. split; [exact C|]. split; [apply ext_refl|exact L].
Qed.

(* ---------- the converters ---------- *)
Lemma conv_citem_cg ci st st' n : cg st -> conv_citem ci st = Ok (st', n) -> good st st' n.
Proof.
  intros C H. unfold conv_citem, noop_dec, char_leaf in H.
  destruct (cg_new (KDec false true) PNone st C) as (C1 & E1 & L1 & K1). cbn [new_node fst] in *.
  set (st1 := mkBst (b_graph st ++ [mkNode (KDec false true) None [] []]) (b_pay st ++ [PNone])) in *.
  assert (D1 : is_dec (b_graph st1) (len st) = true) by (unfold is_dec; rewrite K1; reflexivity).
  destruct ci as [c|a b].
  - destruct (cg_new (KLeaf true) (PChars [c]) st1 C1) as (C2 & E2 & L2 & K2). cbn [new_node fst] in *.
    set (st2 := mkBst (b_graph st1 ++ [mkNode (KLeaf true) None [] []]) (b_pay st1 ++ [PChars [c]])) in *.
    destruct (cg_add_t (len st) (len st1) st2 C2) as (C3 & E3 & L3); [apply (ext_dec st1); auto; (unfold len in *; lia)|(unfold len in *; lia)|].
    assert (X : st' = add_t (len st) (len st1) st2 /\ n = len st) by (inversion H; split; reflexivity). destruct X as [-> ->]. split; [exact C3|]. split; [eapply ext_trans; [exact E1|eapply ext_trans; eauto]|(unfold len in *; lia)].
  - destruct (b <? a); [discriminate|].
    destruct (cg_new (KDec false true) PNone st1 C1) as (C2 & E2 & L2 & K2). cbn [new_node fst] in *.
    set (st2 := mkBst (b_graph st1 ++ [mkNode (KDec false true) None [] []]) (b_pay st1 ++ [PNone])) in *.
    assert (D2 : is_dec (b_graph st2) (len st1) = true) by (unfold is_dec; rewrite K2; reflexivity).
    destruct (cg_new (KLeaf true) (PChars [a]) st2 C2) as (C3 & E3 & L3 & K3). cbn [new_node fst] in *.
    set (st3 := mkBst (b_graph st2 ++ [mkNode (KLeaf true) None [] []]) (b_pay st2 ++ [PChars [a]])) in *.
    destruct (cg_add_t (len st1) (len st2) st3 C3) as (C4 & E4 & L4); [apply (ext_dec st2); auto; (unfold len in *; lia)|(unfold len in *; lia)|].
    set (st4 := add_t (len st1) (len st2) st3) in *.
    destruct (cg_new (KLeaf true) (PChars [b]) st4 C4) as (C5 & E5 & L5 & K5). cbn [new_node fst] in *.
    set (st5 := mkBst (b_graph st4 ++ [mkNode (KLeaf true) None [] []]) (b_pay st4 ++ [PChars [b]])) in *.
    assert (E25 : ext st2 st5) by (eapply ext_trans; [exact E3|eapply ext_trans; eauto]).
    destruct (cg_add_t (len st1) (len st4) st5 C5) as (C6 & E6 & L6); [apply (ext_dec st2); auto; (unfold len in *; lia)|(unfold len in *; lia)|].
    set (st6 := add_t (len st1) (len st4) st5) in *.
    assert (E16 : ext st1 st6) by (eapply ext_trans; [exact E2|eapply ext_trans; eauto]).
    destruct (cg_add_t (len st) (len st1) st6 C6) as (C7 & E7 & L7); [apply (ext_dec st1); auto; (unfold len in *; lia)|(destruct E16; unfold len in *; lia)|].
    assert (X : st' = add_t (len st) (len st1) st6 /\ n = len st) by (inversion H; split; reflexivity). destruct X as [-> ->]. split; [exact C7|]. split; [eapply ext_trans; [exact E1|eapply ext_trans; eauto]|destruct E16; unfold len in *; lia].
Qed.

Lemma add_children_cg {A} (B : A -> bst -> res (bst * nat)) parent : forall l st st',
  (forall a, In a l -> forall st st' c, cg st -> B a st = Ok (st', c) -> good st st' c) ->
  cg st -> is_dec (b_graph st) parent = true -> add_children B parent l st = Ok st' -> cg st' /\ ext st st'.
Proof.
  induction l as [|a l IH]; intros st st' HB C D H; cbn [add_children] in H.
  - inversion H; subst. split; [exact C|apply ext_refl].
  - destruct (B a st) as [[st1 c]| | |] eqn:E; cbn [bind] in H; try discriminate.
    destruct (HB a (or_introl eq_refl) st st1 c C E) as (C1 & E1 & L1).
    pose proof (is_dec_lt _ _ D) as Lp.
    assert (D1 : is_dec (b_graph st1) parent = true) by (apply (ext_dec st); auto).
    destruct (cg_add_t parent c st1 C1 D1 L1) as (C2 & E2 & L2).
    destruct (IH (add_t parent c st1) st' (fun a' Ha => HB a' (or_intror Ha)) C2) as [C3 E3]; auto.
    + apply (ext_dec st1); auto. destruct E1. unfold len in *. lia.
    + split; [exact C3|]. eapply ext_trans; [exact E1|eapply ext_trans; eauto].
Qed.

Definition P_expr (r : regex) : Prop := forall st st' n, cg st -> conv_expr r st = Ok (st', n) -> good st st' n.
Definition P_item' (i : item) : Prop := forall st st' n, cg st -> conv_item i st = Ok (st', n) -> good st st' n.

Lemma atom_cg i : (forall nc r q, i = IGroup nc r q -> P_expr r) -> forall st st' n, cg st -> atom i st = Ok (st', n) -> good st st' n.
Proof.
  intros HG st st' n C H. destruct i as [c q|c0 cs q|nc r q]; cbn [atom] in H.
  - unfold noop_dec, char_leaf in H.
    destruct (cg_new (KDec false true) PNone st C) as (C1 & E1 & L1 & K1). cbn [new_node fst] in *.
    set (st1 := mkBst (b_graph st ++ [mkNode (KDec false true) None [] []]) (b_pay st ++ [PNone])) in *.
    assert (D1 : is_dec (b_graph st1) (len st) = true) by (unfold is_dec; rewrite K1; reflexivity).
    destruct (cg_new (KLeaf true) (PChars [c]) st1 C1) as (C2 & E2 & L2 & K2). cbn [new_node fst] in *.
    set (st2 := mkBst (b_graph st1 ++ [mkNode (KLeaf true) None [] []]) (b_pay st1 ++ [PChars [c]])) in *.
    destruct (cg_add_t (len st) (len st1) st2 C2) as (C3 & E3 & L3); [apply (ext_dec st1); auto; (unfold len in *; lia)|(unfold len in *; lia)|].
    assert (X : st' = add_t (len st) (len st1) st2 /\ n = len st) by (inversion H; split; reflexivity). destruct X as [-> ->]. split; [exact C3|]. split; [eapply ext_trans; [exact E1|eapply ext_trans; eauto]|(unfold len in *; lia)].
  - unfold noop_dec in H.
    destruct (cg_new (KDec false true) PNone st C) as (C1 & E1 & L1 & K1). cbn [new_node fst] in *.
    set (st1 := mkBst (b_graph st ++ [mkNode (KDec false true) None [] []]) (b_pay st ++ [PNone])) in *.
    destruct (cg_new (KDec false true) PNone st1 C1) as (C2 & E2 & L2 & K2). cbn [new_node fst] in *.
    set (st2 := mkBst (b_graph st1 ++ [mkNode (KDec false true) None [] []]) (b_pay st1 ++ [PNone])) in *.
    destruct (cg_new (KDec false true) PNone st2 C2) as (C3 & E3 & L3 & K3). cbn [new_node fst] in *.
    set (st3 := mkBst (b_graph st2 ++ [mkNode (KDec false true) None [] []]) (b_pay st2 ++ [PNone])) in *.
    assert (D1 : is_dec (b_graph st1) (len st) = true) by (unfold is_dec; rewrite K1; reflexivity).
    assert (D2 : is_dec (b_graph st2) (len st1) = true) by (unfold is_dec; rewrite K2; reflexivity).
    assert (D3 : is_dec (b_graph st3) (len st2) = true) by (unfold is_dec; rewrite K3; reflexivity).
    change (length (b_graph st)) with (len st) in H. change (length (b_graph st1)) with (len st1) in H.
    change (length (b_graph st2)) with (len st2) in H.
    destruct (conv_citems (len st2) (c0 :: cs) st3) as [st4| | |] eqn:EC; cbn [bind] in H; try discriminate.
    rewrite conv_citems_eq in EC.
    destruct (add_children_cg conv_citem (len st2) (c0 :: cs) st3 st4 (fun a _ s s' c => conv_citem_cg a s s' c) C3 D3 EC) as [C4 E4].
    assert (E14 : ext st1 st4) by (eapply ext_trans; [exact E2|eapply ext_trans; eauto]).
    assert (E24 : ext st2 st4) by (eapply ext_trans; eauto).
    destruct (cg_add_t (len st1) (len st2) st4 C4) as (C5 & E5 & L5); [apply (ext_dec st2); auto; (unfold len in *; lia)|(destruct E4; unfold len in *; lia)|].
    set (st5 := add_t (len st1) (len st2) st4) in *.
    destruct (cg_add_t (len st) (len st1) st5 C5) as (C6 & E6 & L6);
      [apply (ext_dec st1); [eapply ext_trans; eauto|(unfold len in *; lia)|exact D1]|(destruct E24; unfold len in *; lia)|].
    assert (X : st' = add_t (len st) (len st1) st5 /\ n = len st) by (inversion H; split; reflexivity). destruct X as [-> ->]. split; [exact C6|]. split; [eapply ext_trans; [exact E1|eapply ext_trans; [exact E14|eapply ext_trans; eauto]]|destruct E14; unfold len in *; lia].
  - exact (HG nc r q eq_refl st st' n C H).
Qed.

Lemma conv_item_cg i : (forall nc r q, i = IGroup nc r q -> P_expr r) -> P_item' i.
Proof.
  intros HG st st' n C H. rewrite conv_item_eq in H. unfold noop_dec in H.
  destruct (cg_new (KDec false true) PNone st C) as (C1 & E1 & L1 & K1). cbn [new_node fst] in *.
  set (st1 := mkBst (b_graph st ++ [mkNode (KDec false true) None [] []]) (b_pay st ++ [PNone])) in *.
  assert (D1 : is_dec (b_graph st1) (len st) = true) by (unfold is_dec; rewrite K1; reflexivity).
  change (length (b_graph st)) with (len st) in H.
  destruct (atom i st1) as [[st4 it]| | |] eqn:EA; cbn [bind] in H; try discriminate.
  destruct (atom_cg i HG st1 st4 it C1 EA) as (C4 & E4 & L4).
  destruct (with_quant (quant_of i) it st4) as [[st5 inner]| | |] eqn:EQ; cbn [bind] in H; try discriminate.
  destruct (with_quant_cg _ it st4 st5 inner C4 L4 EQ) as (C5 & E5 & L5).
  assert (E15 : ext st1 st5) by (eapply ext_trans; eauto).
  destruct (cg_add_t (len st) inner st5 C5) as (C6 & E6 & L6); [apply (ext_dec st1); auto; (unfold len in *; lia)|exact L5|].
  assert (X : st' = add_t (len st) inner st5 /\ n = len st) by (inversion H; split; reflexivity). destruct X as [-> ->]. split; [exact C6|]. split; [eapply ext_trans; [exact E1|eapply ext_trans; eauto]|destruct E15; unfold len in *; lia].
Qed.

Lemma conv_sub_cg s : (forall i, In i (items_of s) -> P_item' i) -> forall st st' n, cg st -> conv_sub s st = Ok (st', n) -> good st st' n.
Proof.
  intros HI st st' n C H. rewrite conv_sub_eq in H. unfold noop_dec in H.
  destruct (cg_new (KDec true true) PNone st C) as (C1 & E1 & L1 & K1). cbn [new_node fst] in *.
  set (st1 := mkBst (b_graph st ++ [mkNode (KDec true true) None [] []]) (b_pay st ++ [PNone])) in *.
  assert (D1 : is_dec (b_graph st1) (len st) = true) by (unfold is_dec; rewrite K1; reflexivity).
  change (length (b_graph st)) with (len st) in H.
  destruct (add_children conv_item (len st) (items_of s) st1) as [st2| | |] eqn:EC; cbn [bind] in H; try discriminate.
  destruct (add_children_cg conv_item (len st) (items_of s) st1 st2 (fun a Ha s0 s' c => HI a Ha s0 s' c) C1 D1 EC) as [C2 E2].
  assert (X : st' = st2 /\ n = len st) by (inversion H; split; reflexivity). destruct X as [-> ->]. split; [exact C2|]. split; [eapply ext_trans; eauto|destruct E2; unfold len in *; lia].
Qed.

Lemma conv_expr_cg_step r :
  (forall a, In a (alt_builders r) -> forall st st' c, cg st -> fst a st = Ok (st', c) -> good st st' c) -> P_expr r.
Proof.
  intros HB st st' n C H. rewrite conv_expr_eq in H. unfold noop_dec in H.
  destruct (cg_new (KDec false true) PNone st C) as (C1 & E1 & L1 & K1). cbn [new_node fst] in *.
  set (st1 := mkBst (b_graph st ++ [mkNode (KDec false true) None [] []]) (b_pay st ++ [PNone])) in *.
  assert (D1 : is_dec (b_graph st1) (len st) = true) by (unfold is_dec; rewrite K1; reflexivity).
  change (length (b_graph st)) with (len st) in H.
  destruct (add_children (fun a => fst a) (len st) (alt_builders r) st1) as [st2| | |] eqn:EC; cbn [bind] in H; try discriminate.
  destruct (add_children_cg (fun a => fst a) (len st) (alt_builders r) st1 st2 HB C1 D1 EC) as [C2 E2].
  assert (X : st' = st2 /\ n = len st) by (inversion H; split; reflexivity). destruct X as [-> ->]. split; [exact C2|]. split; [eapply ext_trans; eauto|destruct E2; unfold len in *; lia].
Qed.

Theorem conv_expr_cg : forall r, P_expr r.
Proof.
  apply (regex_mind P_expr (fun s => forall i, In i (items_of s) -> P_item' i) P_item').
  - intros s Hs. apply conv_expr_cg_step. intros a [<-|[]]. cbn [fst]. apply conv_sub_cg. exact Hs.
  - intros s Hs r Hr. apply conv_expr_cg_step. intros a [<-|[<-|[]]]; cbn [fst]; [apply conv_sub_cg; exact Hs|exact Hr].
  - intros i Hi i' [<-|[]]. exact Hi.
  - intros i Hi s Hs i' [<-|Hin]; [exact Hi|apply Hs; exact Hin].
  - intros c q. apply conv_item_cg. intros nc r q' E. discriminate E.
  - intros c0 cs q. apply conv_item_cg. intros nc r q' E. discriminate E.
  - intros nc r Hr q. apply conv_item_cg. intros nc' r' q' E. inversion E; subst. exact Hr.
Qed.

(* ---------- the live-set invariant under the two builder operations ---------- *)
Lemma live_restrict g D : live_inv g D -> live_inv g (fun x => D x /\ x < length g).
Proof.
  intros L x Hx. destruct (Nat.lt_ge_cases x (length g)) as [Lt|Ge].
  - assert (Nx : ~ D x) by (intros X; apply Hx; auto). destruct (L x Nx) as [LCx Cl].
    split; [exact LCx|]. intros t Ht [Dt _]. exact (Cl t Ht Dt).
  - unfold LC, ins_of, outs_of, getn. rewrite nth_overflow by exact Ge. cbn.
    split; [split; [intros s i []|intros i t H; destruct i; discriminate H]|intros t []].
Qed.

Lemma live_app g D k id : live_inv g D -> (forall x, D x -> x < length g) ->
  live_inv (g ++ [mkNode k id [] []]) D.
Proof.
  intros L B x Hx.
  assert (Old : forall n, n < length g -> getn (g ++ [mkNode k id [] []]) n = getn g n)
    by (intros n Hn; unfold getn; apply app_nth1; exact Hn).
  assert (KD : forall s, is_dec g s = true -> is_dec (g ++ [mkNode k id [] []]) s = true).
  { intros s Ds. unfold is_dec, kind_of in *. rewrite Old by (apply is_dec_lt; exact Ds). exact Ds. }
  destruct (Nat.lt_ge_cases x (length g)) as [Lt|Ge].
  - destruct (L x Hx) as [[La Lb] Cl]. unfold LC, ins_of, outs_of in *. rewrite (Old x Lt).
    split; [split|exact Cl].
    + intros s i Hin. destruct (La s i Hin) as [Ds Ns]. split; [apply KD; exact Ds|].
      rewrite Old by (apply is_dec_lt; exact Ds). exact Ns.
    + intros i t Ht. specialize (Lb i t Ht).
      destruct (Nat.lt_ge_cases t (length g)) as [Lt'|Ge']; [rewrite Old by exact Lt'; exact Lb|].
      exfalso. unfold getn in Lb. rewrite nth_overflow in Lb by exact Ge'. destruct Lb.
  - assert (E : getn (g ++ [mkNode k id [] []]) x = mkNode k id [] [] \/ getn (g ++ [mkNode k id [] []]) x = dummy).
    { unfold getn. destruct (Nat.eq_dec x (length g)) as [->|Ne].
      - left. rewrite app_nth2 by lia. rewrite Nat.sub_diag. reflexivity.
      - right. apply nth_overflow. rewrite app_length. cbn. lia. }
    unfold LC, ins_of, outs_of. destruct E as [-> | ->]; cbn;
      (split; [split; [intros s i []|intros i t H; destruct i; discriminate H]|intros t []]).
Qed.

Lemma live_add g D s t : live_inv g D -> ~ D s -> ~ D t -> is_dec g s = true -> t < length g ->
  live_inv (add_transition g s t) D.
Proof.
  intros L Ns Nt Ds Lt x Hx.
  destruct (add_transition_spec g s t (is_dec_lt _ _ Ds) Lt) as (K & O & I & _).
  destruct (L x Hx) as [[La Lb] Cl].
  assert (KD : forall n, is_dec (add_transition g s t) n = is_dec g n) by (intros n; unfold is_dec; rewrite K; reflexivity).
  assert (Pre : forall n i y, nth_error (outs_of g n) i = Some y -> nth_error (outs_of (add_transition g s t) n) i = Some y).
  { intros n i y H. rewrite O. destruct (n =? s) eqn:E; [|exact H]. apply Nat.eqb_eq in E. subst n.
    rewrite nth_error_app1; [exact H|]. apply nth_error_Some. congruence. }
  split; [split|].
  - intros s' i Hin. rewrite I in Hin. destruct (x =? t) eqn:Ex.
    + apply Nat.eqb_eq in Ex. subst x. apply in_app_or in Hin. destruct Hin as [Hin|[Hin|[]]].
      * destruct (La s' i Hin) as [D' N']. split; [rewrite KD; exact D'|apply Pre; exact N'].
      * inversion Hin; subst s' i. split; [rewrite KD; exact Ds|]. rewrite O, Nat.eqb_refl.
        rewrite nth_error_app2 by lia. rewrite Nat.sub_diag. reflexivity.
    + destruct (La s' i Hin) as [D' N']. split; [rewrite KD; exact D'|apply Pre; exact N'].
  - intros i y H. rewrite O in H. rewrite I. destruct (x =? s) eqn:Ex.
    + apply Nat.eqb_eq in Ex. subst x.
      destruct (Nat.lt_ge_cases i (length (outs_of g s))) as [Li|Gi].
      * rewrite nth_error_app1 in H by exact Li. specialize (Lb i y H). destruct (y =? t) eqn:Ey; [apply Nat.eqb_eq in Ey; subst y; apply in_or_app; left; exact Lb|exact Lb].
      * rewrite nth_error_app2 in H by exact Gi. destruct (i - length (outs_of g s)) as [|j] eqn:Ej; [|destruct j; discriminate H].
        cbn in H. inversion H; subst y. rewrite Nat.eqb_refl. apply in_or_app. right. left. f_equal. lia.
    + specialize (Lb i y H). destruct (y =? t) eqn:Ey; [apply Nat.eqb_eq in Ey; subst y; apply in_or_app; left; exact Lb|exact Lb].
  - intros y Hy. rewrite O in Hy. destruct (x =? s) eqn:Ex; [|exact (Cl y Hy)]. apply Nat.eqb_eq in Ex. subst x.
    apply in_app_or in Hy. destruct Hy as [Hy|[<-|[]]]; [exact (Cl y Hy)|exact Nt].
Qed.

(* ---------- parse_regex ---------- *)
Theorem parse_regex_links : forall fuel r st root,
  parse_regex fuel r = Ok (st, root) -> forall x, reach (b_graph st) root x -> LC (b_graph st) x.
Proof.
  intros fuel r st root H. unfold parse_regex, noop_dec in H.
  assert (C0 : cg bempty) by (exact empty_consistent).
  destruct (cg_new (KDec true true) PNone bempty C0) as (C1 & E1 & L1 & K1). cbn [new_node fst] in *.
  set (st1 := mkBst (b_graph bempty ++ [mkNode (KDec true true) None [] []]) (b_pay bempty ++ [PNone])) in *.
  change (length (b_graph bempty)) with 0 in H.
  destruct (conv_expr r st1) as [[st2 e]| | |] eqn:EC; cbn [bind] in H; try discriminate.
  destruct (conv_expr_cg r st1 st2 e C1 EC) as (C2 & E2 & L2).
  assert (D2 : is_dec (b_graph st2) 0 = true).
  { apply (ext_dec st1); [exact E2|unfold len in *; cbn in *; lia|]. unfold is_dec. change 0 with (len bempty). rewrite K1. reflexivity. }
  destruct (cg_add_t 0 e st2 C2 D2 L2) as (C3 & E3 & L3).
  set (st3 := add_t 0 e st2) in *.
  destruct (optimize fuel (b_graph st3) 0) as [g'| | |] eqn:EO; cbn [bind] in H; try discriminate.
  assert (D3 : is_dec (b_graph st3) 0 = true) by (apply (ext_dec st2); auto; exact (is_dec_lt _ _ D2)).
  destruct (optimize_inv fuel (b_graph st3) 0 g' (fun _ => False) (consistent_live _ C3) (fun X => X) D3 EO)
    as (D & LD & NR & _ & KD & _).
  pose proof (live_restrict g' D LD) as LR. set (D' := fun x => D x /\ x < length g') in *.
  assert (B : forall x, D' x -> x < length g') by (intros x [_ X]; exact X).
  assert (N0 : ~ D' 0) by (intros [X _]; exact (NR X)).
  assert (Lg : 0 < length g') by (apply is_dec_lt with (g := g'); rewrite KD; exact D3).
  (* the wrapper: input node, super root, output node *)
  unfold new_node in H. cbn [b_graph b_pay] in H.
  set (n1 := mkNode (KDec false false) None [] []) in *. set (n2 := mkNode (KDec true true) None [] []) in *.
  set (n3 := mkNode (KLeaf true) None [] []) in *.
  set (ci := length g') in *. 
  set (g1 := g' ++ [n1]) in *.
  assert (L1' : live_inv g1 D') by (apply live_app; auto).
  assert (Len1 : length g1 = S ci) by (unfold g1; rewrite app_length; cbn; lia).
  set (g2 := g1 ++ [n2]) in *.
  assert (B1 : forall x, D' x -> x < length g1) by (intros x X; specialize (B x X); lia).
  assert (L2' : live_inv g2 D') by (apply live_app; auto).
  assert (Len2 : length g2 = S (S ci)) by (unfold g2; rewrite app_length; cbn; lia).
  assert (Nci : ~ D' ci) by (intros [_ X]; unfold ci in X; lia).
  assert (Nsr : ~ D' (S ci)) by (intros [_ X]; unfold ci in X; lia).
  assert (Nfo : ~ D' (S (S ci))) by (intros [_ X]; unfold ci in X; lia).
  assert (Kci : is_dec g2 ci = true).
  { unfold is_dec, kind_of, getn, g2. rewrite app_nth1 by lia. unfold g1. rewrite app_nth2 by (unfold ci; lia). replace (ci - length g') with 0 by (unfold ci; lia). reflexivity. }
  assert (Ksr : is_dec g2 (S ci) = true).
  { unfold is_dec, kind_of, getn, g2. rewrite app_nth2 by lia. replace (S ci - length g1) with 0 by lia. reflexivity. }
  change (length g1) with (length g1) in H.
  assert (Eq1 : length g1 = S ci) by exact Len1.
  set (g3 := add_transition g2 ci (S ci)) in *.
  assert (L3' : live_inv g3 D') by (apply live_add; auto; lia).
  destruct (add_transition_spec g2 ci (S ci) ltac:(lia) ltac:(lia)) as (K3 & _ & _ & Len3). fold g3 in K3, Len3.
  set (g4 := add_transition g3 (S ci) 0) in *.
  assert (L4' : live_inv g4 D').
  { apply live_add; auto; [unfold is_dec; rewrite K3; exact Ksr|lia]. }
  destruct (add_transition_spec g3 (S ci) 0 ltac:(lia) ltac:(lia)) as (K4 & _ & _ & Len4). fold g4 in K4, Len4.
  set (g5 := g4 ++ [n3]) in *.
  assert (B4 : forall x, D' x -> x < length g4) by (intros x X; specialize (B x X); lia).
  assert (L5' : live_inv g5 D') by (apply live_app; auto).
  assert (Len5 : length g5 = S (S (S ci))) by (unfold g5; rewrite app_length; cbn; lia).
  assert (Ksr5 : is_dec g5 (S ci) = true).
  { unfold is_dec, kind_of, getn, g5. rewrite app_nth1 by lia. fold (getn g4 (S ci)). fold (kind_of g4 (S ci)). rewrite K4, K3. exact Ksr. }
  set (g6 := add_transition g5 (S ci) (S (S ci))) in *.
  assert (L6' : live_inv g6 D') by (apply live_add; auto; lia).
  (* the result *)
  assert (X : b_graph st = g6 /\ root = ci).
  { inversion H as [[H1 H2]]. split; [|reflexivity]. unfold add_t. cbn [b_graph].
    rewrite !Eq1. change (add_transition g2 ci (S ci)) with g3. change (add_transition g3 (S ci) 0) with g4.
    rewrite Len4, Len3, Len2. reflexivity. }
  destruct X as [-> ->].
  intros x R. exact (proj1 (L6' x (live_reach g6 D' ci L6' Nci x R))).
Qed.

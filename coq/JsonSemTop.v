(* JsonSemTop.v -- normalize() on the propositional-scalar fragment: the result accepts what the schema accepts (C06). *)
From Fences Require Import Normalize NormShape JsonValid JsonGen JsonEnum JsonSem JsonSemAlts JsonSemDnf JsonSemNorm.
From Coq Require Import String ZArith Lia.
Local Open Scope list_scope.

Section Top.
Variable SV : svariant.
Variable cfg : nconfig.
Hypothesis FL : fix_lone_if SV = true.
Hypothesis FM : full_merge cfg = true.
Hypothesis DD : detect_dup cfg = false.
Hypothesis DF : forall k, In k (SK ++ CK) -> smem k (discard_fields cfg) = false.

(* the loop of _normalize over the alternatives: nothing to do in a keyword set of the fragment *)
Definition alt_step (f : nat) (root : json) := (fun '((acc, nr) : list json * refs) (alt : json) =>
                 do d <- as_dict alt;
                 do '(d1, nrA) <- foldM (fun '(d, nr) k =>
                                          match dget k d with
                                          | Some s => do '(s', nr') <- normalize_go SV cfg f root s nr; Ok (dset k s' d, nr')
                                          | None => Ok (d, nr)
                                          end)
                                       (kws ["additionalProperties"; "items"; "additionalItems"; "contains"]%string) (d, nr);
                 do '(d2, nrB) <- match dget (kw "properties") d1 with
                                  | Some pj =>
                                    do props <- as_dict pj;
                                    do '(props', nr') <- foldM (fun '(pacc, nr) '(name, s) =>
                                                                 do '(s', nr') <- normalize_go SV cfg f root s nr;
                                                                 Ok (pacc ++ [(name, s')], nr')) props ([], nrA);
                                    Ok (dset (kw "properties") (JObj props') d1, nr')
                                  | None => Ok (d1, nrA)
                                  end;
                 do '(d3, nrC) <- match dget (kw "prefixItems") d2 with
                                  | Some pj =>
                                    do items <- as_list pj;
                                    do '(items', nr') <- foldM (fun '(iacc, nr) s =>
                                                                 do '(s', nr') <- normalize_go SV cfg f root s nr;
                                                                 Ok (iacc ++ [s'], nr')) items ([], nrB);
                                    Ok (dset (kw "prefixItems") (JArr items') d2, nr')
                                  | None => Ok (d2, nrB)
                                  end;
                 Ok (acc ++ [JObj d3], nrC)).

Lemma normalize_go_obj f root e d' nr : normalize_go SV cfg (S f) root (JObj (e :: d')) nr =
    match ref_index (JObj (e :: d')) nr 0 with
    | Some i => Ok (ref_schema i, nr)
    | None =>
      do '(inlined, contains) <- inline_refs f root (JObj (e :: d'));
      do result <- to_dnf SV cfg f inlined;
      let contains := contains || detect_dup cfg in
      let slot := List.length nr in
      let nr1 := if contains then nr ++ [(JObj (e :: d'), result)] else nr in
      do alts <- any_of result;
      do '(alts', nr2) <- foldM (alt_step f root) alts ([], nr1);
      let final := obj1 "anyOf" (JArr alts') in
      if contains then Ok (ref_schema slot, ref_set slot final nr2) else Ok (final, nr2)
    end.
Proof. reflexivity. Qed.

Lemma galt_absent d k : galt d -> ~ In k SK -> dget k d = None.
Proof. intros [Sd _] N. destruct (dget k d) eqn:G; auto. exfalso. apply N. exact (proj1 (Sd _ _ G)). Qed.

Lemma alt_pass f root d acc nr : galt d -> alt_step f root (acc, nr) (JObj d) = Ok (acc ++ [JObj d], nr).
Proof.
  intros G. unfold alt_step. cbn [as_dict bind kws map foldM].
  assert (A : forall s, ~ In (kw s) SK -> dget (kw s) d = None) by (intros; apply galt_absent; auto).
  rewrite (A "additionalProperties"%string) by (cbv; intuition discriminate). cbn [bind].
  rewrite (A "items"%string) by (cbv; intuition discriminate). cbn [bind].
  rewrite (A "additionalItems"%string) by (cbv; intuition discriminate). cbn [bind].
  rewrite (A "contains"%string) by (cbv; intuition discriminate). cbn [bind].
  rewrite (A "properties"%string) by (cbv; intuition discriminate). cbn [bind].
  rewrite (A "prefixItems"%string) by (cbv; intuition discriminate). cbn [bind].
  reflexivity.
Qed.

Lemma alts_pass f root : forall L acc nr, Forall galt L ->
  foldM (alt_step f root) (map JObj L) (acc, nr) = Ok (acc ++ map JObj L, nr).
Proof.
  induction L as [|d L IH]; intros acc nr F; cbn [map foldM]; [rewrite app_nil_r; reflexivity|].
  inversion F; subst. rewrite alt_pass by assumption. cbn [bind]. rewrite IH by assumption.
  rewrite <- app_assoc. reflexivity.
Qed.

Lemma ddel_absent k d : dget k d = None -> ddel k d = d.
Proof.
  induction d as [|[k' v'] d IH]; cbn [dget ddel]; auto.
  destruct (str_eqb k' k); [discriminate|]. intros G. rewrite IH by exact G. reflexivity.
Qed.

(* C06 on the fragment: normalize() returns an any-of list of keyword sets that is satisfied by exactly the
   instances the schema accepts *)
Theorem normalize_fragment fuel m d n : frag m (JObj d) -> normalize SV cfg fuel (JObj d) = Ok n ->
  exists L, any_of n = Ok (map JObj L) /\ Forall galt L /\ forall x, alts_valid L x <-> sem m x (JObj d).
Proof.
  intros Fs H. destruct m as [|m]; [destruct Fs|].
  assert (Absent : forall k, ~ In k (SK ++ CK) -> dget k d = None) by (intros k N; exact (frag_absent m d Fs k N)).
  unfold normalize in H.
  rewrite (ddel_absent (kw "$schema") d) in H by (apply Absent; cbv; intuition discriminate).
  rewrite (ddel_absent (kw "$defs") d) in H by (apply Absent; cbv; intuition discriminate).
  rewrite (Absent (kw "$schema")) in H by (cbv; intuition discriminate).
  destruct fuel as [|f]; [discriminate H|].
  destruct d as [|e d'].
  - cbn in H. inversion H; subst n. exists [[]]. split; [reflexivity|]. split; [constructor; [apply galt_nil|constructor]|].
    intros x. split; [intros _; apply sem_empty|]. intros _. exists []. split; [left; reflexivity|apply dvalid_nil].
  - rewrite normalize_go_obj in H. cbn [ref_index] in H.
    destruct (inline_refs f (JObj (e :: d')) (JObj (e :: d'))) as [[inl c]| | |] eqn:EI; cbn [bind] in H; try discriminate.
    destruct (inline_sem _ f (S m) _ Fs inl c EI) as (-> & Fi & Ei).
    destruct (to_dnf SV cfg f inl) as [result| | |] eqn:ET; cbn [bind] in H; try discriminate.
    destruct (to_dnf_sem SV cfg FL FM DF f (S (S m)) inl Fi result ET) as (L & -> & FgL & EqL).
    rewrite DD in H. cbn [orb] in H. cbv zeta in H. rewrite any_of_dnf in H. cbn [bind] in H.
    rewrite (alts_pass f _ L [] [] FgL) in H. cbn [bind app] in H.
    inversion H; subst n. exists L. split; [reflexivity|]. split; [exact FgL|].
    intros x. rewrite (EqL x). apply Ei.
Qed.
End Top.

Lemma default_DF : forall k, In k (SK ++ CK) -> smem k default_discard = false.
Proof.
  intros k H. cbv in H. repeat (destruct H as [<-|H]; [vm_compute; reflexivity|]). destruct H.
Qed.

(* the configuration normalize() uses by default: full merge, the default list of discarded annotations,
   no duplicate detection *)
Theorem normalize_fragment_default SV fuel m d n : fix_lone_if SV = true -> frag m (JObj d) ->
  normalize SV (mkNConfig true default_discard false) fuel (JObj d) = Ok n ->
  exists L, any_of n = Ok (map JObj L) /\ Forall galt L /\ forall x, alts_valid L x <-> sem m x (JObj d).
Proof. intros FL. apply normalize_fragment; [exact FL|reflexivity|reflexivity|exact default_DF]. Qed.

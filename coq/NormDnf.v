(* NormDnf.v -- _to_dnf of a schema whose references have been inlined is an any-of list of keyword sets that
   contain neither a combinator nor "$ref" (C16, one level). *)
From Fences Require Import Normalize NormShape NormRef.
From Coq Require Import String.
Local Open Scope list_scope.

Definition K5 : list str := kws ["$ref"; "if"; "then"; "else"; "const"]%string.
Definition nok5 (d : dict) : Prop := forall c, In c K5 -> dget c d = None.

Lemma dhas_false k d : dhas k d = false -> dget k d = None.
Proof. unfold dhas. destruct (dget k d); [discriminate|reflexivity]. Qed.

Ltac k5cases Hc := cbv in Hc; destruct Hc as [<-|[<-|[<-|[<-|[<-|[]]]]]].

Lemma simplify_const_nok d dc : dget REF d = None -> simplify_const d = Ok dc ->
  dget (kw "const") dc = None /\ dget REF dc = None.
Proof.
  intros NR H. unfold simplify_const in H. destruct (dget (kw "const") d) eqn:E; [|inversion H; subst; auto].
  destruct (dget (kw "enum") (ddel (kw "const") d)) as [[| | | |l|]|]; try discriminate.
  - destruct (hashable_all l && is_scalar j); [|discriminate]. inversion H; subst. split;
      (rewrite dget_dset_other; [try apply dget_ddel_same; try (apply dget_ddel_other; exact NR)|intros X; cbv in X; discriminate X]).
  - inversion H; subst. split;
      (rewrite dget_dset_other; [try apply dget_ddel_same; try (apply dget_ddel_other; exact NR)|intros X; cbv in X; discriminate X]).
Qed.

Lemma simplify_ite_nok5 SV d : dget (kw "const") d = None -> dget REF d = None -> nok5 (simplify_ite SV d).
Proof.
  intros NC NR. unfold simplify_ite.
  destruct (dhas (kw "if") d) eqn:Hi; cbn [orb negb].
  2: destruct (dhas (kw "then") d) eqn:Ht; cbn [orb negb].
  3: destruct (dhas (kw "else") d) eqn:He; cbn [orb negb].
  4:{ intros c Hc. k5cases Hc; try (apply dhas_false; assumption); assumption. }
  all: set (side := ddel (kw "else") (ddel (kw "then") (ddel (kw "if") d)));
    assert (Cs : nok5 side) by
      (intros c Hc; k5cases Hc; unfold side;
       [apply dget_ddel_other; apply dget_ddel_other; apply dget_ddel_other; exact NR
       |apply dget_ddel_other; apply dget_ddel_other; apply dget_ddel_same
       |apply dget_ddel_other; apply dget_ddel_same
       |apply dget_ddel_same
       |apply dget_ddel_other; apply dget_ddel_other; apply dget_ddel_other; exact NC]);
    destruct (dget (kw "if") d) as [i|]; auto;
    destruct (dget (kw "then") d) as [t|], (dget (kw "else") d) as [e|];
    try (intros c Hc; k5cases Hc; reflexivity);
    destruct (fix_lone_if SV); auto; intros c Hc; reflexivity.
Qed.

Lemma simplify_type_nok5 d d' : nok5 d -> simplify_type d = Ok d' -> nok5 d'.
Proof.
  intros N H. unfold simplify_type in H. destruct (dget (kw "type") d) as [t|]; [|inversion H; subst; auto].
  destruct (negb (hashable_all (to_list t))); [discriminate|].
  assert (G : forall v, nok5 (dset (kw "type") v d)).
  { intros v c Hc. rewrite dget_dset_other; [auto|]. intros <-. cbv in Hc. destruct Hc as [X|[X|[X|[X|[X|[]]]]]]; discriminate X. }
  destruct (pmem (jstr "number") (pset (to_list t))); [inversion H; subst; apply G|].
  destruct (pmem (jstr "integer") (pset (to_list t))); inversion H; subst; [|apply G].
  intros c Hc. k5cases Hc; reflexivity.
Qed.

Lemma simplify_depreq_nok5 d d' : nok5 d -> simplify_depreq d = Ok d' -> nok5 d'.
Proof.
  intros N H. unfold simplify_depreq in H. destruct (dget (kw "dependentRequired") d) as [dr|]; [|inversion H; subst; auto].
  destruct (as_dict dr) as [drd| | |]; cbn [bind] in H; try discriminate.
  match type of H with bind ?X _ = _ => destruct X as [opts| | |] end; cbn [bind] in H; try discriminate.
  inversion H; subst. intros c Hc. k5cases Hc; reflexivity.
Qed.

Lemma side_clean d : nok5 d ->
  clean (ddel (kw "not") (ddel (kw "oneOf") (ddel (kw "anyOf") (ddel (kw "allOf") d)))).
Proof.
  intros N c Hc. cbv in Hc.
  destruct Hc as [<-|[<-|[<-|[<-|[<-|[<-|[<-|[<-|[<-|[]]]]]]]]]].
  - repeat apply dget_ddel_other. apply N. cbv. auto.
  - apply dget_ddel_other. apply dget_ddel_other. apply dget_ddel_same.
  - apply dget_ddel_other. apply dget_ddel_other. apply dget_ddel_other. apply dget_ddel_same.
  - apply dget_ddel_other. apply dget_ddel_same.
  - apply dget_ddel_same.
  - repeat apply dget_ddel_other. apply N. cbv. auto.
  - repeat apply dget_ddel_other. apply N. cbv. auto.
  - repeat apply dget_ddel_other. apply N. cbv. auto 6.
  - repeat apply dget_ddel_other. apply N. cbv. auto 7.
Qed.

(* ---------- RF through the simplifications ---------- *)
Lemma dget_filter_none (p' : str -> bool) c d : p' c = false -> dget c (filter (fun '(k, _) => p' k) d) = None.
Proof.
  intros P. induction d as [|[k' v'] r IH]; cbn [filter dget]; auto.
  destruct (p' k') eqn:E; auto. cbn [dget]. destruct (str_eqb k' c) eqn:Ec; auto.
  apply str_eqb_eq in Ec. subst. congruence.
Qed.

Lemma dget_filter_key (p' : str -> bool) c d v : dget c (filter (fun '(k, _) => p' k) d) = Some v -> dget c d = Some v.
Proof.
  induction d as [|[k' v'] r IH]; cbn [filter dget]; auto.
  destruct (p' k') eqn:E; cbn [dget].
  - destruct (str_eqb k' c); auto.
  - intros H. destruct (str_eqb k' c) eqn:Ec; auto.
    apply str_eqb_eq in Ec. subst. rewrite dget_filter_none in H by exact E. discriminate.
Qed.

Lemma RF_filter (p' : str -> bool) d : RF (JObj d) -> RF (JObj (filter (fun '(k, _) => p' k) d)).
Proof. apply RF_less. intros k v _ H. eapply dget_filter_key; eauto. Qed.

Lemma RF_ddel k d : RF (JObj d) -> RF (JObj (ddel k d)).
Proof. apply RF_less. intros c v _ H. eapply dget_ddel_some; eauto. Qed.

Lemma RF_dset_unwatched k v d : ~ In k WATCH -> RF (JObj d) -> RF (JObj (dset k v d)).
Proof. intros N. apply RF_same. intros c Hc. apply dget_dset_other. intros ->. contradiction. Qed.

Ltac notwatch := let X := fresh in intros X; cbv in X; repeat (destruct X as [X|X]; [discriminate X|]); exact X.

Lemma RF_simplify_const d dc : RF (JObj d) -> simplify_const d = Ok dc -> RF (JObj dc).
Proof.
  intros H E. unfold simplify_const in E. destruct (dget (kw "const") d); [|inversion E; subst; auto].
  destruct (dget (kw "enum") (ddel (kw "const") d)) as [[| | | |l|]|]; try discriminate.
  - destruct (hashable_all l && is_scalar j); [|discriminate]. inversion E; subst.
    apply RF_dset_unwatched; [notwatch|apply RF_ddel; exact H].
  - inversion E; subst. apply RF_dset_unwatched; [notwatch|apply RF_ddel; exact H].
Qed.

Lemma RF_nil : RF (JObj []).
Proof. apply RF_obj; [reflexivity| |]; intros; discriminate. Qed.

(* literal dictionaries: which combinator entries they have is decided by computation *)
Ltac lit_list Hk G :=
  cbv in Hk; repeat (destruct Hk as [<-|Hk]; [cbv in G; try discriminate G|]); try contradiction.

Lemma RF_allof2 a b : RF a -> RF b -> RF (all_of2 a b).
Proof.
  intros Ha Hb. unfold all_of2, obj1. apply RF_obj; [reflexivity| |].
  - intros k l x Hk G Hx. lit_list Hk G. inversion G; subst. destruct Hx as [<-|[<-|[]]]; auto.
  - intros k x Hk G. lit_list Hk G.
Qed.

Lemma RF_not a : RF a -> RF (obj1 "not" a).
Proof.
  intros Ha. unfold obj1. apply RF_obj; [reflexivity| |].
  - intros k l x Hk G Hx. lit_list Hk G.
  - intros k x Hk G. lit_list Hk G. inversion G; subst. exact Ha.
Qed.

Lemma RF_anyof l : (forall x, In x l -> RF x) -> RF (obj1 "anyOf" (JArr l)).
Proof.
  intros H. unfold obj1. apply RF_obj; [reflexivity| |].
  - intros k l' x Hk G Hx. lit_list Hk G. inversion G; subst. auto.
  - intros k x Hk G. lit_list Hk G.
Qed.

Lemma RF_allof_top l : (forall x, In x l -> RF x) -> RF (JObj [(kw "allOf", JArr l)]).
Proof.
  intros H. apply RF_obj; [reflexivity| |].
  - intros k l' x Hk G Hx. lit_list Hk G. inversion G; subst. auto.
  - intros k x Hk G. lit_list Hk G.
Qed.

Lemma RF_simplify_ite SV d : RF (JObj d) -> RF (JObj (simplify_ite SV d)).
Proof.
  intros H. unfold simplify_ite.
  destruct (negb (dhas (kw "if") d || dhas (kw "then") d || dhas (kw "else") d)); auto.
  set (side := ddel (kw "else") (ddel (kw "then") (ddel (kw "if") d))).
  assert (Hs : RF (JObj side)) by (unfold side; repeat apply RF_ddel; exact H).
  destruct (dget (kw "if") d) as [i|] eqn:Ei; auto.
  assert (Hi : RF i) by (eapply RF_single_elem; [exact H| |exact Ei]; cbv; auto).
  assert (Ht : forall t, dget (kw "then") d = Some t -> RF t) by (intros t Et; eapply RF_single_elem; [exact H| |exact Et]; cbv; auto).
  assert (He : forall e, dget (kw "else") d = Some e -> RF e) by (intros e Ee; eapply RF_single_elem; [exact H| |exact Ee]; cbv; auto 6).
  assert (G : forall t' e', RF t' -> RF e' ->
            RF (JObj [(kw "allOf", JArr [JObj side; obj1 "anyOf" (JArr [all_of2 i t'; all_of2 (obj1 "not" i) e'])])])).
  { intros t' e' Rt Re. apply RF_allof_top. intros x [<-|[<-|[]]]; auto.
    apply RF_anyof. intros y [<-|[<-|[]]]; [apply RF_allof2; auto|apply RF_allof2; auto; apply RF_not; auto]. }
  destruct (dget (kw "then") d) as [t|], (dget (kw "else") d) as [e|].
  - apply G; auto.
  - apply G; auto. apply RF_nil.
  - apply G; auto. apply RF_nil.
  - destruct (fix_lone_if SV); auto. apply RF_nil.
Qed.

Lemma RF_nocomb d : (forall k, In k WATCH -> dget k d = None) -> RF (JObj d).
Proof.
  intros N. apply RF_obj.
  - apply N. left. reflexivity.
  - intros k l x Hk G. rewrite N in G; [discriminate|right; apply in_or_app; auto].
  - intros k x Hk G. rewrite N in G; [discriminate|right; apply in_or_app; auto].
Qed.

Lemma RF_simplify_type d d' : RF (JObj d) -> simplify_type d = Ok d' -> RF (JObj d').
Proof.
  intros H E. unfold simplify_type in E. destruct (dget (kw "type") d) as [t|]; [|inversion E; subst; auto].
  destruct (negb (hashable_all (to_list t))); [discriminate|].
  assert (G : forall v, RF (JObj (dset (kw "type") v d))) by (intros v; apply RF_dset_unwatched; [notwatch|exact H]).
  destruct (pmem (jstr "number") (pset (to_list t))); [inversion E; subst; apply G|].
  destruct (pmem (jstr "integer") (pset (to_list t))); inversion E; subst; [|apply G].
  apply RF_allof_top. intros x [<-|[<-|[]]]; [|apply G].
  apply RF_nocomb. intros k Hk. cbv in Hk. repeat (destruct Hk as [<-|Hk]; [reflexivity|]). contradiction.
Qed.

Lemma RF_simplify_depreq d d' : RF (JObj d) -> simplify_depreq d = Ok d' -> RF (JObj d').
Proof.
  intros H E. unfold simplify_depreq in E. destruct (dget (kw "dependentRequired") d) as [dr|]; [|inversion E; subst; auto].
  destruct (as_dict dr) as [drd| | |]; cbn [bind] in E; try discriminate.
  match type of E with bind ?X _ = _ => destruct X as [opts| | |] eqn:EO end; cbn [bind] in E; try discriminate.
  inversion E; subst. apply RF_allof_top. intros x [<-|Hx]; [apply RF_ddel; exact H|].
  revert x Hx. eapply (foldM_inv (fun opts => forall x, In x opts -> RF x)); [| |exact EO]; [intros x []|].
  intros acc [prop requires] acc' _ Cacc Hst. cbv beta iota in Hst.
  destruct (as_list requires) as [rq| | |]; cbn [bind] in Hst; try discriminate. inversion Hst; subst.
  intros x Hx. apply in_app_or in Hx. destruct Hx as [Hx|[<-|[]]]; [auto|].
  apply RF_anyof. intros y [<-|[<-|[]]].
  - unfold obj1. apply RF_nocomb. intros k Hk. cbv in Hk. repeat (destruct Hk as [<-|Hk]; [reflexivity|]). contradiction.
  - apply RF_nocomb. intros k Hk. cbv in Hk. repeat (destruct Hk as [<-|Hk]; [reflexivity|]). contradiction.
Qed.

Lemma In_enum_from_snd {A} (l : list A) : forall k i x, In (i, x) (enum_from k l) -> In x l.
Proof.
  induction l as [|y l IH]; intros k i x H; cbn [enum_from] in H; [destruct H|].
  destruct H as [H|H]; [inversion H; subst; left; reflexivity|right; eapply IH; eauto].
Qed.
Lemma In_enum_snd {A} (l : list A) i x : In (i, x) (enumerate l) -> In x l.
Proof. apply In_enum_from_snd. Qed.

(* ---------- _to_dnf ---------- *)
Theorem to_dnf_dnf SV cfg : forall fuel s j, RF s -> to_dnf SV cfg fuel s = Ok j -> dnf j.
Proof.
  induction fuel as [|f IH]; intros s j HRF H; cbn [to_dnf] in H; [discriminate|].
  destruct s as [|[]|z|st|l|d0]; try discriminate.
  - inversion H; subst. apply dnf_intro. intros a [<-|[]]. eexists. split; [reflexivity|]. apply clean_nil.
  - inversion H; subst. apply dnf_intro. intros a [<-|[]]. eexists. split; [reflexivity|]. apply cleanb_clean. reflexivity.
  - set (d1 := filter (fun '(k, _) => negb (smem k (discard_fields cfg))) d0) in *.
    assert (R1 : RF (JObj d1)) by (apply (RF_filter (fun k => negb (smem k (discard_fields cfg)))); exact HRF).
    destruct (simplify_const d1) as [dc| | |] eqn:EC; cbn [bind] in H; try discriminate.
    set (d2 := simplify_ite SV dc) in *.
    assert (R2 : RF (JObj d2)) by (apply RF_simplify_ite; eapply RF_simplify_const; eauto).
    assert (N2 : nok5 d2).
    { destruct (simplify_const_nok d1 dc (RF_top d1 R1) EC) as [A B]. apply simplify_ite_nok5; auto. }
    destruct (simplify_type d2) as [d3| | |] eqn:E3; cbn [bind] in H; try discriminate.
    pose proof (simplify_type_nok5 _ _ N2 E3) as N3. pose proof (RF_simplify_type _ _ R2 E3) as R3.
    destruct (simplify_depreq d3) as [d| | |] eqn:E4; cbn [bind] in H; try discriminate.
    pose proof (simplify_depreq_nok5 _ _ N3 E4) as N4. pose proof (RF_simplify_depreq _ _ R3 E4) as R4.
    match type of H with bind ?X _ = _ => destruct X as [any_ofs| | |] eqn:EA end; cbn [bind] in H; try discriminate.
    assert (CA : objs_clean any_ofs).
    { destruct (dget (kw "anyOf") d) as [jj|] eqn:Gj.
      - destruct jj as [| | | |l|]; cbn [as_list bind] in EA; try discriminate.
        eapply (foldM_inv objs_clean); [| |exact EA]; [intros a []|].
        intros acc s acc' Hsl Cacc Hst. cbv beta in Hst.
        assert (Rs : RF s) by (eapply RF_list_elem; [exact R4| |exact Gj|exact Hsl]; cbv; auto).
        destruct (to_dnf SV cfg f s) as [n| | |] eqn:En; cbn [bind] in Hst; try discriminate.
        destruct (any_of n) as [a| | |] eqn:Ea; cbn [bind] in Hst; try discriminate. inversion Hst; subst.
        intros x Hx. apply in_app_or in Hx. destruct Hx as [Hx|Hx]; [auto|].
        exact (any_of_dnf n a (IH _ _ Rs En) Ea x Hx).
      - inversion EA; subst. intros a [<-|[]]. eexists. split; [reflexivity|apply clean_nil]. }
    match type of H with bind ?X _ = _ => destruct X as [one_ofs| | |] eqn:EO end; cbn [bind] in H; try discriminate.
    assert (CO : objs_clean one_ofs).
    { destruct (dget (kw "oneOf") d) as [jj|] eqn:Gj.
      - destruct jj as [| | | |l|]; cbn [as_list bind] in EO; try discriminate.
        match type of EO with bind ?X _ = _ => destruct X as [subs| | |] eqn:ES end; cbn [bind] in EO; try discriminate.
        assert (CS : forall n, In n subs -> dnf n).
        { eapply (foldM_inv (fun subs => forall n, In n subs -> dnf n)); [| |exact ES]; [intros n []|].
          intros acc s acc' Hsl Cacc Hst. cbv beta in Hst.
          assert (Rs : RF s) by (eapply RF_list_elem; [exact R4| |exact Gj|exact Hsl]; cbv; auto).
          destruct (to_dnf SV cfg f s) as [n| | |] eqn:En; cbn [bind] in Hst; try discriminate. inversion Hst; subst.
          intros x Hx. apply in_app_or in Hx. destruct Hx as [Hx|[<-|[]]]; [auto|]. eapply IH; eauto. }
        eapply (foldM_inv objs_clean); [| |exact EO]; [intros a []|].
        intros acc idx acc' _ Cacc Hst. cbv beta in Hst.
        match type of Hst with bind ?X _ = _ => destruct X as [parts| | |] eqn:EP end; cbn [bind] in Hst; try discriminate.
        assert (CP : forall n, In n parts -> dnf n).
        { eapply (foldM_inv (fun parts => forall n, In n parts -> dnf n)); [| |exact EP]; [intros n []|].
          intros acc2 [sub_idx i] acc2' Hin C2 Hs2. cbv beta iota in Hs2.
          destruct (sub_idx =? idx).
          - inversion Hs2; subst. intros x Hx. apply in_app_or in Hx. destruct Hx as [Hx|[<-|[]]]; [auto|].
            apply CS. apply In_enum_snd in Hin. exact Hin.
          - destruct (invert cfg i) as [x0| | |] eqn:EI; cbn [bind] in Hs2; try discriminate. inversion Hs2; subst.
            intros x Hx. apply in_app_or in Hx. destruct Hx as [Hx|[<-|[]]]; [auto|]. eapply invert_dnf; eauto. }
        destruct (merge cfg parts) as [o| | |] eqn:EM; cbn [bind] in Hst; try discriminate.
        destruct (any_of o) as [a| | |] eqn:Ea; cbn [bind] in Hst; try discriminate. inversion Hst; subst.
        intros x Hx. apply in_app_or in Hx. destruct Hx as [Hx|Hx]; [auto|].
        exact (any_of_dnf o a (merge_dnf cfg parts o CP EM) Ea x Hx).
      - inversion EO; subst. intros a [<-|[]]. eexists. split; [reflexivity|apply clean_nil]. }
    cbv zeta in H.
    match type of H with bind ?X _ = _ => destruct X as [all1| | |] eqn:E1 end; cbn [bind] in H; try discriminate.
    assert (C1 : forall n, In n all1 -> dnf n).
    { destruct (dget (kw "allOf") d) as [jj|] eqn:Gj; [|inversion E1; subst; intros n []].
      destruct jj as [| | | |l|]; cbn [as_list bind] in E1; try discriminate.
      eapply (foldM_inv (fun subs => forall n, In n subs -> dnf n)); [| |exact E1]; [intros n []|].
      intros acc s acc' Hsl Cacc Hst. cbv beta in Hst.
      assert (Rs : RF s) by (eapply RF_list_elem; [exact R4| |exact Gj|exact Hsl]; cbv; auto).
      destruct (to_dnf SV cfg f s) as [n| | |] eqn:En; cbn [bind] in Hst; try discriminate. inversion Hst; subst.
      intros x Hx. apply in_app_or in Hx. destruct Hx as [Hx|[<-|[]]]; [auto|]. eapply IH; eauto. }
    match type of H with bind ?X _ = _ => destruct X as [all2| | |] eqn:E2 end; cbn [bind] in H; try discriminate.
    assert (C2 : forall n, In n all2 -> dnf n).
    { destruct (dget (kw "not") d) as [nn0|] eqn:Gj; [|inversion E2; subst; intros n []].
      destruct (to_dnf SV cfg f nn0) as [nn| | |]; cbn [bind] in E2; try discriminate.
      destruct (invert cfg nn) as [i| | |] eqn:EI; cbn [bind] in E2; try discriminate. inversion E2; subst.
      intros n [<-|[]]. eapply invert_dnf; eauto. }
    match type of H with bind ?X _ = _ => destruct X as [s| | |] eqn:ES end; cbn [bind] in H; try discriminate.
    assert (CSd : dnf s).
    { eapply merge_dnf; [|exact ES]. intros x [<-|Hx].
      - apply dnf_intro. intros a [<-|[]]. eexists. split; [reflexivity|]. apply side_clean. exact N4.
      - apply in_app_or in Hx. destruct Hx; auto. }
    eapply merge_dnf; [|exact H].
    intros x [<-|[<-|[<-|[]]]]; [apply dnf_intro; exact CA|apply dnf_intro; exact CO|exact CSd].
Qed.

(* GraphResolve.v -- Node.resolve(): after a successful resolve no Reference is reachable from the returned
   root, every reference was replaced by the node the id table gives for it, and the links of all
   non-reference nodes are recorded on both ends (second half of C14). *)
From Fences Require Import GraphSpec GraphLinks GraphOps GraphExec GraphAnalysis.

(* the incoming records of every node that is not a Reference are truthful *)
Definition ins_ok_nr (g : graph) : Prop :=
  forall n s i, is_ref g n = false -> In (s, i) (ins_of g n) ->
                is_dec g s = true /\ nth_error (outs_of g s) i = Some n.

Lemma ins_ok_nr_of_ins_ok g : ins_ok g -> ins_ok_nr g.
Proof. intros H n s i _ Hin. apply H. exact Hin. Qed.

Lemma set_nth_length {A} (l : list A) i x : length (set_nth l i x) = length l.
Proof. revert i; induction l as [|y r IH]; intros [|i]; simpl; auto. Qed.

Lemma nth_error_set_nth_same {A} (l : list A) i x : i < length l -> nth_error (set_nth l i x) i = Some x.
Proof. revert i; induction l as [|y r IH]; intros [|i] H; simpl in *; try lia; auto; apply IH; lia. Qed.

Lemma nth_error_set_nth_other {A} (l : list A) i j x : i <> j -> nth_error (set_nth l i x) j = nth_error l j.
Proof.
  revert i j; induction l as [|y r IH]; intros [|i] [|j] H; simpl; auto; try congruence;
  apply IH; congruence.
Qed.

(* what retarget changes *)
Lemma retarget_spec g s idx m :
  s < length g -> m < length g ->
  let g' := retarget g s idx m in
  (forall x, kind_of g' x = kind_of g x) /\
  (forall x, outs_of g' x = if x =? s then set_nth (outs_of g s) idx m else outs_of g x) /\
  (forall x, ins_of g' x = if x =? m then ins_of g m ++ [(s, idx)] else ins_of g x) /\
  length g' = length g.
Proof.
  intros Hs Hm g'. unfold g', retarget.
  set (f1 := fun nd => mkNode (nkind nd) (nid nd) (set_nth (outs nd) idx m) (ins nd)).
  set (f2 := fun nd => mkNode (nkind nd) (nid nd) (outs nd) (ins nd ++ [(s, idx)])).
  set (g1 := upd_node g s f1).
  assert (L1 : length g1 = length g) by apply upd_node_length.
  assert (G1 : forall n, getn g1 n = if n =? s then f1 (getn g s) else getn g n).
  { intros n. destruct (Nat.eqb_spec n s) as [->|N]; [apply getn_upd_same; auto|apply getn_upd_other; auto]. }
  assert (G2 : forall n, getn (upd_node g1 m f2) n = if n =? m then f2 (getn g1 m) else getn g1 n).
  { intros n. destruct (Nat.eqb_spec n m) as [->|N]; [apply getn_upd_same; lia|apply getn_upd_other; auto]. }
  repeat split.
  - intros x. unfold kind_of. rewrite G2, !G1.
    destruct (Nat.eqb_spec x m) as [->|N]; destruct (Nat.eqb_spec m s) as [->|N2];
      try destruct (Nat.eqb_spec x s) as [->|N3]; simpl; auto.
  - intros x. unfold outs_of. rewrite G2, !G1.
    destruct (Nat.eqb_spec x m) as [->|N].
    + destruct (Nat.eqb_spec m s) as [->|N2]; simpl; auto.
    + destruct (Nat.eqb_spec x s) as [->|N3]; simpl; auto.
  - intros x. unfold ins_of. rewrite G2, !G1.
    destruct (Nat.eqb_spec x m) as [->|N].
    + destruct (Nat.eqb_spec m s) as [->|N2]; simpl; auto.
    + destruct (Nat.eqb_spec x s) as [->|N3]; simpl; auto.
  - rewrite upd_node_length. exact L1.
Qed.

Lemma is_ref_lt g n : is_ref g n = true -> n < length g.
Proof.
  intros H. destruct (Nat.lt_ge_cases n (length g)) as [L|L]; auto.
  unfold is_ref, kind_of in H. rewrite getn_out in H by exact L. discriminate.
Qed.

(* Reference.target returns a node that is not a Reference *)
Lemma deref_nonref : forall f g t n m, deref f g t n = Ok m -> is_ref g m = false.
Proof.
  induction f as [|f IH]; intros g t n m H; simpl in H; [discriminate|].
  unfold is_ref. destruct (kind_of g n) as [v|a b|name] eqn:K.
  - inversion H; subst. rewrite K. reflexivity.
  - inversion H; subst. rewrite K. reflexivity.
  - destruct (tbl_find (Some name) t) as [m'|]; [|discriminate]. apply IH in H. exact H.
Qed.

Record rinv (g : graph) : Prop := mkRinv { ri_outs : outs_ok g; ri_ins : ins_ok_nr g }.

Lemma retarget_inv g s idx m tgt :
  rinv g -> is_dec g s = true -> m < length g -> is_ref g m = false ->
  nth_error (outs_of g s) idx = Some tgt -> is_ref g tgt = true ->
  rinv (retarget g s idx m).
Proof.
  intros [OO IO] Ds Lm Nm Nt Rt.
  pose proof (is_dec_lt _ _ Ds) as Ls.
  destruct (retarget_spec g s idx m Ls Lm) as (K & O & I & L).
  set (g' := retarget g s idx m) in *.
  assert (Li : idx < length (outs_of g s)) by (apply nth_error_Some; congruence).
  assert (R' : forall x, is_ref g' x = is_ref g x) by (intros x; unfold is_ref; rewrite K; reflexivity).
  assert (D' : forall x, is_dec g' x = is_dec g x) by (intros x; unfold is_dec; rewrite K; reflexivity).
  constructor.
  - intros s' i' t' N'. rewrite O in N'. rewrite I.
    destruct (Nat.eqb_spec s' s) as [->|Ne].
    + destruct (Nat.eq_dec i' idx) as [->|Ni].
      * rewrite nth_error_set_nth_same in N' by exact Li. inversion N'; subst t'.
        rewrite Nat.eqb_refl. apply in_or_app. right. left. reflexivity.
      * rewrite nth_error_set_nth_other in N' by congruence. apply OO in N'.
        destruct (Nat.eqb_spec t' m) as [->|_]; auto. apply in_or_app. auto.
    + apply OO in N'. destruct (Nat.eqb_spec t' m) as [->|_]; auto. apply in_or_app. auto.
  - intros n s' i' Rn Hin. rewrite R' in Rn. rewrite D'. rewrite I in Hin. rewrite O.
    assert (Old : In (s', i') (ins_of g n) ->
                  is_dec g s' = true /\
                  nth_error (if s' =? s then set_nth (outs_of g s) idx m else outs_of g s') i' = Some n).
    { intros H. destruct (IO n s' i' Rn H) as [A B]. split; auto.
      destruct (Nat.eqb_spec s' s) as [->|Ne]; auto.
      destruct (Nat.eq_dec i' idx) as [->|Ni].
      - rewrite Nt in B. inversion B; subst tgt. congruence.
      - rewrite nth_error_set_nth_other by congruence. exact B. }
    destruct (Nat.eqb_spec n m) as [->|Ne]; auto.
    apply in_app_or in Hin. destruct Hin as [H|[H|[]]]; auto.
    inversion H; subst s' i'. split; auto. rewrite Nat.eqb_refl.
    apply nth_error_set_nth_same. exact Li.
Qed.

(* ---------- the id table only binds a name to a node carrying that id ---------- *)
Definition tbl_wf (g : graph) (t : idtable) : Prop :=
  forall name m, tbl_find (Some name) t = Some m -> nid (getn g m) = Some name.

Lemma tbl_wf_lt g t name m : tbl_wf g t -> tbl_find (Some name) t = Some m -> m < length g.
Proof.
  intros W H. apply W in H. destruct (Nat.lt_ge_cases m (length g)) as [L|L]; auto.
  rewrite getn_out in H by exact L. discriminate.
Qed.

Lemma tbl_insert_wf g t n t' : tbl_wf g t -> tbl_insert g t n = Ok t' -> tbl_wf g t'.
Proof.
  intros W H. unfold tbl_insert in H.
  destruct (_ && _) in H; [discriminate|]. inversion H; subst t'. clear H.
  intros name m F. simpl in F. destruct (oeqb (nid (getn g n)) (Some name)) eqn:E.
  - inversion F; subst m. unfold oeqb in E. destruct (nid (getn g n)) as [x|]; [|discriminate].
    f_equal. clear - E. revert name E. induction x as [|a x IH]; intros [|b y] E; simpl in E; try discriminate; auto.
    apply andb_true_iff in E. destruct E as [E1 E2]. apply Nat.eqb_eq in E1. subst. f_equal. auto.
  - apply W. exact F.
Qed.

Lemma foldM_tbl_insert_wf g : forall l t t', tbl_wf g t -> foldM (tbl_insert g) l t = Ok t' -> tbl_wf g t'.
Proof.
  induction l as [|n l IH]; intros t t' W H; simpl in H; [inversion H; subst; auto|].
  destruct (tbl_insert g t n) as [t1| | |] eqn:E; simpl in H; try discriminate.
  eapply IH; [|exact H]. eapply tbl_insert_wf; eauto.
Qed.

Lemma deref_lt : forall f g t n m, tbl_wf g t -> n < length g -> deref f g t n = Ok m -> m < length g.
Proof.
  induction f as [|f IH]; intros g t n m W L H; simpl in H; [discriminate|].
  destruct (kind_of g n) as [v|a b|name]; try (inversion H; subst; auto; fail).
  destruct (tbl_find (Some name) t) as [m'|] eqn:F; [|discriminate].
  eapply IH; [exact W| |exact H]. eapply tbl_wf_lt; eauto.
Qed.

(* same structure up to the links: kinds, ids and table size *)
Definition same_nodes (g g' : graph) : Prop :=
  (forall x, kind_of g' x = kind_of g x) /\ (forall x, nid (getn g' x) = nid (getn g x)) /\ length g' = length g.

Lemma same_nodes_refl g : same_nodes g g. Proof. repeat split; auto. Qed.
Lemma same_nodes_trans a b c : same_nodes a b -> same_nodes b c -> same_nodes a c.
Proof. intros (A1 & A2 & A3) (B1 & B2 & B3). repeat split; intros; congruence. Qed.

Lemma retarget_same_nodes g s idx m : s < length g -> m < length g -> same_nodes g (retarget g s idx m).
Proof.
  intros Ls Lm. destruct (retarget_spec g s idx m Ls Lm) as (K & _ & _ & L). repeat split; auto.
  intros x. unfold retarget.
  set (f1 := fun nd => mkNode (nkind nd) (nid nd) (set_nth (outs nd) idx m) (ins nd)).
  set (f2 := fun nd => mkNode (nkind nd) (nid nd) (outs nd) (ins nd ++ [(s, idx)])).
  assert (A : forall h y f, (forall nd, nid (f nd) = nid nd) -> nid (getn (upd_node h y f) x) = nid (getn h x)).
  { intros h y f Hf. destruct (Nat.eq_dec x y) as [->|Ne].
    - destruct (Nat.lt_ge_cases y (length h)) as [Lt|Ge].
      + rewrite getn_upd_same by exact Lt. apply Hf.
      + rewrite upd_node_out by exact Ge. reflexivity.
    - rewrite getn_upd_other by exact Ne. reflexivity. }
  rewrite A by reflexivity. rewrite A by reflexivity. reflexivity.
Qed.

Lemma tbl_wf_same g g' t : same_nodes g g' -> tbl_wf g t -> tbl_wf g' t.
Proof. intros (_ & I & _) W name m F. rewrite I. apply W. exact F. Qed.

Lemma deref_same : forall f g g' t n, same_nodes g g' -> deref f g' t n = deref f g t n.
Proof.
  induction f as [|f IH]; intros g g' t n S; simpl; auto.
  destruct S as (K & I & L). rewrite K. destruct (kind_of g n); auto.
  destruct (tbl_find (Some name) t); auto. apply IH. repeat split; auto.
Qed.

Lemma set_nth_app {A} (d l : list A) x y : set_nth (d ++ x :: l) (length d) y = d ++ y :: l.
Proof. induction d as [|a d IH]; simpl; auto. rewrite IH. reflexivity. Qed.

(* ---------- the first loop of _resolve at a decision: replace its Reference children ---------- *)
Section Loop1.
Variables (fuel : nat) (t : idtable) (n : nat).

Definition step1 (g : graph) (it : nat * nat) : res graph :=
  let '(idx, tgt) := it in
  if is_ref g tgt then do m <- deref fuel g t tgt; Ok (retarget g n idx m) else Ok g.

Lemma loop1_spec : forall l k g done g1,
  outs_of g n = done ++ l -> length done = k ->
  (forall x, In x done -> is_ref g x = false) ->
  rinv g -> is_dec g n = true -> tbl_wf g t ->
  foldM step1 (enum_from k l) g = Ok g1 ->
  rinv g1 /\ same_nodes g g1 /\
  (forall x, x <> n -> outs_of g1 x = outs_of g x) /\
  (forall x, In x (outs_of g1 n) -> is_ref g1 x = false) /\
  length (outs_of g1 n) = length (outs_of g n).
Proof.
  induction l as [|tgt l IH]; intros k g done g1 O Lk Dn R Dec W F; simpl in F.
  - inversion F; subst g1. rewrite app_nil_r in O. split; auto. split; [apply same_nodes_refl|].
    split; auto. split; auto. rewrite O. exact Dn.
  - assert (Nt : nth_error (outs_of g n) k = Some tgt).
    { rewrite O, nth_error_app2 by lia. rewrite Lk, Nat.sub_diag. reflexivity. }
    destruct (is_ref g tgt) eqn:Rt.
    + destruct (deref fuel g t tgt) as [m| | |] eqn:E; simpl in F; try discriminate.
      pose proof (deref_nonref _ _ _ _ _ E) as Nm.
      pose proof (deref_lt _ _ _ _ _ W (is_ref_lt _ _ Rt) E) as Lm.
      pose proof (is_dec_lt _ _ Dec) as Ls.
      destruct (retarget_spec g n k m Ls Lm) as (K & Oo & I & L).
      pose proof (retarget_same_nodes g n k m Ls Lm) as S1.
      set (g' := retarget g n k m) in *.
      assert (R' : forall x, is_ref g' x = is_ref g x) by (intros x; unfold is_ref; rewrite K; reflexivity).
      destruct (IH (S k) g' (done ++ [m]) g1) as (R1 & S2 & O2 & N2 & L2).
      * rewrite Oo, Nat.eqb_refl, O, <- Lk, set_nth_app, <- app_assoc. reflexivity.
      * rewrite app_length. simpl. lia.
      * intros x Hx. rewrite R'. apply in_app_or in Hx. destruct Hx as [Hx|[<-|[]]]; auto.
      * eapply retarget_inv; eauto.
      * unfold is_dec. rewrite K. exact Dec.
      * eapply tbl_wf_same; eauto.
      * exact F.
      * split; auto. split; [eapply same_nodes_trans; eauto|]. split.
        -- intros x Nx. rewrite O2 by exact Nx. rewrite Oo. apply Nat.eqb_neq in Nx. rewrite Nx. reflexivity.
        -- split; auto. rewrite L2, Oo, Nat.eqb_refl. apply set_nth_length.
    + simpl in F. destruct (IH (S k) g (done ++ [tgt]) g1) as (R1 & S2 & O2 & N2 & L2); auto.
      * rewrite O, <- app_assoc. reflexivity.
      * rewrite app_length. simpl. lia.
      * intros x Hx. apply in_app_or in Hx. destruct Hx as [Hx|[<-|[]]]; auto.
Qed.

End Loop1.

(* only decisions have outgoing transitions *)
Definition outs_dec (g : graph) : Prop := forall s, outs_of g s <> [] -> is_dec g s = true.

Definition closedR (P : nat -> Prop) (g : graph) (vis : list nat) : Prop :=
  forall x, In x vis -> ~ P x -> is_dec g x = true ->
  forall c, In c (outs_of g x) -> is_ref g c = false /\ In c vis.

Record rpost (P : nat -> Prop) (g : graph) (vis : list nat) (n : nat) (g' : graph) (vis' : list nat) : Prop := {
  rp_inv : rinv g';
  rp_dec : outs_dec g';
  rp_same : same_nodes g g';
  rp_mono : forall x, In x vis -> In x vis';
  rp_in : In n vis';
  rp_frozen : forall x, In x vis -> outs_of g' x = outs_of g x;
  rp_closed : closedR P g' vis'
}.

Lemma same_is_ref g g' x : same_nodes g g' -> is_ref g' x = is_ref g x.
Proof. intros (K & _ & _). unfold is_ref. rewrite K. reflexivity. Qed.
Lemma same_is_dec g g' x : same_nodes g g' -> is_dec g' x = is_dec g x.
Proof. intros (K & _ & _). unfold is_dec. rewrite K. reflexivity. Qed.

Lemma resolve_go_spec t : forall f g vis n g' vis' (P : nat -> Prop),
  resolve_go f g t vis n = Ok (g', vis') ->
  rinv g -> outs_dec g -> tbl_wf g t -> closedR P g vis ->
  rpost P g vis n g' vis'.
Proof.
  induction f as [|f IH]; intros g vis n g' vis' P H R OD W C; [discriminate|].
  cbn [resolve_go] in H.
  destruct (mem n vis) eqn:M.
  { inversion H; subst. constructor; auto. apply same_nodes_refl. apply mem_In. exact M. }
  destruct (is_dec g n) eqn:D.
  2:{ inversion H; subst. constructor; auto.
      - apply same_nodes_refl.
      - intros x Hx. right. exact Hx.
      - left. reflexivity.
      - intros x [<-|Hx] NP Dx c Hc; [congruence|].
        destruct (C x Hx NP Dx c Hc) as [A B]. split; auto. right. exact B. }
  cbn [bind] in H.
  change (foldM _ (enumerate (outs_of g n)) g) with (foldM (step1 (S f) t n) (enum_from 0 (outs_of g n)) g) in H.
  destruct (foldM (step1 (S f) t n) (enum_from 0 (outs_of g n)) g) as [g1| | |] eqn:F1; cbn [bind] in H; try discriminate.
  destruct (loop1_spec (S f) t n (outs_of g n) 0 g [] g1 eq_refl eq_refl (fun x Hx => match Hx with end) R D W F1)
    as (R1 & S1 & O1 & N1 & L1).
  set (P' := fun x => P x \/ x = n).
  assert (OD1 : outs_dec g1).
  { intros s Hs. rewrite (same_is_dec g g1 s S1). destruct (Nat.eq_dec s n) as [->|Ne]; auto.
    apply OD. rewrite <- O1 by exact Ne. exact Hs. }
  assert (C1 : closedR P' g1 (n :: vis)).
  { intros x [<-|Hx] NP Dx c Hc; [exfalso; apply NP; right; reflexivity|].
    assert (Nx : x <> n) by (intros ->; apply NP; right; reflexivity).
    rewrite O1 in Hc by exact Nx. rewrite (same_is_dec g g1 x S1) in Dx.
    destruct (C x Hx (fun HP => NP (or_introl HP)) Dx c Hc) as [A B].
    split; [rewrite (same_is_ref g g1 c S1); exact A|right; exact B]. }
  (* second loop *)
  assert (G : forall l ga visa gb visb,
             foldM (fun '(g, vis) tgt => resolve_go f g t vis tgt) l (ga, visa) = Ok (gb, visb) ->
             rinv ga -> outs_dec ga -> tbl_wf ga t -> closedR P' ga visa -> In n visa ->
             rinv gb /\ outs_dec gb /\ same_nodes ga gb /\
             (forall x, In x visa -> In x visb) /\ (forall x, In x l -> In x visb) /\
             (forall x, In x visa -> outs_of gb x = outs_of ga x) /\ closedR P' gb visb).
  { induction l as [|c l IHl]; intros ga visa gb visb F Ra Da Wa Ca Na; simpl in F.
    - inversion F; subst. split; auto. split; auto. split; [apply same_nodes_refl|]. split; auto. split; [intros x []|]. split; auto.
    - destruct (resolve_go f ga t visa c) as [[g2 vis2]| | |] eqn:E; simpl in F; try discriminate.
      destruct (IH _ _ _ _ _ P' E Ra Da Wa Ca) as [R2 D2 S2 M2 I2 F2 C2].
      destruct (IHl _ _ _ _ F R2 D2 (tbl_wf_same _ _ _ S2 Wa) C2 (M2 _ Na)) as (R3 & D3 & S3 & M3 & I3 & F3 & C3).
      split; auto. split; auto. split; [eapply same_nodes_trans; eauto|]. split; [auto|]. split.
      + intros x [<-|Hx]; auto.
      + split; auto. intros x Hx. rewrite F3 by (apply M2; exact Hx). apply F2. exact Hx. }
  destruct (G _ _ _ _ _ H R1 OD1 (tbl_wf_same _ _ _ S1 W) C1 (or_introl eq_refl)) as (R2 & D2 & S2 & M2 & I2 & F2 & C2).
  assert (On : outs_of g' n = outs_of g1 n) by (apply F2; left; reflexivity).
  constructor; auto.
  - eapply same_nodes_trans; eauto.
  - intros x Hx. apply M2. right. exact Hx.
  - apply M2. left. reflexivity.
  - intros x Hx. rewrite F2 by (right; exact Hx).
    apply O1. intros ->. apply mem_In in Hx. congruence.
  - intros x Hx NP Dx c Hc. destruct (Nat.eq_dec x n) as [->|Ne].
    + rewrite On in Hc. split.
      * rewrite (same_is_ref g1 g' c S2). apply N1. exact Hc.
      * apply I2. exact Hc.
    + apply (C2 x Hx); auto. intros [HP|HE]; auto.
Qed.

Lemma extra_tbl_wf fuel g : forall extra tstart t0, tbl_wf g tstart ->
  foldM (fun t nd => do its <- items fuel g nd; foldM (tbl_insert g) its t) extra tstart = Ok t0 -> tbl_wf g t0.
Proof.
  induction extra as [|nd ex IH]; intros tstart t0 W F; simpl in F.
  - inversion F; subst; auto.
  - destruct (items fuel g nd) as [its'| | |]; cbn [bind] in F; try discriminate.
    destruct (foldM (tbl_insert g) its' tstart) as [t1| | |] eqn:E1; cbn [bind] in F; try discriminate.
    eapply (IH t1); [eapply foldM_tbl_insert_wf; eauto|exact F].
Qed.

(* resolve(): what a caller gets *)
Theorem resolve_spec : forall fuel g root extra g' r,
  resolve fuel g root extra = Ok (g', r) ->
  outs_ok g -> ins_ok_nr g -> outs_dec g ->
  outs_ok g' /\ ins_ok_nr g' /\ same_nodes g g' /\
  is_ref g' r = false /\
  (forall x, reach g' r x -> is_ref g' x = false).
Proof.
  intros fuel g root extra g' r H OO IO OD. unfold resolve in H.
  match type of H with bind ?X _ = _ => destruct X as [t0| | |] eqn:T0 end; cbn [bind] in H; try discriminate.
  destruct (items fuel g root) as [its| | |] eqn:I; cbn [bind] in H; try discriminate.
  destruct (foldM (tbl_insert g) its t0) as [t| | |] eqn:T; cbn [bind] in H; try discriminate.
  destruct (deref fuel g t root) as [r0| | |] eqn:Dr; cbn [bind] in H; try discriminate.
  destruct (resolve_go fuel g t [] r0) as [[g2 vis2]| | |] eqn:G; cbn [bind] in H; try discriminate.
  inversion H; subst g2 r0. clear H.
  assert (W0 : tbl_wf g t0) by (eapply extra_tbl_wf; [|exact T0]; intros name m F; discriminate).
  pose proof (foldM_tbl_insert_wf g _ _ _ W0 T) as W.
  destruct (resolve_go_spec t fuel g [] r g' vis2 (fun _ => False) G (mkRinv g OO IO) OD W) as [[OO' IO'] D' S' _ In' _ C'].
  { intros x []. }
  pose proof (deref_nonref _ _ _ _ _ Dr) as Nr.
  split; auto. split; auto. split; auto. split; [rewrite (same_is_ref g g' r S'); exact Nr|].
  assert (A : forall x, reach g' r x -> is_ref g' x = false /\ In x vis2).
  { intros x Hx. induction Hx as [|s i c Rs [IH1 IH2] N].
    - split; auto. rewrite (same_is_ref g g' r S'). exact Nr.
    - assert (Ds : is_dec g' s = true).
      { apply D'. intros E. rewrite E in N. destruct i; discriminate. }
      apply (C' s IH2 (fun F => F) Ds c). eapply nth_error_In; eauto. }
  intros x Hx. apply A. exact Hx.
Qed.

(* graphs built with the API satisfy the premises *)
Lemma apply_op_outs_dec g o : outs_dec g -> outs_dec (apply_op g o).
Proof.
  intros OD. destruct o as [k id|s t]; simpl.
  - intros x Hx. unfold outs_of, is_dec, kind_of in *.
    destruct (Nat.lt_ge_cases x (length g)) as [L|L].
    + rewrite getn_app_old in * by exact L. apply OD. exact Hx.
    + exfalso. apply Hx. destruct (Nat.eq_dec x (length g)) as [->|Ne].
      * unfold getn. rewrite app_nth2 by lia. rewrite Nat.sub_diag. reflexivity.
      * rewrite getn_out; auto. rewrite app_length. simpl. lia.
  - destruct (is_dec g s) eqn:D; simpl; auto.
    destruct (Nat.ltb_spec t (length g)) as [L|L]; auto.
    destruct (add_transition_spec g s t (is_dec_lt _ _ D) L) as (K & O & _ & _).
    intros x Hx. assert (E : is_dec (add_transition g s t) x = is_dec g x) by (unfold is_dec; rewrite K; reflexivity).
    rewrite E. rewrite O in Hx.
    destruct (Nat.eqb_spec x s) as [Es|Ne]; [subst x; exact D|]. apply OD. exact Hx.
Qed.

Lemma build_outs_dec ops : outs_dec (build ops).
Proof.
  unfold build.
  assert (G : forall g, outs_dec g -> outs_dec (fold_left apply_op ops g)).
  { induction ops as [|o r IH]; simpl; intros g H; auto. apply IH. apply apply_op_outs_dec; auto. }
  apply G. intros s Hs. exfalso. apply Hs. unfold outs_of, getn. destruct s; reflexivity.
Qed.

(* GraphHist.v -- generate_paths is history-free (C13): what it yields does not depend on the distance
   annotations that earlier calls left on the graph.  Every read of an annotation happens on a node of the
   table, and the annotations of the table are reset before they are recomputed. *)
From Fences Require Import GraphSpec GraphLinks GraphExec GraphAnalysis.

Definition agree (g : graph) (m m' : amap) : Prop := forall n i, n < length g -> m n i = m' n i.

Lemma agree_refl g m : agree g m m. Proof. intros n i _. reflexivity. Qed.
Lemma agree_aupd g m m' a b v : agree g m m' -> agree g (aupd m a b v) (aupd m' a b v).
Proof. intros H n i L. unfold aupd. destruct ((n =? a) && (i =? b)); auto. Qed.

(* results related by [agree] on their maps *)
Definition rel_res (g : graph) (r r' : res amap) : Prop :=
  match r, r' with
  | Ok m, Ok m' => agree g m m'
  | LibErr c, LibErr c' => c = c'
  | PyErr c, PyErr c' => c = c'
  | OutOfFuel, OutOfFuel => True
  | _, _ => False
  end.

Lemma foldM_rel {B} g (F F' : amap -> B -> res amap) :
  forall l m m', (forall m m' x, In x l -> agree g m m' -> rel_res g (F m x) (F' m' x)) ->
  agree g m m' -> rel_res g (foldM F l m) (foldM F' l m').
Proof.
  induction l as [|x l IH]; intros m m' H A; cbn [foldM]; [exact A|].
  pose proof (H m m' x (or_introl eq_refl) A) as R1.
  destruct (F m x) as [m1| | |], (F' m' x) as [m1'| | |]; cbn [bind rel_res] in *; try contradiction; auto.
  apply IH; auto. intros; apply H; auto. right; auto.
Qed.

Lemma foldM_ext_gen {A B} (F F' : A -> B -> res A) : (forall a x, F a x = F' a x) ->
  forall l a, foldM F l a = foldM F' l a.
Proof.
  intros H. induction l as [|x l IH]; intros a; cbn [foldM]; [reflexivity|].
  rewrite H. destruct (F' a x); cbn [bind]; auto.
Qed.

Lemma ins_of_lt g t : ins_of g t <> [] -> t < length g.
Proof.
  intros H. destruct (Nat.lt_ge_cases t (length g)) as [L|L]; auto.
  exfalso. apply H. unfold ins_of. rewrite getn_out by exact L. reflexivity.
Qed.
Lemma outs_of_lt g t : outs_of g t <> [] -> t < length g.
Proof.
  intros H. destruct (Nat.lt_ge_cases t (length g)) as [L|L]; auto.
  exfalso. apply H. unfold outs_of. rewrite getn_out by exact L. reflexivity.
Qed.

Lemma index_where_nonempty {A} (p : A -> bool) l k j : index_where p l k = Some j -> l <> [].
Proof. destruct l; [discriminate|intros _ X; discriminate]. Qed.

Section WithV.
Variable V : variant.
Variable g : graph.

Lemma af_agree : forall f lr lr' n len, agree g lr lr' ->
  rel_res g (af V f g lr n len) (af V f g lr' n len).
Proof.
  induction f as [|f IH]; intros lr lr' n len A; cbn [af]; [exact I|].
  destruct (is_dec g n); [|exact A].
  apply foldM_rel; auto. intros m m' [idx t] _ Am.
  destruct (index_where (af_pick V n idx) (ins_of g t) 0) as [pos|] eqn:IW; [|reflexivity].
  assert (Lt : t < length g) by (apply ins_of_lt; eapply index_where_nonempty; eauto).
  rewrite <- (Am t pos Lt). destruct (dist_lt (Some len) (m t pos)); [|exact Am].
  apply IH. apply agree_aupd. exact Am.
Qed.

Lemma row_agree m m' n k : agree g m m' -> (k = 0 \/ n < length g) -> row m n k = row m' n k.
Proof.
  intros A [->|L]; [reflexivity|]. unfold row. apply map_ext. intros i. apply A. exact L.
Qed.

Lemma row_outs_agree m m' n : agree g m m' -> row m n (length (outs_of g n)) = row m' n (length (outs_of g n)).
Proof.
  intros A. apply row_agree; auto. destruct (outs_of g n) eqn:O; [left; reflexivity|right].
  apply outs_of_lt. rewrite O. discriminate.
Qed.
Lemma row_ins_agree m m' n : agree g m m' -> row m n (length (ins_of g n)) = row m' n (length (ins_of g n)).
Proof.
  intros A. apply row_agree; auto. destruct (ins_of g n) eqn:O; [left; reflexivity|right].
  apply ins_of_lt. rewrite O. discriminate.
Qed.

Lemma ab_agree : forall f lv lv' n len, agree g lv lv' ->
  rel_res g (ab f g lv n len) (ab f g lv' n len).
Proof.
  induction f as [|f IH]; intros lv lv' n len A; cbn [ab]; [exact I|].
  assert (G : forall L m m', agree g m m' ->
     rel_res g
      (foldM (fun lv '(s, idx) => if idx <? length (outs_of g s) then
                if dist_lt (Some L) (lv s idx) then ab f g (aupd lv s idx (Some L)) s (S L) else Ok lv
              else PyErr EIndexError) (ins_of g n) m)
      (foldM (fun lv '(s, idx) => if idx <? length (outs_of g s) then
                if dist_lt (Some L) (lv s idx) then ab f g (aupd lv s idx (Some L)) s (S L) else Ok lv
              else PyErr EIndexError) (ins_of g n) m')).
  { intros L m m' Am. apply foldM_rel; auto. intros a a' [s idx] _ Aa.
    destruct (idx <? length (outs_of g s)) eqn:E; [|reflexivity].
    assert (Ls : s < length g).
    { apply outs_of_lt. intros X. rewrite X in E. cbn in E. discriminate. }
    rewrite <- (Aa s idx Ls). destruct (dist_lt (Some L) (a s idx)); [|exact Aa].
    apply IH. apply agree_aupd. exact Aa. }
  destruct (is_all g n).
  - destruct (outs_of g n) eqn:O; [reflexivity|]. unfold max_outs. rewrite O.
    rewrite <- O. rewrite (row_outs_agree lv lv' n A).
    destruct (fold_right dist_max (Some 0) (row lv' n (length (outs_of g n)))); [apply G; exact A|exact A].
  - apply G. exact A.
Qed.

Lemma gen_agree lv lv' : agree g lv lv' -> forall f n, gen V f g lv n = gen V f g lv' n.
Proof.
  intros A. induction f as [|f IH]; intros n; cbn [gen]; [reflexivity|].
  destruct (kind_of g n) as [v|all noop|name]; auto.
  destruct (outs_of g n) as [|o0 os] eqn:O; auto. rewrite <- O.
  destruct all.
  - apply foldM_ext_gen. intros [[p vs] b] t. rewrite IH. reflexivity.
  - rewrite (row_outs_agree lv lv' n A).
    destruct (match argmin (row lv' n (length (outs_of g n))) with Some i => (i, true) | None => (0, false) end) as [idx b0].
    rewrite IH. reflexivity.
Qed.

Lemma backward_agree lr lr' : agree g lr lr' -> forall f n, backward f g lr n = backward f g lr' n.
Proof.
  intros A. induction f as [|f IH]; intros n; cbn [backward]; [reflexivity|].
  destruct (ins_of g n) as [|r0 rs] eqn:O; auto. rewrite <- O.
  rewrite (row_ins_agree lr lr' n A).
  destruct (argmin (row lr' n (length (ins_of g n)))) as [pos|]; auto.
  destruct (nth pos (ins_of g n) r0) as [s idx]. rewrite IH. reflexivity.
Qed.

Lemma forward_agree lv lv' : agree g lv lv' -> forall f n bp, forward V f g lv n bp = forward V f g lv' n bp.
Proof.
  intros A. induction f as [|f IH]; intros n bp; cbn [forward]; [reflexivity|].
  destruct bp as [|i bp']; auto.
  destruct (kind_of g n) as [v|[] noop|name]; auto.
  - apply foldM_ext_gen. intros [[[p vs] b] rest] [idx t].
    destruct (idx =? i); [rewrite IH; reflexivity|rewrite (gen_agree lv lv' A); reflexivity].
  - destruct (nth_error (outs_of g n) i); auto. rewrite IH. reflexivity.
Qed.

Lemma gp_loop_agree lv lv' lr lr' fuel : agree g lv lv' -> agree g lr lr' ->
  forall k tv, gp_loop V k fuel g lv lr tv = gp_loop V k fuel g lv' lr' tv.
Proof.
  intros Av Ar. induction k as [|k IH]; intros tv; destruct tv as [|next tv0]; cbn [gp_loop]; auto.
  rewrite (backward_agree lr lr' Ar).
  destruct (backward fuel g lr' next) as [[[r bp] vs]| | |]; auto.
  rewrite (forward_agree lv lv' Av).
  destruct (forward V fuel g lv' r (rev bp)) as [[[[fp vs'] sat] rest]| | |]; auto.
  rewrite IH. reflexivity.
Qed.

End WithV.

(* ---------- generate_paths ---------- *)
Definition gp_rel (g : graph) (r r' : res (analysis * (list entry * res unit))) : Prop :=
  match r, r' with
  | Ok (a, out), Ok (a', out') =>
      a_valid a = a_valid a' /\ a_invalid a = a_invalid a' /\ out = out' /\
      agree g (a_lr a) (a_lr a') /\ agree g (a_lv a) (a_lv a')
  | LibErr c, LibErr c' => c = c'
  | PyErr c, PyErr c' => c = c'
  | OutOfFuel, OutOfFuel => True
  | _, _ => False
  end.

Lemma areset_agree g its m m' : (forall n, n < length g -> mem n its = true) -> agree g (areset its m) (areset its m').
Proof. intros H n i L. unfold areset. rewrite (H n L). reflexivity. Qed.

Theorem generate_paths_history_free V g root :
  wf g root -> fix_reset V = true ->
  forall fuel lr0 lv0 lr0' lv0',
    gp_rel g (generate_paths V fuel g root lr0 lv0) (generate_paths V fuel g root lr0' lv0').
Proof.
  intros W FR fuel lr0 lv0 lr0' lv0'. pose proof W as W'. destruct W' as [[IO OO] NR NE RE RI R0].
  unfold generate_paths, analyse. rewrite FR.
  destruct (items fuel g root) as [its| | |] eqn:I; cbn [bind gp_rel]; auto.
  assert (Hin : forall n, n < length g -> mem n its = true).
  { intros n L. apply mem_In. eapply items_complete; eauto. }
  pose proof (af_agree V g fuel _ _ root 0 (areset_agree g its lr0 lr0' Hin)) as RA.
  destruct (af V fuel g (areset its lr0) root 0) as [lr| | |], (af V fuel g (areset its lr0') root 0) as [lr'| | |];
    cbn [bind gp_rel rel_res] in *; try contradiction; auto.
  pose proof (foldM_rel g (fun lv l => ab fuel g lv l 0) (fun lv l => ab fuel g lv l 0)
                (filter (leaf_is g true) its) _ _ (fun m m' x _ A => ab_agree g fuel m m' x 0 A)
                (areset_agree g its lv0 lv0' Hin)) as RB.
  destruct (foldM _ _ (areset its lv0)) as [lv| | |], (foldM _ _ (areset its lv0')) as [lv'| | |];
    cbn [bind gp_rel rel_res] in *; try contradiction; auto.
  cbn [a_valid a_invalid a_lr a_lv]. split; auto. split; auto. split; auto.
  apply gp_loop_agree; auto.
Qed.

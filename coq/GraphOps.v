(* GraphOps.v -- MODEL of Node.resolve() and Decision.optimize() (definitions only). *)
From Fences Require Export Graph.

Definition is_noop g n := match kind_of g n with KDec _ b => b | _ => false end.
Definition is_ref g n := match kind_of g n with KRef _ => true | _ => false end.

Definition set_node (g : graph) (n : nat) (k : kind) (o : list nat) (i : list (nat * nat)) : graph :=
  upd_node g n (fun nd => mkNode k (nid nd) o i).

(* ---------- resolve ---------- *)
Definition idtable := list (option (list nat) * nat).      (* newest binding first *)
Fixpoint leqb (a b : list nat) : bool :=
  match a, b with
  | [], [] => true
  | x :: a', y :: b' => (x =? y) && leqb a' b'
  | _, _ => false
  end.
Definition oeqb (a b : option (list nat)) : bool :=
  match a, b with Some x, Some y => leqb x y | None, None => true | _, _ => false end.
Fixpoint tbl_find (k : option (list nat)) (t : idtable) : option nat :=
  match t with [] => None | (k', n) :: r => if oeqb k' k then Some n else tbl_find k r end.

(* insert(): a truthy id (not None, not '') may be bound only once *)
Definition tbl_insert (g : graph) (t : idtable) (n : nat) : res idtable :=
  let id := nid (getn g n) in
  let truthy := match id with Some (_ :: _) => true | _ => false end in
  if truthy && match tbl_find id t with Some _ => true | None => false end
  then LibErr EResolveReference
  else Ok ((id, n) :: t).

(* Reference.target: follow chains of references *)
Fixpoint deref (fuel : nat) (g : graph) (t : idtable) (n : nat) : res nat :=
  match fuel with
  | 0 => OutOfFuel
  | S f =>
    match kind_of g n with
    | KRef name =>
        match tbl_find (Some name) t with
        | Some m => deref f g t m
        | None => LibErr EResolveReference
        end
    | _ => Ok n
    end
  end.

Fixpoint set_nth {A} (l : list A) (i : nat) (x : A) : list A :=
  match l, i with
  | [], _ => []
  | _ :: r, 0 => x :: r
  | y :: r, S k => y :: set_nth r k x
  end.

Definition retarget (g : graph) (s idx t : nat) : graph :=
  let g1 := upd_node g s (fun nd => mkNode (nkind nd) (nid nd) (set_nth (outs nd) idx t) (ins nd)) in
  upd_node g1 t (fun nd => mkNode (nkind nd) (nid nd) (outs nd) (ins nd ++ [(s, idx)])).

Fixpoint resolve_go (fuel : nat) (g : graph) (t : idtable) (vis : list nat) (n : nat)
  : res (graph * list nat) :=
  match fuel with
  | 0 => OutOfFuel
  | S f =>
    if mem n vis then Ok (g, vis) else
    let vis := n :: vis in
    if is_dec g n then
      do g1 <- foldM (fun g '(idx, tgt) =>
                        if is_ref g tgt then
                          do m <- deref fuel g t tgt; Ok (retarget g n idx m)
                        else Ok g)
                     (enumerate (outs_of g n)) g;
      foldM (fun '(g, vis) tgt => resolve_go f g t vis tgt) (outs_of g1 n) (g1, vis)
    else Ok (g, vis)
  end.

Definition resolve (fuel : nat) (g : graph) (root : nat) (extra : list nat) : res (graph * nat) :=
  do t0 <- foldM (fun t nd => do its <- items fuel g nd; foldM (tbl_insert g) its t) extra [];
  do its <- items fuel g root;
  do t <- foldM (tbl_insert g) its t0;
  do r <- deref fuel g t root;
  do '(g', _) <- resolve_go fuel g t [] r;
  Ok (g', r).

(* ---------- optimize ---------- *)
(* the while loop: follow single-successor chains of unvisited NoOpDecisions with one parent *)
Fixpoint chain (k : nat) (g : graph) (vis : list nat) (m : nat) : nat :=
  match k with
  | 0 => m
  | S k' =>
    match outs_of g m with
    | [s] => if (length (ins_of g s) =? 1) && is_noop g s && negb (mem s vis)
             then chain k' g vis s else m
    | _ => m
    end
  end.

Definition resource (mw n : nat) (r : nat * nat) : nat * nat :=
  let '(s, i) := r in if s =? mw then (n, i) else (s, i).

(* self takes over the transitions and the mode of merge_with; the children's records follow *)
Definition splice (g : graph) (n mw : nat) : graph :=
  let o := outs_of g mw in
  let k := match kind_of g n with KDec _ noop => KDec (is_all g mw) noop | k => k end in
  let g1 := upd_node g n (fun nd => mkNode k (nid nd) o (ins nd)) in
  fold_left (fun g t => upd_node g t (fun nd => mkNode (nkind nd) (nid nd) (outs nd)
                                                       (map (resource mw n) (ins nd)))) o g1.

Fixpoint opt (fuel : nat) (g : graph) (vis : list nat) (n : nat) : res (graph * list nat) :=
  match fuel with
  | 0 => OutOfFuel
  | S f =>
    if mem n vis then Ok (g, vis) else
    let vis := n :: vis in
    let mw := chain (length g) g vis n in
    let g1 := if mw =? n then g else splice g n mw in
    foldM (fun '(g, vis) t => if is_dec g t then opt f g vis t else Ok (g, vis))
          (outs_of g1 n) (g1, vis)
  end.

Definition optimize (fuel : nat) (g : graph) (root : nat) : res graph :=
  if is_dec g root then do '(g', _) <- opt fuel g [] root; Ok g' else Ok g.

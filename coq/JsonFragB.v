(* JsonFragB.v -- DEFINITIONS only: the keyword table of the propositional-scalar fragment and the executable
   versions of its membership test and meaning (fragb, semb).  Extracted for the C06 check; their agreement with the
   propositional frag / sem is proved in JsonSemBool.v. *)
From Fences Require Import Normalize JsonValid.
From Coq Require Import String ZArith.
Local Open Scope list_scope.

Definition SKM : list str :=
  kws ["minimum"; "maximum"; "minItems"; "maxItems"; "minLength"; "maxLength"; "type"; "enum"; "NOT_enum"]%string.
Definition SKX : list str := kws ["exclusiveMinimum"; "exclusiveMaximum"]%string.

Definition SK : list str := SKM ++ SKX.

Definition kvalidb (k : str) (v : json) (x : json) : bool :=
  if iskw k "minimum" then match v, x with JNum m, JNum z => Z.leb m z | _, _ => true end
  else if iskw k "maximum" then match v, x with JNum m, JNum z => Z.leb z m | _, _ => true end
  else if iskw k "exclusiveMinimum" then match v, x with JNum m, JNum z => Z.ltb m z | _, _ => true end
  else if iskw k "exclusiveMaximum" then match v, x with JNum m, JNum z => Z.ltb z m | _, _ => true end
  else if iskw k "minLength" then match v, x with JNum n, JStr s => Z.leb n (Z.of_nat (List.length s)) | _, _ => true end
  else if iskw k "maxLength" then match v, x with JNum n, JStr s => Z.leb (Z.of_nat (List.length s)) n | _, _ => true end
  else if iskw k "minItems" then match v, x with JNum n, JArr l => Z.leb n (Z.of_nat (List.length l)) | _, _ => true end
  else if iskw k "maxItems" then match v, x with JNum n, JArr l => Z.leb (Z.of_nat (List.length l)) n | _, _ => true end
  else if iskw k "type" then existsb (str_eqb (jtype x)) (type_names v)
  else if iskw k "enum" then match v with JArr l => existsb (json_eqb x) l | _ => false end
  else if iskw k "NOT_enum" then match v with JArr l => negb (existsb (json_eqb x) l) | _ => true end
  else true.

Definition LK : list str := kws ["allOf"; "anyOf"; "oneOf"]%string.       (* a list of sub-schemas *)
Definition UK : list str := kws ["not"; "if"; "then"; "else"]%string.     (* one sub-schema *)

Fixpoint semb (f : nat) (x : json) (s : json) : bool :=
  match f with
  | 0 => false
  | S f' =>
    match s with
    | JBool b => b
    | JObj d =>
      forallb (fun '(k, v) => if smem k SK then kvalidb k v x else true) d
      && match dget (kw "const") d with Some c => json_eqb x c | None => true end
      && match dget (kw "allOf") d with Some (JArr l) => forallb (semb f' x) l | _ => true end
      && match dget (kw "anyOf") d with Some (JArr l) => existsb (semb f' x) l | _ => true end
      && match dget (kw "oneOf") d with Some (JArr l) => Nat.eqb (List.length (filter (semb f' x) l)) 1 | _ => true end
      && match dget (kw "not") d with Some n => negb (semb f' x n) | None => true end
      && match dget (kw "if") d with
         | Some i => if semb f' x i
                     then match dget (kw "then") d with Some t => semb f' x t | None => true end
                     else match dget (kw "else") d with Some e => semb f' x e | None => true end
         | None => true
         end
    | _ => false
    end
  end.

Definition wtvb (k : str) (v : json) : bool :=
  if iskw k "type" then
    forallb (fun j => match j with JStr _ => true | _ => false end) (to_list v)
    && negb (existsb (json_eqb (jstr "integer")) (to_list v))
  else if iskw k "enum" || iskw k "NOT_enum" then match v with JArr l => hashable_all l | _ => false end
  else match v with JNum _ => true | _ => false end.

Fixpoint nodupb (l : list str) : bool :=
  match l with [] => true | x :: r => negb (smem x r) && nodupb r end.

Fixpoint fragb (f : nat) (s : json) : bool :=
  match f with
  | 0 => false
  | S f' =>
    match s with
    | JBool _ => true
    | JObj d =>
      nodupb (map fst d) &&
      forallb (fun '(k, v) =>
                 if smem k SK then wtvb k v
                 else if smem k LK then match v with JArr l => forallb (fragb f') l | _ => false end
                 else if smem k UK then fragb f' v
                 else if iskw k "const" then is_scalar v
                 else false) d
    | _ => false
    end
  end.

(* JsonGen.v -- MODEL of fences/json_schema/parse.py: normal form -> decision graph, and the apply
   semantics of its nodes (how executing a path builds a JSON value).  Definitions only. *)
From Coq Require Import String Ascii.
From Fences Require Export Graph GraphOps Normalize.

Inductive jpayload :=
| JPNone                      (* NoOpDecision / NoOpLeaf *)
| JPSet (v : json)            (* SetValueLeaf *)
| JPKey (k : str)             (* InsertKeyNode *)
| JPArr                       (* CreateArrayNode *)
| JPAppend                    (* AppendArrayItemNode *)
| JPObj                       (* CreateObjectNode *)
| JPInput | JPOutput.

Record jbst := mkJbst { jb_graph : graph; jb_pay : list jpayload }.
Definition jbempty := mkJbst [] [].
Definition jnew (k : kind) (id : option str) (p : jpayload) (st : jbst) : jbst * nat :=
  (mkJbst (jb_graph st ++ [mkNode k id [] []]) (jb_pay st ++ [p]), length (jb_graph st)).
Definition jadd (s t : nat) (st : jbst) : jbst := mkJbst (add_transition (jb_graph st) s t) (jb_pay st).
Definition jnoop (all : bool) (id : option str) := jnew (KDec all true) id JPNone.
Definition jleaf (valid : bool) (v : json) := jnew (KLeaf valid) None (JPSet v).
Definition jnoop_leaf (valid : bool) := jnew (KLeaf valid) None JPNone.

(* JsonPointer: str(pointer) = '#/' + '/'.join(elements) *)
Definition pointer := list str.
Fixpoint join_slash (l : list str) : str :=
  match l with [] => [] | [x] => x | x :: r => x ++ 47 :: join_slash r end.
Definition pstr (p : pointer) : str := kw "#/" ++ join_slash p.
Definition padd (p : pointer) (s : str) : pointer := p ++ [s].
Definition paddn (p : pointer) (n : nat) : pointer := p ++ [nat_digits 20 n []].
Definition sfx (p : pointer) (x : string) : option str := Some (pstr p ++ kw x).
Arguments sfx p x%string.

Definition jerr {A} : res A := LibErr EJsonSchema.

(* config.default_samples, in dict order; config.type_handlers keys, in dict order *)
Definition default_samples : list (str * list json) :=
  [(kw "string", [JStr (kw "string")]); (kw "number", [JNum 42]); (kw "null", [JNull]);
   (kw "boolean", [JBool true; JBool false]); (kw "object", [JObj []]); (kw "array", [JArr []])].
Definition handler_types : list str := kws ["object"; "string"; "array"; "boolean"; "number"; "null"]%string.

(* _read_typesafe and friends: value present must have the right Python type *)
Definition is_num (j : json) := match j with JNum _ | JBool _ => true | _ => false end.
Definition read_num (d : dict) (k : string) : res (option Z) :=
  match dget (kw k) d with
  | None => Ok None
  | Some (JNum z) => Ok (Some z)
  | Some (JBool b) => Ok (Some (if b then 1 else 0)%Z)
  | Some _ => jerr
  end.
Arguments read_num d k%string.
Definition read_nat (d : dict) (k : string) (default : nat) : res nat :=
  do z <- read_num d k; match z with None => Ok default | Some z => Ok (Z.to_nat z) end.
Arguments read_nat d k%string default.
Definition read_dict (d : dict) (k : string) : res (option dict) :=
  match dget (kw k) d with None => Ok None | Some (JObj x) => Ok (Some x) | Some _ => jerr end.
Arguments read_dict d k%string.
Definition read_list (d : dict) (k : string) : res (option (list json)) :=
  match dget (kw k) d with None => Ok None | Some (JArr x) => Ok (Some x) | Some _ => jerr end.
Arguments read_list d k%string.
Definition check_dict (d : dict) (k : string) : res unit := do _ <- read_dict d k; Ok tt.
Arguments check_dict d k%string.
Definition check_str (d : dict) (k : string) : res unit :=
  match dget (kw k) d with None => Ok tt | Some (JStr _) => Ok tt | Some _ => jerr end.
Arguments check_str d k%string.

(* len(str(value)) for a JSON scalar as Python prints it *)
Definition zdigits (z : Z) : nat :=
  let n := Z.to_nat (Z.abs z) in length (nat_digits 40 n []) + (if Z.ltb z 0 then 1 else 0).
Definition pystr_len (j : json) : nat :=
  match j with
  | JNull => 4 | JBool true => 4 | JBool false => 5
  | JNum z => zdigits z | JStr s => length s
  | _ => 0
  end.

(* generate_default_samples *)
Definition gen_default_samples (st : jbst) : jbst * nat :=
  let '(st, root) := jnoop false None st in
  (fold_left (fun st '(_, samples) =>
                fold_left (fun st s => let '(st, l) := jleaf true s st in jadd root l st) samples st)
             default_samples st, root).

(* parse_enum: the two lists of values it turns into leaves, as pure functions of the keywords read *)
Definition enum_invalid (ne en : list json) : list json := pdiff (pset ne) (pset en).
Definition enum_valid (ne en : list json) : list json := pdiff (pset en) (enum_invalid ne en).
Definition enum_maxlen (valid : list json) : nat := fold_left (fun m v => Nat.max m (pystr_len v)) valid 0.
Definition enum_filler (valid : list json) : json := JStr (repeat 35 (S (enum_maxlen valid))).
Definition enum_invalid' (ne en : list json) : list json :=
  let filler := enum_filler (enum_valid ne en) in
  if pmem filler (enum_invalid ne en) then enum_invalid ne en else enum_invalid ne en ++ [filler].

Definition parse_enum (d : dict) (p : pointer) (st : jbst) : res (jbst * nat) :=
  do ne <- read_list d "NOT_enum"; do en <- read_list d "enum";
  let ne := match ne with Some l => l | None => [] end in
  let en := match en with Some l => l | None => [] end in
  if negb (hashable_all ne && hashable_all en) then jerr else      (* only scalar members (after the fix; TypeError before) *)
  let '(st, root) := jnoop false (Some (pstr p)) st in
  let st := fold_left (fun st v => let '(st, l) := jleaf true v st in jadd root l st) (enum_valid ne en) st in
  Ok (fold_left (fun st v => let '(st, l) := jleaf false v st in jadd root l st) (enum_invalid' ne en) st, root).

(* parse_number: the values it emits, as a pure function of the keywords read
   (mn/mx are the inclusive bounds after exclusiveMinimum + 1 / exclusiveMaximum - 1) *)
Definition number_bounds (mn emn mx emx : option Z) : option Z * option Z :=
  (match emn with Some e => Some (e + 1)%Z | None => mn end,
   match emx with Some e => Some (e - 1)%Z | None => mx end).
Definition number_valid_value (mn mx mo : option Z) : Z :=
  let truthy (o : option Z) := match o with Some z => negb (Z.eqb z 0) | None => false end in
  let v0 := if truthy mn then match mn with Some z => z | None => 0%Z end
            else if truthy mx then match mx with Some z => z | None => 0%Z end else 0%Z in
  match mo with
  | Some m => if Z.eqb m 0 then v0 else
      let q := (Z.div v0 m * m)%Z in        (* math.floor(v / m) (the pinned code truncated toward zero: Z.quot) *)
      match mn with Some lo => if Z.ltb q lo then (q + m)%Z else q | None => q end
  | None => v0
  end.
Definition number_invalid_values (mn mx : option Z) : list Z :=
  (match mn with Some m => [(m - 1)%Z] | None => [] end) ++
  (match mx with Some m => [(m + 1)%Z] | None => [] end).

Definition parse_number (d : dict) (p : pointer) (st : jbst) : res (jbst * nat) :=
  do mn <- read_num d "minimum"; do emn <- read_num d "exclusiveMinimum";
  do mx <- read_num d "maximum"; do emx <- read_num d "exclusiveMaximum";
  do mo <- read_num d "multipleOf";
  let '(mn, mx) := number_bounds mn emn mx emx in
  let v := number_valid_value mn mx mo in
  let '(st, root) := jnoop false (sfx p "_NUMBER") st in
  let '(st, l) := jleaf true (JNum v) st in
  let st := jadd root l st in
  Ok (fold_left (fun st x => let '(st, l) := jleaf false (JNum x) st in jadd root l st)
                (number_invalid_values mn mx) st, root).

(* parse_string (no pattern, formats outside the model) *)
Definition parse_string (d : dict) (p : pointer) (st : jbst) : res (jbst * nat) :=
  do _ <- check_str d "pattern"; do _ <- check_str d "contentMediaType"; do _ <- check_str d "contentEncoding";
  do _ <- check_dict d "contentSchema";
  do mn <- read_nat d "minLength" 0;
  do mx <- read_num d "maxLength";
  match dget (kw "format") d with
  | Some (JStr _) => jerr                                   (* formats: outside the model (table lookup) *)
  | Some _ => jerr
  | None =>
    if match mx with Some m => Z.ltb m (Z.of_nat mn) | None => false end then jerr else   (* AssertionError before the fix *)
    let '(st, root) := jnoop false None st in
    let '(st, l) := jleaf true (JStr (repeat 120 mn)) st in
    Ok (jadd root l st, root)
  end.

Definition parse_boolean (p : pointer) (st : jbst) : res (jbst * nat) :=
  let '(st, root) := jnoop false (sfx p "_BOOLEAN") st in
  let '(st, l1) := jleaf true (JBool true) st in
  let st := jadd root l1 st in
  let '(st, l2) := jleaf true (JBool false) st in
  Ok (jadd root l2 st, root).

Definition parse_null (p : pointer) (st : jbst) : res (jbst * nat) :=
  let '(st, root) := jnoop false (sfx p "_NULL") st in
  let '(st, l) := jleaf true JNull st in
  Ok (jadd root l st, root).

Fixpoint jadd_times (k s t : nat) (st : jbst) : jbst :=
  match k with 0 => st | S k' => jadd_times k' s t (jadd s t st) end.

(* parse_dict / parse_any_of_entry / parse_object / parse_array: mutually recursive through the
   nested sub-schemas; recursion on fuel (the nesting depth of the normal form) *)
Fixpoint parse_dict (fuel : nat) (data : json) (p : pointer) (st : jbst) : res (jbst * nat) :=
  match fuel with 0 => OutOfFuel | S f =>
  do d <- match data with JObj d => Ok d | _ => PyErr EAttributeError end;
  let '(st, root) := jnoop false (Some (pstr p)) st in
  do any_of <- match dget (kw "anyOf") d with Some (JArr l) => Ok l | Some _ => jerr | None => jerr end;
  do st <- foldM (fun st '(idx, entry) =>
                    do '(st, n) <- parse_entry f entry (paddn (padd p (kw "anyOf")) idx) st;
                    Ok (jadd root n st)) (enumerate any_of) st;
  Ok (st, root)
  end
with parse_entry (fuel : nat) (entry : json) (p : pointer) (st : jbst) : res (jbst * nat) :=
  match fuel with 0 => OutOfFuel | S f =>
  do d <- match entry with JObj d => Ok d | _ => PyErr EAttributeError end;
  if dhas (kw "enum") d || dhas (kw "NOT_enum") d then parse_enum d p st
  else if dhas (kw "$ref") d then
    match dget (kw "$ref") d with
    | Some (JStr r) => Ok (jnew (KRef r) (Some (pstr p)) JPNone st)
    | _ => jerr
    end
  else
    let '(st, root) := jnoop false None st in
    do types <- match dget (kw "type") d with
                | Some t => let l := to_list t in
                            if hashable_all l then Ok (pset l) else PyErr ETypeError
                | None => Ok (map JStr handler_types)
                end;
    do st <- foldM (fun st t =>
                      do '(st, n) <-
                        match t with
                        | JStr s =>
                          if str_eqb s (kw "object") then parse_object f d p st
                          else if str_eqb s (kw "string") then parse_string d p st
                          else if str_eqb s (kw "array") then parse_array f d p st
                          else if str_eqb s (kw "boolean") then parse_boolean p st
                          else if str_eqb s (kw "number") then parse_number d p st
                          else if str_eqb s (kw "null") then parse_null p st
                          else jerr
                        | _ => jerr
                        end;
                      Ok (jadd root n st)) types st;
    Ok (fold_left (fun st '(ty, samples) =>
                     if pmem (JStr ty) types then st
                     else fold_left (fun st s => let '(st, l) := jleaf false s st in jadd root l st) samples st)
                  default_samples st, root)
  end
with parse_object (fuel : nat) (d : dict) (p : pointer) (st : jbst) : res (jbst * nat) :=
  match fuel with 0 => OutOfFuel | S f =>
  do props <- read_dict d "properties";
  let props := match props with Some x => x | None => [] end in
  do _ <- check_dict d "additionalProperties";
  do _ <- read_num d "minProperties"; do _ <- read_num d "maxProperties";
  do _ <- check_dict d "patternProperties"; do _ <- check_dict d "propertyNames";
  do _ <- check_dict d "unevaluatedProperties"; do _ <- check_dict d "dependentRequired";
  do _ <- check_dict d "dependentSchemas";
  do required <- read_list d "required";
  let required := match required with Some x => x | None => [] end in
  do req <- foldM (fun acc tok => match tok with
                                  | JStr s => if smem s acc then jerr else Ok (acc ++ [s])
                                  | _ => jerr end) required [];
  let '(st, super) := jnoop false (sfx p "_OBJECT") st in
  let '(st, root) := jnew (KDec true false) None JPObj st in
  let st := jadd super root st in
  do '(st, remaining) <-
    foldM (fun '(st, remaining) '(key, value) =>
             let sp := padd (padd p (kw "properties")) key in
             let '(st, prop_root) := jnoop false (sfx sp "__PROP") st in
             let st := jadd root prop_root st in
             let '(st, key_node) := jnew (KDec false false) (sfx sp "__KEY") (JPKey key) st in
             let st := jadd prop_root key_node st in
             do '(st, vn) <- parse_dict f value sp st;
             let st := jadd key_node vn st in
             let isreq := smem key remaining in
             let '(st, omit) := jnoop_leaf (negb isreq) st in
             Ok (jadd prop_root omit st, filter (fun x => negb (str_eqb x key)) remaining))
          props (st, req);
  let st := fold_left (fun st key =>
                         let sp := padd (padd p (kw "required")) key in
                         let '(st, prop_root) := jnoop false (sfx sp "__PROP") st in
                         let st := jadd root prop_root st in
                         let '(st, key_node) := jnew (KDec false false) (sfx sp "__KEY") (JPKey key) st in
                         let st := jadd prop_root key_node st in
                         let '(st, vn) := gen_default_samples st in
                         jadd key_node vn st) remaining st in
  let st := match outs_of (jb_graph st) root with
            | [] => let '(st, l) := jnoop_leaf true st in jadd root l st
            | _ => st end in
  Ok (st, super)
  end
with parse_array (fuel : nat) (d : dict) (p : pointer) (st : jbst) : res (jbst * nat) :=
  match fuel with 0 => OutOfFuel | S f =>
  do min_items <- read_nat d "minItems" 1;
  do _ <- read_num d "maxItems";
  do prefix <- read_list d "prefixItems";
  let prefix := match prefix with Some x => x | None => [] end in
  do _ <- check_dict d "uniqueItems";
  do contains <- read_dict d "contains";
  do min_contains <- read_nat d "minContains" 1;
  do _ <- read_num d "maxContains";
  do items <- read_dict d "items";
  let '(st, root) := jnew (KDec true false) (sfx p "_ARRAY") JPArr st in
  do st <- match prefix with
           | [] => Ok st
           | _ =>
             let '(st, pn) := jnoop true (sfx p "_PREFIX") st in
             let st := jadd root pn st in
             foldM (fun st '(idx, item) =>
                      do '(st, n) <- parse_dict f item (paddn (padd p (kw "prefixItems")) idx) st;
                      let '(st, an) := jnew (KDec false false) None JPAppend st in
                      Ok (jadd pn an (jadd an n st))) (enumerate prefix) st
           end;
  do '(st, min_items) <-
    match contains with
    | Some c =>
      if min_contains =? 0 then Ok (st, min_items) else
      let '(st, cn) := jnoop true (sfx p "_CONTAINS") st in
      let st := jadd root cn st in
      do '(st, n) <- parse_dict f (JObj c) (padd p (kw "contains")) st;
      let '(st, an) := jnew (KDec false false) None JPAppend st in
      let st := jadd an n st in
      Ok (jadd_times min_contains cn an st, min_items - min_contains)
    | None => Ok (st, min_items)
    end;
  if min_items =? 0 then
    (* an array without any item is closed with a valid do-nothing leaf (after the fix) *)
    match outs_of (jb_graph st) root with
    | [] => let '(st, l) := jnoop_leaf true st in Ok (jadd root l st, root)
    | _ => Ok (st, root)
    end
  else
  let '(st, all_items) := jnoop true (sfx p "_ITEMS") st in
  let st := jadd root all_items st in
  do '(st, items_node) <- match items with
                          | None => Ok (gen_default_samples st)
                          | Some i => parse_dict f (JObj i) (padd p (kw "items")) st
                          end;
  Ok ((fix go (k : nat) (st : jbst) : jbst :=
         match k with 0 => st | S k' =>
           let '(st, an) := jnew (KDec false false) None JPAppend st in
           go k' (jadd all_items an (jadd an items_node st)) end) min_items st, root)
  end.

(* parse(): definitions, root, resolve, optimize, input / output wrapping.
   [nf] is the normal form (config.normalize = False), or see parse_json_schema below. *)
Definition parse_nf (fuel : nat) (nf : json) : res (jbst * nat) :=
  do d <- match nf with JObj d => Ok d | _ => PyErr EAttributeError end;
  do defs <- read_dict d "$defs";
  let defs := match defs with Some x => x | None => [] end in
  do '(st, all_nodes) <-
    foldM (fun '(st, acc) '(key, definition) =>
             do '(st, n) <- parse_dict fuel definition [kw "$defs"; key] st;
             Ok (st, acc ++ [n])) defs (jbempty, []);
  do '(st, root) <- parse_dict fuel nf [] st;
  do '(g, r) <- resolve fuel (jb_graph st) root all_nodes;
  do g <- optimize fuel g r;
  let st := mkJbst g (jb_pay st) in
  let '(st, ci) := jnew (KDec false false) None JPInput st in
  let '(st, sr) := jnoop true None st in
  let st := jadd ci sr st in
  let st := jadd sr r st in
  let '(st, fo) := jnew (KLeaf true) None JPOutput st in
  Ok (jadd sr fo st, ci).

Definition parse_json_schema (SV : svariant) (fuel : nat) (schema : json) : res (jbst * nat) :=
  do nf <- normalize SV (mkNConfig true default_discard false) fuel schema;
  parse_nf fuel nf.

(* ---------- apply semantics: how a path builds a value ---------- *)
Definition slot := (str + nat)%type.           (* dict key / list index *)
Inductive jdata :=
| DNone                               (* the caller's None *)
| DKeyRef (p : list slot) (k : slot)  (* KeyReference(container at p, key k) *)
| DCont (p : list slot)               (* a dict or list living at path p of the value under construction *)
| DVal (v : json).                    (* a plain value *)

(* the root holder is KeyReference({}, ''): the tree is what is stored under that key, if anything *)
Fixpoint tree_set (t : json) (p : list slot) (k : slot) (v : json) : option json :=
  match p with
  | [] =>
    match t, k with
    | JObj d, inl key => Some (JObj (dset key v d))
    | JArr l, inr i => if i <? length l then Some (JArr (set_nth l i v)) else None
    | _, _ => None
    end
  | inl key :: r =>
    match t with
    | JObj d => match dget key d with
                | Some c => match tree_set c r k v with Some c' => Some (JObj (dset key c' d)) | None => None end
                | None => None end
    | _ => None
    end
  | inr i :: r =>
    match t with
    | JArr l => match nth_error l i with
                | Some c => match tree_set c r k v with Some c' => Some (JArr (set_nth l i c')) | None => None end
                | None => None end
    | _ => None
    end
  end.
Fixpoint tree_get (t : json) (p : list slot) : option json :=
  match p with
  | [] => Some t
  | inl key :: r => match t with JObj d => match dget key d with Some c => tree_get c r | None => None end | _ => None end
  | inr i :: r => match t with JArr l => match nth_error l i with Some c => tree_get c r | None => None end | _ => None end
  end.

(* the whole value lives in a holder dict under the key ""; paths start with that key *)
Definition root_key : slot := inl [].
Definition holder (t : option json) : json := JObj (match t with Some v => [([], v)] | None => [] end).
Definition unholder (h : json) : option json := match h with JObj d => dget [] d | _ => None end.

Definition japply (pl : jpayload) (d : jdata) (t : option json) : res (jdata * option json) :=
  match pl with
  | JPNone => Ok (d, t)
  | JPInput => Ok (DKeyRef [] root_key, None)
  | JPOutput =>
    match d with
    | DKeyRef p k => match tree_get (holder t) (p ++ [k]) with Some v => Ok (DVal v, t) | None => PyErr EKeyError end
    | _ => PyErr EAttributeError
    end
  | JPSet v =>
    match d with
    | DKeyRef p k => match tree_set (holder t) p k v with Some h => Ok (DVal v, unholder h) | None => PyErr ETypeError end
    | _ => PyErr EAttributeError
    end
  | JPObj =>
    match d with
    | DKeyRef p k => match tree_set (holder t) p k (JObj []) with Some h => Ok (DCont (p ++ [k]), unholder h) | None => PyErr ETypeError end
    | _ => PyErr EAttributeError
    end
  | JPArr =>
    match d with
    | DKeyRef p k => match tree_set (holder t) p k (JArr []) with Some h => Ok (DCont (p ++ [k]), unholder h) | None => PyErr ETypeError end
    | _ => PyErr EAttributeError
    end
  | JPKey key =>
    match d with
    | DCont p => Ok (DKeyRef p (inl key), t)
    | _ => Ok (DNone, t)           (* KeyReference(data, key) is built lazily; misuse shows at the next node *)
    end
  | JPAppend =>
    match d with
    | DCont p =>
      match tree_get (holder t) p with
      | Some (JArr l) =>
        match p with
        | [] => PyErr EAttributeError
        | _ => match tree_set (holder t) (removelast p) (last p root_key) (JArr (l ++ [JNull])) with
               | Some h => Ok (DKeyRef p (inr (length l)), unholder h)
               | None => PyErr ETypeError end
        end
      | _ => PyErr EAttributeError
      end
    | _ => PyErr EAttributeError
    end
  end.

Definition jpay (st : jbst) (n : nat) : jpayload := nth n (jb_pay st) JPNone.

(* Node._execute with data *)
Fixpoint jrun (fuel : nat) (st : jbst) (n : nat) (p : list nat) (d : jdata) (t : option json)
  : res (jdata * list nat * option json) :=
  match fuel with 0 => OutOfFuel | S f =>
  let g := jb_graph st in
  match kind_of g n with
  | KRef _ => PyErr ENotImplemented
  | KLeaf _ => do '(d', t') <- japply (jpay st n) d t; Ok (d', p, t')
  | KDec true _ =>
    do '(d1, t1) <- japply (jpay st n) d t;
    foldM (fun '(_, p, t) c => jrun f st c p d1 t) (outs_of g n) (DNone, p, t1)
  | KDec false _ =>
    do '(d1, t1) <- japply (jpay st n) d t;
    match p with
    | [] => PyErr EIndexError
    | i :: p' => match nth_error (outs_of g n) i with
                 | Some c => jrun f st c p' d1 t1
                 | None => PyErr EIndexError end
    end
  end end.

(* graph.execute(path): the sample *)
Definition jsample (fuel : nat) (st : jbst) (root : nat) (p : list nat) : res json :=
  do '(d, rest, _) <- jrun fuel st root p DNone None;
  match rest with
  | [] => match d with DVal v => Ok v | _ => PyErr EOtherPy end
  | _ => LibErr EInternal
  end.

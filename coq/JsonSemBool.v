(* JsonSemBool.v -- executable versions of the fragment's membership test and meaning (fragb, semb), proved to agree
   with frag / sem; extracted and compared with the reference validator by the C06 check, so that the specification
   the theorems speak about is itself tied to Draft 2020-12. *)
From Fences Require Import Normalize NormShape JsonValid JsonGen JsonEnum JsonSem JsonSemDnf.
From Coq Require Import String ZArith Lia.
Local Open Scope list_scope.

Lemma kvalidb_spec k v x : kvalidb k v x = true <-> kvalid k v x.
Proof.
  unfold kvalidb, kvalid.
  destruct (iskw k "minimum").
  { destruct v, x; try (split; [intros _ ? ? E1 E2; discriminate|reflexivity]).
    rewrite Z.leb_le. split; [intros H ? ? E1 E2; inversion E1; inversion E2; subst; auto|intros H; apply H; reflexivity]. }
  destruct (iskw k "maximum").
  { destruct v, x; try (split; [intros _ ? ? E1 E2; discriminate|reflexivity]).
    rewrite Z.leb_le. split; [intros H ? ? E1 E2; inversion E1; inversion E2; subst; auto|intros H; apply H; reflexivity]. }
  destruct (iskw k "exclusiveMinimum").
  { destruct v, x; try (split; [intros _ ? ? E1 E2; discriminate|reflexivity]).
    rewrite Z.ltb_lt. split; [intros H ? ? E1 E2; inversion E1; inversion E2; subst; auto|intros H; apply H; reflexivity]. }
  destruct (iskw k "exclusiveMaximum").
  { destruct v, x; try (split; [intros _ ? ? E1 E2; discriminate|reflexivity]).
    rewrite Z.ltb_lt. split; [intros H ? ? E1 E2; inversion E1; inversion E2; subst; auto|intros H; apply H; reflexivity]. }
  destruct (iskw k "minLength").
  { destruct v, x; try (split; [intros _ ? ? E1 E2; discriminate|reflexivity]).
    rewrite Z.leb_le. split; [intros H ? ? E1 E2; inversion E1; inversion E2; subst; auto|intros H; apply H; reflexivity]. }
  destruct (iskw k "maxLength").
  { destruct v, x; try (split; [intros _ ? ? E1 E2; discriminate|reflexivity]).
    rewrite Z.leb_le. split; [intros H ? ? E1 E2; inversion E1; inversion E2; subst; auto|intros H; apply H; reflexivity]. }
  destruct (iskw k "minItems").
  { destruct v, x; try (split; [intros _ ? ? E1 E2; discriminate|reflexivity]).
    rewrite Z.leb_le. split; [intros H ? ? E1 E2; inversion E1; inversion E2; subst; auto|intros H; apply H; reflexivity]. }
  destruct (iskw k "maxItems").
  { destruct v, x; try (split; [intros _ ? ? E1 E2; discriminate|reflexivity]).
    rewrite Z.leb_le. split; [intros H ? ? E1 E2; inversion E1; inversion E2; subst; auto|intros H; apply H; reflexivity]. }
  destruct (iskw k "type").
  { rewrite existsb_exists. split.
    - intros (t & Ht & E). apply str_eqb_true in E. subst. exact Ht.
    - intros H. exists (jtype x). split; [exact H|apply str_eqb_true; reflexivity]. }
  destruct (iskw k "enum").
  { destruct v; try (split; [discriminate|intros (l0 & E & _); discriminate]).
    split; [intros H; eauto|intros (l0 & E & M); inversion E; subst; exact M]. }
  destruct (iskw k "NOT_enum").
  { destruct v; try (split; [intros _ ? E; discriminate|reflexivity]).
    rewrite negb_true_iff. split; [intros H l0 E; inversion E; subst; exact H|intros H; apply H; reflexivity]. }
  tauto.
Qed.

Lemma smem_In k l : smem k l = true <-> In k l.
Proof.
  induction l as [|y l IH]; cbn [smem In]; [split; [discriminate|tauto]|].
  rewrite orb_true_iff, IH, str_eqb_true. tauto.
Qed.

Theorem semb_spec x : forall f s, frag f s -> (semb f x s = true <-> sem f x s).
Proof.
  induction f as [|f IH]; intros s Fs; [destruct Fs|].
  destruct s as [|b|z|s0|l0|d]; try (exfalso; exact Fs).
  - cbn [semb sem]. tauto.
  - destruct Fs as [ND Hk]. cbn [semb sem].
    assert (KA : forall v, dget (kw "anyOf") d = Some v -> exists l, v = JArr l /\ forall s', In s' l -> frag f s').
    { intros v G. destruct (Hk _ _ G) as [[I _]|[[X _]|[[_ R0]|[X _]]]];
        [exfalso; cbv in I; intuition discriminate|cbv in X; discriminate X|exact R0|cbv in X; discriminate X]. }
    assert (KL : forall v, dget (kw "allOf") d = Some v -> exists l, v = JArr l /\ forall s', In s' l -> frag f s').
    { intros v G. destruct (Hk _ _ G) as [[I _]|[[_ R0]|[[X _]|[X _]]]];
        [exfalso; cbv in I; intuition discriminate|exact R0|cbv in X; discriminate X|cbv in X; discriminate X]. }
    assert (KN : forall v, dget (kw "not") d = Some v -> frag f v).
    { intros v G. destruct (Hk _ _ G) as [[I _]|[[X _]|[[X _]|[_ R0]]]];
        [exfalso; cbv in I; intuition discriminate|cbv in X; discriminate X|cbv in X; discriminate X|exact R0]. }
    rewrite !andb_true_iff.
    assert (E1 : forallb (fun '(k, v) => if smem k SK then kvalidb k v x else true) d = true <->
                 (forall k v, dget k d = Some v -> In k SK -> kvalid k v x)).
    { rewrite forallb_forall. split.
      - intros H k v G I. specialize (H (k, v) (proj2 (in_dget d ND k v) G)). cbv beta iota in H.
        rewrite (proj2 (smem_In k SK) I) in H. apply kvalidb_spec. exact H.
      - intros H [k v] Hin. destruct (smem k SK) eqn:M; auto. apply kvalidb_spec. apply H; [apply (in_dget d ND); exact Hin|apply smem_In; exact M]. }
    assert (E2 : match dget (kw "allOf") d with Some (JArr l) => forallb (semb f x) l | _ => true end = true <->
                 (forall l, dget (kw "allOf") d = Some (JArr l) -> forall s', In s' l -> sem f x s')).
    { destruct (dget (kw "allOf") d) as [v|] eqn:G; [|split; [intros _ l E; discriminate|reflexivity]].
      destruct (KL v eq_refl) as (l & -> & Fl). rewrite forallb_forall. split.
      - intros H l' E s' Hs. inversion E; subst. apply IH; auto.
      - intros H s' Hs. apply IH; auto. apply (H l eq_refl). exact Hs. }
    assert (E3 : match dget (kw "anyOf") d with Some (JArr l) => existsb (semb f x) l | _ => true end = true <->
                 (forall l, dget (kw "anyOf") d = Some (JArr l) -> exists s', In s' l /\ sem f x s')).
    { destruct (dget (kw "anyOf") d) as [v|] eqn:G; [|split; [intros _ l E; discriminate|reflexivity]].
      destruct (KA v eq_refl) as (l & -> & Fl). rewrite existsb_exists. split.
      - intros (s' & Hs & V) l' E. inversion E; subst. exists s'. split; auto. apply IH; auto.
      - intros H. destruct (H l eq_refl) as (s' & Hs & V). exists s'. split; auto. apply IH; auto. }
    assert (E4 : match dget (kw "not") d with Some n => negb (semb f x n) | None => true end = true <->
                 (forall n, dget (kw "not") d = Some n -> ~ sem f x n)).
    { destruct (dget (kw "not") d) as [v|] eqn:G; [|split; [intros _ n E; discriminate|reflexivity]].
      rewrite negb_true_iff. split.
      - intros H n E V. inversion E; subst. apply (IH n (KN n eq_refl)) in V. congruence.
      - intros H. destruct (semb f x v) eqn:B; auto. exfalso. apply (H v eq_refl). apply IH; auto. }
    rewrite E1, E2, E3, E4. tauto.
Qed.

(* ---------- membership in the fragment, decided ---------- *)
Lemma nodupb_sound l : nodupb l = true -> NoDup l.
Proof.
  induction l as [|x r IH]; cbn [nodupb]; [constructor|]. rewrite andb_true_iff, negb_true_iff.
  intros [A B]. constructor; auto. intros H. apply smem_In in H. congruence.
Qed.

Lemma wtvb_sound k v : In k SK -> wtvb k v = true ->
  wtv k v /\ (k = kw "type" -> ~ In (jstr "integer") (to_list v)).
Proof.
  intros Hk. apply SK_enum in Hk. unfold wtvb, wtv.
  destruct Hk as [-> | [-> | [-> | [-> | [-> | [-> | [-> | [-> | [-> | [-> | ->]]]]]]]]]];
    match goal with |- context [iskw (kw ?a) "type"] =>
      let b1 := eval vm_compute in (iskw (kw a) "type") in change (iskw (kw a) "type") with b1;
      let b2 := eval vm_compute in (iskw (kw a) "enum") in change (iskw (kw a) "enum") with b2;
      let b3 := eval vm_compute in (iskw (kw a) "NOT_enum") in change (iskw (kw a) "NOT_enum") with b3
    end; cbv iota; cbn [orb].
  1-6,10-11: intros H; destruct v; try discriminate; split; [eexists; reflexivity|intros X; cbv in X; discriminate X].
  - rewrite andb_true_iff, negb_true_iff. intros [A B]. split.
    + intros j Hj. rewrite forallb_forall in A. specialize (A j Hj). destruct j; try discriminate. eexists; reflexivity.
    + intros _ Hin. assert (existsb (json_eqb (jstr "integer")) (to_list v) = true); [|congruence].
      apply existsb_exists. exists (jstr "integer"). split; [exact Hin|reflexivity].
  - intros H. destruct v; try discriminate. split; [eexists; split; [reflexivity|exact H]|intros X; cbv in X; discriminate X].
  - intros H. destruct v; try discriminate. split; [eexists; split; [reflexivity|exact H]|intros X; cbv in X; discriminate X].
Qed.

Theorem fragb_sound : forall f s, fragb f s = true -> frag f s.
Proof.
  induction f as [|f IH]; intros s H; [discriminate H|].
  destruct s as [|b|z|s0|l0|d]; try discriminate H; [exact I|].
  cbn [fragb] in H. apply andb_true_iff in H. destruct H as [N F]. apply nodupb_sound in N.
  split; [exact N|]. intros k v G. rewrite forallb_forall in F.
  specialize (F (k, v) (proj2 (in_dget d N k v) G)). cbv beta iota in F.
  destruct (smem k SK) eqn:M.
  - left. apply smem_In in M. destruct (wtvb_sound k v M F). auto.
  - right. destruct (iskw k "allOf") eqn:E1.
    + left. apply str_eqb_true in E1. split; [exact E1|]. destruct v; try discriminate. cbn [orb] in F.
      eexists. split; [reflexivity|]. intros s' Hs. apply IH. rewrite forallb_forall in F. auto.
    + destruct (iskw k "anyOf") eqn:E2; cbn [orb] in F.
      * right. left. apply str_eqb_true in E2. split; [exact E2|]. destruct v; try discriminate.
        eexists. split; [reflexivity|]. intros s' Hs. apply IH. rewrite forallb_forall in F. auto.
      * destruct (iskw k "not") eqn:E3; [|discriminate]. right. right. apply str_eqb_true in E3. split; [exact E3|]. apply IH. exact F.
Qed.

(* the statement in executable terms: for every document the checker admits, the any-of list normalize() returns is
   satisfied by exactly the instances on which the evaluator says "accepted" *)
From Fences Require Import JsonSemNorm JsonSemTop.
Theorem normalize_fragment_exec SV fuel m d n : fragb m (JObj d) = true ->
  normalize SV (mkNConfig true default_discard false) fuel (JObj d) = Ok n ->
  exists L, any_of n = Ok (map JObj L) /\ forall x, alts_valid L x <-> semb m x (JObj d) = true.
Proof.
  intros Fb H. pose proof (fragb_sound _ _ Fb) as Fs.
  destruct (normalize_fragment_default SV fuel m d n Fs H) as (L & A & _ & E).
  exists L. split; [exact A|]. intros x. rewrite (E x). symmetry. apply semb_spec. exact Fs.
Qed.

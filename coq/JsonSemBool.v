(* JsonSemBool.v -- executable versions of the fragment's membership test and meaning (fragb, semb), proved to agree
   with frag / sem; extracted and compared with the reference validator by the C06 check, so that the specification
   the theorems speak about is itself tied to Draft 2020-12. *)
From Fences Require Import Normalize NormShape JsonValid JsonGen JsonEnum JsonSem JsonSemAlts JsonSemDnf.
From Coq Require Import String ZArith Lia.
Local Open Scope list_scope.

(* ---------- membership in the fragment, decided ---------- *)
Lemma nodupb_sound l : nodupb l = true -> NoDup l.
Proof.
  induction l as [|x r IH]; cbn [nodupb]; [constructor|]. rewrite andb_true_iff, negb_true_iff.
  intros [A B]. constructor; auto. intros H. apply smem_In in H. congruence.
Qed.

Lemma wtvb_sound k v : In k SK -> wtvb k v = true ->
  wtv k v /\ (k = kw "type" -> ~ In (jstr "integer") (to_list v)).
Proof.
  intros Hk. apply SK_enum in Hk. unfold wtvb, wtv.
  destruct Hk as [-> | [-> | [-> | [-> | [-> | [-> | [-> | [-> | [-> | [-> | ->]]]]]]]]]];
    match goal with |- context [iskw (kw ?a) "type"] =>
      let b1 := eval vm_compute in (iskw (kw a) "type") in change (iskw (kw a) "type") with b1;
      let b2 := eval vm_compute in (iskw (kw a) "enum") in change (iskw (kw a) "enum") with b2;
      let b3 := eval vm_compute in (iskw (kw a) "NOT_enum") in change (iskw (kw a) "NOT_enum") with b3
    end; cbv iota; cbn [orb].
  1-6,10-11: intros H; destruct v; try discriminate; split; [eexists; reflexivity|intros X; cbv in X; discriminate X].
  - rewrite andb_true_iff, negb_true_iff. intros [A B]. split.
    + intros j Hj. rewrite forallb_forall in A. specialize (A j Hj). destruct j; try discriminate. eexists; reflexivity.
    + intros _ Hin. assert (existsb (json_eqb (jstr "integer")) (to_list v) = true); [|congruence].
      apply existsb_exists. exists (jstr "integer"). split; [exact Hin|reflexivity].
  - intros H. destruct v; try discriminate. split; [eexists; split; [reflexivity|exact H]|intros X; cbv in X; discriminate X].
  - intros H. destruct v; try discriminate. split; [eexists; split; [reflexivity|exact H]|intros X; cbv in X; discriminate X].
Qed.

Theorem fragb_sound : forall f s, fragb f s = true -> frag f s.
Proof.
  induction f as [|f IH]; intros s H; [discriminate H|].
  destruct s as [|b|z|s0|l0|d]; try discriminate H; [exact I|].
  cbn [fragb] in H. apply andb_true_iff in H. destruct H as [N F]. apply nodupb_sound in N.
  split; [exact N|]. intros k v G. rewrite forallb_forall in F.
  specialize (F (k, v) (proj2 (in_dget d N k v) G)). cbv beta iota in F.
  destruct (smem k SK) eqn:M.
  - apply smem_In in M. exact (wtvb_sound k v M F).
  - destruct (smem k LK).
    + destruct v; try discriminate. eexists. split; [reflexivity|]. intros s' Hs. apply IH. rewrite forallb_forall in F. auto.
    + destruct (smem k UK); [apply IH; exact F|]. unfold iskw in F. destruct (str_eqb k (kw "const")); [exact F|discriminate].
Qed.

(* the statement in executable terms: for every document the checker admits, the any-of list normalize() returns is
   satisfied by exactly the instances on which the evaluator says "accepted" *)
From Fences Require Import JsonSemNorm JsonSemTop.
Theorem normalize_fragment_exec SV fuel m d n : fix_lone_if SV = true -> fragb m (JObj d) = true ->
  normalize SV (mkNConfig true default_discard false) fuel (JObj d) = Ok n ->
  exists L, any_of n = Ok (map JObj L) /\ forall x, alts_valid L x <-> semb m x (JObj d) = true.
Proof.
  intros FL Fb H. pose proof (fragb_sound _ _ Fb) as Fs.
  destruct (normalize_fragment_default SV fuel m d n FL Fs H) as (L & A & _ & E).
  exists L. split; [exact A|]. intros x. rewrite (E x). symmetry. apply semb_spec. exact Fs.
Qed.

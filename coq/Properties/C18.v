(* C18 -- OpenAPI sample cache is transparent. *)
From Fences Require Import OpenApi OpenApiProofs.

(* for every pipeline [compute], every history of generate_all / generate_one_valid calls (with and
   without overrides, any order, failing calls included) and every probe call: same result as
   with a fresh cache.  Holds for the repaired generate_all (fix_cache = true). *)
Theorem C18_generate_all : forall compute h op ov,
  snd (generate_all (mkOV true) compute (run_history (mkOV true) compute h) op ov) =
  snd (generate_all (mkOV true) compute empty_cache op ov).
Proof. exact cache_transparent_all. Qed.
Print Assumptions C18_generate_all.

Theorem C18_generate_one_valid : forall compute h op ow,
  snd (generate_one_valid compute (run_history (mkOV true) compute h) op ow) =
  snd (generate_one_valid compute empty_cache op ow).
Proof. exact cache_transparent_one. Qed.
Print Assumptions C18_generate_one_valid.

Theorem C18_separation : forall compute h k b,
  let c := run_history (mkOV true) compute h in
  snd (add compute c k b) = compute k b /\
  (b = true -> c_other (fst (add compute c k b)) = c_other c) /\
  (b = false -> c_body (fst (add compute c k b)) = c_body c).
Proof. exact cache_separation. Qed.
Print Assumptions C18_separation.

(* the pinned code assigns the caller's valid values to the cached Samples object: one earlier
   call with an override changes what a later call gets *)
Definition c18_compute (k : key) (b : bool) : res samples := Ok ([1], [2]).
Definition c18_opA := mkOp 0 [mkParam 5 PQuery true 7] None.
Definition c18_opB := mkOp 1 [mkParam 6 PQuery true 7] None.

Theorem C18_refuted_pinned :
  snd (generate_all (mkOV false) c18_compute
         (run_history (mkOV false) c18_compute [CallAll c18_opA [(5, [777])]]) c18_opB []) <>
  snd (generate_all (mkOV false) c18_compute empty_cache c18_opB []).
Proof. vm_compute. discriminate. Qed.
Print Assumptions C18_refuted_pinned.

Example C18_nonvacuous :
  snd (generate_all (mkOV true) c18_compute
         (run_history (mkOV true) c18_compute [CallAll c18_opA [(5, [777])]]) c18_opB []) =
  Ok [mkGroup (Some (mkParam 6 PQuery true 7)) (Some false) [1] [2]].
Proof. vm_compute. reflexivity. Qed.

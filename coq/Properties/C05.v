(* C05 -- Decision graph: the generated paths reach every leaf, none is redundant. *)
From Fences Require Import GraphSpec GraphLinks GraphExec GraphAnalysis GraphTheorems GraphCheck.

(* when generation ends normally, every leaf of the graph is applied by some yielded path *)
Theorem C05_cover : forall V g root fuel lr0 lv0 a es,
  wf g root -> (fix_reset V = true \/ forall s i, s < length g -> lv0 s i = None) ->
  generate_paths V fuel g root lr0 lv0 = Ok (a, (es, Ok tt)) ->
  forall x, x < length g -> is_leaf g x = true ->
  exists e tr, In e es /\ exec fuel g root (epath e) = Ok (tr, []) /\ In x tr.
Proof.
  intros V g root fuel lr0 lv0 a es W F GP.
  exact (leaves_covered V g root W fuel lr0 lv0 a es (Ok tt) F GP eq_refl).
Qed.
Print Assumptions C05_cover.

(* every yielded path applies a leaf (its target) that no earlier path applied *)
Theorem C05_fresh : forall V g root fuel lr0 lv0 a es st es1 e es2,
  wf g root -> (fix_reset V = true \/ forall s i, s < length g -> lv0 s i = None) ->
  generate_paths V fuel g root lr0 lv0 = Ok (a, (es, st)) -> es = es1 ++ e :: es2 ->
  is_leaf g (etarget e) = true /\
  (exists tr, exec fuel g root (epath e) = Ok (tr, []) /\ In (etarget e) tr) /\
  forall e' tr', In e' es1 -> exec fuel g root (epath e') = Ok (tr', []) -> ~ In (etarget e) tr'.
Proof.
  intros V g root fuel lr0 lv0 a es st es1 e es2 W F GP.
  exact (paths_fresh V g root W fuel lr0 lv0 a es st F GP es1 e es2).
Qed.
Print Assumptions C05_fresh.

(* hence no more samples than leaves *)
Theorem C05_count : forall V g root fuel lr0 lv0 a es st,
  wf g root -> (fix_reset V = true \/ forall s i, s < length g -> lv0 s i = None) ->
  generate_paths V fuel g root lr0 lv0 = Ok (a, (es, st)) ->
  exists its, items fuel g root = Ok its /\ NoDup its /\
              length es <= length (filter (is_leaf g) its).
Proof. intros V g root fuel lr0 lv0 a es st W F GP. exact (paths_count V g root W fuel lr0 lv0 a es st F GP). Qed.
Print Assumptions C05_count.

Definition c05_example : list op :=
  [NewNode (KDec false false) None; NewNode (KDec true false) None; NewNode (KLeaf true) None;
   NewNode (KLeaf false) None; NewNode (KDec false true) None; NewNode (KLeaf true) None;
   AddT 0 1; AddT 1 2; AddT 1 4; AddT 4 3; AddT 4 5; AddT 4 1; AddT 0 2; AddT 1 2].

Example C05_nonvacuous :
  wf (build c05_example) 0 /\
  exists es, gp_entries V_fixed 50 (build c05_example) 0 = Some (es, Ok tt) /\ length es = 3.
Proof.
  split; [apply wfb_wf; vm_compute; reflexivity|].
  eexists. split; [vm_compute; reflexivity|reflexivity].
Qed.

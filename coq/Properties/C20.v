(* C20 -- String generator honours length bounds and pattern, or refuses. *)
From Fences Require Import Regex.

(* whatever the pattern, the graph and the fuel: a returned string has a length inside the requested
   bounds (for all min_length, all max_length >= min_length or absent) *)
Theorem C20_length : forall V fuel mn mx pat s,
  gen_random_string V fuel mn mx pat = Ok s ->
  mn <= length s /\ (forall m, mx = Some m -> length s <= m).
Proof.
  intros V fuel mn mx pat s H. unfold gen_random_string in H.
  destruct (match mx with Some m => m <? mn | None => false end) eqn:A; [discriminate|].
  assert (B : forall m, mx = Some m -> mn <= m).
  { intros m ->. apply Nat.ltb_ge in A. exact A. }
  destruct pat as [r|].
  - destruct (parse_regex fuel r) as [[st root]| | |]; cbn [bind] in H; try discriminate.
    destruct (generate_paths V fuel (b_graph st) root aempty aempty) as [[a [es status]]| | |]; cbn [bind] in H; try discriminate.
    destruct (first_valid fuel st root es) as [[result|]| | |]; cbn [bind] in H; try discriminate.
    + destruct (match mx with Some m => m <? length result | None => false end) eqn:C; [discriminate|].
      inversion H; subst. rewrite app_length, repeat_length. split; [lia|].
      intros m ->. apply Nat.ltb_ge in C. specialize (B m eq_refl). lia.
    + destruct status; discriminate.
  - inversion H; subst. rewrite repeat_length. split; auto.
Qed.
Print Assumptions C20_length.

(* the only non-library error the model can produce is the assert on min > max, outside the contract *)
Theorem C20_contract : forall V fuel mn mx pat,
  (forall m, mx = Some m -> mn <= m) ->
  gen_random_string V fuel mn mx pat <> PyErr EAssertionError \/
  exists r, pat = Some r.
Proof.
  intros V fuel mn mx pat B. destruct pat as [r|]; [right; eauto|left].
  unfold gen_random_string. destruct mx as [m|].
  - specialize (B m eq_refl). destruct (Nat.ltb_spec m mn); [lia|discriminate].
  - discriminate.
Qed.
Print Assumptions C20_contract.

Example C20_nonvacuous :
  gen_random_string V_fixed 200 5 (Some 6) (Some (RAlt1 (SCons (IChar 97 None) (SOne (IChar 98 (Some QPlus))))))
  = Ok [120; 120; 120; 97; 98].
Proof. vm_compute. reflexivity. Qed.

(* C20 -- String generator honours length bounds and pattern, or refuses. *)
From Fences Require Import Regex GraphSpec GraphLinks GraphExec GraphRun GraphOpt RegexLang.

(* whatever the pattern, the graph and the fuel: a returned string has a length inside the requested
   bounds (for all min_length, all max_length >= min_length or absent) *)
Theorem C20_length : forall V fuel mn mx pat s,
  gen_random_string V fuel mn mx pat = Ok s ->
  mn <= length s /\ (forall m, mx = Some m -> length s <= m).
Proof.
  intros V fuel mn mx pat s H. unfold gen_random_string in H.
  destruct (match mx with Some m => m <? mn | None => false end) eqn:A; [discriminate|].
  assert (B : forall m, mx = Some m -> mn <= m).
  { intros m ->. apply Nat.ltb_ge in A. exact A. }
  destruct pat as [r|].
  - destruct (parse_regex fuel r) as [[st root]| | |]; cbn [bind] in H; try discriminate.
    destruct (generate_paths V fuel (b_graph st) root aempty aempty) as [[a [es status]]| | |]; cbn [bind] in H; try discriminate.
    destruct (first_valid fuel st root es) as [[result|]| | |]; cbn [bind] in H; try discriminate.
    + destruct (match mx with Some m => m <? length result | None => false end) eqn:C; [discriminate|].
      inversion H; subst. rewrite app_length, repeat_length. split; [lia|].
      intros m ->. apply Nat.ltb_ge in C. specialize (B m eq_refl). lia.
    + destruct status; discriminate.
  - inversion H; subst. rewrite repeat_length. split; auto.
Qed.
Print Assumptions C20_length.

(* the only non-library error the model can produce is the assert on min > max, outside the contract *)
Theorem C20_contract : forall V fuel mn mx pat,
  (forall m, mx = Some m -> mn <= m) ->
  gen_random_string V fuel mn mx pat <> PyErr EAssertionError \/
  exists r, pat = Some r.
Proof.
  intros V fuel mn mx pat B. destruct pat as [r|]; [right; eauto|left].
  unfold gen_random_string. destruct mx as [m|].
  - specialize (B m eq_refl). destruct (Nat.ltb_spec m mn); [lia|discriminate].
  - discriminate.
Qed.
Print Assumptions C20_contract.

(* when a pattern is given, the returned string ends with a string the pattern matches in full, i.e. it
   contains a match (the padding of 'x' characters comes in front) *)
Lemma first_valid_lang fuel r st root : parse_regex fuel r = Ok (st, root) ->
  forall es result, first_valid fuel st root es = Ok (Some result) -> matches r result.
Proof.
  intros H. induction es as [|e es IH]; intros result F; cbn [first_valid] in F; [discriminate|].
  destruct (evalid e); [|auto].
  destruct (execute fuel (b_graph st) root (epath e)) as [tr| | |] eqn:X; cbn [bind] in F; try discriminate.
  inversion F; subst result. unfold execute in X.
  destruct (exec fuel (b_graph st) root (epath e)) as [[tr' rest]| | |] eqn:E; cbn [bind] in X; try discriminate.
  destruct rest; [|discriminate]. inversion X; subst tr'.
  apply exec_Run in E. apply Run_Run0 in E. destruct E as (c & _ & R).
  exact (parse_regex_lang fuel r st root H c tr R).
Qed.

Theorem C20_contains_match : forall V fuel mn mx r s,
  gen_random_string V fuel mn mx (Some r) = Ok s ->
  exists pad w, s = pad ++ w /\ matches r w.
Proof.
  intros V fuel mn mx r s H. unfold gen_random_string in H.
  destruct (match mx with Some m => m <? mn | None => false end); [discriminate|].
  destruct (parse_regex fuel r) as [[st root]| | |] eqn:P; cbn [bind] in H; try discriminate.
  destruct (generate_paths V fuel (b_graph st) root aempty aempty) as [[a [es status]]| | |]; cbn [bind] in H; try discriminate.
  destruct (first_valid fuel st root es) as [[result|]| | |] eqn:F; cbn [bind] in H; try discriminate.
  - destruct (match mx with Some m => m <? length result | None => false end); [discriminate|].
    inversion H; subst. exists (repeat xchar (mn - length result)), result. split; auto.
    eapply first_valid_lang; eauto.
  - destruct status; discriminate.
Qed.
Print Assumptions C20_contains_match.

Example C20_nonvacuous :
  gen_random_string V_fixed 200 5 (Some 6) (Some (RAlt1 (SCons (IChar 97 None) (SOne (IChar 98 (Some QPlus))))))
  = Ok [120; 120; 120; 97; 98].
Proof. vm_compute. reflexivity. Qed.

(* C13 -- Results depend only on the input. (the models are pure functions of their inputs by construction;
   the one piece of state the implementation keeps between calls, the distance annotations, is modelled) *)
From Fences Require Import Graph.

(* after the fix, generate_paths forgets the annotations of every node it is about to analyse *)
Theorem C13_reset_forgets : forall its m a b, mem a its = true -> areset its m a b = None.
Proof. intros its m a b H. unfold areset. rewrite H. reflexivity. Qed.
Print Assumptions C13_reset_forgets.

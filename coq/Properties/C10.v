(* C10 -- OpenAPI: a request is labelled valid exactly when all its parts conform. (placeholder) *)
From Fences Require Import OpenApi.
Theorem C10_placeholder : forall p, is_path p = true <-> p = PPath.
Proof. intros []; simpl; split; intros H; try discriminate; auto. Qed.
Print Assumptions C10_placeholder.

(* C10 -- OpenAPI: a request is labelled valid exactly when all its parts conform.
   Only statements closed by [exact]; proofs live in OpenApiGraphProofs.v.

   Layers: generate_all is modelled as a plan (OpenApi.v: one group of options per parameter and for
   the body, tied to generate.py by correspondence stream O) and the graph it builds from the plan
   (OpenApiGraph.v: plan_graph, tied by stream OG, which also compares the entries generate_paths yields).
   The JSON pipeline inside SampleCache.add is the parameter [compute]; what it is assumed to deliver --
   valid samples satisfy the schema, invalid ones do not (C01 / C02), never two empty lists -- is a
   hypothesis of the conformance theorem, stated in terms of an arbitrary judge [conf]. *)
From Fences Require Import GraphSpec GraphRun OpenApi OpenApiProofs OpenApiGraph OpenApiGraphProofs.

(* Shape and label: every generated request takes exactly one option in every group of the plan, in
   order; executing its path applies the leaves of those options and no other leaf; and it is labelled
   valid exactly when all options taken are flagged valid. *)
Theorem C10_label : forall pl fuel lr0 lv0 a es st e,
  (forall gr, In gr pl -> options gr <> []) ->
  generate_paths V_fixed fuel (plan_graph pl) 0 lr0 lv0 = Ok (a, (es, st)) -> In e es ->
  exists cs, picks pl (epath e) = Some cs /\ evalid e = forallb fst cs /\
    Run (plan_graph pl) 0 (epath e)
        (0 :: match pl with [] => [1] | _ => trace_of (plan_rows pl) 0 (epath e) end) [].
Proof. exact request_label. Qed.
Print Assumptions C10_label.

(* The statement of C10 for the label: for an operation whose sample lists were obtained without error,
   every generated request takes one option per part of the operation (the parameters in order, then the
   body), never leaves a path parameter out (so make_path has a value for every declared placeholder),
   and is labelled valid exactly when every value it carries satisfies its schema and every part it
   leaves out is optional. *)
Theorem C10_label_conforms : forall compute conf,
  (forall k b s, compute k b = Ok s ->
     (forall x, In x (fst s) -> conf k b x = true) /\ (forall x, In x (snd s) -> conf k b x = false)) ->
  (forall k b s, compute k b = Ok s -> fst s <> [] \/ snd s <> []) ->
  forall op pl fuel lr0 lv0 a es st e,
  generate_all_pure compute op [] = Ok pl ->
  generate_paths V_fixed fuel (plan_graph pl) 0 lr0 lv0 = Ok (a, (es, st)) -> In e es ->
  exists cs, picks pl (epath e) = Some cs /\
    Forall2 (fun pt c => snd c = COmit -> snd pt <> None) (parts_of op) cs /\
    (evalid e = true <-> Forall2 (fun pt c => part_ok conf pt (snd c) = true) (parts_of op) cs).
Proof. exact request_label_conforms. Qed.
Print Assumptions C10_label_conforms.

(* ... whatever the cache went through before (C18): generate_all with a used cache returns that plan *)
Theorem C10_plan_of_generate_all : forall compute h op,
  snd (generate_all (mkOV true) compute (run_history (mkOV true) compute h) op []) =
  generate_all_pure compute op [].
Proof.
  intros compute h op. rewrite cache_transparent_all.
  exact (proj2 (generate_all_spec compute empty_cache op [] (Inv_empty compute))).
Qed.
Print Assumptions C10_plan_of_generate_all.

(* The enumeration ends for every sufficiently large recursion budget, and every option of every group
   -- each valid sample, each invalid sample, the omission -- is taken by some generated request. *)
Theorem C10_cover : forall pl lr0 lv0,
  (forall gr, In gr pl -> options gr <> []) ->
  exists F a es, forall fuel, F <= fuel ->
    generate_paths V_fixed fuel (plan_graph pl) 0 lr0 lv0 = Ok (a, (es, Ok tt)) /\
    forall j gr i, nth_error pl j = Some gr -> i < length (options gr) ->
      exists e, In e es /\ nth_error (epath e) j = Some i.
Proof. exact request_cover. Qed.
Print Assumptions C10_cover.

(* every choice of one option per group is a complete run of the graph (the graph offers every request) *)
Theorem C10_any_choice : forall pl p cs, pl <> [] -> picks pl p = Some cs ->
  Run (plan_graph pl) 0 p (0 :: trace_of (plan_rows pl) 0 p) [].
Proof. exact request_any_choice. Qed.
Print Assumptions C10_any_choice.

Definition c10_compute (k : key) (b : bool) : res samples := Ok ([10 + k], [20 + k]).
Definition c10_op := mkOp 0 [mkParam 1 PPath true 1; mkParam 2 PQuery false 2] (Some (3, true)).
Definition c10_plan : plan :=
  match generate_all_pure c10_compute c10_op [] with Ok pl => pl | _ => [] end.

(* non-vacuity: an operation with a path parameter, an optional query parameter and a required body meets
   every premise; 6 requests are generated, 2 of them labelled valid *)
Example C10_nonvacuous :
  (forall gr, In gr c10_plan -> options gr <> []) /\
  exists es, gp_entries V_fixed 50 (plan_graph c10_plan) 0 = Some (es, Ok tt) /\
    length es = 6 /\ length (filter evalid es) = 2.
Proof.
  split.
  - intros gr H. vm_compute in H. destruct H as [<-|[<-|[<-|[]]]]; discriminate.
  - eexists. split; [vm_compute; reflexivity|]. split; reflexivity.
Qed.

(* C15 -- Graph optimisation does not change what can be generated. (theorems under construction:
   this file currently records the model-level facts proved so far) *)
From Fences Require Import GraphSpec GraphOps.

(* optimize() is the identity on a root that is not a decision (Node.optimize: pass) *)
Theorem C15_non_decision : forall fuel g root, is_dec g root = false -> optimize fuel g root = Ok g.
Proof. intros fuel g root H. unfold optimize. rewrite H. reflexivity. Qed.
Print Assumptions C15_non_decision.

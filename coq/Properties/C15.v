(* C15 -- Graph optimisation does not change what can be generated. *)
From Fences Require Import GraphSpec GraphOps GraphOpt GraphResolve GraphOptLinks.

(* For every graph (any mix of modes, sharing, cycles, chains of do-nothing decisions of any length) and
   every complete execution of the interpreter before optimize() there is one after it that applies the same
   side-effecting nodes (all nodes except NoOpDecisions) in the same order, and conversely.  No bound on the
   depth of the executions, no consistency assumption is needed. *)
Theorem C15_sem : forall fuel g root g',
  optimize fuel g root = Ok g' ->
  (forall f p tr, exec f g root p = Ok (tr, []) ->
     exists f' p' tr', exec f' g' root p' = Ok (tr', []) /\ vis (is_noop g) tr' = vis (is_noop g) tr) /\
  (forall f p tr, exec f g' root p = Ok (tr, []) ->
     exists f' p' tr', exec f' g root p' = Ok (tr', []) /\ vis (is_noop g) tr' = vis (is_noop g) tr).
Proof. exact optimize_exec. Qed.
Print Assumptions C15_sem.

(* in particular the invalid leaves applied by corresponding executions are the same *)
Theorem C15_same_invalid_leaves : forall g tr tr',
  vis (is_noop g) tr' = vis (is_noop g) tr -> invalid_leaves g tr' = invalid_leaves g tr.
Proof.
  intros g tr tr' H. rewrite <- (vis_invalid_leaves g tr'), <- (vis_invalid_leaves g tr), H. reflexivity.
Qed.
Print Assumptions C15_same_invalid_leaves.

(* the statement holds for every node of the graph, not only for the root *)
Theorem C15_sem_everywhere : forall fuel g root g',
  optimize fuel g root = Ok g' ->
  (forall x c tr, Run0 g x c tr -> exists c' tr', Run0 g' x c' tr' /\ vis (is_noop g) tr' = vis (is_noop g) tr) /\
  (forall x c tr, Run0 g' x c tr -> exists c' tr', Run0 g x c' tr' /\ vis (is_noop g) tr' = vis (is_noop g) tr).
Proof. exact optimize_sem. Qed.
Print Assumptions C15_sem_everywhere.

(* The graph stays consistently linked: after optimize(), at every node reachable from the root both checks of
   fences.core.debug.check_consistency hold -- every incoming record names a decision whose transition of that
   index leads here, and every outgoing transition is recorded at its target with the right index.  For every
   consistently linked table (any sharing, cycles, chains of any length, repeated children), any recursion budget.
   The spliced-out decisions stay in the table, as the Python objects stay in memory; they are unreachable. *)
Theorem C15_links : forall fuel g root g',
  consistent g -> optimize fuel g root = Ok g' ->
  forall x, reach g' root x ->
    (forall s i, In (s, i) (ins_of g' x) -> is_dec g' s = true /\ nth_error (outs_of g' s) i = Some x) /\
    (forall i t, nth_error (outs_of g' x) i = Some t -> In (x, i) (ins_of g' t)).
Proof. exact optimize_links. Qed.
Print Assumptions C15_links.

(* the same for a table as resolve() leaves it (C14_resolve_general): links truthful except at the Reference
   nodes, none of which is reachable -- this is the table the front ends call optimize() on *)
Theorem C15_links_resolved : forall fuel g r g',
  outs_ok g -> ins_ok_nr g -> (forall x, reach g r x -> is_ref g x = false) ->
  optimize fuel g r = Ok g' ->
  forall x, reach g' r x ->
    (forall s i, In (s, i) (ins_of g' x) -> is_dec g' s = true /\ nth_error (outs_of g' s) i = Some x) /\
    (forall i t, nth_error (outs_of g' x) i = Some t -> In (x, i) (ins_of g' t)).
Proof. exact optimize_links_resolved. Qed.
Print Assumptions C15_links_resolved.

(* The node count does not grow: Node.items() after optimize() is at most as long as before (no node becomes
   reachable that was not), and the table keeps its size. *)
Theorem C15_count : forall fuel g root g' f1 f2 its its',
  consistent g -> optimize fuel g root = Ok g' ->
  items f1 g root = Ok its -> items f2 g' root = Ok its' -> length its' <= length its.
Proof. exact optimize_count. Qed.
Print Assumptions C15_count.

Theorem C15_count_resolved : forall fuel g r g' f1 f2 its its',
  outs_ok g -> ins_ok_nr g -> (forall x, reach g r x -> is_ref g x = false) ->
  optimize fuel g r = Ok g' ->
  items f1 g r = Ok its -> items f2 g' r = Ok its' -> length its' <= length its.
Proof. exact optimize_count_resolved. Qed.
Print Assumptions C15_count_resolved.

Theorem C15_table_size : forall fuel g root g', optimize fuel g root = Ok g' -> length g' = length g.
Proof. exact optimize_length. Qed.
Print Assumptions C15_table_size.

Theorem C15_non_decision : forall fuel g root, is_dec g root = false -> optimize fuel g root = Ok g.
Proof. intros fuel g root H. unfold optimize. rewrite H. reflexivity. Qed.

(* non-vacuity: a chain of two do-nothing decisions between a side-effecting root and its leaves is spliced out *)
Example C15_nonvacuous :
  let g := build [NewNode (KDec false false) None; NewNode (KDec true true) None; NewNode (KDec false true) None;
                  NewNode (KLeaf true) None; NewNode (KLeaf false) None;
                  AddT 0 1; AddT 1 2; AddT 2 3; AddT 2 4] in
  exists g', optimize 20 g 0 = Ok g' /\ outs_of g' 0 = [3; 4] /\
             exec 20 g 0 [0; 1] = Ok ([0; 1; 2; 4], []) /\ exec 20 g' 0 [1] = Ok ([0; 4], []).
Proof. eexists. split; [vm_compute; reflexivity|]. repeat split; vm_compute; reflexivity. Qed.

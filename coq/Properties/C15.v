(* C15 -- Graph optimisation does not change what can be generated. *)
From Fences Require Import GraphSpec GraphOps GraphOpt.

(* For every graph (any mix of modes, sharing, cycles, chains of do-nothing decisions of any length) and
   every complete execution of the interpreter before optimize() there is one after it that applies the same
   side-effecting nodes (all nodes except NoOpDecisions) in the same order, and conversely.  No bound on the
   depth of the executions, no consistency assumption is needed. *)
Theorem C15_sem : forall fuel g root g',
  optimize fuel g root = Ok g' ->
  (forall f p tr, exec f g root p = Ok (tr, []) ->
     exists f' p' tr', exec f' g' root p' = Ok (tr', []) /\ vis (is_noop g) tr' = vis (is_noop g) tr) /\
  (forall f p tr, exec f g' root p = Ok (tr, []) ->
     exists f' p' tr', exec f' g root p' = Ok (tr', []) /\ vis (is_noop g) tr' = vis (is_noop g) tr).
Proof. exact optimize_exec. Qed.
Print Assumptions C15_sem.

(* in particular the invalid leaves applied by corresponding executions are the same *)
Theorem C15_same_invalid_leaves : forall g tr tr',
  vis (is_noop g) tr' = vis (is_noop g) tr -> invalid_leaves g tr' = invalid_leaves g tr.
Proof.
  intros g tr tr' H. rewrite <- (vis_invalid_leaves g tr'), <- (vis_invalid_leaves g tr), H. reflexivity.
Qed.
Print Assumptions C15_same_invalid_leaves.

(* the statement holds for every node of the graph, not only for the root *)
Theorem C15_sem_everywhere : forall fuel g root g',
  optimize fuel g root = Ok g' ->
  (forall x c tr, Run0 g x c tr -> exists c' tr', Run0 g' x c' tr' /\ vis (is_noop g) tr' = vis (is_noop g) tr) /\
  (forall x c tr, Run0 g' x c tr -> exists c' tr', Run0 g x c' tr' /\ vis (is_noop g) tr' = vis (is_noop g) tr).
Proof. exact optimize_sem. Qed.
Print Assumptions C15_sem_everywhere.

Theorem C15_non_decision : forall fuel g root, is_dec g root = false -> optimize fuel g root = Ok g.
Proof. intros fuel g root H. unfold optimize. rewrite H. reflexivity. Qed.

(* non-vacuity: a chain of two do-nothing decisions between a side-effecting root and its leaves is spliced out *)
Example C15_nonvacuous :
  let g := build [NewNode (KDec false false) None; NewNode (KDec true true) None; NewNode (KDec false true) None;
                  NewNode (KLeaf true) None; NewNode (KLeaf false) None;
                  AddT 0 1; AddT 1 2; AddT 2 3; AddT 2 4] in
  exists g', optimize 20 g 0 = Ok g' /\ outs_of g' 0 = [3; 4] /\
             exec 20 g 0 [0; 1] = Ok ([0; 1; 2; 4], []) /\ exec 20 g' 0 [1] = Ok ([0; 4], []).
Proof. eexists. split; [vm_compute; reflexivity|]. repeat split; vm_compute; reflexivity. Qed.

(* C01 -- JSON Schema: every sample labelled valid is accepted by the schema.
   Leaf level (proved here): the one valid value the number handler emits satisfies every assertion it read.
   The composition with the graph theorems (C03 label => only valid leaves applied) and with the
   normaliser is tied by the correspondence streams N / J and the validator oracle; see DESIGN.md. *)
From Fences Require Import Json Normalize JsonGen JsonLeaves JsonEnum JsonValid JsonLeafSem.
From Coq Require Import String List.
From Coq Require Import ZArith.
Local Open Scope Z_scope.

(* for all integral bounds (inclusive or exclusive), all positive multipleOf: if the conjunction has an integer
   solution, the value labelled valid is one (in particular for negative bounds, where the pinned code failed) *)
Theorem C01_number_leaf : forall mn emn mx emx mo,
  (forall m, mo = Some m -> 0 < m) ->
  let '(lo, hi) := number_bounds mn emn mx emx in
  num_sat lo hi mo -> num_ok lo hi mo (number_valid_value lo hi mo).
Proof.
  intros mn emn mx emx mo H. destruct (number_bounds mn emn mx emx) as [lo hi].
  exact (number_valid_ok lo hi mo H).
Qed.
Print Assumptions C01_number_leaf.

Example C01_number_leaf_nonvacuous :
  num_sat None (Some (-7)) (Some 2) /\ number_valid_value None (Some (-7)) (Some 2) = -8.
Proof.
  split; [|reflexivity]. exists (-8). split; [intros ? E; discriminate|]. split.
  - intros hi E. inversion E. lia.
  - intros m E _. inversion E. exists (-4). reflexivity.
Qed.

(* enum / const: every value that becomes a valid leaf is a member of the enum *)
Theorem C01_enum_leaf : forall ne en v, In v (enum_valid ne en) -> In v en.
Proof. exact enum_valid_member. Qed.
Print Assumptions C01_enum_leaf.

(* strings: the one string emitted satisfies both length bounds whenever parse_string accepts them *)
Theorem C01_string_leaf : forall (mn : nat) (mx : option Z),
  (match mx with Some m => Z.ltb m (Z.of_nat mn) | None => false end) = false ->
  (mn <= length (repeat 120%nat mn))%nat /\ forall m, mx = Some m -> Z.of_nat (length (repeat 120%nat mn)) <= m.
Proof. exact string_valid_ok. Qed.
Print Assumptions C01_string_leaf.

(* the same two leaves judged by the keyword semantics kvalid (the semantics of the C06 fragment theorem): whatever bound
   keywords the alternative carries -- at most one lower and one upper, as the quantifier says, a positive multipleOf, a
   conjunction that has an integer solution -- the number marked valid satisfies each of them *)
Theorem C01_number_leaf_keywords : forall d mn emn mx emx mo,
  read_num d "minimum" = Ok mn -> read_num d "exclusiveMinimum" = Ok emn ->
  read_num d "maximum" = Ok mx -> read_num d "exclusiveMaximum" = Ok emx -> read_num d "multipleOf" = Ok mo ->
  (mn = None \/ emn = None) -> (mx = None \/ emx = None) -> (forall m, mo = Some m -> 0 < m) ->
  num_sat (fst (number_bounds mn emn mx emx)) (snd (number_bounds mn emn mx emx)) mo ->
  let v := number_valid_value (fst (number_bounds mn emn mx emx)) (snd (number_bounds mn emn mx emx)) mo in
  forall k val, dget k d = Some val ->
    In k (kws ["minimum"; "maximum"; "exclusiveMinimum"; "exclusiveMaximum"]%string) -> kvalid k val (JNum v).
Proof. exact number_leaf_kvalid. Qed.
Print Assumptions C01_number_leaf_keywords.

(* ... and the string marked valid satisfies minLength and maxLength as the alternative states them *)
Theorem C01_string_leaf_keywords : forall d (mn : nat) mx,
  read_nat d "minLength" 0%nat = Ok mn -> read_num d "maxLength" = Ok mx ->
  (match mx with Some m => Z.ltb m (Z.of_nat mn) | None => false end) = false ->
  forall k val, dget k d = Some val -> In k (kws ["minLength"; "maxLength"]%string) ->
    (forall n, val = JNum n -> 0 <= n) ->
    kvalid k val (JStr (repeat 120%nat mn)).
Proof. exact string_leaf_kvalid. Qed.
Print Assumptions C01_string_leaf_keywords.

(* ... and every value the enum handler marks valid satisfies the enum keyword (members are scalars) *)
Theorem C01_enum_leaf_keywords : forall ne en v, hashable_all en = true ->
  In v (enum_valid ne en) -> kvalid (kw "enum"%string) (JArr en) v.
Proof. exact enum_leaf_kvalid. Qed.
Print Assumptions C01_enum_leaf_keywords.

(* C14 -- Graphs returned by the parsers are closed and consistently linked. *)
From Fences Require Import GraphSpec GraphLinks GraphOps GraphResolve GraphOptLinks Regex Grammar GrammarLinks RegexLinks Xml XmlLinks JsonGen JsonLinks.

(* add_transition keeps both directions in step: every graph built with the public API records
   each parent/child link on both ends with the right child index *)
Theorem C14_build : forall ops, consistent (build ops).
Proof. exact build_consistent. Qed.
Print Assumptions C14_build.

(* resolve() on any graph the API can build (sub-graphs given as [extra], references with chains, sharing,
   recursion): when it returns, the returned root is not a Reference, no Reference is reachable from it, every
   child link is still recorded on the child's side, and every record of a node that is not a Reference is
   truthful (only the replaced Reference nodes keep a stale record, and they are unreachable) *)
Theorem C14_resolve : forall ops fuel root extra g' r,
  resolve fuel (build ops) root extra = Ok (g', r) ->
  outs_ok g' /\ ins_ok_nr g' /\
  is_ref g' r = false /\ (forall x, reach g' r x -> is_ref g' x = false).
Proof.
  intros ops fuel root extra g' r H.
  destruct (build_consistent ops) as [IO OO].
  destruct (resolve_spec fuel (build ops) root extra g' r H OO (ins_ok_nr_of_ins_ok _ IO) (build_outs_dec ops))
    as (A & B & _ & C & D).
  auto.
Qed.
Print Assumptions C14_resolve.

(* the same for any table that satisfies the link invariants (e.g. one that was resolved before) *)
Theorem C14_resolve_general : forall fuel g root extra g' r,
  resolve fuel g root extra = Ok (g', r) ->
  outs_ok g -> ins_ok_nr g -> outs_dec g ->
  outs_ok g' /\ ins_ok_nr g' /\ same_nodes g g' /\
  is_ref g' r = false /\ (forall x, reach g' r x -> is_ref g' x = false).
Proof. exact resolve_spec. Qed.
Print Assumptions C14_resolve_general.

(* an unknown name is reported with the documented exception *)
Theorem C14_unknown_name : forall f g t n name,
  kind_of g n = KRef name -> tbl_find (Some name) t = None -> deref (S f) g t n = LibErr EResolveReference.
Proof. intros f g t n name K F. simpl. rewrite K, F. reflexivity. Qed.
Print Assumptions C14_unknown_name.

(* a truthy id that is already bound is reported with the documented exception *)
Theorem C14_duplicate_id : forall g t n c cs m,
  nid (getn g n) = Some (c :: cs) -> tbl_find (Some (c :: cs)) t = Some m ->
  tbl_insert g t n = LibErr EResolveReference.
Proof. intros g t n c cs m I F. unfold tbl_insert. rewrite I, F. reflexivity. Qed.
Print Assumptions C14_duplicate_id.

Example C14_nonvacuous :
  let ops := [NewNode (KDec false false) None; NewNode (KRef [7]) None; NewNode (KDec true true) (Some [7]);
              NewNode (KLeaf true) None; NewNode (KRef [7]) None;
              AddT 0 1; AddT 2 3; AddT 2 4] in
  exists g', resolve 20 (build ops) 0 [2] = Ok (g', 0) /\ outs_of g' 0 = [2] /\ outs_of g' 2 = [3; 2].
Proof. eexists. split; [vm_compute; reflexivity|split; reflexivity]. Qed.

(* optimize() after resolve(): no Reference becomes reachable, every reachable node stays linked on both ends
   (the front ends call resolve() and then optimize()) *)
Theorem C14_resolve_then_optimize : forall fuel g r g',
  outs_ok g -> ins_ok_nr g -> (forall x, reach g r x -> is_ref g x = false) ->
  optimize fuel g r = Ok g' ->
  forall x, reach g' r x -> LC g' x /\ is_ref g' x = false.
Proof.
  intros fuel g r g' OO IN NR H x R. split.
  - exact (optimize_links_resolved fuel g r g' OO IN NR H x R).
  - exact (optimize_closed_resolved fuel g r g' OO IN NR H x R).
Qed.
Print Assumptions C14_resolve_then_optimize.

(* The grammar front end, for every grammar and start symbol: at every node reachable from the root of the graph that
   the model of convert() returns, every incoming record names a decision whose transition of that index leads to the
   node, every outgoing transition is recorded at its target with the right index (the two checks of
   fences.core.debug.check_consistency), and the node is not a Reference. *)
Theorem C14_grammar_output : forall fuel G start st r,
  parse_grammar fuel G start = Ok (st, r) ->
  forall x, reach (b_graph st) r x ->
    ((forall s i, In (s, i) (ins_of (b_graph st) x) -> is_dec (b_graph st) s = true /\ nth_error (outs_of (b_graph st) s) i = Some x) /\
     (forall i t, nth_error (outs_of (b_graph st) x) i = Some t -> In (x, i) (ins_of (b_graph st) t))) /\
    is_ref (b_graph st) x = false.
Proof. exact parse_grammar_links. Qed.
Print Assumptions C14_grammar_output.

(* The regex front end, for every expression of the dialect: the converters build a table that is linked on both ends
   throughout; after optimize() and the input / super-root / output nodes every node reachable from the root of the
   graph parse_regex returns passes both checks of check_consistency. *)
Theorem C14_regex_output : forall fuel r st root,
  parse_regex fuel r = Ok (st, root) ->
  forall x, reach (b_graph st) root x ->
    (forall s i, In (s, i) (ins_of (b_graph st) x) -> is_dec (b_graph st) s = true /\ nth_error (outs_of (b_graph st) s) i = Some x) /\
    (forall i t, nth_error (outs_of (b_graph st) x) i = Some t -> In (x, i) (ins_of (b_graph st) t)).
Proof. exact parse_regex_links. Qed.
Print Assumptions C14_regex_output.

(* The XSD front end, for every element tree and every sequence of numbers drawn at parse time: the handlers build a
   table that is linked on both ends throughout; after resolve(), optimize() and the start / output nodes every node
   reachable from the root of the graph parse_xml_schema returns passes both checks of check_consistency and is not a
   Reference (every named type was resolved, or resolve() raised its documented exception). *)
Theorem C14_xsd_output : forall fuel schema draws st root,
  parse_xsd fuel schema draws = Ok (st, root) ->
  forall x, reach (x_graph st) root x ->
    ((forall s i, In (s, i) (ins_of (x_graph st) x) -> is_dec (x_graph st) s = true /\ nth_error (outs_of (x_graph st) s) i = Some x) /\
     (forall i t, nth_error (outs_of (x_graph st) x) i = Some t -> In (x, i) (ins_of (x_graph st) t))) /\
    is_ref (x_graph st) x = false.
Proof. exact parse_xsd_links. Qed.
Print Assumptions C14_xsd_output.

(* The JSON Schema front end, for every schema: the generator builds from the normal form a table that is linked on both
   ends throughout; after resolve(), optimize() and the input / super-root / output nodes every node reachable from the
   root of the graph parse_json_schema returns passes both checks of check_consistency and is not a Reference (every
   "$ref" of the normal form was resolved, or resolve() raised its documented exception). *)
Theorem C14_json_output : forall SV fuel schema st root,
  parse_json_schema SV fuel schema = Ok (st, root) ->
  forall x, reach (jb_graph st) root x ->
    ((forall s i, In (s, i) (ins_of (jb_graph st) x) -> is_dec (jb_graph st) s = true /\ nth_error (outs_of (jb_graph st) s) i = Some x) /\
     (forall i t, nth_error (outs_of (jb_graph st) x) i = Some t -> In (x, i) (ins_of (jb_graph st) t))) /\
    is_ref (jb_graph st) x = false.
Proof. exact parse_json_schema_links. Qed.
Print Assumptions C14_json_output.

(* the same for a normal form given directly (config.normalize = False, as the OpenAPI sample cache calls it) *)
Theorem C14_json_nf_output : forall fuel nf st root,
  parse_nf fuel nf = Ok (st, root) ->
  forall x, reach (jb_graph st) root x ->
    ((forall s i, In (s, i) (ins_of (jb_graph st) x) -> is_dec (jb_graph st) s = true /\ nth_error (outs_of (jb_graph st) s) i = Some x) /\
     (forall i t, nth_error (outs_of (jb_graph st) x) i = Some t -> In (x, i) (ins_of (jb_graph st) t))) /\
    is_ref (jb_graph st) x = false.
Proof. exact parse_nf_links. Qed.
Print Assumptions C14_json_nf_output.

(* C14 -- Graphs returned by the parsers are closed and consistently linked. *)
From Fences Require Import GraphSpec GraphLinks.

(* add_transition keeps both directions in step: every graph built with the public API records
   each parent/child link on both ends with the right child index *)
Theorem C14_build : forall ops, consistent (build ops).
Proof. exact build_consistent. Qed.
Print Assumptions C14_build.

(* C11 -- Generation terminates on recursive schemas and grammars: the core (core/node.py). *)
From Fences Require Import GraphSpec GraphLinks GraphExec GraphAnalysis GraphTheorems GraphCheck GraphTerm GraphWalk.

(* the work-list loop of generate_paths ends after at most |leaves| rounds, whatever the graph *)
Theorem C11_loop_rounds : forall V g fuel lv lr k tv, length tv <= k ->
  gp_loop V k fuel g lv lr tv = gp_loop V (length tv) fuel g lv lr tv.
Proof. exact gp_loop_counter. Qed.
Print Assumptions C11_loop_rounds.

(* each round removes at least its own target: no more entries than leaves in the work list *)
Theorem C11_entries_bounded : forall V g root fuel lv lr k tv es st,
  wf g root ->
  (forall x, In x tv -> reach g root x /\ is_leaf g x = true) ->
  gp_loop V k fuel g lv lr tv = (es, st) -> length es <= length tv.
Proof.
  intros V g root fuel lv lr k tv es st W H G.
  destruct (gp_loop_spec V g root W fuel lv lr k tv es st H G) as (_ & _ & _ & L). exact L.
Qed.
Print Assumptions C11_entries_bounded.

(* Enumeration terminates on every well-formed graph with cycles in which every decision can reach a completion
   made of valid leaves only: there is a recursion budget F from which on generate_paths() ends normally
   (OutOfFuel is the model's RecursionError; no Python or library exception either), with the same entries for
   every budget >= F.  Needs the repaired _analyze_forwards (fix_af); on the pinned code the statement is false,
   see C04_no_error_refuted_pinned. *)
Theorem C11_core_productive : forall V g root lr0 lv0,
  wf g root -> (forall n, is_dec g n = true -> VC g n) ->
  fix_af V = true -> (fix_reset V = true \/ (blank g lr0 /\ blank g lv0)) ->
  exists F a es, forall fuel, F <= fuel ->
    generate_paths V fuel g root lr0 lv0 = Ok (a, (es, Ok tt)).
Proof. exact generate_paths_terminates. Qed.
Print Assumptions C11_core_productive.

(* ... and on every acyclic well-formed graph, productive or not *)
Theorem C11_core_acyclic : forall V g root lr0 lv0,
  wf g root -> acyclic g ->
  fix_af V = true -> (fix_reset V = true \/ (blank g lr0 /\ blank g lv0)) ->
  exists F a es, forall fuel, F <= fuel ->
    generate_paths V fuel g root lr0 lv0 = Ok (a, (es, Ok tt)).
Proof. exact generate_paths_terminates_acyclic. Qed.
Print Assumptions C11_core_acyclic.

(* the analysis phase has an explicit budget: nodes + transition records, whatever the graph *)
Theorem C11_analysis_budget : forall V g root,
  consistent g -> nonempty_decs g -> fix_af V = true -> root < length g ->
  forall fuel lr0 lv0, S (length g + length (recs_in g) + length (recs_out g)) <= fuel ->
    exists a, analyse V fuel g root lr0 lv0 = Ok a.
Proof. exact analyse_terminates. Qed.
Print Assumptions C11_analysis_budget.

(* every path is finite and executing it returns: each entry runs to the end within the same budget *)
Theorem C11_paths_execute : forall V g root lr0 lv0,
  wf g root -> ((forall n, is_dec g n = true -> VC g n) \/ acyclic g) ->
  fix_af V = true -> (fix_reset V = true \/ (blank g lr0 /\ blank g lv0)) ->
  exists F a es, forall fuel, F <= fuel ->
    generate_paths V fuel g root lr0 lv0 = Ok (a, (es, Ok tt)) /\
    forall e, In e es -> exists tr, exec fuel g root (epath e) = Ok (tr, []) /\ In (etarget e) tr.
Proof.
  intros V g root lr0 lv0 W HP FA HB.
  assert (T : exists F a es, forall fuel, F <= fuel -> generate_paths V fuel g root lr0 lv0 = Ok (a, (es, Ok tt))).
  { destruct HP as [HP|HP]; [apply generate_paths_terminates|apply generate_paths_terminates_acyclic]; auto. }
  destruct T as (F & a & es & HT). exists F, a, es. intros fuel Lf. split; [auto|].
  intros e He.
  assert (HB' : fix_reset V = true \/ forall s i, s < length g -> lv0 s i = None) by (destruct HB as [HB|[_ HB]]; auto).
  destruct (paths_exact V g root W fuel lr0 lv0 a es (Ok tt) HB' (HT fuel Lf) e He) as (tr & X & I & _).
  eauto.
Qed.
Print Assumptions C11_paths_execute.

(* the hypotheses are decided by the boolean checkers the harness runs on every generated graph *)
Theorem C11_checkers : forall g root,
  (wfb g root = true -> wf g root) /\
  (productiveb g = true -> forall n, is_dec g n = true -> VC g n) /\
  (acyclicb g = true -> acyclic g).
Proof. intros g root. split; [apply wfb_wf|split; [apply productiveb_sound|apply acyclicb_sound]]. Qed.
Print Assumptions C11_checkers.

(* non-vacuity: a productive cyclic graph (the witness of C04_no_error_refuted_pinned) *)
Definition c11_witness : list op :=
  [NewNode (KDec false false) None; NewNode (KDec false false) None; NewNode (KDec false false) None;
   NewNode (KDec false false) None; NewNode (KLeaf true) None;
   AddT 0 1; AddT 3 2; AddT 1 2; AddT 2 3; AddT 2 4].
Example C11_nonvacuous :
  wf (build c11_witness) 0 /\ (forall n, is_dec (build c11_witness) n = true -> VC (build c11_witness) n) /\
  acyclicb (build c11_witness) = false.
Proof.
  split; [apply wfb_wf; vm_compute; reflexivity|]. split; [apply productiveb_sound; vm_compute; reflexivity|].
  vm_compute. reflexivity.
Qed.

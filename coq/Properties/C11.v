(* C11 -- Generation terminates on recursive schemas and grammars. (core theorem with an explicit
   fuel bound is in progress; this file holds the termination facts proved so far) *)
From Fences Require Import GraphSpec GraphLinks GraphExec GraphTerm.

(* the work-list loop of generate_paths ends after at most |leaves| rounds, whatever the graph *)
Theorem C11_loop_rounds : forall V g fuel lv lr k tv, length tv <= k ->
  gp_loop V k fuel g lv lr tv = gp_loop V (length tv) fuel g lv lr tv.
Proof. exact gp_loop_counter. Qed.
Print Assumptions C11_loop_rounds.

(* each round removes at least its own target: no more entries than leaves in the work list *)
Theorem C11_entries_bounded : forall V g root fuel lv lr k tv es st,
  wf g root ->
  (forall x, In x tv -> reach g root x /\ is_leaf g x = true) ->
  gp_loop V k fuel g lv lr tv = (es, st) -> length es <= length tv.
Proof.
  intros V g root fuel lv lr k tv es st W H G.
  destruct (gp_loop_spec V g root W fuel lv lr k tv es st H G) as (_ & _ & _ & L). exact L.
Qed.
Print Assumptions C11_entries_bounded.

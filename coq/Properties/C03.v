(* C03 -- Decision graph: a path's label agrees with the leaves it applies.
   Only statements closed by [exact]; proofs live in GraphTheorems.v. *)
From Fences Require Import GraphSpec GraphLinks GraphExec GraphAnalysis GraphTheorems GraphCheck.

(* Full statement, for the code after the fix commits (variant V_fixed), whatever annotations
   earlier generate_paths() calls left behind (lr0, lv0), for every consistently
   linked graph -- in particular for every graph the public API can build (C03_label_built). *)
Theorem C03_label : forall g root fuel lr0 lv0 a es st e,
  wf g root ->
  generate_paths V_fixed fuel g root lr0 lv0 = Ok (a, (es, st)) -> In e es ->
  exists tr, exec fuel g root (epath e) = Ok (tr, []) /\
             (evalid e = true <-> invalid_leaves g tr = []).
Proof.
  intros g root fuel lr0 lv0 a es st e W GP.
  exact (label_agrees V_fixed g root W fuel lr0 lv0 a es st (or_introl eq_refl) GP eq_refl e).
Qed.
Print Assumptions C03_label.

Theorem C03_one_fault : forall g root fuel lr0 lv0 a es st e,
  wf g root ->
  generate_paths V_fixed fuel g root lr0 lv0 = Ok (a, (es, st)) -> In e es ->
  exists tr bp l, exec fuel g root (epath e) = Ok (tr, []) /\
    spine g root bp l (etarget e) /\
    (sibs_VC g root bp -> forall x, In x (invalid_leaves g tr) -> x = etarget e).
Proof.
  intros g root fuel lr0 lv0 a es st e W GP.
  exact (one_fault V_fixed g root W fuel lr0 lv0 a es st (or_introl eq_refl) GP e).
Qed.
Print Assumptions C03_one_fault.

(* every graph built with the public API is consistently linked, so for built graphs the
   well-formedness premise reduces to what the quantifier of C03 says *)
Theorem C03_label_built : forall ops root fuel lr0 lv0 a es st e,
  let g := build ops in
  norefs g -> nonempty_decs g -> (forall n, n < length g -> reach g root n) ->
  root < length g -> ins_of g root = [] ->
  generate_paths V_fixed fuel g root lr0 lv0 = Ok (a, (es, st)) -> In e es ->
  exists tr, exec fuel g root (epath e) = Ok (tr, []) /\
             (evalid e = true <-> invalid_leaves g tr = []).
Proof.
  intros ops root fuel lr0 lv0 a es st e g NR NE RE RI R0 GP.
  exact (label_agrees V_fixed g root (mkWf g root (build_consistent ops) NR NE RE RI R0)
                      fuel lr0 lv0 a es st (or_introl eq_refl) GP eq_refl e).
Qed.
Print Assumptions C03_label_built.

(* The pinned code (variant V_pinned: _generate answers True for every leaf) violates the
   statement: a do-all root over an invalid and a valid leaf yields one path, labelled valid,
   that applies the invalid leaf.  Replayed on the implementation by the check. *)
Definition c03_witness : list op :=
  [NewNode (KDec true false) None; NewNode (KLeaf false) None; NewNode (KLeaf true) None;
   AddT 0 1; AddT 0 2].

Theorem C03_label_refuted_pinned :
  exists g root fuel es st e tr,
    wf g root /\ gp_entries V_pinned fuel g root = Some (es, st) /\ In e es /\
    exec fuel g root (epath e) = Ok (tr, []) /\ evalid e = true /\ invalid_leaves g tr <> [].
Proof.
  exists (build c03_witness), 0, 10, [mkEntry 2 [] true], (Ok tt),
         (mkEntry 2 [] true), [0; 1; 2].
  split; [apply wfb_wf; vm_compute; reflexivity|].
  split; [vm_compute; reflexivity|].
  split; [left; reflexivity|].
  split; [vm_compute; reflexivity|]. split; [reflexivity|]. vm_compute. discriminate.
Qed.
Print Assumptions C03_label_refuted_pinned.

(* non-vacuity: a shared, cyclic, mixed graph meets every premise and yields entries *)
Definition c03_example : list op :=
  [NewNode (KDec false false) None; NewNode (KDec true false) None; NewNode (KLeaf true) None;
   NewNode (KLeaf false) None; NewNode (KDec false true) None;
   AddT 0 1; AddT 1 2; AddT 1 4; AddT 4 3; AddT 4 2; AddT 4 1; AddT 0 2; AddT 1 2].

Example C03_nonvacuous :
  wf (build c03_example) 0 /\
  exists es, gp_entries V_fixed 50 (build c03_example) 0 = Some (es, Ok tt) /\ length es = 2.
Proof.
  split; [apply wfb_wf; vm_compute; reflexivity|].
  eexists. split; [vm_compute; reflexivity|reflexivity].
Qed.

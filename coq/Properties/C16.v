(* C16 -- JSON Schema normalisation. (theorems are added as they are closed; model in Normalize.v) *)
From Fences Require Import Normalize.

(* boolean schemas have the two constant normal forms *)
Theorem C16_bool : forall SV cfg fuel b,
  normalize SV cfg fuel (JBool b) = Ok (if b then NORM_TRUE else NORM_FALSE).
Proof. intros SV cfg fuel []; reflexivity. Qed.
Print Assumptions C16_bool.

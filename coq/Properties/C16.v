(* C16 -- JSON Schema normalisation: the result is in normal form. *)
From Fences Require Import Normalize NormShape NormRef NormDnf NormNF.
From Coq Require Import String.
Local Open Scope list_scope.
Local Open Scope string_scope.

(* Whenever normalize() returns -- for every input, both merge options, with and without duplicate detection, any
   recursion budget -- the result is one of the two constant forms of the boolean schemas or a document
     { "anyOf": [alternative ...], "$defs": { "0": nf, "1": nf, ... } [, "$schema": ...] }
   in which every alternative is either a single reference {"$ref": "#/$defs/<i>"} with i < number of entries of
   $defs, or a keyword set that contains no combinator (anyOf, allOf, oneOf, not, if, then, else, const) and no
   "$ref", whose sub-schemas under additionalProperties / items / additionalItems / contains, under every name of
   properties and at every position of prefixItems are again of that form, nested to any depth; every entry of
   $defs is of that form as well.  ([nf k] is "normal form with references below k".) *)
Theorem C16_normal_form : forall SV cfg fuel schema j,
  normalize SV cfg fuel schema = Ok j -> j = NORM_TRUE \/ j = NORM_FALSE \/ nf_doc j.
Proof. exact normalize_nf. Qed.
Print Assumptions C16_normal_form.

(* one level: _to_dnf of a schema whose references were inlined yields combinator-free, reference-free alternatives *)
Theorem C16_to_dnf : forall SV cfg fuel s j, RF s -> to_dnf SV cfg fuel s = Ok j -> dnf j.
Proof. exact to_dnf_dnf. Qed.
Print Assumptions C16_to_dnf.

(* _inline_refs leaves no "$ref" at any place _to_dnf descends into *)
Theorem C16_inline_refs : forall f root s s' c, inline_refs f root s = Ok (s', c) -> RF s'.
Proof. exact inline_refs_RF. Qed.
Print Assumptions C16_inline_refs.

(* boolean schemas have the two constant normal forms *)
Theorem C16_bool : forall SV cfg fuel b,
  normalize SV cfg fuel (JBool b) = Ok (if b then NORM_TRUE else NORM_FALSE).
Proof. intros SV cfg fuel []; reflexivity. Qed.
Print Assumptions C16_bool.

(* non-vacuity: a recursive list schema is normalised into a document with one definition *)
Example C16_nonvacuous :
  exists j, normalize (mkSV true) (mkNConfig true default_discard false) 60
              (JObj [(kw "type", jstr "object");
                     (kw "properties", JObj [(kw "next", JObj [(kw "$ref", JStr (kw "#"))])])]) = Ok j /\ nf_doc j.
Proof.
  destruct (normalize (mkSV true) (mkNConfig true default_discard false) 60 _) as [j| | |] eqn:E; try (vm_compute in E; discriminate).
  exists j. split; auto. destruct (normalize_nf _ _ _ _ _ E) as [X|[X|X]]; auto; subst j; vm_compute in E; discriminate.
Qed.

(* C02 -- JSON Schema: every sample labelled invalid is rejected by the schema.
   Leaf level (proved here): each number labelled invalid lies just outside the bound it was built from. *)
From Fences Require Import JsonGen JsonLeaves JsonEnum.
From Coq Require Import ZArith.
Local Open Scope Z_scope.

Theorem C02_number_leaf : forall mn mx v,
  In v (number_invalid_values mn mx) ->
  (exists lo, mn = Some lo /\ v = lo - 1) \/ (exists hi, mx = Some hi /\ v = hi + 1).
Proof. exact number_invalid_violates. Qed.
Print Assumptions C02_number_leaf.

Corollary C02_number_leaf_rejected : forall mn mx mo v,
  In v (number_invalid_values mn mx) -> ~ num_ok mn mx mo v.
Proof.
  intros mn mx mo v H (A & B & _).
  destruct (number_invalid_violates mn mx v H) as [(lo & E & ->)|(hi & E & ->)].
  - specialize (A lo E). lia.
  - specialize (B hi E). lia.
Qed.
Print Assumptions C02_number_leaf_rejected.

(* enum / const: no value that becomes an invalid leaf -- the members of NOT_enum outside the enum and the filler
   string of '#' characters -- is (Python-)equal to a member of the enum; in particular the filler is longer than
   every string of the enum *)
Theorem C02_enum_leaf : forall ne en x,
  hashable_all ne = true -> hashable_all en = true ->
  In x (enum_invalid' ne en) -> pmem x en = false.
Proof. exact enum_invalid_not_member. Qed.
Print Assumptions C02_enum_leaf.

(* C02 -- JSON Schema: every sample labelled invalid is rejected by the schema.
   Leaf level (proved here): each number labelled invalid lies just outside the bound it was built from. *)
From Fences Require Import JsonGen JsonLeaves JsonEnum Json Normalize JsonValid JsonLeafSem.
From Coq Require Import ZArith String.
Local Open Scope Z_scope.

Theorem C02_number_leaf : forall mn mx v,
  In v (number_invalid_values mn mx) ->
  (exists lo, mn = Some lo /\ v = lo - 1) \/ (exists hi, mx = Some hi /\ v = hi + 1).
Proof. exact number_invalid_violates. Qed.
Print Assumptions C02_number_leaf.

Corollary C02_number_leaf_rejected : forall mn mx mo v,
  In v (number_invalid_values mn mx) -> ~ num_ok mn mx mo v.
Proof.
  intros mn mx mo v H (A & B & _).
  destruct (number_invalid_violates mn mx v H) as [(lo & E & ->)|(hi & E & ->)].
  - specialize (A lo E). lia.
  - specialize (B hi E). lia.
Qed.
Print Assumptions C02_number_leaf_rejected.

(* enum / const: no value that becomes an invalid leaf -- the members of NOT_enum outside the enum and the filler
   string of '#' characters -- is (Python-)equal to a member of the enum; in particular the filler is longer than
   every string of the enum *)
Theorem C02_enum_leaf : forall ne en x,
  hashable_all ne = true -> hashable_all en = true ->
  In x (enum_invalid' ne en) -> pmem x en = false.
Proof. exact enum_invalid_not_member. Qed.
Print Assumptions C02_enum_leaf.

(* the same counter-examples judged by the keyword semantics kvalid: each bound keyword of the alternative is violated by
   one of the numbers the handler marks invalid (minimum m by m - 1, exclusiveMinimum e by e, and symmetrically) *)
Theorem C02_number_leaf_keywords : forall mn emn mx emx,
  let lo := fst (number_bounds mn emn mx emx) in
  let hi := snd (number_bounds mn emn mx emx) in
  (forall m, mn = Some m -> emn = None ->
     In (m - 1) (number_invalid_values lo hi) /\ ~ kvalid (kw "minimum"%string) (JNum m) (JNum (m - 1))) /\
  (forall e, emn = Some e ->
     In e (number_invalid_values lo hi) /\ ~ kvalid (kw "exclusiveMinimum"%string) (JNum e) (JNum e)) /\
  (forall m, mx = Some m -> emx = None ->
     In (m + 1) (number_invalid_values lo hi) /\ ~ kvalid (kw "maximum"%string) (JNum m) (JNum (m + 1))) /\
  (forall e, emx = Some e ->
     In e (number_invalid_values lo hi) /\ ~ kvalid (kw "exclusiveMaximum"%string) (JNum e) (JNum e)).
Proof. exact number_invalid_kvalid. Qed.
Print Assumptions C02_number_leaf_keywords.

(* C02 -- JSON Schema samples. (theorems are added as they are closed; models in JsonGen.v / Normalize.v) *)
From Fences Require Import JsonGen.

(* the null handler emits exactly one valid leaf carrying null *)
Theorem C02_null_leaf : forall p st, exists st' root, parse_null p st = Ok (st', root).
Proof. intros p st. unfold parse_null. repeat (destruct (jnoop _ _ _) || destruct (jleaf _ _ _)). eauto. Qed.
Print Assumptions C02_null_leaf.

(* C06 -- JSON Schema normalisation preserves acceptance.
   End-to-end theorems (C06_fragment, C06_fragment_default, C06_fragment_exec): for every schema of the propositional-scalar fragment -- type, enum, const,
   the numeric / length / item-count bounds, the normaliser's negated enum, combined by allOf, anyOf, oneOf, not and
   if / then / else to any depth -- the any-of list that the model of normalize() returns is satisfied by exactly the
   instances the schema accepts.  Outside the fragment (properties, items, $ref, multipleOf, "integer") the statement is decided by the validator
   oracle and the model/implementation correspondence; the keyword-level laws below cover the places where defects were
   found and repaired. *)
From Fences Require Import Normalize NormShape JsonValid JsonFragB JsonSem JsonSemAlts JsonSemDnf JsonSemNorm JsonSemTop JsonSemBool.
From Coq Require Import String ZArith.
Local Open Scope list_scope.

(* negation, keyword by keyword: an instance satisfies what the inverter returns exactly when it violates the keyword.
   Bounds (an excluded bound becomes the opposite inclusive one on numbers) ... *)
Theorem C06_invert_bounds : forall m x,
  (alt_valid [(kw "type", JArr [jstr "number"]); (kw "exclusiveMaximum", JNum m)] x <-> ~ kvalid (kw "minimum") (JNum m) x) /\
  (alt_valid [(kw "type", JArr [jstr "number"]); (kw "exclusiveMinimum", JNum m)] x <-> ~ kvalid (kw "maximum") (JNum m) x) /\
  (alt_valid [(kw "type", JArr [jstr "number"]); (kw "maximum", JNum m)] x <-> ~ kvalid (kw "exclusiveMinimum") (JNum m) x) /\
  (alt_valid [(kw "type", JArr [jstr "number"]); (kw "minimum", JNum m)] x <-> ~ kvalid (kw "exclusiveMaximum") (JNum m) x).
Proof.
  intros m x. split; [apply invert_minimum|]. split; [apply invert_maximum|]. split; [apply invert_exclusive_minimum|apply invert_exclusive_maximum].
Qed.
Print Assumptions C06_invert_bounds.

(* ... string lengths and item counts (the pinned code was off by one here: not(minLength n) was maxLength n) ... *)
Theorem C06_invert_lengths : forall n x,
  ((0 < n)%Z -> (alt_valid [(kw "type", JArr [jstr "string"]); (kw "maxLength", JNum (n - 1))] x <-> ~ kvalid (kw "minLength") (JNum n) x)) /\
  ((n <= 0)%Z -> (alt_valid [(kw "enum", JArr [])] x <-> ~ kvalid (kw "minLength") (JNum n) x)) /\
  (alt_valid [(kw "type", JArr [jstr "string"]); (kw "minLength", JNum (n + 1))] x <-> ~ kvalid (kw "maxLength") (JNum n) x) /\
  ((0 < n)%Z -> (alt_valid [(kw "type", jstr "array"); (kw "maxItems", JNum (n - 1))] x <-> ~ kvalid (kw "minItems") (JNum n) x)) /\
  (alt_valid [(kw "type", jstr "array"); (kw "minItems", JNum (n + 1))] x <-> ~ kvalid (kw "maxItems") (JNum n) x).
Proof.
  intros n x. split; [apply invert_min_length|]. split; [apply invert_min_length_0|]. split; [apply invert_max_length|].
  split; [apply invert_min_items|apply invert_max_items].
Qed.
Print Assumptions C06_invert_lengths.

(* ... enum and type (a type given as one string: the pinned code removed its letters) *)
Theorem C06_invert_enum_type : forall l v x,
  (alt_valid [(kw "NOT_enum", JArr l)] x <-> ~ kvalid (kw "enum") (JArr l) x) /\
  (alt_valid [(kw "enum", JArr l)] x <-> ~ kvalid (kw "NOT_enum") (JArr l) x) /\
  (alt_valid [(kw "type", JArr (pdiff ALL_TYPES (to_list v)))] x <-> ~ kvalid (kw "type") v x).
Proof. intros l v x. split; [apply invert_enum|]. split; [apply invert_not_enum|apply invert_type]. Qed.
Print Assumptions C06_invert_enum_type.

(* these keyword sets are what the model of _invert produces *)
Theorem C06_invert_kw_is : forall m l v,
  invert_kw (kw "minimum") (JNum m) = Ok (JObj [(kw "type", JArr [jstr "number"]); (kw "exclusiveMaximum", JNum m)]) /\
  invert_kw (kw "maxLength") (JNum m) = Ok (JObj [(kw "type", JArr [jstr "string"]); (kw "minLength", JNum (m + 1))]) /\
  invert_kw (kw "minItems") (JNum m) =
    (if Z.ltb 0 m then Ok (JObj [(kw "type", jstr "array"); (kw "maxItems", JNum (m - 1))]) else Ok (JObj [(kw "enum", JArr [])])) /\
  invert_kw (kw "enum") (JArr l) = Ok (JObj [(kw "NOT_enum", JArr l)]) /\
  invert_kw (kw "type") v = Ok (JObj [(kw "type", JArr (pdiff ALL_TYPES (to_list v)))]).
Proof. intros m l v. repeat split; reflexivity. Qed.
Print Assumptions C06_invert_kw_is.

(* conjunction: what _merge makes of two keyword sets without properties / prefixItems, key by key ... *)
Theorem C06_merge_keys : forall a b r, simple a -> simple b -> NoDup (map fst a) -> merge2 a b = Ok r ->
  forall k, dget k r =
    match dget k a, dget k b with
    | Some va, Some vb => match simple_merge k va vb with Some (Ok v) => Some v | _ => Some va end
    | Some va, None => Some va
    | None, vb => vb
    end.
Proof. exact merge2_get. Qed.
Print Assumptions C06_merge_keys.

(* ... and for sets of bounds the merged set is satisfied exactly by the instances that satisfy both *)
Theorem C06_merge_bounds : forall a b r x, bounds_only a -> bounds_only b -> NoDup (map fst a) ->
  merge2 a b = Ok r -> (dvalid r x <-> dvalid a x /\ dvalid b x).
Proof. exact merge2_bounds. Qed.
Print Assumptions C06_merge_bounds.

(* boolean schemas have the two constant normal forms *)
Theorem C06_bool : forall SV cfg fuel b,
  normalize SV cfg fuel (JBool b) = Ok (if b then NORM_TRUE else NORM_FALSE).
Proof. intros SV cfg fuel []; reflexivity. Qed.
Print Assumptions C06_bool.

(* ---------- the fragment, end to end ---------- *)
(* one alternative: _merge of two keyword sets of the fragment (unique keys, well-typed values) is again such a set and is
   satisfied exactly by the instances satisfying both; a key without merger on both sides makes _merge fail *)
Theorem C06_merge_alternatives : forall a b r, galt a -> scalar_alt b -> merge2 a b = Ok r ->
  galt r /\ forall x, (dvalid r x <-> dvalid a x /\ dvalid b x).
Proof. exact merge2_scalar. Qed.
Print Assumptions C06_merge_alternatives.

(* _invert of one alternative: an any-of list satisfied exactly by the instances violating the alternative *)
Theorem C06_invert_alternative : forall d, galt d ->
  exists l', invert1 (JObj d) = Ok (dnf_of l') /\ Forall galt l' /\ forall x, alts_valid l' x <-> ~ dvalid d x.
Proof. exact invert1_sem. Qed.
Print Assumptions C06_invert_alternative.

(* merge (full) multiplies any-of lists out: conjunction; invert: negation *)
Theorem C06_merge_full : forall ls n, Forall (Forall galt) ls -> merge_full_ (map dnf_of ls) = Ok n ->
  exists l, n = dnf_of l /\ Forall galt l /\ forall x, alts_valid l x <-> Forall (fun l' => alts_valid l' x) ls.
Proof. exact merge_full_sem. Qed.
Print Assumptions C06_merge_full.

Theorem C06_invert : forall cfg l n, full_merge cfg = true -> Forall galt l -> invert cfg (dnf_of l) = Ok n ->
  exists l', n = dnf_of l' /\ Forall galt l' /\ forall x, alts_valid l' x <-> ~ alts_valid l x.
Proof. exact invert_sem. Qed.
Print Assumptions C06_invert.

(* _to_dnf, for every recursion budget f and nesting depth m (the repaired handling of a lone `if`) *)
Theorem C06_to_dnf_fragment : forall SV cfg, fix_lone_if SV = true -> full_merge cfg = true ->
  (forall k, In k (SK ++ CK) -> smem k (discard_fields cfg) = false) ->
  forall f m s n, frag m s -> to_dnf SV cfg f s = Ok n ->
  exists l, n = dnf_of l /\ Forall galt l /\ forall x, alts_valid l x <-> sem m x s.
Proof. intros SV cfg FL FM DF f m s n Fs. exact (to_dnf_sem SV cfg FL FM DF f m s Fs n). Qed.
Print Assumptions C06_to_dnf_fragment.

(* the three rewritings in front of the combinators, each an equivalence of dicts of the fragment: const folded into
   enum, the conditional turned into allOf / anyOf / not (decidability of acceptance is what makes this an
   equivalence), the type list respelled *)
Theorem C06_simplifications : forall SV m d, frag (S m) (JObj d) -> fix_lone_if SV = true ->
  (exists dc, simplify_const d = Ok dc /\ equiv m d m dc) /\
  (exists m', equiv m d m' (simplify_ite SV d)) /\
  (exists d3, simplify_type d = Ok d3 /\ equiv m d m d3).
Proof.
  intros SV m d F FL. split; [|split].
  - destruct (const_equiv m d F) as (dc & E & _ & Q & _). eauto.
  - destruct (ite_equiv SV m d F FL) as (m' & Q & _). eauto.
  - destruct (type_equiv m d F) as (d3 & E & Q & _). eauto.
Qed.
Print Assumptions C06_simplifications.

(* normalize(): full merge, no duplicate detection, no keyword of the fragment among the discarded ones *)
Theorem C06_fragment : forall SV cfg, fix_lone_if SV = true -> full_merge cfg = true -> detect_dup cfg = false ->
  (forall k, In k (SK ++ CK) -> smem k (discard_fields cfg) = false) ->
  forall fuel m d n, frag m (JObj d) -> normalize SV cfg fuel (JObj d) = Ok n ->
  exists L, any_of n = Ok (map JObj L) /\ Forall galt L /\ forall x, alts_valid L x <-> sem m x (JObj d).
Proof. exact normalize_fragment. Qed.
Print Assumptions C06_fragment.

(* ... in particular the default configuration *)
Theorem C06_fragment_default : forall SV fuel m d n, fix_lone_if SV = true -> frag m (JObj d) ->
  normalize SV (mkNConfig true default_discard false) fuel (JObj d) = Ok n ->
  exists L, any_of n = Ok (map JObj L) /\ Forall galt L /\ forall x, alts_valid L x <-> sem m x (JObj d).
Proof. exact normalize_fragment_default. Qed.
Print Assumptions C06_fragment_default.

(* The pinned code dropped every sibling keyword of a lone `if` (variant fix_lone_if = false): {"if": {}, "type": "null"}
   normalised to the schema that accepts everything *)
Theorem C06_lone_if_refuted_pinned :
  exists n, normalize (mkSV false) (mkNConfig true default_discard false) 20
              (JObj [(kw "if", JObj []); (kw "type", jstr "null")]) = Ok n /\
            any_of n = Ok [JObj []] /\
            semb 3 (JNum 1) (JObj [(kw "if", JObj []); (kw "type", jstr "null")]) = false.
Proof. eexists. split; [vm_compute; reflexivity|]. split; vm_compute; reflexivity. Qed.
Print Assumptions C06_lone_if_refuted_pinned.

(* The specification is executable: fragb decides membership in the fragment (soundly), semb evaluates acceptance;
   both are extracted, and the C06 check compares semb with the reference validator on random documents of the
   fragment, so that [sem] is tied to Draft 2020-12 and not only to this file. *)
Theorem C06_spec_executable : forall f s, fragb f s = true -> frag f s /\ forall x, (semb f x s = true <-> sem f x s).
Proof. intros f s H. pose proof (fragb_sound f s H) as F. split; [exact F|]. intros x. exact (semb_spec x f s F). Qed.
Print Assumptions C06_spec_executable.

Theorem C06_fragment_exec : forall SV fuel m d n, fix_lone_if SV = true -> fragb m (JObj d) = true ->
  normalize SV (mkNConfig true default_discard false) fuel (JObj d) = Ok n ->
  exists L, any_of n = Ok (map JObj L) /\ forall x, alts_valid L x <-> semb m x (JObj d) = true.
Proof. exact normalize_fragment_exec. Qed.
Print Assumptions C06_fragment_exec.

(* non-vacuity: {"type": ["number","string"], "minimum": 3, "oneOf": [{"maxLength": 2}, {"minimum": 10}],
   "if": {"const": 7}, "then": {"enum": [7, 8]}, "else": {"not": {"enum": [5]}}} is in the fragment, normalize() returns,
   12 and 7 are accepted, 5 and null are not *)
Definition c06_doc : json :=
  JObj [(kw "type", JArr [jstr "number"; jstr "string"]); (kw "minimum", JNum 3);
        (kw "oneOf", JArr [JObj [(kw "maxLength", JNum 2)]; JObj [(kw "minimum", JNum 10)]]);
        (kw "if", JObj [(kw "const", JNum 7)]); (kw "then", JObj [(kw "enum", JArr [JNum 7; JNum 8])]);
        (kw "else", JObj [(kw "not", JObj [(kw "enum", JArr [JNum 5])])])].
Example C06_nonvacuous :
  fragb 4 c06_doc = true /\
  (exists n, normalize (mkSV true) (mkNConfig true default_discard false) 30 c06_doc = Ok n) /\
  semb 4 (JNum 7) c06_doc = true /\ semb 4 (JNum 5) c06_doc = false /\ semb 4 JNull c06_doc = false.
Proof.
  split; [vm_compute; reflexivity|]. split; [eexists; vm_compute; reflexivity|].
  split; [vm_compute; reflexivity|]. split; vm_compute; reflexivity.
Qed.

(* C06 -- JSON Schema normalisation preserves acceptance: the keyword-level laws proved so far.
   (The end-to-end statement -- x accepted by S iff accepted by normalize(S) -- is decided by the validator oracle and
   the model/implementation correspondence; the laws below are the places where defects were found and repaired.) *)
From Fences Require Import Normalize NormShape JsonValid.
From Coq Require Import String ZArith.
Local Open Scope list_scope.

(* negation, keyword by keyword: an instance satisfies what the inverter returns exactly when it violates the keyword.
   Bounds (an excluded bound becomes the opposite inclusive one on numbers) ... *)
Theorem C06_invert_bounds : forall m x,
  (alt_valid [(kw "type", JArr [jstr "number"]); (kw "exclusiveMaximum", JNum m)] x <-> ~ kvalid (kw "minimum") (JNum m) x) /\
  (alt_valid [(kw "type", JArr [jstr "number"]); (kw "exclusiveMinimum", JNum m)] x <-> ~ kvalid (kw "maximum") (JNum m) x) /\
  (alt_valid [(kw "type", JArr [jstr "number"]); (kw "maximum", JNum m)] x <-> ~ kvalid (kw "exclusiveMinimum") (JNum m) x) /\
  (alt_valid [(kw "type", JArr [jstr "number"]); (kw "minimum", JNum m)] x <-> ~ kvalid (kw "exclusiveMaximum") (JNum m) x).
Proof.
  intros m x. split; [apply invert_minimum|]. split; [apply invert_maximum|]. split; [apply invert_exclusive_minimum|apply invert_exclusive_maximum].
Qed.
Print Assumptions C06_invert_bounds.

(* ... string lengths and item counts (the pinned code was off by one here: not(minLength n) was maxLength n) ... *)
Theorem C06_invert_lengths : forall n x,
  ((0 < n)%Z -> (alt_valid [(kw "type", JArr [jstr "string"]); (kw "maxLength", JNum (n - 1))] x <-> ~ kvalid (kw "minLength") (JNum n) x)) /\
  ((n <= 0)%Z -> (alt_valid [(kw "enum", JArr [])] x <-> ~ kvalid (kw "minLength") (JNum n) x)) /\
  (alt_valid [(kw "type", JArr [jstr "string"]); (kw "minLength", JNum (n + 1))] x <-> ~ kvalid (kw "maxLength") (JNum n) x) /\
  ((0 < n)%Z -> (alt_valid [(kw "type", jstr "array"); (kw "maxItems", JNum (n - 1))] x <-> ~ kvalid (kw "minItems") (JNum n) x)) /\
  (alt_valid [(kw "type", jstr "array"); (kw "minItems", JNum (n + 1))] x <-> ~ kvalid (kw "maxItems") (JNum n) x).
Proof.
  intros n x. split; [apply invert_min_length|]. split; [apply invert_min_length_0|]. split; [apply invert_max_length|].
  split; [apply invert_min_items|apply invert_max_items].
Qed.
Print Assumptions C06_invert_lengths.

(* ... enum and type (a type given as one string: the pinned code removed its letters) *)
Theorem C06_invert_enum_type : forall l v x,
  (alt_valid [(kw "NOT_enum", JArr l)] x <-> ~ kvalid (kw "enum") (JArr l) x) /\
  (alt_valid [(kw "enum", JArr l)] x <-> ~ kvalid (kw "NOT_enum") (JArr l) x) /\
  (alt_valid [(kw "type", JArr (pdiff ALL_TYPES (to_list v)))] x <-> ~ kvalid (kw "type") v x).
Proof. intros l v x. split; [apply invert_enum|]. split; [apply invert_not_enum|apply invert_type]. Qed.
Print Assumptions C06_invert_enum_type.

(* these keyword sets are what the model of _invert produces *)
Theorem C06_invert_kw_is : forall m l v,
  invert_kw (kw "minimum") (JNum m) = Ok (JObj [(kw "type", JArr [jstr "number"]); (kw "exclusiveMaximum", JNum m)]) /\
  invert_kw (kw "maxLength") (JNum m) = Ok (JObj [(kw "type", JArr [jstr "string"]); (kw "minLength", JNum (m + 1))]) /\
  invert_kw (kw "minItems") (JNum m) =
    (if Z.ltb 0 m then Ok (JObj [(kw "type", jstr "array"); (kw "maxItems", JNum (m - 1))]) else Ok (JObj [(kw "enum", JArr [])])) /\
  invert_kw (kw "enum") (JArr l) = Ok (JObj [(kw "NOT_enum", JArr l)]) /\
  invert_kw (kw "type") v = Ok (JObj [(kw "type", JArr (pdiff ALL_TYPES (to_list v)))]).
Proof. intros m l v. repeat split; reflexivity. Qed.
Print Assumptions C06_invert_kw_is.

(* conjunction: what _merge makes of two keyword sets without properties / prefixItems, key by key ... *)
Theorem C06_merge_keys : forall a b r, simple a -> simple b -> NoDup (map fst a) -> merge2 a b = Ok r ->
  forall k, dget k r =
    match dget k a, dget k b with
    | Some va, Some vb => match simple_merge k va vb with Some (Ok v) => Some v | _ => Some va end
    | Some va, None => Some va
    | None, vb => vb
    end.
Proof. exact merge2_get. Qed.
Print Assumptions C06_merge_keys.

(* ... and for sets of bounds the merged set is satisfied exactly by the instances that satisfy both *)
Theorem C06_merge_bounds : forall a b r x, bounds_only a -> bounds_only b -> NoDup (map fst a) ->
  merge2 a b = Ok r -> (dvalid r x <-> dvalid a x /\ dvalid b x).
Proof. exact merge2_bounds. Qed.
Print Assumptions C06_merge_bounds.

(* boolean schemas have the two constant normal forms *)
Theorem C06_bool : forall SV cfg fuel b,
  normalize SV cfg fuel (JBool b) = Ok (if b then NORM_TRUE else NORM_FALSE).
Proof. intros SV cfg fuel []; reflexivity. Qed.
Print Assumptions C06_bool.

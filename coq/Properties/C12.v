(* C12 -- JSON Schema: the samples fence every supported constraint on both sides.
   Local fence lemmas for numeric bounds (a number without multipleOf): the sample emitted just outside a
   bound is rejected by the schema and accepted once that bound is deleted. *)
From Fences Require Import Json Normalize JsonGen JsonLeaves JsonEnum JsonLinks JsonFence.
From Coq Require Import ZArith String.
Local Open Scope Z_scope.

Theorem C12_lower_bound_fenced : forall lo mx,
  (forall hi, mx = Some hi -> lo <= hi) ->
  In (lo - 1) (number_invalid_values (Some lo) mx) /\
  ~ num_ok (Some lo) mx None (lo - 1) /\ num_ok None mx None (lo - 1).
Proof.
  intros lo mx H. split; [left; reflexivity|]. exact (number_bound_fenced_low lo mx H).
Qed.
Print Assumptions C12_lower_bound_fenced.

Theorem C12_upper_bound_fenced : forall mn hi,
  (forall lo, mn = Some lo -> lo <= hi) ->
  In (hi + 1) (number_invalid_values mn (Some hi)) /\
  ~ num_ok mn (Some hi) None (hi + 1) /\ num_ok mn None None (hi + 1).
Proof.
  intros mn hi H. split.
  - unfold number_invalid_values. apply in_or_app. right. left. reflexivity.
  - exact (number_bound_fenced_high mn hi H).
Qed.
Print Assumptions C12_upper_bound_fenced.

(* enum: every member occurs (up to Python equality of scalars) among the valid leaves, and some non-member among
   the invalid ones *)
Theorem C12_enum_fenced : forall en,
  hashable_all en = true ->
  (forall m, In m en -> pmem m (enum_valid [] en) = true) /\
  (exists x, In x (enum_invalid' [] en) /\ pmem x en = false).
Proof.
  intros en He. split; [intros m Hm; exact (enum_members_covered en m He Hm)|exact (enum_nonmember_present [] en eq_refl He)].
Qed.
Print Assumptions C12_enum_fenced.

Local Close Scope Z_scope.
Local Open Scope bool_scope.
Local Open Scope list_scope.
Local Open Scope string_scope.

(* type: the last stage of parse_any_of_entry hangs, for every JSON type the alternative does not allow, each default
   sample of that type (42, "string", null, ...) as a leaf marked invalid directly below the alternative's decision, and
   keeps every leaf that was already there; parse_any_of_entry ends with exactly that stage, run on the set of its
   "type" keyword (all six types when the keyword is absent, so that nothing is fenced).  Stated on builder states whose
   payload list is as long as the node table (true of the empty state and kept by every builder operation). *)
Theorem C12_type_fenced : forall root types st,
  List.length (jb_pay st) = List.length (jb_graph st) -> root < List.length (jb_graph st) ->
  forall ty samples s, In (ty, samples) default_samples -> pmem (JStr ty) types = false -> In s samples ->
    exists l, In l (outs_of (jb_graph (type_fence root types st)) root) /\
              kind_of (jb_graph (type_fence root types st)) l = KLeaf false /\
              nth_error (jb_pay (type_fence root types st)) l = Some (JPSet s).
Proof. exact type_fence_spec. Qed.
Print Assumptions C12_type_fenced.

Theorem C12_entry_ends_with_type_fence : forall f d p st st' n,
  parse_entry (S f) (JObj d) p st = Ok (st', n) ->
  dhas (kw "enum") d || dhas (kw "NOT_enum") d = false -> dhas (kw "$ref") d = false ->
  exists types st1, st' = type_fence n types st1 /\
    (match dget (kw "type") d with Some t => types = pset (to_list t) | None => types = map JStr handler_types end).
Proof. exact parse_entry_ends_with_fence. Qed.
Print Assumptions C12_entry_ends_with_type_fence.

(* not vacuous: below an alternative of type string the default samples of the five other types hang as invalid leaves *)
Example C12_type_fence_nonvacuous :
  let st := fst (jnoop false None jbempty) in
  List.length (jb_pay st) = List.length (jb_graph st) /\ 0 < List.length (jb_graph st) /\
  pmem (JStr (kw "number")) [JStr (kw "string")] = false /\
  exists samples, In (kw "number", samples) default_samples /\ samples <> [].
Proof. vm_compute. repeat split; try (repeat constructor). eexists. split; [right; left; reflexivity|discriminate]. Qed.

Local Close Scope string_scope.

(* required: parse_object runs obj_step once per declared property (and rem_step once per required name that is not
   declared) -- the loop bodies of the Python code, named *)
Theorem C12_object_loop f (d : dict) (p : pointer) (st : jbst) : parse_object (S f) d p st =
 (do props <- read_dict d "properties";
  let props := match props with Some x => x | None => [] end in
  do _ <- check_dict d "additionalProperties";
  do _ <- read_num d "minProperties"; do _ <- read_num d "maxProperties";
  do _ <- check_dict d "patternProperties"; do _ <- check_dict d "propertyNames";
  do _ <- check_dict d "unevaluatedProperties"; do _ <- check_dict d "dependentRequired";
  do _ <- check_dict d "dependentSchemas";
  do required <- read_list d "required";
  let required := match required with Some x => x | None => [] end in
  do req <- foldM (fun acc tok => match tok with
                                  | JStr s => if smem s acc then jerr else Ok (acc ++ [s])
                                  | _ => jerr end) required [];
  let '(st, super) := jnoop false (sfx p "_OBJECT") st in
  let '(st, root) := jnew (KDec true false) None JPObj st in
  let st := jadd super root st in
  do '(st, remaining) <-
    foldM (obj_step f p root) props (st, req);
  let st := fold_left (rem_step p root) remaining st in
  let st := match outs_of (jb_graph st) root with
            | [] => let '(st, l) := jnoop_leaf true st in jadd root l st
            | _ => st end in
  Ok (st, super)).
Proof. reflexivity. Qed.
Print Assumptions C12_object_loop.

(* ... and obj_step gives the property's decision an omission leaf that is marked invalid exactly when the property is
   still among the required names (so a sample with the property left out exists, and its label follows 'required') *)
Theorem C12_required_fenced : forall f p root s rem key value s' rem',
  jgi s -> root < jlen s -> is_dec (jb_graph s) root = true ->
  obj_step f p root (s, rem) (key, value) = Ok (s', rem') ->
  exists omit, In omit (outs_of (jb_graph s') (jlen s)) /\ kind_of (jb_graph s') omit = KLeaf (negb (smem key rem)) /\
               is_dec (jb_graph s') (jlen s) = true /\ rem' = filter (fun x => negb (str_eqb x key)) rem.
Proof. exact obj_step_omit. Qed.
Print Assumptions C12_required_fenced.

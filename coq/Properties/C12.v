(* C12 -- JSON Schema: the samples fence every supported constraint on both sides.
   Local fence lemmas for numeric bounds (a number without multipleOf): the sample emitted just outside a
   bound is rejected by the schema and accepted once that bound is deleted. *)
From Fences Require Import JsonGen JsonLeaves JsonEnum.
From Coq Require Import ZArith.
Local Open Scope Z_scope.

Theorem C12_lower_bound_fenced : forall lo mx,
  (forall hi, mx = Some hi -> lo <= hi) ->
  In (lo - 1) (number_invalid_values (Some lo) mx) /\
  ~ num_ok (Some lo) mx None (lo - 1) /\ num_ok None mx None (lo - 1).
Proof.
  intros lo mx H. split; [left; reflexivity|]. exact (number_bound_fenced_low lo mx H).
Qed.
Print Assumptions C12_lower_bound_fenced.

Theorem C12_upper_bound_fenced : forall mn hi,
  (forall lo, mn = Some lo -> lo <= hi) ->
  In (hi + 1) (number_invalid_values mn (Some hi)) /\
  ~ num_ok mn (Some hi) None (hi + 1) /\ num_ok mn None None (hi + 1).
Proof.
  intros mn hi H. split.
  - unfold number_invalid_values. apply in_or_app. right. left. reflexivity.
  - exact (number_bound_fenced_high mn hi H).
Qed.
Print Assumptions C12_upper_bound_fenced.

(* enum: every member occurs (up to Python equality of scalars) among the valid leaves, and some non-member among
   the invalid ones *)
Theorem C12_enum_fenced : forall en,
  hashable_all en = true ->
  (forall m, In m en -> pmem m (enum_valid [] en) = true) /\
  (exists x, In x (enum_invalid' [] en) /\ pmem x en = false).
Proof.
  intros en He. split; [intros m Hm; exact (enum_members_covered en m He Hm)|exact (enum_nonmember_present [] en eq_refl He)].
Qed.
Print Assumptions C12_enum_fenced.

(* C08 -- Grammar: every generated string is derivable; every terminal is used.
   (theorems are added as they are closed; the model and the specification are in Grammar.v) *)
From Fences Require Import Grammar.

(* repetition counts of the unrolling lie inside the bounds: the lower unrolling has [start] copies,
   the upper one [stop] (or start + 3 for an open range) *)
Theorem C08_rep_bounds : forall start stop,
  (forall s, stop = Some s -> start <= s) ->
  let n := match stop with Some s => s | None => start + 3 end in
  start <= n /\ (forall s, stop = Some s -> n <= s).
Proof.
  intros start stop H n. unfold n. destruct stop as [s|]; split; try lia; auto.
  - intros s' E. inversion E. lia.
  - intros s' E. discriminate.
Qed.
Print Assumptions C08_rep_bounds.

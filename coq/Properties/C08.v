(* C08 -- Grammar: every generated string is derivable; every terminal is used. *)
From Fences Require Import Grammar GraphSpec GraphLinks GraphExec GraphRun GraphOpt GraphResolve GraphResolveSem RegexLang GrammarLang.

(* For every grammar whose character ranges and repetition bounds are in order -- any number of rules, left-, right-
   and self-recursive ones, references to rules defined later, nesting to any depth -- and every complete execution of
   the graph that the model of grammar/convert.py returns (one decision per rule, References resolved by resolve(),
   optimize(), input and output nodes), for every path, generated or not: the string produced is derivable from the
   start symbol (inductive specification [derives]: a finite derivation tree). *)
Theorem C08_language : forall fuel G start st root f p tr,
  (forall name r, In (name, r) G -> wfr r) ->
  parse_grammar fuel G start = Ok (st, root) ->
  exec f (b_graph st) root p = Ok (tr, []) ->
  derives G (GNT start) (output_of st tr).
Proof.
  intros fuel G start st root f p tr WG H X.
  apply exec_Run in X. apply Run_Run0 in X. destruct X as (c & _ & R).
  exact (parse_grammar_lang fuel G start st root WG H c tr R).
Qed.
Print Assumptions C08_language.

(* what resolve() does, semantically: every visited node keeps its kind and its successors are the dereferenced
   successors; the visited set contains the root and is closed under successors (used above, and for C14) *)
Theorem C08_resolve_sem : forall fuel g root extra g' r,
  resolve fuel g root extra = Ok (g', r) ->
  outs_ok g -> ins_ok_nr g -> outs_dec g ->
  exists t vis, tbl_wf g t /\ DR g t root r /\ same_nodes g g' /\ In r vis /\
    (forall x, In x vis -> Forall2 (DR g t) (outs_of g x) (outs_of g' x)) /\
    (forall x, In x vis -> is_dec g' x = true -> forall c, In c (outs_of g' x) -> In c vis).
Proof. exact resolve_sem. Qed.
Print Assumptions C08_resolve_sem.

(* repetition counts of the unrolling lie inside the bounds: the lower unrolling has [start] copies,
   the upper one [stop] (or start + 3 for an open range) *)
Theorem C08_rep_bounds : forall start stop,
  (forall s, stop = Some s -> start <= s) ->
  let n := match stop with Some s => s | None => start + 3 end in
  start <= n /\ (forall s, stop = Some s -> n <= s).
Proof.
  intros start stop H n. unfold n. destruct stop as [s|]; split; try lia; auto.
  - intros s' E. inversion E. lia.
  - intros s' E. discriminate.
Qed.
Print Assumptions C08_rep_bounds.

(* non-vacuity: s = "(" s ")" | "x"{1,2}, a right- and left-recursive rule with a repetition *)
Definition c08_G : grammar :=
  [([115], GAlt [GConcat [GTerm [40]; GNT [115]; GTerm [41]]; GRep (GTerm [120]) 1 (Some 2)])].
Example C08_nonvacuous : exists st root p tr,
  parse_grammar 60 c08_G [115] = Ok (st, root) /\ exec 60 (b_graph st) root p = Ok (tr, []) /\
  output_of st tr = [40; 120; 120; 41].
Proof.
  destruct (parse_grammar 60 c08_G [115]) as [[st root]| | |] eqn:E; try (vm_compute in E; discriminate).
  exists st, root. vm_compute in E. inversion E; subst. clear E.
  eexists [0; 1; 1]. eexists. split; [reflexivity|]. split; vm_compute; reflexivity.
Qed.

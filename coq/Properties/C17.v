(* C17 -- What fences does not understand is rejected with its own exception. (error-class lemmas of the models) *)
From Coq Require Import String.
From Fences Require Import Format FormatProofs Normalize Regex Grammar ErrClass Xml XmlErr Normalize NormNF JsonGen JsonErr.

(* format_parameter_value never fails with a non-library error *)
Theorem C17_format_no_internal_error : forall name st explode v,
  match format_parameter_value name st explode v with PyErr _ | OutOfFuel => False | _ => True end.
Proof.
  intros name st explode v. pose proof (format_total name st explode v) as H.
  destruct (format_parameter_value name st explode v); auto.
Qed.
Print Assumptions C17_format_no_internal_error.

(* a keyword without inverter is rejected with NormalizationException, not skipped *)
Theorem C17_uninvertible_rejected : forall x, invert_kw (kw "additionalProperties") x = LibErr ENormalization.
Proof. intros x. vm_compute. reflexivity. Qed.
Print Assumptions C17_uninvertible_rejected.

(* a non-local reference is rejected with JsonPointerException *)
Theorem C17_remote_ref_rejected : pointer_from_string (kw "http://example.com/s.json") = LibErr EJsonPointer.
Proof. vm_compute. reflexivity. Qed.
Print Assumptions C17_remote_ref_rejected.

(* regular expressions: for every expression of the dialect the model of parse_regex returns a graph, runs out of
   recursion depth, or fails with the library's RegexException (bad range / bad bounds) -- no Python exception is
   reachable *)
Theorem C17_regex_own_exception : forall fuel r,
  match parse_regex fuel r with PyErr _ => False | _ => True end.
Proof. exact parse_regex_own. Qed.
Print Assumptions C17_regex_own_exception.

(* grammars: for every grammar and start symbol the model of convert() returns a graph, runs out of recursion depth,
   or fails in resolve() with the library's ResolveReferenceException (unknown or doubly defined rule name) *)
Theorem C17_grammar_own_exception : forall fuel G start,
  match parse_grammar fuel G start with PyErr _ => False | _ => True end.
Proof. exact parse_grammar_own. Qed.
Print Assumptions C17_grammar_own_exception.

(* XML schemas: for every element tree -- any tags, attributes, nesting, any numbers drawn at parse time -- whose restriction
   facets are well typed (every enumeration has a value, minLength / maxLength are numbers in order, no pattern facet, which
   is outside the model) the model of parse_xml_schema returns a graph, runs out of recursion depth, or fails with the
   library's XmlSchemaException / ResolveReferenceException: unknown tags, unconsumed attributes, missing names, unknown
   occurrence bounds are all rejected that way.  Ill-typed facets are what a conforming XSD processor rejects beforehand;
   on them Python's own exceptions escape (C17_xsd_bad_facet keeps one machine-checked). *)
Theorem C17_xsd_own_exception : forall fuel schema draws,
  (forall r, subel r schema -> is_tag (tag_of r) "restriction" = true -> rok r = true) ->
  match parse_xsd fuel schema draws with PyErr _ => False | _ => True end.
Proof. exact parse_xsd_own. Qed.
Print Assumptions C17_xsd_own_exception.

Theorem C17_xsd_bad_facet :
  parse_xsd 20 (XEl (kw "schema") [] [XEl (kw "element") [(kw "name", kw "r")]
     [XEl (kw "simpleType") [] [XEl (kw "restriction") [(kw "base", kw "xs:string")] [XEl (kw "enumeration") [] []]]]]) []
  = PyErr EKeyError.
Proof. exact bad_enumeration. Qed.
Print Assumptions C17_xsd_bad_facet.

(* The generator half of the JSON front end, for every input of normalize(): on whatever normal form normalize() returns,
   provided its "type" values are scalars or lists of scalars (tyokb, executable: what set(...) needs), the model of
   fences.json_schema.parse.parse (definitions, any-of entries, the type handlers, object and array handlers, resolve(),
   optimize(), input / output nodes) returns a graph, runs out of recursion depth, or fails with JsonSchemaException /
   ResolveReferenceException; no Python exception is reachable.  normalize() itself is not covered by a theorem of this
   kind (its keyword mergers raise TypeError on ill-typed keyword values; on metaschema-valid documents this is observed,
   not proved). *)
Theorem C17_json_generator_own : forall SV cfg fuel schema nf fuel',
  normalize SV cfg fuel schema = Ok nf -> tyokb nf = true ->
  match parse_nf fuel' nf with PyErr _ => False | _ => True end.
Proof. exact parse_nf_own. Qed.
Print Assumptions C17_json_generator_own.

(* not vacuous: a schema with a type list, nested properties, items and a recursive reference is normalised to a document
   that meets the hypothesis, and parse returns a graph for it *)
Example C17_json_generator_nonvacuous :
  exists nf st r,
    normalize (mkSV true) (mkNConfig true default_discard false) 60
      (JObj [(kw "type", JArr [JStr (kw "object"); JStr (kw "null")]);
             (kw "properties", JObj [(kw "a", JObj [(kw "type", JStr (kw "array")); (kw "items", JObj [(kw "$ref", JStr (kw "#"))])]);
                                     (kw "b", JObj [(kw "enum", JArr [JNum 1; JStr (kw "x")])])]);
             (kw "required", JArr [JStr (kw "b")])]) = Ok nf
    /\ tyokb nf = true /\ parse_nf 60 nf = Ok (st, r).
Proof.
  match goal with |- exists nf st r, ?N = _ /\ _ => destruct N as [nf| | |] eqn:E; try (vm_compute in E; discriminate) end.
  exists nf.
  assert (T : tyokb nf = true) by (vm_compute in E; inversion E; subst nf; vm_compute; reflexivity).
  destruct (parse_nf 60 nf) as [[st r]| | |] eqn:P; try (vm_compute in E; inversion E; subst nf; vm_compute in P; discriminate).
  exists st, r. auto.
Qed.

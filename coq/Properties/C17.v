(* C17 -- What fences does not understand is rejected with its own exception. (error-class lemmas of the models) *)
From Coq Require Import String.
From Fences Require Import Format FormatProofs Normalize Regex Grammar ErrClass Xml XmlErr.

(* format_parameter_value never fails with a non-library error *)
Theorem C17_format_no_internal_error : forall name st explode v,
  match format_parameter_value name st explode v with PyErr _ | OutOfFuel => False | _ => True end.
Proof.
  intros name st explode v. pose proof (format_total name st explode v) as H.
  destruct (format_parameter_value name st explode v); auto.
Qed.
Print Assumptions C17_format_no_internal_error.

(* a keyword without inverter is rejected with NormalizationException, not skipped *)
Theorem C17_uninvertible_rejected : forall x, invert_kw (kw "additionalProperties") x = LibErr ENormalization.
Proof. intros x. vm_compute. reflexivity. Qed.
Print Assumptions C17_uninvertible_rejected.

(* a non-local reference is rejected with JsonPointerException *)
Theorem C17_remote_ref_rejected : pointer_from_string (kw "http://example.com/s.json") = LibErr EJsonPointer.
Proof. vm_compute. reflexivity. Qed.
Print Assumptions C17_remote_ref_rejected.

(* regular expressions: for every expression of the dialect the model of parse_regex returns a graph, runs out of
   recursion depth, or fails with the library's RegexException (bad range / bad bounds) -- no Python exception is
   reachable *)
Theorem C17_regex_own_exception : forall fuel r,
  match parse_regex fuel r with PyErr _ => False | _ => True end.
Proof. exact parse_regex_own. Qed.
Print Assumptions C17_regex_own_exception.

(* grammars: for every grammar and start symbol the model of convert() returns a graph, runs out of recursion depth,
   or fails in resolve() with the library's ResolveReferenceException (unknown or doubly defined rule name) *)
Theorem C17_grammar_own_exception : forall fuel G start,
  match parse_grammar fuel G start with PyErr _ => False | _ => True end.
Proof. exact parse_grammar_own. Qed.
Print Assumptions C17_grammar_own_exception.

(* XML schemas: for every element tree -- any tags, attributes, nesting, any numbers drawn at parse time -- whose restriction
   facets are well typed (every enumeration has a value, minLength / maxLength are numbers in order, no pattern facet, which
   is outside the model) the model of parse_xml_schema returns a graph, runs out of recursion depth, or fails with the
   library's XmlSchemaException / ResolveReferenceException: unknown tags, unconsumed attributes, missing names, unknown
   occurrence bounds are all rejected that way.  Ill-typed facets are what a conforming XSD processor rejects beforehand;
   on them Python's own exceptions escape (C17_xsd_bad_facet keeps one machine-checked). *)
Theorem C17_xsd_own_exception : forall fuel schema draws,
  (forall r, subel r schema -> is_tag (tag_of r) "restriction" = true -> rok r = true) ->
  match parse_xsd fuel schema draws with PyErr _ => False | _ => True end.
Proof. exact parse_xsd_own. Qed.
Print Assumptions C17_xsd_own_exception.

Theorem C17_xsd_bad_facet :
  parse_xsd 20 (XEl (kw "schema") [] [XEl (kw "element") [(kw "name", kw "r")]
     [XEl (kw "simpleType") [] [XEl (kw "restriction") [(kw "base", kw "xs:string")] [XEl (kw "enumeration") [] []]]]]) []
  = PyErr EKeyError.
Proof. exact bad_enumeration. Qed.
Print Assumptions C17_xsd_bad_facet.

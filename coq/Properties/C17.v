(* C17 -- What fences does not understand is rejected with its own exception. (error-class lemmas of the models) *)
From Coq Require Import String.
From Fences Require Import Format FormatProofs Normalize.

(* format_parameter_value never fails with a non-library error *)
Theorem C17_format_no_internal_error : forall name st explode v,
  match format_parameter_value name st explode v with PyErr _ | OutOfFuel => False | _ => True end.
Proof.
  intros name st explode v. pose proof (format_total name st explode v) as H.
  destruct (format_parameter_value name st explode v); auto.
Qed.
Print Assumptions C17_format_no_internal_error.

(* a keyword without inverter is rejected with NormalizationException, not skipped *)
Theorem C17_uninvertible_rejected : forall x, invert_kw (kw "additionalProperties") x = LibErr ENormalization.
Proof. intros x. vm_compute. reflexivity. Qed.
Print Assumptions C17_uninvertible_rejected.

(* a non-local reference is rejected with JsonPointerException *)
Theorem C17_remote_ref_rejected : pointer_from_string (kw "http://example.com/s.json") = LibErr EJsonPointer.
Proof. vm_compute. reflexivity. Qed.
Print Assumptions C17_remote_ref_rejected.

(* C17 -- What fences does not understand is rejected with its own exception. (error-class lemmas of the models) *)
From Coq Require Import String.
From Fences Require Import Format FormatProofs Normalize Regex Grammar ErrClass.

(* format_parameter_value never fails with a non-library error *)
Theorem C17_format_no_internal_error : forall name st explode v,
  match format_parameter_value name st explode v with PyErr _ | OutOfFuel => False | _ => True end.
Proof.
  intros name st explode v. pose proof (format_total name st explode v) as H.
  destruct (format_parameter_value name st explode v); auto.
Qed.
Print Assumptions C17_format_no_internal_error.

(* a keyword without inverter is rejected with NormalizationException, not skipped *)
Theorem C17_uninvertible_rejected : forall x, invert_kw (kw "additionalProperties") x = LibErr ENormalization.
Proof. intros x. vm_compute. reflexivity. Qed.
Print Assumptions C17_uninvertible_rejected.

(* a non-local reference is rejected with JsonPointerException *)
Theorem C17_remote_ref_rejected : pointer_from_string (kw "http://example.com/s.json") = LibErr EJsonPointer.
Proof. vm_compute. reflexivity. Qed.
Print Assumptions C17_remote_ref_rejected.

(* regular expressions: for every expression of the dialect the model of parse_regex returns a graph, runs out of
   recursion depth, or fails with the library's RegexException (bad range / bad bounds) -- no Python exception is
   reachable *)
Theorem C17_regex_own_exception : forall fuel r,
  match parse_regex fuel r with PyErr _ => False | _ => True end.
Proof. exact parse_regex_own. Qed.
Print Assumptions C17_regex_own_exception.

(* grammars: for every grammar and start symbol the model of convert() returns a graph, runs out of recursion depth,
   or fails in resolve() with the library's ResolveReferenceException (unknown or doubly defined rule name) *)
Theorem C17_grammar_own_exception : forall fuel G start,
  match parse_grammar fuel G start with PyErr _ => False | _ => True end.
Proof. exact parse_grammar_own. Qed.
Print Assumptions C17_grammar_own_exception.

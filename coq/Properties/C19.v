(* C19 -- OpenAPI parameter values are serialised as the style table prescribes. *)
From Fences Require Import Format FormatProofs.

(* both styles x both explode settings, every flat value: decoding the rendering by the OpenAPI 3
   style rules gives back the value with its scalars as strings (booleans as true/false) *)
Theorem C19_roundtrip : forall name st explode v,
  flat_ok v ->
  ~ (st = Form /\ explode = true /\ shape_of v = ShArray) ->
  exists out, format_parameter_value name st explode v = Ok out /\
              decode st explode name (shape_of v) out = strs v.
Proof. exact format_roundtrip. Qed.
Print Assumptions C19_roundtrip.

(* the documented exception *)
Theorem C19_form_explode_array : forall name l,
  format_parameter_value name Form true (VList l) =
  Ok [(name, match rev l with [] => OStr [] | e :: _ => ORaw e end)].
Proof. exact form_explode_array. Qed.
Print Assumptions C19_form_explode_array.

(* values that are neither scalar, list nor dict are rejected with the library exception, and
   nothing else ever is: no other error class can escape *)
Theorem C19_reject : forall name st explode v,
  match format_parameter_value name st explode v with
  | Ok _ => v <> VOther | LibErr c => c = EOpenApi /\ v = VOther | _ => False end.
Proof. exact format_total. Qed.
Print Assumptions C19_reject.

Example C19_nonvacuous :
  let v := VDict [([82], ENum [49; 48; 48]); ([71], EStr [120])] in
  flat_ok v /\
  format_parameter_value [112] Simple true v = Ok [([112], OStr [82; 61; 49; 48; 48; 44; 71; 61; 120])] /\
  decode Simple true [112] ShObject [([112], OStr [82; 61; 49; 48; 48; 44; 71; 61; 120])] = strs v.
Proof.
  split; [|split; vm_compute; reflexivity].
  simpl. repeat constructor; simpl; try discriminate; intuition discriminate.
Qed.

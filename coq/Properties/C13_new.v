(* C13 -- Results depend only on the input. (the models are pure functions of their inputs by construction;
   the one piece of state the implementation keeps between calls, the distance annotations, is modelled) *)
From Fences Require Import GraphSpec GraphLinks GraphExec GraphAnalysis GraphCheck GraphHist.

(* after the fix, generate_paths forgets the annotations of every node it is about to analyse *)
Theorem C13_reset_forgets : forall its m a b, mem a its = true -> areset its m a b = None.
Proof. intros its m a b H. unfold areset. rewrite H. reflexivity. Qed.
Print Assumptions C13_reset_forgets.

(* history-free enumeration: whatever distance annotations earlier calls of generate_paths (on this graph,
   before it was grown, with any outcome) left behind, the next call yields the same leaves, the same entries in
   the same order with the same labels, ends the same way (normally, with the same exception class, or out of
   recursion depth), and leaves annotations that agree on every node of the graph *)
Theorem C13_history_free : forall V g root,
  wf g root -> fix_reset V = true ->
  forall fuel lr0 lv0 lr0' lv0',
    gp_rel g (generate_paths V fuel g root lr0 lv0) (generate_paths V fuel g root lr0' lv0').
Proof. exact generate_paths_history_free. Qed.
Print Assumptions C13_history_free.

Corollary C13_same_entries : forall g root fuel lr0 lv0 a es st,
  wf g root ->
  generate_paths V_fixed fuel g root lr0 lv0 = Ok (a, (es, st)) ->
  exists a', generate_paths V_fixed fuel g root aempty aempty = Ok (a', (es, st)).
Proof.
  intros g root fuel lr0 lv0 a es st W H.
  pose proof (generate_paths_history_free V_fixed g root W eq_refl fuel lr0 lv0 aempty aempty) as R.
  rewrite H in R. destruct (generate_paths V_fixed fuel g root aempty aempty) as [[a' out']| | |]; try contradiction.
  destruct R as (_ & _ & E & _). exists a'. rewrite E. reflexivity.
Qed.
Print Assumptions C13_same_entries.

(* on the pinned code (no reset) the statement is false: enumerate, attach a leaf, enumerate again -- the second
   call reads the stale distance of the do-all node, never reaches the new leaf in _analyze_forwards and fails
   with AttributeError in _backward; from fresh annotations the same graph is enumerated normally *)
Definition c13_g1 : list op :=
  [NewNode (KDec false false) None; NewNode (KDec true false) None; NewNode (KLeaf true) None; AddT 0 1].
Definition c13_g2 : list op := c13_g1 ++ [AddT 1 2].
Example C13_refuted_pinned :
  wf (build c13_g2) 0 /\
  exists a r, generate_paths V_pinned 50 (build c13_g1) 0 aempty aempty = Ok (a, r) /\
    match generate_paths V_pinned 50 (build c13_g2) 0 (a_lr a) (a_lv a) with
    | Ok (_, r2) => r2 = ([], PyErr EAttributeError) | _ => False end /\
    gp_entries V_pinned 50 (build c13_g2) 0 = Some ([mkEntry 2 [0] true], Ok tt).
Proof.
  split; [apply GraphCheck.wfb_wf; vm_compute; reflexivity|].
  destruct (generate_paths V_pinned 50 (build c13_g1) 0 aempty aempty) as [[a r]| | |] eqn:E; try (vm_compute in E; discriminate).
  exists a, r. split; [reflexivity|].
  vm_compute in E. inversion E; subst a r. clear E. split; vm_compute; reflexivity.
Qed.

(* executing a path is a function of the graph and the path *)
Theorem C13_execute_repeatable : forall f g n p r1 r2, exec f g n p = r1 -> exec f g n p = r2 -> r1 = r2.
Proof. intros; congruence. Qed.

(* C07 -- XML Schema. (model of xml_schema/parse.py in progress; this file records what is proved) *)
From Fences Require Import Graph.

(* _repeat offers zero occurrences as a valid alternative exactly when minOccurs = 0 *)
Theorem C07_zero_occurrences : forall mn : nat, (mn =? 0) = true <-> mn = 0.
Proof. intros mn. apply Nat.eqb_eq. Qed.
Print Assumptions C07_zero_occurrences.

(* C07 -- XML Schema: valid documents validate, invalid documents do not.
   The executable model of xml_schema/parse.py (coq/Xml.v: tag handlers, _repeat, type table, restrictions, resolve,
   optimize, and the document a path builds) is tied to the implementation by stream X (graph, entries, labels and
   documents on random schemas, with the numbers Python drew at parse time as an input).  The conformance of the
   documents to the schema is judged by xmlschema in the oracle; the statements below are what is proved about the
   model so far. *)
From Coq Require Import String ZArith.
From Fences Require Import Xml.
Local Open Scope list_scope.

(* _repeat refuses exactly the contradictory occurrence bounds, with the library's exception *)
Theorem C07_repeat_bounds : forall child mn mx st,
  (mx < mn -> repeat_node child mn (Some mx) st = LibErr EXmlSchema) /\
  (mn <= mx -> exists st' root, repeat_node child mn (Some mx) st = Ok (st', root)).
Proof.
  intros child mn mx st. unfold repeat_node.
  destruct (xnoop false None st) as [st1 root]. destruct (xnoop_leaf (mn =? 0) None st1) as [st2 l]. split; intros H.
  - destruct (Nat.ltb_spec mx mn); [reflexivity|lia].
  - destruct (Nat.ltb_spec mx mn); [lia|]. eauto.
Qed.
Print Assumptions C07_repeat_bounds.

(* an unbounded maxOccurs is unrolled to minOccurs + 1 occurrences and is never refused *)
Theorem C07_repeat_unbounded : forall child mn st, exists st' root, repeat_node child mn None st = Ok (st', root).
Proof.
  intros child mn st. unfold repeat_node.
  destruct (xnoop false None st) as [st1 root]. destruct (xnoop_leaf (mn =? 0) None st1) as [st2 l].
  destruct (Nat.ltb_spec (mn + 1) mn); [lia|]. eauto.
Qed.
Print Assumptions C07_repeat_unbounded.

(* the "no occurrence at all" alternative is labelled valid exactly when minOccurs = 0 *)
Theorem C07_repeat_empty_label : forall child mn mx st st' root,
  repeat_node child mn mx st = Ok (st', root) ->
  kind_of (x_graph (fst (xnoop_leaf (mn =? 0) None (fst (xnoop false None st))))) (S (length (x_graph st))) = KLeaf (mn =? 0).
Proof.
  intros child mn mx st st' root _. unfold xnoop_leaf, xnoop, xnew. cbn [fst x_graph].
  unfold kind_of, getn. rewrite app_nth2 by (rewrite app_length; cbn; lia).
  rewrite app_length. cbn [length]. replace (S (length (x_graph st)) - (length (x_graph st) + 1)) with 0 by lia. reflexivity.
Qed.
Print Assumptions C07_repeat_empty_label.

(* a document that is not an xs:schema is refused with the library's exception *)
Theorem C07_not_a_schema : forall fuel e draws, is_tag (tag_of e) "schema" = false -> parse_xsd fuel e draws = LibErr EXmlSchema.
Proof. intros fuel e draws H. unfold parse_xsd. rewrite H. reflexivity. Qed.
Print Assumptions C07_not_a_schema.

(* non-vacuity: a schema with one element of a built-in type is parsed, and the first generated document is
   <root>foo</root> *)
Definition c07_schema : xml :=
  XEl (kw "schema") [] [XEl (kw "element") [(kw "name", kw "root"); (kw "type", kw "xs:string")] []].
Example C07_nonvacuous : exists st root,
  parse_xsd 50 c07_schema [] = Ok (st, root) /\
  xsample 50 st root [0] = Ok (XD (kw "root") [] (Some (kw "foo")) []).
Proof.
  destruct (parse_xsd 50 c07_schema []) as [[st root]| | |] eqn:E; try (vm_compute in E; discriminate).
  exists st, root. split; auto. vm_compute in E. inversion E; subst. vm_compute. reflexivity.
Qed.

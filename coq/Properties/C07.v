(* C07 -- XML Schema: valid documents validate, invalid documents do not.
   The executable model of xml_schema/parse.py (coq/Xml.v: tag handlers, _repeat, type table, restrictions, resolve,
   optimize, and the document a path builds) is tied to the implementation by stream X (graph, entries, labels and
   documents on random schemas, with the numbers Python drew at parse time as an input).  The conformance of the
   documents to the schema is judged by xmlschema in the oracle; the statements below are what is proved about the
   model so far. *)
From Coq Require Import String ZArith.
From Fences Require Import Xml.
Local Open Scope list_scope.

(* _repeat refuses exactly the contradictory occurrence bounds, with the library's exception *)
Theorem C07_repeat_bounds : forall child mn mx st,
  (mx < mn -> repeat_node child mn (Some mx) st = LibErr EXmlSchema) /\
  (mn <= mx -> exists st' root, repeat_node child mn (Some mx) st = Ok (st', root)).
Proof.
  intros child mn mx st. unfold repeat_node.
  destruct (xnoop false None st) as [st1 root]. destruct (xnoop_leaf (mn =? 0) None st1) as [st2 l]. split; intros H.
  - destruct (Nat.ltb_spec mx mn); [reflexivity|lia].
  - destruct (Nat.ltb_spec mx mn); [lia|]. eauto.
Qed.
Print Assumptions C07_repeat_bounds.

(* an unbounded maxOccurs is unrolled to minOccurs + 1 occurrences and is never refused *)
Theorem C07_repeat_unbounded : forall child mn st, exists st' root, repeat_node child mn None st = Ok (st', root).
Proof.
  intros child mn st. unfold repeat_node.
  destruct (xnoop false None st) as [st1 root]. destruct (xnoop_leaf (mn =? 0) None st1) as [st2 l].
  destruct (Nat.ltb_spec (mn + 1) mn); [lia|]. eauto.
Qed.
Print Assumptions C07_repeat_unbounded.

(* the "no occurrence at all" alternative is labelled valid exactly when minOccurs = 0 *)
Theorem C07_repeat_empty_label : forall child mn mx st st' root,
  repeat_node child mn mx st = Ok (st', root) ->
  kind_of (x_graph (fst (xnoop_leaf (mn =? 0) None (fst (xnoop false None st))))) (S (length (x_graph st))) = KLeaf (mn =? 0).
Proof.
  intros child mn mx st st' root _. unfold xnoop_leaf, xnoop, xnew. cbn [fst x_graph].
  unfold kind_of, getn. rewrite app_nth2 by (rewrite app_length; cbn; lia).
  rewrite app_length. cbn [length]. replace (S (length (x_graph st)) - (length (x_graph st) + 1)) with 0 by lia. reflexivity.
Qed.
Print Assumptions C07_repeat_empty_label.

(* a document that is not an xs:schema is refused with the library's exception *)
Theorem C07_not_a_schema : forall fuel e draws, is_tag (tag_of e) "schema" = false -> parse_xsd fuel e draws = LibErr EXmlSchema.
Proof. intros fuel e draws H. unfold parse_xsd. rewrite H. reflexivity. Qed.
Print Assumptions C07_not_a_schema.

(* non-vacuity: a schema with one element of a built-in type is parsed, and the first generated document is
   <root>foo</root> *)
Definition c07_schema : xml :=
  XEl (kw "schema") [] [XEl (kw "element") [(kw "name", kw "root"); (kw "type", kw "xs:string")] []].
Example C07_nonvacuous : exists st root,
  parse_xsd 50 c07_schema [] = Ok (st, root) /\
  xsample 50 st root [0] = Ok (XD (kw "root") [] (Some (kw "foo")) []).
Proof.
  destruct (parse_xsd 50 c07_schema []) as [[st root]| | |] eqn:E; try (vm_compute in E; discriminate).
  exists st, root. split; auto. vm_compute in E. inversion E; subst. vm_compute. reflexivity.
Qed.

(* parse_attribute on a declaration with a fixed value: the decision it returns offers exactly two branches -- the
   attribute left out, a leaf marked valid exactly when use is not "required" (also when the value is fixed), and the
   attribute present --, and the present branch has exactly two leaves: the fixed value marked valid and a different
   value marked invalid; nothing that was in the graph before is touched.  For every handler `rec` for the children,
   every declaration, every earlier graph. *)
From Fences Require Import XmlFence XmlLinks Graph.
Theorem C07_attribute_fixed_fence : forall rec e parsed p st st' super parsed',
  xpaylen st -> ahas "fixed" (attrs_of e) = true ->
  h_attribute rec e parsed p st = Ok (st', super, parsed') ->
  let n := xlen st in let g := x_graph st' in
  exists name fixed, aget (kw "name") (attrs_of e) = Some name /\ aget (kw "fixed") (attrs_of e) = Some fixed /\
    super = n /\ xlen st' = n + 5 /\ xpaylen st' /\
    kind_of g n = KDec false true /\ outs_of g n = [n + 1; n + 2] /\
    kind_of g (n + 1) = KLeaf (negb (attr_required e)) /\ xpay st' (n + 1) = XPNone /\ outs_of g (n + 1) = [] /\
    kind_of g (n + 2) = KDec false false /\ xpay st' (n + 2) = XPAttr name /\ outs_of g (n + 2) = [n + 3; n + 4] /\
    kind_of g (n + 3) = KLeaf true /\ xpay st' (n + 3) = XPSet fixed /\
    kind_of g (n + 4) = KLeaf false /\ xpay st' (n + 4) = XPSet (fixed ++ kw "_INVALID") /\
    fixed ++ kw "_INVALID" <> fixed /\
    (forall m, m < n -> kind_of g m = kind_of (x_graph st) m /\ outs_of g m = outs_of (x_graph st) m /\ xpay st' m = xpay st m).
Proof. exact attribute_fixed_fence. Qed.
Print Assumptions C07_attribute_fixed_fence.

(* non-vacuity: a required attribute with a fixed value is accepted by the handler, and its omission is marked invalid *)
Definition c07_attr : xml :=
  XEl (kw "attribute") [(kw "name", kw "version"); (kw "use", kw "required"); (kw "fixed", kw "1.0")] [].
Example C07_attribute_nonvacuous : exists st' parsed',
  h_attribute (fun _ _ st => Ok (st, 0)) c07_attr (map fst (attrs_of c07_attr)) [] (mkXbst [] [] []) = Ok (st', 0, parsed') /\
  xpaylen (mkXbst [] [] []) /\ ahas "fixed" (attrs_of c07_attr) = true /\
  kind_of (x_graph st') 1 = KLeaf false /\ parsed' = [].
Proof. eexists. eexists. split; [vm_compute; reflexivity|]. repeat split; vm_compute; reflexivity. Qed.

(* _repeat, whole structure: the decision it returns (a new node; nothing older is touched) offers only these
   alternatives -- no occurrence, marked valid exactly when minOccurs = 0; k occurrences of the child with k = minOccurs
   or k = maxOccurs (unbounded: minOccurs + 1), so minOccurs <= k <= maxOccurs, without any leaf of its own; or
   minOccurs - 1 occurrences (only when minOccurs > 1) followed by a leaf marked invalid.  For every child, every pair
   of bounds and every earlier graph. *)
Theorem C07_repeat_alternatives : forall child mn mx st st' root,
  child < xlen st -> repeat_node child mn mx st = Ok (st', root) ->
  let mx' := match mx with None => mn + 1 | Some m => m end in
  let g := x_graph st' in
  mn <= mx' /\ root = xlen st /\ root < xlen st' /\ kind_of g root = KDec false true /\
  (forall a, In a (outs_of g root) -> root < a < xlen st' /\
     ((kind_of g a = KLeaf (mn =? 0) /\ outs_of g a = []) \/
      (kind_of g a = KDec true true /\ exists k, outs_of g a = repeat child k /\ (k = mn \/ k = mx') /\ mn <= k <= mx') \/
      (kind_of g a = KDec true true /\ 1 < mn /\ exists l, outs_of g a = repeat child (mn - 1) ++ [l] /\
         root < l < length g /\ kind_of g l = KLeaf false /\ outs_of g l = []))) /\
  (forall m, m < xlen st -> kind_of g m = kind_of (x_graph st) m /\ outs_of g m = outs_of (x_graph st) m).
Proof.
  intros child mn mx st st' root Hc H mx' g.
  destruct (repeat_node_alternatives child mn mx st st' root Hc H) as (Hle & _ & R0 & R1 & R2 & R3 & R4).
  split; [exact Hle|]. split; [exact R0|]. split; [exact R1|]. split; [exact R2|]. split; [exact R3|exact R4].
Qed.
Print Assumptions C07_repeat_alternatives.

(* non-vacuity: minOccurs = 2, maxOccurs = 3 below an existing child gives the four alternatives 0 / 2 / 1+invalid / 3 *)
Example C07_repeat_nonvacuous : exists st' root,
  repeat_node 0 2 (Some 3) (fst (xnoop_leaf true None (mkXbst [] [] []))) = Ok (st', root) /\
  map (fun a => (kind_of (x_graph st') a, outs_of (x_graph st') a)) (outs_of (x_graph st') root) =
    [(KLeaf false, []); (KDec true true, [0; 0]); (KDec true true, [0; 5]); (KDec true true, [0; 0; 0])].
Proof. eexists. eexists. split; vm_compute; reflexivity. Qed.

(* ... and the boundary cases are all there: below the decision _repeat returns hang the "no occurrence" leaf, a
   do-all with exactly minOccurs occurrences when minOccurs > 0, a do-all with minOccurs - 1 occurrences and a leaf
   marked invalid when minOccurs > 1, and a do-all with exactly maxOccurs (unbounded: minOccurs + 1) occurrences when
   that differs from minOccurs. *)
Theorem C07_repeat_offers : forall child mn mx st st' root,
  child < xlen st -> repeat_node child mn mx st = Ok (st', root) ->
  let mx' := match mx with None => mn + 1 | Some m => m end in
  let g := x_graph st' in
  Has child root g (SEmpty (mn =? 0)) /\
  (0 < mn -> Has child root g (SK mn)) /\
  (1 < mn -> Has child root g (SInv (mn - 1))) /\
  (mx' <> mn -> Has child root g (SK mx')).
Proof. exact repeat_node_offers. Qed.
Print Assumptions C07_repeat_offers.

(* every attribute declaration the handler accepts (fixed, typed, or with an inline simple type), with the real
   recursive parser for its children, at any recursion budget, on any consistently built earlier graph: the node it
   returns is a choose-one decision; the node created right after it is the "attribute left out" leaf, and in the
   graph that is returned it is marked valid exactly when use is not "required"; the node after that starts the
   attribute.  (That the leaf and the start node are the decision's first two children is part of
   C07_attribute_fixed_fence for fixed declarations; for the others the children handlers run afterwards and the
   invariant that they only extend successor lists is not proved.) *)
Theorem C07_attribute_omission_label : forall fuel e parsed p st st' super parsed',
  gi st -> xpaylen st ->
  h_attribute (parse_element fuel) e parsed p st = Ok (st', super, parsed') ->
  let n := xlen st in let g := x_graph st' in
  super = n /\ n + 3 <= xlen st' /\
  kind_of g n = KDec false true /\ kind_of g (n + 1) = KLeaf (negb (attr_required e)) /\ kind_of g (n + 2) = KDec false false.
Proof.
  intros fuel e parsed p st st' super parsed' G P H.
  apply (attribute_omission_label (parse_element fuel) e parsed p st st' super parsed'); auto.
  intros c sp s s' n _ Gs Hs. exact (parse_element_good fuel c sp s s' n Gs Hs).
Qed.
Print Assumptions C07_attribute_omission_label.

(* the two numbers _parse_occurs hands to _repeat are the attribute values as written: minOccurs defaults to 1,
   maxOccurs to 1, "unbounded" is the only non-number, and maxOccurs="0" stays 0 (it is not treated as absent) *)
Theorem C07_occurs_read : forall a parsed mn mx parsed', parse_occurs a parsed = Ok (mn, mx, parsed') ->
  (match aget (kw "minOccurs") a with None => mn = 1 | Some s => parse_int s = Some mn end) /\
  (match aget (kw "maxOccurs") a with
   | None => mx = Some 1
   | Some s => if str_eqb s (kw "unbounded") then mx = None else parse_int s = mx /\ mx <> None
   end).
Proof. exact parse_occurs_spec. Qed.
Print Assumptions C07_occurs_read.
Example C07_occurs_zero : parse_occurs [(kw "minOccurs", kw "0"); (kw "maxOccurs", kw "0")] [] = Ok (0, Some 0, []).
Proof. vm_compute. reflexivity. Qed.

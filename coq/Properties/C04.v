(* C04 -- Decision graph: every generated path executes, exactly, to its target. *)
From Fences Require Import GraphSpec GraphLinks GraphExec GraphAnalysis GraphTheorems GraphCheck GraphRun GraphTerm GraphWalk.

(* every entry of generate_paths(): its path runs from the root, is consumed exactly (empty rest),
   and the run applies the leaf reported as target.  Holds for both code variants (partial
   correctness: whenever generate_paths yields the entry at all). *)
Theorem C04_exact : forall V g root fuel lr0 lv0 a es st e,
  wf g root -> (fix_reset V = true \/ forall s i, s < length g -> lv0 s i = None) ->
  generate_paths V fuel g root lr0 lv0 = Ok (a, (es, st)) -> In e es ->
  exists tr, exec fuel g root (epath e) = Ok (tr, []) /\ In (etarget e) tr /\
             is_leaf g (etarget e) = true.
Proof. intros V g root fuel lr0 lv0 a es st e W F GP. exact (paths_exact V g root W fuel lr0 lv0 a es st F GP e). Qed.
Print Assumptions C04_exact.

(* the interpreter is the stated reference semantics, for every path (generated or not) *)
Theorem C04_reference : forall g n p tr r,
  (exists f, exec f g n p = Ok (tr, r)) <-> Run g n p tr r.
Proof.
  intros g n p tr r. split.
  - intros [f H]. exact (exec_Run g f n p tr r H).
  - exact (Run_exec g n p tr r).
Qed.
Print Assumptions C04_reference.

Corollary C04_exact_reference : forall V g root fuel lr0 lv0 a es st e,
  wf g root -> (fix_reset V = true \/ forall s i, s < length g -> lv0 s i = None) ->
  generate_paths V fuel g root lr0 lv0 = Ok (a, (es, st)) -> In e es ->
  exists tr, Run g root (epath e) tr [] /\ In (etarget e) tr.
Proof.
  intros V g root fuel lr0 lv0 a es st e W F GP He.
  destruct (paths_exact V g root W fuel lr0 lv0 a es st F GP e He) as (tr & X & I & _).
  exists tr. split; auto. exact (exec_Run g fuel root (epath e) tr [] X).
Qed.
Print Assumptions C04_exact_reference.

(* the value returned is the result of the last leaf applied (Python's None when a do-all decision
   without branches ran last), and every node runs on the data its own parent decision produced:
   the value/data-flow interpreter execv refines exec *)
Theorem C04_value : forall g f n p tr r v,
  execv f g None n p = Ok (tr, r, v) ->
  exec f g n p = Ok (map fst tr, r) /\ v = ret_of g (map fst tr) /\
  exists tl, tr = (n, None) :: tl /\
    forall x q, In (x, Some q) tl -> is_dec g q = true /\ In x (outs_of g q).
Proof. intros g f n p tr r v H. exact (execv_spec g f None n p tr r v H). Qed.
Print Assumptions C04_value.

(* "executes without error" fails on the pinned code: _analyze_forwards looks an incoming record
   up by index only, so _backward can walk a cycle forever.  Productive 5-node witness: *)
Definition c04_witness : list op :=
  [NewNode (KDec false false) None; NewNode (KDec false false) None; NewNode (KDec false false) None;
   NewNode (KDec false false) None; NewNode (KLeaf true) None;
   AddT 0 1; AddT 3 2; AddT 1 2; AddT 2 3; AddT 2 4].

Theorem C04_no_error_refuted_pinned :
  wf (build c04_witness) 0 /\
  gp_entries V_pinned 300 (build c04_witness) 0 = Some ([], OutOfFuel) /\
  gp_entries V_fixed 300 (build c04_witness) 0 = Some ([mkEntry 4 [0; 0; 1] true], Ok tt).
Proof.
  split; [apply wfb_wf; vm_compute; reflexivity|]. split; vm_compute; reflexivity.
Qed.
Print Assumptions C04_no_error_refuted_pinned.

(* ... and holds for the repaired code: on every well-formed graph in which every decision has a completion
   made of valid leaves (or which has no cycle), generate_paths ends without error for every sufficiently
   large recursion budget, and every entry executes from the root, exactly, through its target *)
Theorem C04_no_error : forall V g root lr0 lv0,
  wf g root -> ((forall n, is_dec g n = true -> VC g n) \/ acyclic g) ->
  fix_af V = true -> (fix_reset V = true \/ (blank g lr0 /\ blank g lv0)) ->
  exists F a es, forall fuel, F <= fuel ->
    generate_paths V fuel g root lr0 lv0 = Ok (a, (es, Ok tt)) /\
    forall e, In e es -> exists tr, Run g root (epath e) tr [] /\ In (etarget e) tr.
Proof.
  intros V g root lr0 lv0 W HP FA HB.
  assert (T : exists F a es, forall fuel, F <= fuel -> generate_paths V fuel g root lr0 lv0 = Ok (a, (es, Ok tt))).
  { destruct HP as [HP|HP]; [apply generate_paths_terminates|apply generate_paths_terminates_acyclic]; auto. }
  destruct T as (F & a & es & HT). exists F, a, es. intros fuel Lf. split; [auto|].
  intros e He.
  assert (HB' : fix_reset V = true \/ forall s i, s < length g -> lv0 s i = None) by (destruct HB as [HB|[_ HB]]; auto).
  destruct (paths_exact V g root W fuel lr0 lv0 a es (Ok tt) HB' (HT fuel Lf) e He) as (tr & X & I & _).
  exists tr. split; auto. exact (exec_Run g fuel root (epath e) tr [] X).
Qed.
Print Assumptions C04_no_error.

Example C04_nonvacuous :
  exists es, gp_entries V_fixed 50 (build c04_witness) 0 = Some (es, Ok tt) /\ es <> [].
Proof. eexists. split; [vm_compute; reflexivity|discriminate]. Qed.

(* C09 -- Regex: every generated string matches the expression. *)
From Fences Require Import Regex GraphSpec GraphLinks GraphExec GraphAnalysis GraphTheorems GraphRun GraphOpt RegexLang.

(* Every complete execution of the graph that parse_regex builds for an expression r of the dialect -- after
   optimize() and the input / output wrappers, for every path, generated or not, and whatever the nesting of
   groups, classes and quantifiers -- yields a string that r matches in full (specification: [matches]). *)
Theorem C09_language : forall fuel r st root f p tr,
  parse_regex fuel r = Ok (st, root) ->
  exec f (b_graph st) root p = Ok (tr, []) ->
  matches r (output_of st tr).
Proof.
  intros fuel r st root f p tr H X.
  apply exec_Run in X. apply Run_Run0 in X. destruct X as (c & _ & R).
  exact (parse_regex_lang fuel r st root H c tr R).
Qed.
Print Assumptions C09_language.

(* every leaf of such a graph is a valid leaf ... *)
Theorem C09_leaves_valid : forall fuel r st root n v,
  parse_regex fuel r = Ok (st, root) -> kind_of (b_graph st) n = KLeaf v -> v = true.
Proof. intros fuel r st root n v H. exact (parse_regex_leaves_valid fuel r st root H n v). Qed.
Print Assumptions C09_leaves_valid.

(* ... hence every entry that generate_paths yields for it is labelled valid and its string matches r
   (well-formedness of the concrete graph is certified by wfb, stream W) *)
Theorem C09_entries : forall fuel r st root lr0 lv0 a es status e,
  parse_regex fuel r = Ok (st, root) -> wf (b_graph st) root ->
  generate_paths V_fixed fuel (b_graph st) root lr0 lv0 = Ok (a, (es, status)) -> In e es ->
  evalid e = true /\
  exists tr, exec fuel (b_graph st) root (epath e) = Ok (tr, []) /\ matches r (output_of st tr).
Proof.
  intros fuel r st root lr0 lv0 a es status e H W GP He.
  destruct (label_agrees V_fixed (b_graph st) root W fuel lr0 lv0 a es status (or_introl eq_refl) GP eq_refl e He)
    as (tr & X & [_ L]).
  split.
  - apply L. unfold invalid_leaves.
    assert (G : forall l, filter (leaf_is (b_graph st) false) l = []).
    { induction l as [|x l IH]; [reflexivity|]. cbn [filter].
      destruct (leaf_is (b_graph st) false x) eqn:E; [|exact IH].
      unfold leaf_is in E. destruct (kind_of (b_graph st) x) as [v| |] eqn:K; try discriminate.
      rewrite (parse_regex_leaves_valid fuel r st root H x v K) in E. discriminate. }
    apply G.
  - exists tr. split; auto. eapply C09_language; eauto.
Qed.
Print Assumptions C09_entries.

(* {n,m} with n > m, and ranges a-b with a > b, are rejected with the library's exception *)
Theorem C09_bad_bounds_rejected : forall n m, m < n -> rep_of (QRange n (Some (Some m))) = LibErr ERegex.
Proof. intros n m H. simpl. destruct (Nat.ltb_spec m n); [reflexivity|lia]. Qed.
Print Assumptions C09_bad_bounds_rejected.

(* non-vacuity: (ab|c){1,2}[x-z] is parsed, has executions, and one of them yields "abx" *)
Definition c09_example : regex :=
  RAlt1 (SCons (IGroup false (RAlt (SCons (IChar 97 None) (SOne (IChar 98 None))) (RAlt1 (SOne (IChar 99 None))))
                        (Some (QRange 1 (Some (Some 2)))))
               (SOne (IClass (CRange 120 122) [] None))).
Example C09_nonvacuous : exists st root p tr,
  parse_regex 100 c09_example = Ok (st, root) /\ exec 100 (b_graph st) root p = Ok (tr, []) /\
  output_of st tr = [97; 98; 120].
Proof.
  destruct (parse_regex 100 c09_example) as [[st root]| | |] eqn:E; try (vm_compute in E; discriminate).
  exists st, root. vm_compute in E. inversion E; subst. clear E.
  eexists [0; 0; 0; 0; 0; 0]. eexists. split; [reflexivity|].
  split; vm_compute; reflexivity.
Qed.

(* C09 -- Regex: every generated string matches the expression. (placeholder: theorems are added
   in coq/RegexProofs.v as they are closed) *)
From Fences Require Import Regex.

(* {n,m} with n > m, and ranges a-b with a > b, are rejected with the library's exception *)
Theorem C09_bad_bounds_rejected : forall n m, m < n -> rep_of (QRange n (Some (Some m))) = LibErr ERegex.
Proof. intros n m H. simpl. destruct (Nat.ltb_spec m n); [reflexivity|lia]. Qed.
Print Assumptions C09_bad_bounds_rejected.

(* JsonLeaves.v -- the values emitted by the type handlers of json_schema/parse.py satisfy (valid leaves) or
   violate (invalid leaves) the assertions the handler read: leaf lemmas of C01 / C02 / C12. *)
From Fences Require Import JsonGen.
From Coq Require Import ZArith Lia.
Local Open Scope Z_scope.

Definition num_ok (mn mx mo : option Z) (v : Z) : Prop :=
  (forall lo, mn = Some lo -> lo <= v) /\
  (forall hi, mx = Some hi -> v <= hi) /\
  (forall m, mo = Some m -> m <> 0 -> exists k, v = k * m).

(* the conjunction bounds + multipleOf has an integer solution *)
Definition num_sat (mn mx mo : option Z) : Prop := exists x, num_ok mn mx mo x.

Lemma floor_mult_le v m : 0 < m -> v / m * m <= v.
Proof. intros H. pose proof (Z.mul_div_le v m H). lia. Qed.

Lemma floor_mult_gt v m : 0 < m -> v < v / m * m + m.
Proof. intros H. pose proof (Z.mod_pos_bound v m H). pose proof (Z.div_mod v m ltac:(lia)). lia. Qed.

(* every multiple x of m with x <= v is <= floor(v/m)*m, every multiple >= v is >= ... *)
Lemma mult_le_floor v m k : 0 < m -> k * m <= v -> k * m <= v / m * m.
Proof.
  intros H L. assert (k <= v / m) by (apply Z.div_le_lower_bound; lia).
  apply Z.mul_le_mono_nonneg_r; lia.
Qed.

Lemma mult_ge_next v m k : 0 < m -> v / m * m < v -> v <= k * m -> v / m * m + m <= k * m.
Proof.
  intros H L G.
  assert (v / m < k).
  { destruct (Z.lt_ge_cases (v / m) k) as [A|A]; auto.
    assert (k * m <= v / m * m) by (apply Z.mul_le_mono_nonneg_r; lia). lia. }
  replace (v / m * m + m) with ((v / m + 1) * m) by ring.
  apply Z.mul_le_mono_nonneg_r; lia.
Qed.

(* C01 leaf: the valid number satisfies the bounds and multipleOf it was built from, whenever they
   have an integer solution at all and multipleOf is positive (as the metaschema demands) *)
Theorem number_valid_ok : forall mn mx mo,
  (forall m, mo = Some m -> 0 < m) ->
  num_sat mn mx mo ->
  num_ok mn mx mo (number_valid_value mn mx mo).
Proof.
  intros mn mx mo Mpos [x (Xlo & Xhi & Xm)].
  unfold number_valid_value.
  destruct mo as [m|].
  - pose proof (Mpos m eq_refl) as Hm. destruct (Z.eqb_spec m 0) as [E0|_]; [lia|].
    destruct (Xm m eq_refl ltac:(lia)) as [k ->]. clear Xm.
    assert (Mult : forall v, (forall m0, Some m = Some m0 -> m0 <> 0 -> exists k0, v / m * m = k0 * m0)).
    { intros v m0 E _. inversion E; subst. exists (v / m0). reflexivity. }
    assert (Mult1 : forall v, (forall m0, Some m = Some m0 -> m0 <> 0 -> exists k0, v / m * m + m = k0 * m0)).
    { intros v m0 E _. inversion E; subst. exists (v / m0 + 1). ring. }
    destruct mn as [lo|].
    + specialize (Xlo lo eq_refl).
      destruct (Z.eqb_spec lo 0) as [->|Nz]; simpl.
      * (* minimum = 0 is falsy: the value starts from the maximum *)
        destruct mx as [hi|].
        -- specialize (Xhi hi eq_refl).
           destruct (Z.eqb_spec hi 0) as [->|Nh]; simpl.
           ++ try (rewrite Z.div_0_l by lia); simpl. split; [intros ? E; inversion E; lia|].
              split; [intros ? E; inversion E; lia|]. intros m0 E _. inversion E; subst. exists 0. ring.
           ++ pose proof (floor_mult_le hi m Hm). pose proof (mult_le_floor hi m k Hm Xhi).
              destruct (Z.ltb_spec (hi / m * m) 0); [lia|]. set (q := hi / m * m) in *.
              split; [intros ? E; inversion E; lia|]. split; [intros ? E; inversion E; lia|apply Mult].
        -- try (rewrite Z.div_0_l by lia); simpl. split; [intros ? E; inversion E; lia|].
           split; [intros ? E; discriminate|]. intros m0 E _. inversion E; subst. exists 0. ring.
      * pose proof (floor_mult_le lo m Hm). pose proof (floor_mult_gt lo m Hm).
        destruct (Z.ltb_spec (lo / m * m) lo).
        -- pose proof (mult_ge_next lo m k Hm H1 Xlo). set (q := lo / m * m) in *.
           split; [intros ? E; inversion E; lia|]. split; [|apply Mult1].
           intros hi E. specialize (Xhi hi E). lia.
        -- set (q := lo / m * m) in *. split; [intros ? E; inversion E; lia|]. split; [|apply Mult].
           intros hi E. specialize (Xhi hi E). lia.
    + simpl. destruct mx as [hi|].
      * specialize (Xhi hi eq_refl). destruct (Z.eqb_spec hi 0) as [->|Nh]; simpl.
        -- try (rewrite Z.div_0_l by lia); simpl. split; [intros ? E; discriminate|].
           split; [intros ? E; inversion E; lia|]. intros m0 E _. inversion E; subst. exists 0. ring.
        -- pose proof (floor_mult_le hi m Hm). set (q := hi / m * m) in *.
           split; [intros ? E; discriminate|]. split; [intros ? E; inversion E; lia|apply Mult].
      * try (rewrite Z.div_0_l by lia); simpl. split; [intros ? E; discriminate|].
        split; [intros ? E; discriminate|]. intros m0 E _. inversion E; subst. exists 0. ring.
  - clear Xm. destruct mn as [lo|]; destruct mx as [hi|]; simpl;
      repeat match goal with
             | |- context [Z.eqb ?a 0] => destruct (Z.eqb_spec a 0); simpl
             end;
      try specialize (Xlo _ eq_refl); try specialize (Xhi _ eq_refl);
      (split; [intros ? E; inversion E; subst; lia|split; [intros ? E; inversion E; subst; lia|intros ? E; discriminate]]).
Qed.

(* C02 / C12 leaves: each invalid number violates exactly the bound it was built from *)
Theorem number_invalid_violates : forall mn mx v,
  In v (number_invalid_values mn mx) ->
  (exists lo, mn = Some lo /\ v = lo - 1) \/ (exists hi, mx = Some hi /\ v = hi + 1).
Proof.
  intros mn mx v H. unfold number_invalid_values in H. apply in_app_or in H.
  destruct H as [H|H]; [left; destruct mn as [lo|]|right; destruct mx as [hi|]]; simpl in H;
    try contradiction; destruct H as [<-|[]]; eauto.
Qed.

(* C12, numeric bound on a number without multipleOf: the value just outside the deleted bound is rejected by
   the schema and accepted once that bound is deleted (when the range is non-empty) *)
Theorem number_bound_fenced_low : forall lo mx,
  (forall hi, mx = Some hi -> lo <= hi) ->
  ~ num_ok (Some lo) mx None (lo - 1) /\ num_ok None mx None (lo - 1).
Proof.
  intros lo mx H. split.
  - intros (A & _ & _). specialize (A lo eq_refl). lia.
  - split; [intros ? E; discriminate|]. split; [|intros ? E; discriminate].
    intros hi E. specialize (H hi E). lia.
Qed.

Theorem number_bound_fenced_high : forall mn hi,
  (forall lo, mn = Some lo -> lo <= hi) ->
  ~ num_ok mn (Some hi) None (hi + 1) /\ num_ok mn None None (hi + 1).
Proof.
  intros mn hi H. split.
  - intros (_ & A & _). specialize (A hi eq_refl). lia.
  - split; [|split; intros ? E; discriminate].
    intros lo E. specialize (H lo E). lia.
Qed.

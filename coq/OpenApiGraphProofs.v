(* OpenApiGraphProofs.v -- the request graph of generate_all is well formed, its runs take exactly
   one option per group, and the label of a generated path is the conjunction of the flags of the
   options it takes (C10). *)
From Fences Require Import GraphSpec GraphLinks GraphExec GraphAnalysis GraphTheorems GraphCheck GraphRun.
From Fences Require Import OpenApi OpenApiProofs OpenApiGraph.

(* ---------- the layout ---------- *)
Lemma locate_spec : forall rs x j i v,
  locate rs x = Some (j, i, v) <->
  exists r, nth_error rs j = Some r /\ nth_error r i = Some v /\ x = offs rs j + i.
Proof.
  induction rs as [|r rs IH]; intros x j i v; cbn [locate].
  - split; [discriminate|]. intros (r & H & _). destruct j; discriminate.
  - destruct (x <? length r) eqn:E.
    + apply Nat.ltb_lt in E. split.
      * destruct (nth_error r x) as [v'|] eqn:N; cbn [option_map]; [|discriminate].
        intros H. inversion H; subst. exists r. cbn. auto.
      * intros (r' & Hj & Hi & Hx). destruct j as [|j]; cbn in Hj, Hx.
        -- inversion Hj; subst r'. subst x. rewrite Hi. reflexivity.
        -- lia.
    + apply Nat.ltb_ge in E. split.
      * destruct (locate rs (x - length r)) as [[[j' i'] v']|] eqn:L; cbn [option_map]; [|discriminate].
        intros H. inversion H; subst. apply IH in L. destruct L as (r' & A & B & C).
        exists r'. cbn. repeat split; auto. lia.
      * intros (r' & Hj & Hi & Hx). destruct j as [|j]; cbn in Hj, Hx.
        -- inversion Hj; subst r'. assert (i < length r) by (apply nth_error_Some; congruence). lia.
        -- assert (L : locate rs (x - length r) = Some (j, i, v)).
           { apply IH. exists r'. repeat split; auto. lia. }
           rewrite L. reflexivity.
Qed.

Lemma locate_some : forall rs x, x < total rs -> exists j i v, locate rs x = Some (j, i, v).
Proof.
  unfold total. induction rs as [|r rs IH]; intros x H; cbn in H; [lia|]. cbn [locate].
  destruct (x <? length r) eqn:E.
  - apply Nat.ltb_lt in E. destruct (nth_error r x) as [v|] eqn:N.
    + exists 0, x, v. reflexivity.
    + apply nth_error_None in N. lia.
  - apply Nat.ltb_ge in E. destruct (IH (x - length r)) as (j & i & v & L); [lia|].
    rewrite L. exists (S j), i, v. reflexivity.
Qed.

Lemma offs_total : forall rs j r i, nth_error rs j = Some r -> i < length r -> offs rs j + i < total rs.
Proof.
  unfold total. induction rs as [|r0 rs IH]; intros j r i Hj Hi; destruct j; cbn in *; try discriminate.
  - inversion Hj; subst. lia.
  - specialize (IH _ _ _ Hj Hi). lia.
Qed.

Section Tree2.
Variable rs : list (list bool).
Let m := length rs.
Let g := tree2 rs.

Lemma tree2_length : length g = 1 + m + total rs.
Proof. unfold g, tree2. rewrite map_length, seq_length. reflexivity. Qed.

Lemma getn_tree2 n : n < 1 + m + total rs -> getn g n = node_at rs n.
Proof.
  intros H. unfold getn, g, tree2.
  apply nth_error_nth. erewrite map_nth_error; [reflexivity|].
  rewrite nth_error_seq_lt by exact H. reflexivity.
Qed.

Lemma getn_out n : 1 + m + total rs <= n -> getn g n = dummy.
Proof. intros H. unfold getn. apply nth_overflow. rewrite tree2_length. exact H. Qed.

Lemma node_root : getn g 0 = mkNode (KDec true false) None (seq 1 m) [].
Proof. rewrite getn_tree2 by lia. reflexivity. Qed.

Lemma node_dec j r : nth_error rs j = Some r ->
  getn g (S j) = mkNode (KDec false true) None (seq (leaf_ix rs j 0) (length r)) [(0, j)].
Proof.
  intros H. assert (j < m) by (apply nth_error_Some; congruence).
  rewrite getn_tree2 by lia. unfold node_at. fold m.
  replace (S j =? 0) with false by (symmetry; apply Nat.eqb_neq; lia).
  replace (S j <=? m) with true by (symmetry; apply Nat.leb_le; lia).
  replace (S j - 1) with j by lia.
  rewrite (nth_error_nth _ _ _ H). reflexivity.
Qed.

Lemma node_leaf j r i v : nth_error rs j = Some r -> nth_error r i = Some v ->
  getn g (leaf_ix rs j i) = mkNode (KLeaf v) None [] [(S j, i)].
Proof.
  intros Hj Hi. assert (i < length r) by (apply nth_error_Some; congruence).
  pose proof (offs_total _ _ _ _ Hj H) as T.
  unfold leaf_ix. fold m. rewrite getn_tree2 by lia. unfold node_at. fold m.
  replace (1 + m + offs rs j + i =? 0) with false by (symmetry; apply Nat.eqb_neq; lia).
  replace (1 + m + offs rs j + i <=? m) with false by (symmetry; apply Nat.leb_gt; lia).
  replace (1 + m + offs rs j + i - 1 - m) with (offs rs j + i) by lia.
  assert (L : locate rs (offs rs j + i) = Some (j, i, v)) by (apply locate_spec; exists r; auto).
  rewrite L. reflexivity.
Qed.

(* every index of the table is the root, a group or a leaf *)
Lemma node_cases n : n < length g ->
  n = 0 \/ (exists j r, n = S j /\ nth_error rs j = Some r) \/
  (exists j r i v, n = leaf_ix rs j i /\ nth_error rs j = Some r /\ nth_error r i = Some v).
Proof.
  rewrite tree2_length. intros H.
  destruct (Nat.eq_dec n 0) as [->|N0]; [left; reflexivity|]. right.
  destruct (le_lt_dec n m) as [L|L].
  - left. destruct (nth_error rs (n - 1)) as [r|] eqn:E.
    + exists (n - 1), r. split; [lia|exact E].
    + apply nth_error_None in E. fold m in E. lia.
  - right. destruct (locate_some rs (n - 1 - m)) as (j & i & v & Lc); [lia|].
    apply locate_spec in Lc. destruct Lc as (r & A & B & C).
    exists j, r, i, v. unfold leaf_ix. fold m. repeat split; auto. lia.
Qed.

Hypothesis groups : rs <> [].
Hypothesis nonempty : forall r, In r rs -> r <> [].

Lemma tree2_wf : wf g 0.
Proof.
  assert (M : 0 < m) by (unfold m; destruct rs; [congruence|cbn; lia]).
  constructor.
  - split.
    + (* ins_ok *)
      intros n s i H.
      destruct (le_lt_dec (length g) n) as [O|O].
      { rewrite tree2_length in O. unfold ins_of in H. rewrite getn_out in H by exact O. destruct H. }
      destruct (node_cases n O) as [->|[(j & r & -> & Hj)|(j & r & i' & v & -> & Hj & Hi)]];
        unfold ins_of in H.
      * rewrite node_root in H. destruct H.
      * rewrite (node_dec j r Hj) in H. cbn in H. destruct H as [H|[]]. inversion H; subst s i.
        unfold is_dec, kind_of, outs_of. rewrite node_root. cbn [nkind outs]. split; [reflexivity|].
        assert (j < m) by (apply nth_error_Some; congruence).
        rewrite nth_error_seq_lt by lia. reflexivity.
      * rewrite (node_leaf j r i' v Hj Hi) in H. cbn in H. destruct H as [H|[]]. inversion H; subst s i.
        unfold is_dec, kind_of, outs_of. rewrite (node_dec j r Hj). cbn [nkind outs]. split; [reflexivity|].
        assert (i' < length r) by (apply nth_error_Some; congruence).
        rewrite nth_error_seq_lt by lia. unfold leaf_ix. f_equal. lia.
    + (* outs_ok *)
      intros s i t H.
      destruct (le_lt_dec (length g) s) as [O|O].
      { rewrite tree2_length in O. unfold outs_of in H. rewrite getn_out in H by exact O. destruct i; discriminate. }
      destruct (node_cases s O) as [->|[(j & r & -> & Hj)|(j & r & i' & v & -> & Hj & Hi)]];
        unfold outs_of in H.
      * rewrite node_root in H. cbn [outs] in H.
        assert (i < m). { rewrite <- (seq_length m 1). apply nth_error_Some. congruence. }
        rewrite nth_error_seq_lt in H by lia. inversion H; subst t.
        destruct (nth_error rs i) as [r|] eqn:E; [|apply nth_error_None in E; fold m in E; lia].
        unfold ins_of. rewrite (node_dec i r E). left. reflexivity.
      * rewrite (node_dec j r Hj) in H. cbn [outs] in H.
        assert (i < length r). { rewrite <- (seq_length (length r) (leaf_ix rs j 0)). apply nth_error_Some. congruence. }
        rewrite nth_error_seq_lt in H by lia.
        assert (T : t = leaf_ix rs j i) by (unfold leaf_ix in *; injection H; lia). subst t.
        destruct (nth_error r i) as [v|] eqn:E; [|apply nth_error_None in E; lia].
        unfold ins_of. rewrite (node_leaf j r i v Hj E). left. reflexivity.
      * rewrite (node_leaf j r i' v Hj Hi) in H. destruct i; discriminate.
  - (* norefs *)
    intros n name. unfold kind_of.
    destruct (le_lt_dec (length g) n) as [O|O].
    { rewrite tree2_length in O. rewrite getn_out by exact O. discriminate. }
    destruct (node_cases n O) as [->|[(j & r & -> & Hj)|(j & r & i' & v & -> & Hj & Hi)]].
    + rewrite node_root. discriminate.
    + rewrite (node_dec j r Hj). discriminate.
    + rewrite (node_leaf j r i' v Hj Hi). discriminate.
  - (* nonempty_decs *)
    intros n D. unfold is_dec, kind_of in D. unfold outs_of.
    destruct (le_lt_dec (length g) n) as [O|O].
    { rewrite tree2_length in O. rewrite getn_out in D by exact O. discriminate. }
    destruct (node_cases n O) as [->|[(j & r & -> & Hj)|(j & r & i' & v & -> & Hj & Hi)]].
    + rewrite node_root. cbn [outs]. destruct m; [lia|discriminate].
    + rewrite (node_dec j r Hj). cbn [outs].
      assert (r <> []) by (apply nonempty; eapply nth_error_In; eauto).
      destruct r; [congruence|discriminate].
    + rewrite (node_leaf j r i' v Hj Hi) in D. discriminate.
  - (* reach *)
    intros n O.
    assert (RD : forall j r, nth_error rs j = Some r -> reach g 0 (S j)).
    { intros j r Hj. apply (reach_step g 0 0 j); [constructor|].
      unfold outs_of. rewrite node_root. cbn [outs].
      assert (j < m) by (apply nth_error_Some; congruence).
      rewrite nth_error_seq_lt by lia. reflexivity. }
    destruct (node_cases n O) as [->|[(j & r & -> & Hj)|(j & r & i' & v & -> & Hj & Hi)]].
    + constructor.
    + eauto.
    + apply (reach_step g 0 (S j) i'); [eauto|].
      unfold outs_of. rewrite (node_dec j r Hj). cbn [outs].
      assert (i' < length r) by (apply nth_error_Some; congruence).
      rewrite nth_error_seq_lt by lia. unfold leaf_ix. f_equal. lia.
  - rewrite tree2_length. lia.
  - unfold ins_of. rewrite node_root. reflexivity.
Qed.

End Tree2.

(* ---------- inversion of runs at a node of known kind ---------- *)
Lemma RunAll_cons_inv g t ts p trs r : RunAll g (t :: ts) p trs r ->
  exists tr p' trs', Run g t p tr p' /\ RunAll g ts p' trs' r /\ trs = tr ++ trs'.
Proof. intros H. inversion H; subst. eauto 7. Qed.
Lemma RunAll_nil_inv g p trs r : RunAll g [] p trs r -> trs = [] /\ r = p.
Proof. intros H. inversion H; subst. auto. Qed.
Lemma Run_leaf_inv g n v p tr r : kind_of g n = KLeaf v -> Run g n p tr r -> tr = [n] /\ r = p.
Proof. intros K H. inversion H; subst; try congruence. auto. Qed.
Lemma Run_one_inv g n noop p tr r : kind_of g n = KDec false noop -> Run g n p tr r ->
  exists i t p' tr', p = i :: p' /\ nth_error (outs_of g n) i = Some t /\ Run g t p' tr' r /\ tr = n :: tr'.
Proof. intros K H. inversion H; subst; try congruence. eauto 9. Qed.
Lemma Run_all_inv g n noop p tr r : kind_of g n = KDec true noop -> Run g n p tr r ->
  exists trs, tr = n :: trs /\ RunAll g (outs_of g n) p trs r.
Proof. intros K H. inversion H; subst; try congruence. eauto. Qed.

Lemma nth_error_app_mid {A} (l1 : list A) x l2 : nth_error (l1 ++ x :: l2) (length l1) = Some x.
Proof. rewrite nth_error_app2 by lia. rewrite Nat.sub_diag. reflexivity. Qed.

Section Runs.
Variable rs : list (list bool).
Let g := tree2 rs.

(* a run of the groups k, k+1, ... takes one option in each, and applies that leaf only *)
Lemma run_groups : forall rs2 rs1 p trs r,
  rs = rs1 ++ rs2 -> RunAll g (seq (S (length rs1)) (length rs2)) p trs r ->
  exists ix vs, p = ix ++ r /\ pickv rs2 ix = Some vs /\ trs = trace_of rs (length rs1) ix /\
                (invalid_leaves g trs = [] <-> forallb (fun b => b) vs = true).
Proof.
  induction rs2 as [|r2 rs2 IH]; intros rs1 p trs r E R.
  - cbn in R. apply RunAll_nil_inv in R. destruct R as [-> ->].
    exists [], []. cbn. repeat split; auto.
  - cbn [length seq] in R. apply RunAll_cons_inv in R. destruct R as (tr & p' & trs' & R1 & R2 & ->).
    assert (Hk : nth_error rs (length rs1) = Some r2) by (rewrite E; apply nth_error_app_mid).
    pose proof (node_dec rs _ _ Hk) as ND. fold g in ND.
    assert (KD : kind_of g (S (length rs1)) = KDec false true) by (unfold kind_of; rewrite ND; reflexivity).
    destruct (Run_one_inv _ _ _ _ _ _ KD R1) as (i & t & p1 & tr1 & -> & Ht & R3 & ->).
    unfold outs_of in Ht. rewrite ND in Ht. cbn [outs] in Ht.
    assert (Li : i < length r2). { rewrite <- (seq_length (length r2) (leaf_ix rs (length rs1) 0)). apply nth_error_Some. congruence. }
    rewrite nth_error_seq_lt in Ht by lia.
    assert (T : t = leaf_ix rs (length rs1) i) by (unfold leaf_ix in *; injection Ht; lia). subst t. clear Ht.
    destruct (nth_error r2 i) as [v|] eqn:Hv; [|apply nth_error_None in Hv; lia].
    pose proof (node_leaf rs _ _ _ _ Hk Hv) as NL. fold g in NL.
    assert (KL : kind_of g (leaf_ix rs (length rs1) i) = KLeaf v) by (unfold kind_of; rewrite NL; reflexivity).
    destruct (Run_leaf_inv _ _ _ _ _ _ KL R3) as [-> ->].
    assert (E' : rs = (rs1 ++ [r2]) ++ rs2) by (rewrite <- app_assoc; exact E).
    assert (L' : length (rs1 ++ [r2]) = S (length rs1)) by (rewrite app_length; cbn; lia).
    specialize (IH (rs1 ++ [r2]) p1 trs' r E'). rewrite L' in IH. specialize (IH R2).
    destruct IH as (ix & vs & -> & Pv & -> & Iv).
    exists (i :: ix), (v :: vs). cbn [pickv trace_of app forallb]. rewrite Hv, Pv.
    repeat split; auto.
    + unfold invalid_leaves in *. cbn [filter app].
      assert (F1 : leaf_is g false (S (length rs1)) = false) by (unfold leaf_is; rewrite KD; reflexivity).
      assert (F2 : leaf_is g false (leaf_ix rs (length rs1) i) = negb v) by (unfold leaf_is; rewrite KL; destruct v; reflexivity).
      rewrite F1, F2. destruct v; cbn [negb andb]; [exact (proj1 Iv)|discriminate].
    + unfold invalid_leaves in *. cbn [filter app].
      assert (F1 : leaf_is g false (S (length rs1)) = false) by (unfold leaf_is; rewrite KD; reflexivity).
      assert (F2 : leaf_is g false (leaf_ix rs (length rs1) i) = negb v) by (unfold leaf_is; rewrite KL; destruct v; reflexivity).
      rewrite F1, F2. destruct v; cbn [negb andb]; [exact (proj2 Iv)|discriminate].
Qed.

(* every complete run from the root: one option per group; the trace; the invalid leaves applied *)
Theorem tree2_run p tr : Run g 0 p tr [] ->
  exists vs, pickv rs p = Some vs /\ tr = 0 :: trace_of rs 0 p /\
             (invalid_leaves g tr = [] <-> forallb (fun b => b) vs = true).
Proof.
  intros R.
  assert (KR : kind_of g 0 = KDec true false) by (unfold kind_of, g; rewrite node_root; reflexivity).
  destruct (Run_all_inv _ _ _ _ _ _ KR R) as (trs & -> & RA).
  unfold outs_of, g in RA. rewrite node_root in RA. cbn [outs] in RA.
  destruct (run_groups rs [] p trs [] eq_refl RA) as (ix & vs & -> & Pv & -> & Iv).
  rewrite app_nil_r. exists vs. repeat split; auto.
  - intros H. apply Iv. unfold invalid_leaves in *. cbn [filter] in H.
    replace (leaf_is (tree2 rs) false 0) with false in H by (unfold leaf_is; fold g; rewrite KR; reflexivity). exact H.
  - intros H. unfold invalid_leaves. cbn [filter].
    replace (leaf_is (tree2 rs) false 0) with false by (unfold leaf_is; fold g; rewrite KR; reflexivity).
    apply Iv. exact H.
Qed.

(* conversely, every choice of one option per group is a run *)
Lemma groups_run : forall rs2 rs1 ix vs r,
  rs = rs1 ++ rs2 -> pickv rs2 ix = Some vs ->
  RunAll g (seq (S (length rs1)) (length rs2)) (ix ++ r) (trace_of rs (length rs1) ix) r.
Proof.
  induction rs2 as [|r2 rs2 IH]; intros rs1 ix vs r E P.
  - destruct ix; cbn in P; [|discriminate]. cbn. constructor.
  - destruct ix as [|i ix]; cbn [pickv] in P; [discriminate|].
    destruct (nth_error r2 i) as [v|] eqn:Hv; [|discriminate].
    destruct (pickv rs2 ix) as [vs'|] eqn:P'; [|discriminate].
    assert (Hk : nth_error rs (length rs1) = Some r2) by (rewrite E; apply nth_error_app_mid).
    pose proof (node_dec rs _ _ Hk) as ND. fold g in ND.
    pose proof (node_leaf rs _ _ _ _ Hk Hv) as NL. fold g in NL.
    assert (Li : i < length r2) by (apply nth_error_Some; congruence).
    cbn [length seq trace_of app].
    change (S (length rs1) :: leaf_ix rs (length rs1) i :: trace_of rs (S (length rs1)) ix)
      with ([S (length rs1); leaf_ix rs (length rs1) i] ++ trace_of rs (S (length rs1)) ix).
    apply RunAll_cons with (p' := ix ++ r).
    + apply Run_one with (noop := true) (t := leaf_ix rs (length rs1) i).
      * unfold kind_of. rewrite ND. reflexivity.
      * unfold outs_of. rewrite ND. cbn [outs]. rewrite nth_error_seq_lt by lia. unfold leaf_ix. f_equal. lia.
      * apply Run_leaf with (v := v). unfold kind_of. rewrite NL. reflexivity.
    + assert (E' : rs = (rs1 ++ [r2]) ++ rs2) by (rewrite <- app_assoc; exact E).
      assert (L' : length (rs1 ++ [r2]) = S (length rs1)) by (rewrite app_length; cbn; lia).
      specialize (IH (rs1 ++ [r2]) ix vs' r E' P'). rewrite L' in IH. exact IH.
Qed.

Theorem tree2_run_conv p vs : pickv rs p = Some vs -> Run g 0 p (0 :: trace_of rs 0 p) [].
Proof.
  intros P. apply Run_all with (noop := false).
  - unfold kind_of, g. rewrite node_root. reflexivity.
  - unfold outs_of, g. rewrite node_root. cbn [outs].
    pose proof (groups_run rs [] p vs [] eq_refl P) as H. rewrite app_nil_r in H. exact H.
Qed.

End Runs.

(* ---------- the label of a generated request ---------- *)
Lemma picks_pickv : forall pl p, pickv (plan_rows pl) p = option_map (map fst) (picks pl p).
Proof.
  induction pl as [|gr pl IH]; intros [|i p]; cbn [plan_rows map pickv picks option_map]; auto.
  rewrite nth_error_map. fold (plan_rows pl). rewrite IH.
  destruct (nth_error (options gr) i) as [o|]; cbn [option_map]; auto.
  destruct (picks pl p); reflexivity.
Qed.

Lemma forallb_fst (cs : list (bool * choice)) : forallb (fun b => b) (map fst cs) = forallb fst cs.
Proof. induction cs as [|c cs IH]; cbn; auto. rewrite IH. reflexivity. Qed.

Lemma plan_rows_ok pl : pl <> [] -> (forall gr, In gr pl -> options gr <> []) ->
  plan_rows pl <> [] /\ forall r, In r (plan_rows pl) -> r <> [].
Proof.
  intros N H. split.
  - destruct pl; [congruence|discriminate].
  - intros r Hr. unfold plan_rows in Hr. apply in_map_iff in Hr. destruct Hr as (gr & <- & Hg).
    specialize (H gr Hg). destruct (options gr); [congruence|discriminate].
Qed.

Lemma bare_wf : wf bare_graph 0.
Proof. apply wfb_wf. vm_compute. reflexivity. Qed.

Lemma bare_run p tr : Run bare_graph 0 p tr [] -> p = [] /\ tr = [0; 1].
Proof.
  intros R.
  destruct (Run_all_inv bare_graph 0 false _ _ _ eq_refl R) as (trs & -> & RA).
  change (outs_of bare_graph 0) with [1] in RA.
  apply RunAll_cons_inv in RA. destruct RA as (tr & p' & trs' & R1 & R2 & ->).
  apply RunAll_nil_inv in R2. destruct R2 as [-> E]. subst p'.
  destruct (Run_leaf_inv bare_graph 1 true _ _ _ eq_refl R1) as [-> E]. auto.
Qed.

(* Every entry that generate_paths yields for the request graph of a plan: its path takes exactly one
   option in every group, in the order of the plan; executing it applies the leaves of those options
   and no other leaf; and the entry is labelled valid exactly when every option taken is flagged valid. *)
Theorem request_label : forall pl fuel lr0 lv0 a es st e,
  (forall gr, In gr pl -> options gr <> []) ->
  generate_paths V_fixed fuel (plan_graph pl) 0 lr0 lv0 = Ok (a, (es, st)) -> In e es ->
  exists cs, picks pl (epath e) = Some cs /\ evalid e = forallb fst cs /\
    Run (plan_graph pl) 0 (epath e)
        (0 :: match pl with [] => [1] | _ => trace_of (plan_rows pl) 0 (epath e) end) [].
Proof.
  intros pl fuel lr0 lv0 a es st e NE GP He.
  destruct pl as [|gr0 pl0].
  - cbn [plan_graph] in *.
    destruct (label_agrees V_fixed bare_graph 0 bare_wf fuel lr0 lv0 a es st (or_introl eq_refl) GP eq_refl e He)
      as (tr & X & L).
    apply exec_Run in X. destruct (bare_run _ _ X) as [Ep ->]. rewrite Ep in *.
    exists []. cbn [picks forallb]. repeat split; auto.
    apply L. vm_compute. reflexivity.
  - remember (gr0 :: pl0) as pl eqn:Epl.
    assert (N : pl <> []) by (subst pl; discriminate).
    destruct (plan_rows_ok pl N NE) as [R1 R2].
    assert (G : plan_graph pl = tree2 (plan_rows pl)) by (subst pl; reflexivity).
    rewrite G in *.
    pose proof (tree2_wf (plan_rows pl) R1 R2) as W.
    destruct (label_agrees V_fixed _ 0 W fuel lr0 lv0 a es st (or_introl eq_refl) GP eq_refl e He)
      as (tr & X & L).
    apply exec_Run in X.
    destruct (tree2_run _ _ _ X) as (vs & Pv & -> & Iv).
    rewrite picks_pickv in Pv. destruct (picks pl (epath e)) as [cs|] eqn:Pc; cbn [option_map] in Pv; [|discriminate].
    inversion Pv; subst vs. rewrite forallb_fst in Iv.
    exists cs. split; [reflexivity|]. split.
    + destruct (evalid e) eqn:Ev.
      * symmetry. apply Iv. apply L. reflexivity.
      * destruct (forallb fst cs) eqn:F; auto. exfalso.
        assert (true = true) as T by reflexivity. apply Iv in T. apply L in T. congruence.
    + subst pl. exact X.
Qed.

(* no request is missing from the enumeration for lack of a run: every choice of options is a run *)
Theorem request_any_choice : forall pl p cs, pl <> [] -> picks pl p = Some cs ->
  Run (plan_graph pl) 0 p (0 :: trace_of (plan_rows pl) 0 p) [].
Proof.
  intros pl p cs N P.
  assert (G : plan_graph pl = tree2 (plan_rows pl)) by (destruct pl; [congruence|reflexivity]).
  rewrite G. apply tree2_run_conv with (vs := map fst cs). rewrite picks_pickv, P. reflexivity.
Qed.

(* ---------- what the flags mean: the parts of the operation ---------- *)
(* a part: the schema (by key), whether it is used as a body, and whether it may be left out
   (None: a path parameter, never left out; Some required: the other parameters and the body) *)
Definition part := (key * bool * option bool)%type.
Definition param_part (p : param) : part :=
  (p_schema p, false, if is_path (p_pos p) then None else Some (p_required p)).
Definition parts_of (op : operation) : list part :=
  map param_part (o_params op) ++
  match o_body op with Some (k, required) => [(k, true, Some required)] | None => [] end.

Section Conform.
Variable compute : key -> bool -> res samples.
Variable conf : key -> bool -> sample -> bool.          (* the value satisfies the schema *)
(* what the JSON pipeline promises (C01 / C02), and SampleCache.add's "Schema has no instances" *)
Hypothesis sound : forall k b s, compute k b = Ok s ->
  (forall x, In x (fst s) -> conf k b x = true) /\ (forall x, In x (snd s) -> conf k b x = false).
Hypothesis inhabited : forall k b s, compute k b = Ok s -> fst s <> [] \/ snd s <> [].

Definition part_ok (pt : part) (c : choice) : bool :=
  match pt, c with
  | (k, b, _), CVal s => conf k b s
  | (_, _, Some required), COmit => negb required
  | (_, _, None), COmit => false
  end.

(* a group of the plan and the part it was made for *)
Definition group_ok (pt : part) (gr : group) : Prop :=
  options gr <> [] /\
  (forall v c, In (v, c) (options gr) -> v = part_ok pt c) /\
  (forall v, In (v, COmit) (options gr) -> snd pt <> None).

Lemma param_group_ok p s : compute (p_schema p) false = Ok s ->
  group_ok (param_part p)
    (mkGroup (Some p) (if is_path (p_pos p) then None else Some (negb (p_required p))) (fst s) (snd s)).
Proof.
  intros C. destruct (sound _ _ _ C) as [S1 S2]. unfold group_ok, options, param_part. cbn [g_omit g_valid g_invalid snd].
  split; [|split].
  - destruct (inhabited _ _ _ C) as [H|H]; destruct (is_path (p_pos p)); destruct (fst s), (snd s); cbn; congruence.
  - intros v c H. apply in_app_or in H. destruct H as [H|H].
    + destruct (is_path (p_pos p)); cbn in H; [destruct H|]. destruct H as [H|[]]. inversion H; subst. reflexivity.
    + apply in_app_or in H. destruct H as [H|H]; apply in_map_iff in H; destruct H as (x & E & Hx); inversion E; subst; cbn.
      * symmetry. destruct (is_path (p_pos p)); auto.
      * symmetry. destruct (is_path (p_pos p)); auto.
  - intros v H. apply in_app_or in H. destruct H as [H|H].
    + destruct (is_path (p_pos p)); cbn in H; [destruct H|discriminate].
    + apply in_app_or in H. destruct H as [H|H]; apply in_map_iff in H; destruct H as (x & E & _); discriminate.
Qed.

Lemma ga_pure_groups : forall ps acc pts pl,
  Forall2 group_ok pts acc -> ga_pure compute ps [] acc = Ok pl ->
  Forall2 group_ok (pts ++ map param_part ps) pl.
Proof.
  induction ps as [|p ps IH]; intros acc pts pl F H; cbn [ga_pure map] in *.
  - inversion H; subst. rewrite app_nil_r. exact F.
  - destruct (compute (p_schema p) false) as [s| | |] eqn:C; try discriminate.
    cbn [olookup] in H.
    replace (pts ++ param_part p :: map param_part ps) with ((pts ++ [param_part p]) ++ map param_part ps)
      by (rewrite <- app_assoc; reflexivity).
    apply IH with (acc := acc ++ [mkGroup (Some p) (if is_path (p_pos p) then None else Some (negb (p_required p))) (fst s) (snd s)]); auto.
    apply Forall2_app; auto. constructor; [|constructor]. apply param_group_ok. exact C.
Qed.

Lemma generate_all_groups op pl : generate_all_pure compute op [] = Ok pl ->
  Forall2 group_ok (parts_of op) pl.
Proof.
  unfold generate_all_pure, parts_of. intros H.
  destruct (ga_pure compute (o_params op) [] []) as [pl0| | |] eqn:G; try discriminate.
  pose proof (ga_pure_groups _ [] [] pl0 (Forall2_nil _) G) as F. cbn [app] in F.
  destruct (o_body op) as [[k required]|].
  - destruct (compute k true) as [s| | |] eqn:C; try discriminate. inversion H; subst pl.
    apply Forall2_app; auto. constructor; [|constructor].
    destruct (sound _ _ _ C) as [S1 S2]. unfold group_ok, options. cbn [g_omit g_valid g_invalid snd].
    split; [discriminate|]. split.
    + intros v c Hc. cbn [app] in Hc. destruct Hc as [Hc|Hc]; [inversion Hc; subst; reflexivity|].
      apply in_app_or in Hc. destruct Hc as [Hc|Hc]; apply in_map_iff in Hc; destruct Hc as (x & E & Hx); inversion E; subst; cbn; symmetry; auto.
    + intros v _. discriminate.
  - inversion H; subst pl. rewrite app_nil_r. exact F.
Qed.

Lemma picks_parts : forall pts pl p cs, Forall2 group_ok pts pl -> picks pl p = Some cs ->
  Forall2 (fun pt c => fst c = part_ok pt (snd c) /\ (snd c = COmit -> snd pt <> None)) pts cs.
Proof.
  intros pts pl p cs F. revert p cs. induction F as [|pt gr pts pl G F IH]; intros p cs P.
  - destruct p; cbn in P; [|discriminate]. inversion P. constructor.
  - destruct p as [|i p]; cbn [picks] in P; [discriminate|].
    destruct (nth_error (options gr) i) as [[v c]|] eqn:N; [|discriminate].
    destruct (picks pl p) as [l|] eqn:P'; [|discriminate]. inversion P; subst cs.
    apply nth_error_In in N. destruct G as (_ & G1 & G2).
    constructor; [|eapply IH; eauto]. cbn [fst snd]. split; [auto|]. intros ->. eauto.
Qed.

Lemma forallb_parts : forall pts cs,
  Forall2 (fun pt c => fst c = part_ok pt (snd c) /\ (snd c = COmit -> snd pt <> None)) pts cs ->
  (forallb fst cs = true <-> Forall2 (fun pt c => part_ok pt (snd c) = true) pts cs).
Proof.
  intros pts cs F. induction F as [|pt c pts cs [H _] F IH]; cbn [forallb].
  - split; auto.
  - rewrite andb_true_iff, IH, H. split.
    + intros [A B]. constructor; auto.
    + intros X. inversion X; subst. auto.
Qed.

(* C10, label: for an operation whose sample lists generate_all obtained without error, every generated
   request takes one option per part of the operation (parameters in order, then the body), never leaves
   a path parameter out, and is labelled valid exactly when every value it carries satisfies its schema
   and every part it leaves out is optional. *)
Theorem request_label_conforms : forall op pl fuel lr0 lv0 a es st e,
  generate_all_pure compute op [] = Ok pl ->
  generate_paths V_fixed fuel (plan_graph pl) 0 lr0 lv0 = Ok (a, (es, st)) -> In e es ->
  exists cs, picks pl (epath e) = Some cs /\
    Forall2 (fun pt c => snd c = COmit -> snd pt <> None) (parts_of op) cs /\
    (evalid e = true <-> Forall2 (fun pt c => part_ok pt (snd c) = true) (parts_of op) cs).
Proof.
  intros op pl fuel lr0 lv0 a es st e GA GP He.
  pose proof (generate_all_groups op pl GA) as F.
  assert (NE : forall gr, In gr pl -> options gr <> []).
  { intros gr Hg. clear - F Hg. induction F as [|pt g0 pts pl0 G F IH]; [destruct Hg|].
    destruct Hg as [<-|Hg]; [exact (proj1 G)|auto]. }
  destruct (request_label pl fuel lr0 lv0 a es st e NE GP He) as (cs & Pc & Ev & _).
  exists cs. split; [exact Pc|].
  pose proof (picks_parts _ _ _ _ F Pc) as FP. split.
  - clear - FP. induction FP as [|pt c pts cs [_ H] FP IH]; constructor; auto.
  - rewrite Ev. apply forallb_parts. exact FP.
Qed.

End Conform.

(* ---------- the enumeration ends, and every option of every group occurs in some request ---------- *)
From Fences Require Import GraphTerm GraphWalk.

Lemma tree2_acyclic rs : acyclic (tree2 rs).
Proof.
  exists (fun n => if n =? 0 then 2 else if n <=? length rs then 1 else 0).
  intros s i t H.
  destruct (le_lt_dec (length (tree2 rs)) s) as [O|O].
  { rewrite tree2_length in O. unfold outs_of in H. rewrite getn_out in H by exact O. destruct i; discriminate. }
  destruct (node_cases rs s O) as [->|[(j & r & -> & Hj)|(j & r & i' & v & -> & Hj & Hi)]]; unfold outs_of in H.
  - rewrite node_root in H. cbn [outs] in H.
    assert (i < length rs). { rewrite <- (seq_length (length rs) 1). apply nth_error_Some. congruence. }
    rewrite nth_error_seq_lt in H by lia. inversion H; subst t. cbn [Nat.eqb Nat.add].
    replace (S i <=? length rs) with true by (symmetry; apply Nat.leb_le; lia). cbn. lia.
  - rewrite (node_dec rs j r Hj) in H. cbn [outs] in H.
    assert (j < length rs) by (apply nth_error_Some; congruence).
    assert (i < length r). { rewrite <- (seq_length (length r) (leaf_ix rs j 0)). apply nth_error_Some. congruence. }
    rewrite nth_error_seq_lt in H by lia.
    assert (T : length rs < t) by (unfold leaf_ix in H; injection H; lia).
    replace (t =? 0) with false by (symmetry; apply Nat.eqb_neq; lia).
    replace (t <=? length rs) with false by (symmetry; apply Nat.leb_gt; lia).
    cbn [Nat.eqb]. replace (S j <=? length rs) with true by (symmetry; apply Nat.leb_le; lia). lia.
  - rewrite (node_leaf rs j r i' v Hj Hi) in H. destruct i; discriminate.
Qed.

Lemma pickv_length : forall rs p vs, pickv rs p = Some vs -> length p = length rs.
Proof.
  induction rs as [|r rs IH]; intros [|i p] vs H; cbn [pickv] in H; try discriminate; auto.
  destruct (nth_error r i); [|discriminate]. destruct (pickv rs p) eqn:P; [|discriminate].
  cbn. f_equal. eauto.
Qed.

Lemma leaf_ix_inj rs j i r v j' i' r' v' :
  nth_error rs j = Some r -> nth_error r i = Some v ->
  nth_error rs j' = Some r' -> nth_error r' i' = Some v' ->
  leaf_ix rs j i = leaf_ix rs j' i' -> j = j' /\ i = i'.
Proof.
  intros A B A' B' E.
  assert (L : locate rs (offs rs j + i) = Some (j, i, v)) by (apply locate_spec; eauto).
  assert (L' : locate rs (offs rs j' + i') = Some (j', i', v')) by (apply locate_spec; eauto).
  replace (offs rs j' + i') with (offs rs j + i) in L' by (unfold leaf_ix in E; lia).
  rewrite L in L'. inversion L'. auto.
Qed.

(* the leaf of option i of group j occurs in the trace of p only when p takes option i in group j *)
Lemma trace_leaf rs : forall rs2 rs1 p vs j i r v,
  rs = rs1 ++ rs2 -> pickv rs2 p = Some vs ->
  nth_error rs j = Some r -> nth_error r i = Some v ->
  In (leaf_ix rs j i) (trace_of rs (length rs1) p) ->
  length rs1 <= j /\ nth_error p (j - length rs1) = Some i.
Proof.
  induction rs2 as [|r2 rs2 IH]; intros rs1 p vs j i r v E P Hj Hi H.
  - destruct p; cbn in P; [|discriminate]. destruct H.
  - destruct p as [|i0 p]; cbn [pickv] in P; [discriminate|].
    destruct (nth_error r2 i0) as [v0|] eqn:Hv; [|discriminate].
    destruct (pickv rs2 p) as [vs'|] eqn:P'; [|discriminate].
    assert (Hk : nth_error rs (length rs1) = Some r2) by (rewrite E; apply nth_error_app_mid).
    cbn [trace_of] in H. destruct H as [H|[H|H]].
    + exfalso. assert (length rs1 < length rs) by (apply nth_error_Some; congruence).
      unfold leaf_ix in H. lia.
    + destruct (leaf_ix_inj rs _ _ _ _ _ _ _ _ Hk Hv Hj Hi H) as [<- <-].
      rewrite Nat.sub_diag. split; [lia|reflexivity].
    + assert (E' : rs = (rs1 ++ [r2]) ++ rs2) by (rewrite <- app_assoc; exact E).
      assert (L' : length (rs1 ++ [r2]) = S (length rs1)) by (rewrite app_length; cbn; lia).
      specialize (IH (rs1 ++ [r2]) p vs' j i r v E' P' Hj Hi). rewrite L' in IH. specialize (IH H).
      destruct IH as [A B]. split; [lia|].
      replace (j - length rs1) with (S (j - S (length rs1))) by lia. exact B.
Qed.

Lemma bare_acyclic : acyclic bare_graph.
Proof.
  exists (fun n => if n =? 0 then 1 else 0). intros s i t H.
  destruct s as [|[|s]]; unfold outs_of, getn in H; cbn in H.
  - destruct i as [|[|i]]; cbn in H; try discriminate. inversion H. cbn. lia.
  - destruct i; discriminate.
  - destruct s; destruct i; discriminate.
Qed.

(* for every recursion budget from some F on, the enumeration of the request graph ends normally,
   and every option of every group is taken by some generated request *)
Theorem request_cover : forall pl lr0 lv0,
  (forall gr, In gr pl -> options gr <> []) ->
  exists F a es, forall fuel, F <= fuel ->
    generate_paths V_fixed fuel (plan_graph pl) 0 lr0 lv0 = Ok (a, (es, Ok tt)) /\
    forall j gr i, nth_error pl j = Some gr -> i < length (options gr) ->
      exists e, In e es /\ nth_error (epath e) j = Some i.
Proof.
  intros pl lr0 lv0 NE. destruct pl as [|gr0 pl0].
  - destruct (generate_paths_terminates_acyclic V_fixed bare_graph 0 lr0 lv0 bare_wf) as (F & a & es & T);
      [exact bare_acyclic | reflexivity | left; reflexivity |].
    exists F, a, es. intros fuel L. split; [exact (T fuel L)|]. intros [|j] gr i H; discriminate.
  - remember (gr0 :: pl0) as pl eqn:Epl.
    assert (N : pl <> []) by (subst pl; discriminate).
    destruct (plan_rows_ok pl N NE) as [R1 R2].
    assert (G : plan_graph pl = tree2 (plan_rows pl)) by (subst pl; reflexivity).
    rewrite G.
    pose proof (tree2_wf (plan_rows pl) R1 R2) as W.
    destruct (generate_paths_terminates_acyclic V_fixed _ 0 lr0 lv0 W (tree2_acyclic _)) as (F & a & es & T);
      [reflexivity | left; reflexivity |].
    exists F, a, es. intros fuel L. split; [exact (T fuel L)|].
    intros j gr i Hj Li.
    set (rs := plan_rows pl) in *.
    assert (Hr : nth_error rs j = Some (map fst (options gr))).
    { unfold rs, plan_rows. rewrite nth_error_map, Hj. reflexivity. }
    destruct (nth_error (map fst (options gr)) i) as [v|] eqn:Hi;
      [|apply nth_error_None in Hi; rewrite map_length in Hi; lia].
    assert (Lx : leaf_ix rs j i < length (tree2 rs)).
    { rewrite tree2_length. unfold leaf_ix.
      assert (i < length (map fst (options gr))) by (apply nth_error_Some; congruence).
      pose proof (offs_total rs j _ i Hr H). lia. }
    assert (Kx : is_leaf (tree2 rs) (leaf_ix rs j i) = true).
    { unfold is_leaf, kind_of. rewrite (node_leaf rs j _ i v Hr Hi). reflexivity. }
    destruct (leaves_covered V_fixed _ 0 W fuel lr0 lv0 a es (Ok tt) (or_introl eq_refl) (T fuel L) eq_refl _ Lx Kx)
      as (e & tr & He & X & Hin).
    exists e. split; [exact He|].
    apply exec_Run in X. destruct (tree2_run _ _ _ X) as (vs & Pv & -> & _).
    destruct Hin as [Hin|Hin]; [unfold leaf_ix in Hin; lia|].
    destruct (trace_leaf rs rs [] (epath e) vs j i _ v eq_refl Pv Hr Hi Hin) as [_ B].
    cbn [length] in B. rewrite Nat.sub_0_r in B. exact B.
Qed.

(* JsonErr.v -- the JSON generator (fences/json_schema/parse.py) on a normal form can only fail with the library's own
   exception (or run out of recursion depth): on every output of normalize() whose "type" values are hashable no Python
   exception is reachable from parse_nf (C17 for the generator half of the JSON front end). *)
From Coq Require Import String Ascii ZArith Lia Bool.
From Fences Require Import JsonGen Normalize NormShape NormNF GraphOps GraphResolve GraphOpt ErrClass JsonLinks.
Local Open Scope list_scope.

(* every "type" value anywhere in the document is a scalar or a list of scalars (what set(to_list(...)) needs) *)
Fixpoint tyokb (j : json) : bool :=
  match j with
  | JObj d => (match dget (kw "type") d with Some t => hashable_all (to_list t) | None => true end)
              && (fix go (l : list (str * json)) : bool := match l with [] => true | (_, v) :: r => tyokb v && go r end) d
  | JArr l => (fix go (l : list json) : bool := match l with [] => true | v :: r => tyokb v && go r end) l
  | _ => true
  end.

Lemma tyok_type d t : tyokb (JObj d) = true -> dget (kw "type") d = Some t -> hashable_all (to_list t) = true.
Proof. cbn [tyokb]. intros H E. rewrite E in H. apply andb_true_iff in H. exact (proj1 H). Qed.

Lemma tyok_in_obj d n v : tyokb (JObj d) = true -> In (n, v) d -> tyokb v = true.
Proof.
  cbn [tyokb]. intros H. apply andb_true_iff in H. destruct H as [_ H]. revert H.
  induction d as [|[k' v'] r IH]; intros H Hin; [destruct Hin|].
  apply andb_true_iff in H. destruct H as [H1 H2]. destruct Hin as [E|Hin]; [inversion E; subst; exact H1|auto].
Qed.

Lemma dget_some_in k (d : dict) v : dget k d = Some v -> exists k', In (k', v) d.
Proof.
  induction d as [|[k' v'] r IH]; cbn [dget]; [discriminate|].
  destruct (str_eqb k' k); intros H; [inversion H; subst; exists k'; left; reflexivity|].
  destruct (IH H) as [k2 H2]. exists k2. right. exact H2.
Qed.

Lemma tyok_get d k v : tyokb (JObj d) = true -> dget k d = Some v -> tyokb v = true.
Proof. intros H E. destruct (dget_some_in _ _ _ E) as [k' Hin]. exact (tyok_in_obj d k' v H Hin). Qed.

Lemma tyok_in_arr l v : tyokb (JArr l) = true -> In v l -> tyokb v = true.
Proof.
  cbn [tyokb]. induction l as [|x r IH]; intros H Hin; [destruct Hin|].
  apply andb_true_iff in H. destruct H as [H1 H2]. destruct Hin as [<-|Hin]; auto.
Qed.

(* ---------- the readers ---------- *)
Lemma read_num_own d k : own (read_num d k).
Proof. unfold read_num. destruct (dget (kw k) d) as [[| | | | |]|]; exact I. Qed.
Lemma read_nat_own d k n : own (read_nat d k n).
Proof. unfold read_nat. apply own_bind; [apply read_num_own|]. intros [z|] _; exact I. Qed.
Lemma read_dict_own d k : own (read_dict d k).
Proof. unfold read_dict. destruct (dget (kw k) d) as [[| | | | |]|]; exact I. Qed.
Lemma read_list_own d k : own (read_list d k).
Proof. unfold read_list. destruct (dget (kw k) d) as [[| | | | |]|]; exact I. Qed.
Lemma check_dict_own d k : own (check_dict d k).
Proof. unfold check_dict. apply own_bind; [apply read_dict_own|]. intros; exact I. Qed.
Lemma check_str_own d k : own (check_str d k).
Proof. unfold check_str. destruct (dget (kw k) d) as [[| | | | |]|]; exact I. Qed.
#[export] Hint Resolve read_num_own read_nat_own read_dict_own read_list_own check_dict_own check_str_own : own.

Lemma read_dict_some d k x : read_dict d k = Ok (Some x) -> dget (kw k) d = Some (JObj x).
Proof. unfold read_dict. destruct (dget (kw k) d) as [[| | | | |y]|]; intros H; inversion H; reflexivity. Qed.
Lemma read_list_some d k x : read_list d k = Ok (Some x) -> dget (kw k) d = Some (JArr x).
Proof. unfold read_list. destruct (dget (kw k) d) as [[| | | |y|]|]; intros H; inversion H; reflexivity. Qed.

Ltac own_go :=
  repeat (cbv beta; match goal with
  | |- own (bind _ _) => apply own_bind; [ solve [auto with own] | intros ? ? ]
  | |- own (Ok _) => exact I
  | |- own jerr => exact I
  | |- own (LibErr _) => exact I
  | |- own OutOfFuel => exact I
  | |- own (if ?b then _ else _) => destruct b
  | |- own (match ?x with _ => _ end) => destruct x
  end).

(* ---------- the leaf handlers ---------- *)
Lemma parse_enum_own d p st : own (parse_enum d p st).
Proof. unfold parse_enum. own_go. Qed.
Lemma parse_number_own d p st : own (parse_number d p st).
Proof. unfold parse_number. own_go. Qed.
Lemma parse_string_own d p st : own (parse_string d p st).
Proof. unfold parse_string. own_go. Qed.
Lemma parse_boolean_own p st : own (parse_boolean p st).
Proof. unfold parse_boolean. own_go. Qed.
Lemma parse_null_own p st : own (parse_null p st).
Proof. unfold parse_null. own_go. Qed.
#[export] Hint Resolve parse_enum_own parse_number_own parse_string_own parse_boolean_own parse_null_own : own.

Lemma enum_from_in {A} (l : list A) : forall k i x, In (i, x) (enum_from k l) -> In x l.
Proof. induction l as [|y r IH]; intros k i x H; [destruct H|]. destruct H as [E|H]; [inversion E; left; reflexivity|right; eapply IH; eauto]. Qed.

Ltac lets := cbv beta zeta; repeat (match goal with |- own (match ?x with _ => _ end) => destruct x end; cbv beta zeta).

(* ---------- one level of the four mutually recursive parsers ---------- *)
Section Step.
Variable k : nat.
Definition galts (d : dict) : Prop :=
  forall alts, dget (kw "anyOf") d = Some (JArr alts) -> forall a, In a alts -> nfalt k a /\ tyokb a = true.
Definition gkw (d : dict) : Prop :=
  tyokb (JObj d) = true /\
  (forall key s, In key SUBKEYS -> dget key d = Some s -> nf k s) /\
  (forall props n s, dget (kw "properties") d = Some (JObj props) -> In (n, s) props -> nf k s) /\
  (forall items s, dget (kw "prefixItems") d = Some (JArr items) -> In s items -> nf k s).

Lemma nf_galts s : nf k s -> tyokb s = true -> exists d, s = JObj d /\ galts d.
Proof.
  intros N T. inversion N as [alts HA E]. subst s. eexists; split; [reflexivity|].
  assert (E : dget (kw "anyOf") [(kw "anyOf", JArr alts)] = Some (JArr alts)) by (vm_compute; reflexivity).
  intros alts' G a Hin. unfold obj1 in G. rewrite E in G. inversion G; subst alts'. split; [apply HA; exact Hin|].
  assert (T' : tyokb (JArr alts) = true) by (exact (tyok_get _ (kw "anyOf") _ T E)).
  exact (tyok_in_arr alts a T' Hin).
Qed.

Lemma nfalt_gkw a : nfalt k a -> tyokb a = true -> exists d, a = JObj d /\ gkw d.
Proof.
  intros N T. inversion N as [i Li E|d C H1 H2 H3 H4 H5 E]; subst a.
  - eexists; split; [reflexivity|]. split; [exact T|]. split; [|split].
    + intros key s Hin G. unfold SUBKEYS, kws in Hin. cbn [map In] in Hin.
      destruct Hin as [<-|[<-|[<-|[<-|[]]]]]; vm_compute in G; discriminate.
    + intros props n s G. vm_compute in G. discriminate.
    + intros items s G. vm_compute in G. discriminate.
  - exists d. split; [reflexivity|]. split; [exact T|]. split; [exact H1|]. split; [exact H3|exact H5].
Qed.

Variable f : nat.
Hypothesis HD : forall d p st, galts d -> own (parse_dict f (JObj d) p st).
Hypothesis HE : forall a p st, nfalt k a -> tyokb a = true -> own (parse_entry f a p st).
Hypothesis HO : forall d p st, gkw d -> own (parse_object f d p st).
Hypothesis HA : forall d p st, gkw d -> own (parse_array f d p st).

Lemma HD' s p st : nf k s -> tyokb s = true -> own (parse_dict f s p st).
Proof. intros N T. destruct (nf_galts s N T) as (d & -> & G). apply HD. exact G. Qed.

Lemma parse_dict_own_step d p st : galts d -> own (parse_dict (S f) (JObj d) p st).
Proof.
  intros G. rewrite parse_dict_eq. cbn [bind]. destruct (jnoop false (Some (pstr p)) st) as [st1 root].
  destruct (dget (kw "anyOf") d) as [[| | | |l|]|] eqn:EA; cbn [bind]; try exact I.
  apply own_bind; [|intros; exact I].
  apply own_foldM. intros s [idx entry] Hin.
  destruct (G l EA entry (enum_from_in _ _ _ _ Hin)) as [N T].
  apply own_bind; [apply HE; assumption|]. intros [? ?] _. exact I.
Qed.

Lemma parse_entry_own_step d p st : gkw d -> own (parse_entry (S f) (JObj d) p st).
Proof.
  intros G. rewrite parse_entry_eq. cbn [bind].
  destruct (dhas (kw "enum") d || dhas (kw "NOT_enum") d); [apply parse_enum_own|].
  destruct (dhas (kw "$ref") d); [destruct (dget (kw "$ref") d) as [[| | | | |]|]; exact I|].
  destruct (jnoop false None st) as [st1 root].
  apply own_bind.
  - destruct (dget (kw "type") d) as [t|] eqn:ET; [|exact I]. cbv zeta.
    rewrite (tyok_type d t (proj1 G) ET). exact I.
  - intros types _. apply own_bind; [|intros; exact I].
    apply own_foldM. intros s t _. apply own_bind; [|intros [? ?] _; exact I].
    destruct t; try exact I.
    repeat match goal with |- own (if ?b then _ else _) => destruct b end; auto with own; exact I.
Qed.


Lemma parse_object_own_step d p st : gkw d -> own (parse_object (S f) d p st).
Proof.
  intros (T & HS & HP & HI). rewrite parse_object_eq.
  apply own_bind; [auto with own|]. intros props EP. cbv zeta.
  do 9 (apply own_bind; [auto with own|]; intros ? _).
  apply own_bind.
  { apply own_foldM. intros acc tok _. destruct tok; try exact I. destruct (smem s acc); exact I. }
  intros req _.
  destruct (jnoop false (sfx p "_OBJECT") st) as [st1 super]. destruct (jnew (KDec true false) None JPObj st1) as [st2 root].
  apply own_bind; [|intros [st3 remaining] _; exact I].
  apply own_foldM. intros [s rem] [key value] Hin.
  destruct props as [pd|]; [|destruct Hin].
  pose proof (read_dict_some _ _ _ EP) as EP'.
  cbv beta iota zeta.
  destruct (jnoop false _ s) as [s1 prop_root]. destruct (jnew (KDec false false) _ _ _) as [s2 key_node].
  apply own_bind.
  - apply HD'; [exact (HP pd key value EP' Hin)|].
    exact (tyok_in_obj pd key value (tyok_get d _ _ T EP') Hin).
  - intros [s3 vn] _. destruct (jnoop_leaf _ _); exact I.
Qed.

Lemma sub_items : In (kw "items") SUBKEYS. Proof. unfold SUBKEYS, kws. cbn [map In]. right; left; reflexivity. Qed.
Lemma sub_contains : In (kw "contains") SUBKEYS. Proof. unfold SUBKEYS, kws. cbn [map In]. right; right; right; left; reflexivity. Qed.

Lemma parse_array_own_step d p st : gkw d -> own (parse_array (S f) d p st).
Proof.
  intros (T & HS & HP & HI). rewrite parse_array_eq.
  apply own_bind; [auto with own|]; intros min_items _.
  apply own_bind; [auto with own|]; intros ? _.
  apply own_bind; [auto with own|]; intros prefix EPx. cbv zeta.
  apply own_bind; [auto with own|]; intros ? _.
  apply own_bind; [auto with own|]; intros contains EC.
  apply own_bind; [auto with own|]; intros min_contains _.
  apply own_bind; [auto with own|]; intros ? _.
  apply own_bind; [auto with own|]; intros items EI.
  destruct (jnew (KDec true false) (sfx p "_ARRAY") JPArr st) as [st1 root].
  apply own_bind.
  { destruct prefix as [pl|]; [|exact I].
    pose proof (read_list_some _ _ _ EPx) as EP'.
    destruct pl as [|it0 its]; [exact I|].
    destruct (jnoop true (sfx p "_PREFIX") st1) as [sa pn]. cbv zeta.
    apply own_foldM. intros s [idx item] Hin. apply enum_from_in in Hin.
    apply own_bind.
    - apply HD'; [exact (HI _ item EP' Hin)|]. exact (tyok_in_arr _ item (tyok_get d _ _ T EP') Hin).
    - intros [? ?] _. lets. exact I. }
  intros st2 _.
  apply own_bind.
  { destruct contains as [c|]; [|exact I]. destruct (min_contains =? 0); [exact I|].
    pose proof (read_dict_some _ _ _ EC) as EC'.
    destruct (jnoop true (sfx p "_CONTAINS") st2) as [sa cn]. cbv zeta.
    apply own_bind.
    - apply HD'; [exact (HS _ _ sub_contains EC')|]. exact (tyok_get d _ _ T EC').
    - intros [? ?] _. lets. exact I. }
  intros [st3 mi] _.
  destruct (mi =? 0); [destruct (outs_of _ _); lets; exact I|].
  destruct (jnoop true (sfx p "_ITEMS") st3) as [st4 ai]. cbv zeta.
  apply own_bind; [|intros [? ?] _; exact I].
  destruct items as [it|]; [|exact I].
  pose proof (read_dict_some _ _ _ EI) as EI'.
  apply HD'; [exact (HS _ _ sub_items EI')|]. exact (tyok_get d _ _ T EI').
Qed.
End Step.

Lemma parse_all_own k : forall f,
  (forall d p st, galts k d -> own (parse_dict f (JObj d) p st)) /\
  (forall a p st, nfalt k a -> tyokb a = true -> own (parse_entry f a p st)) /\
  (forall d p st, gkw k d -> own (parse_object f d p st)) /\
  (forall d p st, gkw k d -> own (parse_array f d p st)).
Proof.
  induction f as [|f (HD & HE & HO & HA)].
  - repeat split; intros; exact I.
  - split; [|split; [|split]].
    + intros d p st G. apply (parse_dict_own_step k f HE); exact G.
    + intros a p st N T. destruct (nfalt_gkw k a N T) as (d & -> & G). apply (parse_entry_own_step k f HO HA); exact G.
    + intros d p st G. apply (parse_object_own_step k f HD); exact G.
    + intros d p st G. apply (parse_array_own_step k f HD); exact G.
Qed.

(* ---------- parse() on a normal form ---------- *)
Definition gdoc (k : nat) (j : json) : Prop :=
  exists d, j = JObj d /\ galts k d /\
    (forall defs, dget (kw "$defs") d = Some (JObj defs) -> forall n v, In (n, v) defs -> nf k v /\ tyokb v = true).

Lemma parse_nf_own_gdoc fuel k j : gdoc k j -> own (parse_nf fuel j).
Proof.
  intros (d & -> & GA & GD). unfold parse_nf. cbn [bind].
  destruct (parse_all_own k fuel) as (HD & _).
  apply own_bind; [apply read_dict_own|]. intros defs ED. cbv zeta.
  apply own_bind.
  { apply own_foldM. intros [s acc] [key def] Hin. destruct defs as [dd|]; [|destruct Hin].
    destruct (GD dd (read_dict_some _ _ _ ED) key def Hin) as [N T].
    destruct (nf_galts k def N T) as (d' & -> & G').
    apply own_bind; [apply HD; exact G'|]. intros [? ?] _. exact I. }
  intros [st all] _. apply own_bind; [apply HD; exact GA|]. intros [st1 root] _.
  apply own_bind; [apply resolve_own|]. intros [g r] _.
  apply own_bind; [apply optimize_own|]. intros g' _. lets. exact I.
Qed.

Lemma nf_doc_gdoc j : nf_doc j -> tyokb j = true -> exists k, gdoc k j.
Proof.
  intros (k & alts & defs & d & -> & EA & HA & ED & Len & HDf) T. exists k. exists d. split; [reflexivity|]. split.
  - intros alts' G a Hin. rewrite EA in G. inversion G; subst alts'. split; [apply HA; exact Hin|].
    exact (tyok_in_arr alts a (tyok_get d _ _ T EA) Hin).
  - intros defs' G n v Hin. rewrite ED in G. inversion G; subst defs'.
    destruct (In_nth_error _ _ Hin) as [i Hi]. split; [exact (proj2 (HDf i n v Hi))|].
    exact (tyok_in_obj defs n v (tyok_get d _ _ T ED) Hin).
Qed.

Lemma norm_true_gdoc : gdoc 0 NORM_TRUE.
Proof.
  eexists; split; [reflexivity|]. split.
  - intros alts G a Hin. vm_compute in G. inversion G; subst alts. destruct Hin as [<-|[]]. split; [|reflexivity].
    apply nfalt_kw.
    + intros c _. reflexivity.
    + intros key s _ X. discriminate.
    + intros pj X. discriminate.
    + intros props n s X. discriminate.
    + intros pj X. discriminate.
    + intros items s X. discriminate.
  - intros defs G. vm_compute in G. discriminate.
Qed.

Lemma norm_false_gdoc : gdoc 0 NORM_FALSE.
Proof.
  eexists; split; [reflexivity|]. split.
  - intros alts G a Hin. vm_compute in G. inversion G; subst alts. destruct Hin as [<-|[]]. split; [|reflexivity].
    apply (nfalt_kw 0 [(kw "enum", JArr [])]).
    + intros c Hc. unfold COMB, kws in Hc. cbn [map In] in Hc.
      repeat (destruct Hc as [<-|Hc]; [vm_compute; reflexivity|]). destruct Hc.
    + intros key s Hk X. unfold SUBKEYS, kws in Hk. cbn [map In] in Hk.
      repeat (destruct Hk as [<-|Hk]; [vm_compute in X; discriminate|]). destruct Hk.
    + intros pj X. vm_compute in X. discriminate.
    + intros props n s X. vm_compute in X. discriminate.
    + intros pj X. vm_compute in X. discriminate.
    + intros items s X. vm_compute in X. discriminate.
  - intros defs G. vm_compute in G. discriminate.
Qed.

(* every output of normalize() whose "type" values are hashable: parse() raises no Python exception on it *)
Theorem parse_nf_own SV cfg fuel schema nf fuel' :
  normalize SV cfg fuel schema = Ok nf -> tyokb nf = true -> own (parse_nf fuel' nf).
Proof.
  intros H T. destruct (normalize_nf SV cfg fuel schema nf H) as [->|[->|D]].
  - exact (parse_nf_own_gdoc fuel' 0 _ norm_true_gdoc).
  - exact (parse_nf_own_gdoc fuel' 0 _ norm_false_gdoc).
  - destruct (nf_doc_gdoc nf D T) as [k G]. exact (parse_nf_own_gdoc fuel' k nf G).
Qed.

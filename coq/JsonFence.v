(* JsonFence.v -- the counter-examples parse_any_of_entry hangs below an alternative: for every JSON type the
   alternative does not allow, each default sample of that type is a leaf marked invalid directly below the
   alternative's decision (the "type" fence of C12, at the level of the builder). *)
From Coq Require Import String Ascii ZArith Lia.
From Fences Require Import JsonGen Normalize GraphSpec GraphLinks GraphOps JsonLinks.
Local Open Scope list_scope.

Definition hasleaf (st : jbst) (root : nat) (v : bool) (s : json) : Prop :=
  exists l, In l (outs_of (jb_graph st) root) /\ kind_of (jb_graph st) l = KLeaf v /\ nth_error (jb_pay st) l = Some (JPSet s).
Definition paylen (st : jbst) : Prop := length (jb_pay st) = jlen st.

(* one leaf more below root *)
Lemma leaf_step root v s st : paylen st -> root < jlen st ->
  let st' := (let '(st1, l) := jleaf v s st in jadd root l st1) in
  paylen st' /\ jlen st < jlen st' /\ hasleaf st' root v s /\ (forall v0 s0, hasleaf st root v0 s0 -> hasleaf st' root v0 s0).
Proof.
  intros P L. unfold jleaf, jnew, jadd. cbn [jb_graph jb_pay fst snd]. unfold paylen, jlen in *. cbn [jb_graph jb_pay].
  set (g1 := jb_graph st ++ [mkNode (KLeaf v) (@None str) [] []]) in *.
  assert (Len1 : length g1 = S (length (jb_graph st))) by (unfold g1; rewrite app_length; cbn; lia).
  destruct (add_transition_spec g1 root (length (jb_graph st)) ltac:(lia) ltac:(lia)) as (K & O & _ & Len).
  split; [rewrite app_length, Len, Len1; cbn; lia|]. split; [rewrite Len, Len1; lia|]. split.
  - exists (length (jb_graph st)). split; [rewrite O, Nat.eqb_refl; apply in_or_app; right; left; reflexivity|].
    split; [rewrite K; unfold g1, kind_of, getn; rewrite app_nth2 by lia; rewrite Nat.sub_diag; reflexivity|].
    cbn [jb_pay]. rewrite nth_error_app2 by lia. rewrite P, Nat.sub_diag. reflexivity.
  - intros v0 s0 (l & Hin & Kl & Pl). exists l.
    assert (Ll : l < length (jb_graph st)) by (rewrite <- P; apply nth_error_Some; congruence).
    split; [|split].
    + rewrite O, Nat.eqb_refl. apply in_or_app. left. unfold g1, outs_of, getn. rewrite app_nth1 by lia. exact Hin.
    + rewrite K. unfold g1, kind_of, getn. rewrite app_nth1 by lia. exact Kl.
    + cbn [jb_pay jb_graph] in *. rewrite nth_error_app1 by lia. exact Pl.
Qed.

Lemma leaves_fold root v : forall samples st, paylen st -> root < jlen st ->
  let st' := fold_left (fun st s => let '(st1, l) := jleaf v s st in jadd root l st1) samples st in
  paylen st' /\ jlen st <= jlen st' /\ (forall s, In s samples -> hasleaf st' root v s) /\
  (forall v0 s0, hasleaf st root v0 s0 -> hasleaf st' root v0 s0).
Proof.
  induction samples as [|x r IH]; intros st P L; cbn [fold_left].
  - split; [exact P|]. split; [lia|]. split; [intros s []|auto].
  - destruct (leaf_step root v x st P L) as (P1 & L1 & H1 & K1). cbv zeta in *.
    set (st1 := let '(st1, l) := jleaf v x st in jadd root l st1) in *.
    destruct (IH st1 P1 ltac:(lia)) as (P2 & L2 & H2 & K2). cbv zeta in *.
    split; [exact P2|]. split; [lia|]. split.
    + intros s [<-|Hs]; [apply K2; exact H1|apply H2; exact Hs].
    + intros v0 s0 H0. apply K2, K1, H0.
Qed.

(* the last stage of parse_any_of_entry *)
Definition type_fence (root : nat) (types : list json) (st : jbst) : jbst :=
  fold_left (fun st '(ty, samples) =>
               if pmem (JStr ty) types then st
               else fold_left (fun st s => let '(st, l) := jleaf false s st in jadd root l st) samples st)
            default_samples st.

Lemma type_fence_gen root types : forall (tbl : list (str * list json)) st, paylen st -> root < jlen st ->
  let st' := fold_left (fun st '(ty, samples) =>
               if pmem (JStr ty) types then st
               else fold_left (fun st s => let '(st, l) := jleaf false s st in jadd root l st) samples st) tbl st in
  paylen st' /\ jlen st <= jlen st' /\
  (forall ty samples s, In (ty, samples) tbl -> pmem (JStr ty) types = false -> In s samples -> hasleaf st' root false s) /\
  (forall v0 s0, hasleaf st root v0 s0 -> hasleaf st' root v0 s0).
Proof.
  induction tbl as [|[ty samples] r IH]; intros st P L; cbn [fold_left].
  - split; [exact P|]. split; [lia|]. split; [intros ? ? ? []|auto].
  - destruct (pmem (JStr ty) types) eqn:M.
    + destruct (IH st P L) as (P2 & L2 & H2 & K2). cbv zeta in *. split; [exact P2|]. split; [exact L2|]. split; [|exact K2].
      intros ty' samples' s [E|Hin] M' Hs; [inversion E; subst; congruence|eapply H2; eauto].
    + destruct (leaves_fold root false samples st P L) as (P1 & L1 & H1 & K1). cbv zeta in *.
      set (st1 := fold_left _ samples st) in *.
      destruct (IH st1 P1 ltac:(lia)) as (P2 & L2 & H2 & K2). cbv zeta in *.
      split; [exact P2|]. split; [lia|]. split.
      * intros ty' samples' s [E|Hin] M' Hs; [inversion E; subst; apply K2, H1, Hs|eapply H2; eauto].
      * intros v0 s0 H0. apply K2, K1, H0.
Qed.

Theorem type_fence_spec root types st : paylen st -> root < jlen st ->
  forall ty samples s, In (ty, samples) default_samples -> pmem (JStr ty) types = false -> In s samples ->
    hasleaf (type_fence root types st) root false s.
Proof. intros P L. exact (proj1 (proj2 (proj2 (type_fence_gen root types default_samples st P L)))). Qed.

(* parse_any_of_entry ends with that stage *)
Lemma parse_entry_ends_with_fence f d p st st' n :
  parse_entry (S f) (JObj d) p st = Ok (st', n) ->
  dhas (kw "enum") d || dhas (kw "NOT_enum") d = false -> dhas (kw "$ref") d = false ->
  exists types st1, st' = type_fence n types st1 /\
    (match dget (kw "type") d with Some t => types = pset (to_list t) | None => types = map JStr handler_types end).
Proof.
  intros H E R. rewrite parse_entry_eq in H. cbn [bind] in H. rewrite E, R in H.
  destruct (jnoop false None st) as [st0 root].
  match type of H with bind ?X _ = _ => destruct X as [types| | |] eqn:ET end; cbn [bind] in H; try discriminate.
  match type of H with bind ?X _ = _ => destruct X as [st1| | |] eqn:EF end; cbn [bind] in H; try discriminate.
  inversion H; subst. exists types, st1. split; [reflexivity|].
  destruct (dget (kw "type") d) as [t|]; [|inversion ET; reflexivity].
  cbv zeta in ET. destruct (hashable_all (to_list t)); inversion ET; reflexivity.
Qed.

(* ---------- the "required" fence: every declared property has an omission branch, marked invalid exactly when the
   property is (still) required ---------- *)
Lemma obj_step_omit f p root s rem key value s' rem' :
  jgi s -> root < jlen s -> is_dec (jb_graph s) root = true ->
  obj_step f p root (s, rem) (key, value) = Ok (s', rem') ->
  exists omit, In omit (outs_of (jb_graph s') (jlen s)) /\ kind_of (jb_graph s') omit = KLeaf (negb (smem key rem)) /\
               is_dec (jb_graph s') (jlen s) = true /\ rem' = filter (fun x => negb (str_eqb x key)) rem.
Proof.
  intros Gs Lr Dr H. unfold obj_step, jnoop, jnoop_leaf in H. cbv zeta in H.
  set (sp := padd (padd p (kw "properties")) key) in *.
  destruct (jgi_new (KDec false true) (sfx sp "__PROP") JPNone s Gs) as (Ga & Ea & La & Ka & Sa). cbv zeta in *.
  destruct (jnew (KDec false true) (sfx sp "__PROP") JPNone s) as [sa pr] eqn:ENa. cbn [fst snd] in *. subst pr.
  assert (Dpr : is_dec (jb_graph sa) (jlen s) = true) by (unfold is_dec; rewrite Ka; reflexivity).
  destruct (jgi_add root (jlen s) sa Ga) as (Gb & Eb & Lb); [apply (jext_dec s); auto|lia|].
  set (sb := jadd root (jlen s) sa) in *.
  destruct (jgi_new (KDec false false) (sfx sp "__KEY") (JPKey key) sb Gb) as (Gc & Ec & Lc & Kc & Sc). cbv zeta in *.
  destruct (jnew (KDec false false) (sfx sp "__KEY") (JPKey key) sb) as [sc kn] eqn:ENc. cbn [fst snd] in *. subst kn.
  assert (Dkn : is_dec (jb_graph sc) (jlen sb) = true) by (unfold is_dec; rewrite Kc; reflexivity).
  assert (Eac : jext sa sc) by (eapply jext_trans; eauto).
  destruct (jgi_add (jlen s) (jlen sb) sc Gc) as (Gd & Ed & Ld); [apply (jext_dec sa); auto; lia|lia|].
  set (sd := jadd (jlen s) (jlen sb) sc) in *.
  destruct (parse_dict f value sp sd) as [[se vn]| | |] eqn:EP; cbn [bind] in H; try discriminate.
  destruct (parse_dict_good f value sp sd se vn Gd EP) as (Ge & Ee & Le).
  assert (Ece : jext sc se) by (eapply jext_trans; eauto).
  destruct (jgi_add (jlen sb) vn se Ge) as (Gf & Ef & Lf); [apply (jext_dec sc); auto; lia|exact Le|].
  set (sf := jadd (jlen sb) vn se) in *.
  destruct (jgi_new (KLeaf (negb (smem key rem))) None JPNone sf Gf) as (Gg & Eg & Lg & Kg & Sg). cbv zeta in *.
  destruct (jnew (KLeaf (negb (smem key rem))) None JPNone sf) as [sg om] eqn:ENg. cbn [fst snd] in *. subst om.
  assert (Eag : jext sa sg) by (eapply jext_trans; [exact Eac|eapply jext_trans; [exact Ece|eapply jext_trans; eauto]]).
  assert (Dg : is_dec (jb_graph sg) (jlen s) = true) by (apply (jext_dec sa); auto; lia).
  assert (Lsa : jlen s < jlen sg) by (destruct Eag; lia).
  inversion H; subst s' rem'. unfold jadd. cbn [jb_graph].
  destruct (add_transition_spec (jb_graph sg) (jlen s) (jlen sf) Lsa ltac:(unfold jlen in *; lia)) as (K & O & _ & _).
  exists (jlen sf). split; [rewrite O, Nat.eqb_refl; apply in_or_app; right; left; reflexivity|].
  split; [rewrite K; exact Kg|]. split; [unfold is_dec; rewrite K; exact Dg|reflexivity].
Qed.

(* JsonLeafSem.v -- the values the number and string handlers of the JSON generator mark valid, judged by the keyword
   semantics kvalid (the one the C06 fragment theorem uses): every bound keyword of the alternative holds for the number
   emitted, both length keywords for the string emitted (C01, one alternative, one handler). *)
From Coq Require Import String ZArith Lia List.
From Fences Require Import Json Normalize JsonGen JsonLeaves JsonEnum JsonValid.
Local Open Scope Z_scope.

Lemma read_num_jnum d k m : dget (kw k) d = Some (JNum m) -> read_num d k = Ok (Some m).
Proof. intros H. unfold read_num. rewrite H. reflexivity. Qed.

Lemma ok_inj {A} (a b : A) : Ok a = Ok b -> a = b.
Proof. intros H. inversion H. reflexivity. Qed.

Theorem number_leaf_kvalid : forall d mn emn mx emx mo,
  read_num d "minimum" = Ok mn -> read_num d "exclusiveMinimum" = Ok emn ->
  read_num d "maximum" = Ok mx -> read_num d "exclusiveMaximum" = Ok emx -> read_num d "multipleOf" = Ok mo ->
  (mn = None \/ emn = None) -> (mx = None \/ emx = None) -> (forall m, mo = Some m -> 0 < m) ->
  num_sat (fst (number_bounds mn emn mx emx)) (snd (number_bounds mn emn mx emx)) mo ->
  let v := number_valid_value (fst (number_bounds mn emn mx emx)) (snd (number_bounds mn emn mx emx)) mo in
  forall k val, dget k d = Some val ->
    In k (kws ["minimum"; "maximum"; "exclusiveMinimum"; "exclusiveMaximum"]%string) -> kvalid k val (JNum v).
Proof.
  intros d mn emn mx emx mo R1 R2 R3 R4 R5 L U HM HS v k val G Hk.
  pose proof (number_valid_ok _ _ mo HM HS) as (OKlo & OKhi & _). fold v in OKlo, OKhi.
  unfold kws in Hk. cbn [map In] in Hk. destruct Hk as [<- | [<- | [<- | [<- | []]]]].
  - kvat. intros m z -> Ez. inversion Ez; subst z.
    rewrite (read_num_jnum d "minimum" m G) in R1. apply ok_inj in R1. subst mn.
    destruct L as [X | ->]; [discriminate|]. apply OKlo. reflexivity.
  - kvat. intros m z -> Ez. inversion Ez; subst z.
    rewrite (read_num_jnum d "maximum" m G) in R3. apply ok_inj in R3. subst mx.
    destruct U as [X | ->]; [discriminate|]. apply OKhi. reflexivity.
  - kvat. intros m z -> Ez. inversion Ez; subst z.
    rewrite (read_num_jnum d "exclusiveMinimum" m G) in R2. apply ok_inj in R2. subst emn.
    assert (X : m + 1 <= v) by (apply OKlo; reflexivity). lia.
  - kvat. intros m z -> Ez. inversion Ez; subst z.
    rewrite (read_num_jnum d "exclusiveMaximum" m G) in R4. apply ok_inj in R4. subst emx.
    assert (X : v <= m - 1) by (apply OKhi; reflexivity). lia.
Qed.

(* the string handler: the string it emits satisfies minLength and maxLength as the alternative states them *)
Theorem string_leaf_kvalid : forall d (mn : nat) mx,
  read_nat d "minLength" 0%nat = Ok mn -> read_num d "maxLength" = Ok mx ->
  (match mx with Some m => Z.ltb m (Z.of_nat mn) | None => false end) = false ->
  forall k val, dget k d = Some val -> In k (kws ["minLength"; "maxLength"]%string) ->
    (forall n, val = JNum n -> 0 <= n) ->
    kvalid k val (JStr (repeat 120%nat mn)).
Proof.
  intros d mn mx R1 R2 HB k val G Hk NN.
  destruct (string_valid_ok mn mx HB) as [Lo Hi].
  unfold kws in Hk. cbn [map In] in Hk. destruct Hk as [<- | [<- | []]].
  - kvat. intros n s -> Es. inversion Es; subst s.
    unfold read_nat in R1. rewrite (read_num_jnum d "minLength" n G) in R1. cbn [bind] in R1. apply ok_inj in R1. subst mn.
    specialize (NN n eq_refl). rewrite repeat_length. rewrite Z2Nat.id by exact NN. lia.
  - kvat. intros n s -> Es. inversion Es; subst s.
    rewrite (read_num_jnum d "maxLength" n G) in R2. apply ok_inj in R2. subst mx. apply Hi. reflexivity.
Qed.

(* the counter-examples of the number handler: each bound keyword of the alternative is violated by one of the values
   marked invalid (C02, one alternative, the number handler) *)
Theorem number_invalid_kvalid : forall mn emn mx emx,
  let lo := fst (number_bounds mn emn mx emx) in
  let hi := snd (number_bounds mn emn mx emx) in
  (forall m, mn = Some m -> emn = None ->
     In (m - 1) (number_invalid_values lo hi) /\ ~ kvalid (kw "minimum") (JNum m) (JNum (m - 1))) /\
  (forall e, emn = Some e ->
     In e (number_invalid_values lo hi) /\ ~ kvalid (kw "exclusiveMinimum") (JNum e) (JNum e)) /\
  (forall m, mx = Some m -> emx = None ->
     In (m + 1) (number_invalid_values lo hi) /\ ~ kvalid (kw "maximum") (JNum m) (JNum (m + 1))) /\
  (forall e, emx = Some e ->
     In e (number_invalid_values lo hi) /\ ~ kvalid (kw "exclusiveMaximum") (JNum e) (JNum e)).
Proof.
  intros mn emn mx emx lo hi. unfold lo, hi, number_bounds, number_invalid_values. cbn [fst snd].
  split; [|split; [|split]].
  - intros m -> ->. split; [apply in_or_app; left; left; reflexivity|].
    kvat. intros H. specialize (H m (m - 1) eq_refl eq_refl). lia.
  - intros e ->. split; [apply in_or_app; left; left; lia|].
    kvat. intros H. specialize (H e e eq_refl eq_refl). lia.
  - intros m -> ->. split; [apply in_or_app; right; destruct (match emn with Some e => Some (e + 1) | None => mn end); left; reflexivity|].
    kvat. intros H. specialize (H m (m + 1) eq_refl eq_refl). lia.
  - intros e ->. split; [apply in_or_app; right; left; lia|].
    kvat. intros H. specialize (H e e eq_refl eq_refl). lia.
Qed.

(* the enum handler: every value marked valid satisfies the alternative's enum keyword; no value marked invalid does
   (members are scalars: what the handler accepts) *)
From Fences Require Import JsonSem.
Theorem enum_leaf_kvalid : forall ne en v, hashable_all en = true ->
  In v (enum_valid ne en) -> kvalid (kw "enum") (JArr en) v.
Proof.
  intros ne en v He Hv. apply enum_valid_member in Hv. kvat. exists en. split; [reflexivity|].
  apply existsb_exists. exists v. split; [exact Hv|].
  apply (json_eqb_scalar v v); [|reflexivity].
  unfold hashable_all in He. rewrite forallb_forall in He. apply He. exact Hv.
Qed.

(* GraphOpt.v -- Decision.optimize keeps the meaning of a graph (C15): every complete execution of the
   graph before optimisation has a counterpart after it that applies the same side-effecting nodes
   (everything except NoOpDecisions) in the same order, and conversely. *)
From Fences Require Import GraphSpec GraphLinks GraphOps.

(* ---------- executions that consume their path exactly ---------- *)
Inductive Run0 (g : graph) : nat -> list nat -> list nat -> Prop :=
| R0_leaf n v : kind_of g n = KLeaf v -> Run0 g n [] [n]
| R0_one n noop i t c tr :
    kind_of g n = KDec false noop -> nth_error (outs_of g n) i = Some t ->
    Run0 g t c tr -> Run0 g n (i :: c) (n :: tr)
| R0_all n noop c trs :
    kind_of g n = KDec true noop -> RunAll0 g (outs_of g n) c trs -> Run0 g n c (n :: trs)
with RunAll0 (g : graph) : list nat -> list nat -> list nat -> Prop :=
| RA0_nil : RunAll0 g [] [] []
| RA0_cons t ts c1 tr c2 trs :
    Run0 g t c1 tr -> RunAll0 g ts c2 trs -> RunAll0 g (t :: ts) (c1 ++ c2) (tr ++ trs).

Scheme Run0_mind := Induction for Run0 Sort Prop
  with RunAll0_mind := Induction for RunAll0 Sort Prop.

(* what an observer sees: the nodes applied, without the do-nothing decisions *)
Definition vis (np : nat -> bool) (tr : list nat) : list nat := filter (fun n => negb (np n)) tr.

Lemma vis_app np a b : vis np (a ++ b) = vis np a ++ vis np b.
Proof. apply filter_app. Qed.

Lemma vis_noops np pre : (forall x, In x pre -> np x = true) -> vis np pre = [].
Proof.
  induction pre as [|x r IH]; intros H; simpl; auto.
  rewrite (H x (or_introl eq_refl)). simpl. apply IH. intros; apply H; right; auto.
Qed.

Definition sim (np : nat -> bool) (g g' : graph) : Prop :=
  forall x c tr, Run0 g x c tr -> exists c' tr', Run0 g' x c' tr' /\ vis np tr' = vis np tr.

Lemma sim_refl np g : sim np g g.
Proof. intros x c tr H. eauto. Qed.

Lemma sim_trans np g1 g2 g3 : sim np g1 g2 -> sim np g2 g3 -> sim np g1 g3.
Proof.
  intros A B x c tr H. destruct (A _ _ _ H) as (c2 & tr2 & H2 & E2).
  destruct (B _ _ _ H2) as (c3 & tr3 & H3 & E3). exists c3, tr3. split; auto. congruence.
Qed.

(* ---------- what splice changes ---------- *)
Lemma fold_upd_ins_spec (f : node -> list (nat * nat)) : forall (o : list nat) (g : graph),
  let g' := fold_left (fun g t => upd_node g t (fun nd => mkNode (nkind nd) (nid nd) (outs nd) (f nd))) o g in
  (forall x, kind_of g' x = kind_of g x) /\ (forall x, outs_of g' x = outs_of g x) /\ length g' = length g.
Proof.
  induction o as [|t o IH]; intros g; simpl; auto.
  set (g1 := upd_node g t (fun nd => mkNode (nkind nd) (nid nd) (outs nd) (f nd))).
  destruct (IH g1) as (K & O & L).
  assert (K1 : forall x, kind_of g1 x = kind_of g x /\ outs_of g1 x = outs_of g x).
  { intros x. unfold kind_of, outs_of, g1.
    destruct (Nat.eq_dec x t) as [->|Ne].
    - destruct (Nat.lt_ge_cases t (length g)) as [Lt|Ge].
      + rewrite getn_upd_same by exact Lt. simpl. auto.
      + rewrite upd_node_out by exact Ge. auto.
    - rewrite getn_upd_other by exact Ne. auto. }
  split; [intros x; rewrite K; apply K1|]. split; [intros x; rewrite O; apply K1|].
  rewrite L. unfold g1. apply upd_node_length.
Qed.

Lemma splice_spec g n mw all noop :
  kind_of g n = KDec all noop -> n < length g ->
  let g' := splice g n mw in
  (forall x, x <> n -> kind_of g' x = kind_of g x /\ outs_of g' x = outs_of g x) /\
  kind_of g' n = KDec (is_all g mw) noop /\ outs_of g' n = outs_of g mw /\ length g' = length g.
Proof.
  intros K L g'. unfold g', splice. rewrite K.
  set (g1 := upd_node g n (fun nd => mkNode (KDec (is_all g mw) noop) (nid nd) (outs_of g mw) (ins nd))).
  destruct (fold_upd_ins_spec (fun nd => map (resource mw n) (ins nd)) (outs_of g mw) g1) as (K2 & O2 & L2).
  repeat split.
  - rewrite K2. unfold kind_of, g1. rewrite getn_upd_other; auto.
  - rewrite O2. unfold outs_of, g1. rewrite getn_upd_other; auto.
  - rewrite K2. unfold kind_of, g1. rewrite getn_upd_same by exact L. reflexivity.
  - rewrite O2. unfold outs_of at 1. unfold g1. rewrite getn_upd_same by exact L. reflexivity.
  - rewrite L2. unfold g1. apply upd_node_length.
Qed.

(* ---------- chains of single-successor do-nothing decisions ---------- *)
Inductive chain_rel (g : graph) (avoid : nat) : nat -> nat -> Prop :=
| cr_refl m : chain_rel g avoid m m
| cr_step m s mw : outs_of g m = [s] -> is_noop g s = true -> s <> avoid ->
                   chain_rel g avoid s mw -> chain_rel g avoid m mw.

Lemma chain_spec : forall k g vis m avoid, mem avoid vis = true ->
  chain_rel g avoid m (chain k g vis m).
Proof.
  induction k as [|k IH]; intros g vis m avoid Hv; simpl; [constructor|].
  destruct (outs_of g m) as [|s [|s2 r]] eqn:O; try constructor.
  destruct ((length (ins_of g s) =? 1) && is_noop g s && negb (mem s vis)) eqn:C; [|constructor].
  apply andb_true_iff in C. destruct C as [C C3]. apply andb_true_iff in C. destruct C as [C1 C2].
  eapply cr_step; eauto.
  intros ->. rewrite Hv in C3. discriminate.
Qed.

Lemma noop_kind g s : is_noop g s = true -> exists a, kind_of g s = KDec a true.
Proof. unfold is_noop. destruct (kind_of g s) as [v|a b|r]; try discriminate. intros ->. eauto. Qed.

Lemma run0_dec_head g x c tr a b : kind_of g x = KDec a b -> Run0 g x c tr -> exists t, tr = x :: t.
Proof. intros K H. inversion H; subst; eauto; congruence. Qed.

Lemma chain_end_noop g avoid s mw : chain_rel g avoid s mw -> is_noop g s = true -> is_noop g mw = true.
Proof. induction 1; auto. Qed.

Lemma chain_end_ne g avoid s mw : chain_rel g avoid s mw -> s <> avoid -> mw <> avoid.
Proof. induction 1; auto. Qed.

Lemma same_shape h a b al na nb c t :
  kind_of h a = KDec al na -> kind_of h b = KDec al nb -> outs_of h a = outs_of h b ->
  Run0 h a c (a :: t) -> Run0 h b c (b :: t).
Proof.
  intros Ka Kb O H. inversion H; subst.
  - congruence.
  - rewrite Ka in H1. inversion H1; subst. eapply R0_one; eauto. rewrite <- O. eauto.
  - rewrite Ka in H1. inversion H1; subst. eapply R0_all; eauto. rewrite <- O. eauto.
Qed.

Section Chain.
Variable np : nat -> bool.
Variables (g h : graph) (n : nat).
Hypothesis NPg : forall x, is_noop g x = np x.
Hypothesis Agree : forall x, x <> n -> kind_of h x = kind_of g x /\ outs_of h x = outs_of g x.

(* running the head of a chain runs the chain's nodes (all do-nothing) and then its end *)
Lemma follow : forall s mw, chain_rel g n s mw -> s <> n -> is_noop g s = true ->
  forall c tr, Run0 h s c tr ->
  exists c0 tr0 pre, Run0 h mw c0 tr0 /\ tr = pre ++ tr0 /\ (forall x, In x pre -> np x = true).
Proof.
  induction 1 as [m|m s2 mw O N2 Ne2 C IH]; intros Ne Nm c tr R.
  - exists c, tr, []. split; auto.
  - destruct (noop_kind _ _ Nm) as [a K]. destruct (Agree m Ne) as [Kh Oh].
    rewrite K in Kh. rewrite O in Oh.
    inversion R; subst; try congruence.
    + (* choose-one *)
      match goal with Hn : nth_error (outs_of h m) _ = Some _ |- _ => rewrite Oh in Hn; rename Hn into Hnth end.
      destruct i as [|i]; simpl in Hnth; [|destruct i; discriminate].
      inversion Hnth; subst t.
      match goal with Hr : Run0 h s2 _ _ |- _ => destruct (IH Ne2 N2 _ _ Hr) as (cz & trz & pre & Rz & -> & P) end.
      exists cz, trz, (m :: pre). split; auto. split; auto.
      intros x [<-|Hx]; auto. rewrite <- NPg. exact Nm.
    + (* do-all *)
      match goal with Ha : RunAll0 h (outs_of h m) _ _ |- _ => rewrite Oh in Ha; inversion Ha; subst end.
      match goal with Hb : RunAll0 h [] _ _ |- _ => inversion Hb; subst end.
      match goal with Hr : Run0 h s2 _ _ |- _ => destruct (IH Ne2 N2 _ _ Hr) as (cz & trz & pre & Rz & -> & P) end.
      exists cz, trz, (m :: pre). rewrite !app_nil_r. split; auto. split; auto.
      intros x [<-|Hx]; auto. rewrite <- NPg. exact Nm.
Qed.

(* conversely, a run of the chain's end extends to a run of its head *)
Lemma build_chain : forall s mw, chain_rel g n s mw -> s <> n -> is_noop g s = true ->
  forall c0 tr0, Run0 h mw c0 tr0 ->
  exists c pre, Run0 h s c (pre ++ tr0) /\ (forall x, In x pre -> np x = true).
Proof.
  induction 1 as [m|m s2 mw O N2 Ne2 C IH]; intros Ne Nm c0 tr0 R.
  - exists c0, []. split; auto; try (intros x Hx; destruct Hx).
  - destruct (noop_kind _ _ Nm) as [a K]. destruct (Agree m Ne) as [Kh Oh].
    rewrite K in Kh. rewrite O in Oh.
    destruct (IH Ne2 N2 _ _ R) as (c2 & pre & R2 & P).
    assert (Pm : forall x, In x (m :: pre) -> np x = true).
    { intros x [<-|Hx]; auto. rewrite <- NPg. exact Nm. }
    destruct a.
    + exists (c2 ++ []), (m :: pre). split; auto. simpl.
      replace (pre ++ tr0) with ((pre ++ tr0) ++ []) by apply app_nil_r.
      eapply R0_all; eauto. rewrite Oh. econstructor; eauto. constructor.
    + exists (0 :: c2), (m :: pre). split; auto. simpl.
      eapply R0_one; eauto. rewrite Oh. reflexivity.
Qed.

End Chain.

(* ---------- one splice keeps the meaning, both ways ---------- *)
Section Splice.
Variable np : nat -> bool.
Variables (g g' : graph) (n mw c1 : nat) (an noopn : bool).
Hypothesis NPg : forall x, is_noop g x = np x.
Hypothesis Kn : kind_of g n = KDec an noopn.
Hypothesis On : outs_of g n = [c1].
Hypothesis N1 : is_noop g c1 = true.
Hypothesis Ne1 : c1 <> n.
Hypothesis Chain : chain_rel g n c1 mw.
Hypothesis Other : forall x, x <> n -> kind_of g' x = kind_of g x /\ outs_of g' x = outs_of g x.
Hypothesis Kn' : kind_of g' n = KDec (is_all g mw) noopn.
Hypothesis On' : outs_of g' n = outs_of g mw.

Let Nmw : is_noop g mw = true := chain_end_noop g n c1 mw Chain N1.
Let Nemw : mw <> n := chain_end_ne g n c1 mw Chain Ne1.

Lemma mw_kind : kind_of g mw = KDec (is_all g mw) true.
Proof. destruct (noop_kind _ _ Nmw) as [a K]. unfold is_all. rewrite K. reflexivity. Qed.

Lemma vis_head x t : vis np (x :: t) = (if np x then [] else [x]) ++ vis np t.
Proof. unfold vis. simpl. destruct (np x); reflexivity. Qed.

Lemma agree_refl : forall x, x <> n -> kind_of g x = kind_of g x /\ outs_of g x = outs_of g x.
Proof. auto. Qed.

(* the counterpart, in g', of a run of c1 in g' : skip the chain and run n *)
Lemma lift_n c' tr' :
  Run0 g' c1 c' tr' -> exists c0 t0, Run0 g' n c0 (n :: t0) /\ vis np (n :: t0) = vis np (n :: tr').
Proof.
  intros R.
  destruct (follow np g g' n NPg Other c1 mw Chain Ne1 N1 _ _ R) as (c0 & tr0 & pre & R0 & -> & P).
  destruct (Other mw Nemw) as [Km Om]. rewrite mw_kind in Km.
  destruct (run0_dec_head _ _ _ _ _ _ Km R0) as [t0 ->].
  exists c0, t0. split.
  - eapply same_shape; [exact Km|exact Kn'| |exact R0]. rewrite On', Om. reflexivity.
  - rewrite !vis_head, vis_app, vis_head. rewrite (vis_noops np pre P).
    rewrite <- (NPg mw), Nmw. reflexivity.
Qed.

Lemma splice_sim_fwd : sim np g g'.
Proof.
  intros x c tr H.
  induction H using Run0_mind with
    (P0 := fun l c trs _ => exists c' trs', RunAll0 g' l c' trs' /\ vis np trs' = vis np trs).
  - (* leaf *)
    assert (n0 <> n) by (intros ->; congruence).
    destruct (Other n0 H) as [K _]. exists [], [n0]. split; auto. eapply R0_leaf. rewrite K. eauto.
  - (* choose-one *)
    destruct IHRun0 as (c' & tr' & R' & E').
    destruct (Nat.eq_dec n0 n) as [->|Ne].
    + rewrite On in e0. destruct i as [|i]; simpl in e0; [|destruct i; discriminate].
      inversion e0; subst t.
      destruct (lift_n _ _ R') as (cq & tq & Rn & En). exists cq, (n :: tq). split; auto.
      rewrite En, !vis_head, E'. reflexivity.
    + destruct (Other n0 Ne) as [K O]. exists (i :: c'), (n0 :: tr'). split.
      * eapply R0_one; [rewrite K; eauto|rewrite O; eauto|exact R'].
      * rewrite !vis_head, E'. reflexivity.
  - (* do-all *)
    destruct IHRun0 as (c' & trs' & R' & E').
    destruct (Nat.eq_dec n0 n) as [->|Ne].
    + rewrite On in R'. inversion R'; subst.
      match goal with Hb : RunAll0 g' [] _ _ |- _ => inversion Hb; subst end.
      rewrite !app_nil_r in *.
      match goal with Hr : Run0 g' c1 _ _ |- _ => destruct (lift_n _ _ Hr) as (cq & tq & Rn & En) end.
      exists cq, (n :: tq). split; auto.
      rewrite En, !vis_head, E'. reflexivity.
    + destruct (Other n0 Ne) as [K O]. exists c', (n0 :: trs'). split.
      * eapply R0_all; [rewrite K; eauto|rewrite O; exact R'].
      * rewrite !vis_head, E'. reflexivity.
  - exists [], []. split; auto. constructor.
  - destruct IHRun0 as (c1' & tr1' & R1 & E1). destruct IHRun1 as (c2' & trs2' & R2 & E2).
    exists (c1' ++ c2'), (tr1' ++ trs2'). split; [econstructor; eauto|].
    rewrite !vis_app, E1, E2. reflexivity.
Qed.

(* from a run of mw's children under n in g' back to a run of n in g *)
Lemma lower_n c0 t0 :
  Run0 g mw c0 (mw :: t0) -> exists c, exists t, Run0 g n c (n :: t) /\ vis np (n :: t) = vis np (n :: t0).
Proof.
  intros R.
  destruct (build_chain np g g n NPg agree_refl c1 mw Chain Ne1 N1 _ _ R) as (c & pre & Rc & P).
  assert (E : vis np (n :: pre ++ mw :: t0) = vis np (n :: t0)).
  { rewrite !vis_head, vis_app, vis_head, (vis_noops np pre P). rewrite <- (NPg mw), Nmw. reflexivity. }
  destruct an.
  - exists (c ++ []), ((pre ++ mw :: t0) ++ []). split; [|rewrite app_nil_r; exact E].
    eapply R0_all; eauto. rewrite On. econstructor; eauto. constructor.
  - exists (0 :: c), (pre ++ mw :: t0). split; [|exact E].
    eapply R0_one; eauto. rewrite On. reflexivity.
Qed.

Lemma splice_sim_bwd : sim np g' g.
Proof.
  intros x c tr H.
  induction H using Run0_mind with
    (P0 := fun l c trs _ => exists c' trs', RunAll0 g l c' trs' /\ vis np trs' = vis np trs).
  - assert (n0 <> n) by (intros ->; congruence).
    destruct (Other n0 H) as [K _]. exists [], [n0]. split; auto. eapply R0_leaf. rewrite <- K. eauto.
  - destruct IHRun0 as (c' & tr' & R' & E').
    destruct (Nat.eq_dec n0 n) as [->|Ne].
    + rewrite Kn' in e. injection e as Eall Enoop. rewrite On' in e0.
      assert (Rm : Run0 g mw (i :: c') (mw :: tr')).
      { eapply R0_one; [rewrite mw_kind, Eall; reflexivity|exact e0|exact R']. }
      destruct (lower_n _ _ Rm) as (cc & tq & Rn & En). exists cc, (n :: tq). split; auto.
      rewrite En, !vis_head, E'. reflexivity.
    + destruct (Other n0 Ne) as [K O]. exists (i :: c'), (n0 :: tr'). split.
      * eapply R0_one; [rewrite <- K; eauto|rewrite <- O; eauto|exact R'].
      * rewrite !vis_head, E'. reflexivity.
  - destruct IHRun0 as (c' & trs' & R' & E').
    destruct (Nat.eq_dec n0 n) as [->|Ne].
    + rewrite Kn' in e. injection e as Eall Enoop. rewrite On' in R'.
      assert (Rm : Run0 g mw c' (mw :: trs')).
      { eapply R0_all; [rewrite mw_kind, Eall; reflexivity|exact R']. }
      destruct (lower_n _ _ Rm) as (cc & tq & Rn & En). exists cc, (n :: tq). split; auto.
      rewrite En, !vis_head, E'. reflexivity.
    + destruct (Other n0 Ne) as [K O]. exists c', (n0 :: trs'). split.
      * eapply R0_all; [rewrite <- K; eauto|rewrite <- O; exact R'].
      * rewrite !vis_head, E'. reflexivity.
  - exists [], []. split; auto. constructor.
  - destruct IHRun0 as (c1' & tr1' & R1 & E1). destruct IHRun1 as (c2' & trs2' & R2 & E2).
    exists (c1' ++ c2'), (tr1' ++ trs2'). split; [econstructor; eauto|].
    rewrite !vis_app, E1, E2. reflexivity.
Qed.

End Splice.

(* ---------- the whole traversal ---------- *)
Definition opt_post (np : nat -> bool) (g g' : graph) : Prop :=
  sim np g g' /\ sim np g' g /\ (forall x, is_noop g' x = np x) /\ (forall x, is_dec g' x = is_dec g x).

Lemma opt_post_refl np g : (forall x, is_noop g x = np x) -> opt_post np g g.
Proof. intros H. repeat split; auto; apply sim_refl. Qed.

Lemma opt_post_trans np g1 g2 g3 : opt_post np g1 g2 -> opt_post np g2 g3 -> opt_post np g1 g3.
Proof.
  intros (A1 & B1 & C1 & D1) (A2 & B2 & C2 & D2). repeat split; auto.
  - eapply sim_trans; eauto.
  - eapply sim_trans; eauto.
  - intros x. rewrite D2. apply D1.
Qed.

Lemma splice_post np g n mw :
  (forall x, is_noop g x = np x) -> is_dec g n = true -> chain_rel g n n mw -> mw <> n ->
  opt_post np g (splice g n mw).
Proof.
  intros NP D C Ne.
  inversion C as [|m c1 mw' O N1 Ne1 C1]; subst; [congruence|].
  assert (K : exists an noopn, kind_of g n = KDec an noopn).
  { unfold is_dec in D. destruct (kind_of g n) as [v|a b|r]; try discriminate. eauto. }
  destruct K as (an & noopn & K).
  destruct (splice_spec g n mw an noopn K (is_dec_lt _ _ D)) as (Other & Kn' & On' & L).
  repeat split.
  - eapply splice_sim_fwd; eauto.
  - eapply splice_sim_bwd; eauto.
  - intros x. rewrite <- NP. unfold is_noop. destruct (Nat.eq_dec x n) as [->|Nx].
    + rewrite Kn', K. reflexivity.
    + destruct (Other x Nx) as [Kx _]. rewrite Kx. reflexivity.
  - intros x. unfold is_dec. destruct (Nat.eq_dec x n) as [->|Nx].
    + rewrite Kn', K. reflexivity.
    + destruct (Other x Nx) as [Kx _]. rewrite Kx. reflexivity.
Qed.

Lemma opt_sim np : forall f g vis n g' vis',
  (forall x, is_noop g x = np x) ->
  opt f g vis n = Ok (g', vis') -> is_dec g n = true -> opt_post np g g'.
Proof.
  induction f as [|f IH]; intros g vis n g' vis' NP H D; simpl in H; [discriminate|].
  destruct (mem n vis) eqn:M; [inversion H; subst; apply opt_post_refl; auto|].
  set (vis1 := n :: vis) in *.
  set (mw := chain (length g) g vis1 n) in *.
  assert (C : chain_rel g n n mw).
  { apply chain_spec. unfold vis1. simpl. rewrite Nat.eqb_refl. reflexivity. }
  set (g1 := if mw =? n then g else splice g n mw) in *.
  assert (P1 : opt_post np g g1).
  { unfold g1. destruct (Nat.eqb_spec mw n) as [E|Ne]; [apply opt_post_refl; auto|].
    apply splice_post; auto. }
  assert (G : forall l ga visa gb visb,
             opt_post np g ga ->
             foldM (fun '(g, vis) t => if is_dec g t then opt f g vis t else Ok (g, vis)) l (ga, visa) = Ok (gb, visb) ->
             opt_post np g gb).
  { induction l as [|t l IHl]; intros ga visa gb visb Pa F; simpl in F.
    - inversion F; subst; auto.
    - destruct (is_dec ga t) eqn:Dt.
      + destruct (opt f ga visa t) as [[g2 vis2]| | |] eqn:E; simpl in F; try discriminate.
        eapply IHl; [|exact F]. eapply opt_post_trans; [exact Pa|].
        eapply IH; eauto. destruct Pa as (_ & _ & NPa & _). exact NPa.
      + simpl in F. eapply IHl; eauto. }
  eapply G; eauto.
Qed.

(* C15: optimize() keeps the meaning of the graph, both ways, for every node *)
Theorem optimize_sem : forall fuel g root g',
  optimize fuel g root = Ok g' ->
  let np := is_noop g in
  (forall x c tr, Run0 g x c tr -> exists c' tr', Run0 g' x c' tr' /\ vis np tr' = vis np tr) /\
  (forall x c tr, Run0 g' x c tr -> exists c' tr', Run0 g x c' tr' /\ vis np tr' = vis np tr).
Proof.
  intros fuel g root g' H np. unfold optimize in H.
  destruct (is_dec g root) eqn:D.
  - destruct (opt fuel g [] root) as [[g2 vis2]| | |] eqn:E; simpl in H; try discriminate.
    inversion H; subst g2.
    destruct (opt_sim np fuel g [] root g' vis2 (fun x => eq_refl) E D) as (A & B & _ & _).
    split; [exact A|exact B].
  - inversion H; subst. split; intros x c tr R; eauto.
Qed.

(* ---------- Run0 is the interpreter exec / Run with the unconsumed rest made implicit ---------- *)
From Fences Require Import GraphExec GraphRun.

Lemma Run0_Run g : forall n c tr, Run0 g n c tr -> forall r, Run g n (c ++ r) tr r.
Proof.
  intros n c tr H.
  induction H using Run0_mind with (P0 := fun l c trs _ => forall r, RunAll g l (c ++ r) trs r); intros rest.
  - simpl. eapply Run_leaf; eauto.
  - simpl. eapply Run_one; eauto.
  - eapply Run_all; eauto.
  - simpl. constructor.
  - rewrite <- app_assoc. econstructor; eauto.
Qed.

Lemma Run_Run0 g : forall n p tr r, Run g n p tr r -> exists c, p = c ++ r /\ Run0 g n c tr.
Proof.
  intros n p tr r H.
  induction H using Run_mind with (P0 := fun l p trs r _ => exists c, p = c ++ r /\ RunAll0 g l c trs).
  - exists []. split; auto. eapply R0_leaf; eauto.
  - destruct IHRun as (c & -> & R). exists (i :: c). split; auto. eapply R0_one; eauto.
  - destruct IHRun as (c & -> & R). exists c. split; auto. eapply R0_all; eauto.
  - exists []. split; auto. constructor.
  - destruct IHRun as (c1 & -> & R1). destruct IHRun0 as (c2 & -> & R2).
    exists (c1 ++ c2). rewrite app_assoc. split; auto. econstructor; eauto.
Qed.

(* complete executions of the interpreter model, before and after optimize() *)
Theorem optimize_exec : forall fuel g root g',
  optimize fuel g root = Ok g' ->
  (forall f p tr, exec f g root p = Ok (tr, []) ->
     exists f' p' tr', exec f' g' root p' = Ok (tr', []) /\ vis (is_noop g) tr' = vis (is_noop g) tr) /\
  (forall f p tr, exec f g' root p = Ok (tr, []) ->
     exists f' p' tr', exec f' g root p' = Ok (tr', []) /\ vis (is_noop g) tr' = vis (is_noop g) tr).
Proof.
  intros fuel g root g' H. destruct (optimize_sem fuel g root g' H) as [A B].
  split; intros f p tr X.
  - apply exec_Run in X. apply Run_Run0 in X. destruct X as (c & -> & R).
    destruct (A _ _ _ R) as (c' & tr' & R' & E).
    destruct (Run_exec g' _ _ _ _ (Run0_Run g' _ _ _ R' [])) as [f' X'].
    exists f', (c' ++ []), tr'. auto.
  - apply exec_Run in X. apply Run_Run0 in X. destruct X as (c & -> & R).
    destruct (B _ _ _ R) as (c' & tr' & R' & E).
    destruct (Run_exec g _ _ _ _ (Run0_Run g _ _ _ R' [])) as [f' X'].
    exists f', (c' ++ []), tr'. auto.
Qed.

(* the invalid leaves applied are preserved as well: leaves are never do-nothing decisions *)
Lemma vis_invalid_leaves g tr : invalid_leaves g (vis (is_noop g) tr) = invalid_leaves g tr.
Proof.
  unfold invalid_leaves, vis. induction tr as [|x r IH]; simpl; auto.
  destruct (is_noop g x) eqn:N; simpl.
  - rewrite IH. unfold is_noop in N. unfold leaf_is. destruct (kind_of g x); try discriminate. reflexivity.
  - rewrite IH. reflexivity.
Qed.

(* GraphLinks.v -- add_transition keeps both directions in step: every graph built with the
   public API is consistently linked (first half of C14). *)
From Fences Require Import GraphSpec.

Lemma getn_out g n : length g <= n -> getn g n = dummy.
Proof. intros H. unfold getn. apply nth_overflow. exact H. Qed.

Lemma upd_node_length g n f : length (upd_node g n f) = length g.
Proof. revert n; induction g as [|x r IH]; intros [|k]; simpl; auto. Qed.

Lemma getn_upd_same g n f : n < length g -> getn (upd_node g n f) n = f (getn g n).
Proof.
  revert n; induction g as [|x r IH]; intros [|k] H; simpl in *; try lia; auto.
  unfold getn in *. simpl. apply IH. lia.
Qed.

Lemma getn_upd_other g n m f : m <> n -> getn (upd_node g n f) m = getn g m.
Proof.
  revert n m; induction g as [|x r IH]; intros [|k] [|j] H; simpl; auto; try congruence.
  unfold getn in *. simpl. apply IH. congruence.
Qed.

Lemma upd_node_out g n f : length g <= n -> upd_node g n f = g.
Proof.
  revert n; induction g as [|x r IH]; intros [|k] H; simpl in *; auto; try lia.
  f_equal. apply IH. lia.
Qed.

Lemma is_dec_lt g s : is_dec g s = true -> s < length g.
Proof.
  intros H. destruct (Nat.lt_ge_cases s (length g)) as [L|L]; auto.
  unfold is_dec, kind_of in H. rewrite getn_out in H by exact L. discriminate.
Qed.

(* what add_transition does to each node *)
Lemma add_transition_spec g s t :
  s < length g -> t < length g ->
  let g' := add_transition g s t in
  let idx := length (outs_of g s) in
  (forall n, kind_of g' n = kind_of g n) /\
  (forall n, outs_of g' n = if n =? s then outs_of g s ++ [t] else outs_of g n) /\
  (forall n, ins_of g' n = if n =? t then ins_of g t ++ [(s, idx)] else ins_of g n) /\
  length g' = length g.
Proof.
  intros Hs Ht g' idx. unfold g', add_transition. fold idx.
  set (f1 := fun nd => mkNode (nkind nd) (nid nd) (outs nd) (ins nd ++ [(s, idx)])).
  set (f2 := fun nd => mkNode (nkind nd) (nid nd) (outs nd ++ [t]) (ins nd)).
  set (g1 := upd_node g t f1).
  assert (L1 : length g1 = length g) by apply upd_node_length.
  assert (G1 : forall n, getn g1 n = if n =? t then f1 (getn g t) else getn g n).
  { intros n. destruct (Nat.eqb_spec n t) as [->|N].
    - apply getn_upd_same; auto.
    - apply getn_upd_other; auto. }
  assert (G2 : forall n, getn (upd_node g1 s f2) n = if n =? s then f2 (getn g1 s) else getn g1 n).
  { intros n. destruct (Nat.eqb_spec n s) as [->|N].
    - apply getn_upd_same; lia.
    - apply getn_upd_other; auto. }
  repeat split.
  - intros n. unfold kind_of. rewrite G2, !G1.
    destruct (Nat.eqb_spec n s) as [->|N]; destruct (Nat.eqb_spec s t) as [->|N2];
      try destruct (Nat.eqb_spec n t) as [->|N3]; simpl; auto; try rewrite Nat.eqb_refl; auto.
  - intros n. unfold outs_of. rewrite G2, !G1.
    destruct (Nat.eqb_spec n s) as [->|N].
    + destruct (Nat.eqb_spec s t) as [->|N2]; simpl; auto.
    + destruct (Nat.eqb_spec n t) as [->|N3]; simpl; auto.
  - intros n. unfold ins_of. rewrite G2, !G1.
    destruct (Nat.eqb_spec n s) as [->|N].
    + destruct (Nat.eqb_spec s t) as [->|N2]; simpl; auto.
    + destruct (Nat.eqb_spec n t) as [->|N3]; simpl; auto.
  - rewrite upd_node_length. exact L1.
Qed.

Lemma add_transition_consistent g s t :
  is_dec g s = true -> t < length g -> consistent g -> consistent (add_transition g s t).
Proof.
  intros Hd Ht [Hi Ho].
  pose proof (is_dec_lt _ _ Hd) as Hs.
  destruct (add_transition_spec g s t Hs Ht) as (K & O & I & _).
  set (g' := add_transition g s t) in *.
  assert (D : forall n, is_dec g' n = is_dec g n) by (intros n; unfold is_dec; rewrite K; auto).
  split.
  - intros n s' i Hin. rewrite D. rewrite I in Hin. rewrite O.
    assert (Old : In (s', i) (ins_of g n) ->
                  is_dec g s' = true /\
                  nth_error (if s' =? s then outs_of g s ++ [t] else outs_of g s') i = Some n).
    { intros H. destruct (Hi _ _ _ H) as [A B]. split; auto.
      destruct (Nat.eqb_spec s' s) as [->|N]; auto.
      rewrite nth_error_app1; auto. apply nth_error_Some. congruence. }
    destruct (Nat.eqb_spec n t) as [->|N]; auto.
    apply in_app_or in Hin. destruct Hin as [H|H]; auto.
    destruct H as [H|[]]. inversion H; subst s' i. split; auto.
    rewrite Nat.eqb_refl. rewrite nth_error_app2 by lia. rewrite Nat.sub_diag. reflexivity.
  - intros s' i t' Hn. rewrite O in Hn. rewrite I.
    destruct (Nat.eqb_spec s' s) as [->|N].
    + destruct (Nat.lt_ge_cases i (length (outs_of g s))) as [L|L].
      * rewrite nth_error_app1 in Hn by exact L. apply Ho in Hn.
        destruct (Nat.eqb_spec t' t) as [->|N2]; auto. apply in_or_app; auto.
      * rewrite nth_error_app2 in Hn by exact L.
        destruct (i - length (outs_of g s)) as [|k] eqn:E; simpl in Hn.
        -- inversion Hn; subst t'. rewrite Nat.eqb_refl. apply in_or_app. right. left.
           f_equal. lia.
        -- destruct k; discriminate.
    + apply Ho in Hn. destruct (Nat.eqb_spec t' t) as [->|N2]; auto. apply in_or_app; auto.
Qed.

Lemma getn_app_old g x n : n < length g -> getn (g ++ [x]) n = getn g n.
Proof. intros H. unfold getn. apply app_nth1. exact H. Qed.

Lemma new_node_consistent g k id : consistent g -> consistent (g ++ [mkNode k id [] []]).
Proof.
  intros [Hi Ho].
  set (x := mkNode k id [] []).
  assert (G : forall n, ins_of (g ++ [x]) n = ins_of g n /\ outs_of (g ++ [x]) n = outs_of g n).
  { intros n. unfold ins_of, outs_of.
    destruct (Nat.lt_ge_cases n (length g)) as [L|L].
    - rewrite getn_app_old; auto.
    - rewrite (getn_out g n L).
      destruct (Nat.eq_dec n (length g)) as [->|N].
      + unfold getn. rewrite app_nth2 by lia. rewrite Nat.sub_diag. simpl. auto.
      + rewrite getn_out; auto. rewrite app_length. simpl. lia. }
  split.
  - intros n s i H. destruct (G n) as [I _]. rewrite I in H.
    destruct (Hi _ _ _ H) as [A B]. destruct (G s) as [_ O]. rewrite O. split; auto.
    pose proof (is_dec_lt _ _ A) as L. unfold is_dec, kind_of. rewrite getn_app_old; auto.
  - intros s i t H. destruct (G s) as [_ O]. rewrite O in H. destruct (G t) as [I _]. rewrite I.
    apply Ho; auto.
Qed.

Lemma apply_op_consistent g o : consistent g -> consistent (apply_op g o).
Proof.
  intros H. destruct o as [k id|s t]; simpl.
  - apply new_node_consistent; auto.
  - destruct (is_dec g s) eqn:D; simpl; auto.
    destruct (Nat.ltb_spec t (length g)) as [L|L]; auto.
    apply add_transition_consistent; auto.
Qed.

Lemma empty_consistent : consistent [].
Proof.
  split.
  - intros n s i H. unfold ins_of, getn in H. destruct n; simpl in H; contradiction.
  - intros s i t H. unfold outs_of, getn in H. destruct s; simpl in H; destruct i; discriminate.
Qed.

Theorem build_consistent : forall ops, consistent (build ops).
Proof.
  intros ops. unfold build.
  assert (G : forall g, consistent g -> consistent (fold_left apply_op ops g)).
  { induction ops as [|o r IH]; simpl; intros g H; auto. apply IH. apply apply_op_consistent; auto. }
  apply G. apply empty_consistent.
Qed.

(* JsonSemNorm.v -- _inline_refs and normalize() on the propositional-scalar fragment (C06). *)
From Fences Require Import Normalize NormShape JsonValid JsonGen JsonEnum JsonSem JsonSemAlts JsonSemDnf.
From Coq Require Import String ZArith Lia.
Local Open Scope list_scope.

Section Inline.
Variable root : json.

Definition ispec (f m : nat) (s : json) : Prop :=
  forall s' c, inline_refs f root s = Ok (s', c) ->
    c = false /\ frag (S m) s' /\ forall x, sem (S m) x s' <-> sem m x s.

Lemma inline_members f m : forall l acc c0 l' c',
  (forall s, In s l -> ispec f m s) ->
  foldM (fun '(acc, cc) s => do '(s', c'') <- inline_refs f root s; Ok (acc ++ [s'], cc || c'')) l (acc, c0) = Ok (l', c') ->
  c' = c0 /\ exists l2, l' = acc ++ l2 /\
    Forall2 (fun s s' => frag (S m) s' /\ forall x, sem (S m) x s' <-> sem m x s) l l2.
Proof.
  induction l as [|s l IH]; intros acc c0 l' c' Sp H; cbn [foldM] in H.
  - inversion H; subst. split; [reflexivity|]. exists []. rewrite app_nil_r. split; [reflexivity|constructor].
  - destruct (inline_refs f root s) as [[s1 c1]| | |] eqn:E; cbn [bind] in H; try discriminate.
    destruct (Sp s (or_introl eq_refl) s1 c1 E) as (-> & F1 & E1). rewrite orb_false_r in H.
    destruct (IH _ _ _ _ (fun s0 Hs => Sp s0 (or_intror Hs)) H) as (-> & l2 & -> & F2).
    split; [reflexivity|]. exists (s1 :: l2). rewrite <- app_assoc. split; [reflexivity|]. constructor; auto.
Qed.

Definition R (m : nat) (s s' : json) : Prop := frag (S m) s' /\ forall x, sem (S m) x s' <-> sem m x s.

Lemma dset_keys_same K v (dd : dict) v0 : dget K dd = Some v0 -> map fst (dset K v dd) = map fst dd.
Proof. intros G. rewrite dset_keys. unfold dhas. rewrite G. reflexivity. Qed.

(* one of the list-valued combinators *)
Lemma list_step f m K (dd : dict) c dd' c' :
  (match dget K dd with
   | Some j => do l <- as_list j;
               do '(l', c') <- foldM (fun '(acc, cc) s => do '(s', c'') <- inline_refs f root s; Ok (acc ++ [s'], cc || c'')) l ([], c);
               Ok (dset K (JArr l') dd, c')
   | None => Ok (dd, c)
   end) = Ok (dd', c') ->
  (forall l, dget K dd = Some (JArr l) -> forall s, In s l -> ispec f m s) ->
  (dget K dd = None \/ exists l, dget K dd = Some (JArr l)) ->
  c' = c /\ map fst dd' = map fst dd /\ (forall key, key <> K -> dget key dd' = dget key dd) /\
  match dget K dd with
  | Some (JArr l) => exists l2, dget K dd' = Some (JArr l2) /\ Forall2 (R m) l l2
  | _ => dget K dd' = dget K dd
  end.
Proof.
  intros H Sp Sh. destruct Sh as [G|[l G]]; rewrite G in *.
  - inversion H; subst. auto.
  - cbn [as_list bind] in H.
    match type of H with bind ?X _ = _ => destruct X as [[l' c1]| | |] eqn:E end; cbn [bind] in H; try discriminate.
    inversion H; subst dd' c'.
    destruct (inline_members f m l [] c l' c1 (Sp l eq_refl) E) as (-> & l2 & -> & F2). cbn [app].
    split; [reflexivity|]. split; [eapply dset_keys_same; eauto|]. split; [intros key N; apply dget_dset_other; auto|].
    exists l2. split; [apply dget_dset_same|exact F2].
Qed.

(* the single-schema combinator "not" *)
Lemma single_step f m K (dd : dict) c dd' c' :
  (match dget K dd with
   | Some s => do '(s', c') <- inline_refs f root s; Ok (dset K s' dd, c || c')
   | None => Ok (dd, c)
   end) = Ok (dd', c') ->
  (forall s, dget K dd = Some s -> ispec f m s) ->
  c' = c /\ map fst dd' = map fst dd /\ (forall key, key <> K -> dget key dd' = dget key dd) /\
  match dget K dd with
  | Some s => exists s', dget K dd' = Some s' /\ R m s s'
  | None => dget K dd' = None
  end.
Proof.
  intros H Sp. destruct (dget K dd) as [s|] eqn:G.
  - destruct (inline_refs f root s) as [[s1 c1]| | |] eqn:E; cbn [bind] in H; try discriminate.
    inversion H; subst dd' c'. destruct (Sp s eq_refl s1 c1 E) as (-> & F1 & E1). rewrite orb_false_r.
    split; [reflexivity|]. split; [eapply dset_keys_same; eauto|]. split; [intros key N; apply dget_dset_other; auto|].
    exists s1. split; [apply dget_dset_same|split; assumption].
  - inversion H; subst. auto.
Qed.
End Inline.


Lemma frag_norm_true m : frag (S (S m)) NORM_TRUE.
Proof. apply frag_list1; [cbv; tauto|]. intros s [<-|[]]. apply frag_empty. Qed.

Lemma sem_norm_true m x : sem (S (S m)) x NORM_TRUE.
Proof. apply sem_any1. exists (JObj []). split; [left; reflexivity|apply sem_empty]. Qed.

Lemma frag_false_alt m : frag (S m) (obj1 "enum" (JArr [])).
Proof.
  split; [constructor; [intros []|constructor]|]. intros k v G. cbn [dget] in G.
  destruct (str_eqb (kw "enum") k) eqn:E; [|discriminate]. apply str_eqb_true in E. subst k. inversion G; subst v.
  change (smem (kw "enum") SK) with true. cbv iota. split; [exists []; split; reflexivity|intros X; cbv in X; discriminate X].
Qed.

Lemma frag_norm_false m : frag (S (S m)) NORM_FALSE.
Proof. apply frag_list1; [cbv; tauto|]. intros s [<-|[]]. apply frag_false_alt. Qed.

Lemma sem_norm_false m x : ~ sem (S (S m)) x NORM_FALSE.
Proof.
  intros V. apply sem_any1 in V. destruct V as (s & [<-|[]] & V). unfold obj1 in V. cbn [sem] in V. destruct V as (Sc & _).
  specialize (Sc (kw "enum") (JArr []) eq_refl ltac:(cbv; tauto)). revert Sc. kvat. intros (l & E & M). inversion E; subst. discriminate M.
Qed.

Lemma inline_obj f root d : inline_refs (S f) root (JObj d) =
   (do '(d1, c1) <- match dget (kw "$ref") d with
                    | Some (JStr r) =>
                      do p <- pointer_from_string r;
                      do target <- pointer_lookup p root;
                      Ok ([(kw "allOf", JArr [JObj (ddel (kw "$ref") d); target])], true)
                    | Some _ => PyErr EAttributeError
                    | None => Ok (d, false)
                    end;
    do '(d2, c2) <- foldM (fun '(dd, c) k =>
                             match dget (kw k) dd with
                             | Some j => do l <- as_list j;
                                         do '(l', c') <- foldM (fun '(acc, cc) s =>
                                                                  do '(s', c'') <- inline_refs f root s;
                                                                  Ok (acc ++ [s'], cc || c'')) l ([], c);
                                         Ok (dset (kw k) (JArr l') dd, c')
                             | None => Ok (dd, c)
                             end) ["anyOf"; "allOf"; "oneOf"]%string (d1, c1);
    do '(dd, c) <- foldM (fun '(dd, c) k =>
             match dget (kw k) dd with
             | Some s => do '(s', c') <- inline_refs f root s; Ok (dset (kw k) s' dd, c || c')
             | None => Ok (dd, c)
             end) ["not"; "if"; "then"; "else"]%string (d2, c2);
    Ok (JObj dd, c)).
Proof. reflexivity. Qed.


Ltac red_in H := cbn [bind] in H; cbv beta iota in H.

Lemma R_all m x l l2 : Forall2 (R m) l l2 ->
  ((forall s', In s' l2 -> sem (S m) x s') <-> (forall s, In s l -> sem m x s)).
Proof.
  intros F. rewrite <- Forall_forall.
  apply (forall2_all (fun s => sem m x s) (fun s' => sem (S m) x s') l l2).
  clear - F. induction F as [|a b l l2 [_ E] F IH]; constructor; auto.
Qed.

Lemma R_ex m x l l2 : Forall2 (R m) l l2 ->
  ((exists s', In s' l2 /\ sem (S m) x s') <-> (exists s, In s l /\ sem m x s)).
Proof.
  intros F. rewrite <- Exists_exists.
  apply (forall2_ex (fun s => sem m x s) (fun s' => sem (S m) x s') l l2).
  clear - F. induction F as [|a b l l2 [_ E] F IH]; constructor; auto.
Qed.

Lemma R_one m x l l2 : Forall2 (R m) l l2 -> (one_of (sem (S m) x) l2 <-> one_of (sem m x) l).
Proof.
  intros F. apply (forall2_one_of (fun s => sem m x s) (fun s' => sem (S m) x s') l l2).
  clear - F. induction F as [|a b l l2 [_ E] F IH]; constructor; auto.
Qed.

Lemma R_frag m l l2 : Forall2 (R m) l l2 -> forall s', In s' l2 -> frag (S m) s'.
Proof. induction 1 as [|a b l l2 [Fb _] F IH]; intros s' H; [destruct H|]. destruct H as [<-|H]; auto. Qed.

(* a dict of the fragment and the one _inline_refs returns for it *)
Lemma rel_dict m d dd : frag (S m) (JObj d) -> map fst dd = map fst d ->
  (forall key, ~ In key LK -> ~ In key UK -> dget key dd = dget key d) ->
  (forall K, In K LK -> match dget K d with
                        | Some (JArr l) => exists l2, dget K dd = Some (JArr l2) /\ Forall2 (R m) l l2
                        | _ => dget K dd = dget K d end) ->
  (forall K, In K UK -> match dget K d with
                        | Some s => exists s', dget K dd = Some s' /\ R m s s'
                        | None => dget K dd = None end) ->
  frag (S (S m)) (JObj dd) /\ forall x, sem (S (S m)) x (JObj dd) <-> sem (S m) x (JObj d).
Proof.
  intros F Keys Oth HL HU.
  assert (NSK : forall k, In k SK -> ~ In k LK /\ ~ In k UK).
  { intros k I. apply SK_enum in I. repeat (destruct I as [->|I]; [split; intros X; cbv in X; intuition discriminate|]).
    subst. split; intros X; cbv in X; intuition discriminate. }
  assert (NC : ~ In (kw "const") LK /\ ~ In (kw "const") UK) by (split; intros X; cbv in X; intuition discriminate).
  (* list-valued keys *)
  assert (GL : forall K l2, In K LK -> dget K dd = Some (JArr l2) -> exists l, dget K d = Some (JArr l) /\ Forall2 (R m) l l2).
  { intros K l2 I G. specialize (HL K I). destruct (dget K d) as [v|] eqn:G0; [|congruence].
    destruct (frag_list m d F K v G0 I) as (l & -> & _). destruct HL as (l2' & G2 & F2). rewrite G2 in G. inversion G; subst. eauto. }
  assert (GL' : forall K l, In K LK -> dget K d = Some (JArr l) -> exists l2, dget K dd = Some (JArr l2) /\ Forall2 (R m) l l2).
  { intros K l I G. specialize (HL K I). rewrite G in HL. exact HL. }
  assert (GU : forall K s', In K UK -> dget K dd = Some s' -> exists s, dget K d = Some s /\ R m s s').
  { intros K s' I G. specialize (HU K I). destruct (dget K d) as [s|] eqn:G0; [|congruence].
    destruct HU as (s2 & G2 & R2). rewrite G2 in G. inversion G; subst. eauto. }
  assert (GU' : forall K s, In K UK -> dget K d = Some s -> exists s', dget K dd = Some s' /\ R m s s').
  { intros K s I G. specialize (HU K I). rewrite G in HU. exact HU. }
  assert (IA : In (kw "allOf") LK) by (cbv; tauto). assert (IY : In (kw "anyOf") LK) by (cbv; tauto).
  assert (IO : In (kw "oneOf") LK) by (cbv; tauto). assert (IN : In (kw "not") UK) by (cbv; tauto).
  assert (II : In (kw "if") UK) by (cbv; tauto). assert (IT : In (kw "then") UK) by (cbv; tauto).
  assert (IE : In (kw "else") UK) by (cbv; tauto).
  split.
  - split; [rewrite Keys; exact (frag_nodup m d F)|]. intros key v G.
    destruct (smem key SK) eqn:E1.
    { apply smem_In in E1. destruct (NSK key E1) as [N1 N2]. rewrite (Oth key N1 N2) in G. exact (frag_scalar m d F key v G E1). }
    destruct (smem key LK) eqn:E2.
    { apply smem_In in E2. specialize (HL key E2). destruct (dget key d) as [v0|] eqn:G0; [|congruence].
      destruct (frag_list m d F key v0 G0 E2) as (l & -> & _). destruct HL as (l2 & G2 & F2). rewrite G2 in G. inversion G; subst.
      exists l2. split; [reflexivity|]. eapply R_frag; eauto. }
    destruct (smem key UK) eqn:E3.
    { apply smem_In in E3. destruct (GU key v E3 G) as (s & _ & [Fv _]). exact Fv. }
    assert (N1 : ~ In key LK) by (intros X; apply smem_In in X; congruence).
    assert (N2 : ~ In key UK) by (intros X; apply smem_In in X; congruence).
    rewrite (Oth key N1 N2) in G. pose proof (proj2 F key v G) as Hk. rewrite E1, E2, E3 in Hk. exact Hk.
  - intros x. rewrite (sem_split (S m) x dd), (sem_split m x d). unfold sem_noite.
    rewrite (Oth (kw "const") (proj1 NC) (proj2 NC)).
    assert (S1 : (forall k v, dget k dd = Some v -> In k SK -> kvalid k v x) <-> (forall k v, dget k d = Some v -> In k SK -> kvalid k v x)).
    { split; intros H k v G I; destruct (NSK k I) as [N1 N2]; apply (H k v); auto; [rewrite (Oth k N1 N2)|rewrite <- (Oth k N1 N2)]; exact G. }
    assert (S3 : (forall l, dget (kw "allOf") dd = Some (JArr l) -> forall s', In s' l -> sem (S m) x s') <->
                 (forall l, dget (kw "allOf") d = Some (JArr l) -> forall s', In s' l -> sem m x s')).
    { split.
      - intros H l G. destruct (GL' _ l IA G) as (l2 & G2 & F2). apply (R_all m x l l2 F2). exact (H l2 G2).
      - intros H l2 G2. destruct (GL _ l2 IA G2) as (l & G & F2). apply (R_all m x l l2 F2). exact (H l G). }
    assert (S4 : (forall l, dget (kw "anyOf") dd = Some (JArr l) -> exists s', In s' l /\ sem (S m) x s') <->
                 (forall l, dget (kw "anyOf") d = Some (JArr l) -> exists s', In s' l /\ sem m x s')).
    { split.
      - intros H l G. destruct (GL' _ l IY G) as (l2 & G2 & F2). apply (R_ex m x l l2 F2). exact (H l2 G2).
      - intros H l2 G2. destruct (GL _ l2 IY G2) as (l & G & F2). apply (R_ex m x l l2 F2). exact (H l G). }
    assert (S5 : (forall l, dget (kw "oneOf") dd = Some (JArr l) -> one_of (sem (S m) x) l) <->
                 (forall l, dget (kw "oneOf") d = Some (JArr l) -> one_of (sem m x) l)).
    { split.
      - intros H l G. destruct (GL' _ l IO G) as (l2 & G2 & F2). apply (R_one m x l l2 F2). exact (H l2 G2).
      - intros H l2 G2. destruct (GL _ l2 IO G2) as (l & G & F2). apply (R_one m x l l2 F2). exact (H l G). }
    assert (SU : forall K, In K UK -> forall P : Prop,
               ((forall s', dget K dd = Some s' -> (sem (S m) x s' -> P)) <-> (forall s, dget K d = Some s -> (sem m x s -> P))) /\
               ((forall s', dget K dd = Some s' -> (~ sem (S m) x s' -> P)) <-> (forall s, dget K d = Some s -> (~ sem m x s -> P)))).
    { intros K I P. split; split.
      - intros H s G V. destruct (GU' K s I G) as (s' & G' & [_ E]). apply (H s' G'). apply E. exact V.
      - intros H s' G' V. destruct (GU K s' I G') as (s & G & [_ E]). apply (H s G). apply E. exact V.
      - intros H s G V. destruct (GU' K s I G) as (s' & G' & [_ E]). apply (H s' G'). intros V'. apply V. apply E. exact V'.
      - intros H s' G' V. destruct (GU K s' I G') as (s & G & [_ E]). apply (H s G). intros V'. apply V. apply E. exact V'. }
    assert (S6 : (forall n, dget (kw "not") dd = Some n -> ~ sem (S m) x n) <-> (forall n, dget (kw "not") d = Some n -> ~ sem m x n)).
    { exact (proj1 (SU _ IN False)). }
    assert (ST : (forall t, dget (kw "then") dd = Some t -> sem (S m) x t) <-> (forall t, dget (kw "then") d = Some t -> sem m x t)).
    { split.
      - intros H t G. destruct (GU' _ t IT G) as (t' & G' & [_ E]). apply E. exact (H t' G').
      - intros H t' G'. destruct (GU _ t' IT G') as (t & G & [_ E]). apply E. exact (H t G). }
    assert (SE : (forall t, dget (kw "else") dd = Some t -> sem (S m) x t) <-> (forall t, dget (kw "else") d = Some t -> sem m x t)).
    { split.
      - intros H t G. destruct (GU' _ t IE G) as (t' & G' & [_ E]). apply E. exact (H t' G').
      - intros H t' G'. destruct (GU _ t' IE G') as (t & G & [_ E]). apply E. exact (H t G). }
    assert (S7 : (forall i, dget (kw "if") dd = Some i ->
                    (sem (S m) x i -> forall t, dget (kw "then") dd = Some t -> sem (S m) x t) /\
                    (~ sem (S m) x i -> forall e, dget (kw "else") dd = Some e -> sem (S m) x e)) <->
                 (forall i, dget (kw "if") d = Some i ->
                    (sem m x i -> forall t, dget (kw "then") d = Some t -> sem m x t) /\
                    (~ sem m x i -> forall e, dget (kw "else") d = Some e -> sem m x e))).
    { split.
      - intros H i G. destruct (GU' _ i II G) as (i' & G' & [_ E]). destruct (H i' G') as [H1 H2]. split.
        + intros V. apply ST. apply H1. apply E. exact V.
        + intros V. apply SE. apply H2. intros V'. apply V. apply E. exact V'.
      - intros H i' G'. destruct (GU _ i' II G') as (i & G & [_ E]). destruct (H i G) as [H1 H2]. split.
        + intros V. apply ST. apply H1. apply E. exact V.
        + intros V. apply SE. apply H2. intros V'. apply V. apply E. exact V'. }
    rewrite S1, S3, S4, S5, S6, S7. tauto.
Qed.

Ltac ne_kw := intros X; cbv in X; discriminate X.

Theorem inline_sem root : forall f m s, frag m s -> ispec root f m s.
Proof.
  induction f as [|f IH]; intros m s Fs s' c H; [destruct s; discriminate H|].
  destruct m as [|m]; [destruct Fs|].
  destruct s as [|b|z|s0|l0|d]; try (exfalso; exact Fs).
  - cbn [inline_refs] in H. destruct b; inversion H; subst.
    + split; [reflexivity|]. split; [apply frag_norm_true|]. intros x. cbn [sem]. split; [reflexivity|intros _; apply sem_norm_true].
    + split; [reflexivity|]. split; [apply frag_norm_false|]. intros x. cbn [sem].
      split; [intros V; exfalso; exact (sem_norm_false m x V)|discriminate].
  - rewrite inline_obj in H.
    rewrite (frag_absent m d Fs (kw "$ref")) in H by (cbv; intuition discriminate).
    cbn [bind foldM] in H.
    assert (SpL : forall K l, In K LK -> dget K d = Some (JArr l) -> forall s, In s l -> ispec root f m s).
    { intros K l I G s Hs. destruct (frag_list m d Fs K _ G I) as (l' & E & Fl). inversion E; subst. apply IH. auto. }
    assert (ShL : forall K, In K LK -> dget K d = None \/ exists l, dget K d = Some (JArr l)).
    { intros K I. destruct (dget K d) as [v|] eqn:G; auto. right. destruct (frag_list m d Fs K v G I) as (l & -> & _). eauto. }
    assert (SpU : forall K s, In K UK -> dget K d = Some s -> ispec root f m s).
    { intros K s I G. apply IH. exact (frag_single m d Fs K s G I). }
    assert (IA : In (kw "allOf") LK) by (cbv; tauto). assert (IY : In (kw "anyOf") LK) by (cbv; tauto).
    assert (IO : In (kw "oneOf") LK) by (cbv; tauto). assert (IN : In (kw "not") UK) by (cbv; tauto).
    assert (II : In (kw "if") UK) by (cbv; tauto). assert (IT : In (kw "then") UK) by (cbv; tauto).
    assert (IE : In (kw "else") UK) by (cbv; tauto).
    (* anyOf, allOf, oneOf *)
    match type of H with bind (bind ?X _) _ = _ => destruct X as [[dd1 c1]| | |] eqn:E1 end; red_in H; try discriminate.
    destruct (list_step root f m (kw "anyOf") d false dd1 c1 E1 (fun l G => SpL _ l IY G) (ShL _ IY)) as (-> & K1 & O1 & V1).
    match type of H with bind (bind ?X _) _ = _ => destruct X as [[dd2 c2]| | |] eqn:E2 end; red_in H; try discriminate.
    assert (G2 : dget (kw "allOf") dd1 = dget (kw "allOf") d) by (apply O1; ne_kw).
    destruct (list_step root f m (kw "allOf") dd1 false dd2 c2 E2) as (-> & K2 & O2 & V2);
      [rewrite G2; exact (fun l G => SpL _ l IA G)|rewrite G2; exact (ShL _ IA)|].
    match type of H with bind (bind ?X _) _ = _ => destruct X as [[dd3 c3]| | |] eqn:E3 end; red_in H; try discriminate.
    assert (G3 : dget (kw "oneOf") dd2 = dget (kw "oneOf") d) by (rewrite O2 by ne_kw; apply O1; ne_kw).
    destruct (list_step root f m (kw "oneOf") dd2 false dd3 c3 E3) as (-> & K3 & O3 & V3);
      [rewrite G3; exact (fun l G => SpL _ l IO G)|rewrite G3; exact (ShL _ IO)|].
    (* not, if, then, else *)
    match type of H with bind (bind ?X _) _ = _ => destruct X as [[dd4 c4]| | |] eqn:E4 end; red_in H; try discriminate.
    assert (G4 : dget (kw "not") dd3 = dget (kw "not") d) by (rewrite O3, O2 by ne_kw; apply O1; ne_kw).
    destruct (single_step root f m (kw "not") dd3 false dd4 c4 E4) as (-> & K4 & O4 & V4);
      [rewrite G4; exact (fun s G => SpU _ s IN G)|].
    match type of H with bind (bind ?X _) _ = _ => destruct X as [[dd5 c5]| | |] eqn:E5 end; red_in H; try discriminate.
    assert (G5 : dget (kw "if") dd4 = dget (kw "if") d) by (rewrite O4, O3, O2 by ne_kw; apply O1; ne_kw).
    destruct (single_step root f m (kw "if") dd4 false dd5 c5 E5) as (-> & K5 & O5 & V5);
      [rewrite G5; exact (fun s G => SpU _ s II G)|].
    match type of H with bind (bind ?X _) _ = _ => destruct X as [[dd6 c6]| | |] eqn:E6 end; red_in H; try discriminate.
    assert (G6 : dget (kw "then") dd5 = dget (kw "then") d) by (rewrite O5, O4, O3, O2 by ne_kw; apply O1; ne_kw).
    destruct (single_step root f m (kw "then") dd5 false dd6 c6 E6) as (-> & K6 & O6 & V6);
      [rewrite G6; exact (fun s G => SpU _ s IT G)|].
    match type of H with bind (bind ?X _) _ = _ => destruct X as [[dd7 c7]| | |] eqn:E7 end; red_in H; try discriminate.
    assert (G7 : dget (kw "else") dd6 = dget (kw "else") d) by (rewrite O6, O5, O4, O3, O2 by ne_kw; apply O1; ne_kw).
    destruct (single_step root f m (kw "else") dd6 false dd7 c7 E7) as (-> & K7 & O7 & V7);
      [rewrite G7; exact (fun s G => SpU _ s IE G)|].
    inversion H; subst s' c. clear H.
    split; [reflexivity|].
    apply rel_dict; [exact Fs|congruence| | |].
    + intros key N1 N2.
      assert (Nk : forall s, In (kw s) LK \/ In (kw s) UK -> key <> kw s) by (intros s [I|I] ->; contradiction).
      rewrite O7, O6, O5, O4, O3, O2, O1 by (apply Nk; cbv; tauto). reflexivity.
    + intros K I. unfold LK, kws in I. cbn [map In] in I. destruct I as [<-|[<-|[<-|[]]]].
      * rewrite O7, O6, O5, O4, O3 by ne_kw. rewrite G2 in V2. exact V2.
      * rewrite O7, O6, O5, O4, O3, O2 by ne_kw. exact V1.
      * rewrite O7, O6, O5, O4 by ne_kw. rewrite G3 in V3. exact V3.
    + intros K I. unfold UK, kws in I. cbn [map In] in I. destruct I as [<-|[<-|[<-|[<-|[]]]]].
      * rewrite O7, O6, O5 by ne_kw. rewrite G4 in V4. exact V4.
      * rewrite O7, O6 by ne_kw. rewrite G5 in V5. exact V5.
      * rewrite O7 by ne_kw. rewrite G6 in V6. exact V6.
      * rewrite G7 in V7. exact V7.
Qed.


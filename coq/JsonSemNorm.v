(* JsonSemNorm.v -- _inline_refs and normalize() on the propositional-scalar fragment (C06). *)
From Fences Require Import Normalize NormShape JsonValid JsonGen JsonEnum JsonSem JsonSemDnf.
From Coq Require Import String ZArith Lia.
Local Open Scope list_scope.

Section Inline.
Variable root : json.

Definition ispec (f m : nat) (s : json) : Prop :=
  forall s' c, inline_refs f root s = Ok (s', c) ->
    c = false /\ frag (S m) s' /\ forall x, sem (S m) x s' <-> sem m x s.

Lemma inline_members f m : forall l acc c0 l' c',
  (forall s, In s l -> ispec f m s) ->
  foldM (fun '(acc, cc) s => do '(s', c'') <- inline_refs f root s; Ok (acc ++ [s'], cc || c'')) l (acc, c0) = Ok (l', c') ->
  c' = c0 /\ exists l2, l' = acc ++ l2 /\
    Forall2 (fun s s' => frag (S m) s' /\ forall x, sem (S m) x s' <-> sem m x s) l l2.
Proof.
  induction l as [|s l IH]; intros acc c0 l' c' Sp H; cbn [foldM] in H.
  - inversion H; subst. split; [reflexivity|]. exists []. rewrite app_nil_r. split; [reflexivity|constructor].
  - destruct (inline_refs f root s) as [[s1 c1]| | |] eqn:E; cbn [bind] in H; try discriminate.
    destruct (Sp s (or_introl eq_refl) s1 c1 E) as (-> & F1 & E1). rewrite orb_false_r in H.
    destruct (IH _ _ _ _ (fun s0 Hs => Sp s0 (or_intror Hs)) H) as (-> & l2 & -> & F2).
    split; [reflexivity|]. exists (s1 :: l2). rewrite <- app_assoc. split; [reflexivity|]. constructor; auto.
Qed.

Definition R (m : nat) (s s' : json) : Prop := frag (S m) s' /\ forall x, sem (S m) x s' <-> sem m x s.

Lemma dset_keys_same K v (dd : dict) v0 : dget K dd = Some v0 -> map fst (dset K v dd) = map fst dd.
Proof. intros G. rewrite dset_keys. unfold dhas. rewrite G. reflexivity. Qed.

(* one of the list-valued combinators *)
Lemma list_step f m K (dd : dict) c dd' c' :
  (match dget K dd with
   | Some j => do l <- as_list j;
               do '(l', c') <- foldM (fun '(acc, cc) s => do '(s', c'') <- inline_refs f root s; Ok (acc ++ [s'], cc || c'')) l ([], c);
               Ok (dset K (JArr l') dd, c')
   | None => Ok (dd, c)
   end) = Ok (dd', c') ->
  (forall l, dget K dd = Some (JArr l) -> forall s, In s l -> ispec f m s) ->
  (dget K dd = None \/ exists l, dget K dd = Some (JArr l)) ->
  c' = c /\ map fst dd' = map fst dd /\ (forall key, key <> K -> dget key dd' = dget key dd) /\
  match dget K dd with
  | Some (JArr l) => exists l2, dget K dd' = Some (JArr l2) /\ Forall2 (R m) l l2
  | _ => dget K dd' = dget K dd
  end.
Proof.
  intros H Sp Sh. destruct Sh as [G|[l G]]; rewrite G in *.
  - inversion H; subst. auto.
  - cbn [as_list bind] in H.
    match type of H with bind ?X _ = _ => destruct X as [[l' c1]| | |] eqn:E end; cbn [bind] in H; try discriminate.
    inversion H; subst dd' c'.
    destruct (inline_members f m l [] c l' c1 (Sp l eq_refl) E) as (-> & l2 & -> & F2). cbn [app].
    split; [reflexivity|]. split; [eapply dset_keys_same; eauto|]. split; [intros key N; apply dget_dset_other; auto|].
    exists l2. split; [apply dget_dset_same|exact F2].
Qed.

(* the single-schema combinator "not" *)
Lemma single_step f m K (dd : dict) c dd' c' :
  (match dget K dd with
   | Some s => do '(s', c') <- inline_refs f root s; Ok (dset K s' dd, c || c')
   | None => Ok (dd, c)
   end) = Ok (dd', c') ->
  (forall s, dget K dd = Some s -> ispec f m s) ->
  c' = c /\ map fst dd' = map fst dd /\ (forall key, key <> K -> dget key dd' = dget key dd) /\
  match dget K dd with
  | Some s => exists s', dget K dd' = Some s' /\ R m s s'
  | None => dget K dd' = None
  end.
Proof.
  intros H Sp. destruct (dget K dd) as [s|] eqn:G.
  - destruct (inline_refs f root s) as [[s1 c1]| | |] eqn:E; cbn [bind] in H; try discriminate.
    inversion H; subst dd' c'. destruct (Sp s eq_refl s1 c1 E) as (-> & F1 & E1). rewrite orb_false_r.
    split; [reflexivity|]. split; [eapply dset_keys_same; eauto|]. split; [intros key N; apply dget_dset_other; auto|].
    exists s1. split; [apply dget_dset_same|split; assumption].
  - inversion H; subst. auto.
Qed.
End Inline.

Lemma frag_empty m : frag (S m) (JObj []).
Proof. split; [constructor|]. intros k v G. discriminate G. Qed.

Lemma sem_empty m x : sem (S m) x (JObj []).
Proof. cbn [sem]. repeat split; intros; discriminate. Qed.

Lemma frag_norm_true m : frag (S (S m)) NORM_TRUE.
Proof.
  split; [one_key|]. intros k v G. sa_dec k v G. right. right. left. split; [reflexivity|].
  exists [JObj []]. split; [reflexivity|]. intros s' [<-|[]]. apply frag_empty.
Qed.

Lemma sem_norm_true m x : sem (S (S m)) x NORM_TRUE.
Proof.
  cbn [sem]. split; [|split; [|split]].
  - intros k v G I. exfalso. sa_dec k v G. cbv in I. intuition discriminate.
  - intros l G. discriminate G.
  - intros l G. inversion G; subst. exists (JObj []). split; [left; reflexivity|apply sem_empty].
  - intros n G. discriminate G.
Qed.

Lemma frag_norm_false m : frag (S (S m)) NORM_FALSE.
Proof.
  split; [one_key|]. intros k v G. sa_dec k v G. right. right. left. split; [reflexivity|].
  exists [obj1 "enum" (JArr [])]. split; [reflexivity|]. intros s' [<-|[]].
  split; [one_key|]. intros k v G. sa_dec k v G. left. split; [cbv; tauto|]. split; [exists []; split; reflexivity|].
  intros X. cbv in X. discriminate X.
Qed.

Lemma sem_norm_false m x : ~ sem (S (S m)) x NORM_FALSE.
Proof.
  cbn [sem]. intros (_ & _ & A & _). destruct (A _ eq_refl) as (s' & [<-|[]] & (Sc & _)).
  specialize (Sc (kw "enum") (JArr []) eq_refl). revert Sc. kvat. intros Sc.
  destruct Sc as (l & E & M); [cbv; tauto|]. inversion E; subst. discriminate M.
Qed.

Lemma inline_obj f root d : inline_refs (S f) root (JObj d) =
   (do '(d1, c1) <- match dget (kw "$ref") d with
                    | Some (JStr r) =>
                      do p <- pointer_from_string r;
                      do target <- pointer_lookup p root;
                      Ok ([(kw "allOf", JArr [JObj (ddel (kw "$ref") d); target])], true)
                    | Some _ => PyErr EAttributeError
                    | None => Ok (d, false)
                    end;
    do '(d2, c2) <- foldM (fun '(dd, c) k =>
                             match dget (kw k) dd with
                             | Some j => do l <- as_list j;
                                         do '(l', c') <- foldM (fun '(acc, cc) s =>
                                                                  do '(s', c'') <- inline_refs f root s;
                                                                  Ok (acc ++ [s'], cc || c'')) l ([], c);
                                         Ok (dset (kw k) (JArr l') dd, c')
                             | None => Ok (dd, c)
                             end) ["anyOf"; "allOf"; "oneOf"]%string (d1, c1);
    do '(dd, c) <- foldM (fun '(dd, c) k =>
             match dget (kw k) dd with
             | Some s => do '(s', c') <- inline_refs f root s; Ok (dset (kw k) s' dd, c || c')
             | None => Ok (dd, c)
             end) ["not"; "if"; "then"; "else"]%string (d2, c2);
    Ok (JObj dd, c)).
Proof. reflexivity. Qed.

Ltac red_in H := cbn [bind] in H; cbv beta iota in H.

Lemma R_all m x l l2 : Forall2 (R m) l l2 ->
  ((forall s', In s' l2 -> sem (S m) x s') <-> (forall s, In s l -> sem m x s)).
Proof.
  intros F. rewrite <- Forall_forall.
  apply (forall2_all (fun s => sem m x s) (fun s' => sem (S m) x s') l l2).
  clear - F. induction F as [|a b l l2 [_ E] F IH]; constructor; auto.
Qed.

Lemma R_ex m x l l2 : Forall2 (R m) l l2 ->
  ((exists s', In s' l2 /\ sem (S m) x s') <-> (exists s, In s l /\ sem m x s)).
Proof.
  intros F. rewrite <- Exists_exists.
  apply (forall2_ex (fun s => sem m x s) (fun s' => sem (S m) x s') l l2).
  clear - F. induction F as [|a b l l2 [_ E] F IH]; constructor; auto.
Qed.

Lemma R_frag m l l2 : Forall2 (R m) l l2 -> forall s', In s' l2 -> frag (S m) s'.
Proof. induction 1 as [|a b l l2 [Fb _] F IH]; intros s' H; [destruct H|]. destruct H as [<-|H]; auto. Qed.

(* a keyword set and the one _inline_refs returns for it *)
Lemma rel_dict m d dd : frag (S m) (JObj d) -> map fst dd = map fst d ->
  (forall key, key <> kw "anyOf" -> key <> kw "allOf" -> key <> kw "not" -> dget key dd = dget key d) ->
  match dget (kw "anyOf") d with
  | Some (JArr l) => exists l2, dget (kw "anyOf") dd = Some (JArr l2) /\ Forall2 (R m) l l2
  | _ => dget (kw "anyOf") dd = dget (kw "anyOf") d end ->
  match dget (kw "allOf") d with
  | Some (JArr l) => exists l2, dget (kw "allOf") dd = Some (JArr l2) /\ Forall2 (R m) l l2
  | _ => dget (kw "allOf") dd = dget (kw "allOf") d end ->
  match dget (kw "not") d with
  | Some s => exists s', dget (kw "not") dd = Some s' /\ R m s s'
  | None => dget (kw "not") dd = None end ->
  frag (S (S m)) (JObj dd) /\ forall x, sem (S (S m)) x (JObj dd) <-> sem (S m) x (JObj d).
Proof.
  intros [ND Hk] Keys Oth VA VL VN.
  assert (KA : forall v, dget (kw "anyOf") d = Some v -> exists l, v = JArr l).
  { intros v G. destruct (Hk _ _ G) as [[I _]|[[X _]|[[_ (l & -> & _)]|[X _]]]];
      [exfalso; cbv in I; intuition discriminate|cbv in X; discriminate X|eauto|cbv in X; discriminate X]. }
  assert (KL : forall v, dget (kw "allOf") d = Some v -> exists l, v = JArr l).
  { intros v G. destruct (Hk _ _ G) as [[I _]|[[_ (l & -> & _)]|[[X _]|[X _]]]];
      [exfalso; cbv in I; intuition discriminate|eauto|cbv in X; discriminate X|cbv in X; discriminate X]. }
  assert (NSK : forall k, In k SK -> k <> kw "anyOf" /\ k <> kw "allOf" /\ k <> kw "not").
  { intros k I. apply SK_enum in I. repeat (destruct I as [->|I]; [repeat split; intros X; cbv in X; discriminate X|]).
    subst. repeat split; intros X; cbv in X; discriminate X. }
  split.
  - split; [rewrite Keys; exact ND|]. intros key v G.
    destruct (list_eq_dec Nat.eq_dec key (kw "anyOf")) as [->|N1].
    { right. right. left. split; [reflexivity|]. destruct (dget (kw "anyOf") d) as [v0|] eqn:G0; [|congruence].
      destruct (KA v0 eq_refl) as [l ->]. destruct VA as (l2 & G2 & F2). rewrite G2 in G. inversion G; subst.
      exists l2. split; [reflexivity|]. eapply R_frag; eauto. }
    destruct (list_eq_dec Nat.eq_dec key (kw "allOf")) as [->|N2].
    { right. left. split; [reflexivity|]. destruct (dget (kw "allOf") d) as [v0|] eqn:G0; [|congruence].
      destruct (KL v0 eq_refl) as [l ->]. destruct VL as (l2 & G2 & F2). rewrite G2 in G. inversion G; subst.
      exists l2. split; [reflexivity|]. eapply R_frag; eauto. }
    destruct (list_eq_dec Nat.eq_dec key (kw "not")) as [->|N3].
    { right. right. right. split; [reflexivity|]. destruct (dget (kw "not") d) as [v0|] eqn:G0; [|congruence].
      destruct VN as (s' & G2 & [F2 _]). rewrite G2 in G. inversion G; subst. exact F2. }
    rewrite (Oth key N1 N2 N3) in G.
    destruct (Hk key v G) as [Sc|[[-> _]|[[-> _]|[-> _]]]]; try congruence. left. exact Sc.
  - intros x. cbn [sem]. split.
    + intros (S1 & S2 & S3 & S4). split; [|split; [|split]].
      * intros k v G I. destruct (NSK k I) as (N1 & N2 & N3). apply S1; auto. rewrite (Oth k N1 N2 N3). exact G.
      * intros l G s Hs. rewrite G in VL. destruct VL as (l2 & G2 & F2).
        revert s Hs. apply (R_all m x l l2 F2). apply S2. exact G2.
      * intros l G. rewrite G in VA. destruct VA as (l2 & G2 & F2). apply (R_ex m x l l2 F2). apply S3. exact G2.
      * intros n G. rewrite G in VN. destruct VN as (s' & G2 & [_ E]). intros V. apply (S4 s' G2). apply E. exact V.
    + intros (S1 & S2 & S3 & S4). split; [|split; [|split]].
      * intros k v G I. destruct (NSK k I) as (N1 & N2 & N3). apply S1; auto. rewrite <- (Oth k N1 N2 N3). exact G.
      * intros l2 G2 s' Hs. destruct (dget (kw "allOf") d) as [v0|] eqn:G0; [|congruence].
        destruct (KL v0 eq_refl) as [l ->]. destruct VL as (l2' & G2' & F2). rewrite G2' in G2. inversion G2; subst.
        revert s' Hs. apply (R_all m x l l2 F2). apply S2. reflexivity.
      * intros l2 G2. destruct (dget (kw "anyOf") d) as [v0|] eqn:G0; [|congruence].
        destruct (KA v0 eq_refl) as [l ->]. destruct VA as (l2' & G2' & F2). rewrite G2' in G2. inversion G2; subst.
        apply (R_ex m x l l2 F2). apply S3. reflexivity.
      * intros n' G2. destruct (dget (kw "not") d) as [v0|] eqn:G0; [|congruence].
        destruct VN as (s' & G2' & [_ E]). rewrite G2' in G2. inversion G2; subst. intros V. apply (S4 v0 eq_refl). apply E. exact V.
Qed.

Theorem inline_sem root : forall f m s, frag m s -> ispec root f m s.
Proof.
  induction f as [|f IH]; intros m s Fs s' c H; [destruct s; discriminate H|].
  destruct m as [|m]; [destruct Fs|].
  destruct s as [|b|z|s0|l0|d]; try (exfalso; exact Fs).
  - cbn [inline_refs] in H. destruct b; inversion H; subst.
    + split; [reflexivity|]. split; [apply frag_norm_true|]. intros x. cbn [sem]. split; [reflexivity|intros _; apply sem_norm_true].
    + split; [reflexivity|]. split; [apply frag_norm_false|]. intros x. cbn [sem].
      split; [intros V; exfalso; exact (sem_norm_false m x V)|discriminate].
  - rewrite inline_obj in H. destruct Fs as [ND Hk].
    assert (KA : forall v, dget (kw "anyOf") d = Some v -> exists l, v = JArr l /\ forall s', In s' l -> frag m s').
    { intros v G. destruct (Hk _ _ G) as [[I _]|[[X _]|[[_ R0]|[X _]]]];
        [exfalso; cbv in I; intuition discriminate|cbv in X; discriminate X|exact R0|cbv in X; discriminate X]. }
    assert (KL : forall v, dget (kw "allOf") d = Some v -> exists l, v = JArr l /\ forall s', In s' l -> frag m s').
    { intros v G. destruct (Hk _ _ G) as [[I _]|[[_ R0]|[[X _]|[X _]]]];
        [exfalso; cbv in I; intuition discriminate|exact R0|cbv in X; discriminate X|cbv in X; discriminate X]. }
    assert (KN : forall v, dget (kw "not") d = Some v -> frag m v).
    { intros v G. destruct (Hk _ _ G) as [[I _]|[[X _]|[[X _]|[_ R0]]]];
        [exfalso; cbv in I; intuition discriminate|cbv in X; discriminate X|cbv in X; discriminate X|exact R0]. }
    assert (Absent : forall k, ~ In k (SK ++ CK) -> dget k d = None).
    { intros k N. destruct (dget k d) eqn:G; auto. exfalso. apply N. apply in_or_app.
      destruct (Hk k j G) as [[I _]|[[-> _]|[[-> _]|[-> _]]]]; auto; right; cbv; tauto. }
    assert (A : forall s, ~ In (kw s) (SK ++ CK) -> dget (kw s) d = None) by (intros; apply Absent; auto).
    rewrite (A "$ref"%string) in H by (cbv; intuition discriminate).
    cbn [bind foldM] in H.
    (* anyOf *)
    match type of H with bind (bind ?X _) _ = _ => destruct X as [[dd1 c1]| | |] eqn:E1 end; red_in H; try discriminate.
    destruct (list_step root f m (kw "anyOf") d false dd1 c1 E1) as (-> & K1 & O1 & V1).
    { intros l G s Hs. destruct (KA _ G) as (l0' & E & Fl). inversion E; subst. apply IH. auto. }
    { destruct (dget (kw "anyOf") d) as [v|] eqn:G; auto. right. destruct (KA v eq_refl) as (l & -> & _). eauto. }
    (* allOf *)
    match type of H with bind (bind ?X _) _ = _ => destruct X as [[dd2 c2]| | |] eqn:E2 end; red_in H; try discriminate.
    assert (GL : dget (kw "allOf") dd1 = dget (kw "allOf") d) by (apply O1; intros X; cbv in X; discriminate X).
    destruct (list_step root f m (kw "allOf") dd1 false dd2 c2 E2) as (-> & K2 & O2 & V2).
    { rewrite GL. intros l G s Hs. destruct (KL _ G) as (l0' & E & Fl). inversion E; subst. apply IH. auto. }
    { rewrite GL. destruct (dget (kw "allOf") d) as [v|] eqn:G; auto. right. destruct (KL v eq_refl) as (l & -> & _). eauto. }
    (* oneOf is absent *)
    assert (GO : dget (kw "oneOf") dd2 = None).
    { rewrite O2 by (intros X; cbv in X; discriminate X). rewrite O1 by (intros X; cbv in X; discriminate X).
      apply A. cbv. intuition discriminate. }
    rewrite GO in H. red_in H.
    (* not *)
    match type of H with bind (bind ?X _) _ = _ => destruct X as [[dd3 c3]| | |] eqn:E3 end; red_in H; try discriminate.
    assert (GN : dget (kw "not") dd2 = dget (kw "not") d).
    { rewrite O2 by (intros X; cbv in X; discriminate X). apply O1. intros X; cbv in X; discriminate X. }
    destruct (single_step root f m (kw "not") dd2 false dd3 c3 E3) as (-> & K3 & O3 & V3).
    { rewrite GN. intros s G. apply IH. auto. }
    (* if / then / else are absent *)
    assert (GI : forall s, ~ In (kw s) (SK ++ CK) -> kw s <> kw "not" -> kw s <> kw "allOf" -> kw s <> kw "anyOf" -> dget (kw s) dd3 = None).
    { intros s N N1 N2 N3. rewrite O3, O2, O1 by auto. apply A. exact N. }
    rewrite (GI "if"%string) in H by (cbv; intuition discriminate). red_in H.
    rewrite (GI "then"%string) in H by (cbv; intuition discriminate). red_in H.
    rewrite (GI "else"%string) in H by (cbv; intuition discriminate). red_in H.
    inversion H; subst s' c. clear H.
    split; [reflexivity|].
    apply rel_dict; [split; assumption|congruence| | | |].
    + intros key N1 N2 N3. rewrite O3, O2, O1 by auto. reflexivity.
    + rewrite O3, O2 by (intros X; cbv in X; discriminate X). exact V1.
    + rewrite O3 by (intros X; cbv in X; discriminate X). rewrite GL in V2. exact V2.
    + rewrite GN in V3. exact V3.
Qed.

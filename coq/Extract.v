(* Extract.v -- extraction of the executable models to OCaml for the correspondence check.
   Directives used: those of ExtrOcamlBasic only (bool, option, unit, prod, list, sumbool, sumor
   as OCaml types; andb/orb/negb/fst/snd inlined).  nat, N, Z, positive stay inductive. *)
From Coq Require Import ExtrOcamlBasic.
From Fences Require Import Base Graph GraphCheck.
Extraction Language OCaml.
Extraction "model.ml" build items generate_paths execute exec V_pinned V_fixed aempty
  wfb productiveb acyclicb.

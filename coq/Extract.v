(* Extract.v -- extraction of the executable models to OCaml for the correspondence check.
   Directives used: those of ExtrOcamlBasic only (bool, option, unit, prod, list, sumbool, sumor
   as OCaml types; andb/orb/negb/fst/snd inlined).  nat, N, Z, positive stay inductive. *)
From Coq Require Import ExtrOcamlBasic.
From Fences Require Import Xml Base Graph GraphOps GraphCheck Format OpenApi OpenApiGraph Regex Grammar Json Normalize JsonGen JsonFragB.
Extraction Language OCaml.
Extraction "model.ml" build apply_op items generate_paths execute executev exec V_pinned V_fixed aempty
  wfb productiveb acyclicb ins_okb outs_okb resolve optimize
  format_parameter_value decode shape_of strs
  generate_all generate_one_valid step empty_cache plan_graph picks
  parse_regex output_of gen_random_string gp_entries parse_grammar
  normalize default_discard parse_json_schema parse_nf jsample parse_xsd xsample semb fragb kvalidb any_of.

(* JsonSemDnf.v -- merge / invert on any-of lists and _to_dnf on the propositional-scalar fragment (C06). *)
From Fences Require Import Normalize NormShape JsonValid JsonGen JsonEnum JsonSem.
From Coq Require Import String ZArith Lia.
Local Open Scope list_scope.

(* ---------- merge (full): the any-of lists are multiplied out ---------- *)
Definition row_step (o : dict) := (fun (acc : list dict) (i : dict) => do ii <- merge2 i o; Ok (acc ++ [ii])).

Lemma row_sem o : scalar_alt o -> forall result acc row,
  Forall galt result -> foldM (row_step o) result acc = Ok row ->
  exists ms, row = acc ++ ms /\ Forall galt ms /\
             forall x, alts_valid ms x <-> alts_valid result x /\ dvalid o x.
Proof.
  intros So. induction result as [|i result IH]; intros acc row Fg H; cbn [foldM] in H.
  - inversion H; subst. exists []. rewrite app_nil_r. split; [reflexivity|]. split; [constructor|].
    intros x. split; [intros (d & [] & _)|intros [(d & [] & _) _]].
  - inversion Fg as [|? ? Gi Fg']; subst. unfold row_step at 1 in H.
    destruct (merge2 i o) as [ii| | |] eqn:E; cbn [bind] in H; try discriminate.
    destruct (merge2_scalar i o ii Gi So E) as [Gii Eq].
    destruct (IH _ _ Fg' H) as (ms & -> & Fm & Eqs).
    exists (ii :: ms). rewrite <- app_assoc. split; [reflexivity|]. split; [constructor; auto|].
    intros x. split.
    + intros (d & [<-|Hd] & V).
      * apply Eq in V. destruct V as [V1 V2]. split; [exists i; split; [left; reflexivity|exact V1]|exact V2].
      * destruct (proj1 (Eqs x) (ex_intro _ d (conj Hd V))) as [(d1 & H1 & V1) V2].
        split; [exists d1; split; [right; exact H1|exact V1]|exact V2].
    + intros [(d & [<-|Hd] & V1) V2].
      * exists ii. split; [left; reflexivity|]. apply Eq. auto.
      * destruct (proj2 (Eqs x) (conj (ex_intro _ d (conj Hd V1)) V2)) as (d1 & H1 & W1).
        exists d1. split; [right; exact H1|exact W1].
Qed.

Definition opt_step (result : list dict) := (fun (new_result : list dict) (option : json) =>
   do o <- as_dict option;
   do row <- foldM (fun acc i => do ii <- merge2 i o; Ok (acc ++ [ii])) result [];
   Ok (new_result ++ row)).

Lemma opts_sem result : Forall galt result -> forall (opts : list dict) acc new,
  Forall galt opts -> foldM (opt_step result) (map JObj opts) acc = Ok new ->
  exists ms, new = acc ++ ms /\ Forall galt ms /\
             forall x, alts_valid ms x <-> alts_valid result x /\ alts_valid opts x.
Proof.
  intros Fr. induction opts as [|o opts IH]; intros acc new Fo H; cbn [map foldM] in H.
  - inversion H; subst. exists []. rewrite app_nil_r. split; [reflexivity|]. split; [constructor|].
    intros x. split; [intros (d & [] & _)|intros [_ (d & [] & _)]].
  - inversion Fo as [|? ? Go Fo']; subst. unfold opt_step at 1 in H. cbn [as_dict bind] in H.
    match type of H with bind (bind ?X _) _ = _ => destruct X as [row| | |] eqn:E end; cbn [bind] in H; try discriminate.
    destruct (row_sem o (proj1 Go) result [] row Fr E) as (ms1 & -> & F1 & Eq1). cbn [app] in H.
    destruct (IH _ _ Fo' H) as (ms & -> & Fm & Eqs).
    exists (ms1 ++ ms). rewrite app_assoc. split; [reflexivity|]. split; [apply Forall_app; auto|].
    intros x. split.
    + intros (d & Hd & V). apply in_app_or in Hd. destruct Hd as [Hd|Hd].
      * destruct (proj1 (Eq1 x) (ex_intro _ d (conj Hd V))) as [R V2]. split; [exact R|exists o; split; [left; reflexivity|exact V2]].
      * destruct (proj1 (Eqs x) (ex_intro _ d (conj Hd V))) as [R (d1 & H1 & V1)]. split; [exact R|exists d1; split; [right; exact H1|exact V1]].
    + intros [R (d & [<-|Hd] & V)].
      * destruct (proj2 (Eq1 x) (conj R V)) as (d1 & H1 & V1). exists d1. split; [apply in_or_app; left; exact H1|exact V1].
      * destruct (proj2 (Eqs x) (conj R (ex_intro _ d (conj Hd V)))) as (d1 & H1 & V1). exists d1. split; [apply in_or_app; right; exact H1|exact V1].
Qed.

Definition schema_step := (fun (result : list dict) (schema : json) =>
   do opts <- any_of schema;
   foldM (fun new_result option =>
            do o <- as_dict option;
            do row <- foldM (fun acc i => do ii <- merge2 i o; Ok (acc ++ [ii])) result [];
            Ok (new_result ++ row)) opts []).

Lemma schemas_sem : forall (ls : list (list dict)) result final,
  Forall galt result -> Forall (Forall galt) ls ->
  foldM schema_step (map dnf_of ls) result = Ok final ->
  Forall galt final /\ forall x, alts_valid final x <-> alts_valid result x /\ Forall (fun l => alts_valid l x) ls.
Proof.
  induction ls as [|l ls IH]; intros result final Fr Fl H; cbn [map foldM] in H.
  - inversion H; subst. split; [exact Fr|]. intros x. split; [intros V; split; [exact V|constructor]|tauto].
  - inversion Fl as [|? ? Gl Fl']; subst. unfold schema_step at 1 in H. rewrite any_of_dnf in H. cbn [bind] in H.
    match type of H with bind ?X _ = _ => destruct X as [new| | |] eqn:E end; cbn [bind] in H; try discriminate.
    destruct (opts_sem result Fr l [] new Gl E) as (ms & -> & Fm & Eq). cbn [app] in H.
    destruct (IH _ _ Fm Fl' H) as [Ff Eqs]. split; [exact Ff|].
    intros x. rewrite (Eqs x), (Eq x). split.
    + intros [[R L] Ls]. split; [exact R|constructor; auto].
    + intros [R Ls]. inversion Ls; subst. tauto.
Qed.

Lemma dvalid_nil x : dvalid [] x.
Proof. intros k v G. discriminate G. Qed.

Lemma galt_nil : galt [].
Proof. split; [intros k v G; discriminate G|constructor]. Qed.

(* merge with full_merge: the result is satisfied exactly by the instances satisfying every argument *)
Theorem merge_full_sem ls n : Forall (Forall galt) ls ->
  merge_full_ (map dnf_of ls) = Ok n ->
  exists l, n = dnf_of l /\ Forall galt l /\ forall x, alts_valid l x <-> Forall (fun l' => alts_valid l' x) ls.
Proof.
  intros Fl H. unfold merge_full_ in H.
  destruct ls as [|l0 ls0]; [discriminate H|]. remember (l0 :: ls0) as ls eqn:E. clear E l0 ls0.
  destruct (map dnf_of ls) eqn:Em; [discriminate H|]. rewrite <- Em in H. clear Em.
  match type of H with bind ?X _ = _ => destruct X as [final| | |] eqn:E end; cbn [bind] in H; try discriminate.
  inversion H; subst n.
  destruct (schemas_sem ls [[]] final (Forall_cons _ galt_nil (Forall_nil _)) Fl E) as [Ff Eq].
  exists final. split; [reflexivity|]. split; [exact Ff|].
  intros x. rewrite (Eq x). split; [tauto|]. intros Hx. split; [|exact Hx].
  exists []. split; [left; reflexivity|apply dvalid_nil].
Qed.

(* ---------- invert ---------- *)
Lemma invert_list : forall (l : list dict) acc, Forall galt l ->
  exists ls', foldM (fun acc i => do x <- invert1 i; Ok (acc ++ [x])) (map JObj l) acc = Ok (acc ++ map dnf_of ls') /\
              Forall (Forall galt) ls' /\
              Forall2 (fun d l' => forall x, alts_valid l' x <-> ~ dvalid d x) l ls'.
Proof.
  induction l as [|d l IH]; intros acc Fl; cbn [map foldM].
  - exists []. cbn [map]. rewrite app_nil_r. split; [reflexivity|]. split; constructor.
  - inversion Fl as [|? ? Gd Fl']; subst.
    destruct (invert1_sem d Gd) as (l' & E & Fg & Eq). rewrite E. cbn [bind].
    destruct (IH (acc ++ [dnf_of l']) Fl') as (ls' & EF & FF & F2).
    exists (l' :: ls'). cbn [map]. rewrite EF, <- app_assoc. split; [reflexivity|]. split; constructor; auto.
Qed.

Theorem invert_sem cfg l n : full_merge cfg = true -> Forall galt l ->
  invert cfg (dnf_of l) = Ok n ->
  exists l', n = dnf_of l' /\ Forall galt l' /\ forall x, alts_valid l' x <-> ~ alts_valid l x.
Proof.
  intros FM Fl H. unfold invert in H. rewrite any_of_dnf in H. cbn [bind] in H.
  destruct (invert_list l [] Fl) as (ls' & E & FF & F2). rewrite E in H. cbn [bind app] in H.
  unfold merge in H. rewrite FM in H.
  destruct (merge_full_sem ls' n FF H) as (l'' & -> & Fg & Eq).
  exists l''. split; [reflexivity|]. split; [exact Fg|].
  intros x. rewrite (Eq x). clear - F2. induction F2 as [|d l' l ls' Hd F2 IH].
  - split; [intros _ (d & [] & _)|constructor].
  - split.
    + intros Hx. inversion Hx as [|? ? Hl' Hls]; subst. intros (d1 & [<-|H1] & V).
      * apply (Hd x) in Hl'. exact (Hl' V).
      * apply IH in Hls. apply Hls. exists d1. auto.
    + intros H. constructor.
      * apply Hd. intros V. apply H. exists d. split; [left; reflexivity|exact V].
      * apply IH. intros (d1 & H1 & V). apply H. exists d1. split; [right; exact H1|exact V].
Qed.

(* ---------- the fragment and its meaning ---------- *)
Definition CK : list str := kws ["allOf"; "anyOf"; "not"]%string.

(* schemas of the fragment, to nesting depth f *)
Fixpoint frag (f : nat) (s : json) : Prop :=
  match f with
  | 0 => False
  | S f' =>
    match s with
    | JBool _ => True
    | JObj d =>
      NoDup (map fst d) /\
      forall k v, dget k d = Some v ->
        (In k SK /\ wtv k v /\ (k = kw "type" -> ~ In (jstr "integer") (to_list v))) \/
        (k = kw "allOf" /\ exists l, v = JArr l /\ forall s', In s' l -> frag f' s') \/
        (k = kw "anyOf" /\ exists l, v = JArr l /\ forall s', In s' l -> frag f' s') \/
        (k = kw "not" /\ frag f' v)
    | _ => False
    end
  end.

(* when an instance is accepted: every scalar keyword, every member of allOf, some member of anyOf, not the
   schema under not (Draft 2020-12, for these keywords) *)
Fixpoint sem (f : nat) (x : json) (s : json) : Prop :=
  match f with
  | 0 => False
  | S f' =>
    match s with
    | JBool b => b = true
    | JObj d =>
      (forall k v, dget k d = Some v -> In k SK -> kvalid k v x) /\
      (forall l, dget (kw "allOf") d = Some (JArr l) -> forall s', In s' l -> sem f' x s') /\
      (forall l, dget (kw "anyOf") d = Some (JArr l) -> exists s', In s' l /\ sem f' x s') /\
      (forall n, dget (kw "not") d = Some n -> ~ sem f' x n)
    | _ => False
    end
  end.

(* ---------- dictionaries ---------- *)
Lemma dget_ddel_ne k c d : k <> c -> dget c (ddel k d) = dget c d.
Proof.
  intros N. induction d as [|[k' v'] r IH]; cbn [ddel dget]; auto.
  destruct (str_eqb k' k) eqn:E.
  - apply str_eqb_eq in E. subst k'. rewrite (str_eqb_neq k c N). exact IH.
  - cbn [dget]. rewrite IH. reflexivity.
Qed.

Lemma ddel_keys_in k d x : In x (map fst (ddel k d)) -> In x (map fst d).
Proof.
  induction d as [|[k' v'] r IH]; cbn [ddel map fst In]; auto.
  destruct (str_eqb k' k); cbn [map fst In]; tauto.
Qed.

Lemma ddel_nodup k d : NoDup (map fst d) -> NoDup (map fst (ddel k d)).
Proof.
  induction d as [|[k' v'] r IH]; cbn [ddel map fst]; auto. intros N. inversion N; subst.
  destruct (str_eqb k' k); auto. cbn [map fst]. constructor; auto. intros H. apply ddel_keys_in in H. contradiction.
Qed.

Lemma filter_all {A} (p : A -> bool) l : (forall a, In a l -> p a = true) -> filter p l = l.
Proof.
  induction l as [|a l IH]; intros H; cbn [filter]; auto. rewrite (H a (or_introl eq_refl)). f_equal. apply IH. intros; apply H; right; auto.
Qed.

Lemma in_keys_dget k (d : dict) : In k (map fst d) -> exists v, dget k d = Some v.
Proof.
  induction d as [|[k' v'] d IH]; cbn [map fst In dget]; [intros []|].
  destruct (str_eqb k' k) eqn:E; [eauto|]. intros [->|H]; [rewrite str_eqb_refl in E; discriminate|auto].
Qed.

Section ToDnf.
Variable SV : svariant.
Variable cfg : nconfig.
Hypothesis FM : full_merge cfg = true.
(* none of the keywords of the fragment is configured to be discarded *)
Hypothesis DF : forall k, In k (SK ++ CK) -> smem k (discard_fields cfg) = false.

Lemma py_eqb_str s t : py_eqb (JStr s) (JStr t) = true -> s = t.
Proof. unfold py_eqb. cbn. apply str_eqb_eq. Qed.

(* the simplifications before the combinators leave a keyword set of the fragment alone, up to the spelling
   of the type list *)
Lemma simplify_frag f d0 : frag (S f) (JObj d0) ->
  exists d,
    (forall K : dict -> res json,
     (do dc <- simplify_const (filter (fun '(k, _) => negb (smem k (discard_fields cfg))) d0);
      let d2 := simplify_ite SV dc in
      do d3 <- simplify_type d2; do d' <- simplify_depreq d3; K d') = K d) /\
    NoDup (map fst d) /\
    (forall k, k <> kw "type" -> dget k d = dget k d0) /\
    match dget (kw "type") d0 with
    | None => dget (kw "type") d = None
    | Some t => exists T, dget (kw "type") d = Some (JArr T) /\ strs T /\
                          forall x, kvalid (kw "type") (JArr T) x <-> kvalid (kw "type") t x
    end.
Proof.
  intros [ND Hk].
  assert (Keys : forall k v, dget k d0 = Some v -> In k (SK ++ CK)).
  { intros k v G. apply in_or_app. destruct (Hk k v G) as [[I _]|[[-> _]|[[-> _]|[-> _]]]]; auto; right; cbv; tauto. }
  assert (Absent : forall k, ~ In k (SK ++ CK) -> dget k d0 = None).
  { intros k N. destruct (dget k d0) eqn:G; auto. exfalso. apply N. eapply Keys; eauto. }
  assert (E1 : filter (fun '(k, _) => negb (smem k (discard_fields cfg))) d0 = d0).
  { apply filter_all. intros [k v] Hin. apply negb_true_iff. apply DF.
    apply (in_map fst) in Hin. destruct (in_keys_dget k d0 Hin) as [v' G]. eapply Keys; eauto. }
  rewrite E1.
  assert (A : forall s, ~ In (kw s) (SK ++ CK) -> dget (kw s) d0 = None) by (intros; apply Absent; auto).
  assert (Ec : simplify_const d0 = Ok d0).
  { unfold simplify_const. rewrite (A "const"%string); [reflexivity|]. cbv. intuition discriminate. }
  rewrite Ec. cbn [bind].
  assert (Ei : simplify_ite SV d0 = d0).
  { unfold simplify_ite, dhas. rewrite (A "if"%string), (A "then"%string), (A "else"%string); [reflexivity| | |]; cbv; intuition discriminate. }
  rewrite Ei. cbv zeta.
  assert (Dep : forall d, (forall k, k <> kw "type" -> dget k d = dget k d0) -> simplify_depreq d = Ok d).
  { intros d H. unfold simplify_depreq. rewrite H by (intros X; cbv in X; discriminate X).
    rewrite (A "dependentRequired"%string); [reflexivity|]. cbv. intuition discriminate. }
  unfold simplify_type.
  destruct (dget (kw "type") d0) as [t|] eqn:Gt.
  - destruct (Hk _ _ Gt) as [(_ & W & NI)|[[X _]|[[X _]|[X _]]]]; try (cbv in X; discriminate X).
    specialize (NI eq_refl). unfold wtv in W. change (iskw (kw "type") "type") with true in W. cbv iota in W.
    rewrite (strs_hashable _ W). cbn [negb].
    set (s := pset (to_list t)).
    assert (Ss : strs s) by (intros j Hj; apply W; apply pset_subset; exact Hj).
    assert (Sin : forall u, In (JStr u) s <-> In (JStr u) (to_list t)) by (intros u; apply pset_strs_in; exact W).
    assert (NoInt : pmem (jstr "integer") s = false).
    { destruct (pmem (jstr "integer") s) eqn:M; auto. exfalso. apply pmem_spec in M. destruct M as (e & He & Ee).
      destruct (Ss e He) as [u ->]. apply py_eqb_str in Ee. subst u. apply NI. apply Sin. exact He. }
    assert (Fin : forall (T : list json), (forall u, In (JStr u) T <-> In (JStr u) (to_list t)) -> strs T ->
              forall d, d = dset (kw "type") (JArr T) d0 ->
              (forall K : dict -> res json, (do d3 <- Ok d; do d' <- simplify_depreq d3; K d') = K d) /\ NoDup (map fst d) /\
              (forall k, k <> kw "type" -> dget k d = dget k d0) /\
              exists T', dget (kw "type") d = Some (JArr T') /\ strs T' /\
                         forall x, kvalid (kw "type") (JArr T') x <-> kvalid (kw "type") t x).
    { intros T HT ST d ->. cbn [bind].
      assert (O : forall k, k <> kw "type" -> dget k (dset (kw "type") (JArr T) d0) = dget k d0)
        by (intros k N; apply dget_dset_other; auto).
      split; [intros K; cbn [bind]; rewrite (Dep _ O); reflexivity|]. split; [apply dset_nodup; exact ND|]. split; [exact O|].
      exists T. split; [apply dget_dset_same|]. split; [exact ST|].
      intros x. kvat. rewrite (type_names_to_list t), !names_in. apply HT. }
    destruct (pmem (jstr "number") s) eqn:Mn.
    + set (T := filter (fun y => negb (py_eqb y (jstr "integer"))) s).
      destruct (Fin T) with (d := dset (kw "type") (JArr T) d0) as (A1 & A2 & A3 & A4); auto.
      * intros u. unfold T. rewrite filter_In, Sin. split; [tauto|]. intros H. split; auto.
        apply negb_true_iff. destruct (py_eqb (JStr u) (jstr "integer")) eqn:E; auto. exfalso.
        apply py_eqb_str in E. subst u. exact (NI H).
      * intros j Hj. unfold T in Hj. apply filter_In in Hj. apply Ss. tauto.
      * eexists. split; [exact A1|]. auto.
    + rewrite NoInt.
      destruct (Fin s Sin Ss (dset (kw "type") (JArr s) d0) eq_refl) as (A1 & A2 & A3 & A4).
      eexists. split; [exact A1|]. auto.
  - exists d0. split; [intros K; cbn [bind]; rewrite (Dep d0 (fun k _ => eq_refl)); reflexivity|]. split; [exact ND|]. split; [auto|exact Gt].
Qed.

(* the loops over the members of allOf / anyOf, given the statement for the members *)
Definition spec_at (f k : nat) (s : json) : Prop :=
  forall n, to_dnf SV cfg f s = Ok n ->
    exists l, n = dnf_of l /\ Forall galt l /\ forall x, alts_valid l x <-> sem k x s.

Lemma fold_all f k : forall l acc r, (forall s', In s' l -> spec_at f k s') ->
  foldM (fun acc s => do n <- to_dnf SV cfg f s; Ok (acc ++ [n])) l acc = Ok r ->
  exists ls, r = acc ++ map dnf_of ls /\ Forall (Forall galt) ls /\
             Forall2 (fun s' l' => forall x, alts_valid l' x <-> sem k x s') l ls.
Proof.
  induction l as [|s l IH]; intros acc r Sp H; cbn [foldM] in H.
  - inversion H; subst. exists []. cbn [map]. rewrite app_nil_r. split; [reflexivity|]. split; constructor.
  - destruct (to_dnf SV cfg f s) as [n| | |] eqn:E; cbn [bind] in H; try discriminate.
    destruct (Sp s (or_introl eq_refl) n E) as (l1 & -> & G1 & Eq1).
    destruct (IH _ _ (fun s' Hs => Sp s' (or_intror Hs)) H) as (ls & -> & Fl & F2).
    exists (l1 :: ls). cbn [map]. rewrite <- app_assoc. split; [reflexivity|]. split; constructor; auto.
Qed.

Lemma fold_any f k : forall l acc r, (forall s', In s' l -> spec_at f k s') ->
  foldM (fun acc s => do n <- to_dnf SV cfg f s; do a <- any_of n; Ok (acc ++ a)) l acc = Ok r ->
  exists ls, r = acc ++ map JObj (List.concat ls) /\ Forall (Forall galt) ls /\
             Forall2 (fun s' l' => forall x, alts_valid l' x <-> sem k x s') l ls.
Proof.
  induction l as [|s l IH]; intros acc r Sp H; cbn [foldM] in H.
  - inversion H; subst. exists []. cbn [List.concat map]. rewrite app_nil_r. split; [reflexivity|]. split; constructor.
  - destruct (to_dnf SV cfg f s) as [n| | |] eqn:E; cbn [bind] in H; try discriminate.
    destruct (Sp s (or_introl eq_refl) n E) as (l1 & -> & G1 & Eq1). rewrite any_of_dnf in H. cbn [bind] in H.
    destruct (IH _ _ (fun s' Hs => Sp s' (or_intror Hs)) H) as (ls & -> & Fl & F2).
    exists (l1 :: ls). cbn [List.concat]. rewrite map_app, <- app_assoc. split; [reflexivity|]. split; constructor; auto.
Qed.

Lemma alts_concat ls x : alts_valid (List.concat ls) x <-> Exists (fun l => alts_valid l x) ls.
Proof.
  induction ls as [|l ls IH]; cbn [List.concat].
  - split; [intros (d & [] & _)|intros H; inversion H].
  - split.
    + intros (d & Hd & V). apply in_app_or in Hd. destruct Hd as [Hd|Hd].
      * left. exists d. auto.
      * right. apply IH. exists d. auto.
    + intros H. inversion H as [? ? (d & Hd & V)|? ? H1]; subst.
      * exists d. split; [apply in_or_app; left; exact Hd|exact V].
      * apply IH in H1. destruct H1 as (d & Hd & V). exists d. split; [apply in_or_app; right; exact Hd|exact V].
Qed.

Lemma forall2_all {A B} (P : A -> Prop) (Q : B -> Prop) l ls :
  Forall2 (fun a b => Q b <-> P a) l ls -> (Forall Q ls <-> forall a, In a l -> P a).
Proof.
  induction 1 as [|a b l ls H F IH].
  - split; [intros _ a []|constructor].
  - split.
    + intros Hq a' [<-|Ha]; inversion Hq; subst; [apply H; assumption|apply IH; assumption].
    + intros Hp. constructor; [apply H; apply Hp; left; reflexivity|apply IH; intros; apply Hp; right; assumption].
Qed.

Lemma forall2_ex {A B} (P : A -> Prop) (Q : B -> Prop) l ls :
  Forall2 (fun a b => Q b <-> P a) l ls -> (Exists Q ls <-> exists a, In a l /\ P a).
Proof.
  induction 1 as [|a b l ls H F IH].
  - split; [intros X; inversion X|intros (a & [] & _)].
  - split.
    + intros X. inversion X; subst; [exists a; split; [left; reflexivity|apply H; assumption]|].
      apply IH in H1. destruct H1 as (a' & Ha & Pa). exists a'. split; [right; assumption|assumption].
    + intros (a' & [<-|Ha] & Pa); [left; apply H; assumption|right; apply IH; exists a'; auto].
Qed.

Lemma to_dnf_obj f d0 : to_dnf SV cfg (S f) (JObj d0) =
    (do dc <- simplify_const (filter (fun '(k, _) => negb (smem k (discard_fields cfg))) d0);
    let d2 := simplify_ite SV dc in
    do d3 <- simplify_type d2;
    do d <- simplify_depreq d3;
    do any_ofs <- match dget (kw "anyOf") d with
                  | Some j => do l <- as_list j;
                              foldM (fun acc s => do n <- to_dnf SV cfg f s; do a <- any_of n; Ok (acc ++ a)) l []
                  | None => Ok [JObj []]
                  end;
    do one_ofs <- match dget (kw "oneOf") d with
                  | Some j =>
                    do l <- as_list j;
                    do subs <- foldM (fun acc s => do n <- to_dnf SV cfg f s; Ok (acc ++ [n])) l [];
                    foldM (fun acc idx =>
                             do parts <- foldM (fun acc2 '(sub_idx, i) =>
                                                  if sub_idx =? idx then Ok (acc2 ++ [i])
                                                  else do x <- invert cfg i; Ok (acc2 ++ [x])) (enumerate subs) [];
                             do o <- merge cfg parts;
                             do a <- any_of o; Ok (acc ++ a)) (seq 0 (List.length subs)) []
                  | None => Ok [JObj []]
                  end;
    let side := ddel (kw "not") (ddel (kw "oneOf") (ddel (kw "anyOf") (ddel (kw "allOf") d))) in
    do all1 <- match dget (kw "allOf") d with
               | Some j => do l <- as_list j;
                           foldM (fun acc s => do n <- to_dnf SV cfg f s; Ok (acc ++ [n])) l []
               | None => Ok []
               end;
    do all2 <- match dget (kw "not") d with
               | Some n => do nn <- to_dnf SV cfg f n; do i <- invert cfg nn; Ok [i]
               | None => Ok []
               end;
    do s <- merge cfg (obj1 "anyOf" (JArr [JObj side]) :: all1 ++ all2);
    merge cfg [obj1 "anyOf" (JArr any_ofs); obj1 "anyOf" (JArr one_ofs); s]).
Proof. reflexivity. Qed.

Definition is4 (k : str) : bool :=
  str_eqb k (kw "not") || str_eqb k (kw "oneOf") || str_eqb k (kw "anyOf") || str_eqb k (kw "allOf").

Lemma side_get d k :
  dget k (ddel (kw "not") (ddel (kw "oneOf") (ddel (kw "anyOf") (ddel (kw "allOf") d)))) =
  if is4 k then None else dget k d.
Proof.
  unfold is4.
  destruct (str_eqb k (kw "not")) eqn:E1; [apply str_eqb_eq in E1; subst; apply dget_ddel_same|].
  rewrite dget_ddel_ne by (intros X; subst k; rewrite str_eqb_refl in E1; discriminate).
  destruct (str_eqb k (kw "oneOf")) eqn:E2; [apply str_eqb_eq in E2; subst; apply dget_ddel_same|].
  rewrite dget_ddel_ne by (intros X; subst k; rewrite str_eqb_refl in E2; discriminate).
  destruct (str_eqb k (kw "anyOf")) eqn:E3; [apply str_eqb_eq in E3; subst; apply dget_ddel_same|].
  rewrite dget_ddel_ne by (intros X; subst k; rewrite str_eqb_refl in E3; discriminate).
  destruct (str_eqb k (kw "allOf")) eqn:E4; [apply str_eqb_eq in E4; subst; apply dget_ddel_same|].
  rewrite dget_ddel_ne by (intros X; subst k; rewrite str_eqb_refl in E4; discriminate).
  reflexivity.
Qed.

Lemma is4_SK k : In k SK -> is4 k = false.
Proof. intros H. apply SK_enum in H. repeat (destruct H as [->|H]; [reflexivity|]). subst. reflexivity. Qed.

Lemma false_alt_galt : galt [(kw "enum", JArr [])].
Proof.
  split; [|one_key]. intros k v G. sa_dec k v G. split; [cbv; tauto|]. exists []. split; reflexivity.
Qed.

Lemma false_alt_invalid x : ~ dvalid [(kw "enum", JArr [])] x.
Proof.
  intros H. specialize (H (kw "enum") (JArr []) eq_refl). revert H. kvat.
  intros (l & E & M). inversion E; subst. discriminate M.
Qed.

Lemma forall2_inst {A B X} (R : A -> B -> X -> Prop) l ls :
  Forall2 (fun a b => forall x, R a b x) l ls -> forall x, Forall2 (fun a b => R a b x) l ls.
Proof. intros H x0. induction H; constructor; auto. Qed.

(* _to_dnf on the fragment: an any-of list of keyword sets, satisfied exactly by the instances the schema accepts *)
Theorem to_dnf_sem : forall f m s, frag m s -> spec_at f m s.
Proof.
  induction f as [|f IH]; intros m s Fs n H; [destruct s; discriminate H|].
  destruct m as [|m]; [destruct Fs|].
  destruct s as [|b|z|s0|l0|d0]; try (exfalso; exact Fs).
  - cbn [to_dnf] in H. destruct b; inversion H; subst n.
    + exists [[]]. split; [reflexivity|]. split; [constructor; [apply galt_nil|constructor]|].
      intros x. cbn [sem]. split; [reflexivity|]. intros _. exists []. split; [left; reflexivity|apply dvalid_nil].
    + exists [[(kw "enum", JArr [])]]. split; [reflexivity|]. split; [constructor; [apply false_alt_galt|constructor]|].
      intros x. cbn [sem]. split; [|discriminate]. intros (d & [<-|[]] & V). exfalso. exact (false_alt_invalid x V).
  - rewrite to_dnf_obj in H.
    destruct (simplify_frag m d0 Fs) as (d & ED & NDd & Oth & Ty). rewrite ED in H. clear ED.
    destruct Fs as [ND Hk].
    assert (KA : forall v, dget (kw "anyOf") d0 = Some v -> exists l, v = JArr l /\ forall s', In s' l -> frag m s').
    { intros v G. destruct (Hk _ _ G) as [[I _]|[[X _]|[[_ R]|[X _]]]];
        [exfalso; cbv in I; intuition discriminate|cbv in X; discriminate X|exact R|cbv in X; discriminate X]. }
    assert (KL : forall v, dget (kw "allOf") d0 = Some v -> exists l, v = JArr l /\ forall s', In s' l -> frag m s').
    { intros v G. destruct (Hk _ _ G) as [[I _]|[[_ R]|[[X _]|[X _]]]];
        [exfalso; cbv in I; intuition discriminate|exact R|cbv in X; discriminate X|cbv in X; discriminate X]. }
    assert (KN : forall v, dget (kw "not") d0 = Some v -> frag m v).
    { intros v G. destruct (Hk _ _ G) as [[I _]|[[X _]|[[X _]|[_ R]]]];
        [exfalso; cbv in I; intuition discriminate|cbv in X; discriminate X|cbv in X; discriminate X|exact R]. }
    assert (KO : dget (kw "oneOf") d0 = None).
    { destruct (dget (kw "oneOf") d0) eqn:G; auto. exfalso.
      destruct (Hk _ _ G) as [[I _]|[[X _]|[[X _]|[X _]]]]; [cbv in I; intuition discriminate|cbv in X; discriminate X..]. }
    assert (NT : forall c, In c [kw "anyOf"; kw "allOf"; kw "not"; kw "oneOf"] -> dget c d = dget c d0).
    { intros c Hc. apply Oth. intros ->. cbv in Hc. intuition discriminate. }
    rewrite (NT (kw "anyOf")), (NT (kw "oneOf")), (NT (kw "allOf")), (NT (kw "not")), KO in H by (cbv; tauto).
    (* anyOf *)
    match type of H with bind ?X _ = _ => destruct X as [any_ofs| | |] eqn:EA end; cbn [bind] in H; try discriminate.
    assert (PA : exists LA, any_ofs = map JObj LA /\ Forall galt LA /\
              forall x, alts_valid LA x <-> (forall l, dget (kw "anyOf") d0 = Some (JArr l) -> exists s', In s' l /\ sem m x s')).
    { destruct (dget (kw "anyOf") d0) as [v|] eqn:Ga.
      - destruct (KA v eq_refl) as (l & -> & Fl). cbn [as_list bind] in EA.
        destruct (fold_any f m l [] any_ofs (fun s' Hs => IH m s' (Fl s' Hs)) EA) as (ls & -> & Fg & F2).
        exists (List.concat ls). cbn [app]. split; [reflexivity|]. split; [apply Forall_concat; exact Fg|].
        intros x. rewrite alts_concat.
        rewrite (forall2_ex (fun s' => sem m x s') (fun l' => alts_valid l' x) l ls)
          by (exact (forall2_inst _ l ls F2 x)).
        split; [intros Hx l' E; inversion E; subst; exact Hx|intros Hx; apply Hx; reflexivity].
      - inversion EA; subst. exists [[]]. split; [reflexivity|]. split; [constructor; [apply galt_nil|constructor]|].
        intros x. split; [intros _ l E; discriminate E|]. intros _. exists []. split; [left; reflexivity|apply dvalid_nil]. }
    destruct PA as (LA & -> & FgA & EqA).
    (* oneOf is absent *)
    cbn [bind] in H.
    (* allOf *)
    match type of H with bind ?X _ = _ => destruct X as [all1| | |] eqn:EL end; cbn [bind] in H; try discriminate.
    assert (PL : exists LS1, all1 = map dnf_of LS1 /\ Forall (Forall galt) LS1 /\
              forall x, Forall (fun l => alts_valid l x) LS1 <->
                        (forall l, dget (kw "allOf") d0 = Some (JArr l) -> forall s', In s' l -> sem m x s')).
    { destruct (dget (kw "allOf") d0) as [v|] eqn:Gl.
      - destruct (KL v eq_refl) as (l & -> & Fl). cbn [as_list bind] in EL.
        destruct (fold_all f m l [] all1 (fun s' Hs => IH m s' (Fl s' Hs)) EL) as (ls & -> & Fg & F2).
        exists ls. cbn [app]. split; [reflexivity|]. split; [exact Fg|].
        intros x.
        rewrite (forall2_all (fun s' => sem m x s') (fun l' => alts_valid l' x) l ls)
          by (exact (forall2_inst _ l ls F2 x)).
        split; [intros Hx l' E; inversion E; subst; exact Hx|intros Hx; apply Hx; reflexivity].
      - inversion EL; subst. exists []. split; [reflexivity|]. split; [constructor|].
        intros x. split; [intros _ l E; discriminate E|constructor]. }
    destruct PL as (LS1 & -> & Fg1 & Eq1).
    (* not *)
    match type of H with bind ?X _ = _ => destruct X as [all2| | |] eqn:EN end; cbn [bind] in H; try discriminate.
    assert (PN : exists LS2, all2 = map dnf_of LS2 /\ Forall (Forall galt) LS2 /\
              forall x, Forall (fun l => alts_valid l x) LS2 <-> (forall v, dget (kw "not") d0 = Some v -> ~ sem m x v)).
    { destruct (dget (kw "not") d0) as [v|] eqn:Gn.
      - destruct (to_dnf SV cfg f v) as [nn| | |] eqn:En; cbn [bind] in EN; try discriminate.
        destruct (IH m v (KN v eq_refl) nn En) as (ln & -> & Fgn & Eqn).
        destruct (invert cfg (dnf_of ln)) as [i| | |] eqn:Ei; cbn [bind] in EN; try discriminate.
        destruct (invert_sem cfg ln i FM Fgn Ei) as (li & -> & Fgi & Eqi). inversion EN; subst.
        exists [li]. split; [reflexivity|]. split; [constructor; [exact Fgi|constructor]|].
        intros x. split.
        + intros Hx v' E. inversion E; subst. inversion Hx; subst. rewrite <- (Eqn x). apply Eqi. assumption.
        + intros Hx. constructor; [|constructor]. apply Eqi. rewrite (Eqn x). apply Hx. reflexivity.
      - inversion EN; subst. exists []. split; [reflexivity|]. split; [constructor|].
        intros x. split; [intros _ v E; discriminate E|constructor]. }
    destruct PN as (LS2 & -> & Fg2 & Eq2).
    (* the keyword set beside the combinators *)
    set (side := ddel (kw "not") (ddel (kw "oneOf") (ddel (kw "anyOf") (ddel (kw "allOf") d)))) in *.
    assert (Sget : forall k, dget k side = if is4 k then None else dget k d) by (intros; apply side_get).
    assert (Gs : galt side).
    { split; [|unfold side; repeat apply ddel_nodup; exact NDd].
      intros k v G. rewrite Sget in G. destruct (is4 k) eqn:I4; [discriminate|].
      destruct (list_eq_dec Nat.eq_dec k (kw "type")) as [->|Nk].
      - split; [cbv; tauto|]. destruct (dget (kw "type") d0) as [t|]; [|congruence].
        destruct Ty as (T & GT & ST & _). rewrite GT in G. inversion G; subst. exact ST.
      - rewrite (Oth k Nk) in G. destruct (Hk k v G) as [(I & W & _)|[[-> _]|[[-> _]|[-> _]]]]; auto; discriminate I4. }
    assert (EqS : forall x, dvalid side x <-> (forall k v, dget k d0 = Some v -> In k SK -> kvalid k v x)).
    { intros x. split.
      - intros Hs k v G Ik.
        destruct (list_eq_dec Nat.eq_dec k (kw "type")) as [->|Nk].
        + rewrite G in Ty. destruct Ty as (T & GT & _ & ET). apply (proj1 (ET x)). apply Hs. rewrite Sget, (is4_SK _ Ik). exact GT.
        + apply Hs. rewrite Sget, (is4_SK k Ik), (Oth k Nk). exact G.
      - intros Hs k v G. rewrite Sget in G. destruct (is4 k) eqn:I4; [discriminate|].
        destruct (list_eq_dec Nat.eq_dec k (kw "type")) as [->|Nk].
        + destruct (dget (kw "type") d0) as [t|] eqn:Gt; [|congruence].
          destruct Ty as (T & GT & _ & ET). rewrite GT in G. inversion G; subst. apply (proj2 (ET x)). apply (Hs _ _ Gt). cbv; tauto.
        + rewrite (Oth k Nk) in G. apply (Hs k v G).
          destruct (Hk k v G) as [(I & _)|[[-> _]|[[-> _]|[-> _]]]]; auto; discriminate I4. }
    (* the two merges *)
    unfold merge in H. rewrite FM in H.
    match type of H with bind ?X _ = _ => destruct X as [s| | |] eqn:ES end; cbn [bind] in H; try discriminate.
    change (obj1 "anyOf" (JArr [JObj side]) :: map dnf_of LS1 ++ map dnf_of LS2)
      with (map dnf_of ([side] :: nil) ++ map dnf_of LS1 ++ map dnf_of LS2) in ES.
    rewrite <- !map_app in ES.
    assert (Fg3 : Forall (Forall galt) (([side] :: nil) ++ LS1 ++ LS2)).
    { apply Forall_app. split; [constructor; [constructor; [exact Gs|constructor]|constructor]|]. apply Forall_app. auto. }
    destruct (merge_full_sem _ s Fg3 ES) as (Ls & -> & Fgs & Eqs).
    change [obj1 "anyOf" (JArr (map JObj LA)); obj1 "anyOf" (JArr [JObj []]); dnf_of Ls]
      with (map dnf_of [LA; [[]]; Ls]) in H.
    destruct (merge_full_sem _ n (Forall_cons _ FgA (Forall_cons _ (Forall_cons _ galt_nil (Forall_nil _)) (Forall_cons _ Fgs (Forall_nil _)))) H)
      as (L & -> & FgL & EqL).
    exists L. split; [reflexivity|]. split; [exact FgL|].
    intros x. rewrite (EqL x). cbn [sem]. rewrite <- (EqA x), <- (Eq1 x), <- (Eq2 x), <- (EqS x). split.
    + intros HF. inversion HF as [|? ? HA HF1]; subst. inversion HF1 as [|? ? _ HF2]; subst. inversion HF2 as [|? ? HS _]; subst.
      apply (Eqs x) in HS. apply Forall_app in HS. destruct HS as [HS1 HS23]. apply Forall_app in HS23. destruct HS23 as [HS2 HS3].
      inversion HS1 as [|? ? Hside _]; subst. destruct Hside as (dd & [<-|[]] & Vd). repeat split; assumption.
    + intros (VS & V1 & VA & V2). constructor; [exact VA|]. constructor; [exists []; split; [left; reflexivity|apply dvalid_nil]|].
      constructor; [|constructor]. apply Eqs. apply Forall_app. split; [constructor; [exists side; split; [left; reflexivity|exact VS]|constructor]|].
      apply Forall_app. auto.
Qed.

End ToDnf.

(* JsonSemDnf.v -- the propositional-scalar fragment, its meaning, and _to_dnf on it (C06). *)
From Fences Require Import Normalize NormShape JsonValid JsonGen JsonEnum JsonSem JsonSemAlts.
From Coq Require Import String ZArith Lia.
Local Open Scope list_scope.

(* ---------- the fragment and its meaning ---------- *)
Definition CK : list str := LK ++ UK ++ [kw "const"].

(* schemas of the fragment, to nesting depth f *)
Fixpoint frag (f : nat) (s : json) : Prop :=
  match f with
  | 0 => False
  | S f' =>
    match s with
    | JBool _ => True
    | JObj d =>
      NoDup (map fst d) /\
      forall k v, dget k d = Some v ->
        if smem k SK then wtv k v /\ (k = kw "type" -> ~ In (jstr "integer") (to_list v))
        else if smem k LK then exists l, v = JArr l /\ forall s', In s' l -> frag f' s'
        else if smem k UK then frag f' v
        else if str_eqb k (kw "const") then is_scalar v = true
        else False
    | _ => False
    end
  end.

(* exactly one member has the property *)
Definition one_of {A} (P : A -> Prop) (l : list A) : Prop :=
  exists i s, nth_error l i = Some s /\ P s /\ forall j s', j <> i -> nth_error l j = Some s' -> ~ P s'.

(* when an instance is accepted (Draft 2020-12, for these keywords) *)
Fixpoint sem (f : nat) (x : json) (s : json) : Prop :=
  match f with
  | 0 => False
  | S f' =>
    match s with
    | JBool b => b = true
    | JObj d =>
      (forall k v, dget k d = Some v -> In k SK -> kvalid k v x) /\
      (forall c, dget (kw "const") d = Some c -> json_eqb x c = true) /\
      (forall l, dget (kw "allOf") d = Some (JArr l) -> forall s', In s' l -> sem f' x s') /\
      (forall l, dget (kw "anyOf") d = Some (JArr l) -> exists s', In s' l /\ sem f' x s') /\
      (forall l, dget (kw "oneOf") d = Some (JArr l) -> one_of (sem f' x) l) /\
      (forall n, dget (kw "not") d = Some n -> ~ sem f' x n) /\
      (forall i, dget (kw "if") d = Some i ->
         (sem f' x i -> forall t, dget (kw "then") d = Some t -> sem f' x t) /\
         (~ sem f' x i -> forall e, dget (kw "else") d = Some e -> sem f' x e))
    | _ => False
    end
  end.

(* ---------- reading a dict of the fragment ---------- *)
Lemma smem_In k l : smem k l = true <-> In k l.
Proof.
  induction l as [|y l IH]; cbn [smem In]; [split; [discriminate|tauto]|].
  rewrite orb_true_iff, IH, str_eqb_true. tauto.
Qed.

Section Frag.
Variable m : nat.
Variable d : dict.
Hypothesis F : frag (S m) (JObj d).

Lemma frag_nodup : NoDup (map fst d).
Proof. exact (proj1 F). Qed.

Lemma frag_scalar k v : dget k d = Some v -> In k SK ->
  wtv k v /\ (k = kw "type" -> ~ In (jstr "integer") (to_list v)).
Proof. intros G I. pose proof (proj2 F k v G) as H. rewrite (proj2 (smem_In k SK) I) in H. exact H. Qed.

Lemma frag_list k v : dget k d = Some v -> In k LK -> exists l, v = JArr l /\ forall s', In s' l -> frag m s'.
Proof.
  intros G I. pose proof (proj2 F k v G) as H.
  assert (E : smem k SK = false) by (cbv in I; repeat (destruct I as [<-|I]; [reflexivity|]); destruct I).
  rewrite E, (proj2 (smem_In k LK) I) in H. exact H.
Qed.

Lemma frag_single k v : dget k d = Some v -> In k UK -> frag m v.
Proof.
  intros G I. pose proof (proj2 F k v G) as H.
  assert (E : smem k SK = false /\ smem k LK = false) by (cbv in I; repeat (destruct I as [<-|I]; [split; reflexivity|]); destruct I).
  destruct E as [E1 E2]. rewrite E1, E2, (proj2 (smem_In k UK) I) in H. exact H.
Qed.

Lemma frag_const v : dget (kw "const") d = Some v -> is_scalar v = true.
Proof. intros G. exact (proj2 F _ v G). Qed.

Lemma frag_keys k v : dget k d = Some v -> In k (SK ++ CK).
Proof.
  intros G. pose proof (proj2 F k v G) as H. apply in_or_app.
  destruct (smem k SK) eqn:E1; [left; apply smem_In; exact E1|]. right. unfold CK. apply in_or_app.
  destruct (smem k LK) eqn:E2; [left; apply smem_In; exact E2|]. right. apply in_or_app.
  destruct (smem k UK) eqn:E3; [left; apply smem_In; exact E3|]. right.
  destruct (str_eqb k (kw "const")) eqn:E4; [|destruct H]. apply str_eqb_true in E4. left. auto.
Qed.

Lemma frag_absent k : ~ In k (SK ++ CK) -> dget k d = None.
Proof. intros N. destruct (dget k d) eqn:G; auto. exfalso. apply N. eapply frag_keys; eauto. Qed.
End Frag.

(* ---------- more depth changes nothing ---------- *)
Lemma frag_mono : forall m s, frag m s -> frag (S m) s.
Proof.
  induction m as [|m IH]; intros s H; [destruct H|].
  destruct s as [|b|z|s0|l0|d]; try exact H. destruct H as [ND Hk]. split; [exact ND|].
  intros k v G. specialize (Hk k v G).
  destruct (smem k SK); [exact Hk|]. destruct (smem k LK).
  - destruct Hk as (l & -> & Fl). exists l. split; [reflexivity|]. intros s' Hs. apply IH. auto.
  - destruct (smem k UK); [apply IH; exact Hk|exact Hk].
Qed.

Lemma one_of_ext {A} (P Q : A -> Prop) l : (forall s, In s l -> (P s <-> Q s)) -> (one_of P l <-> one_of Q l).
Proof.
  intros E. unfold one_of. split; intros (i & s & N & Ps & O); exists i, s; (split; [exact N|]); split.
  - apply E; [eapply nth_error_In; eauto|exact Ps].
  - intros j s' Nj Ns Qs. apply (O j s' Nj Ns). apply E; [eapply nth_error_In; eauto|exact Qs].
  - apply E; [eapply nth_error_In; eauto|exact Ps].
  - intros j s' Nj Ns Qs. apply (O j s' Nj Ns). apply E; [eapply nth_error_In; eauto|exact Qs].
Qed.

Lemma sem_mono x : forall m s, frag m s -> (sem (S m) x s <-> sem m x s).
Proof.
  induction m as [|m IH]; intros s H; [destruct H|].
  destruct s as [|b|z|s0|l0|d]; try (exfalso; exact H); [cbn [sem]; tauto|].
  pose proof H as F. change (sem (S (S m)) x (JObj d)) with
    ((forall k v, dget k d = Some v -> In k SK -> kvalid k v x) /\
     (forall c, dget (kw "const") d = Some c -> json_eqb x c = true) /\
     (forall l, dget (kw "allOf") d = Some (JArr l) -> forall s', In s' l -> sem (S m) x s') /\
     (forall l, dget (kw "anyOf") d = Some (JArr l) -> exists s', In s' l /\ sem (S m) x s') /\
     (forall l, dget (kw "oneOf") d = Some (JArr l) -> one_of (sem (S m) x) l) /\
     (forall n, dget (kw "not") d = Some n -> ~ sem (S m) x n) /\
     (forall i, dget (kw "if") d = Some i ->
        (sem (S m) x i -> forall t, dget (kw "then") d = Some t -> sem (S m) x t) /\
        (~ sem (S m) x i -> forall e, dget (kw "else") d = Some e -> sem (S m) x e))).
  cbn [sem].
  assert (ML : forall k l, In k LK -> dget k d = Some (JArr l) -> forall s', In s' l -> (sem (S m) x s' <-> sem m x s')).
  { intros k l I G s' Hs. destruct (frag_list m d F k _ G I) as (l' & E & Fl). inversion E; subst. apply IH. auto. }
  assert (MU : forall k v, In k UK -> dget k d = Some v -> (sem (S m) x v <-> sem m x v)).
  { intros k v I G. apply IH. exact (frag_single m d F k v G I). }
  assert (IA : In (kw "allOf") LK) by (cbv; tauto). assert (IY : In (kw "anyOf") LK) by (cbv; tauto).
  assert (IO : In (kw "oneOf") LK) by (cbv; tauto). assert (IN : In (kw "not") UK) by (cbv; tauto).
  assert (II : In (kw "if") UK) by (cbv; tauto). assert (IT : In (kw "then") UK) by (cbv; tauto).
  assert (IE : In (kw "else") UK) by (cbv; tauto).
  split; intros (S1 & S2 & S3 & S4 & S5 & S6 & S7); (split; [exact S1|]); (split; [exact S2|]); repeat split.
  - intros l G s' Hs. apply (ML _ l IA G s' Hs). exact (S3 l G s' Hs).
  - intros l G. destruct (S4 l G) as (s' & Hs & V). exists s'. split; auto. apply (ML _ l IY G s' Hs). exact V.
  - intros l G. apply (one_of_ext (sem (S m) x) (sem m x) l (ML _ l IO G)). exact (S5 l G).
  - intros n G V. apply (S6 n G). apply (MU _ n IN G). exact V.
  - intros V t Gt. apply (MU _ t IT Gt). apply (proj1 (S7 i H0)); [apply (MU _ i II H0); exact V|exact Gt].
  - intros V e Ge. apply (MU _ e IE Ge). apply (proj2 (S7 i H0)); [intros V'; apply V; apply (MU _ i II H0); exact V'|exact Ge].
  - intros l G s' Hs. apply (ML _ l IA G s' Hs). exact (S3 l G s' Hs).
  - intros l G. destruct (S4 l G) as (s' & Hs & V). exists s'. split; auto. apply (ML _ l IY G s' Hs). exact V.
  - intros l G. apply (one_of_ext (sem (S m) x) (sem m x) l (ML _ l IO G)). exact (S5 l G).
  - intros n G V. apply (S6 n G). apply (MU _ n IN G). exact V.
  - intros V t Gt. apply (MU _ t IT Gt). apply (proj1 (S7 i H0)); [apply (MU _ i II H0); exact V|exact Gt].
  - intros V e Ge. apply (MU _ e IE Ge). apply (proj2 (S7 i H0)); [intros V'; apply V; apply (MU _ i II H0); exact V'|exact Ge].
Qed.

(* ---------- dictionaries ---------- *)
Lemma dget_ddel_ne k c d : k <> c -> dget c (ddel k d) = dget c d.
Proof.
  intros N. induction d as [|[k' v'] r IH]; cbn [ddel dget]; auto.
  destruct (str_eqb k' k) eqn:E.
  - apply str_eqb_eq in E. subst k'. rewrite (str_eqb_neq k c N). exact IH.
  - cbn [dget]. rewrite IH. reflexivity.
Qed.

Lemma ddel_keys_in k d x : In x (map fst (ddel k d)) -> In x (map fst d).
Proof.
  induction d as [|[k' v'] r IH]; cbn [ddel map fst In]; auto.
  destruct (str_eqb k' k); cbn [map fst In]; tauto.
Qed.

Lemma ddel_nodup k d : NoDup (map fst d) -> NoDup (map fst (ddel k d)).
Proof.
  induction d as [|[k' v'] r IH]; cbn [ddel map fst]; auto. intros N. inversion N; subst.
  destruct (str_eqb k' k); auto. cbn [map fst]. constructor; auto. intros H. apply ddel_keys_in in H. contradiction.
Qed.

Lemma filter_all {A} (p : A -> bool) l : (forall a, In a l -> p a = true) -> filter p l = l.
Proof.
  induction l as [|a l IH]; intros H; cbn [filter]; auto. rewrite (H a (or_introl eq_refl)). f_equal. apply IH. intros; apply H; right; auto.
Qed.

Lemma in_keys_dget k (d : dict) : In k (map fst d) -> exists v, dget k d = Some v.
Proof.
  induction d as [|[k' v'] d IH]; cbn [map fst In dget]; [intros []|].
  destruct (str_eqb k' k) eqn:E; [eauto|]. intros [->|H]; [rewrite str_eqb_refl in E; discriminate|auto].
Qed.


(* ---------- the simplifications before the combinators ---------- *)
(* [equiv m d m' d']: d' is a dict of the fragment (depth m') that accepts what d (depth m) accepts *)
Definition equiv (m : nat) (d : dict) (m' : nat) (d' : dict) : Prop :=
  frag (S m') (JObj d') /\ forall x, sem (S m') x (JObj d') <-> sem (S m) x (JObj d).

Lemma equiv_refl m d : frag (S m) (JObj d) -> equiv m d m d.
Proof. intros F. split; [exact F|tauto]. Qed.

Lemma equiv_trans m1 d1 m2 d2 m3 d3 : equiv m1 d1 m2 d2 -> equiv m2 d2 m3 d3 -> equiv m1 d1 m3 d3.
Proof. intros [F1 E1] [F2 E2]. split; [exact F2|]. intros x. rewrite (E2 x). apply E1. Qed.

Lemma kvalid_enum_single c x : kvalid (kw "enum") (JArr [c]) x <-> json_eqb x c = true.
Proof.
  kvat. split.
  - intros (l & E & M). inversion E; subst. cbn [existsb] in M. rewrite orb_false_r in M. exact M.
  - intros H. exists [c]. split; [reflexivity|]. cbn [existsb]. rewrite H. reflexivity.
Qed.

(* const: folded into enum *)
Lemma const_equiv m d0 : frag (S m) (JObj d0) ->
  exists dc, simplify_const d0 = Ok dc /\ dget (kw "const") dc = None /\ equiv m d0 m dc /\
             (forall k, k <> kw "const" -> k <> kw "enum" -> dget k dc = dget k d0).
Proof.
  intros F. unfold simplify_const.
  destruct (dget (kw "const") d0) as [c|] eqn:Gc.
  2:{ exists d0. split; [reflexivity|]. split; [exact Gc|]. split; [apply equiv_refl; exact F|auto]. }
  pose proof (frag_const m d0 F c Gc) as Sc.
  set (d1 := ddel (kw "const") d0).
  assert (G1 : forall k, k <> kw "const" -> dget k d1 = dget k d0) by (intros k N; apply dget_ddel_ne; auto).
  assert (G1c : dget (kw "const") d1 = None) by apply dget_ddel_same.
  assert (N1 : NoDup (map fst d1)) by (apply ddel_nodup; exact (frag_nodup m d0 F)).
  assert (NEc : kw "enum" <> kw "const") by (intros X; cbv in X; discriminate X).
  (* the new enum value and what it means *)
  assert (EV : exists lv, (match dget (kw "enum") d1 with
                           | Some (JArr l) => if hashable_all l && is_scalar c then Ok (dset (kw "enum") (JArr (einter l [c])) d1) else nerr
                           | Some _ => PyErr ETypeError
                           | None => Ok (dset (kw "enum") (JArr [c]) d1)
                           end) = Ok (dset (kw "enum") (JArr lv) d1) /\ hashable_all lv = true /\
                forall x, kvalid (kw "enum") (JArr lv) x <->
                          (json_eqb x c = true /\ forall v, dget (kw "enum") d0 = Some v -> kvalid (kw "enum") v x)).
  { rewrite (G1 (kw "enum") NEc). destruct (dget (kw "enum") d0) as [v|] eqn:Ge.
    - destruct (frag_scalar m d0 F _ v Ge ltac:(cbv; tauto)) as [W _]. unfold wtv in W.
      change (iskw (kw "enum") "type") with false in W. change (iskw (kw "enum") "enum") with true in W. cbv iota in W.
      destruct W as (l & -> & Hl). rewrite Hl, Sc. cbn [andb].
      assert (Hc : hashable_all [c] = true) by (cbn; rewrite Sc; reflexivity).
      exists (einter l [c]). split; [reflexivity|]. split; [apply einter_hashable; auto|].
      intros x. rewrite (proj2 (enum_merge l [c] x Hl Hc)), kvalid_enum_single. split.
      + intros [A B]. split; [exact B|]. intros v E. inversion E; subst. exact A.
      + intros [A B]. split; [apply B; reflexivity|exact A].
    - exists [c]. split; [reflexivity|]. split; [cbn; rewrite Sc; reflexivity|].
      intros x. rewrite kvalid_enum_single. split; [intros H; split; [exact H|intros v E; discriminate E]|tauto]. }
  destruct EV as (lv & EQ & Hlv & Sem). rewrite EQ. clear EQ.
  set (dc := dset (kw "enum") (JArr lv) d1).
  assert (Gd : forall k, k <> kw "const" -> k <> kw "enum" -> dget k dc = dget k d0).
  { intros k N1' N2. unfold dc. rewrite dget_dset_other by auto. apply G1. exact N1'. }
  assert (Gde : dget (kw "enum") dc = Some (JArr lv)) by apply dget_dset_same.
  assert (Gdc : dget (kw "const") dc = None) by (unfold dc; rewrite dget_dset_other by exact NEc; exact G1c).
  exists dc. split; [reflexivity|]. split; [exact Gdc|]. split; [|exact Gd].
  assert (Fc : frag (S m) (JObj dc)).
  { split; [apply dset_nodup; exact N1|]. intros k v G.
    destruct (list_eq_dec Nat.eq_dec k (kw "enum")) as [->|Ne].
    - rewrite Gde in G. inversion G; subst. change (smem (kw "enum") SK) with true. cbv iota. split.
      + exists lv. auto.
      + intros X. cbv in X. discriminate X.
    - destruct (list_eq_dec Nat.eq_dec k (kw "const")) as [->|Nc]; [congruence|].
      rewrite (Gd k Nc Ne) in G. exact (proj2 F k v G). }
  split; [exact Fc|]. intros x. cbn [sem].
  assert (NK : forall s, kw s <> kw "const" -> kw s <> kw "enum" -> dget (kw s) dc = dget (kw s) d0) by (intros; apply Gd; auto).
  rewrite (NK "allOf"%string), (NK "anyOf"%string), (NK "oneOf"%string), (NK "not"%string), (NK "if"%string), (NK "then"%string), (NK "else"%string)
    by (intros X; cbv in X; discriminate X).
  rewrite Gdc, Gc. split.
  - intros (S1 & _ & Rest). split; [|split; [|exact Rest]].
    + intros k v G I. destruct (list_eq_dec Nat.eq_dec k (kw "enum")) as [->|Ne].
      * apply (proj2 (proj1 (Sem x) (S1 _ _ Gde ltac:(cbv; tauto)))). exact G.
      * apply S1; auto. rewrite Gd; auto. intros ->. cbv in I. intuition discriminate.
    + intros c' E. inversion E; subst. exact (proj1 (proj1 (Sem x) (S1 _ _ Gde ltac:(cbv; tauto)))).
  - intros (S1 & S2 & Rest). split; [|split; [intros c' E; discriminate E|exact Rest]].
    intros k v G I. destruct (list_eq_dec Nat.eq_dec k (kw "enum")) as [->|Ne].
    + rewrite Gde in G. inversion G; subst. apply Sem. split; [apply S2; reflexivity|]. intros v E. apply S1; auto.
    + apply S1; auto. rewrite <- Gd; auto. intros ->. cbv in I. intuition discriminate.
Qed.

(* ---------- the meaning is decidable: the executable evaluator semb ---------- *)
Lemma kvalidb_spec k v x : kvalidb k v x = true <-> kvalid k v x.
Proof.
  unfold kvalidb, kvalid.
  destruct (iskw k "minimum").
  { destruct v, x; try (split; [intros _ ? ? E1 E2; discriminate|reflexivity]).
    rewrite Z.leb_le. split; [intros H ? ? E1 E2; inversion E1; inversion E2; subst; auto|intros H; apply H; reflexivity]. }
  destruct (iskw k "maximum").
  { destruct v, x; try (split; [intros _ ? ? E1 E2; discriminate|reflexivity]).
    rewrite Z.leb_le. split; [intros H ? ? E1 E2; inversion E1; inversion E2; subst; auto|intros H; apply H; reflexivity]. }
  destruct (iskw k "exclusiveMinimum").
  { destruct v, x; try (split; [intros _ ? ? E1 E2; discriminate|reflexivity]).
    rewrite Z.ltb_lt. split; [intros H ? ? E1 E2; inversion E1; inversion E2; subst; auto|intros H; apply H; reflexivity]. }
  destruct (iskw k "exclusiveMaximum").
  { destruct v, x; try (split; [intros _ ? ? E1 E2; discriminate|reflexivity]).
    rewrite Z.ltb_lt. split; [intros H ? ? E1 E2; inversion E1; inversion E2; subst; auto|intros H; apply H; reflexivity]. }
  destruct (iskw k "minLength").
  { destruct v, x; try (split; [intros _ ? ? E1 E2; discriminate|reflexivity]).
    rewrite Z.leb_le. split; [intros H ? ? E1 E2; inversion E1; inversion E2; subst; auto|intros H; apply H; reflexivity]. }
  destruct (iskw k "maxLength").
  { destruct v, x; try (split; [intros _ ? ? E1 E2; discriminate|reflexivity]).
    rewrite Z.leb_le. split; [intros H ? ? E1 E2; inversion E1; inversion E2; subst; auto|intros H; apply H; reflexivity]. }
  destruct (iskw k "minItems").
  { destruct v, x; try (split; [intros _ ? ? E1 E2; discriminate|reflexivity]).
    rewrite Z.leb_le. split; [intros H ? ? E1 E2; inversion E1; inversion E2; subst; auto|intros H; apply H; reflexivity]. }
  destruct (iskw k "maxItems").
  { destruct v, x; try (split; [intros _ ? ? E1 E2; discriminate|reflexivity]).
    rewrite Z.leb_le. split; [intros H ? ? E1 E2; inversion E1; inversion E2; subst; auto|intros H; apply H; reflexivity]. }
  destruct (iskw k "type").
  { rewrite existsb_exists. split.
    - intros (t & Ht & E). apply str_eqb_true in E. subst. exact Ht.
    - intros H. exists (jtype x). split; [exact H|apply str_eqb_true; reflexivity]. }
  destruct (iskw k "enum").
  { destruct v; try (split; [discriminate|intros (l0 & E & _); discriminate]).
    split; [intros H; eauto|intros (l0 & E & M); inversion E; subst; exact M]. }
  destruct (iskw k "NOT_enum").
  { destruct v; try (split; [intros _ ? E; discriminate|reflexivity]).
    rewrite negb_true_iff. split; [intros H l0 E; inversion E; subst; exact H|intros H; apply H; reflexivity]. }
  tauto.
Qed.




Lemma filter_one {A} (p : A -> bool) : forall l,
  List.length (filter p l) = 1 <->
  exists i s, nth_error l i = Some s /\ p s = true /\ forall j s', j <> i -> nth_error l j = Some s' -> p s' = false.
Proof.
  induction l as [|a l IH]; cbn [filter].
  - split; [discriminate|]. intros (i & s & N & _). destruct i; discriminate.
  - destruct (p a) eqn:Pa; cbn [List.length].
    + split.
      * intros H. assert (Z : List.length (filter p l) = 0) by lia.
        exists 0, a. split; [reflexivity|]. split; [exact Pa|]. intros j s' Nj Ns. destruct j as [|j]; [congruence|]. cbn in Ns.
        destruct (p s') eqn:Ps; auto. exfalso.
        assert (In s' (filter p l)) by (apply filter_In; split; [eapply nth_error_In; eauto|exact Ps]).
        destruct (filter p l); [contradiction|discriminate].
      * intros (i & s & N & Ps & O). destruct i as [|i].
        -- f_equal. destruct (filter p l) as [|b r] eqn:E; [reflexivity|exfalso].
           assert (Hb : In b (filter p l)) by (rewrite E; left; reflexivity). apply filter_In in Hb. destruct Hb as [Hb Pb].
           apply In_nth_error in Hb. destruct Hb as [j Hj]. specialize (O (S j) b ltac:(lia) Hj). congruence.
        -- exfalso. specialize (O 0 a ltac:(lia) eq_refl). congruence.
    + rewrite IH. split.
      * intros (i & s & N & Ps & O). exists (S i), s. split; [exact N|]. split; [exact Ps|].
        intros j s' Nj Ns. destruct j as [|j]; [cbn in Ns; inversion Ns; subst; exact Pa|]. apply (O j s'); [lia|exact Ns].
      * intros (i & s & N & Ps & O). destruct i as [|i]; [cbn in N; inversion N; subst; congruence|].
        exists i, s. split; [exact N|]. split; [exact Ps|]. intros j s' Nj Ns. apply (O (S j) s'); [lia|exact Ns].
Qed.

Theorem semb_spec x : forall f s, frag f s -> (semb f x s = true <-> sem f x s).
Proof.
  induction f as [|f IH]; intros s Fs; [destruct Fs|].
  destruct s as [|b|z|s0|l0|d]; try (exfalso; exact Fs).
  - cbn [semb sem]. tauto.
  - pose proof (frag_nodup f d Fs) as ND. cbn [semb sem].
    assert (ML : forall k l, In k LK -> dget k d = Some (JArr l) -> forall s', In s' l -> (semb f x s' = true <-> sem f x s')).
    { intros k l I G s' Hs. destruct (frag_list f d Fs k _ G I) as (l' & E & Fl). inversion E; subst. apply IH. auto. }
    assert (MU : forall k v, In k UK -> dget k d = Some v -> (semb f x v = true <-> sem f x v)).
    { intros k v I G. apply IH. exact (frag_single f d Fs k v G I). }
    assert (LA : forall k v, In k LK -> dget k d = Some v -> exists l, v = JArr l).
    { intros k v I G. destruct (frag_list f d Fs k v G I) as (l & -> & _). eauto. }
    assert (IA : In (kw "allOf") LK) by (cbv; tauto). assert (IY : In (kw "anyOf") LK) by (cbv; tauto).
    assert (IO : In (kw "oneOf") LK) by (cbv; tauto). assert (IN : In (kw "not") UK) by (cbv; tauto).
    assert (II : In (kw "if") UK) by (cbv; tauto). assert (IT : In (kw "then") UK) by (cbv; tauto).
    assert (IE : In (kw "else") UK) by (cbv; tauto).
    rewrite !andb_true_iff.
    assert (E1 : forallb (fun '(k, v) => if smem k SK then kvalidb k v x else true) d = true <->
                 (forall k v, dget k d = Some v -> In k SK -> kvalid k v x)).
    { rewrite forallb_forall. split.
      - intros H k v G I. specialize (H (k, v) (proj2 (in_dget d ND k v) G)). cbv beta iota in H.
        rewrite (proj2 (smem_In k SK) I) in H. apply kvalidb_spec. exact H.
      - intros H [k v] Hin. destruct (smem k SK) eqn:M; auto. apply kvalidb_spec. apply H; [apply (in_dget d ND); exact Hin|apply smem_In; exact M]. }
    assert (E2 : match dget (kw "const") d with Some c => json_eqb x c | None => true end = true <->
                 (forall c, dget (kw "const") d = Some c -> json_eqb x c = true)).
    { destruct (dget (kw "const") d) as [c|].
      - split; [intros H c' E; inversion E; subst; exact H|intros H; apply H; reflexivity].
      - split; [intros _ c E; discriminate E|reflexivity]. }
    assert (E3 : match dget (kw "allOf") d with Some (JArr l) => forallb (semb f x) l | _ => true end = true <->
                 (forall l, dget (kw "allOf") d = Some (JArr l) -> forall s', In s' l -> sem f x s')).
    { destruct (dget (kw "allOf") d) as [v|] eqn:G; [|split; [intros _ l E; discriminate|reflexivity]].
      destruct (LA _ v IA G) as [l ->]. rewrite forallb_forall. split.
      - intros H l' E s' Hs. inversion E; subst. apply (ML _ l' IA G); auto.
      - intros H s' Hs. apply (ML _ l IA G s' Hs). exact (H l eq_refl s' Hs). }
    assert (E4 : match dget (kw "anyOf") d with Some (JArr l) => existsb (semb f x) l | _ => true end = true <->
                 (forall l, dget (kw "anyOf") d = Some (JArr l) -> exists s', In s' l /\ sem f x s')).
    { destruct (dget (kw "anyOf") d) as [v|] eqn:G; [|split; [intros _ l E; discriminate|reflexivity]].
      destruct (LA _ v IY G) as [l ->]. rewrite existsb_exists. split.
      - intros (s' & Hs & V) l' E. inversion E; subst. exists s'. split; auto. apply (ML _ l' IY G); auto.
      - intros H. destruct (H l eq_refl) as (s' & Hs & V). exists s'. split; auto. apply (ML _ l IY G); auto. }
    assert (E5 : match dget (kw "oneOf") d with Some (JArr l) => Nat.eqb (List.length (filter (semb f x) l)) 1 | _ => true end = true <->
                 (forall l, dget (kw "oneOf") d = Some (JArr l) -> one_of (sem f x) l)).
    { destruct (dget (kw "oneOf") d) as [v|] eqn:G; [|split; [intros _ l E; discriminate|reflexivity]].
      destruct (LA _ v IO G) as [l ->]. rewrite Nat.eqb_eq, filter_one.
      assert (Q : one_of (fun s => semb f x s = true) l <-> one_of (sem f x) l) by (apply one_of_ext; intros s Hs; apply (ML _ l IO G); auto).
      unfold one_of in Q at 1. split.
      - intros (i & s & N & Ps & O) l' E. inversion E; subst. apply Q. exists i, s. split; [exact N|]. split; [exact Ps|].
        intros j s' Nj Ns. rewrite (O j s' Nj Ns). discriminate.
      - intros H. destruct (proj2 Q (H l eq_refl)) as (i & s & N & Ps & O). exists i, s. split; [exact N|]. split; [exact Ps|].
        intros j s' Nj Ns. destruct (semb f x s') eqn:B; auto. exfalso. exact (O j s' Nj Ns B). }
    assert (E6 : match dget (kw "not") d with Some n => negb (semb f x n) | None => true end = true <->
                 (forall n, dget (kw "not") d = Some n -> ~ sem f x n)).
    { destruct (dget (kw "not") d) as [v|] eqn:G; [|split; [intros _ n E; discriminate|reflexivity]].
      rewrite negb_true_iff. split.
      - intros H n E V. inversion E; subst. apply (MU _ n IN G) in V. congruence.
      - intros H. destruct (semb f x v) eqn:B; auto. exfalso. apply (H v eq_refl). apply (MU _ v IN G); auto. }
    assert (E7 : match dget (kw "if") d with
                 | Some i => if semb f x i
                             then match dget (kw "then") d with Some t => semb f x t | None => true end
                             else match dget (kw "else") d with Some e => semb f x e | None => true end
                 | None => true end = true <->
                 (forall i, dget (kw "if") d = Some i ->
                    (sem f x i -> forall t, dget (kw "then") d = Some t -> sem f x t) /\
                    (~ sem f x i -> forall e, dget (kw "else") d = Some e -> sem f x e))).
    { destruct (dget (kw "if") d) as [i|] eqn:G; [|split; [intros _ i E; discriminate|reflexivity]].
      pose proof (MU _ i II G) as Mi. destruct (semb f x i) eqn:Bi.
      - assert (Vi : sem f x i) by (apply Mi; reflexivity). split.
        + intros H i' E. inversion E; subst. split; [|intros N; contradiction].
          intros _ t Gt. rewrite Gt in H. apply (MU _ t IT Gt). exact H.
        + intros H. destruct (dget (kw "then") d) as [t|] eqn:Gt; [|reflexivity].
          apply (MU _ t IT Gt). exact (proj1 (H i eq_refl) Vi t eq_refl).
      - assert (Vi : ~ sem f x i) by (intros V; apply Mi in V; congruence). split.
        + intros H i' E. inversion E; subst. split; [intros V; contradiction|].
          intros _ e Ge. rewrite Ge in H. apply (MU _ e IE Ge). exact H.
        + intros H. destruct (dget (kw "else") d) as [e|] eqn:Ge; [|reflexivity].
          apply (MU _ e IE Ge). exact (proj2 (H i eq_refl) Vi e eq_refl). }
    rewrite E1, E2, E3, E4, E5, E6, E7. tauto.
Qed.

Lemma sem_dec x m s : frag m s -> sem m x s \/ ~ sem m x s.
Proof.
  intros F. destruct (semb m x s) eqn:B; [left; apply (semb_spec x m s F); exact B|].
  right. intros V. apply (semb_spec x m s F) in V. congruence.
Qed.

(* ---------- meaning of the one-key dicts that the simplifications build ---------- *)
Ltac dget1 :=
  repeat match goal with
         | |- context [dget (kw ?a) [(kw ?b, ?v)]] =>
             let r := eval vm_compute in (str_eqb (kw b) (kw a)) in
             change (dget (kw a) [(kw b, v)]) with (if r then Some v else @None json); cbv iota
         end.

Lemma scalar_vacuous b v x : ~ In (kw b) SK -> forall k v0, dget k [(kw b, v)] = Some v0 -> In k SK -> kvalid k v0 x.
Proof.
  intros N k v0 G I. exfalso. cbn [dget] in G. destruct (str_eqb (kw b) k) eqn:E; [|discriminate].
  apply str_eqb_true in E. subst k. exact (N I).
Qed.

Lemma sem_any1 k x l : sem (S k) x (obj1 "anyOf" (JArr l)) <-> exists s, In s l /\ sem k x s.
Proof.
  unfold obj1. cbn [sem]. dget1. split.
  - intros (_ & _ & _ & A & _). apply A. reflexivity.
  - intros H. split; [apply scalar_vacuous; cbv; intuition discriminate|]. split; [intros c E; discriminate E|].
    split; [intros l0 E; discriminate E|]. split; [intros l0 E; inversion E; subst; exact H|].
    split; [intros l0 E; discriminate E|]. split; [intros n E; discriminate E|intros i E; discriminate E].
Qed.

Lemma sem_all1 k x l : sem (S k) x (obj1 "allOf" (JArr l)) <-> forall s, In s l -> sem k x s.
Proof.
  unfold obj1. cbn [sem]. dget1. split.
  - intros (_ & _ & A & _). apply A. reflexivity.
  - intros H. split; [apply scalar_vacuous; cbv; intuition discriminate|]. split; [intros c E; discriminate E|].
    split; [intros l0 E; inversion E; subst; exact H|]. split; [intros l0 E; discriminate E|].
    split; [intros l0 E; discriminate E|]. split; [intros n E; discriminate E|intros i E; discriminate E].
Qed.

Lemma sem_not1 k x a : sem (S k) x (obj1 "not" a) <-> ~ sem k x a.
Proof.
  unfold obj1. cbn [sem]. dget1. split.
  - intros (_ & _ & _ & _ & _ & A & _). apply A. reflexivity.
  - intros H. split; [apply scalar_vacuous; cbv; intuition discriminate|]. split; [intros c E; discriminate E|].
    split; [intros l0 E; discriminate E|]. split; [intros l0 E; discriminate E|].
    split; [intros l0 E; discriminate E|]. split; [intros n E; inversion E; subst; exact H|intros i E; discriminate E].
Qed.

Lemma frag_list1 k (K : str) l : In K LK -> (forall s, In s l -> frag k s) -> frag (S k) (JObj [(K, JArr l)]).
Proof.
  intros I Fl. split; [constructor; [intros []|constructor]|]. intros key v G. cbn [dget] in G.
  destruct (str_eqb K key) eqn:E; [|discriminate]. apply str_eqb_true in E. subst key. inversion G; subst v.
  assert (E1 : smem K SK = false) by (cbv in I; repeat (destruct I as [<-|I]; [reflexivity|]); destruct I).
  rewrite E1, (proj2 (smem_In _ LK) I). exists l. auto.
Qed.

Lemma frag_not1 k a : frag k a -> frag (S k) (obj1 "not" a).
Proof.
  intros Fa. split; [constructor; [intros []|constructor]|]. intros key v G. cbn [dget] in G.
  destruct (str_eqb (kw "not") key) eqn:E; [|discriminate]. apply str_eqb_true in E. subst key. inversion G; subst v.
  change (smem (kw "not") SK) with false. change (smem (kw "not") LK) with false. change (smem (kw "not") UK) with true. exact Fa.
Qed.

Lemma frag_le : forall k m s, m <= k -> frag m s -> frag k s.
Proof. induction 1; auto. intros F. apply frag_mono. auto. Qed.

Lemma sem_le x : forall k m s, m <= k -> frag m s -> (sem k x s <-> sem m x s).
Proof.
  induction 1 as [|k L IH]; [tauto|]. intros F. rewrite <- (IH F). apply sem_mono. eapply frag_le; eauto.
Qed.

Lemma frag_empty m : frag (S m) (JObj []).
Proof. split; [constructor|]. intros k v G. discriminate G. Qed.

Lemma sem_empty m x : sem (S m) x (JObj []).
Proof. cbn [sem]. repeat split; intros; discriminate. Qed.

(* ---------- if / then / else ---------- *)
Definition is3 (k : str) : bool := str_eqb k (kw "if") || str_eqb k (kw "then") || str_eqb k (kw "else").

Lemma side3_get d k :
  dget k (ddel (kw "else") (ddel (kw "then") (ddel (kw "if") d))) = if is3 k then None else dget k d.
Proof.
  unfold is3.
  destruct (str_eqb k (kw "if")) eqn:E1.
  { apply str_eqb_eq in E1. subst. cbn [orb]. rewrite !dget_ddel_ne by (intros X; cbv in X; discriminate X). apply dget_ddel_same. }
  destruct (str_eqb k (kw "then")) eqn:E2.
  { apply str_eqb_eq in E2. subst. cbn [orb]. rewrite dget_ddel_ne by (intros X; cbv in X; discriminate X). apply dget_ddel_same. }
  destruct (str_eqb k (kw "else")) eqn:E3.
  { apply str_eqb_eq in E3. subst. cbn [orb]. apply dget_ddel_same. }
  cbn [orb]. rewrite !dget_ddel_ne; auto; intros X; subst k; rewrite str_eqb_refl in *; discriminate.
Qed.

(* everything a dict says except its conditional *)
Definition sem_noite (m : nat) (x : json) (d : dict) : Prop :=
  (forall k v, dget k d = Some v -> In k SK -> kvalid k v x) /\
  (forall c, dget (kw "const") d = Some c -> json_eqb x c = true) /\
  (forall l, dget (kw "allOf") d = Some (JArr l) -> forall s', In s' l -> sem m x s') /\
  (forall l, dget (kw "anyOf") d = Some (JArr l) -> exists s', In s' l /\ sem m x s') /\
  (forall l, dget (kw "oneOf") d = Some (JArr l) -> one_of (sem m x) l) /\
  (forall n, dget (kw "not") d = Some n -> ~ sem m x n).

Lemma sem_split m x d : sem (S m) x (JObj d) <->
  sem_noite m x d /\
  (forall i, dget (kw "if") d = Some i ->
     (sem m x i -> forall t, dget (kw "then") d = Some t -> sem m x t) /\
     (~ sem m x i -> forall e, dget (kw "else") d = Some e -> sem m x e)).
Proof. unfold sem_noite. cbn [sem]. tauto. Qed.

Lemma is3_SK k : In k SK -> is3 k = false.
Proof. intros H. apply SK_enum in H. repeat (destruct H as [->|H]; [reflexivity|]). subst. reflexivity. Qed.

Section Side3.
Variable m : nat.
Variable d : dict.
Hypothesis F : frag (S m) (JObj d).
Let side := ddel (kw "else") (ddel (kw "then") (ddel (kw "if") d)).

Lemma side3_frag : frag (S m) (JObj side).
Proof.
  split; [unfold side; repeat apply ddel_nodup; exact (frag_nodup m d F)|].
  intros k v G. unfold side in G. rewrite side3_get in G. destruct (is3 k); [discriminate|]. exact (proj2 F k v G).
Qed.

Lemma side3_sem x : sem (S m) x (JObj side) <-> sem_noite m x d.
Proof.
  rewrite sem_split. unfold sem_noite, side. rewrite !side3_get.
  change (is3 (kw "const")) with false. change (is3 (kw "allOf")) with false. change (is3 (kw "anyOf")) with false.
  change (is3 (kw "oneOf")) with false. change (is3 (kw "not")) with false. change (is3 (kw "if")) with true. cbv iota.
  split.
  - intros [(S1 & Rest) _]. split; [|exact Rest]. intros k v G I. apply S1; auto. rewrite side3_get, (is3_SK k I). exact G.
  - intros (S1 & Rest). split; [split; [|exact Rest]|intros i E; discriminate E].
    intros k v G I. rewrite side3_get, (is3_SK k I) in G. apply S1; auto.
Qed.
End Side3.

Lemma sem_pair k x a b : (forall s, In s [a; b] -> sem k x s) <-> sem k x a /\ sem k x b.
Proof. split; [intros H; split; apply H; cbn; tauto|intros [A B] s [<-|[<-|[]]]; assumption]. Qed.

Lemma ex_pair k x a b : (exists s, In s [a; b] /\ sem k x s) <-> sem k x a \/ sem k x b.
Proof.
  split; [intros (s & [<-|[<-|[]]] & V); tauto|intros [V|V]; [exists a|exists b]; cbn; tauto].
Qed.

Lemma ite_equiv SV m d : frag (S m) (JObj d) -> fix_lone_if SV = true ->
  exists m', equiv m d m' (simplify_ite SV d) /\
             dget (kw "if") (simplify_ite SV d) = None /\ dget (kw "then") (simplify_ite SV d) = None /\
             dget (kw "else") (simplify_ite SV d) = None /\
             (dget (kw "const") d = None -> dget (kw "const") (simplify_ite SV d) = None).
Proof.
  intros F FL. unfold simplify_ite, dhas.
  set (side := ddel (kw "else") (ddel (kw "then") (ddel (kw "if") d))).
  assert (SideOK : equiv m d m side -> exists m', equiv m d m' side /\ dget (kw "if") side = None /\ dget (kw "then") side = None /\
            dget (kw "else") side = None /\ (dget (kw "const") d = None -> dget (kw "const") side = None)).
  { intros E. exists m. split; [exact E|]. unfold side. rewrite !side3_get. repeat split; auto. }
  assert (SideEq : (forall x, (forall i, dget (kw "if") d = Some i ->
                       (sem m x i -> forall t, dget (kw "then") d = Some t -> sem m x t) /\
                       (~ sem m x i -> forall e, dget (kw "else") d = Some e -> sem m x e))) -> equiv m d m side).
  { intros V. split; [apply side3_frag; exact F|]. intros x. unfold side. rewrite (side3_sem m d x), sem_split. split; [intros H; split; auto|tauto]. }
  destruct (dget (kw "if") d) as [i|] eqn:Gi.
  - destruct (dget (kw "then") d) as [t|] eqn:Gt; [|destruct (dget (kw "else") d) as [e|] eqn:Ge].
    3:{ (* a lone if *) cbn [orb negb]. rewrite FL. apply SideOK. apply SideEq. intros x i0 E. split; intros _ ? X; discriminate X. }
    all: cbn [orb negb].
    + (* if / then [/ else] *)
      set (e' := match dget (kw "else") d with Some x => x | None => JObj [] end).
      pose proof (frag_single m d F _ i Gi ltac:(cbv; tauto)) as Fi.
      pose proof (frag_single m d F _ t Gt ltac:(cbv; tauto)) as Ft.
      assert (Fe : frag (S m) e').
      { unfold e'. destruct (dget (kw "else") d) as [e|] eqn:Ge; [|apply frag_empty].
        apply frag_mono. exact (frag_single m d F _ e Ge ltac:(cbv; tauto)). }
      exists (S (S (S m))). split; [split|].
      * apply frag_list1; [cbv; tauto|]. intros s [<-|[<-|[]]].
        -- apply (frag_le _ (S m)); [lia|apply side3_frag; exact F].
        -- apply frag_list1; [cbv; tauto|]. intros s [<-|[<-|[]]].
           ++ apply frag_list1; [cbv; tauto|]. intros s [<-|[<-|[]]]; [apply frag_mono; exact Fi|apply frag_mono; exact Ft].
           ++ apply frag_list1; [cbv; tauto|]. intros s [<-|[<-|[]]]; [apply frag_not1; exact Fi|exact Fe].
      * intros x. change (JObj [(kw "allOf", JArr [JObj side; obj1 "anyOf" (JArr [all_of2 i t; all_of2 (obj1 "not" i) e'])])])
          with (obj1 "allOf" (JArr [JObj side; obj1 "anyOf" (JArr [all_of2 i t; all_of2 (obj1 "not" i) e'])])).
        rewrite sem_all1, sem_pair, sem_any1, ex_pair. unfold all_of2. rewrite !sem_all1, !sem_pair, sem_not1.
        rewrite (sem_le x (S (S (S m))) (S m) (JObj side)) by (try lia; apply side3_frag; exact F).
        unfold side. rewrite (side3_sem m d x), (sem_split m x d), Gi, Gt.
        rewrite (sem_mono x m i Fi), (sem_mono x m t Ft).
        assert (Ee : sem (S m) x e' <-> (forall e, dget (kw "else") d = Some e -> sem m x e)).
        { unfold e'. destruct (dget (kw "else") d) as [e|] eqn:Ge.
          - rewrite (sem_mono x m e (frag_single m d F _ e Ge ltac:(cbv; tauto))). split; [intros V e0 E; inversion E; subst; exact V|intros V; apply V; reflexivity].
          - split; [intros _ e E; discriminate E|intros _; apply sem_empty]. }
        rewrite Ee. destruct (sem_dec x m i Fi) as [Vi|Vi].
        -- split.
           ++ intros [N [[_ T]|[NV _]]]; [|contradiction]. split; [exact N|]. intros i0 E. inversion E; subst. split; [intros _ t0 E0; inversion E0; subst; exact T|intros X; contradiction].
           ++ intros [N H]. split; [exact N|]. left. split; [exact Vi|]. exact (proj1 (H i eq_refl) Vi t eq_refl).
        -- split.
           ++ intros [N [[V _]|[_ E]]]; [contradiction|]. split; [exact N|]. intros i0 E0. inversion E0; subst. split; [intros X; contradiction|intros _; exact E].
           ++ intros [N H]. split; [exact N|]. right. split; [exact Vi|]. exact (proj2 (H i eq_refl) Vi).
      * cbn [dget]. repeat split; reflexivity.
    + (* if / else *)
      pose proof (frag_single m d F _ i Gi ltac:(cbv; tauto)) as Fi.
      pose proof (frag_single m d F _ e Ge ltac:(cbv; tauto)) as Fe.
      exists (S (S (S m))). split; [split|].
      * apply frag_list1; [cbv; tauto|]. intros s [<-|[<-|[]]].
        -- apply (frag_le _ (S m)); [lia|apply side3_frag; exact F].
        -- apply frag_list1; [cbv; tauto|]. intros s [<-|[<-|[]]].
           ++ apply frag_list1; [cbv; tauto|]. intros s [<-|[<-|[]]]; [apply frag_mono; exact Fi|apply frag_empty].
           ++ apply frag_list1; [cbv; tauto|]. intros s [<-|[<-|[]]]; [apply frag_not1; exact Fi|apply frag_mono; exact Fe].
      * intros x. change (JObj [(kw "allOf", JArr [JObj side; obj1 "anyOf" (JArr [all_of2 i (JObj []); all_of2 (obj1 "not" i) e])])])
          with (obj1 "allOf" (JArr [JObj side; obj1 "anyOf" (JArr [all_of2 i (JObj []); all_of2 (obj1 "not" i) e])])).
        rewrite sem_all1, sem_pair, sem_any1, ex_pair. unfold all_of2. rewrite !sem_all1, !sem_pair, sem_not1.
        rewrite (sem_le x (S (S (S m))) (S m) (JObj side)) by (try lia; apply side3_frag; exact F).
        unfold side. rewrite (side3_sem m d x), (sem_split m x d), Gi, Gt, Ge.
        rewrite (sem_mono x m i Fi), (sem_mono x m e Fe).
        pose proof (sem_empty m x) as Em. destruct (sem_dec x m i Fi) as [Vi|Vi].
        -- split.
           ++ intros [N _]. split; [exact N|]. intros i0 E. inversion E; subst. split; [intros _ t0 E0; discriminate E0|intros X; contradiction].
           ++ intros [N H]. split; [exact N|]. left. auto.
        -- split.
           ++ intros [N [[V _]|[_ E]]]; [contradiction|]. split; [exact N|]. intros i0 E0. inversion E0; subst. split; [intros X; contradiction|intros _ e0 E1; inversion E1; subst; exact E].
           ++ intros [N H]. split; [exact N|]. right. split; [exact Vi|]. exact (proj2 (H i eq_refl) Vi e eq_refl).
      * cbn [dget]. repeat split; reflexivity.
  - (* no if: then / else are ignored *)
    destruct (dget (kw "then") d) as [t|] eqn:Gt; [|destruct (dget (kw "else") d) as [e|] eqn:Ge]; cbn [orb negb].
    + apply SideOK. apply SideEq. intros x i E. discriminate E.
    + apply SideOK. apply SideEq. intros x i E. discriminate E.
    + exists m. split; [apply equiv_refl; exact F|]. auto.
Qed.

(* ---------- type: only respelled ---------- *)
Lemma py_eqb_str s t : py_eqb (JStr s) (JStr t) = true -> s = t.
Proof. unfold py_eqb. cbn. apply str_eqb_eq. Qed.

Lemma type_equiv m d : frag (S m) (JObj d) ->
  exists d3, simplify_type d = Ok d3 /\ equiv m d m d3 /\ (forall k, k <> kw "type" -> dget k d3 = dget k d).
Proof.
  intros F. unfold simplify_type.
  destruct (dget (kw "type") d) as [t|] eqn:Gt.
  2:{ exists d. split; [reflexivity|]. split; [apply equiv_refl; exact F|auto]. }
  destruct (frag_scalar m d F _ t Gt ltac:(cbv; tauto)) as [W NI]. specialize (NI eq_refl).
  unfold wtv in W. change (iskw (kw "type") "type") with true in W. cbv iota in W.
  rewrite (strs_hashable _ W). cbn [negb].
  set (s := pset (to_list t)).
  assert (Ss : strs s) by (intros j Hj; apply W; apply pset_subset; exact Hj).
  assert (Sin : forall u, In (JStr u) s <-> In (JStr u) (to_list t)) by (intros u; apply pset_strs_in; exact W).
  assert (NoInt : pmem (jstr "integer") s = false).
  { destruct (pmem (jstr "integer") s) eqn:M; auto. exfalso. apply pmem_spec in M. destruct M as (e & He & Ee).
    destruct (Ss e He) as [u ->]. apply py_eqb_str in Ee. subst u. apply NI. apply Sin. exact He. }
  assert (Fin : forall (T : list json), (forall u, In (JStr u) T <-> In (JStr u) (to_list t)) -> strs T ->
            equiv m d m (dset (kw "type") (JArr T) d) /\
            (forall k, k <> kw "type" -> dget k (dset (kw "type") (JArr T) d) = dget k d)).
  { intros T HT ST.
    assert (O : forall k, k <> kw "type" -> dget k (dset (kw "type") (JArr T) d) = dget k d)
      by (intros k N; apply dget_dset_other; auto).
    assert (GT : dget (kw "type") (dset (kw "type") (JArr T) d) = Some (JArr T)) by apply dget_dset_same.
    assert (KV : forall x, kvalid (kw "type") (JArr T) x <-> kvalid (kw "type") t x).
    { intros x. kvat. rewrite (type_names_to_list t), !names_in. apply HT. }
    split; [|exact O]. split.
    - split; [apply dset_nodup; exact (frag_nodup m d F)|]. intros k v G.
      destruct (list_eq_dec Nat.eq_dec k (kw "type")) as [->|Nk].
      + rewrite GT in G. inversion G; subst. change (smem (kw "type") SK) with true. cbv iota. split.
        * unfold wtv. change (iskw (kw "type") "type") with true. cbv iota. exact ST.
        * intros _ Hin. cbn [to_list] in Hin. apply (HT (kw "integer")) in Hin. exact (NI Hin).
      + rewrite (O k Nk) in G. exact (proj2 F k v G).
    - intros x. rewrite !sem_split. unfold sem_noite.
      assert (NK : forall s0, kw s0 <> kw "type" -> dget (kw s0) (dset (kw "type") (JArr T) d) = dget (kw s0) d) by (intros; apply O; auto).
      rewrite (NK "const"%string), (NK "allOf"%string), (NK "anyOf"%string), (NK "oneOf"%string), (NK "not"%string),
              (NK "if"%string), (NK "then"%string), (NK "else"%string) by (intros X; cbv in X; discriminate X).
      split.
      + intros [(S1 & Rest) R2]. split; [split; [|exact Rest]|exact R2].
        intros k v G I. destruct (list_eq_dec Nat.eq_dec k (kw "type")) as [->|Nk].
        * rewrite Gt in G. inversion G; subst. apply (proj1 (KV x)). apply S1; auto.
        * apply S1; auto. rewrite O; auto.
      + intros [(S1 & Rest) R2]. split; [split; [|exact Rest]|exact R2].
        intros k v G I. destruct (list_eq_dec Nat.eq_dec k (kw "type")) as [->|Nk].
        * rewrite GT in G. inversion G; subst. apply (proj2 (KV x)). apply S1; auto.
        * apply S1; auto. rewrite <- O; auto. }
  destruct (pmem (jstr "number") s) eqn:Mn.
  - set (T := filter (fun y => negb (py_eqb y (jstr "integer"))) s).
    destruct (Fin T) as [A1 A2].
    + intros u. unfold T. rewrite filter_In, Sin. split; [tauto|]. intros H. split; auto.
      apply negb_true_iff. destruct (py_eqb (JStr u) (jstr "integer")) eqn:E; auto. exfalso.
      apply py_eqb_str in E. subst u. exact (NI H).
    + intros j Hj. unfold T in Hj. apply filter_In in Hj. apply Ss. tauto.
    + eexists. split; [reflexivity|]. auto.
  - rewrite NoInt. destruct (Fin s Sin Ss) as [A1 A2]. eexists. split; [reflexivity|]. auto.
Qed.

Section ToDnf.
Variable SV : svariant.
Variable cfg : nconfig.
Hypothesis FL : fix_lone_if SV = true.
Hypothesis FM : full_merge cfg = true.
(* none of the keywords of the fragment is configured to be discarded *)
Hypothesis DF : forall k, In k (SK ++ CK) -> smem k (discard_fields cfg) = false.

Definition clean (d : dict) : Prop :=
  dget (kw "const") d = None /\ dget (kw "if") d = None /\ dget (kw "then") d = None /\ dget (kw "else") d = None.

(* the simplifications before the combinators: a dict of the fragment without const / if / then / else that accepts
   the same instances *)
Lemma simplify_sem m d0 : frag (S m) (JObj d0) ->
  exists d m',
    (forall K : dict -> res json,
     (do dc <- simplify_const (filter (fun '(k, _) => negb (smem k (discard_fields cfg))) d0);
      let d2 := simplify_ite SV dc in
      do d3 <- simplify_type d2; do d' <- simplify_depreq d3; K d') = K d) /\
    equiv m d0 m' d /\ clean d.
Proof.
  intros F.
  assert (E1 : filter (fun '(k, _) => negb (smem k (discard_fields cfg))) d0 = d0).
  { apply filter_all. intros [k v] Hin. apply negb_true_iff. apply DF.
    apply (in_map fst) in Hin. destruct (in_keys_dget k d0 Hin) as [v' G]. eapply frag_keys; eauto. }
  rewrite E1.
  destruct (const_equiv m d0 F) as (dc & Ec & Cc & Qc & _). rewrite Ec. cbn [bind].
  destruct (ite_equiv SV m dc (proj1 Qc) FL) as (m' & Qi & Ii & It & Ie & Ic). specialize (Ic Cc).
  set (d2 := simplify_ite SV dc) in *.
  destruct (type_equiv m' d2 (proj1 Qi)) as (d3 & Et & Qt & Ot).
  exists d3, m'. split; [|split].
  - intros K. cbv zeta. fold d2. rewrite Et. cbn [bind].
    unfold simplify_depreq. rewrite (frag_absent m' d3 (proj1 Qt) (kw "dependentRequired")) by (cbv; intuition discriminate).
    reflexivity.
  - eapply equiv_trans; [exact Qc|]. eapply equiv_trans; [exact Qi|exact Qt].
  - unfold clean. rewrite !Ot by (intros X; cbv in X; discriminate X). auto.
Qed.

(* the loops over the members of allOf / anyOf, given the statement for the members *)
Definition spec_at (f k : nat) (s : json) : Prop :=
  forall n, to_dnf SV cfg f s = Ok n ->
    exists l, n = dnf_of l /\ Forall galt l /\ forall x, alts_valid l x <-> sem k x s.

Lemma fold_all f k : forall l acc r, (forall s', In s' l -> spec_at f k s') ->
  foldM (fun acc s => do n <- to_dnf SV cfg f s; Ok (acc ++ [n])) l acc = Ok r ->
  exists ls, r = acc ++ map dnf_of ls /\ Forall (Forall galt) ls /\
             Forall2 (fun s' l' => forall x, alts_valid l' x <-> sem k x s') l ls.
Proof.
  induction l as [|s l IH]; intros acc r Sp H; cbn [foldM] in H.
  - inversion H; subst. exists []. cbn [map]. rewrite app_nil_r. split; [reflexivity|]. split; constructor.
  - destruct (to_dnf SV cfg f s) as [n| | |] eqn:E; cbn [bind] in H; try discriminate.
    destruct (Sp s (or_introl eq_refl) n E) as (l1 & -> & G1 & Eq1).
    destruct (IH _ _ (fun s' Hs => Sp s' (or_intror Hs)) H) as (ls & -> & Fl & F2).
    exists (l1 :: ls). cbn [map]. rewrite <- app_assoc. split; [reflexivity|]. split; constructor; auto.
Qed.

Lemma fold_any f k : forall l acc r, (forall s', In s' l -> spec_at f k s') ->
  foldM (fun acc s => do n <- to_dnf SV cfg f s; do a <- any_of n; Ok (acc ++ a)) l acc = Ok r ->
  exists ls, r = acc ++ map JObj (List.concat ls) /\ Forall (Forall galt) ls /\
             Forall2 (fun s' l' => forall x, alts_valid l' x <-> sem k x s') l ls.
Proof.
  induction l as [|s l IH]; intros acc r Sp H; cbn [foldM] in H.
  - inversion H; subst. exists []. cbn [List.concat map]. rewrite app_nil_r. split; [reflexivity|]. split; constructor.
  - destruct (to_dnf SV cfg f s) as [n| | |] eqn:E; cbn [bind] in H; try discriminate.
    destruct (Sp s (or_introl eq_refl) n E) as (l1 & -> & G1 & Eq1). rewrite any_of_dnf in H. cbn [bind] in H.
    destruct (IH _ _ (fun s' Hs => Sp s' (or_intror Hs)) H) as (ls & -> & Fl & F2).
    exists (l1 :: ls). cbn [List.concat]. rewrite map_app, <- app_assoc. split; [reflexivity|]. split; constructor; auto.
Qed.

Lemma alts_concat ls x : alts_valid (List.concat ls) x <-> Exists (fun l => alts_valid l x) ls.
Proof.
  induction ls as [|l ls IH]; cbn [List.concat].
  - split; [intros (d & [] & _)|intros H; inversion H].
  - split.
    + intros (d & Hd & V). apply in_app_or in Hd. destruct Hd as [Hd|Hd].
      * left. exists d. auto.
      * right. apply IH. exists d. auto.
    + intros H. inversion H as [? ? (d & Hd & V)|? ? H1]; subst.
      * exists d. split; [apply in_or_app; left; exact Hd|exact V].
      * apply IH in H1. destruct H1 as (d & Hd & V). exists d. split; [apply in_or_app; right; exact Hd|exact V].
Qed.

Lemma forall2_all {A B} (P : A -> Prop) (Q : B -> Prop) l ls :
  Forall2 (fun a b => Q b <-> P a) l ls -> (Forall Q ls <-> forall a, In a l -> P a).
Proof.
  induction 1 as [|a b l ls H F IH].
  - split; [intros _ a []|constructor].
  - split.
    + intros Hq a' [<-|Ha]; inversion Hq; subst; [apply H; assumption|apply IH; assumption].
    + intros Hp. constructor; [apply H; apply Hp; left; reflexivity|apply IH; intros; apply Hp; right; assumption].
Qed.

Lemma forall2_ex {A B} (P : A -> Prop) (Q : B -> Prop) l ls :
  Forall2 (fun a b => Q b <-> P a) l ls -> (Exists Q ls <-> exists a, In a l /\ P a).
Proof.
  induction 1 as [|a b l ls H F IH].
  - split; [intros X; inversion X|intros (a & [] & _)].
  - split.
    + intros X. inversion X; subst; [exists a; split; [left; reflexivity|apply H; assumption]|].
      apply IH in H1. destruct H1 as (a' & Ha & Pa). exists a'. split; [right; assumption|assumption].
    + intros (a' & [<-|Ha] & Pa); [left; apply H; assumption|right; apply IH; exists a'; auto].
Qed.


Lemma to_dnf_obj f d0 : to_dnf SV cfg (S f) (JObj d0) =
    (do dc <- simplify_const (filter (fun '(k, _) => negb (smem k (discard_fields cfg))) d0);
    let d2 := simplify_ite SV dc in
    do d3 <- simplify_type d2;
    do d <- simplify_depreq d3;
    do any_ofs <- match dget (kw "anyOf") d with
                  | Some j => do l <- as_list j;
                              foldM (fun acc s => do n <- to_dnf SV cfg f s; do a <- any_of n; Ok (acc ++ a)) l []
                  | None => Ok [JObj []]
                  end;
    do one_ofs <- match dget (kw "oneOf") d with
                  | Some j =>
                    do l <- as_list j;
                    do subs <- foldM (fun acc s => do n <- to_dnf SV cfg f s; Ok (acc ++ [n])) l [];
                    foldM (fun acc idx =>
                             do parts <- foldM (fun acc2 '(sub_idx, i) =>
                                                  if sub_idx =? idx then Ok (acc2 ++ [i])
                                                  else do x <- invert cfg i; Ok (acc2 ++ [x])) (enumerate subs) [];
                             do o <- merge cfg parts;
                             do a <- any_of o; Ok (acc ++ a)) (seq 0 (List.length subs)) []
                  | None => Ok [JObj []]
                  end;
    let side := ddel (kw "not") (ddel (kw "oneOf") (ddel (kw "anyOf") (ddel (kw "allOf") d))) in
    do all1 <- match dget (kw "allOf") d with
               | Some j => do l <- as_list j;
                           foldM (fun acc s => do n <- to_dnf SV cfg f s; Ok (acc ++ [n])) l []
               | None => Ok []
               end;
    do all2 <- match dget (kw "not") d with
               | Some n => do nn <- to_dnf SV cfg f n; do i <- invert cfg nn; Ok [i]
               | None => Ok []
               end;
    do s <- merge cfg (obj1 "anyOf" (JArr [JObj side]) :: all1 ++ all2);
    merge cfg [obj1 "anyOf" (JArr any_ofs); obj1 "anyOf" (JArr one_ofs); s]).
Proof. reflexivity. Qed.


Definition is4 (k : str) : bool :=
  str_eqb k (kw "not") || str_eqb k (kw "oneOf") || str_eqb k (kw "anyOf") || str_eqb k (kw "allOf").

Lemma side_get d k :
  dget k (ddel (kw "not") (ddel (kw "oneOf") (ddel (kw "anyOf") (ddel (kw "allOf") d)))) =
  if is4 k then None else dget k d.
Proof.
  unfold is4.
  destruct (str_eqb k (kw "not")) eqn:E1; [apply str_eqb_eq in E1; subst; apply dget_ddel_same|].
  rewrite dget_ddel_ne by (intros X; subst k; rewrite str_eqb_refl in E1; discriminate).
  destruct (str_eqb k (kw "oneOf")) eqn:E2; [apply str_eqb_eq in E2; subst; apply dget_ddel_same|].
  rewrite dget_ddel_ne by (intros X; subst k; rewrite str_eqb_refl in E2; discriminate).
  destruct (str_eqb k (kw "anyOf")) eqn:E3; [apply str_eqb_eq in E3; subst; apply dget_ddel_same|].
  rewrite dget_ddel_ne by (intros X; subst k; rewrite str_eqb_refl in E3; discriminate).
  destruct (str_eqb k (kw "allOf")) eqn:E4; [apply str_eqb_eq in E4; subst; apply dget_ddel_same|].
  rewrite dget_ddel_ne by (intros X; subst k; rewrite str_eqb_refl in E4; discriminate).
  reflexivity.
Qed.

Lemma is4_SK k : In k SK -> is4 k = false.
Proof. intros H. apply SK_enum in H. repeat (destruct H as [->|H]; [reflexivity|]). subst. reflexivity. Qed.

Lemma false_alt_galt : galt [(kw "enum", JArr [])].
Proof.
  split; [|one_key]. intros k v G. sa_dec k v G. split; [cbv; tauto|]. exists []. split; reflexivity.
Qed.

Lemma false_alt_invalid x : ~ dvalid [(kw "enum", JArr [])] x.
Proof.
  intros H. specialize (H (kw "enum") (JArr []) eq_refl). revert H. kvat.
  intros (l & E & M). inversion E; subst. discriminate M.
Qed.

Lemma forall2_inst {A B X} (R : A -> B -> X -> Prop) l ls :
  Forall2 (fun a b => forall x, R a b x) l ls -> forall x, Forall2 (fun a b => R a b x) l ls.
Proof. intros H x0. induction H; constructor; auto. Qed.


(* ---------- oneOf ---------- *)
Definition part_step (idx : nat) := (fun (acc2 : list json) '((sub_idx, i) : nat * json) =>
   if sub_idx =? idx then Ok (acc2 ++ [i]) else do x <- invert cfg i; Ok (acc2 ++ [x])).

Lemma parts_sem idx : forall (ls : list (list dict)) k acc r, Forall (Forall galt) ls ->
  foldM (part_step idx) (enum_from k (map dnf_of ls)) acc = Ok r ->
  exists ps, r = acc ++ map dnf_of ps /\ Forall (Forall galt) ps /\
    forall x, Forall (fun p => alts_valid p x) ps <->
              (forall j l, nth_error ls j = Some l -> if k + j =? idx then alts_valid l x else ~ alts_valid l x).
Proof.
  induction ls as [|l ls IH]; intros k acc r Fl H; cbn [map enum_from foldM] in H.
  - inversion H; subst. exists []. cbn [map]. rewrite app_nil_r. split; [reflexivity|]. split; [constructor|].
    intros x. split; [intros _ j l0 E; destruct j; discriminate E|constructor].
  - inversion Fl as [|? ? Gl Fl']; subst. unfold part_step at 1 in H.
    assert (Step : exists p, (if k =? idx then Ok (acc ++ [dnf_of l]) else do x <- invert cfg (dnf_of l); Ok (acc ++ [x])) = Ok (acc ++ [dnf_of p]) /\
                     Forall galt p /\ forall x, alts_valid p x <-> if k =? idx then alts_valid l x else ~ alts_valid l x).
    { destruct (k =? idx).
      - exists l. split; [reflexivity|]. split; [exact Gl|tauto].
      - destruct (invert cfg (dnf_of l)) as [i| | |] eqn:Ei; cbn [bind] in H; try discriminate.
        destruct (invert_sem cfg l i FM Gl Ei) as (li & -> & Gi & Eqi). exists li. split; [reflexivity|]. split; [exact Gi|exact Eqi]. }
    destruct Step as (p & Es & Gp & Eqp). rewrite Es in H. cbn [bind] in H.
    destruct (IH (S k) _ _ Fl' H) as (ps & -> & Fp & Eqs).
    exists (p :: ps). cbn [map]. rewrite <- app_assoc. split; [reflexivity|]. split; [constructor; auto|].
    intros x. split.
    + intros Hx j l0 E. inversion Hx as [|? ? Hp Hps]; subst. destruct j as [|j]; cbn in E.
      * inversion E; subst. rewrite Nat.add_0_r. apply Eqp. exact Hp.
      * replace (k + S j) with (S k + j) by lia. apply (proj1 (Eqs x) Hps j l0 E).
    + intros Hx. constructor.
      * apply Eqp. specialize (Hx 0 l eq_refl). rewrite Nat.add_0_r in Hx. exact Hx.
      * apply Eqs. intros j l0 E. specialize (Hx (S j) l0 E). replace (k + S j) with (S k + j) in Hx by lia. exact Hx.
Qed.

Definition idx_step (subs : list json) := (fun (acc : list json) (idx : nat) =>
   do parts <- foldM (fun acc2 '(sub_idx, i) =>
                        if sub_idx =? idx then Ok (acc2 ++ [i])
                        else do x <- invert cfg i; Ok (acc2 ++ [x])) (enumerate subs) [];
   do o <- merge cfg parts;
   do a <- any_of o; Ok (acc ++ a)).

Lemma idxs_sem (ls : list (list dict)) : Forall (Forall galt) ls -> forall idxs acc r,
  foldM (idx_step (map dnf_of ls)) idxs acc = Ok r ->
  exists Ls, r = acc ++ map JObj (List.concat Ls) /\ Forall (Forall galt) Ls /\
    forall x, Exists (fun L => alts_valid L x) Ls <->
              exists idx, In idx idxs /\ forall j l, nth_error ls j = Some l -> if j =? idx then alts_valid l x else ~ alts_valid l x.
Proof.
  intros Fl. induction idxs as [|idx idxs IH]; intros acc r H; cbn [foldM] in H.
  - inversion H; subst. exists []. cbn [List.concat map]. rewrite app_nil_r. split; [reflexivity|]. split; [constructor|].
    intros x. split; [intros X; inversion X|intros (i & [] & _)].
  - unfold idx_step at 1 in H. unfold enumerate in H.
    match type of H with bind (bind ?X _) _ = _ => destruct X as [parts| | |] eqn:EP end; cbn [bind] in H; try discriminate.
    destruct (parts_sem idx ls 0 [] parts Fl EP) as (ps & -> & Fp & Eqp). cbn [app] in H.
    unfold merge in H. rewrite FM in H.
    destruct (merge_full_ (map dnf_of ps)) as [o| | |] eqn:EM; cbn [bind] in H; try discriminate.
    destruct (merge_full_sem ps o Fp EM) as (Lo & -> & Go & Eqo). rewrite any_of_dnf in H. cbn [bind] in H.
    destruct (IH _ _ H) as (Ls & -> & FL' & EqL).
    exists (Lo :: Ls). cbn [List.concat]. rewrite map_app, <- app_assoc. split; [reflexivity|]. split; [constructor; auto|].
    intros x. split.
    + intros X. inversion X as [? ? V|? ? V]; subst.
      * exists idx. split; [left; reflexivity|]. apply Eqo in V. exact (proj1 (Eqp x) V).
      * apply EqL in V. destruct V as (i & Hi & Vi). exists i. split; [right; exact Hi|exact Vi].
    + intros (i & [<-|Hi] & Vi).
      * left. apply Eqo. apply Eqp. exact Vi.
      * right. apply EqL. exists i. auto.
Qed.

Lemma one_of_nth {A} (P : A -> Prop) (l : list A) :
  one_of P l <-> exists idx, In idx (seq 0 (List.length l)) /\ forall j s, nth_error l j = Some s -> if j =? idx then P s else ~ P s.
Proof.
  unfold one_of. split.
  - intros (i & s & N & Ps & O). exists i. split.
    + apply in_seq. split; [lia|]. cbn. apply nth_error_Some. congruence.
    + intros j s' Ns. destruct (Nat.eqb_spec j i) as [->|Ne]; [congruence|]. apply (O j s' Ne Ns).
  - intros (i & Hi & V). apply in_seq in Hi. destruct (nth_error l i) as [s|] eqn:N; [|apply nth_error_None in N; lia].
    exists i, s. split; [exact N|]. split.
    + specialize (V i s N). rewrite Nat.eqb_refl in V. exact V.
    + intros j s' Nj Ns. specialize (V j s' Ns). destruct (Nat.eqb_spec j i); [contradiction|exact V].
Qed.

Lemma forall2_one_of {A B} (P : A -> Prop) (Q : B -> Prop) l ls :
  Forall2 (fun a b => Q b <-> P a) l ls -> (one_of Q ls <-> one_of P l).
Proof.
  intros F. unfold one_of.
  assert (N : forall j, match nth_error l j, nth_error ls j with
                        | Some a, Some b => Q b <-> P a | None, None => True | _, _ => False end).
  { induction F as [|a b l ls H F IH]; intros [|j]; cbn [nth_error]; [exact I|exact I|exact H|apply IH]. }
  split.
  - intros (i & b & Nb & Qb & O). specialize (N i) as Ni. rewrite Nb in Ni. destruct (nth_error l i) as [a|] eqn:Na; [|destruct Ni].
    exists i, a. split; [exact Na|]. split; [apply Ni; exact Qb|]. intros j a' Nj Naj Pa.
    specialize (N j). rewrite Naj in N. destruct (nth_error ls j) as [b'|] eqn:Nbj; [|destruct N]. apply (O j b' Nj Nbj). apply N. exact Pa.
  - intros (i & a & Na & Pa & O). specialize (N i) as Ni. rewrite Na in Ni. destruct (nth_error ls i) as [b|] eqn:Nb; [|destruct Ni].
    exists i, b. split; [exact Nb|]. split; [apply Ni; exact Pa|]. intros j b' Nj Nbj Qb.
    specialize (N j). rewrite Nbj in N. destruct (nth_error l j) as [a'|] eqn:Naj; [|destruct N]. apply (O j a' Nj Naj). apply N. exact Qb.
Qed.

(* _to_dnf on the fragment: an any-of list of keyword sets, satisfied exactly by the instances the schema accepts *)
Theorem to_dnf_sem : forall f m s, frag m s -> spec_at f m s.
Proof.
  induction f as [|f IH]; intros m s Fs n H; [destruct s; discriminate H|].
  destruct m as [|m]; [destruct Fs|].
  destruct s as [|b|z|s0|l0|d0]; try (exfalso; exact Fs).
  - cbn [to_dnf] in H. destruct b; inversion H; subst n.
    + exists [[]]. split; [reflexivity|]. split; [constructor; [apply galt_nil|constructor]|].
      intros x. cbn [sem]. split; [reflexivity|]. intros _. exists []. split; [left; reflexivity|apply dvalid_nil].
    + exists [[(kw "enum", JArr [])]]. split; [reflexivity|]. split; [constructor; [apply false_alt_galt|constructor]|].
      intros x. cbn [sem]. split; [|discriminate]. intros (d & [<-|[]] & V). exfalso. exact (false_alt_invalid x V).
  - rewrite to_dnf_obj in H.
    destruct (simplify_sem m d0 Fs) as (d & m' & ED & [Fd Qd] & (Cc & Ci & Ct & Ce)). rewrite ED in H. clear ED.
    assert (IA : In (kw "allOf") LK) by (cbv; tauto). assert (IY : In (kw "anyOf") LK) by (cbv; tauto).
    assert (IO : In (kw "oneOf") LK) by (cbv; tauto). assert (IN : In (kw "not") UK) by (cbv; tauto).
    assert (KL : forall k v, In k LK -> dget k d = Some v -> exists l, v = JArr l /\ forall s', In s' l -> frag m' s')
      by (intros k v I G; exact (frag_list m' d Fd k v G I)).
    (* anyOf *)
    match type of H with bind ?X _ = _ => destruct X as [any_ofs| | |] eqn:EA end; cbn [bind] in H; try discriminate.
    assert (PA : exists LA, any_ofs = map JObj LA /\ Forall galt LA /\
              forall x, alts_valid LA x <-> (forall l, dget (kw "anyOf") d = Some (JArr l) -> exists s', In s' l /\ sem m' x s')).
    { destruct (dget (kw "anyOf") d) as [v|] eqn:Ga.
      - destruct (KL _ v IY Ga) as (l & -> & Fl). cbn [as_list bind] in EA.
        destruct (fold_any f m' l [] any_ofs (fun s' Hs => IH m' s' (Fl s' Hs)) EA) as (ls & -> & Fg & F2).
        exists (List.concat ls). cbn [app]. split; [reflexivity|]. split; [apply Forall_concat; exact Fg|].
        intros x. rewrite alts_concat.
        rewrite (forall2_ex (fun s' => sem m' x s') (fun l' => alts_valid l' x) l ls) by (exact (forall2_inst _ l ls F2 x)).
        split; [intros Hx l' E; inversion E; subst; exact Hx|intros Hx; apply Hx; reflexivity].
      - inversion EA; subst. exists [[]]. split; [reflexivity|]. split; [constructor; [apply galt_nil|constructor]|].
        intros x. split; [intros _ l E; discriminate E|]. intros _. exists []. split; [left; reflexivity|apply dvalid_nil]. }
    destruct PA as (LA & -> & FgA & EqA).
    (* oneOf *)
    match type of H with bind ?X _ = _ => destruct X as [one_ofs| | |] eqn:EO end; cbn [bind] in H; try discriminate.
    assert (PO : exists LO, one_ofs = map JObj LO /\ Forall galt LO /\
              forall x, alts_valid LO x <-> (forall l, dget (kw "oneOf") d = Some (JArr l) -> one_of (sem m' x) l)).
    { destruct (dget (kw "oneOf") d) as [v|] eqn:Go.
      - destruct (KL _ v IO Go) as (l & -> & Fl). cbn [as_list bind] in EO.
        match type of EO with bind ?X _ = _ => destruct X as [subs| | |] eqn:ES end; cbn [bind] in EO; try discriminate.
        destruct (fold_all f m' l [] subs (fun s' Hs => IH m' s' (Fl s' Hs)) ES) as (ls & -> & Fg & F2). cbn [app] in EO.
        destruct (idxs_sem ls Fg _ _ _ EO) as (Ls & -> & FgL & EqL).
        exists (List.concat Ls). cbn [app]. split; [reflexivity|]. split; [apply Forall_concat; exact FgL|].
        intros x. rewrite alts_concat, (EqL x), map_length.
        rewrite <- (one_of_nth (fun l' => alts_valid l' x) ls).
        rewrite (forall2_one_of (fun s' => sem m' x s') (fun l' => alts_valid l' x) l ls) by (exact (forall2_inst _ l ls F2 x)).
        split; [intros Hx l' E; inversion E; subst; exact Hx|intros Hx; apply Hx; reflexivity].
      - inversion EO; subst. exists [[]]. split; [reflexivity|]. split; [constructor; [apply galt_nil|constructor]|].
        intros x. split; [intros _ l E; discriminate E|]. intros _. exists []. split; [left; reflexivity|apply dvalid_nil]. }
    destruct PO as (LO & -> & FgO & EqO).
    (* allOf *)
    match type of H with bind ?X _ = _ => destruct X as [all1| | |] eqn:EL end; cbn [bind] in H; try discriminate.
    assert (PL : exists LS1, all1 = map dnf_of LS1 /\ Forall (Forall galt) LS1 /\
              forall x, Forall (fun l => alts_valid l x) LS1 <->
                        (forall l, dget (kw "allOf") d = Some (JArr l) -> forall s', In s' l -> sem m' x s')).
    { destruct (dget (kw "allOf") d) as [v|] eqn:Gl.
      - destruct (KL _ v IA Gl) as (l & -> & Fl). cbn [as_list bind] in EL.
        destruct (fold_all f m' l [] all1 (fun s' Hs => IH m' s' (Fl s' Hs)) EL) as (ls & -> & Fg & F2).
        exists ls. cbn [app]. split; [reflexivity|]. split; [exact Fg|].
        intros x.
        rewrite (forall2_all (fun s' => sem m' x s') (fun l' => alts_valid l' x) l ls) by (exact (forall2_inst _ l ls F2 x)).
        split; [intros Hx l' E; inversion E; subst; exact Hx|intros Hx; apply Hx; reflexivity].
      - inversion EL; subst. exists []. split; [reflexivity|]. split; [constructor|].
        intros x. split; [intros _ l E; discriminate E|constructor]. }
    destruct PL as (LS1 & -> & Fg1 & Eq1).
    (* not *)
    match type of H with bind ?X _ = _ => destruct X as [all2| | |] eqn:EN end; cbn [bind] in H; try discriminate.
    assert (PN : exists LS2, all2 = map dnf_of LS2 /\ Forall (Forall galt) LS2 /\
              forall x, Forall (fun l => alts_valid l x) LS2 <-> (forall v, dget (kw "not") d = Some v -> ~ sem m' x v)).
    { destruct (dget (kw "not") d) as [v|] eqn:Gn.
      - destruct (to_dnf SV cfg f v) as [nn| | |] eqn:En; cbn [bind] in EN; try discriminate.
        destruct (IH m' v (frag_single m' d Fd _ v Gn IN) nn En) as (ln & -> & Fgn & Eqn).
        destruct (invert cfg (dnf_of ln)) as [i| | |] eqn:Ei; cbn [bind] in EN; try discriminate.
        destruct (invert_sem cfg ln i FM Fgn Ei) as (li & -> & Fgi & Eqi). inversion EN; subst.
        exists [li]. split; [reflexivity|]. split; [constructor; [exact Fgi|constructor]|].
        intros x. split.
        + intros Hx v' E. inversion E; subst. inversion Hx; subst. rewrite <- (Eqn x). apply Eqi. assumption.
        + intros Hx. constructor; [|constructor]. apply Eqi. rewrite (Eqn x). apply Hx. reflexivity.
      - inversion EN; subst. exists []. split; [reflexivity|]. split; [constructor|].
        intros x. split; [intros _ v E; discriminate E|constructor]. }
    destruct PN as (LS2 & -> & Fg2 & Eq2).
    (* the keyword set beside the combinators *)
    set (side := ddel (kw "not") (ddel (kw "oneOf") (ddel (kw "anyOf") (ddel (kw "allOf") d)))) in *.
    assert (Sget : forall k, dget k side = if is4 k then None else dget k d) by (intros; apply side_get).
    assert (Scal : forall k v, dget k d = Some v -> is4 k = false -> In k SK).
    { intros k v G I4. pose proof (proj2 Fd k v G) as Hk.
      destruct (smem k SK) eqn:E1; [apply smem_In; exact E1|]. exfalso.
      destruct (smem k LK) eqn:E2.
      { apply smem_In in E2. cbv in E2. repeat (destruct E2 as [<-|E2]; [discriminate I4|]). destruct E2. }
      destruct (smem k UK) eqn:E3.
      { apply smem_In in E3. unfold UK, kws in E3. cbn [map In] in E3.
        destruct E3 as [<-|[<-|[<-|[<-|[]]]]]; [discriminate I4|congruence|congruence|congruence]. }
      destruct (str_eqb k (kw "const")) eqn:E4; [|exact Hk]. apply str_eqb_eq in E4. subst k. congruence. }
    assert (Gs : galt side).
    { split; [|unfold side; repeat apply ddel_nodup; exact (frag_nodup m' d Fd)].
      intros k v G. rewrite Sget in G. destruct (is4 k) eqn:I4; [discriminate|].
      pose proof (Scal k v G I4) as Ik. split; [exact Ik|]. exact (proj1 (frag_scalar m' d Fd k v G Ik)). }
    assert (EqS : forall x, dvalid side x <-> (forall k v, dget k d = Some v -> In k SK -> kvalid k v x)).
    { intros x. split.
      - intros Hs k v G Ik. apply Hs. rewrite Sget, (is4_SK k Ik). exact G.
      - intros Hs k v G. rewrite Sget in G. destruct (is4 k) eqn:I4; [discriminate|]. apply (Hs k v G). exact (Scal k v G I4). }
    (* the two merges *)
    unfold merge in H. rewrite FM in H.
    match type of H with bind ?X _ = _ => destruct X as [s| | |] eqn:ES end; cbn [bind] in H; try discriminate.
    change (obj1 "anyOf" (JArr [JObj side]) :: map dnf_of LS1 ++ map dnf_of LS2)
      with (map dnf_of ([side] :: nil) ++ map dnf_of LS1 ++ map dnf_of LS2) in ES.
    rewrite <- !map_app in ES.
    assert (Fg3 : Forall (Forall galt) (([side] :: nil) ++ LS1 ++ LS2)).
    { apply Forall_app. split; [constructor; [constructor; [exact Gs|constructor]|constructor]|]. apply Forall_app. auto. }
    destruct (merge_full_sem _ s Fg3 ES) as (Ls & -> & Fgs & Eqs).
    change [obj1 "anyOf" (JArr (map JObj LA)); obj1 "anyOf" (JArr (map JObj LO)); dnf_of Ls]
      with (map dnf_of [LA; LO; Ls]) in H.
    destruct (merge_full_sem _ n (Forall_cons _ FgA (Forall_cons _ FgO (Forall_cons _ Fgs (Forall_nil _)))) H)
      as (L & -> & FgL & EqL).
    exists L. split; [reflexivity|]. split; [exact FgL|].
    intros x. rewrite (EqL x), <- (Qd x). cbn [sem]. rewrite Cc, Ci, <- (EqA x), <- (EqO x), <- (Eq1 x), <- (Eq2 x), <- (EqS x). split.
    + intros HF. inversion HF as [|? ? HA HF1]; subst. inversion HF1 as [|? ? HO HF2]; subst. inversion HF2 as [|? ? HS _]; subst.
      apply (Eqs x) in HS. apply Forall_app in HS. destruct HS as [HS1 HS23]. apply Forall_app in HS23. destruct HS23 as [HS2 HS3].
      inversion HS1 as [|? ? Hside _]; subst. destruct Hside as (dd & [<-|[]] & Vd).
      split; [exact Vd|]. split; [intros c E; discriminate E|]. split; [exact HS2|]. split; [exact HA|]. split; [exact HO|].
      split; [exact HS3|intros i E; discriminate E].
    + intros (VS & _ & V1 & VA & VO & V2 & _). constructor; [exact VA|]. constructor; [exact VO|].
      constructor; [|constructor]. apply Eqs. apply Forall_app. split; [constructor; [exists side; split; [left; reflexivity|exact VS]|constructor]|].
      apply Forall_app. auto.
Qed.

End ToDnf.

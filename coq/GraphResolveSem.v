(* GraphResolveSem.v -- what resolve() does to the successors: every node it visits keeps its kind and gets, child by
   child, the dereferenced child (a Reference is replaced by the node registered under its name, following chains);
   nodes it does not visit are untouched.  (Used for the language of grammar graphs, C08.) *)
From Fences Require Import GraphSpec GraphLinks GraphExec GraphOps GraphResolve.

(* the node a child stands for: itself, or what its name is bound to (chains of references followed) *)
Inductive DR (g : graph) (t : idtable) : nat -> nat -> Prop :=
| DR_id c : is_ref g c = false -> DR g t c c
| DR_ref c name m1 m : kind_of g c = KRef name -> tbl_find (Some name) t = Some m1 -> DR g t m1 m -> DR g t c m.

Lemma deref_DR : forall f g t c m, deref f g t c = Ok m -> DR g t c m.
Proof.
  induction f as [|f IH]; intros g t c m H; cbn [deref] in H; [discriminate|].
  destruct (kind_of g c) as [v|a b|name] eqn:K.
  - inversion H; subst. apply DR_id. unfold is_ref. rewrite K. reflexivity.
  - inversion H; subst. apply DR_id. unfold is_ref. rewrite K. reflexivity.
  - destruct (tbl_find (Some name) t) as [m1|] eqn:F; [|discriminate]. eapply DR_ref; eauto.
Qed.

Lemma DR_same g g' t c m : same_nodes g g' -> DR g t c m -> DR g' t c m.
Proof.
  intros S H. induction H.
  - apply DR_id. rewrite (same_is_ref g g' c S). assumption.
  - destruct S as (K & _ & _). eapply DR_ref; eauto. rewrite K. assumption.
Qed.

Lemma same_nodes_sym g g' : same_nodes g g' -> same_nodes g' g.
Proof. intros (A & B & C). repeat split; intros; congruence. Qed.

Lemma Forall2_DR_same g g' t l l' : same_nodes g g' -> Forall2 (DR g t) l l' -> Forall2 (DR g' t) l l'.
Proof. intros S H. induction H; constructor; auto. eapply DR_same; eauto. Qed.

Section Loop1Sem.
Variables (fuel : nat) (t : idtable) (n : nat).

Lemma loop1_sem : forall l k g done odone g1,
  outs_of g n = done ++ l -> length done = k -> Forall2 (DR g t) odone done ->
  is_dec g n = true -> tbl_wf g t ->
  foldM (step1 fuel t n) (enum_from k l) g = Ok g1 ->
  Forall2 (DR g t) (odone ++ l) (outs_of g1 n).
Proof.
  induction l as [|tgt l IH]; intros k g done odone g1 O Lk Fd Dec W F; cbn [enum_from foldM] in F.
  - inversion F; subst g1. rewrite O, !app_nil_r. exact Fd.
  - unfold step1 at 1 in F. destruct (is_ref g tgt) eqn:Rt.
    + destruct (deref fuel g t tgt) as [m| | |] eqn:E; cbn [bind] in F; try discriminate.
      pose proof (deref_lt _ _ _ _ _ W (is_ref_lt _ _ Rt) E) as Lm.
      pose proof (is_dec_lt _ _ Dec) as Ls.
      destruct (retarget_spec g n k m Ls Lm) as (K & Oo & I & L).
      pose proof (retarget_same_nodes g n k m Ls Lm) as S1.
      set (g' := retarget g n k m) in *.
      assert (X : Forall2 (DR g' t) ((odone ++ [tgt]) ++ l) (outs_of g1 n)).
      { apply (IH (S k) g' (done ++ [m]) (odone ++ [tgt]) g1).
        - rewrite Oo, Nat.eqb_refl, O, <- Lk, set_nth_app, <- app_assoc. reflexivity.
        - rewrite app_length. simpl. lia.
        - apply Forall2_app; [eapply Forall2_DR_same; eauto|]. constructor; [|constructor].
          eapply DR_same; [exact S1|]. eapply deref_DR; eauto.
        - unfold is_dec. rewrite K. exact Dec.
        - eapply tbl_wf_same; eauto.
        - exact F. }
      rewrite <- app_assoc in X. eapply Forall2_DR_same; [apply same_nodes_sym; exact S1|exact X].
    + cbn [bind] in F.
      assert (X : Forall2 (DR g t) ((odone ++ [tgt]) ++ l) (outs_of g1 n)).
      { apply (IH (S k) g (done ++ [tgt]) (odone ++ [tgt]) g1); auto.
        - rewrite O, <- app_assoc. reflexivity.
        - rewrite app_length. simpl. lia.
        - apply Forall2_app; auto. constructor; [|constructor]. apply DR_id. exact Rt. }
      rewrite <- app_assoc in X. exact X.
Qed.
End Loop1Sem.

Lemma Forall2_DR_refl g t l : (forall c, In c l -> is_ref g c = false) -> Forall2 (DR g t) l l.
Proof. induction l as [|c l IH]; intros H; constructor; [apply DR_id; apply H; left; auto|apply IH; intros; apply H; right; auto]. Qed.

Lemma resolve_go_sem t : forall f g vis n g' vis' (P : nat -> Prop),
  resolve_go f g t vis n = Ok (g', vis') ->
  rinv g -> outs_dec g -> tbl_wf g t -> closedR P g vis ->
  (forall x, ~ In x vis' -> outs_of g' x = outs_of g x) /\
  (forall x, In x vis' -> ~ In x vis -> Forall2 (DR g t) (outs_of g x) (outs_of g' x)).
Proof.
  induction f as [|f IH]; intros g vis n g' vis' P H R OD W C; [discriminate|].
  cbn [resolve_go] in H.
  destruct (mem n vis) eqn:M.
  { inversion H; subst g' vis'. split; auto. intros x A B. contradiction. }
  destruct (is_dec g n) eqn:D.
  2:{ inversion H; subst g' vis'. split; auto. intros x [E|Hx] Nx; [subst x|contradiction].
      destruct (outs_of g n) eqn:O; [constructor|]. exfalso.
      assert (is_dec g n = true) by (apply OD; rewrite O; discriminate). congruence. }
  cbn [bind] in H.
  change (foldM _ (enumerate (outs_of g n)) g) with (foldM (step1 (S f) t n) (enum_from 0 (outs_of g n)) g) in H.
  destruct (foldM (step1 (S f) t n) (enum_from 0 (outs_of g n)) g) as [g1| | |] eqn:F1; cbn [bind] in H; try discriminate.
  destruct (loop1_spec (S f) t n (outs_of g n) 0 g [] g1 eq_refl eq_refl (fun x Hx => match Hx with end) R D W F1)
    as (R1 & S1 & O1 & N1 & L1).
  pose proof (loop1_sem (S f) t n (outs_of g n) 0 g [] [] g1 eq_refl eq_refl (Forall2_nil _) D W F1) as Sem1.
  cbn [app] in Sem1.
  set (P' := fun x => P x \/ x = n).
  assert (OD1 : outs_dec g1).
  { intros s Hs. rewrite (same_is_dec g g1 s S1). destruct (Nat.eq_dec s n) as [->|Ne]; auto.
    apply OD. rewrite <- O1 by exact Ne. exact Hs. }
  assert (C1 : closedR P' g1 (n :: vis)).
  { intros x [<-|Hx] NP Dx c Hc; [exfalso; apply NP; right; reflexivity|].
    assert (Nx : x <> n) by (intros ->; apply NP; right; reflexivity).
    rewrite O1 in Hc by exact Nx. rewrite (same_is_dec g g1 x S1) in Dx.
    destruct (C x Hx (fun HP => NP (or_introl HP)) Dx c Hc) as [A B].
    split; [rewrite (same_is_ref g g1 c S1); exact A|right; exact B]. }
  assert (G : forall l ga visa gb visb,
             foldM (fun '(g, vis) tgt => resolve_go f g t vis tgt) l (ga, visa) = Ok (gb, visb) ->
             rinv ga -> outs_dec ga -> tbl_wf ga t -> closedR P' ga visa ->
             rinv gb /\ outs_dec gb /\ same_nodes ga gb /\ closedR P' gb visb /\
             (forall x, In x visa -> In x visb) /\
             (forall x, In x visa -> outs_of gb x = outs_of ga x) /\
             (forall x, ~ In x visb -> outs_of gb x = outs_of ga x) /\
             (forall x, In x visb -> ~ In x visa -> Forall2 (DR ga t) (outs_of ga x) (outs_of gb x))).
  { induction l as [|c l IHl]; intros ga visa gb visb F Ra Da Wa Ca; cbn [foldM] in F.
    - inversion F; subst. split; auto. split; auto. split; [apply same_nodes_refl|]. split; auto. split; auto. split; auto.
      split; auto. intros x A B. contradiction.
    - destruct (resolve_go f ga t visa c) as [[g2 vis2]| | |] eqn:E; cbn [bind] in F; try discriminate.
      destruct (resolve_go_spec t _ _ _ _ _ _ P' E Ra Da Wa Ca) as [R2 D2 S2 M2 I2 F2 C2].
      destruct (IH _ _ _ _ _ P' E Ra Da Wa Ca) as [U2 Sem2].
      destruct (IHl _ _ _ _ F R2 D2 (tbl_wf_same _ _ _ S2 Wa) C2) as (R3 & D3 & S3 & C3 & M3 & F3 & U3 & Sem3).
      split; auto. split; auto. split; [eapply same_nodes_trans; eauto|]. split; auto. split; [auto|]. split; [|split].
      + intros x Hx. rewrite F3 by (apply M2; exact Hx). apply F2. exact Hx.
      + intros x Nx. rewrite U3 by exact Nx. apply U2. intros Hx. apply Nx. apply M3. exact Hx.
      + intros x Hx Nx. destruct (in_dec Nat.eq_dec x vis2) as [I|NI].
        * rewrite F3 by exact I. apply Sem2; auto.
        * rewrite <- (U2 x NI). eapply Forall2_DR_same; [apply same_nodes_sym; exact S2|]. apply Sem3; auto. }
  destruct (G _ _ _ _ _ H R1 OD1 (tbl_wf_same _ _ _ S1 W) C1) as (R2 & D2 & S2 & C2 & M2 & F2 & U2 & Sem2).
  split.
  - intros x Nx. assert (Ne : x <> n) by (intros ->; apply Nx; apply M2; left; reflexivity).
    rewrite U2 by exact Nx. apply O1. exact Ne.
  - intros x Hx Nx. destruct (Nat.eq_dec x n) as [->|Ne].
    + rewrite F2 by (left; reflexivity). exact Sem1.
    + rewrite <- (O1 x Ne). eapply Forall2_DR_same; [apply same_nodes_sym; exact S1|].
      apply Sem2; auto. intros [E|I]; [congruence|contradiction].
Qed.

(* resolve(): the dereferenced root, and for every node of the visited set -- which contains the returned root and
   is closed under the successors of its decisions -- the successors are the dereferenced old successors *)
Theorem resolve_sem : forall fuel g root extra g' r,
  resolve fuel g root extra = Ok (g', r) ->
  outs_ok g -> ins_ok_nr g -> outs_dec g ->
  exists t vis, tbl_wf g t /\ DR g t root r /\ same_nodes g g' /\ In r vis /\
    (forall x, In x vis -> Forall2 (DR g t) (outs_of g x) (outs_of g' x)) /\
    (forall x, In x vis -> is_dec g' x = true -> forall c, In c (outs_of g' x) -> In c vis).
Proof.
  intros fuel g root extra g' r H OO IO OD. unfold resolve in H.
  match type of H with bind ?X _ = _ => destruct X as [t0| | |] eqn:T0 end; cbn [bind] in H; try discriminate.
  destruct (items fuel g root) as [its| | |] eqn:I; cbn [bind] in H; try discriminate.
  destruct (foldM (tbl_insert g) its t0) as [t| | |] eqn:T; cbn [bind] in H; try discriminate.
  destruct (deref fuel g t root) as [r0| | |] eqn:Dr; cbn [bind] in H; try discriminate.
  destruct (resolve_go fuel g t [] r0) as [[g2 vis2]| | |] eqn:G; cbn [bind] in H; try discriminate.
  inversion H; subst g2 r0. clear H.
  assert (W0 : tbl_wf g t0) by (eapply extra_tbl_wf; [|exact T0]; intros name m F; discriminate).
  pose proof (foldM_tbl_insert_wf g _ _ _ W0 T) as W.
  assert (C0 : closedR (fun _ => False) g []) by (intros x []).
  destruct (resolve_go_spec t fuel g [] r g' vis2 (fun _ => False) G (mkRinv g OO IO) OD W C0) as [_ _ S' _ In' _ C'].
  destruct (resolve_go_sem t fuel g [] r g' vis2 (fun _ => False) G (mkRinv g OO IO) OD W C0) as [_ Sem].
  exists t, vis2. split; auto. split; [eapply deref_DR; eauto|]. split; auto. split; auto. split.
  - intros x Hx. apply Sem; auto.
  - intros x Hx Dx c Hc. apply (C' x Hx (fun F => F) Dx c Hc).
Qed.

(* Json.v -- JSON values, insertion-ordered dicts (Python dict semantics), Python-style scalar
   equality and ordered "sets" (the harness installs insertion-ordered sets into the modules under
   test for the correspondence run; theorems quantify over every order where it matters). *)
From Coq Require Export ZArith.
From Fences Require Export Base Format.

Inductive json :=
| JNull
| JBool (b : bool)
| JNum (z : Z)                      (* integral numeric constants; floats are outside the model *)
| JStr (s : str)
| JArr (l : list json)
| JObj (d : list (str * json)).     (* dict: unique keys, insertion order *)

Definition dict := list (str * json).

Fixpoint dget (k : str) (d : dict) : option json :=
  match d with [] => None | (k', v) :: r => if str_eqb k' k then Some v else dget k r end.
Definition dhas (k : str) (d : dict) : bool := match dget k d with Some _ => true | None => false end.
(* d[k] = v : replaces in place, appends when new *)
Fixpoint dset (k : str) (v : json) (d : dict) : dict :=
  match d with
  | [] => [(k, v)]
  | (k', v') :: r => if str_eqb k' k then (k, v) :: r else (k', v') :: dset k v r
  end.
(* del d[k]: keys of a Python dict are unique; removing every entry with the key is the same operation on such
   lists and makes "k is absent afterwards" hold for any association list *)
Fixpoint ddel (k : str) (d : dict) : dict :=
  match d with [] => [] | (k', v) :: r => if str_eqb k' k then ddel k r else (k', v) :: ddel k r end.
Definition dkeys (d : dict) : list str := map fst d.

(* structural equality (json.dumps text equality for our values) *)
Fixpoint json_eqb (a b : json) {struct a} : bool :=
  match a, b with
  | JNull, JNull => true
  | JBool x, JBool y => Bool.eqb x y
  | JNum x, JNum y => Z.eqb x y
  | JStr x, JStr y => str_eqb x y
  | JArr x, JArr y =>
      (fix go (x y : list json) : bool :=
         match x, y with
         | [], [] => true
         | a :: x', b :: y' => json_eqb a b && go x' y'
         | _, _ => false
         end) x y
  | JObj x, JObj y =>
      (fix go (x y : dict) : bool :=
         match x, y with
         | [], [] => true
         | (k, a) :: x', (k', b) :: y' => str_eqb k k' && json_eqb a b && go x' y'
         | _, _ => false
         end) x y
  | _, _ => false
  end.

(* Python == on scalars: True == 1, False == 0 *)
Definition as_num (a : json) : option Z :=
  match a with JNum z => Some z | JBool true => Some 1%Z | JBool false => Some 0%Z | _ => None end.
Definition py_eqb (a b : json) : bool :=
  match as_num a, as_num b with
  | Some x, Some y => Z.eqb x y
  | _, _ => json_eqb a b
  end.
Definition is_scalar (a : json) : bool :=
  match a with JArr _ | JObj _ => false | _ => true end.

(* ordered sets of scalars: set(l) keeps the first occurrence of each value, in order *)
Fixpoint pmem (a : json) (l : list json) : bool :=
  match l with [] => false | x :: r => py_eqb x a || pmem a r end.
Fixpoint pset (l : list json) : list json :=
  match l with [] => [] | x :: r => let s := pset r in if pmem x r then
      (* first occurrence wins: keep x here, drop the later equal one *)
      x :: filter (fun y => negb (py_eqb y x)) s else x :: s end.
Definition pinter (a b : list json) : list json := filter (fun x => pmem x b) a.
Definition pdiff (a b : list json) : list json := filter (fun x => negb (pmem x b)) a.
Definition punion (a b : list json) : list json := a ++ pdiff b a.

Fixpoint smem (a : str) (l : list str) : bool :=
  match l with [] => false | x :: r => str_eqb x a || smem a r end.
Fixpoint sset (l : list str) : list str :=
  match l with [] => [] | x :: r => x :: filter (fun y => negb (str_eqb y x)) (sset r) end.

(* strings used as keywords *)
Definition s_of (l : list nat) : str := l.

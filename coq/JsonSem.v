(* JsonSem.v -- normalisation preserves acceptance on the propositional-scalar fragment (C06):
   schemas built from the scalar keywords (type, enum, the numeric / length / item-count bounds, and the
   normaliser's negated enum) with allOf, anyOf and not.  Layers: one keyword (kw_merge, with JsonValid's
   inverters), one alternative (_merge, _invert on keyword sets), the any-of lists (merge, invert), _to_dnf. *)
From Fences Require Import Normalize NormShape JsonValid JsonGen JsonEnum.
From Fences Require Export JsonFragB.
From Coq Require Import String ZArith Lia.
Local Open Scope list_scope.

(* ---------- equality on scalars ---------- *)
Lemma json_eqb_scalar e i : is_scalar e = true -> (json_eqb i e = true <-> i = e).
Proof.
  intros He. destruct e as [|b|z|s|l|d]; try discriminate; destruct i as [|b'|z'|s'|l'|d']; cbn [json_eqb];
    split; intros H; try discriminate; try reflexivity.
  - apply Bool.eqb_prop in H. congruence.
  - inversion H. apply Bool.eqb_reflx.
  - apply Z.eqb_eq in H. congruence.
  - inversion H. apply Z.eqb_refl.
  - apply str_eqb_true in H. congruence.
  - inversion H. apply str_eqb_true. reflexivity.
Qed.

Lemma enum_eqb_scalar e i : is_scalar e = true -> (enum_eqb e i = true <-> e = i).
Proof.
  intros He. unfold enum_eqb, py_eqb.
  destruct e as [|b|z|s|l|d]; try discriminate; destruct i as [|b'|z'|s'|l'|d']; cbn;
    split; intros H; try discriminate; try reflexivity; try (destruct b; discriminate); try (destruct b'; discriminate).
  - destruct b, b'; cbn in H; try discriminate; reflexivity.
  - inversion H. destruct b'; reflexivity.
  - apply Z.eqb_eq in H. congruence.
  - inversion H. apply Z.eqb_refl.
  - apply str_eqb_true in H. congruence.
  - inversion H. apply str_eqb_true. reflexivity.
Qed.

Lemma existsb_scalars i l : hashable_all l = true -> (existsb (json_eqb i) l = true <-> In i l).
Proof.
  intros H. rewrite existsb_exists. split.
  - intros (e & He & E). apply json_eqb_scalar in E; [subst; exact He|]. eapply forallb_In; eauto.
  - intros Hi. exists i. split; auto. apply json_eqb_scalar; auto. eapply forallb_In; eauto.
Qed.

Lemma emem_scalars a l : hashable_all l = true -> (emem a l = true <-> In a l).
Proof.
  intros H. induction l as [|e l IH]; cbn [emem]; [split; [discriminate|intros []]|].
  cbn [hashable_all forallb] in H. apply andb_true_iff in H. destruct H as [He Hl].
  rewrite orb_true_iff, (IH Hl), (enum_eqb_scalar e a He). cbn [In]. tauto.
Qed.

Lemma ededup_in x : forall l seen, hashable_all seen = true -> hashable_all l = true ->
  (In x (ededup l seen) <-> In x l /\ ~ In x seen).
Proof.
  induction l as [|e l IH]; intros seen Hs Hl; cbn [ededup]; [split; [intros []|intros [[] _]]|].
  cbn [hashable_all forallb] in Hl. apply andb_true_iff in Hl. destruct Hl as [He Hl].
  destruct (emem e seen) eqn:M.
  - apply (emem_scalars e seen Hs) in M. rewrite (IH seen Hs Hl). cbn [In]. split; [tauto|].
    intros [[->|H] N]; [contradiction|tauto].
  - assert (N : ~ In e seen) by (intros H; apply (emem_scalars e seen Hs) in H; congruence).
    cbn [In]. rewrite (IH (e :: seen)); [|cbn [hashable_all forallb]; rewrite He; exact Hs|exact Hl]. cbn [In].
    split.
    + intros [->|[H1 H2]]; [tauto|]. split; [tauto|]. intros H3. apply H2. right. exact H3.
    + intros [[->|H1] H2]; [left; reflexivity|].
      destruct (json_eqb x e) eqn:E.
      * apply (json_eqb_scalar e x He) in E. left. congruence.
      * right. split; auto. intros [->|H3]; auto.
        rewrite (proj2 (json_eqb_scalar x x He) eq_refl) in E. discriminate.
Qed.

(* ---------- one keyword: well-typed values and the merger ---------- *)
Definition strs (l : list json) : Prop := forall j, In j l -> exists s, j = JStr s.

Definition wtv (k : str) (v : json) : Prop :=
  if iskw k "type" then strs (to_list v)
  else if iskw k "enum" then exists l, v = JArr l /\ hashable_all l = true
  else if iskw k "NOT_enum" then exists l, v = JArr l /\ hashable_all l = true
  else exists z, v = JNum z.

Lemma strs_hashable l : strs l -> hashable_all l = true.
Proof.
  intros H. unfold hashable_all. apply forallb_forall. intros j Hj. destruct (H j Hj) as [s ->]. reflexivity.
Qed.

Lemma names_in s l : In s (type_names (JArr l)) <-> In (JStr s) l.
Proof.
  unfold type_names, to_list. induction l as [|y l IH]; cbn [flat_map In]; [tauto|].
  rewrite in_app_iff, IH. split.
  - intros [H|H]; [left|right; exact H]. destruct y as [| | |s0| |]; cbn in H; try contradiction. destruct H as [<-|[]]. reflexivity.
  - intros [->|H]; [left; left; reflexivity|right; exact H].
Qed.

Lemma type_names_to_list v : type_names v = type_names (JArr (to_list v)).
Proof. reflexivity. Qed.

Lemma pset_strs_in l s : strs l -> (In (JStr s) (pset l) <-> In (JStr s) l).
Proof.
  intros H. split; [apply pset_subset|]. intros Hin.
  pose proof (pset_covers l (strs_hashable l H) _ Hin) as M. apply pmem_str in M. apply names_in in M. exact M.
Qed.

Lemma type_merge a b x : strs (to_list a) -> strs (to_list b) ->
  exists v, simple_merge (kw "type") a b = Some (Ok v) /\ strs (to_list v) /\
            (kvalid (kw "type") v x <-> kvalid (kw "type") a x /\ kvalid (kw "type") b x).
Proof.
  intros Ha Hb. exists (JArr (pinter (pset (to_list a)) (to_list b))).
  split; [|split].
  - unfold simple_merge. cbn [iskw]. change (iskw (kw "type") "required") with false.
    change (iskw (kw "type") "multipleOf") with false. change (iskw (kw "type") "items") with false.
    change (iskw (kw "type") "minimum") with false. change (iskw (kw "type") "maximum") with false.
    change (iskw (kw "type") "type") with true. cbv iota.
    rewrite (strs_hashable _ Ha), (strs_hashable _ Hb). reflexivity.
  - cbn [to_list]. intros j Hj. unfold pinter in Hj. apply filter_In in Hj. destruct Hj as [Hj _].
    apply pset_subset in Hj. exact (Ha j Hj).
  - revert Ha Hb. kvat. intros Ha Hb. unfold pinter. rewrite names_filter.
    rewrite (type_names_to_list a), (type_names_to_list b), !names_in, pmem_str, names_in.
    rewrite (pset_strs_in _ _ Ha). tauto.
Qed.

Lemma einter_in la lb i : hashable_all la = true -> hashable_all lb = true ->
  (In i (einter la lb) <-> In i la /\ In i lb).
Proof.
  intros Ha Hb. unfold einter.
  assert (Hf : hashable_all (filter (fun x => emem x lb) la) = true).
  { unfold hashable_all in *. apply forallb_forall. intros j Hj. apply filter_In in Hj. eapply forallb_In; [exact Ha|tauto]. }
  rewrite (ededup_in i _ [] eq_refl Hf), filter_In, (emem_scalars i lb Hb). cbn [In]. tauto.
Qed.

Lemma einter_hashable la lb : hashable_all la = true -> hashable_all lb = true -> hashable_all (einter la lb) = true.
Proof.
  intros Ha Hb. unfold hashable_all. apply forallb_forall. intros j Hj.
  apply (einter_in la lb j Ha Hb) in Hj. eapply forallb_In; [exact Ha|tauto].
Qed.

Lemma enum_merge la lb x : hashable_all la = true -> hashable_all lb = true ->
  simple_merge (kw "enum") (JArr la) (JArr lb) = Some (Ok (JArr (einter la lb))) /\
  (kvalid (kw "enum") (JArr (einter la lb)) x <-> kvalid (kw "enum") (JArr la) x /\ kvalid (kw "enum") (JArr lb) x).
Proof.
  intros Ha Hb. split.
  - unfold simple_merge.
    repeat match goal with |- context [iskw (kw "enum") ?s] =>
      let b := eval vm_compute in (iskw (kw "enum") s) in change (iskw (kw "enum") s) with b end.
    cbv iota. cbn [as_list bind]. rewrite Ha, Hb. reflexivity.
  - kvat. split.
    + intros (l & E & M). inversion E; subst l. apply (existsb_scalars x _ (einter_hashable la lb Ha Hb)) in M.
      apply (einter_in la lb x Ha Hb) in M. destruct M as [M1 M2].
      split; eexists; (split; [reflexivity|]); apply existsb_scalars; auto.
    + intros [(l1 & E1 & M1) (l2 & E2 & M2)]. inversion E1; inversion E2; subst.
      exists (einter l1 l2). split; [reflexivity|]. apply (existsb_scalars x _ (einter_hashable _ _ Ha Hb)).
      apply einter_in; auto. split; apply existsb_scalars; auto.
Qed.

Lemma not_enum_merge la lb x :
  simple_merge (kw "NOT_enum") (JArr la) (JArr lb) = Some (Ok (JArr (la ++ lb))) /\
  (kvalid (kw "NOT_enum") (JArr (la ++ lb)) x <-> kvalid (kw "NOT_enum") (JArr la) x /\ kvalid (kw "NOT_enum") (JArr lb) x).
Proof.
  split.
  - unfold simple_merge.
    repeat match goal with |- context [iskw (kw "NOT_enum") ?s] =>
      let b := eval vm_compute in (iskw (kw "NOT_enum") s) in change (iskw (kw "NOT_enum") s) with b end.
    reflexivity.
  - kvat. split.
    + intros H. specialize (H _ eq_refl). rewrite existsb_app in H. apply orb_false_iff in H. destruct H as [H1 H2].
      split; intros l E; inversion E; subst; auto.
    + intros [H1 H2] l E. inversion E; subst. rewrite existsb_app, (H1 _ eq_refl), (H2 _ eq_refl). reflexivity.
Qed.

Lemma hashable_app (a b : list json) : hashable_all a = true -> hashable_all b = true -> hashable_all (a ++ b) = true.
Proof. unfold hashable_all. intros A B. rewrite forallb_app, A, B. reflexivity. Qed.

(* the merger of every keyword that has one: defined on well-typed values, well-typed result, conjunction *)
Lemma kw_merge k va vb x : In k SKM -> wtv k va -> wtv k vb ->
  exists v, simple_merge k va vb = Some (Ok v) /\ wtv k v /\
            (kvalid k v x <-> kvalid k va x /\ kvalid k vb x).
Proof.
  intros Hk Wa Wb.
  assert (B : In k BK \/ k = kw "type" \/ k = kw "enum" \/ k = kw "NOT_enum").
  { cbv in Hk. cbv. intuition. }
  destruct B as [B | [-> | [-> | ->]]].
  - assert (Na : exists z, va = JNum z).
    { cbv in B. destruct B as [<-|[<-|[<-|[<-|[<-|[<-|[]]]]]]]; exact Wa. }
    assert (Nb : exists z, vb = JNum z).
    { cbv in B. destruct B as [<-|[<-|[<-|[<-|[<-|[<-|[]]]]]]]; exact Wb. }
    destruct Na as [za ->], Nb as [zb ->]. destruct (bound_merge k za zb x B) as (c & E & Eq).
    exists (JNum c). split; [exact E|]. split; [|exact Eq].
    cbv in B. destruct B as [<-|[<-|[<-|[<-|[<-|[<-|[]]]]]]]; exists c; reflexivity.
  - destruct (type_merge va vb x Wa Wb) as (v & E & W & Eq). exists v. auto.
  - destruct Wa as (la & -> & Ha), Wb as (lb & -> & Hb). destruct (enum_merge la lb x Ha Hb) as [E Eq].
    exists (JArr (einter la lb)). split; [exact E|]. split; [|exact Eq].
    exists (einter la lb). split; [reflexivity|apply einter_hashable; auto].
  - destruct Wa as (la & -> & Ha), Wb as (lb & -> & Hb). destruct (not_enum_merge la lb x) as [E Eq].
    exists (JArr (la ++ lb)). split; [exact E|]. split; [|exact Eq].
    exists (la ++ lb). split; [reflexivity|apply hashable_app; auto].
Qed.

Lemma kw_nomerge k va vb : In k SKX -> simple_merge k va vb = None /\ is_complex k = false.
Proof. intros H. cbv in H. destruct H as [<-|[<-|[]]]; split; reflexivity. Qed.

(* ---------- one alternative: keyword sets of the fragment ---------- *)
Definition scalar_alt (d : dict) : Prop := forall k v, dget k d = Some v -> In k SK /\ wtv k v.
Definition galt (d : dict) : Prop := scalar_alt d /\ NoDup (map fst d).

Lemma SK_cases k : In k SK -> In k SKM \/ In k SKX.
Proof. unfold SK. apply in_app_or. Qed.

Lemma scalar_simple d : scalar_alt d -> simple d.
Proof.
  intros H. split; unfold dhas.
  - destruct (dget (kw "prefixItems") d) eqn:G; auto. destruct (H _ _ G) as [I _]. cbv in I.
    repeat (destruct I as [I|I]; [discriminate I|]). destruct I.
  - destruct (dget (kw "properties") d) eqn:G; auto. destruct (H _ _ G) as [I _]. cbv in I.
    repeat (destruct I as [I|I]; [discriminate I|]). destruct I.
Qed.

Lemma dget_keys k (d : dict) v : dget k d = Some v -> In k (map fst d).
Proof.
  induction d as [|[k' v'] d IH]; cbn [dget map fst In]; [discriminate|].
  destruct (str_eqb k' k) eqn:E; [apply str_eqb_true in E; auto|auto].
Qed.
Lemma dget_nokey k (d : dict) : dget k d = None -> ~ In k (map fst d).
Proof.
  induction d as [|[k' v'] d IH]; cbn [dget map fst In]; [tauto|].
  destruct (str_eqb k' k) eqn:E; [discriminate|]. intros G [->|H]; [|exact (IH G H)].
  rewrite (proj2 (str_eqb_true k k) eq_refl) in E. discriminate.
Qed.

Lemma dset_keys k v (d : dict) :
  map fst (dset k v d) = if dhas k d then map fst d else map fst d ++ [k].
Proof.
  unfold dhas. induction d as [|[k' v'] d IH]; cbn [dset dget map fst app]; [reflexivity|].
  destruct (str_eqb k' k) eqn:E; cbn [map fst].
  - apply str_eqb_true in E. subst. reflexivity.
  - rewrite IH. destruct (dget k d); reflexivity.
Qed.

Lemma nodup_snoc {A} (l : list A) x : NoDup l -> ~ In x l -> NoDup (l ++ [x]).
Proof.
  induction l as [|y l IH]; intros N H; cbn [app]; [constructor; [intros []|constructor]|].
  inversion N; subst. constructor.
  - rewrite in_app_iff. intros [H1|[->|[]]]; [contradiction|]. apply H. left. reflexivity.
  - apply IH; auto. intros H1. apply H. right. exact H1.
Qed.

Lemma dset_nodup k v (d : dict) : NoDup (map fst d) -> NoDup (map fst (dset k v d)).
Proof.
  intros N. rewrite dset_keys. unfold dhas. destruct (dget k d) eqn:G; auto.
  apply nodup_snoc; auto. exact (dget_nokey _ _ G).
Qed.

(* the loop of _merge over the keys of the accumulator: it fails on a key without merger, and keeps the key list *)
Definition mstep (b : dict) := (fun (acc : dict) '((key, _) : str * json) =>
           match dget key acc, dget key b with
           | Some value, Some other =>
               match simple_merge key value other with
               | Some m => do v <- m; Ok (dset key v acc)
               | None => if is_complex key then Ok acc else nerr
               end
           | _, _ => Ok acc
           end).

Lemma mstep_other b acc key v0 acc1 : mstep b acc (key, v0) = Ok acc1 ->
  (forall k', k' <> key -> dget k' acc1 = dget k' acc) /\ map fst acc1 = map fst acc.
Proof.
  unfold mstep. intros E1.
  destruct (dget key acc) as [value|] eqn:Ga; [|inversion E1; subst; auto].
  destruct (dget key b) as [other|]; [|inversion E1; subst; auto].
  destruct (simple_merge key value other) as [m|].
  - destruct m as [v| | |]; cbn [bind] in E1; try discriminate. inversion E1; subst. split.
    + intros k' Nk. apply dget_dset_other. auto.
    + rewrite dset_keys. unfold dhas. rewrite Ga. reflexivity.
  - destruct (is_complex key); [inversion E1; subst; auto|discriminate].
Qed.

Lemma merge_loop_keys b : forall (l : dict) acc r, foldM (mstep b) l acc = Ok r -> map fst r = map fst acc.
Proof.
  induction l as [|[key v0] l IH]; intros acc r H; cbn [foldM] in H; [inversion H; reflexivity|].
  destruct (mstep b acc (key, v0)) as [acc1| | |] eqn:E1; cbn [bind] in H; try discriminate.
  rewrite (IH _ _ H). exact (proj2 (mstep_other _ _ _ _ _ E1)).
Qed.

Lemma merge_loop_fail b : forall (l : dict) acc r, NoDup (map fst l) -> foldM (mstep b) l acc = Ok r ->
  forall key va vb, In key (map fst l) -> dget key acc = Some va -> dget key b = Some vb ->
    simple_merge key va vb = None -> is_complex key = false -> False.
Proof.
  induction l as [|[key0 v0] l IH]; intros acc r ND H key va vb Hin Ga Gb Sm Cx; cbn [foldM map fst] in *; [destruct Hin|].
  inversion ND as [|x xs Nin ND']; subst.
  destruct (mstep b acc (key0, v0)) as [acc1| | |] eqn:E1; cbn [bind] in H; try discriminate.
  destruct Hin as [->|Hin].
  - unfold mstep in E1. rewrite Ga, Gb, Sm, Cx in E1. discriminate.
  - assert (Nk : key <> key0) by (intros ->; contradiction).
    destruct (mstep_other _ _ _ _ _ E1) as [O _].
    eapply (IH acc1 r ND' H key va vb Hin); eauto. rewrite (O key Nk). exact Ga.
Qed.

Lemma copy_keys_nodup : forall (b : dict) acc, NoDup (map fst acc) ->
  NoDup (map fst (fold_left (fun acc '(key, value) => if dhas key acc || is_complex key then acc else dset key value acc) b acc)).
Proof.
  induction b as [|[key value] b IH]; intros acc N; cbn [fold_left]; auto.
  apply IH. destruct (dhas key acc || is_complex key); auto. apply dset_nodup. exact N.
Qed.

Definition dvalid' := dvalid.

(* _merge on two keyword sets of the fragment: again such a set, satisfied exactly by the instances satisfying both *)
Theorem merge2_scalar a b r : galt a -> scalar_alt b -> merge2 a b = Ok r ->
  galt r /\ forall x, (dvalid r x <-> dvalid a x /\ dvalid b x).
Proof.
  intros [Sa ND] Sb H.
  pose proof (merge2_get a b r (scalar_simple a Sa) (scalar_simple b Sb) ND H) as G.
  (* a key present on both sides has a merger *)
  assert (Both : forall k va vb, dget k a = Some va -> dget k b = Some vb -> In k SKM).
  { intros k va vb Ga Gb. destruct (Sa k va Ga) as [Ik _]. destruct (SK_cases k Ik) as [M|X]; auto. exfalso.
    destruct (kw_nomerge k va vb X) as [Sm Cx].
    destruct (scalar_simple a Sa) as [Sa1 Sa2]. destruct (scalar_simple b Sb) as [Sb1 Sb2].
    unfold merge2 in H. rewrite Sa1, Sb1 in H. cbn [orb bind] in H. rewrite Sa2, Sb2 in H. cbn [orb bind] in H.
    match type of H with bind ?X _ = _ => destruct X as [r3| | |] eqn:E3 end; cbn [bind] in H; try discriminate.
    exact (merge_loop_fail b a a r3 ND E3 k va vb (dget_keys _ _ _ Ga) Ga Gb Sm Cx). }
  split; [split|].
  - intros k v Gk. rewrite (G k) in Gk.
    destruct (dget k a) as [va|] eqn:Ga.
    + destruct (Sa k va Ga) as [Ik Wa]. destruct (dget k b) as [vb|] eqn:Gb.
      * destruct (Sb k vb Gb) as [_ Wb].
        destruct (kw_merge k va vb JNull (Both k va vb Ga Gb) Wa Wb) as (c & E & Wc & _). rewrite E in Gk.
        inversion Gk; subst. auto.
      * inversion Gk; subst. auto.
    + exact (Sb k v Gk).
  - (* keys stay unique *)
    destruct (scalar_simple a Sa) as [Sa1 Sa2]. destruct (scalar_simple b Sb) as [Sb1 Sb2].
    unfold merge2 in H. rewrite Sa1, Sb1 in H. cbn [orb bind] in H. rewrite Sa2, Sb2 in H. cbn [orb bind] in H.
    match type of H with bind ?X _ = _ => destruct X as [r3| | |] eqn:E3 end; cbn [bind] in H; try discriminate.
    inversion H; subst r. apply copy_keys_nodup. rewrite (merge_loop_keys b a a r3 E3). exact ND.
  - intros x. split.
    + intros Hr. split; intros k v Gk.
      * destruct (Sa k v Gk) as [Ik Wa]. specialize (G k). rewrite Gk in G.
        destruct (dget k b) as [vb|] eqn:Gb.
        -- destruct (Sb k vb Gb) as [_ Wb].
           destruct (kw_merge k v vb x (Both k v vb Gk Gb) Wa Wb) as (c & E & _ & Eq). rewrite E in G.
           apply Eq. apply Hr. exact G.
        -- apply Hr. exact G.
      * destruct (Sb k v Gk) as [Ik Wb]. specialize (G k). rewrite Gk in G.
        destruct (dget k a) as [va|] eqn:Ga.
        -- destruct (Sa k va Ga) as [_ Wa].
           destruct (kw_merge k va v x (Both k va v Ga Gk) Wa Wb) as (c & E & _ & Eq). rewrite E in G.
           apply Eq. apply Hr. exact G.
        -- apply Hr. exact G.
    + intros [Ha Hb] k v Gk. rewrite (G k) in Gk.
      destruct (dget k a) as [va|] eqn:Ga.
      * destruct (Sa k va Ga) as [Ik Wa]. destruct (dget k b) as [vb|] eqn:Gb.
        -- destruct (Sb k vb Gb) as [_ Wb].
           destruct (kw_merge k va vb x (Both k va vb Ga Gb) Wa Wb) as (c & E & _ & Eq). rewrite E in Gk.
           inversion Gk; subst v. apply Eq. split; [apply Ha; exact Ga|apply Hb; exact Gb].
        -- inversion Gk; subst. apply Ha. exact Ga.
      * apply Hb. exact Gk.
Qed.

(* ---------- negation of one keyword ---------- *)
Lemma in_dget (d : dict) : NoDup (map fst d) -> forall k v, In (k, v) d <-> dget k d = Some v.
Proof.
  induction d as [|[k' v'] d IH]; intros N k v; cbn [In dget]; [split; [intros []|discriminate]|].
  inversion N as [|? ? Nin N']; subst. specialize (IH N' k v).
  destruct (str_eqb k' k) eqn:Ek.
  - apply str_eqb_true in Ek. subst k'. split.
    + intros [H|H]; [congruence|]. exfalso. apply Nin. apply (in_map fst) in H. exact H.
    + intros H. left. congruence.
  - split.
    + intros [H|H]; [inversion H; subst; rewrite (proj2 (str_eqb_true k k) eq_refl) in Ek; discriminate|tauto].
    + intros H. right. tauto.
Qed.

Lemma alt_dvalid d x : NoDup (map fst d) -> (alt_valid d x <-> dvalid d x).
Proof.
  intros N. pose proof (in_dget d N) as E.
  unfold alt_valid, dvalid. split; intros H k v Hk; apply H; apply E; exact Hk.
Qed.

Lemma min_items_0 n x : (n <= 0)%Z -> (alt_valid [(kw "enum", JArr [])] x <-> ~ kvalid (kw "minItems") (JNum n) x).
Proof.
  intros Hn. rewrite alt_valid_1. kvat. split.
  - intros (l & E & M). inversion E; subst. discriminate M.
  - intros H. exfalso. apply H. intros m l E1 E2. inversion E1; subst. lia.
Qed.

Lemma all_types_strs l : strs (pdiff ALL_TYPES l).
Proof.
  intros j Hj. unfold pdiff in Hj. apply filter_In in Hj. destruct Hj as [Hj _].
  cbv in Hj. repeat (destruct Hj as [<-|Hj]; [eexists; reflexivity|]). destruct Hj.
Qed.

Ltac two_keys := constructor; [intros [X|[]]; discriminate X|constructor; [intros []|constructor]].
Ltac one_key := constructor; [intros []|constructor].

Ltac sa_dec k v G :=
  cbn [dget] in G;
  repeat match type of G with
         | context [str_eqb (kw ?a) ?kk] => destruct (str_eqb (kw a) kk) eqn:?E;
             [match goal with E' : str_eqb (kw a) kk = true |- _ => apply str_eqb_true in E'; subst kk end; inversion G; subst v; clear G
             |]
         end; try discriminate.

(* what _invert makes of one keyword of the fragment: a keyword set of the fragment, satisfied exactly by the
   instances violating the keyword *)
Lemma invert_kw_sem k v : In k SK -> wtv k v ->
  exists d', invert_kw k v = Ok (JObj d') /\ galt d' /\ forall x, dvalid d' x <-> ~ kvalid k v x.
Proof.
  intros Hk W. cbv in Hk.
  destruct Hk as [<-|[<-|[<-|[<-|[<-|[<-|[<-|[<-|[<-|[<-|[<-|[]]]]]]]]]]]].
  - destruct W as [m ->]. eexists. split; [reflexivity|]. split.
    + split; [|two_keys]. intros k v G. sa_dec k v G; (split; [cbv; tauto|]); [intros j [<-|[]]; eexists; reflexivity|eexists; reflexivity].
    + intros x. rewrite <- alt_dvalid by two_keys. apply invert_minimum.
  - destruct W as [m ->]. eexists. split; [reflexivity|]. split.
    + split; [|two_keys]. intros k v G. sa_dec k v G; (split; [cbv; tauto|]); [intros j [<-|[]]; eexists; reflexivity|eexists; reflexivity].
    + intros x. rewrite <- alt_dvalid by two_keys. apply invert_maximum.
  - destruct W as [m ->]. destruct (invert_kw_scalar m) as (_ & _ & _ & _ & _ & _ & _ & EI). destruct (Z.ltb 0 m) eqn:L.
    + eexists. split; [exact EI|]. split.
      * split; [|two_keys]. intros k v G. sa_dec k v G; (split; [cbv; tauto|]); [intros j [<-|[]]; eexists; reflexivity|eexists; reflexivity].
      * intros x. rewrite <- alt_dvalid by two_keys. apply invert_min_items. apply Z.ltb_lt. exact L.
    + eexists. split; [exact EI|]. split.
      * split; [|one_key]. intros k v G. sa_dec k v G. split; [cbv; tauto|]. exists []. split; reflexivity.
      * intros x. rewrite <- alt_dvalid by one_key. apply min_items_0. apply Z.ltb_ge. exact L.
  - destruct W as [m ->]. eexists. split; [reflexivity|]. split.
    + split; [|two_keys]. intros k v G. sa_dec k v G; (split; [cbv; tauto|]); [intros j [<-|[]]; eexists; reflexivity|eexists; reflexivity].
    + intros x. rewrite <- alt_dvalid by two_keys. apply invert_max_items.
  - destruct W as [m ->]. destruct (invert_kw_scalar m) as (_ & _ & _ & _ & _ & _ & EL & _). destruct (Z.ltb 0 m) eqn:L.
    + eexists. split; [exact EL|]. split.
      * split; [|two_keys]. intros k v G. sa_dec k v G; (split; [cbv; tauto|]); [intros j [<-|[]]; eexists; reflexivity|eexists; reflexivity].
      * intros x. rewrite <- alt_dvalid by two_keys. apply invert_min_length. apply Z.ltb_lt. exact L.
    + eexists. split; [exact EL|]. split.
      * split; [|one_key]. intros k v G. sa_dec k v G. split; [cbv; tauto|]. exists []. split; reflexivity.
      * intros x. rewrite <- alt_dvalid by one_key. apply invert_min_length_0. apply Z.ltb_ge. exact L.
  - destruct W as [m ->]. eexists. split; [reflexivity|]. split.
    + split; [|two_keys]. intros k v G. sa_dec k v G; (split; [cbv; tauto|]); [intros j [<-|[]]; eexists; reflexivity|eexists; reflexivity].
    + intros x. rewrite <- alt_dvalid by two_keys. apply invert_max_length.
  - eexists. split; [reflexivity|]. split.
    + split; [|one_key]. intros k v' G. sa_dec k v' G. split; [cbv; tauto|]. apply all_types_strs.
    + intros x. rewrite <- alt_dvalid by one_key. apply invert_type.
  - destruct W as (l & -> & Hl). eexists. split; [reflexivity|]. split.
    + split; [|one_key]. intros k v G. sa_dec k v G. split; [cbv; tauto|]. exists l. auto.
    + intros x. rewrite <- alt_dvalid by one_key. apply invert_enum.
  - destruct W as (l & -> & Hl). eexists. split; [reflexivity|]. split.
    + split; [|one_key]. intros k v G. sa_dec k v G. split; [cbv; tauto|]. exists l. auto.
    + intros x. rewrite <- alt_dvalid by one_key. apply invert_not_enum.
  - destruct W as [m ->]. eexists. split; [reflexivity|]. split.
    + split; [|two_keys]. intros k v G. sa_dec k v G; (split; [cbv; tauto|]); [intros j [<-|[]]; eexists; reflexivity|eexists; reflexivity].
    + intros x. rewrite <- alt_dvalid by two_keys. apply invert_exclusive_minimum.
  - destruct W as [m ->]. eexists. split; [reflexivity|]. split.
    + split; [|two_keys]. intros k v G. sa_dec k v G; (split; [cbv; tauto|]); [intros j [<-|[]]; eexists; reflexivity|eexists; reflexivity].
    + intros x. rewrite <- alt_dvalid by two_keys. apply invert_exclusive_maximum.
Qed.


(* every keyword of the fragment is decided on every instance *)
Lemma SK_enum k : In k SK ->
  k = kw "minimum" \/ k = kw "maximum" \/ k = kw "minItems" \/ k = kw "maxItems" \/ k = kw "minLength" \/ k = kw "maxLength" \/
  k = kw "type" \/ k = kw "enum" \/ k = kw "NOT_enum" \/ k = kw "exclusiveMinimum" \/ k = kw "exclusiveMaximum".
Proof. intros H. cbv in H. cbv. intuition. Qed.

Lemma kvalid_em k v x : In k SK -> wtv k v -> kvalid k v x \/ ~ kvalid k v x.
Proof.
  intros Hk W. apply SK_enum in Hk.
  destruct Hk as [-> | [-> | [-> | [-> | [-> | [-> | [-> | [-> | [-> | [-> | ->]]]]]]]]]]; revert W; unfold wtv; kvat; intros W.
  1-6,10-11: destruct W as [m ->]; destruct x as [|b|z|s|l|d]; try (left; intros ? ? _ X; discriminate X).
  - destruct (Z_le_dec m z); [left; intros ? ? E1 E2; inversion E1; inversion E2; subst; auto|right; intros H; apply n; apply H; reflexivity].
  - destruct (Z_le_dec z m); [left; intros ? ? E1 E2; inversion E1; inversion E2; subst; auto|right; intros H; apply n; apply H; reflexivity].
  - destruct (Z_le_dec m (Z.of_nat (List.length l))); [left; intros ? ? E1 E2; inversion E1; inversion E2; subst; auto|right; intros H; apply n; apply H; reflexivity].
  - destruct (Z_le_dec (Z.of_nat (List.length l)) m); [left; intros ? ? E1 E2; inversion E1; inversion E2; subst; auto|right; intros H; apply n; apply H; reflexivity].
  - destruct (Z_le_dec m (Z.of_nat (List.length s))); [left; intros ? ? E1 E2; inversion E1; inversion E2; subst; auto|right; intros H; apply n; apply H; reflexivity].
  - destruct (Z_le_dec (Z.of_nat (List.length s)) m); [left; intros ? ? E1 E2; inversion E1; inversion E2; subst; auto|right; intros H; apply n; apply H; reflexivity].
  - destruct (Z_lt_dec m z); [left; intros ? ? E1 E2; inversion E1; inversion E2; subst; auto|right; intros H; apply n; apply H; reflexivity].
  - destruct (Z_lt_dec z m); [left; intros ? ? E1 E2; inversion E1; inversion E2; subst; auto|right; intros H; apply n; apply H; reflexivity].
  - destruct (in_dec (list_eq_dec Nat.eq_dec) (jtype x) (type_names v)); auto.
  - destruct W as (l & -> & _). destruct (existsb (json_eqb x) l) eqn:M; [left; eauto|].
    right. intros (l' & E & M'). inversion E; subst. congruence.
  - destruct W as (l & -> & _). destruct (existsb (json_eqb x) l) eqn:M.
    + right. intros H. rewrite (H l eq_refl) in M. discriminate.
    + left. intros l' E. inversion E; subst. exact M.
Qed.

(* ---------- any-of lists ---------- *)
Definition alts_valid (l : list dict) (x : json) : Prop := exists d, In d l /\ dvalid d x.
Definition dnf_of (l : list dict) : json := obj1 "anyOf" (JArr (map JObj l)).

Lemma any_of_dnf l : any_of (dnf_of l) = Ok (map JObj l).
Proof. reflexivity. Qed.

Lemma not_all_ex x : forall (es : dict),
  (forall k v, In (k, v) es -> kvalid k v x \/ ~ kvalid k v x) ->
  ~ (forall k v, In (k, v) es -> kvalid k v x) -> exists k v, In (k, v) es /\ ~ kvalid k v x.
Proof.
  induction es as [|[k v] es IH]; intros Dec H; [exfalso; apply H; intros ? ? []|].
  destruct (Dec k v (or_introl eq_refl)) as [Y|N]; [|exists k, v; split; [left; reflexivity|exact N]].
  destruct IH as (k1 & v1 & I1 & N1).
  - intros; apply Dec; right; auto.
  - intros H1. apply H. intros k2 v2 [E|I2]; [inversion E; subst; exact Y|auto].
  - exists k1, v1. split; [right; exact I1|exact N1].
Qed.

(* the loop of _invert over the entries of one alternative *)
Lemma invert_entries : forall (es : dict) acc, (forall k v, In (k, v) es -> In k SK /\ wtv k v) ->
  exists ls, foldM (fun acc '(k, v) => do i <- invert_kw k v; Ok (acc ++ [i])) es acc = Ok (acc ++ map JObj ls) /\
             Forall galt ls /\
             forall x, alts_valid ls x <-> exists k v, In (k, v) es /\ ~ kvalid k v x.
Proof.
  induction es as [|[k v] es IH]; intros acc Hes; cbn [foldM].
  - exists []. cbn [map]. rewrite app_nil_r. split; [reflexivity|]. split; [constructor|].
    intros x. split; [intros (d1 & [] & _)|intros (k & v & [] & _)].
  - destruct (Hes k v (or_introl eq_refl)) as [Ik W].
    destruct (invert_kw_sem k v Ik W) as (d' & E & Gd & Eq). rewrite E. cbn [bind].
    destruct (IH (acc ++ [JObj d'])) as (ls & EF & Fl & Eqs); [intros; apply Hes; right; auto|].
    exists (d' :: ls). cbn [map]. rewrite EF, <- app_assoc. split; [reflexivity|]. split; [constructor; auto|].
    intros x. split.
    + intros (d1 & [<-|H1] & V).
      * exists k, v. split; [left; reflexivity|]. apply Eq. exact V.
      * destruct (proj1 (Eqs x) (ex_intro _ d1 (conj H1 V))) as (k1 & v1 & I1 & N1). exists k1, v1. split; [right; exact I1|exact N1].
    + intros (k1 & v1 & [E1|I1] & N1).
      * inversion E1; subst. exists d'. split; [left; reflexivity|]. apply Eq. exact N1.
      * destruct (proj2 (Eqs x) (ex_intro _ k1 (ex_intro _ v1 (conj I1 N1)))) as (d1 & H1 & V). exists d1. split; [right; exact H1|exact V].
Qed.

(* _invert of one alternative: an any-of list of the fragment, satisfied exactly by the instances violating it *)
Lemma invert1_sem d : galt d ->
  exists l', invert1 (JObj d) = Ok (dnf_of l') /\ Forall galt l' /\ forall x, alts_valid l' x <-> ~ dvalid d x.
Proof.
  intros [Sd ND]. unfold invert1. cbn [as_dict bind].
  assert (Hes : forall k v, In (k, v) d -> In k SK /\ wtv k v) by (intros k v Hin; apply Sd; apply (in_dget d ND); exact Hin).
  assert (Core : forall x, (exists k v, In (k, v) d /\ ~ kvalid k v x) <-> ~ dvalid d x).
  { intros x. split.
    - intros (k & v & Hin & N) H. apply N. apply H. apply (in_dget d ND). exact Hin.
    - intros H. apply not_all_ex.
      + intros k v Hin. destruct (Hes k v Hin). apply kvalid_em; auto.
      + intros H1. apply H. intros k v G. apply H1. apply (in_dget d ND). exact G. }
  destruct d as [|e d0].
  - exists [[(kw "enum", JArr [])]]. split; [reflexivity|]. split.
    + constructor; [|constructor]. split; [|one_key]. intros k v G. sa_dec k v G. split; [cbv; tauto|]. exists []. split; reflexivity.
    + intros x. split.
      * intros (d & [<-|[]] & H). exfalso. specialize (H (kw "enum") (JArr []) eq_refl). revert H. kvat.
        intros (l & E & M). inversion E; subst. discriminate M.
      * intros H. exfalso. apply H. intros k v G. discriminate G.
  - destruct (invert_entries (e :: d0) [] Hes) as (ls & EF & Fl & Eqs). cbn [app] in EF.
    exists ls. rewrite EF. cbn [bind]. split; [reflexivity|]. split; [exact Fl|].
    intros x. rewrite (Eqs x). apply Core.
Qed.

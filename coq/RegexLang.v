(* RegexLang.v -- every complete execution of the graph that the model of regex/parse.py builds for an
   expression r yields a string matched in full by r (C09, and the "contains a match" half of C20). *)
From Fences Require Import Regex GraphSpec GraphLinks GraphExec GraphRun GraphOpt.

(* ---------- the forward view of a node: what an execution can see of it ---------- *)
Definition len (st : bst) : nat := length (b_graph st).
Definition view (st : bst) (n : nat) : kind * list nat * payload :=
  (kind_of (b_graph st) n, outs_of (b_graph st) n, pay_of st n).
Definition okst (st : bst) : Prop :=
  length (b_pay st) = len st /\ forall n t, In t (outs_of (b_graph st) n) -> t < len st.
Definition same_on (P : nat -> Prop) (st st' : bst) : Prop := forall m, P m -> view st' m = view st m.

Lemma same_on_refl P st : same_on P st st. Proof. intros m _. reflexivity. Qed.
Lemma same_on_trans (P : nat -> Prop) a b c : same_on P a b -> same_on P b c -> same_on P a c.
Proof. intros H1 H2 m Pm. rewrite (H2 m Pm). apply H1. exact Pm. Qed.
Lemma same_on_weaken (P Q : nat -> Prop) a b : (forall m, Q m -> P m) -> same_on P a b -> same_on Q a b.
Proof. intros I H m Qm. apply H. auto. Qed.

Lemma view_eq st n k l p : view st n = (k, l, p) ->
  kind_of (b_graph st) n = k /\ outs_of (b_graph st) n = l /\ pay_of st n = p.
Proof. unfold view. intros H. injection H. auto. Qed.

Lemma outs_of_out g n : length g <= n -> outs_of g n = [].
Proof. intros L. unfold outs_of. rewrite getn_out by exact L. reflexivity. Qed.

Lemma new_node_spec k p st st' n : okst st -> new_node k p st = (st', n) ->
  n = len st /\ len st' = S (len st) /\ okst st' /\ same_on (fun m => m < len st) st st' /\ view st' n = (k, [], p).
Proof.
  intros [Lp Ot] H. unfold new_node in H. inversion H; subst st' n. clear H. change (length (b_graph st)) with (len st) in *.
  assert (G : forall m, m < len st -> getn (b_graph st ++ [mkNode k None [] []]) m = getn (b_graph st) m).
  { intros m L. apply getn_app_old. exact L. }
  assert (Gn : getn (b_graph st ++ [mkNode k None [] []]) (len st) = mkNode k None [] []).
  { unfold getn, len. rewrite app_nth2 by lia. rewrite Nat.sub_diag. reflexivity. }
  split; [reflexivity|]. split; [unfold len; simpl; rewrite app_length; simpl; lia|]. split; [|split].
  - split; [unfold len in *; simpl; rewrite !app_length; simpl; lia|].
    intros m t Ht. unfold len. simpl. rewrite app_length. simpl.
    destruct (Nat.lt_ge_cases m (len st)) as [L|L].
    + unfold outs_of in Ht. simpl in Ht. rewrite G in Ht by exact L. specialize (Ot m t Ht). unfold len in Ot. lia.
    + destruct (Nat.eq_dec m (len st)) as [->|Ne].
      * unfold outs_of in Ht. simpl in Ht. rewrite Gn in Ht. destruct Ht.
      * rewrite outs_of_out in Ht; [destruct Ht|]. simpl. rewrite app_length. simpl. unfold len in *. lia.
  - intros m L. unfold view, kind_of, outs_of, pay_of. cbn [b_graph b_pay]. rewrite G by exact L.
    rewrite app_nth1 by (rewrite Lp; exact L). reflexivity.
  - unfold view, kind_of, outs_of, pay_of. cbn [b_graph b_pay]. rewrite Gn. cbn [nkind outs].
    rewrite app_nth2 by lia. rewrite Lp, Nat.sub_diag. reflexivity.
Qed.

Lemma add_t_spec s t st : okst st -> s < len st -> t < len st ->
  let st' := add_t s t st in
  len st' = len st /\ okst st' /\ same_on (fun m => m <> s) st st' /\
  view st' s = (kind_of (b_graph st) s, outs_of (b_graph st) s ++ [t], pay_of st s).
Proof.
  intros [Lp Ot] Ls Lt st'. unfold st', add_t.
  destruct (add_transition_spec (b_graph st) s t Ls Lt) as (K & O & _ & L).
  split; [exact L|]. split; [|split].
  - split; [unfold len; simpl; rewrite L; exact Lp|].
    intros n x Hx. unfold len. simpl. rewrite L. simpl in Hx. rewrite O in Hx.
    destruct (n =? s); [apply in_app_or in Hx; destruct Hx as [Hx|[<-|[]]]; eauto|eauto].
  - intros m Ne. unfold view, pay_of. simpl. rewrite K, O.
    destruct (Nat.eqb_spec m s); [contradiction|reflexivity].
  - unfold view, pay_of. simpl. rewrite K, O, Nat.eqb_refl. reflexivity.
Qed.

(* ---------- languages of nodes ---------- *)
Definition lang (st : bst) (n : nat) (w : str) : Prop :=
  exists c tr, Run0 (b_graph st) n c tr /\ w = output_of st tr.
Definition langs (st : bst) (l : list nat) (w : str) : Prop :=
  exists c trs, RunAll0 (b_graph st) l c trs /\ w = output_of st trs.

Lemma output_of_app st a b : output_of st (a ++ b) = output_of st a ++ output_of st b.
Proof. unfold output_of. apply flat_map_app. Qed.

(* executions only see the views of the nodes they pass, and stay inside a region closed under successors *)
Lemma run_stable st st' (R : nat -> Prop) :
  (forall n t, R n -> In t (outs_of (b_graph st) n) -> R t) -> same_on R st st' ->
  forall n c tr, Run0 (b_graph st) n c tr -> R n ->
    Run0 (b_graph st') n c tr /\ output_of st' tr = output_of st tr.
Proof.
  intros Cl Sm n c tr H.
  induction H using Run0_mind with
    (P0 := fun l c trs _ => (forall t, In t l -> R t) ->
             RunAll0 (b_graph st') l c trs /\ output_of st' trs = output_of st trs); intros Rn.
  - pose proof (Sm n Rn) as V. destruct (view_eq _ _ _ _ _ V) as (K & O & P).
    split; [eapply R0_leaf; rewrite K; eauto|]. unfold output_of. simpl. rewrite P. reflexivity.
  - pose proof (Sm n Rn) as V. destruct (view_eq _ _ _ _ _ V) as (K & O & P).
    assert (Rt : R t) by (eapply Cl; eauto; eapply nth_error_In; eauto).
    destruct (IHRun0 Rt) as [A B]. split.
    + eapply R0_one; [rewrite K; eauto|rewrite O; eauto|exact A].
    + change (n :: tr) with ([n] ++ tr). rewrite !output_of_app, B. f_equal. unfold output_of. simpl. rewrite P. reflexivity.
  - pose proof (Sm n Rn) as V. destruct (view_eq _ _ _ _ _ V) as (K & O & P).
    destruct IHRun0 as [A B]; [intros t Ht; eapply Cl; eauto|]. split.
    + eapply R0_all; [rewrite K; eauto|rewrite O; exact A].
    + change (n :: trs) with ([n] ++ trs). rewrite !output_of_app, B. f_equal. unfold output_of. simpl. rewrite P. reflexivity.
  - split; [constructor|reflexivity].
  - destruct (IHRun0 (Rn t (or_introl eq_refl))) as [A B].
    destruct IHRun1 as [A' B']; [intros x Hx; apply Rn; right; exact Hx|].
    split; [constructor; auto|]. rewrite !output_of_app, B, B'. reflexivity.
Qed.

Lemma same_on_sym (R : nat -> Prop) st st' : same_on R st st' -> same_on R st' st.
Proof. intros H m Rm. symmetry. apply H. exact Rm. Qed.

Lemma lang_stable st st' (R : nat -> Prop) n w :
  (forall n t, R n -> In t (outs_of (b_graph st) n) -> R t) -> same_on R st st' -> R n ->
  lang st' n w -> lang st n w.
Proof.
  intros Cl Sm Rn (c & tr & H & ->).
  assert (Cl' : forall n t, R n -> In t (outs_of (b_graph st') n) -> R t).
  { intros m t Rm Ht. pose proof (Sm m Rm) as V. destruct (view_eq _ _ _ _ _ V) as (K & O & P). rewrite O in Ht. eauto. }
  destruct (run_stable st' st R Cl' (same_on_sym R st st' Sm) n c tr H Rn) as [A B].
  exists c, tr. split; auto.
Qed.

(* ---------- what the language of a node is, from its view ---------- *)
Lemma output_of_single st n : output_of st [n] = match pay_of st n with PChars s => s | _ => [] end.
Proof. unfold output_of. simpl. rewrite app_nil_r. reflexivity. Qed.

Lemma lang_leaf st n v p w : view st n = (KLeaf v, [], p) -> lang st n w ->
  w = match p with PChars s => s | _ => [] end.
Proof.
  intros V (c & tr & H & ->). destruct (view_eq _ _ _ _ _ V) as (K & O & P).
  inversion H; subst; try congruence. rewrite output_of_single, ?O. reflexivity.
Qed.

Lemma lang_one st n noop l w : view st n = (KDec false noop, l, PNone) -> lang st n w ->
  exists t, In t l /\ lang st t w.
Proof.
  intros V (c & tr & H & ->). destruct (view_eq _ _ _ _ _ V) as (K & O & P).
  inversion H; subst; try congruence.
  exists t. split; [eapply nth_error_In; eauto|]. exists c0, tr0. split; auto.
  change (n :: tr0) with ([n] ++ tr0). rewrite output_of_app, output_of_single, P. reflexivity.
Qed.

Lemma lang_all st n noop l w : view st n = (KDec true noop, l, PNone) -> lang st n w -> langs st l w.
Proof.
  intros V (c & tr & H & ->). destruct (view_eq _ _ _ _ _ V) as (K & O & P).
  inversion H; subst; try congruence.
  exists c, trs. split; auto.
  change (n :: trs) with ([n] ++ trs). rewrite output_of_app, output_of_single, P. reflexivity.
Qed.

Lemma langs_nil st w : langs st [] w -> w = [].
Proof. intros (c & trs & H & ->). inversion H; subst. reflexivity. Qed.

Lemma langs_cons st t ts w : langs st (t :: ts) w ->
  exists w1 w2, lang st t w1 /\ langs st ts w2 /\ w = w1 ++ w2.
Proof.
  intros (c & trs & H & ->). inversion H; subst.
  exists (output_of st tr), (output_of st trs0). split; [exists c1, tr; auto|]. split; [exists c2, trs0; auto|].
  apply output_of_app.
Qed.

Lemma langs_app st l1 : forall l2 w, langs st (l1 ++ l2) w ->
  exists w1 w2, langs st l1 w1 /\ langs st l2 w2 /\ w = w1 ++ w2.
Proof.
  induction l1 as [|t l1 IH]; intros l2 w H; simpl in H.
  - exists [], w. split; [exists [], []; split; [constructor|reflexivity]|]. split; auto.
  - apply langs_cons in H. destruct H as (wa & wb & Ha & Hb & ->).
    destruct (IH _ _ Hb) as (w1 & w2 & H1 & H2 & ->).
    exists (wa ++ w1), w2. split; [|split; [exact H2|rewrite app_assoc; reflexivity]].
    destruct Ha as (c1 & tr1 & R1 & ->). destruct H1 as (c2 & trs2 & R2 & ->).
    exists (c1 ++ c2), (tr1 ++ trs2). split; [constructor; auto|]. symmetry. apply output_of_app.
Qed.

Lemma langs_repeat st it : forall k w, langs st (repeat it k) w ->
  exists ws, length ws = k /\ Forall (lang st it) ws /\ w = concat ws.
Proof.
  induction k as [|k IH]; intros w H; simpl in H.
  - apply langs_nil in H. subst. exists []. auto.
  - apply langs_cons in H. destruct H as (w1 & w2 & H1 & H2 & ->).
    destruct (IH _ H2) as (ws & L & F & ->). exists (w1 :: ws). simpl. split; [lia|]. split; auto.
Qed.

(* ---------- the primitive steps of the builder ---------- *)
Lemma add_times_spec k : forall s t st, okst st -> s < len st -> t < len st ->
  let st' := add_times k s t st in
  len st' = len st /\ okst st' /\ same_on (fun m => m <> s) st st' /\
  view st' s = (kind_of (b_graph st) s, outs_of (b_graph st) s ++ repeat t k, pay_of st s).
Proof.
  induction k as [|k IH]; intros s t st Ok Ls Lt; cbn [add_times].
  - split; auto. split; auto. split; [apply same_on_refl|]. cbn [repeat]. rewrite app_nil_r. reflexivity.
  - destruct (add_t_spec s t st Ok Ls Lt) as (L1 & Ok1 & S1 & V1).
    destruct (IH s t (add_t s t st) Ok1 ltac:(cbv beta; lia) ltac:(cbv beta; lia)) as (L2 & Ok2 & S2 & V2).
    split; [lia|]. split; auto. split; [eapply same_on_trans; eauto|].
    rewrite V2. destruct (view_eq _ _ _ _ _ V1) as (K & O & P). rewrite K, O, P. cbn [repeat]. rewrite <- app_assoc. reflexivity.
Qed.

Definition is_one (st : bst) (n : nat) (l : list nat) : Prop := exists noop, view st n = (KDec false noop, l, PNone).

Lemma add_repetition_spec root it times st : okst st -> root < len st -> it < len st ->
  let st' := add_repetition root it times st in
  len st' = S (len st) /\ okst st' /\ same_on (fun m => m < len st /\ m <> root) st st' /\
  view st' (len st) = (KDec true true, repeat it times, PNone) /\
  view st' root = (kind_of (b_graph st) root, outs_of (b_graph st) root ++ [len st], pay_of st root).
Proof.
  intros Ok Lr Li. unfold add_repetition.
  destruct (noop_dec true st) as [st1 sub] eqn:E1. unfold noop_dec in E1.
  destruct (new_node_spec _ _ _ _ _ Ok E1) as (-> & L1 & Ok1 & S1 & V1).
  destruct (add_times_spec times (len st) it st1 Ok1 ltac:(cbv beta; lia) ltac:(cbv beta; lia)) as (L2 & Ok2 & S2 & V2).
  set (st2 := add_times times (len st) it st1) in *.
  destruct (add_t_spec root (len st) st2 Ok2 ltac:(cbv beta; lia) ltac:(cbv beta; lia)) as (L3 & Ok3 & S3 & V3).
  cbv zeta. split; [lia|]. split; auto. split; [|split].
  - intros m [Lm Nm]. rewrite (S3 m Nm). rewrite (S2 m ltac:(cbv beta; lia)). apply S1. exact Lm.
  - rewrite (S3 (len st) ltac:(cbv beta; lia)). rewrite V2. destruct (view_eq _ _ _ _ _ V1) as (K & O & P). rewrite K, O, P. reflexivity.
  - rewrite V3. pose proof (S2 root ltac:(cbv beta; lia)) as A. pose proof (S1 root Lr) as B.
    destruct (view_eq _ _ _ _ _ A) as (K2 & O2 & P2). destruct (view_eq _ _ _ _ _ B) as (K1 & O1 & P1).
    rewrite K2, O2, P2, K1, O1, P1. reflexivity.
Qed.

(* ---------- _repeat: the alternatives hung below the quantifier's decision ---------- *)
Section Repeat.
Variables (st : bst) (root it : nat) (A : nat -> Prop).
Hypothesis Lr : root < len st.
Hypothesis Li : it < len st.

Definition alt_ok (cur : bst) (x : nat) : Prop :=
  len st <= x < len cur /\
  ((view cur x = (KLeaf true, [], PNone) /\ A 0) \/
   (exists k, view cur x = (KDec true true, repeat it k, PNone) /\ A k)).

Definition RInv (cur : bst) : Prop :=
  okst cur /\ len st <= len cur /\ same_on (fun m => m < len st /\ m <> root) st cur /\
  (forall n t, len st <= n -> In t (outs_of (b_graph cur) n) -> t = it) /\
  exists noop l, view cur root = (KDec false noop, l, PNone) /\ forall x, In x l -> alt_ok cur x.

Lemma alt_ok_keep cur cur' x : len cur <= len cur' -> same_on (fun m => m < len cur /\ m <> root) cur cur' ->
  alt_ok cur x -> alt_ok cur' x.
Proof.
  intros L S [[L1 L2] H]. assert (Nx : x < len cur /\ x <> root) by lia.
  split; [lia|]. rewrite (S x Nx). exact H.
Qed.

Lemma stage_leaf cur : RInv cur -> A 0 ->
  RInv (let '(st1, l) := noop_leaf cur in add_t root l st1).
Proof.
  intros (Ok & L & S & On & noop & l & V & Hl) A0.
  destruct (noop_leaf cur) as [st1 lf] eqn:E. unfold noop_leaf in E.
  destruct (new_node_spec _ _ _ _ _ Ok E) as (-> & L1 & Ok1 & S1 & V1).
  destruct (add_t_spec root (len cur) st1 Ok1 ltac:(cbv beta; lia) ltac:(cbv beta; lia)) as (L2 & Ok2 & S2 & V2).
  set (st2 := add_t root (len cur) st1) in *.
  assert (Keep : same_on (fun m => m < len cur /\ m <> root) cur st2).
  { intros m [Lm Nm]. rewrite (S2 m Nm). apply S1. exact Lm. }
  split; [exact Ok2|]. split; [lia|]. split; [|split].
  - intros m [Lm Nm]. rewrite (Keep m ltac:(cbv beta; lia)). apply S. auto.
  - intros n t Ln Ht. destruct (Nat.lt_ge_cases n (len cur)) as [Lc|Lc].
    + pose proof (Keep n ltac:(cbv beta; lia)) as E1. destruct (view_eq _ _ _ _ _ E1) as (_ & O1 & _).
      rewrite O1 in Ht. eapply On; eauto.
    + destruct (Nat.eq_dec n (len cur)) as [->|Ne].
      * pose proof (S2 (len cur) ltac:(cbv beta; lia)) as E1. rewrite V1 in E1. destruct (view_eq _ _ _ _ _ E1) as (_ & O1 & _).
        rewrite O1 in Ht. destruct Ht.
      * rewrite outs_of_out in Ht; [destruct Ht|]. fold (len st2). lia.
  - destruct (view_eq _ _ _ _ _ V) as (K & O & P).
    pose proof (S1 root ltac:(cbv beta; lia)) as B. rewrite V in B. destruct (view_eq _ _ _ _ _ B) as (K1 & O1 & P1).
    exists noop, (l ++ [len cur]). split; [rewrite V2, K1, O1, P1; reflexivity|].
    intros x Hx. apply in_app_or in Hx. destruct Hx as [Hx|[<-|[]]].
    + eapply alt_ok_keep; [|exact Keep|apply Hl; exact Hx]. lia.
    + split; [lia|]. left. split; auto. rewrite (S2 (len cur) ltac:(cbv beta; lia)). exact V1.
Qed.

Lemma stage_rep cur k : RInv cur -> A k -> RInv (add_repetition root it k cur).
Proof.
  intros (Ok & L & S & On & noop & l & V & Hl) Ak.
  destruct (add_repetition_spec root it k cur Ok ltac:(cbv beta; lia) ltac:(cbv beta; lia)) as (L1 & Ok1 & S1 & Vs & Vr).
  set (st2 := add_repetition root it k cur) in *.
  split; [exact Ok1|]. split; [lia|]. split; [|split].
  - intros m [Lm Nm]. rewrite (S1 m ltac:(cbv beta; lia)). apply S. auto.
  - intros n t Ln Ht. destruct (Nat.lt_ge_cases n (len cur)) as [Lc|Lc].
    + pose proof (S1 n ltac:(cbv beta; lia)) as E1. destruct (view_eq _ _ _ _ _ E1) as (_ & O1 & _).
      rewrite O1 in Ht. eapply On; eauto.
    + destruct (Nat.eq_dec n (len cur)) as [->|Ne].
      * destruct (view_eq _ _ _ _ _ Vs) as (_ & O1 & _). rewrite O1 in Ht. apply repeat_spec in Ht. exact Ht.
      * rewrite outs_of_out in Ht; [destruct Ht|]. fold (len st2). lia.
  - destruct (view_eq _ _ _ _ _ V) as (K & O & P).
    exists noop, (l ++ [len cur]). split; [rewrite Vr, K, O, P; reflexivity|].
    intros x Hx. apply in_app_or in Hx. destruct Hx as [Hx|[<-|[]]].
    + eapply alt_ok_keep; [|exact S1|apply Hl; exact Hx]. lia.
    + split; [lia|]. right. exists k. auto.
Qed.

Lemma RInv_lang cur w : RInv cur -> lang cur root w ->
  exists k ws, A k /\ length ws = k /\ Forall (lang cur it) ws /\ w = concat ws.
Proof.
  intros (Ok & L & S & On & noop & l & V & Hl) H.
  destruct (lang_one _ _ _ _ _ V H) as (x & Hx & Lx).
  destruct (Hl x Hx) as [_ [[Vx A0]|(k & Vx & Ak)]].
  - apply (lang_leaf _ _ _ _ _ Vx) in Lx. subst w. exists 0, []. auto.
  - apply (lang_all _ _ _ _ _ Vx) in Lx. apply langs_repeat in Lx. destruct Lx as (ws & Lw & F & ->).
    exists k, ws. auto.
Qed.

End Repeat.

Definition rep_allowed (mn : nat) (mx : option nat) (k : nat) : Prop :=
  let mx' := match mx with None => mn + 2 | Some m => m end in
  (k = 0 /\ (mn = 0 \/ mx' = 0)) \/ (k = mn /\ 0 < mn) \/ (k = mx' /\ mx' <> mn).

Lemma repeat_RInv st root it mn mx : okst st -> root < len st -> it < len st ->
  (exists noop, view st root = (KDec false noop, [], PNone)) ->
  (forall n t, len st <= n -> In t (outs_of (b_graph st) n) -> t = it) ->
  RInv st root it (rep_allowed mn mx) (repeat_ root it (mn, mx) st).
Proof.
  intros Ok Lr Li [noop V] On. unfold repeat_.
  set (mx' := match mx with None => mn + 2 | Some m => m end).
  assert (I0 : RInv st root it (rep_allowed mn mx) st).
  { split; auto. split; auto. split; [apply same_on_refl|]. split; auto. exists noop, []. split; auto. intros x []. }
  set (s1 := if (mn =? 0) || (mx' =? 0) then let '(st0, l) := noop_leaf st in add_t root l st0 else st).
  assert (I1 : RInv st root it (rep_allowed mn mx) s1).
  { unfold s1. destruct ((mn =? 0) || (mx' =? 0)) eqn:E; auto.
    apply stage_leaf; auto. left. split; auto.
    apply orb_true_iff in E. destruct E as [E|E]; apply Nat.eqb_eq in E; auto. }
  set (s2 := if 0 <? mn then add_repetition root it mn s1 else s1).
  assert (I2 : RInv st root it (rep_allowed mn mx) s2).
  { unfold s2. destruct (0 <? mn) eqn:E; auto.
    apply stage_rep; auto. right. left. apply Nat.ltb_lt in E. auto. }
  destruct (mx' =? mn) eqn:E; auto.
  apply stage_rep; auto. right. right. apply Nat.eqb_neq in E. auto.
Qed.

Lemma rep_allowed_count q mn mx k : rep_of q = Ok (mn, mx) -> rep_allowed mn mx k -> count_ok q k.
Proof.
  intros R A. unfold rep_allowed in A.
  destruct q as [| | |n [[m|]|]]; cbn [rep_of] in R.
  - injection R as <- <-. cbn in A. constructor.
  - injection R as <- <-. cbn in A. constructor. lia.
  - injection R as <- <-. cbn in A. constructor. lia.
  - destruct (m <? n) eqn:E; [discriminate|]. injection R as <- <-. apply Nat.ltb_ge in E. cbn in A. constructor. lia.
  - injection R as <- <-. cbn in A. constructor. lia.
  - injection R as <- <-. cbn in A. assert (k = n) by lia. subst. constructor.
Qed.

(* the region [lo, len st) holds the item; with_quant hangs the quantifier's nodes above it *)
Lemma with_quant_spec q it st st' root : okst st -> it < len st ->
  with_quant q it st = Ok (st', root) ->
  okst st' /\ len st <= len st' /\ root < len st' /\ (root = it \/ root = len st) /\
  same_on (fun m => m < len st) st st' /\
  (forall n t, len st <= n -> In t (outs_of (b_graph st') n) -> t = it \/ len st <= t) /\
  (forall w, lang st' root w ->
     match q with
     | None => root = it /\ lang st' it w
     | Some q0 => exists ws, count_ok q0 (length ws) /\ Forall (lang st' it) ws /\ w = concat ws
     end).
Proof.
  intros Ok Li H. unfold with_quant in H. destruct q as [q0|].
  - destruct (rep_of q0) as [[mn mx]| | |] eqn:R; cbn [bind] in H; try discriminate.
    destruct (noop_dec false st) as [st1 r] eqn:E. unfold noop_dec in E.
    destruct (new_node_spec _ _ _ _ _ Ok E) as (-> & L1 & Ok1 & S1 & V1).
    assert (EE : st' = repeat_ (len st) it (mn, mx) st1 /\ root = len st) by (inversion H; auto).
    destruct EE as [-> ->]. clear H.
    assert (On1 : forall n t, len st1 <= n -> In t (outs_of (b_graph st1) n) -> t = it).
    { intros n t Ln Ht. rewrite outs_of_out in Ht; [destruct Ht|]. exact Ln. }
    pose proof (repeat_RInv st1 (len st) it mn mx Ok1 ltac:(cbv beta; lia) ltac:(cbv beta; lia) (ex_intro _ true V1) On1) as RI.
    pose proof RI as (Ok2 & L2 & S2 & On2 & noop & l & V2 & Hl).
    split; auto. split; [lia|]. split; [lia|]. split; [right; reflexivity|]. split; [|split].
    + intros m Lm. rewrite (S2 m ltac:(cbv beta; lia)). apply S1. exact Lm.
    + intros n t Ln Ht. destruct (Nat.eq_dec n (len st)) as [->|Ne].
      * right. destruct (view_eq _ _ _ _ _ V2) as (_ & O & _). rewrite O in Ht.
        destruct (Hl t Ht) as [[A _] _]. lia.
      * left. eapply On2; [|exact Ht]. lia.
    + intros w Hw. destruct (RInv_lang _ _ _ _ _ _ RI Hw) as (k & ws & Ak & Lw & F & ->).
      exists ws. split; auto. rewrite Lw. eapply rep_allowed_count; eauto.
  - inversion H; subst st' root. split; auto. split; auto. split; auto. split; auto. split; [apply same_on_refl|].
    split; auto. intros n t Ln Ht. rewrite outs_of_out in Ht; [destruct Ht|exact Ln].
Qed.

(* ---------- builders: what a converter promises about the nodes it adds ---------- *)
Definition cfrom (st : bst) (lo : nat) : Prop :=
  forall n t, lo <= n -> In t (outs_of (b_graph st) n) -> lo <= t.

Definition bspec (st st' : bst) (root : nat) (L : str -> Prop) : Prop :=
  okst st' /\ len st <= root /\ root < len st' /\ same_on (fun m => m < len st) st st' /\
  cfrom st' (len st) /\ (forall w, lang st' root w -> L w).

Lemma lang_later st1 st2 lo n w : okst st1 -> cfrom st1 lo ->
  same_on (fun m => lo <= m < len st1) st1 st2 -> lo <= n < len st1 -> lang st2 n w -> lang st1 n w.
Proof.
  intros [_ Ot] Cf Sm Rn H.
  eapply (lang_stable st1 st2 (fun m => lo <= m < len st1)); eauto.
  intros m t [L1 L2] Ht. split; [eapply Cf; eauto|eapply Ot; eauto].
Qed.

Lemma Forall2_weaken {A B} (P Q : A -> B -> Prop) l1 l2 :
  (forall a b, P a b -> Q a b) -> Forall2 P l1 l2 -> Forall2 Q l1 l2.
Proof. intros I H. induction H; constructor; auto. Qed.

Fixpoint add_children {A} (B : A -> bst -> res (bst * nat)) (parent : nat) (l : list A) (st : bst) : res bst :=
  match l with
  | [] => Ok st
  | a :: r => do '(st, c) <- B a st; add_children B parent r (add_t parent c st)
  end.

Lemma add_children_spec {A} (B : A -> bst -> res (bst * nat)) (L : A -> str -> Prop) parent :
  forall l st st' k l0 p,
    (forall a, In a l -> forall st st' c, okst st -> B a st = Ok (st', c) -> bspec st st' c (L a)) ->
    okst st -> parent < len st -> view st parent = (k, l0, p) ->
    add_children B parent l st = Ok st' ->
    okst st' /\ len st <= len st' /\ same_on (fun m => m < len st /\ m <> parent) st st' /\ cfrom st' (len st) /\
    exists cs, view st' parent = (k, l0 ++ cs, p) /\
               Forall2 (fun a c => len st <= c /\ forall w, lang st' c w -> L a w) l cs.
Proof.
  induction l as [|a r IH]; intros st st' k l0 p HB Ok Lp V H; cbn [add_children] in H.
  - inversion H; subst st'. split; auto. split; auto. split; [apply same_on_refl|]. split.
    + intros n t Ln Ht. rewrite outs_of_out in Ht; [destruct Ht|exact Ln].
    + exists []. rewrite app_nil_r. split; auto.
  - destruct (B a st) as [[st1 c]| | |] eqn:E; cbn [bind] in H; try discriminate.
    destruct (HB a (or_introl eq_refl) st st1 c Ok E) as (Ok1 & Lc1 & Lc2 & S1 & Cf1 & La).
    destruct (add_t_spec parent c st1 Ok1 ltac:(cbv beta; lia) Lc2) as (L2 & Ok2 & S2 & V2).
    set (st2 := add_t parent c st1) in *.
    pose proof (S1 parent Lp) as Vp. rewrite V in Vp. destruct (view_eq _ _ _ _ _ Vp) as (K1 & O1 & P1).
    rewrite K1, O1, P1 in V2.
    destruct (IH st2 st' k (l0 ++ [c]) p (fun a' Ha' => HB a' (or_intror Ha')) Ok2 ltac:(cbv beta; lia) V2 H)
      as (Ok' & L' & S' & Cf' & cs & V' & F').
    assert (S12 : same_on (fun m => len st <= m < len st1) st1 st').
    { intros m [La1 La2]. rewrite (S' m ltac:(cbv beta; lia)). apply S2. cbv beta. lia. }
    split; auto. split; [lia|]. split; [|split].
    + intros m [Lm Nm]. rewrite (S' m ltac:(cbv beta; lia)). rewrite (S2 m Nm). apply S1. exact Lm.
    + intros n t Ln Ht. destruct (Nat.lt_ge_cases n (len st2)) as [Lc|Lc].
      * pose proof (S12 n ltac:(cbv beta; lia)) as E1. destruct (view_eq _ _ _ _ _ E1) as (_ & O & _).
        rewrite O in Ht. eapply Cf1; eauto.
      * specialize (Cf' n t Lc Ht). lia.
    + exists (c :: cs). rewrite <- app_assoc in V'. split; [exact V'|].
      constructor.
      * split; auto. intros w Hw. apply La. eapply (lang_later st1 st' (len st)); eauto.
      * eapply Forall2_weaken; [|exact F']. intros a' c' [Lc' Hc']. split; [lia|exact Hc'].
Qed.

(* ---------- the converters ---------- *)
Definition atom (i : item) (st : bst) : res (bst * nat) :=
  match i with
  | IChar c _ =>
      let '(st, mi) := noop_dec false st in
      let '(st, l) := char_leaf c st in
      Ok (add_t mi l st, mi)
  | IClass c0 cs _ =>
      let '(st, mi) := noop_dec false st in
      let '(st, mcc) := noop_dec false st in
      let '(st, cg) := noop_dec false st in
      do st <- conv_citems cg (c0 :: cs) st;
      Ok (add_t mi mcc (add_t mcc cg st), mi)
  | IGroup _ r _ => conv_expr r st
  end.

Lemma conv_item_eq i st :
  conv_item i st =
  let '(st1, wrap) := noop_dec false st in
  do '(st5, inner) <- (do '(st4, it) <- atom i st1; with_quant (quant_of i) it st4);
  Ok (add_t wrap inner st5, wrap).
Proof.
  destruct i as [c q|c0 cs q|nc r q]; cbn [conv_item atom quant_of noop_dec new_node char_leaf bind].
  - reflexivity.
  - destruct (conv_citems _ _ _); reflexivity.
  - destruct (conv_expr r _) as [[st4 e]| | |]; reflexivity.
Qed.

Lemma item_from_atom i :
  (forall st st' it, okst st -> atom i st = Ok (st', it) -> bspec st st' it (amatches i)) ->
  forall st st' root, okst st -> conv_item i st = Ok (st', root) -> bspec st st' root (imatches i).
Proof.
  intros HA st st' root Ok H. rewrite conv_item_eq in H.
  destruct (noop_dec false st) as [st1 wrap] eqn:E1. unfold noop_dec in E1.
  destruct (new_node_spec _ _ _ _ _ Ok E1) as (-> & L1 & Ok1 & S1 & V1).
  destruct (atom i st1) as [[st4 it]| | |] eqn:EA; cbn [bind] in H; try discriminate.
  destruct (HA st1 st4 it Ok1 EA) as (Ok4 & Li1 & Li2 & S4 & Cf4 & La).
  destruct (with_quant (quant_of i) it st4) as [[st5 inner]| | |] eqn:EQ; cbn [bind] in H; try discriminate.
  destruct (with_quant_spec _ _ _ _ _ Ok4 Li2 EQ) as (Ok5 & L5 & Lin & Hin & S5 & O5 & Lq).
  assert (EE : st' = add_t (len st) inner st5 /\ root = len st) by (inversion H; auto).
  destruct EE as [-> ->]. clear H.
  destruct (add_t_spec (len st) inner st5 Ok5 ltac:(cbv beta; lia) Lin) as (L6 & Ok6 & S6 & V6).
  set (st6 := add_t (len st) inner st5) in *.
  assert (Vw5 : view st5 (len st) = (KDec false true, [], PNone)).
  { rewrite (S5 (len st) ltac:(cbv beta; lia)). rewrite (S4 (len st) ltac:(cbv beta; lia)). exact V1. }
  destruct (view_eq _ _ _ _ _ Vw5) as (K5 & O5' & P5). rewrite K5, O5', P5 in V6. cbn [app] in V6.
  assert (Cf5 : cfrom st5 (len st1)).
  { intros n t Ln Ht. destruct (Nat.lt_ge_cases n (len st4)) as [Lc|Lc].
    - pose proof (S5 n Lc) as E. destruct (view_eq _ _ _ _ _ E) as (_ & O & _). rewrite O in Ht. eapply Cf4; eauto.
    - destruct (O5 n t Lc Ht) as [->|X]; lia. }
  assert (Lin1 : len st1 <= inner) by (destruct Hin as [->| ->]; lia).
  split; [exact Ok6|]. split; [lia|]. split; [lia|]. split; [|split].
  - intros m Lm. rewrite (S6 m ltac:(cbv beta; lia)). rewrite (S5 m ltac:(cbv beta; lia)). rewrite (S4 m ltac:(cbv beta; lia)).
    apply S1. exact Lm.
  - intros n t Ln Ht. destruct (Nat.eq_dec n (len st)) as [->|Ne].
    + destruct (view_eq _ _ _ _ _ V6) as (_ & O & _). rewrite O in Ht. destruct Ht as [<-|[]]. lia.
    + pose proof (S6 n Ne) as E. destruct (view_eq _ _ _ _ _ E) as (_ & O & _). rewrite O in Ht.
      specialize (Cf5 n t ltac:(cbv beta; lia) Ht). lia.
  - intros w Hw. destruct (lang_one _ _ _ _ _ V6 Hw) as (t & [<-|[]] & Ht).
    assert (H5 : lang st5 inner w).
    { eapply (lang_later st5 st6 (len st1)); eauto. intros m [A B]. apply S6. lia. }
    assert (Back : forall w', lang st5 it w' -> amatches i w').
    { intros w' Hw'. apply La. eapply (lang_later st4 st5 (len st1)); eauto. intros m [A B]. apply S5. exact B. }
    specialize (Lq w H5). destruct (quant_of i) as [q0|] eqn:Q.
    + destruct Lq as (ws & Cn & F & ->). eapply M_rep; eauto.
      eapply Forall_impl; [|exact F]. exact Back.
    + destruct Lq as [-> Hit]. apply M_noq; auto.
Qed.

Lemma atom_char c q st st' it : okst st -> atom (IChar c q) st = Ok (st', it) ->
  bspec st st' it (amatches (IChar c q)).
Proof.
  intros Ok H. cbn [atom] in H.
  destruct (noop_dec false st) as [st1 mi] eqn:E1. unfold noop_dec in E1.
  destruct (new_node_spec _ _ _ _ _ Ok E1) as (-> & L1 & Ok1 & S1 & V1).
  destruct (char_leaf c st1) as [st2 l] eqn:E2. unfold char_leaf in E2.
  destruct (new_node_spec _ _ _ _ _ Ok1 E2) as (-> & L2 & Ok2 & S2 & V2).
  assert (EE : st' = add_t (len st) (len st1) st2 /\ it = len st) by (inversion H; auto).
  destruct EE as [-> ->]. clear H.
  destruct (add_t_spec (len st) (len st1) st2 Ok2 ltac:(cbv beta; lia) ltac:(cbv beta; lia)) as (L3 & Ok3 & S3 & V3).
  set (st3 := add_t (len st) (len st1) st2) in *.
  pose proof (S2 (len st) ltac:(cbv beta; lia)) as Vm. rewrite V1 in Vm.
  destruct (view_eq _ _ _ _ _ Vm) as (K & O & P). rewrite K, O, P in V3. cbn [app] in V3.
  assert (Vl : view st3 (len st1) = (KLeaf true, [], PChars [c])).
  { rewrite (S3 (len st1) ltac:(cbv beta; lia)). exact V2. }
  split; [exact Ok3|]. split; [lia|]. split; [lia|]. split; [|split].
  - intros m Lm. rewrite (S3 m ltac:(cbv beta; lia)). rewrite (S2 m ltac:(cbv beta; lia)). apply S1. exact Lm.
  - intros n t Ln Ht. destruct (Nat.eq_dec n (len st)) as [->|Ne].
    + destruct (view_eq _ _ _ _ _ V3) as (_ & O3 & _). rewrite O3 in Ht. destruct Ht as [<-|[]]. lia.
    + destruct (Nat.eq_dec n (len st1)) as [->|Ne1].
      * destruct (view_eq _ _ _ _ _ Vl) as (_ & O3 & _). rewrite O3 in Ht. destruct Ht.
      * rewrite outs_of_out in Ht; [destruct Ht|]. fold (len st3). lia.
  - intros w Hw. destruct (lang_one _ _ _ _ _ V3 Hw) as (t & [<-|[]] & Ht).
    rewrite (lang_leaf _ _ _ _ _ Vl Ht). constructor.
Qed.

Lemma conv_citem_spec ci st st' root : okst st -> conv_citem ci st = Ok (st', root) ->
  bspec st st' root (fun w => exists c, citem_has ci c /\ w = [c]).
Proof.
  intros Ok H. unfold conv_citem in H.
  destruct (noop_dec false st) as [st1 r0] eqn:E1. unfold noop_dec in E1.
  destruct (new_node_spec _ _ _ _ _ Ok E1) as (-> & L1 & Ok1 & S1 & V1).
  destruct ci as [c|a b].
  - destruct (char_leaf c st1) as [st2 l] eqn:E2. unfold char_leaf in E2.
    destruct (new_node_spec _ _ _ _ _ Ok1 E2) as (-> & L2 & Ok2 & S2 & V2).
    assert (EE : st' = add_t (len st) (len st1) st2 /\ root = len st) by (inversion H; auto).
    destruct EE as [-> ->]. clear H.
    destruct (add_t_spec (len st) (len st1) st2 Ok2 ltac:(cbv beta; lia) ltac:(cbv beta; lia)) as (L3 & Ok3 & S3 & V3).
    set (st3 := add_t (len st) (len st1) st2) in *.
    pose proof (S2 (len st) ltac:(cbv beta; lia)) as Vm. rewrite V1 in Vm.
    destruct (view_eq _ _ _ _ _ Vm) as (K & O & P). rewrite K, O, P in V3. cbn [app] in V3.
    assert (Vl : view st3 (len st1) = (KLeaf true, [], PChars [c])).
    { rewrite (S3 (len st1) ltac:(cbv beta; lia)). exact V2. }
    split; [exact Ok3|]. split; [lia|]. split; [lia|]. split; [|split].
    + intros m Lm. rewrite (S3 m ltac:(cbv beta; lia)). rewrite (S2 m ltac:(cbv beta; lia)). apply S1. exact Lm.
    + intros n t Ln Ht. destruct (Nat.eq_dec n (len st)) as [->|Ne].
      * destruct (view_eq _ _ _ _ _ V3) as (_ & O3 & _). rewrite O3 in Ht. destruct Ht as [<-|[]]. lia.
      * destruct (Nat.eq_dec n (len st1)) as [->|Ne1].
        -- destruct (view_eq _ _ _ _ _ Vl) as (_ & O3 & _). rewrite O3 in Ht. destruct Ht.
        -- rewrite outs_of_out in Ht; [destruct Ht|]. fold (len st3). lia.
    + intros w Hw. destruct (lang_one _ _ _ _ _ V3 Hw) as (t & [<-|[]] & Ht).
      rewrite (lang_leaf _ _ _ _ _ Vl Ht). exists c. split; [reflexivity|reflexivity].
  - destruct (b <? a) eqn:Eba; [discriminate|]. apply Nat.ltb_ge in Eba.
    destruct (noop_dec false st1) as [st2 rr] eqn:E2. unfold noop_dec in E2.
    destruct (new_node_spec _ _ _ _ _ Ok1 E2) as (-> & L2 & Ok2 & S2 & V2).
    destruct (char_leaf a st2) as [st3 l1] eqn:E3. unfold char_leaf in E3.
    destruct (new_node_spec _ _ _ _ _ Ok2 E3) as (-> & L3 & Ok3 & S3 & V3).
    destruct (add_t_spec (len st1) (len st2) st3 Ok3 ltac:(cbv beta; lia) ltac:(cbv beta; lia)) as (L4 & Ok4 & S4 & V4).
    set (st4 := add_t (len st1) (len st2) st3) in *.
    destruct (char_leaf b st4) as [st5 l2] eqn:E5. unfold char_leaf in E5.
    destruct (new_node_spec _ _ _ _ _ Ok4 E5) as (-> & L5 & Ok5 & S5 & V5).
    destruct (add_t_spec (len st1) (len st4) st5 Ok5 ltac:(cbv beta; lia) ltac:(cbv beta; lia)) as (L6 & Ok6 & S6 & V6).
    set (st6 := add_t (len st1) (len st4) st5) in *.
    assert (EE : st' = add_t (len st) (len st1) st6 /\ root = len st) by (inversion H; auto).
    destruct EE as [-> ->]. clear H.
    destruct (add_t_spec (len st) (len st1) st6 Ok6 ltac:(cbv beta; lia) ltac:(cbv beta; lia)) as (L7 & Ok7 & S7 & V7).
    set (st7 := add_t (len st) (len st1) st6) in *.
    (* views in the final state *)
    assert (Vroot : view st7 (len st) = (KDec false true, [len st1], PNone)).
    { rewrite V7.
      pose proof (S6 (len st) ltac:(cbv beta; lia)) as A6. pose proof (S5 (len st) ltac:(cbv beta; lia)) as A5.
      pose proof (S4 (len st) ltac:(cbv beta; lia)) as A4. pose proof (S3 (len st) ltac:(cbv beta; lia)) as A3.
      pose proof (S2 (len st) ltac:(cbv beta; lia)) as A2.
      rewrite A5, A4, A3, A2, V1 in A6. destruct (view_eq _ _ _ _ _ A6) as (K & O & P). rewrite K, O, P. reflexivity. }
    assert (Vrr4 : view st4 (len st1) = (KDec false true, [len st2], PNone)).
    { rewrite V4. pose proof (S3 (len st1) ltac:(cbv beta; lia)) as A3. rewrite V2 in A3.
      destruct (view_eq _ _ _ _ _ A3) as (K & O & P). rewrite K, O, P. reflexivity. }
    assert (Vrr : view st7 (len st1) = (KDec false true, [len st2; len st4], PNone)).
    { rewrite (S7 (len st1) ltac:(cbv beta; lia)). rewrite V6.
      pose proof (S5 (len st1) ltac:(cbv beta; lia)) as A5. rewrite Vrr4 in A5.
      destruct (view_eq _ _ _ _ _ A5) as (K & O & P). rewrite K, O, P. reflexivity. }
    assert (Vl1 : view st7 (len st2) = (KLeaf true, [], PChars [a])).
    { rewrite (S7 (len st2) ltac:(cbv beta; lia)). rewrite (S6 (len st2) ltac:(cbv beta; lia)).
      rewrite (S5 (len st2) ltac:(cbv beta; lia)). rewrite (S4 (len st2) ltac:(cbv beta; lia)). exact V3. }
    assert (Vl2 : view st7 (len st4) = (KLeaf true, [], PChars [b])).
    { rewrite (S7 (len st4) ltac:(cbv beta; lia)). rewrite (S6 (len st4) ltac:(cbv beta; lia)). exact V5. }
    split; [exact Ok7|]. split; [lia|]. split; [lia|]. split; [|split].
    + intros m Lm. rewrite (S7 m ltac:(cbv beta; lia)). rewrite (S6 m ltac:(cbv beta; lia)). rewrite (S5 m ltac:(cbv beta; lia)).
      rewrite (S4 m ltac:(cbv beta; lia)). rewrite (S3 m ltac:(cbv beta; lia)). rewrite (S2 m ltac:(cbv beta; lia)). apply S1. exact Lm.
    + intros n t Ln Ht.
      destruct (Nat.eq_dec n (len st)) as [->|N0]; [destruct (view_eq _ _ _ _ _ Vroot) as (_ & O & _); rewrite O in Ht; destruct Ht as [<-|[]]; lia|].
      destruct (Nat.eq_dec n (len st1)) as [->|N1]; [destruct (view_eq _ _ _ _ _ Vrr) as (_ & O & _); rewrite O in Ht; destruct Ht as [<-|[<-|[]]]; lia|].
      destruct (Nat.eq_dec n (len st2)) as [->|N2]; [destruct (view_eq _ _ _ _ _ Vl1) as (_ & O & _); rewrite O in Ht; destruct Ht|].
      destruct (Nat.eq_dec n (len st4)) as [->|N4]; [destruct (view_eq _ _ _ _ _ Vl2) as (_ & O & _); rewrite O in Ht; destruct Ht|].
      rewrite outs_of_out in Ht; [destruct Ht|]. fold (len st7). lia.
    + intros w Hw. destruct (lang_one _ _ _ _ _ Vroot Hw) as (t & [<-|[]] & Ht).
      destruct (lang_one _ _ _ _ _ Vrr Ht) as (t2 & [<-|[<-|[]]] & Ht2).
      * rewrite (lang_leaf _ _ _ _ _ Vl1 Ht2). exists a. split; [simpl; lia|reflexivity].
      * rewrite (lang_leaf _ _ _ _ _ Vl2 Ht2). exists b. split; [simpl; lia|reflexivity].
Qed.

Lemma conv_citems_eq cg : forall l st, conv_citems cg l st = add_children conv_citem cg l st.
Proof. induction l as [|ci r IH]; intros st; cbn [conv_citems add_children]; auto. destruct (conv_citem ci st) as [[st1 n]| | |]; cbn [bind]; auto. Qed.

Lemma atom_class c0 cs q st st' it : okst st -> atom (IClass c0 cs q) st = Ok (st', it) ->
  bspec st st' it (amatches (IClass c0 cs q)).
Proof.
  intros Ok H. cbn [atom] in H.
  destruct (noop_dec false st) as [st1 mi] eqn:E1. unfold noop_dec in E1.
  destruct (new_node_spec _ _ _ _ _ Ok E1) as (-> & L1 & Ok1 & S1 & V1).
  destruct (noop_dec false st1) as [st2 mcc] eqn:E2. unfold noop_dec in E2.
  destruct (new_node_spec _ _ _ _ _ Ok1 E2) as (-> & L2 & Ok2 & S2 & V2).
  destruct (noop_dec false st2) as [st3 cg] eqn:E3. unfold noop_dec in E3.
  destruct (new_node_spec _ _ _ _ _ Ok2 E3) as (-> & L3 & Ok3 & S3 & V3).
  rewrite conv_citems_eq in H.
  destruct (add_children conv_citem (len st2) (c0 :: cs) st3) as [st4| | |] eqn:EC; cbn [bind] in H; try discriminate.
  destruct (add_children_spec conv_citem (fun ci w => exists c, citem_has ci c /\ w = [c]) (len st2)
              (c0 :: cs) st3 st4 _ _ _ (fun a _ s s' c => conv_citem_spec a s s' c) Ok3 ltac:(cbv beta; lia) V3 EC)
    as (Ok4 & L4 & S4 & Cf4 & chs & Vcg & F).
  cbn [app] in Vcg.
  destruct (add_t_spec (len st1) (len st2) st4 Ok4 ltac:(cbv beta; lia) ltac:(cbv beta; lia)) as (L5 & Ok5 & S5 & V5).
  set (st5 := add_t (len st1) (len st2) st4) in *.
  assert (EE : st' = add_t (len st) (len st1) st5 /\ it = len st) by (inversion H; auto).
  destruct EE as [-> ->]. clear H.
  destruct (add_t_spec (len st) (len st1) st5 Ok5 ltac:(cbv beta; lia) ltac:(cbv beta; lia)) as (L6 & Ok6 & S6 & V6).
  set (st6 := add_t (len st) (len st1) st5) in *.
  assert (Vmi : view st6 (len st) = (KDec false true, [len st1], PNone)).
  { rewrite V6. pose proof (S5 (len st) ltac:(cbv beta; lia)) as A5. pose proof (S4 (len st) ltac:(cbv beta; lia)) as A4.
    pose proof (S3 (len st) ltac:(cbv beta; lia)) as A3. pose proof (S2 (len st) ltac:(cbv beta; lia)) as A2.
    rewrite A4, A3, A2, V1 in A5. destruct (view_eq _ _ _ _ _ A5) as (K & O & P). rewrite K, O, P. reflexivity. }
  assert (Vmcc : view st6 (len st1) = (KDec false true, [len st2], PNone)).
  { rewrite (S6 (len st1) ltac:(cbv beta; lia)). rewrite V5.
    pose proof (S4 (len st1) ltac:(cbv beta; lia)) as A4. pose proof (S3 (len st1) ltac:(cbv beta; lia)) as A3.
    rewrite A3, V2 in A4. destruct (view_eq _ _ _ _ _ A4) as (K & O & P). rewrite K, O, P. reflexivity. }
  assert (Vcg6 : view st6 (len st2) = (KDec false true, chs, PNone)).
  { rewrite (S6 (len st2) ltac:(cbv beta; lia)). rewrite (S5 (len st2) ltac:(cbv beta; lia)). exact Vcg. }
  assert (S46 : same_on (fun m => len st3 <= m < len st4) st4 st6).
  { intros m [A B]. rewrite (S6 m ltac:(cbv beta; lia)). apply S5. cbv beta. lia. }
  split; [exact Ok6|]. split; [lia|]. split; [lia|]. split; [|split].
  - intros m Lm. rewrite (S6 m ltac:(cbv beta; lia)). rewrite (S5 m ltac:(cbv beta; lia)). rewrite (S4 m ltac:(cbv beta; lia)).
    rewrite (S3 m ltac:(cbv beta; lia)). rewrite (S2 m ltac:(cbv beta; lia)). apply S1. exact Lm.
  - intros n t Ln Ht.
    destruct (Nat.eq_dec n (len st)) as [->|N0]; [destruct (view_eq _ _ _ _ _ Vmi) as (_ & O & _); rewrite O in Ht; destruct Ht as [<-|[]]; lia|].
    destruct (Nat.eq_dec n (len st1)) as [->|N1]; [destruct (view_eq _ _ _ _ _ Vmcc) as (_ & O & _); rewrite O in Ht; destruct Ht as [<-|[]]; lia|].
    destruct (Nat.eq_dec n (len st2)) as [->|N2].
    { destruct (view_eq _ _ _ _ _ Vcg6) as (_ & O & _). rewrite O in Ht.
      clear - F Ht L1 L2 L3. induction F as [|a c l' cs' [Hc _] F' IHF]; [destruct Ht|]. destruct Ht as [<-|Ht]; [lia|auto]. }
    destruct (Nat.lt_ge_cases n (len st4)) as [Lc|Lc].
    + pose proof (S46 n ltac:(cbv beta; lia)) as E. destruct (view_eq _ _ _ _ _ E) as (_ & O & _). rewrite O in Ht.
      specialize (Cf4 n t ltac:(cbv beta; lia) Ht). lia.
    + rewrite outs_of_out in Ht; [destruct Ht|]. fold (len st6). lia.
  - intros w Hw. destruct (lang_one _ _ _ _ _ Vmi Hw) as (t & [<-|[]] & Ht).
    destruct (lang_one _ _ _ _ _ Vmcc Ht) as (t2 & [<-|[]] & Ht2).
    destruct (lang_one _ _ _ _ _ Vcg6 Ht2) as (ch & Hch & Lch).
    assert (X : exists ci, In ci (c0 :: cs) /\ exists c, citem_has ci c /\ w = [c]).
    { clear - F Hch Lch Ok4 Cf4 S46 L4 Vcg.
      assert (G : forall l chs', Forall2 (fun a c => len st3 <= c /\ forall w, lang st4 c w -> exists c1, citem_has a c1 /\ w = [c1]) l chs' ->
                  (forall c, In c chs' -> c < len st4) -> In ch chs' -> exists ci, In ci l /\ exists c, citem_has ci c /\ w = [c]).
      { intros l chs' F2. induction F2 as [|a c l' cs' [Hc Hl] F' IHF]; intros Bd Hin; [destruct Hin|].
        destruct Hin as [->|Hin].
        - exists a. split; [left; reflexivity|]. apply Hl.
          eapply (lang_later st4 st6 (len st3)); eauto. split; auto. apply Bd. left. reflexivity.
        - destruct IHF as (ci & Hci & Hx); auto. { intros; apply Bd; right; auto. } exists ci. split; [right; exact Hci|exact Hx]. }
      eapply G; eauto.
      intros c Hc. destruct Ok4 as [_ Ot]. eapply Ot. destruct (view_eq _ _ _ _ _ Vcg) as (_ & O & _). rewrite O. exact Hc. }
    destruct X as (ci & Hci & c & Hc & ->). econstructor; eauto.
Qed.

Fixpoint items_of (s : subexp) : list item :=
  match s with SOne i => [i] | SCons i s' => i :: items_of s' end.

Lemma sub_go_eq root : forall s st,
  (fix go (s0 : subexp) (st2 : bst) {struct s0} : res bst :=
     match s0 with
     | SOne i0 => do x0 <- conv_item i0 st2; let (st3, c0) := x0 in Ok (add_t root c0 st3)
     | SCons i0 s' => do x0 <- conv_item i0 st2; let (st3, c0) := x0 in go s' (add_t root c0 st3)
     end) s st = add_children conv_item root (items_of s) st.
Proof.
  induction s as [i|i s IH]; intros st; cbn [items_of add_children].
  - destruct (conv_item i st) as [[st1 c]| | |]; reflexivity.
  - destruct (conv_item i st) as [[st1 c]| | |]; cbn [bind]; auto.
Qed.

Lemma conv_sub_eq s st :
  conv_sub s st = let '(st1, root) := noop_dec true st in
                  do st' <- add_children conv_item root (items_of s) st1; Ok (st', root).
Proof.
  destruct s as [i|i s]; cbn [conv_sub items_of add_children]; destruct (noop_dec true st) as [st1 root].
  - destruct (conv_item i st1) as [[st2 c]| | |]; reflexivity.
  - destruct (conv_item i st1) as [[st2 c]| | |]; cbn [bind]; auto. rewrite sub_go_eq. reflexivity.
Qed.

Lemma smatches_items : forall s ws, Forall2 imatches (items_of s) ws -> smatches s (concat ws).
Proof.
  induction s as [i|i s IH]; intros ws F; cbn [items_of] in F.
  - inversion F as [|a w l1 l2 Hw F']; subst. inversion F'; subst. cbn [concat]. rewrite app_nil_r. constructor. exact Hw.
  - inversion F as [|a w l1 l2 Hw F']; subst. cbn [concat]. constructor; auto.
Qed.

Lemma langs_children st cs : forall (As : list item) w,
  Forall2 (fun a c => forall w, lang st c w -> imatches a w) As cs -> langs st cs w ->
  exists ws, Forall2 imatches As ws /\ w = concat ws.
Proof.
  intros As w F. revert w. induction F as [|a c l1 l2 Hc F' IH]; intros w H.
  - apply langs_nil in H. subst. exists []. split; constructor.
  - apply langs_cons in H. destruct H as (w1 & w2 & H1 & H2 & ->).
    destruct (IH _ H2) as (ws & Fw & ->). exists (w1 :: ws). split; [constructor; auto|reflexivity].
Qed.

Definition P_item (i : item) : Prop :=
  forall st st' root, okst st -> conv_item i st = Ok (st', root) -> bspec st st' root (imatches i).
Definition P_regex (r : regex) : Prop :=
  forall st st' root, okst st -> conv_expr r st = Ok (st', root) -> bspec st st' root (matches r).
Definition P_sub (s : subexp) : Prop :=
  forall st st' root, okst st -> conv_sub s st = Ok (st', root) -> bspec st st' root (smatches s).

(* a decision created first, children attached afterwards by add_children *)
Lemma parent_children {A} (B : A -> bst -> res (bst * nat)) (L : A -> str -> Prop) all l st st1 root st' :
  (forall a, In a l -> forall st st' c, okst st -> B a st = Ok (st', c) -> bspec st st' c (L a)) ->
  okst st -> noop_dec all st = (st1, root) -> add_children B root l st1 = Ok st' ->
  okst st' /\ root = len st /\ len st < len st' /\ same_on (fun m => m < len st) st st' /\ cfrom st' (len st) /\
  exists cs, view st' root = (KDec all true, cs, PNone) /\
             Forall2 (fun a c => forall w, lang st' c w -> L a w) l cs.
Proof.
  intros HB Ok E1 EC. unfold noop_dec in E1.
  destruct (new_node_spec _ _ _ _ _ Ok E1) as (-> & L1 & Ok1 & S1 & V1).
  destruct (add_children_spec B L (len st) l st1 st' _ _ _ HB Ok1 ltac:(cbv beta; lia) V1 EC) as (Ok' & L' & S' & Cf' & cs & V' & F).
  cbn [app] in V'.
  split; auto. split; auto. split; [lia|]. split; [|split].
  - intros m Lm. rewrite (S' m ltac:(cbv beta; lia)). apply S1. exact Lm.
  - intros n t Ln Ht. destruct (Nat.eq_dec n (len st)) as [->|Ne].
    + destruct (view_eq _ _ _ _ _ V') as (_ & O & _). rewrite O in Ht.
      clear - F Ht L1. induction F as [|a c l' cs' [Hc _] F' IHF]; [destruct Ht|]. destruct Ht as [<-|Ht]; [lia|auto].
    + specialize (Cf' n t ltac:(cbv beta; lia) Ht). lia.
  - exists cs. split; auto. eapply Forall2_weaken; [|exact F]. intros a c [_ H]. exact H.
Qed.

Lemma conv_sub_spec s : (forall i, In i (items_of s) -> P_item i) -> P_sub s.
Proof.
  intros HI st st' root Ok H. rewrite conv_sub_eq in H.
  destruct (noop_dec true st) as [st1 r0] eqn:E1.
  destruct (add_children conv_item r0 (items_of s) st1) as [st2| | |] eqn:EC; cbn [bind] in H; try discriminate.
  inversion H; subst st2 r0. clear H.
  destruct (parent_children conv_item imatches true (items_of s) st st1 root st' HI Ok E1 EC)
    as (Ok' & -> & L' & S' & Cf' & cs & V' & F).
  split; auto. split; [lia|]. split; [lia|]. split; auto. split; auto.
  intros w Hw. apply (lang_all _ _ _ _ _ V') in Hw.
  destruct (langs_children _ _ _ _ F Hw) as (ws & Fw & ->). apply smatches_items. exact Fw.
Qed.

Definition alt_builders (r : regex) : list ((bst -> res (bst * nat)) * (str -> Prop)) :=
  match r with
  | RAlt1 s => [(conv_sub s, smatches s)]
  | RAlt s r' => [(conv_sub s, smatches s); (conv_expr r', matches r')]
  end.

Lemma conv_expr_eq r st :
  conv_expr r st = let '(st1, root) := noop_dec false st in
                   do st' <- add_children (fun a => fst a) root (alt_builders r) st1; Ok (st', root).
Proof.
  destruct r as [s|s r']; cbn [conv_expr alt_builders add_children fst]; destruct (noop_dec false st) as [st1 root].
  - destruct (conv_sub s st1) as [[st2 c]| | |]; reflexivity.
  - destruct (conv_sub s st1) as [[st2 c]| | |]; cbn [bind]; auto.
    destruct (conv_expr r' (add_t root c st2)) as [[st3 c2]| | |]; reflexivity.
Qed.

Lemma conv_expr_spec r :
  (forall a, In a (alt_builders r) -> forall st st' c, okst st -> fst a st = Ok (st', c) -> bspec st st' c (snd a)) ->
  (forall a w, In a (alt_builders r) -> snd a w -> matches r w) -> P_regex r.
Proof.
  intros HB HM st st' root Ok H. rewrite conv_expr_eq in H.
  destruct (noop_dec false st) as [st1 r0] eqn:E1.
  destruct (add_children (fun a => fst a) r0 (alt_builders r) st1) as [st2| | |] eqn:EC; cbn [bind] in H; try discriminate.
  inversion H; subst st2 r0. clear H.
  destruct (parent_children (fun a => fst a) (fun a => snd a) false (alt_builders r) st st1 root st' HB Ok E1 EC)
    as (Ok' & -> & L' & S' & Cf' & cs & V' & F).
  split; auto. split; [lia|]. split; [lia|]. split; auto. split; auto.
  intros w Hw. destruct (lang_one _ _ _ _ _ V' Hw) as (c & Hc & Lc).
  clear - F Hc Lc HM. revert HM F. generalize (alt_builders r) as l. intros l HM F.
  induction F as [|a c' l' cs' Ha F' IHF]; [destruct Hc|].
  destruct Hc as [->|Hc].
  - eapply HM; [left; reflexivity|]. apply Ha. exact Lc.
  - apply IHF; auto. intros a0 w0 Hin. apply HM. right. exact Hin.
Qed.

Scheme regex_mind := Induction for regex Sort Prop
  with subexp_mind := Induction for subexp Sort Prop
  with item_mind := Induction for item Sort Prop.

Theorem conv_expr_lang : forall r, P_regex r.
Proof.
  apply (regex_mind P_regex (fun s => forall i, In i (items_of s) -> P_item i) P_item).
  - (* RAlt1 *) intros s Hs. apply conv_expr_spec.
    + intros a [<-|[]]. cbn [fst snd]. apply conv_sub_spec. exact Hs.
    + intros a w [<-|[]] Hw. cbn [snd] in Hw. constructor. exact Hw.
  - (* RAlt *) intros s Hs r Hr. apply conv_expr_spec.
    + intros a [<-|[<-|[]]]; cbn [fst snd]; [apply conv_sub_spec; exact Hs|exact Hr].
    + intros a w [<-|[<-|[]]] Hw; cbn [snd] in Hw; [apply M_altl|apply M_altr]; exact Hw.
  - (* SOne *) intros i Hi j [<-|[]]. exact Hi.
  - (* SCons *) intros i Hi s Hs j [<-|Hj]; auto.
  - (* IChar *) intros c q. unfold P_item. apply item_from_atom. intros st st' it. apply atom_char.
  - (* IClass *) intros c0 cs q. unfold P_item. apply item_from_atom. intros st st' it. apply atom_class.
  - (* IGroup *) intros nc r Hr q. unfold P_item. apply item_from_atom. intros st st' it Ok H. cbn [atom] in H.
    destruct (Hr st st' it Ok H) as (A & B & C & D & E & F).
    split; [exact A|]. split; [exact B|]. split; [exact C|]. split; [exact D|]. split; [exact E|].
    intros w Hw. constructor. apply F. exact Hw.
Qed.

(* ---------- optimize(): lengths, ranges and payload positions stay ---------- *)
Definition inrange (g : graph) : Prop := forall n t, In t (outs_of g n) -> t < length g.

Lemma opt_range : forall f g vis n g' vis',
  opt f g vis n = Ok (g', vis') -> is_dec g n = true -> inrange g ->
  length g' = length g /\ inrange g' /\ (forall x v, kind_of g' x = KLeaf v -> kind_of g x = KLeaf v).
Proof.
  induction f as [|f IH]; intros g vis n g' vis' H D R; cbn [opt] in H; [discriminate|].
  destruct (mem n vis) eqn:M; [inversion H; subst; auto|].
  set (vis1 := n :: vis) in *. set (mw := chain (length g) g vis1 n) in *.
  set (g1 := if mw =? n then g else splice g n mw) in *.
  assert (P1 : length g1 = length g /\ inrange g1 /\ (forall x v, kind_of g1 x = KLeaf v -> kind_of g x = KLeaf v)).
  { unfold g1. destruct (mw =? n); [auto|].
    assert (K : exists an noopn, kind_of g n = KDec an noopn).
    { unfold is_dec in D. destruct (kind_of g n) as [v|a b|r]; try discriminate. eauto. }
    destruct K as (an & noopn & K).
    destruct (splice_spec g n mw an noopn K (is_dec_lt _ _ D)) as (Other & Kn' & On' & L).
    split; auto. split.
    - intros x t Ht. rewrite L. destruct (Nat.eq_dec x n) as [->|Nx].
      + rewrite On' in Ht. eapply R; eauto.
      + destruct (Other x Nx) as [_ Ox]. rewrite Ox in Ht. eapply R; eauto.
    - intros x v Hx. destruct (Nat.eq_dec x n) as [->|Nx].
      + rewrite Kn' in Hx. discriminate.
      + destruct (Other x Nx) as [Kx _]. rewrite Kx in Hx. exact Hx. }
  assert (G : forall l ga visa gb visb,
             length ga = length g /\ inrange ga /\ (forall x v, kind_of ga x = KLeaf v -> kind_of g x = KLeaf v) ->
             foldM (fun '(g, vis) t => if is_dec g t then opt f g vis t else Ok (g, vis)) l (ga, visa) = Ok (gb, visb) ->
             length gb = length g /\ inrange gb /\ (forall x v, kind_of gb x = KLeaf v -> kind_of g x = KLeaf v)).
  { induction l as [|t l IHl]; intros ga visa gb visb Pa F; cbn [foldM bind] in F.
    - inversion F; subst; auto.
    - destruct (is_dec ga t) eqn:Dt.
      + destruct (opt f ga visa t) as [[g2 vis2]| | |] eqn:E; cbn [bind] in F; try discriminate.
        eapply IHl; [|exact F]. destruct Pa as (La & Ra & Ka).
        destruct (IH _ _ _ _ _ E Dt Ra) as (L2 & R2 & K2).
        split; [congruence|]. split; [exact R2|]. intros x v Hx. apply Ka. apply K2. exact Hx.
      + cbn [bind] in F. eapply IHl; eauto. }
  eapply G; eauto.
Qed.

Lemma optimize_range fuel g root g' : optimize fuel g root = Ok g' -> inrange g ->
  length g' = length g /\ inrange g' /\ (forall x v, kind_of g' x = KLeaf v -> kind_of g x = KLeaf v).
Proof.
  unfold optimize. intros H R. destruct (is_dec g root) eqn:D; [|inversion H; subst; auto].
  destruct (opt fuel g [] root) as [[g2 v2]| | |] eqn:E; cbn [bind] in H; try discriminate.
  inversion H; subst g2. eapply opt_range; eauto.
Qed.

(* characters are only ever attached to leaves *)
Definition payinv (st : bst) : Prop :=
  length (b_pay st) = len st /\ (forall n s, pay_of st n = PChars s -> is_leaf (b_graph st) n = true) /\
  (forall n v, kind_of (b_graph st) n = KLeaf v -> v = true).

Lemma payinv_new k p st st' n : payinv st -> new_node k p st = (st', n) ->
  (forall s, p = PChars s -> exists v, k = KLeaf v) -> (forall v, k = KLeaf v -> v = true) -> payinv st'.
Proof.
  intros (Lp & Hp & Hv) H Hk Hkv. unfold new_node in H. inversion H; subst st' n. clear H.
  split; [unfold len; cbn [b_graph b_pay]; rewrite !app_length; simpl; unfold len in Lp; lia|]. split.
  2:{ intros m v Hm. unfold kind_of in *. cbn [b_graph] in Hm.
      destruct (Nat.lt_ge_cases m (len st)) as [L|L].
      - rewrite getn_app_old in Hm by exact L. eapply Hv; eauto.
      - destruct (Nat.eq_dec m (len st)) as [->|Ne].
        + unfold getn, len in Hm. rewrite app_nth2 in Hm by lia. rewrite Nat.sub_diag in Hm. cbn in Hm. apply Hkv. exact Hm.
        + rewrite getn_out in Hm; [cbn in Hm; inversion Hm; reflexivity|]. rewrite app_length. simpl. unfold len in *. lia. }
  intros m s Hm. unfold pay_of, is_leaf, kind_of in *. cbn [b_graph b_pay] in *.
  destruct (Nat.lt_ge_cases m (len st)) as [L|L].
  - rewrite app_nth1 in Hm by (rewrite Lp; exact L). rewrite getn_app_old by exact L. eapply Hp; eauto.
  - destruct (Nat.eq_dec m (len st)) as [->|Ne].
    + rewrite app_nth2 in Hm by lia. rewrite Lp, Nat.sub_diag in Hm. cbn [nth] in Hm.
      destruct (Hk s Hm) as [v ->]. unfold getn, len. rewrite app_nth2 by lia. rewrite Nat.sub_diag. reflexivity.
    + rewrite nth_overflow in Hm; [discriminate|]. rewrite app_length. simpl. lia.
Qed.

Lemma kind_of_upd g n f m : (forall nd, nkind (f nd) = nkind nd) -> kind_of (upd_node g n f) m = kind_of g m.
Proof.
  intros Hf. unfold kind_of. destruct (Nat.eq_dec m n) as [->|Ne].
  - destruct (Nat.lt_ge_cases n (length g)) as [L|L].
    + rewrite getn_upd_same by exact L. apply Hf.
    + rewrite upd_node_out by exact L. reflexivity.
  - rewrite getn_upd_other by exact Ne. reflexivity.
Qed.

Lemma payinv_add_t s t st : payinv st -> payinv (add_t s t st).
Proof.
  intros (Lp & Hp & Hv). unfold add_t, add_transition. split; [|split].
  - unfold len. cbn [b_graph b_pay]. rewrite !upd_node_length. exact Lp.
  - intros m x Hm. unfold pay_of in *. cbn [b_pay b_graph] in *. unfold is_leaf.
    rewrite !kind_of_upd by reflexivity. apply (Hp m x Hm).
  - intros m v Hm. cbn [b_graph] in Hm. rewrite !kind_of_upd in Hm by reflexivity. eapply Hv; eauto.
Qed.

Lemma payinv_add_times k : forall s t st, payinv st -> payinv (add_times k s t st).
Proof. induction k as [|k IH]; intros s t st H; cbn [add_times]; auto. apply IH. apply payinv_add_t. exact H. Qed.

Ltac pay_new E := eapply payinv_new; [|exact E|intros ? X; try discriminate X; eauto|intros ? X; try discriminate X; inversion X; reflexivity]; auto.

Lemma payinv_add_repetition root it k st : payinv st -> payinv (add_repetition root it k st).
Proof.
  intros H. unfold add_repetition. destruct (noop_dec true st) as [st1 sub] eqn:E. unfold noop_dec in E.
  apply payinv_add_t. apply payinv_add_times. pay_new E.
Qed.

Lemma payinv_repeat root it rp st : payinv st -> payinv (repeat_ root it rp st).
Proof.
  intros H. unfold repeat_. destruct rp as [mn mx].
  set (mx' := match mx with None => mn + 2 | Some m => m end).
  assert (H1 : payinv (if (mn =? 0) || (mx' =? 0) then let '(st0, l) := noop_leaf st in add_t root l st0 else st)).
  { destruct ((mn =? 0) || (mx' =? 0)); auto. destruct (noop_leaf st) as [st0 l] eqn:E. unfold noop_leaf in E.
    apply payinv_add_t. pay_new E. }
  set (s1 := if (mn =? 0) || (mx' =? 0) then let '(st0, l) := noop_leaf st in add_t root l st0 else st) in *.
  assert (H2 : payinv (if 0 <? mn then add_repetition root it mn s1 else s1)).
  { destruct (0 <? mn); auto. apply payinv_add_repetition. exact H1. }
  destruct (mx' =? mn); auto. apply payinv_add_repetition. exact H2.
Qed.

Lemma payinv_with_quant q it st st' root : payinv st -> with_quant q it st = Ok (st', root) -> payinv st'.
Proof.
  intros H E. unfold with_quant in E. destruct q as [q0|]; [|inversion E; subst; auto].
  destruct (rep_of q0) as [rp| | |]; cbn [bind] in E; try discriminate.
  destruct (noop_dec false st) as [st1 r] eqn:E1. unfold noop_dec in E1.
  assert (EE : st' = repeat_ r it rp st1) by (inversion E; auto). subst st'.
  apply payinv_repeat. pay_new E1.
Qed.

Lemma payinv_children {A} (B : A -> bst -> res (bst * nat)) parent : forall l st st',
  (forall a, In a l -> forall st st' c, payinv st -> B a st = Ok (st', c) -> payinv st') ->
  payinv st -> add_children B parent l st = Ok st' -> payinv st'.
Proof.
  induction l as [|a r IH]; intros st st' HB H E; cbn [add_children] in E; [inversion E; subst; auto|].
  destruct (B a st) as [[st1 c]| | |] eqn:E1; cbn [bind] in E; try discriminate.
  eapply IH; [|apply payinv_add_t; eapply HB; eauto; left; reflexivity|exact E].
  intros a' Ha'. apply HB. right. exact Ha'.
Qed.

Lemma payinv_citem ci st st' root : payinv st -> conv_citem ci st = Ok (st', root) -> payinv st'.
Proof.
  intros H E. unfold conv_citem in E.
  destruct (noop_dec false st) as [st1 r0] eqn:E1. unfold noop_dec in E1.
  assert (H1 : payinv st1) by (pay_new E1).
  destruct ci as [c|a b].
  - destruct (char_leaf c st1) as [st2 l] eqn:E2. unfold char_leaf in E2.
    assert (EE : st' = add_t r0 l st2) by (inversion E; auto). subst st'. apply payinv_add_t. pay_new E2.
  - destruct (b <? a); [discriminate|].
    destruct (noop_dec false st1) as [st2 rr] eqn:E2. unfold noop_dec in E2.
    destruct (char_leaf a st2) as [st3 l1] eqn:E3. unfold char_leaf in E3.
    destruct (char_leaf b (add_t rr l1 st3)) as [st5 l2] eqn:E5. unfold char_leaf in E5.
    assert (EE : st' = add_t r0 rr (add_t rr l2 st5)) by (inversion E; auto). subst st'.
    apply payinv_add_t. apply payinv_add_t. pay_new E5. apply payinv_add_t. pay_new E3. pay_new E2.
Qed.

Lemma payinv_atom i : (forall r, (exists nc q, i = IGroup nc r q) -> forall st st' c, payinv st -> conv_expr r st = Ok (st', c) -> payinv st') ->
  forall st st' it, payinv st -> atom i st = Ok (st', it) -> payinv st'.
Proof.
  intros HG st st' it H E. destruct i as [c q|c0 cs q|nc r q]; cbn [atom] in E.
  - destruct (noop_dec false st) as [st1 mi] eqn:E1. unfold noop_dec in E1.
    destruct (char_leaf c st1) as [st2 l] eqn:E2. unfold char_leaf in E2.
    assert (EE : st' = add_t mi l st2) by (inversion E; auto). subst st'. apply payinv_add_t. pay_new E2. pay_new E1.
  - destruct (noop_dec false st) as [st1 mi] eqn:E1. unfold noop_dec in E1.
    destruct (noop_dec false st1) as [st2 mcc] eqn:E2. unfold noop_dec in E2.
    destruct (noop_dec false st2) as [st3 cg] eqn:E3. unfold noop_dec in E3.
    rewrite conv_citems_eq in E.
    destruct (add_children conv_citem cg (c0 :: cs) st3) as [st4| | |] eqn:EC; cbn [bind] in E; try discriminate.
    assert (EE : st' = add_t mi mcc (add_t mcc cg st4)) by (inversion E; auto). subst st'.
    apply payinv_add_t. apply payinv_add_t.
    eapply payinv_children; [| |exact EC].
    + intros a _ s s' c. apply payinv_citem.
    + pay_new E3. pay_new E2. pay_new E1.
  - eapply HG; eauto.
Qed.

Definition Y_item (i : item) : Prop := forall st st' c, payinv st -> conv_item i st = Ok (st', c) -> payinv st'.
Definition Y_regex (r : regex) : Prop := forall st st' c, payinv st -> conv_expr r st = Ok (st', c) -> payinv st'.

Lemma payinv_item_from_atom i :
  (forall st st' it, payinv st -> atom i st = Ok (st', it) -> payinv st') -> Y_item i.
Proof.
  intros HA st st' c H E. rewrite conv_item_eq in E.
  destruct (noop_dec false st) as [st1 wrap] eqn:E1. unfold noop_dec in E1.
  destruct (atom i st1) as [[st4 it]| | |] eqn:EA; cbn [bind] in E; try discriminate.
  destruct (with_quant (quant_of i) it st4) as [[st5 inner]| | |] eqn:EQ; cbn [bind] in E; try discriminate.
  assert (EE : st' = add_t wrap inner st5) by (inversion E; auto). subst st'.
  apply payinv_add_t. eapply payinv_with_quant; [|exact EQ]. eapply HA; [|exact EA]. pay_new E1.
Qed.

Theorem conv_expr_payinv : forall r, Y_regex r.
Proof.
  apply (regex_mind Y_regex (fun s => forall i, In i (items_of s) -> Y_item i) Y_item).
  - intros s Hs st st' c H E. rewrite conv_expr_eq in E.
    destruct (noop_dec false st) as [st1 r0] eqn:E1. unfold noop_dec in E1.
    destruct (add_children _ r0 _ st1) as [st2| | |] eqn:EC; cbn [bind] in E; try discriminate.
    inversion E; subst st2 r0. eapply payinv_children; [| |exact EC]; [|pay_new E1].
    intros a [<-|[]] s0 s0' c0 H0 E0. cbn [fst] in E0. rewrite conv_sub_eq in E0.
    destruct (noop_dec true s0) as [s1 r1] eqn:E2. unfold noop_dec in E2.
    destruct (add_children conv_item r1 (items_of s) s1) as [s2| | |] eqn:EC2; cbn [bind] in E0; try discriminate.
    inversion E0; subst s2 r1. eapply payinv_children; [| |exact EC2]; [|pay_new E2].
    intros i Hi. apply Hs. exact Hi.
  - intros s Hs r Hr st st' c H E. rewrite conv_expr_eq in E.
    destruct (noop_dec false st) as [st1 r0] eqn:E1. unfold noop_dec in E1.
    destruct (add_children _ r0 _ st1) as [st2| | |] eqn:EC; cbn [bind] in E; try discriminate.
    inversion E; subst st2 r0. eapply payinv_children; [| |exact EC]; [|pay_new E1].
    intros a [<-|[<-|[]]] s0 s0' c0 H0 E0; cbn [fst] in E0; [|eapply Hr; eauto].
    rewrite conv_sub_eq in E0.
    destruct (noop_dec true s0) as [s1 r1] eqn:E2. unfold noop_dec in E2.
    destruct (add_children conv_item r1 (items_of s) s1) as [s2| | |] eqn:EC2; cbn [bind] in E0; try discriminate.
    inversion E0; subst s2 r1. eapply payinv_children; [| |exact EC2]; [|pay_new E2].
    intros i Hi. apply Hs. exact Hi.
  - intros i Hi j [<-|[]]. exact Hi.
  - intros i Hi s Hs j [<-|Hj]; auto.
  - intros c q. apply payinv_item_from_atom. apply payinv_atom. intros r (nc & q' & X). discriminate.
  - intros c0 cs q. apply payinv_item_from_atom. apply payinv_atom. intros r (nc & q' & X). discriminate.
  - intros nc r Hr q. apply payinv_item_from_atom. apply payinv_atom.
    intros r' (nc' & q' & X). inversion X; subst. exact Hr.
Qed.

(* ---------- parse(): start node, optimize(), input / super-root / output nodes ---------- *)
Lemma output_vis st np tr :
  (forall n, np n = true -> forall s, pay_of st n <> PChars s) -> output_of st (vis np tr) = output_of st tr.
Proof.
  intros H. induction tr as [|x tr IH]; [reflexivity|].
  unfold vis in *. cbn [filter]. destruct (np x) eqn:E; cbn [negb].
  - rewrite IH. change (x :: tr) with ([x] ++ tr). rewrite output_of_app, output_of_single.
    destruct (pay_of st x) eqn:P; auto. exfalso. eapply H; eauto.
  - change (x :: filter (fun n => negb (np n)) tr) with ([x] ++ filter (fun n => negb (np n)) tr).
    change (x :: tr) with ([x] ++ tr). rewrite !output_of_app, IH. reflexivity.
Qed.

Lemma lang_one_gen st n noop l p w : view st n = (KDec false noop, l, p) -> (forall s, p <> PChars s) ->
  lang st n w -> exists t, In t l /\ lang st t w.
Proof.
  intros V NP (c & tr & H & ->). destruct (view_eq _ _ _ _ _ V) as (K & O & P).
  inversion H; subst; try congruence.
  exists t. split; [eapply nth_error_In; eauto|]. exists c0, tr0. split; auto.
  change (n :: tr0) with ([n] ++ tr0). rewrite output_of_app, output_of_single.
  destruct (pay_of st n) eqn:E; auto. exfalso. eapply NP; eauto.
Qed.

Theorem parse_regex_lang : forall fuel r st root,
  parse_regex fuel r = Ok (st, root) ->
  forall c tr, Run0 (b_graph st) root c tr -> matches r (output_of st tr).
Proof.
  intros fuel r stF root H c tr HR. unfold parse_regex in H.
  assert (Ok0 : okst bempty) by (split; [reflexivity|intros n t Ht; unfold outs_of, getn in Ht; cbn in Ht; destruct n; destruct Ht]).
  assert (Py0 : payinv bempty).
  { split; [reflexivity|]. split; [intros n s X; unfold pay_of in X; cbn in X; destruct n; discriminate|].
    intros n v X. unfold kind_of, getn in X. cbn in X. destruct n; cbn in X; inversion X; reflexivity. }
  destruct (noop_dec true bempty) as [st0 start] eqn:E0. unfold noop_dec in E0.
  destruct (new_node_spec _ _ _ _ _ Ok0 E0) as (-> & L0 & OkA & S0 & V0).
  assert (PyA : payinv st0) by (pay_new E0).
  destruct (conv_expr r st0) as [[st1 e]| | |] eqn:E1; cbn [bind] in H; try discriminate.
  destruct (conv_expr_lang r st0 st1 e OkA E1) as (Ok1 & Le1 & Le2 & S1 & Cf1 & La).
  pose proof (conv_expr_payinv r st0 st1 e PyA E1) as Py1.
  destruct (add_t_spec (len bempty) e st1 Ok1 ltac:(cbv beta; lia) Le2) as (L2 & Ok2 & S2 & V2).
  set (st2 := add_t (len bempty) e st1) in *.
  assert (Py2 : payinv st2) by (apply payinv_add_t; exact Py1).
  pose proof (S1 (len bempty) ltac:(cbv beta; lia)) as Vs. rewrite V0 in Vs.
  destruct (view_eq _ _ _ _ _ Vs) as (Ks & Os & Ps). rewrite Ks, Os, Ps in V2. cbn [app] in V2.
  destruct (optimize fuel (b_graph st2) (len bempty)) as [g| | |] eqn:EO; cbn [bind] in H; try discriminate.
  assert (R2 : inrange (b_graph st2)) by (destruct Ok2 as [_ Ot]; exact Ot).
  destruct (optimize_range _ _ _ _ EO R2) as (Lg & Rg & Kg).
  destruct (optimize_sem _ _ _ _ EO) as [_ Bwd].
  set (st3 := mkBst g (b_pay st2)) in *.
  assert (Ok3 : okst st3).
  { split; [unfold st3, len; cbn [b_graph b_pay]; rewrite Lg; destruct Ok2 as [Lp _]; exact Lp|]. exact Rg. }
  destruct (new_node (KDec false false) PInput st3) as [st4 ci] eqn:E4.
  destruct (new_node_spec _ _ _ _ _ Ok3 E4) as (-> & L4 & Ok4 & S4 & V4).
  destruct (noop_dec true st4) as [st5 sr] eqn:E5. unfold noop_dec in E5.
  destruct (new_node_spec _ _ _ _ _ Ok4 E5) as (-> & L5 & Ok5 & S5 & V5).
  destruct (add_t_spec (len st3) (len st4) st5 Ok5 ltac:(cbv beta; lia) ltac:(cbv beta; lia)) as (L6 & Ok6 & S6 & V6).
  set (st6 := add_t (len st3) (len st4) st5) in *.
  assert (Lst3 : len st3 = len st2) by (unfold st3, len; cbn [b_graph]; exact Lg).
  destruct (add_t_spec (len st4) (len bempty) st6 Ok6 ltac:(cbv beta; lia) ltac:(cbv beta; lia)) as (L7 & Ok7 & S7 & V7).
  set (st7 := add_t (len st4) (len bempty) st6) in *.
  destruct (new_node (KLeaf true) POutput st7) as [st8 fo] eqn:E8.
  destruct (new_node_spec _ _ _ _ _ Ok7 E8) as (-> & L8 & Ok8 & S8 & V8).
  assert (EE : stF = add_t (len st4) (len st7) st8 /\ root = len st3) by (inversion H; auto).
  destruct EE as [-> ->]. clear H.
  destruct (add_t_spec (len st4) (len st7) st8 Ok8 ltac:(cbv beta; lia) ltac:(cbv beta; lia)) as (L9 & Ok9 & S9 & V9).
  set (st9 := add_t (len st4) (len st7) st8) in *.
  (* views of the three new nodes at the end *)
  assert (Vci : view st9 (len st3) = (KDec false false, [len st4], PInput)).
  { rewrite (S9 (len st3) ltac:(cbv beta; lia)). rewrite (S8 (len st3) ltac:(cbv beta; lia)). rewrite (S7 (len st3) ltac:(cbv beta; lia)).
    rewrite V6. pose proof (S5 (len st3) ltac:(cbv beta; lia)) as A. rewrite V4 in A.
    destruct (view_eq _ _ _ _ _ A) as (K & O & P). rewrite K, O, P. reflexivity. }
  assert (Vsr7 : view st7 (len st4) = (KDec true true, [len bempty], PNone)).
  { rewrite V7. pose proof (S6 (len st4) ltac:(cbv beta; lia)) as A. rewrite V5 in A.
    destruct (view_eq _ _ _ _ _ A) as (K & O & P). rewrite K, O, P. reflexivity. }
  assert (Vsr : view st9 (len st4) = (KDec true true, [len bempty; len st7], PNone)).
  { rewrite V9. pose proof (S8 (len st4) ltac:(cbv beta; lia)) as A. rewrite Vsr7 in A.
    destruct (view_eq _ _ _ _ _ A) as (K & O & P). rewrite K, O, P. reflexivity. }
  assert (Vfo : view st9 (len st7) = (KLeaf true, [], POutput)).
  { rewrite (S9 (len st7) ltac:(cbv beta; lia)). exact V8. }
  assert (S39 : same_on (fun m => m < len st3) st3 st9).
  { intros m Lm. rewrite (S9 m ltac:(cbv beta; lia)). rewrite (S8 m ltac:(cbv beta; lia)). rewrite (S7 m ltac:(cbv beta; lia)).
    rewrite (S6 m ltac:(cbv beta; lia)). rewrite (S5 m ltac:(cbv beta; lia)). apply S4. exact Lm. }
  (* take the execution apart *)
  assert (HL : lang st9 (len st3) (output_of st9 tr)) by (exists c, tr; auto).
  destruct (lang_one_gen _ _ _ _ _ _ Vci ltac:(intros s X; discriminate X) HL) as (t1 & [<-|[]] & H1).
  apply (lang_all _ _ _ _ _ Vsr) in H1.
  apply langs_cons in H1. destruct H1 as (w1 & w2 & Hs & H2 & ->).
  apply langs_cons in H2. destruct H2 as (w3 & w4 & Hf & H4 & ->).
  apply langs_nil in H4. subst w4. rewrite (lang_leaf _ _ _ _ _ Vfo Hf). rewrite !app_nil_r.
  (* the start node: back through the three wrappers, optimize(), and the builder *)
  assert (H3 : lang st3 (len bempty) w1).
  { eapply (lang_stable st3 st9 (fun m => m < len st3) (len bempty) w1); [|exact S39| |exact Hs].
    - intros m t Lm Ht. eapply Rg; eauto.
    - cbv beta. lia. }
  destruct H3 as (c3 & tr3 & R3 & ->).
  destruct (Bwd _ _ _ R3) as (c2 & tr2 & R2' & EV).
  assert (NPp : forall n, is_noop (b_graph st2) n = true -> forall s, pay_of st2 n <> PChars s).
  { intros n Hn s X. destruct Py2 as (_ & Hp & _). specialize (Hp n s X).
    unfold is_noop in Hn. unfold is_leaf in Hp. destruct (kind_of (b_graph st2) n); discriminate. }
  assert (EO3 : output_of st3 tr3 = output_of st2 tr2).
  { change (output_of st3 tr3) with (output_of st2 tr3).
    rewrite <- (output_vis st2 _ tr3 NPp), <- EV. apply output_vis. exact NPp. }
  rewrite EO3.
  (* in st2 the start node runs its only child e *)
  assert (HS : lang st2 (len bempty) (output_of st2 tr2)) by (exists c2, tr2; auto).
  apply (lang_all _ _ _ _ _ V2) in HS. apply langs_cons in HS. destruct HS as (wa & wb & He & Hn & ->).
  apply langs_nil in Hn. subst wb. rewrite app_nil_r.
  apply La. eapply (lang_later st1 st2 (len st0)); eauto.
  intros m [A B]. apply S2. cbv beta. lia.
Qed.

(* every leaf of a regex graph is a valid leaf *)
Definition leafinv (g : graph) : Prop := forall n v, kind_of g n = KLeaf v -> v = true.

Lemma leafinv_new k p st st' n : leafinv (b_graph st) -> new_node k p st = (st', n) ->
  (forall v, k = KLeaf v -> v = true) -> leafinv (b_graph st').
Proof.
  intros Hv H Hkv. unfold new_node in H. inversion H; subst st' n. clear H.
  intros m v Hm. unfold kind_of in *. cbn [b_graph] in Hm.
  destruct (Nat.lt_ge_cases m (len st)) as [L|L].
  - rewrite getn_app_old in Hm by exact L. eapply Hv; eauto.
  - destruct (Nat.eq_dec m (len st)) as [->|Ne].
    + unfold getn, len in Hm. rewrite app_nth2 in Hm by lia. rewrite Nat.sub_diag in Hm. cbn in Hm. apply Hkv. exact Hm.
    + rewrite getn_out in Hm; [cbn in Hm; inversion Hm; reflexivity|]. rewrite app_length. simpl. unfold len in *. lia.
Qed.

Lemma leafinv_add_t s t st : leafinv (b_graph st) -> leafinv (b_graph (add_t s t st)).
Proof.
  intros Hv m v Hm. unfold add_t, add_transition in Hm. cbn [b_graph] in Hm.
  rewrite !kind_of_upd in Hm by reflexivity. eapply Hv; eauto.
Qed.

Theorem parse_regex_leaves_valid : forall fuel r st root,
  parse_regex fuel r = Ok (st, root) -> leafinv (b_graph st).
Proof.
  intros fuel r stF root H. unfold parse_regex in H.
  assert (Ok0 : okst bempty) by (split; [reflexivity|intros n t Ht; unfold outs_of, getn in Ht; cbn in Ht; destruct n; destruct Ht]).
  assert (Py0 : payinv bempty).
  { split; [reflexivity|]. split; [intros n s X; unfold pay_of in X; cbn in X; destruct n; discriminate|].
    intros n v X. unfold kind_of, getn in X. cbn in X. destruct n; cbn in X; inversion X; reflexivity. }
  destruct (noop_dec true bempty) as [st0 start] eqn:E0. unfold noop_dec in E0.
  destruct (new_node_spec _ _ _ _ _ Ok0 E0) as (-> & L0 & OkA & S0 & V0).
  assert (PyA : payinv st0) by (pay_new E0).
  destruct (conv_expr r st0) as [[st1 e]| | |] eqn:E1; cbn [bind] in H; try discriminate.
  destruct (conv_expr_lang r st0 st1 e OkA E1) as (Ok1 & Le1 & Le2 & S1 & Cf1 & La).
  pose proof (conv_expr_payinv r st0 st1 e PyA E1) as Py1.
  destruct (add_t_spec (len bempty) e st1 Ok1 ltac:(cbv beta; lia) Le2) as (L2 & Ok2 & S2 & V2).
  set (st2 := add_t (len bempty) e st1) in *.
  assert (Py2 : payinv st2) by (apply payinv_add_t; exact Py1).
  destruct (optimize fuel (b_graph st2) (len bempty)) as [g| | |] eqn:EO; cbn [bind] in H; try discriminate.
  assert (R2 : inrange (b_graph st2)) by (destruct Ok2 as [_ Ot]; exact Ot).
  destruct (optimize_range _ _ _ _ EO R2) as (Lg & Rg & Kg).
  set (st3 := mkBst g (b_pay st2)) in *.
  assert (I3 : leafinv (b_graph st3)).
  { intros n v Hn. destruct Py2 as (_ & _ & Hv). eapply Hv. eapply Kg. exact Hn. }
  destruct (new_node (KDec false false) PInput st3) as [st4 ci] eqn:E4.
  destruct (noop_dec true st4) as [st5 sr] eqn:E5. unfold noop_dec in E5.
  destruct (new_node (KLeaf true) POutput (add_t sr (len bempty) (add_t ci sr st5))) as [st8 fo] eqn:E8.
  assert (EE : stF = add_t sr fo st8) by (inversion H; auto). subst stF.
  apply leafinv_add_t. eapply leafinv_new; [|exact E8|intros v X; inversion X; reflexivity].
  apply leafinv_add_t. apply leafinv_add_t.
  eapply leafinv_new; [|exact E5|intros v X; discriminate X].
  eapply leafinv_new; [exact I3|exact E4|intros v X; discriminate X].
Qed.

(* NormShape.v -- the result of _to_dnf is an any-of list of keyword sets without combinators (C16, top level). *)
From Fences Require Import Normalize.
From Coq Require Import String.
Local Open Scope list_scope.

Definition COMB : list str := kws ["$ref"; "anyOf"; "allOf"; "oneOf"; "not"; "if"; "then"; "else"; "const"]%string.
Definition clean (d : dict) : Prop := forall c, In c COMB -> dget c d = None.
Definition cleanb (d : dict) : bool := forallb (fun c => negb (dhas c d)) COMB.
Definition dnf (j : json) : Prop :=
  exists alts, j = obj1 "anyOf" (JArr alts) /\ forall a, In a alts -> exists d, a = JObj d /\ clean d.

Lemma cleanb_clean d : cleanb d = true -> clean d.
Proof.
  unfold cleanb, clean. intros H c Hc. rewrite forallb_forall in H. specialize (H c Hc).
  unfold dhas in H. destruct (dget c d); [discriminate|reflexivity].
Qed.

Lemma str_eqb_refl a : str_eqb a a = true.
Proof. unfold str_eqb. destruct (list_eq_dec Nat.eq_dec a a); congruence. Qed.
Lemma str_eqb_eq a b : str_eqb a b = true -> a = b.
Proof. unfold str_eqb. destruct (list_eq_dec Nat.eq_dec a b); [auto|discriminate]. Qed.
Lemma str_eqb_neq a b : a <> b -> str_eqb a b = false.
Proof. unfold str_eqb. destruct (list_eq_dec Nat.eq_dec a b); [contradiction|auto]. Qed.

Lemma dget_dset_other k c v d : k <> c -> dget c (dset k v d) = dget c d.
Proof.
  intros N. induction d as [|[k' v'] r IH]; cbn [dset dget].
  - rewrite (str_eqb_neq k c N). reflexivity.
  - destruct (str_eqb k' k) eqn:E; cbn [dget].
    + apply str_eqb_eq in E. subst k'. rewrite (str_eqb_neq k c N). reflexivity.
    + destruct (str_eqb k' c); auto.
Qed.

Lemma dget_ddel_same k d : dget k (ddel k d) = None.
Proof.
  induction d as [|[k' v'] r IH]; cbn [ddel dget]; auto.
  destruct (str_eqb k' k) eqn:E; auto. cbn [dget]. rewrite E. exact IH.
Qed.

Lemma dget_ddel_other k c d : dget c d = None -> dget c (ddel k d) = None.
Proof.
  induction d as [|[k' v'] r IH]; cbn [ddel dget]; auto.
  destruct (str_eqb k' c) eqn:Ec; [discriminate|]. intros H.
  destruct (str_eqb k' k); auto. cbn [dget]. rewrite Ec. auto.
Qed.

Lemma dget_in k v d : In (k, v) d -> dget k d <> None.
Proof.
  induction d as [|[k' v'] r IH]; intros H; [destruct H|]. cbn [dget].
  destruct (str_eqb k' k) eqn:E; [discriminate|].
  destruct H as [H|H]; [inversion H; subst; rewrite str_eqb_refl in E; discriminate|auto].
Qed.

Lemma clean_dset k v d : ~ In k COMB -> clean d -> clean (dset k v d).
Proof. intros N C c Hc. rewrite dget_dset_other; [auto|]. intros ->. contradiction. Qed.

Lemma clean_dset_key k v d x : clean d -> dget k d = Some x -> clean (dset k v d).
Proof.
  intros C H. apply clean_dset; auto. intros Hk. rewrite (C k Hk) in H. discriminate.
Qed.

Lemma clean_nil : clean []. Proof. intros c _. reflexivity. Qed.

Lemma foldM_inv {A B} (P : A -> Prop) (F : A -> B -> res A) :
  forall l a0 a, P a0 -> (forall a x a', In x l -> P a -> F a x = Ok a' -> P a') -> foldM F l a0 = Ok a -> P a.
Proof.
  induction l as [|x l IH]; intros a0 a P0 St H; cbn [foldM] in H; [inversion H; subst; auto|].
  destruct (F a0 x) as [a1| | |] eqn:E; cbn [bind] in H; try discriminate.
  eapply IH; [|intros; eapply St; eauto; right; auto|exact H]. eapply St; eauto. left. reflexivity.
Qed.

Lemma fold_left_inv {A B} (P : A -> Prop) (F : A -> B -> A) :
  forall l a0, P a0 -> (forall a x, In x l -> P a -> P (F a x)) -> P (fold_left F l a0).
Proof.
  induction l as [|x l IH]; intros a0 P0 St; cbn [fold_left]; auto.
  apply IH; [apply St; auto; left; auto|intros; apply St; auto; right; auto].
Qed.

Ltac notcomb := let X := fresh in intros X; cbv in X; repeat (destruct X as [X|X]; [discriminate X|]); exact X.

(* ---------- _merge ---------- *)
Lemma merge2_clean result to_add r : clean result -> clean to_add -> merge2 result to_add = Ok r -> clean r.
Proof.
  intros Cr Ca H. unfold merge2 in H.
  match type of H with bind ?X _ = _ => destruct X as [r1| | |] eqn:E1 end; cbn [bind] in H; try discriminate.
  assert (C1 : clean r1).
  { destruct (dhas (kw "prefixItems") result || dhas (kw "prefixItems") to_add); [|inversion E1; subst; auto].
    destruct (merge_prefix_items result to_add); cbn [bind] in E1; try discriminate. inversion E1; subst.
    apply clean_dset; auto. notcomb. }
  match type of H with bind ?X _ = _ => destruct X as [r2| | |] eqn:E2 end; cbn [bind] in H; try discriminate.
  assert (C2 : clean r2).
  { destruct (dhas (kw "properties") r1 || dhas (kw "properties") to_add); [|inversion E2; subst; auto].
    destruct (merge_properties r1 to_add); cbn [bind] in E2; try discriminate. inversion E2; subst.
    apply clean_dset; auto. notcomb. }
  match type of H with bind ?X _ = _ => destruct X as [r3| | |] eqn:E3 end; cbn [bind] in H; try discriminate.
  assert (C3 : clean r3).
  { eapply (foldM_inv clean); [exact C2| |exact E3].
    intros acc [key v0] acc' _ Cacc Hs. cbv beta iota in Hs.
    destruct (dget key acc) as [value|] eqn:G; [|inversion Hs; subst; auto].
    destruct (dget key to_add) as [other|]; [|inversion Hs; subst; auto].
    destruct (simple_merge key value other) as [m|].
    - destruct m as [v| | |]; cbn [bind] in Hs; try discriminate. inversion Hs; subst.
      eapply clean_dset_key; eauto.
    - destruct (is_complex key); [inversion Hs; subst; auto|discriminate]. }
  inversion H; subst r. apply fold_left_inv; auto.
  intros acc [key value] Hin Cacc. destruct (dhas key acc || is_complex key); auto.
  apply clean_dset; auto. intros Hk. apply (dget_in key value to_add Hin). apply Ca. exact Hk.
Qed.

Definition all_clean (l : list dict) : Prop := forall d, In d l -> clean d.

Lemma any_of_dnf j l : dnf j -> any_of j = Ok l -> forall a, In a l -> exists d, a = JObj d /\ clean d.
Proof.
  intros (alts & -> & H) E. cbn in E. inversion E; subst. exact H.
Qed.

Lemma dnf_of_dicts l : all_clean l -> dnf (obj1 "anyOf" (JArr (map JObj l))).
Proof.
  intros H. exists (map JObj l). split; auto. intros a Ha. apply in_map_iff in Ha. destruct Ha as (d & <- & Hd). eauto.
Qed.

Lemma merge_full_dnf schemas j : (forall s, In s schemas -> dnf s) -> merge_full_ schemas = Ok j -> dnf j.
Proof.
  intros Hs H. unfold merge_full_ in H. destruct schemas as [|s0 ss]; [discriminate|].
  match type of H with bind ?X _ = _ => destruct X as [result| | |] eqn:E end; cbn [bind] in H; try discriminate.
  inversion H; subst j. apply dnf_of_dicts.
  eapply (foldM_inv all_clean); [| |exact E].
  - intros d [<-|[]]. apply clean_nil.
  - intros res schema res' Hin Cres Hstep. cbv beta in Hstep.
    destruct (any_of schema) as [opts| | |] eqn:EA; cbn [bind] in Hstep; try discriminate.
    pose proof (any_of_dnf schema opts (Hs schema Hin) EA) as Hopts.
    eapply (foldM_inv all_clean); [| |exact Hstep]; [intros d []|].
    intros nr option nr' Ho Cnr Hst. cbv beta in Hst.
    destruct (Hopts option Ho) as (od & -> & Cod). cbn [as_dict bind] in Hst.
    match type of Hst with bind ?X _ = _ => destruct X as [row| | |] eqn:ER end; cbn [bind] in Hst; try discriminate.
    inversion Hst; subst nr'. intros d Hd. apply in_app_or in Hd. destruct Hd as [Hd|Hd]; [auto|].
    revert d Hd. change (all_clean row).
    eapply (foldM_inv all_clean); [| |exact ER]; [intros d []|].
    intros acc i acc' Hi Cacc Hm. cbv beta in Hm.
    destruct (merge2 i od) as [ii| | |] eqn:EM; cbn [bind] in Hm; try discriminate. inversion Hm; subst acc'.
    intros d Hd. apply in_app_or in Hd. destruct Hd as [Hd|[<-|[]]]; [auto|].
    eapply merge2_clean; [|exact Cod|exact EM]. apply Cres. exact Hi.
Qed.

Lemma merge_simple_dnf schemas j : (forall s, In s schemas -> dnf s) -> merge_simple_ schemas = Ok j -> dnf j.
Proof.
  intros Hs H. unfold merge_simple_ in H. destruct schemas as [|s0 ss]; [discriminate|].
  match type of H with bind ?X _ = _ => destruct X as [aos| | |] eqn:E end; cbn [bind] in H; try discriminate.
  assert (Ca : forall ao, In ao aos -> forall a, In a ao -> exists d, a = JObj d /\ clean d).
  { eapply (foldM_inv (fun aos => forall ao, In ao aos -> forall a, In a ao -> exists d, a = JObj d /\ clean d)); [| |exact E].
    - intros ao [].
    - intros acc s acc' Hin Cacc Hst. cbv beta in Hst. destruct (any_of s) as [l| | |] eqn:EA; cbn [bind] in Hst; try discriminate.
      inversion Hst; subst acc'. intros ao Hao. apply in_app_or in Hao. destruct Hao as [Hao|[<-|[]]]; [exact (Cacc ao Hao)|].
      exact (any_of_dnf s l (Hs s Hin) EA). }
  match type of H with bind ?X _ = _ => destruct X as [results| | |] eqn:ER end; cbn [bind] in H; try discriminate.
  inversion H; subst j. exists results. split; auto.
  eapply (foldM_inv (fun rs => forall a, In a rs -> exists d, a = JObj d /\ clean d)); [| |exact ER]; [intros a []|].
  intros acc idx acc' _ Cacc Hst. cbv beta in Hst.
  match type of Hst with bind ?X _ = _ => destruct X as [r| | |] eqn:E2 end; cbn [bind] in Hst; try discriminate.
  inversion Hst; subst acc'. intros a Ha. apply in_app_or in Ha. destruct Ha as [Ha|[<-|[]]]; [auto|].
  exists r. split; auto.
  eapply (foldM_inv clean); [apply clean_nil| |exact E2].
  intros res ao res' Hao Cres Hm. cbv beta in Hm. destruct ao as [|a0 ar]; [inversion Hm; subst; auto|].
  destruct (nth_error (a0 :: ar) (Nat.modulo idx (Datatypes.length (a0 :: ar)))) as [option|] eqn:EN; [|discriminate].
  destruct (Ca _ Hao option (nth_error_In _ _ EN)) as (od & -> & Cod). cbn [as_dict bind] in Hm.
  exact (merge2_clean res od res' Cres Cod Hm).
Qed.

Lemma merge_dnf cfg schemas j : (forall s, In s schemas -> dnf s) -> merge cfg schemas = Ok j -> dnf j.
Proof. unfold merge. destruct (full_merge cfg); [apply merge_full_dnf|apply merge_simple_dnf]. Qed.

(* ---------- inverters ---------- *)
Lemma invert_kw_clean key x j : invert_kw key x = Ok j -> exists d, j = JObj d /\ clean d.
Proof.
  intros H. unfold invert_kw, typed, obj1 in H.
  repeat match type of H with
         | (if ?c then _ else _) = _ => destruct c
         | bind ?X _ = _ => destruct X; cbn [bind] in H; try discriminate
         end; try discriminate;
  inversion H; subst; eexists; (split; [reflexivity|apply cleanb_clean; reflexivity]).
Qed.

Definition objs_clean (l : list json) : Prop := forall a, In a l -> exists d, a = JObj d /\ clean d.

Lemma dnf_intro l : objs_clean l -> dnf (obj1 "anyOf" (JArr l)).
Proof. intros H. exists l. split; auto. Qed.

Lemma invert1_dnf t j : invert1 t = Ok j -> dnf j.
Proof.
  intros H. unfold invert1 in H. destruct (as_dict t) as [d| | |]; cbn [bind] in H; try discriminate.
  destruct d as [|kv d'].
  - inversion H; subst. apply dnf_intro. intros a [<-|[]]. eexists. split; [reflexivity|]. apply cleanb_clean. reflexivity.
  - match type of H with bind ?X _ = _ => destruct X as [l| | |] eqn:E end; cbn [bind] in H; try discriminate.
    inversion H; subst. apply dnf_intro.
    eapply (foldM_inv objs_clean); [| |exact E]; [intros a []|].
    intros acc [k v] acc' _ Cacc Hst. cbv beta iota in Hst.
    destruct (invert_kw k v) as [i| | |] eqn:EI; cbn [bind] in Hst; try discriminate. inversion Hst; subst.
    intros a Ha. apply in_app_or in Ha. destruct Ha as [Ha|[<-|[]]]; [auto|]. eapply invert_kw_clean; eauto.
Qed.

Lemma invert_dnf cfg n j : invert cfg n = Ok j -> dnf j.
Proof.
  intros H. unfold invert in H. destruct (any_of n) as [l| | |]; cbn [bind] in H; try discriminate.
  match type of H with bind ?X _ = _ => destruct X as [inv| | |] eqn:E end; cbn [bind] in H; try discriminate.
  eapply merge_dnf; [|exact H].
  eapply (foldM_inv (fun inv => forall s, In s inv -> dnf s)); [| |exact E]; [intros s []|].
  intros acc i acc' _ Cacc Hst. cbv beta in Hst.
  destruct (invert1 i) as [x| | |] eqn:EI; cbn [bind] in Hst; try discriminate. inversion Hst; subst.
  intros s Hs. apply in_app_or in Hs. destruct Hs as [Hs|[<-|[]]]; [auto|]. eapply invert1_dnf; eauto.
Qed.


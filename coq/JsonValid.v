(* JsonValid.v -- the meaning of the scalar keywords on instances, and the keyword-wise inverters of normalize.py
   against it (C06): an instance satisfies the inverted keyword set exactly when it violates the keyword. *)
From Fences Require Import Normalize NormShape.
From Coq Require Import String ZArith Lia.
Local Open Scope list_scope.

(* JSON type of an instance (integers are numbers; booleans are not) *)
Definition jtype (x : json) : str :=
  match x with
  | JNull => kw "null" | JBool _ => kw "boolean" | JNum _ => kw "number"
  | JStr _ => kw "string" | JArr _ => kw "array" | JObj _ => kw "object"
  end.

Definition type_names (v : json) : list str :=
  flat_map (fun j => match j with JStr s => [s] | _ => [] end) (to_list v).

(* when does an instance satisfy one keyword (keywords outside this table are not judged here) *)
Definition kvalid (k : str) (v : json) (x : json) : Prop :=
  if iskw k "minimum" then forall m z, v = JNum m -> x = JNum z -> (m <= z)%Z
  else if iskw k "maximum" then forall m z, v = JNum m -> x = JNum z -> (z <= m)%Z
  else if iskw k "exclusiveMinimum" then forall m z, v = JNum m -> x = JNum z -> (m < z)%Z
  else if iskw k "exclusiveMaximum" then forall m z, v = JNum m -> x = JNum z -> (z < m)%Z
  else if iskw k "minLength" then forall n s, v = JNum n -> x = JStr s -> (n <= Z.of_nat (List.length s))%Z
  else if iskw k "maxLength" then forall n s, v = JNum n -> x = JStr s -> (Z.of_nat (List.length s) <= n)%Z
  else if iskw k "minItems" then forall n l, v = JNum n -> x = JArr l -> (n <= Z.of_nat (List.length l))%Z
  else if iskw k "maxItems" then forall n l, v = JNum n -> x = JArr l -> (Z.of_nat (List.length l) <= n)%Z
  else if iskw k "type" then In (jtype x) (type_names v)
  else if iskw k "enum" then exists l, v = JArr l /\ existsb (json_eqb x) l = true
  else if iskw k "NOT_enum" then forall l, v = JArr l -> existsb (json_eqb x) l = false
  else True.

Definition alt_valid (d : dict) (x : json) : Prop := forall k v, In (k, v) d -> kvalid k v x.

Ltac kv := unfold kvalid, iskw; cbn [str_eqb]; repeat (rewrite ?str_eqb_refl).

Lemma iskw_neq a b : kw a <> kw b -> str_eqb (kw a) (kw b) = false.
Proof. apply str_eqb_neq. Qed.

(* unfolding kvalid at a literal keyword *)
Ltac kvat := unfold kvalid, iskw;
  repeat match goal with
         | |- context [str_eqb (kw ?a) (kw ?b)] =>
             let E := fresh in
             assert (E : str_eqb (kw a) (kw b) = true \/ str_eqb (kw a) (kw b) = false)
               by (destruct (str_eqb (kw a) (kw b)); auto);
             first [ rewrite (str_eqb_refl (kw a)) | rewrite (iskw_neq a b ltac:(intros X; cbv in X; discriminate X)) ]; clear E
         end.

Lemma alt_valid_2 k1 v1 k2 v2 x : alt_valid [(k1, v1); (k2, v2)] x <-> kvalid k1 v1 x /\ kvalid k2 v2 x.
Proof.
  split.
  - intros H. split; apply H; [left|right; left]; reflexivity.
  - intros [A B] k v [E|[E|[]]]; inversion E; subst; auto.
Qed.
Lemma alt_valid_1 k1 v1 x : alt_valid [(k1, v1)] x <-> kvalid k1 v1 x.
Proof.
  split; [intros H; apply H; left; reflexivity|intros A k v [E|[]]; inversion E; subst; auto].
Qed.

Lemma kvalid_type_single t x : kvalid (kw "type") (JArr [jstr t]) x <-> jtype x = kw t.
Proof.
  kvat. unfold type_names, to_list, jstr. cbn [flat_map app]. split; [intros [E|[]]; auto|intros E; left; auto].
Qed.

(* ---------- numeric bounds ---------- *)
Theorem invert_minimum m x :
  alt_valid [(kw "type", JArr [jstr "number"]); (kw "exclusiveMaximum", JNum m)] x <-> ~ kvalid (kw "minimum") (JNum m) x.
Proof.
  rewrite alt_valid_2, kvalid_type_single. split.
  - intros [T B] H. destruct x; try discriminate T. revert B H. kvat. intros B H.
    specialize (B m z eq_refl eq_refl). specialize (H m z eq_refl eq_refl). lia.
  - intros H. destruct x as [|b|z|s|l|d]; try (exfalso; apply H; kvat; intros ? ? _ X; discriminate X).
    split; [reflexivity|]. kvat. intros m0 z0 E1 E2. inversion E1; inversion E2; subst.
    destruct (Z.lt_ge_cases z0 m0); auto. exfalso. apply H. kvat. intros m1 z1 E3 E4. inversion E3; inversion E4; subst. lia.
Qed.

Theorem invert_maximum m x :
  alt_valid [(kw "type", JArr [jstr "number"]); (kw "exclusiveMinimum", JNum m)] x <-> ~ kvalid (kw "maximum") (JNum m) x.
Proof.
  rewrite alt_valid_2, kvalid_type_single. split.
  - intros [T B] H. destruct x; try discriminate T. revert B H. kvat. intros B H.
    specialize (B m z eq_refl eq_refl). specialize (H m z eq_refl eq_refl). lia.
  - intros H. destruct x as [|b|z|s|l|d]; try (exfalso; apply H; kvat; intros ? ? _ X; discriminate X).
    split; [reflexivity|]. kvat. intros m0 z0 E1 E2. inversion E1; inversion E2; subst.
    destruct (Z.lt_ge_cases m0 z0); auto. exfalso. apply H. kvat. intros m1 z1 E3 E4. inversion E3; inversion E4; subst. lia.
Qed.

Theorem invert_exclusive_minimum m x :
  alt_valid [(kw "type", JArr [jstr "number"]); (kw "maximum", JNum m)] x <-> ~ kvalid (kw "exclusiveMinimum") (JNum m) x.
Proof.
  rewrite alt_valid_2, kvalid_type_single. split.
  - intros [T B] H. destruct x; try discriminate T. revert B H. kvat. intros B H.
    specialize (B m z eq_refl eq_refl). specialize (H m z eq_refl eq_refl). lia.
  - intros H. destruct x as [|b|z|s|l|d]; try (exfalso; apply H; kvat; intros ? ? _ X; discriminate X).
    split; [reflexivity|]. kvat. intros m0 z0 E1 E2. inversion E1; inversion E2; subst.
    destruct (Z.le_gt_cases z0 m0); auto. exfalso. apply H. kvat. intros m1 z1 E3 E4. inversion E3; inversion E4; subst. lia.
Qed.

Theorem invert_exclusive_maximum m x :
  alt_valid [(kw "type", JArr [jstr "number"]); (kw "minimum", JNum m)] x <-> ~ kvalid (kw "exclusiveMaximum") (JNum m) x.
Proof.
  rewrite alt_valid_2, kvalid_type_single. split.
  - intros [T B] H. destruct x; try discriminate T. revert B H. kvat. intros B H.
    specialize (B m z eq_refl eq_refl). specialize (H m z eq_refl eq_refl). lia.
  - intros H. destruct x as [|b|z|s|l|d]; try (exfalso; apply H; kvat; intros ? ? _ X; discriminate X).
    split; [reflexivity|]. kvat. intros m0 z0 E1 E2. inversion E1; inversion E2; subst.
    destruct (Z.le_gt_cases m0 z0); auto. exfalso. apply H. kvat. intros m1 z1 E3 E4. inversion E3; inversion E4; subst. lia.
Qed.

(* ---------- string lengths and item counts (the inverters that were off by one) ---------- *)
Lemma kvalid_type_str t x : kvalid (kw "type") (jstr t) x <-> jtype x = kw t.
Proof.
  kvat. unfold type_names, to_list, jstr. cbn [flat_map app]. split; [intros [E|[]]; auto|intros E; left; auto].
Qed.

Theorem invert_min_length n x : (0 < n)%Z ->
  alt_valid [(kw "type", JArr [jstr "string"]); (kw "maxLength", JNum (n - 1))] x <-> ~ kvalid (kw "minLength") (JNum n) x.
Proof.
  intros Hn. rewrite alt_valid_2, kvalid_type_single. split.
  - intros [T B] H. destruct x; try discriminate T. revert B H. kvat. intros B H.
    specialize (B (n - 1)%Z s eq_refl eq_refl). specialize (H n s eq_refl eq_refl). lia.
  - intros H. destruct x as [|b|z|s|l|d]; try (exfalso; apply H; kvat; intros ? ? _ X; discriminate X).
    split; [reflexivity|]. kvat. intros n0 s0 E1 E2. inversion E1; inversion E2; subst.
    destruct (Z.le_gt_cases (Z.of_nat (List.length s0)) (n - 1)); auto. exfalso. apply H. kvat.
    intros n1 s1 E3 E4. inversion E3; inversion E4; subst. lia.
Qed.

Theorem invert_min_length_0 n x : (n <= 0)%Z ->
  alt_valid [(kw "enum", JArr [])] x <-> ~ kvalid (kw "minLength") (JNum n) x.
Proof.
  intros Hn. rewrite alt_valid_1. split.
  - kvat. intros (l & E & M). inversion E; subst. discriminate.
  - intros H. exfalso. apply H. kvat. intros n0 s E1 E2. inversion E1; subst. lia.
Qed.

Theorem invert_max_length n x :
  alt_valid [(kw "type", JArr [jstr "string"]); (kw "minLength", JNum (n + 1))] x <-> ~ kvalid (kw "maxLength") (JNum n) x.
Proof.
  rewrite alt_valid_2, kvalid_type_single. split.
  - intros [T B] H. destruct x; try discriminate T. revert B H. kvat. intros B H.
    specialize (B (n + 1)%Z s eq_refl eq_refl). specialize (H n s eq_refl eq_refl). lia.
  - intros H. destruct x as [|b|z|s|l|d]; try (exfalso; apply H; kvat; intros ? ? _ X; discriminate X).
    split; [reflexivity|]. kvat. intros n0 s0 E1 E2. inversion E1; inversion E2; subst.
    destruct (Z.le_gt_cases (n + 1) (Z.of_nat (List.length s0))); auto. exfalso. apply H. kvat.
    intros n1 s1 E3 E4. inversion E3; inversion E4; subst. lia.
Qed.

Theorem invert_min_items n x : (0 < n)%Z ->
  alt_valid [(kw "type", jstr "array"); (kw "maxItems", JNum (n - 1))] x <-> ~ kvalid (kw "minItems") (JNum n) x.
Proof.
  intros Hn. rewrite alt_valid_2, kvalid_type_str. split.
  - intros [T B] H. destruct x; try discriminate T. revert B H. kvat. intros B H.
    specialize (B (n - 1)%Z l eq_refl eq_refl). specialize (H n l eq_refl eq_refl). lia.
  - intros H. destruct x as [|b|z|s|l|d]; try (exfalso; apply H; kvat; intros ? ? _ X; discriminate X).
    split; [reflexivity|]. kvat. intros n0 l0 E1 E2. inversion E1; inversion E2; subst.
    destruct (Z.le_gt_cases (Z.of_nat (List.length l0)) (n - 1)); auto. exfalso. apply H. kvat.
    intros n1 l1 E3 E4. inversion E3; inversion E4; subst. lia.
Qed.

Theorem invert_max_items n x :
  alt_valid [(kw "type", jstr "array"); (kw "minItems", JNum (n + 1))] x <-> ~ kvalid (kw "maxItems") (JNum n) x.
Proof.
  rewrite alt_valid_2, kvalid_type_str. split.
  - intros [T B] H. destruct x; try discriminate T. revert B H. kvat. intros B H.
    specialize (B (n + 1)%Z l eq_refl eq_refl). specialize (H n l eq_refl eq_refl). lia.
  - intros H. destruct x as [|b|z|s|l|d]; try (exfalso; apply H; kvat; intros ? ? _ X; discriminate X).
    split; [reflexivity|]. kvat. intros n0 l0 E1 E2. inversion E1; inversion E2; subst.
    destruct (Z.le_gt_cases (n + 1) (Z.of_nat (List.length l0))); auto. exfalso. apply H. kvat.
    intros n1 l1 E3 E4. inversion E3; inversion E4; subst. lia.
Qed.

(* ---------- enum ---------- *)
Theorem invert_enum l x : alt_valid [(kw "NOT_enum", JArr l)] x <-> ~ kvalid (kw "enum") (JArr l) x.
Proof.
  rewrite alt_valid_1. kvat. split.
  - intros H (l' & E & M). inversion E; subst. rewrite (H l' eq_refl) in M. discriminate.
  - intros H l' E. inversion E; subst. destruct (existsb (json_eqb x) l') eqn:M; auto. exfalso. apply H. eauto.
Qed.

Theorem invert_not_enum l x : alt_valid [(kw "enum", JArr l)] x <-> ~ kvalid (kw "NOT_enum") (JArr l) x.
Proof.
  rewrite alt_valid_1. kvat. split.
  - intros (l' & E & M) H. inversion E; subst. rewrite (H l' eq_refl) in M. discriminate.
  - intros H. exists l. split; auto. destruct (existsb (json_eqb x) l) eqn:M; auto. exfalso. apply H.
    intros l' E. inversion E; subst. exact M.
Qed.

(* ---------- what invert_kw returns for these keywords ---------- *)
Theorem invert_kw_scalar m :
  invert_kw (kw "minimum") (JNum m) = Ok (JObj [(kw "type", JArr [jstr "number"]); (kw "exclusiveMaximum", JNum m)]) /\
  invert_kw (kw "maximum") (JNum m) = Ok (JObj [(kw "type", JArr [jstr "number"]); (kw "exclusiveMinimum", JNum m)]) /\
  invert_kw (kw "exclusiveMinimum") (JNum m) = Ok (JObj [(kw "type", JArr [jstr "number"]); (kw "maximum", JNum m)]) /\
  invert_kw (kw "exclusiveMaximum") (JNum m) = Ok (JObj [(kw "type", JArr [jstr "number"]); (kw "minimum", JNum m)]) /\
  invert_kw (kw "maxLength") (JNum m) = Ok (JObj [(kw "type", JArr [jstr "string"]); (kw "minLength", JNum (m + 1))]) /\
  invert_kw (kw "maxItems") (JNum m) = Ok (JObj [(kw "type", jstr "array"); (kw "minItems", JNum (m + 1))]) /\
  invert_kw (kw "minLength") (JNum m) =
    (if Z.ltb 0 m then Ok (JObj [(kw "type", JArr [jstr "string"]); (kw "maxLength", JNum (m - 1))]) else Ok (JObj [(kw "enum", JArr [])])) /\
  invert_kw (kw "minItems") (JNum m) =
    (if Z.ltb 0 m then Ok (JObj [(kw "type", jstr "array"); (kw "maxItems", JNum (m - 1))]) else Ok (JObj [(kw "enum", JArr [])])).
Proof. repeat split; reflexivity. Qed.

Theorem invert_kw_enum l :
  invert_kw (kw "enum") (JArr l) = Ok (JObj [(kw "NOT_enum", JArr l)]) /\
  invert_kw (kw "NOT_enum") (JArr l) = Ok (JObj [(kw "enum", JArr l)]).
Proof. split; reflexivity. Qed.

(* ---------- type ---------- *)
Lemma names_filter p l s : In s (type_names (JArr (filter p l))) <-> In (JStr s) l /\ p (JStr s) = true.
Proof.
  unfold type_names, to_list. induction l as [|y l IH]; cbn [filter flat_map]; [split; [intros []|intros [[] _]]|].
  destruct (p y) eqn:Py; cbn [flat_map].
  - rewrite in_app_iff, IH. split.
    + intros [H|[H1 H2]]; [|split; auto; right; auto]. destruct y as [| | |s0| |]; cbn in H; try contradiction. destruct H as [<-|[]]. split; [left; reflexivity|exact Py].
    + intros [[->|H1] H2]; [left; cbn; left; reflexivity|right; auto].
  - rewrite IH. split; [intros [H1 H2]; split; auto; right; auto|].
    intros [[->|H1] H2]; [congruence|auto].
Qed.

Lemma pmem_str s l : pmem (JStr s) l = true <-> In s (type_names (JArr l)).
Proof.
  unfold type_names, to_list. induction l as [|y l IH]; cbn [pmem flat_map]; [split; [discriminate|intros []]|].
  rewrite orb_true_iff, in_app_iff, IH. split.
  - intros [H|H]; [left|right; exact H]. destruct y; unfold py_eqb in H; cbn in H; try discriminate; try (destruct b; discriminate).
    apply str_eqb_eq in H. subst. left. reflexivity.
  - intros [H|H]; [left|right; exact H]. destruct y as [| | |s0| |]; cbn in H; try contradiction. destruct H as [<-|[]]. unfold py_eqb. cbn. apply str_eqb_refl.
Qed.

Lemma jtype_all x : In (JStr (jtype x)) ALL_TYPES.
Proof. destruct x; cbv; auto 7. Qed.

Theorem invert_type v x :
  alt_valid [(kw "type", JArr (pdiff ALL_TYPES (to_list v)))] x <-> ~ kvalid (kw "type") v x.
Proof.
  rewrite alt_valid_1. kvat. unfold pdiff. rewrite names_filter. split.
  - intros [_ H] Hin. apply negb_true_iff in H.
    assert (pmem (JStr (jtype x)) (to_list v) = true); [|congruence].
    apply pmem_str. unfold type_names in *. destruct v; cbn [to_list] in *; exact Hin.
  - intros H. split; [apply jtype_all|]. apply negb_true_iff. destruct (pmem (JStr (jtype x)) (to_list v)) eqn:M; auto.
    exfalso. apply H. apply pmem_str in M. unfold type_names in *. destruct v; cbn [to_list] in *; exact M.
Qed.

Theorem invert_kw_type v : invert_kw (kw "type") v = Ok (JObj [(kw "type", JArr (pdiff ALL_TYPES (to_list v)))]).
Proof. reflexivity. Qed.

(* ---------- _merge on keyword sets without properties / prefixItems ---------- *)
Lemma dget_dset_same k v d : dget k (dset k v d) = Some v.
Proof.
  induction d as [|[k' v'] r IH]; cbn [dset dget]; [rewrite str_eqb_refl; reflexivity|].
  destruct (str_eqb k' k) eqn:E; cbn [dget]; [rewrite str_eqb_refl; reflexivity|rewrite E; exact IH].
Qed.

Definition simple (d : dict) : Prop := dhas (kw "prefixItems") d = false /\ dhas (kw "properties") d = false.

(* the loop over the keys of the accumulator *)
Lemma merge_loop b : forall (l : dict) acc r,
  NoDup (map fst l) ->
  foldM (fun acc '(key, _) =>
           match dget key acc, dget key b with
           | Some value, Some other =>
               match simple_merge key value other with
               | Some m => do v <- m; Ok (dset key v acc)
               | None => if is_complex key then Ok acc else nerr
               end
           | _, _ => Ok acc
           end) l acc = Ok r ->
  forall k, dget k r =
    if existsb (str_eqb k) (map fst l) then
      match dget k acc, dget k b with
      | Some va, Some vb => match simple_merge k va vb with
                            | Some (Ok v) => Some v
                            | _ => dget k acc end
      | _, _ => dget k acc
      end
    else dget k acc.
Proof.
  induction l as [|[key v0] l IH]; intros acc r ND H k; cbn [foldM map existsb fst] in *.
  - inversion H; subst. reflexivity.
  - inversion ND as [|x xs Nin ND']; subst.
    match type of H with bind ?X _ = _ => destruct X as [acc1| | |] eqn:E1 end; cbn [bind] in H; try discriminate.
    rewrite (IH acc1 r ND' H k).
    assert (Other : forall k', k' <> key -> dget k' acc1 = dget k' acc).
    { intros k' Nk. destruct (dget key acc) as [value|]; [|inversion E1; subst; auto].
      destruct (dget key b) as [other|]; [|inversion E1; subst; auto].
      destruct (simple_merge key value other) as [m|].
      - destruct m as [v| | |]; cbn [bind] in E1; try discriminate. inversion E1; subst.
        apply dget_dset_other. auto.
      - destruct (is_complex key); [inversion E1; subst; auto|discriminate]. }
    destruct (str_eqb k key) eqn:Ek.
    + apply str_eqb_eq in Ek. subst k. cbn [orb].
      assert (Nl : existsb (str_eqb key) (map fst l) = false).
      { destruct (existsb (str_eqb key) (map fst l)) eqn:X; auto. exfalso. apply Nin.
        apply existsb_exists in X. destruct X as (y & Hy & Ey). apply str_eqb_eq in Ey. subst. exact Hy. }
      rewrite Nl.
      destruct (dget key acc) as [value|] eqn:Ga; [|inversion E1; subst; rewrite Ga; reflexivity].
      destruct (dget key b) as [other|] eqn:Gb; [|inversion E1; subst; rewrite Ga; reflexivity].
      destruct (simple_merge key value other) as [m|].
      * destruct m as [v| | |]; cbn [bind] in E1; try discriminate. inversion E1; subst. apply dget_dset_same.
      * destruct (is_complex key); [inversion E1; subst; exact Ga|discriminate].
    + cbn [orb]. assert (Nk : k <> key) by (intros ->; rewrite str_eqb_refl in Ek; discriminate).
      rewrite (Other k Nk). reflexivity.
Qed.

Lemma copy_loop : forall (b : dict) acc k,
  dget k (fold_left (fun acc '(key, value) => if dhas key acc || is_complex key then acc else dset key value acc) b acc) =
  match dget k acc with Some v => Some v | None => if is_complex k then None else dget k b end.
Proof.
  induction b as [|[key value] b IH]; intros acc k; cbn [fold_left dget].
  - destruct (dget k acc); auto. destruct (is_complex k); auto.
  - rewrite IH. destruct (dhas key acc || is_complex key) eqn:C.
    + destruct (dget k acc) eqn:G; auto. destruct (is_complex k) eqn:Ck; auto.
      destruct (str_eqb key k) eqn:E; auto. apply str_eqb_eq in E. subst key.
      apply orb_true_iff in C. destruct C as [C|C]; [unfold dhas in C; rewrite G in C; discriminate|congruence].
    + apply orb_false_iff in C. destruct C as [C1 C2].
      destruct (str_eqb key k) eqn:E.
      * apply str_eqb_eq in E. subst key. rewrite dget_dset_same.
        unfold dhas in C1. destruct (dget k acc); [discriminate|]. rewrite C2. reflexivity.
      * rewrite dget_dset_other by (intros ->; rewrite str_eqb_refl in E; discriminate). reflexivity.
Qed.

Lemma existsb_keys k (d : dict) : existsb (str_eqb k) (map fst d) = dhas k d.
Proof.
  unfold dhas. induction d as [|[k' v'] d IH]; cbn [map existsb dget fst]; auto.
  destruct (str_eqb k k') eqn:E.
  - apply str_eqb_eq in E. subst. rewrite str_eqb_refl. reflexivity.
  - destruct (str_eqb k' k) eqn:E'; [apply str_eqb_eq in E'; subst; rewrite str_eqb_refl in E; discriminate|]. exact IH.
Qed.

Theorem merge2_get a b r : simple a -> simple b -> NoDup (map fst a) -> merge2 a b = Ok r ->
  forall k, dget k r =
    match dget k a, dget k b with
    | Some va, Some vb => match simple_merge k va vb with Some (Ok v) => Some v | _ => Some va end
    | Some va, None => Some va
    | None, vb => vb
    end.
Proof.
  intros [Sa1 Sa2] [Sb1 Sb2] ND H k. unfold merge2 in H. rewrite Sa1, Sb1 in H. cbn [orb bind] in H.
  rewrite Sa2, Sb2 in H. cbn [orb bind] in H.
  match type of H with bind ?X _ = _ => destruct X as [r3| | |] eqn:E3 end; cbn [bind] in H; try discriminate.
  inversion H; subst r. rewrite copy_loop. rewrite (merge_loop b a a r3 ND E3 k). rewrite existsb_keys. unfold dhas.
  destruct (dget k a) as [va|] eqn:Ga.
  - destruct (dget k b) as [vb|]; auto. destruct (simple_merge k va vb) as [[v| | |]|]; auto.
  - destruct (is_complex k) eqn:C; auto.
    unfold is_complex in C. apply orb_true_iff in C. destruct C as [C|C]; apply str_eqb_eq in C; subst k.
    + unfold dhas in Sb1. destruct (dget (kw "prefixItems") b); [discriminate|reflexivity].
    + unfold dhas in Sb2. destruct (dget (kw "properties") b); [discriminate|reflexivity].
Qed.

(* ---------- conjunction of bounds ---------- *)
Definition dvalid (d : dict) (x : json) : Prop := forall k v, dget k d = Some v -> kvalid k v x.

Definition BK : list str := kws ["minimum"; "maximum"; "minItems"; "maxItems"; "minLength"; "maxLength"]%string.
Definition bounds_only (d : dict) : Prop := forall k v, dget k d = Some v -> In k BK /\ exists z, v = JNum z.

Lemma bound_merge k a b x : In k BK ->
  exists c, simple_merge k (JNum a) (JNum b) = Some (Ok (JNum c)) /\
            (kvalid k (JNum c) x <-> kvalid k (JNum a) x /\ kvalid k (JNum b) x).
Proof.
  intros Hk. cbv in Hk. destruct Hk as [<-|[<-|[<-|[<-|[<-|[<-|[]]]]]]].
  - exists (Z.max a b). split; [reflexivity|]. kvat. split.
    + intros H. split; intros m z E1 E2; inversion E1; subst; specialize (H _ z eq_refl eq_refl); lia.
    + intros [H1 H2] m z E1 E2. inversion E1; subst. specialize (H1 _ z eq_refl eq_refl). specialize (H2 _ z eq_refl eq_refl). lia.
  - exists (Z.min a b). split; [reflexivity|]. kvat. split.
    + intros H. split; intros m z E1 E2; inversion E1; subst; specialize (H _ z eq_refl eq_refl); lia.
    + intros [H1 H2] m z E1 E2. inversion E1; subst. specialize (H1 _ z eq_refl eq_refl). specialize (H2 _ z eq_refl eq_refl). lia.
  - exists (Z.max a b). split; [reflexivity|]. kvat. split.
    + intros H. split; intros m z E1 E2; inversion E1; subst; specialize (H _ z eq_refl eq_refl); lia.
    + intros [H1 H2] m z E1 E2. inversion E1; subst. specialize (H1 _ z eq_refl eq_refl). specialize (H2 _ z eq_refl eq_refl). lia.
  - exists (Z.min a b). split; [reflexivity|]. kvat. split.
    + intros H. split; intros m z E1 E2; inversion E1; subst; specialize (H _ z eq_refl eq_refl); lia.
    + intros [H1 H2] m z E1 E2. inversion E1; subst. specialize (H1 _ z eq_refl eq_refl). specialize (H2 _ z eq_refl eq_refl). lia.
  - exists (Z.max a b). split; [reflexivity|]. kvat. split.
    + intros H. split; intros m z E1 E2; inversion E1; subst; specialize (H _ z eq_refl eq_refl); lia.
    + intros [H1 H2] m z E1 E2. inversion E1; subst. specialize (H1 _ z eq_refl eq_refl). specialize (H2 _ z eq_refl eq_refl). lia.
  - exists (Z.min a b). split; [reflexivity|]. kvat. split.
    + intros H. split; intros m z E1 E2; inversion E1; subst; specialize (H _ z eq_refl eq_refl); lia.
    + intros [H1 H2] m z E1 E2. inversion E1; subst. specialize (H1 _ z eq_refl eq_refl). specialize (H2 _ z eq_refl eq_refl). lia.
Qed.

Lemma bounds_simple d : bounds_only d -> simple d.
Proof.
  intros H. split; unfold dhas.
  - destruct (dget (kw "prefixItems") d) eqn:G; auto. destruct (H _ _ G) as [I _]. cbv in I.
    repeat (destruct I as [I|I]; [discriminate I|]). destruct I.
  - destruct (dget (kw "properties") d) eqn:G; auto. destruct (H _ _ G) as [I _]. cbv in I.
    repeat (destruct I as [I|I]; [discriminate I|]). destruct I.
Qed.

(* merging two sets of bounds yields a set that is satisfied exactly by the instances satisfying both *)
Theorem merge2_bounds a b r x : bounds_only a -> bounds_only b -> NoDup (map fst a) ->
  merge2 a b = Ok r -> (dvalid r x <-> dvalid a x /\ dvalid b x).
Proof.
  intros Ba Bb ND H.
  pose proof (merge2_get a b r (bounds_simple a Ba) (bounds_simple b Bb) ND H) as G.
  split.
  - intros Hr. split; intros k v Gk.
    + destruct (Ba k v Gk) as [Ik [za ->]]. specialize (G k). rewrite Gk in G.
      destruct (dget k b) as [vb|] eqn:Gb.
      * destruct (Bb k vb Gb) as [_ [zb ->]]. destruct (bound_merge k za zb x Ik) as (c & E & Eq). rewrite E in G.
        apply Eq. apply Hr. exact G.
      * apply Hr. exact G.
    + destruct (Bb k v Gk) as [Ik [zb ->]]. specialize (G k). rewrite Gk in G.
      destruct (dget k a) as [va|] eqn:Ga.
      * destruct (Ba k va Ga) as [_ [za ->]]. destruct (bound_merge k za zb x Ik) as (c & E & Eq). rewrite E in G.
        apply Eq. apply Hr. exact G.
      * apply Hr. exact G.
  - intros [Ha Hb] k v Gk. rewrite (G k) in Gk.
    destruct (dget k a) as [va|] eqn:Ga.
    + destruct (Ba k va Ga) as [Ik [za ->]]. destruct (dget k b) as [vb|] eqn:Gb.
      * destruct (Bb k vb Gb) as [_ [zb ->]]. destruct (bound_merge k za zb x Ik) as (c & E & Eq). rewrite E in Gk.
        inversion Gk; subst v. apply Eq. split; [apply Ha; exact Ga|apply Hb; exact Gb].
      * inversion Gk; subst. apply Ha. exact Ga.
    + apply Hb. exact Gk.
Qed.

(* XmlFence.v -- what parse_attribute hangs into the graph for an attribute with a fixed value (C07, at the level of the
   builder): the decision it returns offers exactly "attribute left out" -- marked valid exactly when the attribute is
   not required -- and "attribute present"; below the latter hang exactly two leaves, the fixed value marked valid and a
   different value marked invalid.  For every attribute declaration the three nodes it creates first keep their kinds
   (and labels) whatever the handlers called afterwards do. *)
From Coq Require Import String Ascii Lia List Arith.
From Fences Require Import Base Graph GraphSpec GraphLinks Xml XmlLinks.
Local Open Scope list_scope.

Definition xpaylen (st : xbst) : Prop := length (x_pay st) = xlen st.

(* ---------- one node more, one transition more: kinds, successors, payloads at every index ---------- *)
Lemma new_kind g k id m : kind_of (g ++ [mkNode k id [] []]) m = if m =? length g then k else kind_of g m.
Proof.
  unfold kind_of, getn. destruct (Nat.eqb_spec m (length g)) as [->|N].
  - rewrite app_nth2 by lia. rewrite Nat.sub_diag. reflexivity.
  - destruct (Nat.lt_ge_cases m (length g)) as [L|L]; [rewrite app_nth1 by exact L; reflexivity|].
    rewrite !nth_overflow; [reflexivity|lia|rewrite app_length; cbn; lia].
Qed.
Lemma new_outs g k id m : outs_of (g ++ [mkNode k id [] []]) m = if m =? length g then [] else outs_of g m.
Proof.
  unfold outs_of, getn. destruct (Nat.eqb_spec m (length g)) as [->|N].
  - rewrite app_nth2 by lia. rewrite Nat.sub_diag. reflexivity.
  - destruct (Nat.lt_ge_cases m (length g)) as [L|L]; [rewrite app_nth1 by exact L; reflexivity|].
    rewrite !nth_overflow; [reflexivity|lia|rewrite app_length; cbn; lia].
Qed.
Lemma new_pay (l : list xpayload) p m : nth m (l ++ [p]) XPNone = if m =? length l then p else nth m l XPNone.
Proof.
  destruct (Nat.eqb_spec m (length l)) as [->|N].
  - rewrite app_nth2 by lia. rewrite Nat.sub_diag. reflexivity.
  - destruct (Nat.lt_ge_cases m (length l)) as [L|L]; [rewrite app_nth1 by exact L; reflexivity|].
    rewrite !nth_overflow; [reflexivity|lia|rewrite app_length; cbn; lia].
Qed.
Lemma add_len g s t : length (add_transition g s t) = length g.
Proof. unfold add_transition. rewrite !upd_node_length. reflexivity. Qed.
Lemma add_kind g s t m : s < length g -> t < length g -> kind_of (add_transition g s t) m = kind_of g m.
Proof. intros Hs Ht. exact (proj1 (add_transition_spec g s t Hs Ht) m). Qed.
Lemma add_outs g s t m : s < length g -> t < length g ->
  outs_of (add_transition g s t) m = if m =? s then outs_of g s ++ [t] else outs_of g m.
Proof. intros Hs Ht. exact (proj1 (proj2 (add_transition_spec g s t Hs Ht)) m). Qed.

(* the state parse_attribute reaches before it looks at fixed / type / children *)
Definition attr_head3 (required : bool) (name : str) (p : xpath) (st : xbst) : xbst * nat * nat :=
  let '(st, super) := xnoop false (Some (path_str p)) st in
  let '(st, omit) := xnoop_leaf (negb required) None st in
  let st := xadd super omit st in
  let '(st, root) := xnew (KDec false false) None (XPAttr name) st in
  (xadd super root st, super, root).
Definition attr_head required name p st : xbst := fst (fst (attr_head3 required name p st)).

Lemma attr_head3_idx required name p st :
  attr_head3 required name p st = (attr_head required name p st, xlen st, xlen st + 2).
Proof.
  unfold attr_head, attr_head3, xnoop, xnoop_leaf, xnew, xadd, xlen. cbn [x_graph x_pay x_draws fst snd].
  f_equal. rewrite add_len, !app_length. cbn [length]. lia.
Qed.

Definition attr_fixed (required : bool) (name fixed : str) (p : xpath) (st : xbst) : xbst :=
  let '(st5, _, root) := attr_head3 required name p st in
  let '(st, l1) := xset true None fixed st5 in
  let st := xadd root l1 st in
  let '(st, l2) := xset false None (fixed ++ kw "_INVALID") st in
  xadd root l2 st.

Definition attr_required (e : xml) : bool :=
  match aget (kw "use") (attrs_of e) with Some u => str_eqb u (kw "required") | None => false end.

Ltac eqbs := repeat match goal with |- context [?a =? ?b] => destruct (Nat.eqb_spec a b); try lia end.

Lemma attr_head_spec required name p st : xpaylen st ->
  let n := xlen st in let st5 := attr_head required name p st in let g := x_graph st5 in
  xlen st5 = n + 3 /\ xpaylen st5 /\
  (forall m, kind_of g m = if m =? n then KDec false true else if m =? n + 1 then KLeaf (negb required)
                           else if m =? n + 2 then KDec false false else kind_of (x_graph st) m) /\
  (forall m, outs_of g m = if m =? n then [n + 1; n + 2] else if m =? n + 1 then [] else if m =? n + 2 then []
                           else outs_of (x_graph st) m) /\
  (forall m, xpay st5 m = if m =? n then XPNone else if m =? n + 1 then XPNone else if m =? n + 2 then XPAttr name
                          else xpay st m).
Proof.
  intros P n st5 g. unfold xpaylen, xlen in *. subst st5 g. unfold attr_head, attr_head3, xnoop, xnoop_leaf, xnew, xadd, xpay.
  cbn [x_graph x_pay x_draws fst snd]. fold n.
  set (g1 := x_graph st ++ [mkNode (KDec false true) (Some (path_str p)) [] []]).
  assert (L1 : length g1 = n + 1) by (unfold g1; rewrite app_length; cbn; lia).
  set (g2 := g1 ++ [mkNode (KLeaf (negb required)) (@None str) [] []]).
  assert (L2 : length g2 = n + 2) by (unfold g2; rewrite app_length; cbn; lia).
  set (g3 := add_transition g2 n (length g1)).
  assert (L3 : length g3 = n + 2) by (unfold g3; rewrite add_len; exact L2).
  set (g4 := g3 ++ [mkNode (KDec false false) (@None str) [] []]).
  assert (L4 : length g4 = n + 3) by (unfold g4; rewrite app_length; cbn; lia).
  split; [rewrite (add_len g4); exact L4|]. split; [rewrite (add_len g4), L4, !app_length, P; cbn; lia|].
  split; [|split].
  - intros m. rewrite add_kind by lia. unfold g4. rewrite new_kind, L3. unfold g3. rewrite add_kind by lia.
    unfold g2. rewrite new_kind, L1. unfold g1. rewrite new_kind. fold n. eqbs; reflexivity.
  - intros m. rewrite add_outs by lia. unfold g4. rewrite !new_outs, L3. unfold g3. rewrite !add_outs by lia.
    unfold g2. rewrite !new_outs, L1. unfold g1. rewrite !new_outs. fold n. eqbs; reflexivity.
  - intros m. rewrite !new_pay, !app_length, P. cbn [length]. fold n. eqbs; reflexivity.
Qed.

Lemma attr_fixed_spec required name fixed p st : xpaylen st ->
  let n := xlen st in let st' := attr_fixed required name fixed p st in let g := x_graph st' in
  xlen st' = n + 5 /\ xpaylen st' /\
  (forall m, kind_of g m = if m =? n then KDec false true else if m =? n + 1 then KLeaf (negb required)
                           else if m =? n + 2 then KDec false false else if m =? n + 3 then KLeaf true
                           else if m =? n + 4 then KLeaf false else kind_of (x_graph st) m) /\
  (forall m, outs_of g m = if m =? n then [n + 1; n + 2] else if m =? n + 2 then [n + 3; n + 4]
                           else if (n <? m) && (m <? n + 5) then [] else outs_of (x_graph st) m) /\
  (forall m, xpay st' m = if m =? n + 2 then XPAttr name else if m =? n + 3 then XPSet fixed
                          else if m =? n + 4 then XPSet (fixed ++ kw "_INVALID")
                          else if (n <=? m) && (m <? n + 2) then XPNone else xpay st m).
Proof.
  intros P n st' g. destruct (attr_head_spec required name p st P) as (L5 & P5 & K5 & O5 & Y5). cbv zeta in *.
  subst st' g. unfold attr_fixed. rewrite attr_head3_idx. set (st5 := attr_head required name p st) in *. fold n in L5, K5, O5, Y5 |- *.
  unfold xpaylen, xlen in *. unfold xset, xnew, xadd, xpay in *. cbn [x_graph x_pay x_draws fst snd].
  set (g5 := x_graph st5) in *.
  set (g6 := g5 ++ [mkNode (KLeaf true) (@None str) [] []]).
  assert (L6 : length g6 = n + 4) by (unfold g6; rewrite app_length, L5; cbn [length]; lia).
  set (g7 := add_transition g6 (n + 2) (length g5)).
  assert (L7 : length g7 = n + 4) by (unfold g7; rewrite add_len; exact L6).
  set (g8 := g7 ++ [mkNode (KLeaf false) (@None str) [] []]).
  assert (L8 : length g8 = n + 5) by (unfold g8; rewrite app_length, L7; cbn [length]; lia).
  split; [rewrite (add_len g8); exact L8|]. split; [rewrite (add_len g8), L8, !app_length, P5, L5; cbn; lia|].
  split; [|split].
  - intros m. rewrite add_kind by lia. unfold g8. rewrite new_kind, L7. unfold g7. rewrite add_kind by lia.
    unfold g6. rewrite new_kind, L5, K5. eqbs; reflexivity.
  - intros m. rewrite add_outs by lia. unfold g8. rewrite !new_outs, L7. unfold g7. rewrite !add_outs by lia.
    unfold g6. rewrite !new_outs, L5, !O5.
    destruct (Nat.ltb_spec n m); destruct (Nat.ltb_spec m (n + 5)); cbn [andb]; eqbs; reflexivity.
  - intros m. rewrite !new_pay, !app_length, P5, L5. cbn [length]. rewrite Y5.
    destruct (Nat.leb_spec n m); destruct (Nat.ltb_spec m (n + 2)); cbn [andb]; eqbs; reflexivity.
Qed.

Lemma app_neq_self (a b : str) : b <> [] -> a ++ b <> a.
Proof. intros Hb E. apply Hb. apply (app_inv_head a). rewrite app_nil_r. exact E. Qed.

Section Attr.
Variable rec : xml -> xpath -> xbst -> res (xbst * nat).

(* parse_attribute on a declaration with a fixed value is exactly that construction *)
Lemma h_attribute_fixed e parsed p st st' super parsed' :
  ahas "fixed" (attrs_of e) = true ->
  h_attribute rec e parsed p st = Ok (st', super, parsed') ->
  exists name fixed, aget (kw "name") (attrs_of e) = Some name /\ aget (kw "fixed") (attrs_of e) = Some fixed /\
    ahas "ref" (attrs_of e) = false /\ ahas "default" (attrs_of e) = false /\
    super = xlen st /\ st' = attr_fixed (attr_required e) name fixed p st.
Proof.
  intros F H. unfold h_attribute in H. destruct (ahas "ref" (attrs_of e)) eqn:ER; [discriminate|].
  unfold lookup in H. destruct (aget (kw "name") (attrs_of e)) as [name|] eqn:EN; cbn [bind] in H; [|discriminate].
  exists name. unfold attr_required.
  assert (HU : forall parsed1, (if ahas "use" (attrs_of e)
            then do '(u, parsed0) <- match aget (kw "use") (attrs_of e) with None => xerr | Some v => Ok (v, remove_key (kw "use") parsed1) end;
                 Ok (str_eqb u (kw "required"), parsed0) else Ok (false, parsed1))
          = Ok (match aget (kw "use") (attrs_of e) with Some u => str_eqb u (kw "required") | None => false end,
                if ahas "use" (attrs_of e) then remove_key (kw "use") parsed1 else parsed1)).
  { intros parsed1. unfold ahas. destruct (aget (kw "use") (attrs_of e)); reflexivity. }
  rewrite HU in H. cbn [bind] in H. clear HU.
  set (required := match aget (kw "use") (attrs_of e) with Some u => str_eqb u (kw "required") | None => false end) in *.
  set (parsed2 := if ahas "use" (attrs_of e) then _ else _) in H.
  rewrite F in H.
  destruct (ahas "default" (attrs_of e)) eqn:ED.
  { destruct required; cbn [bind] in H; [discriminate|].
    destruct (aget (kw "default") (attrs_of e)); cbn [bind] in H; [|discriminate].
    destruct (xnoop false (Some (path_str p)) st) as [s1 a1]. destruct (xnoop_leaf (negb false) None s1) as [s2 a2].
    destruct (xnew (KDec false false) None (XPAttr name) (xadd a1 a2 s2)) as [s3 a3].
    destruct (if ahas "type" (attrs_of e) then _ else _); cbn [bind] in H; discriminate. }
  cbn [bind] in H.
  unfold ahas in F. destruct (aget (kw "fixed") (attrs_of e)) as [fixed|] eqn:EF; [|discriminate].
  exists fixed. split; [reflexivity|]. split; [reflexivity|]. split; [reflexivity|]. split; [reflexivity|].
  unfold attr_fixed, attr_head3. unfold xnoop, xnoop_leaf, xset, xnew in *. cbn [fst snd] in *.
  assert (HT : forall parsed3, exists parsed4,
            (if ahas "type" (attrs_of e) then
               do '(_, parsed0) <- match aget (kw "type") (attrs_of e) with None => xerr | Some v => Ok (v, remove_key (kw "type") parsed3) end;
               Ok parsed0 else Ok parsed3) = Ok parsed4).
  { intros parsed3. unfold ahas. destruct (aget (kw "type") (attrs_of e)); cbn [bind]; eauto. }
  destruct (HT parsed2) as [parsed4 E4]. rewrite E4 in H. cbn [bind] in H.
  inversion H; subst. split; reflexivity.
Qed.

(* THE FENCE of a fixed attribute, on the state parse_attribute returns *)
Theorem attribute_fixed_fence e parsed p st st' super parsed' :
  xpaylen st -> ahas "fixed" (attrs_of e) = true ->
  h_attribute rec e parsed p st = Ok (st', super, parsed') ->
  let n := xlen st in let g := x_graph st' in
  exists name fixed, aget (kw "name") (attrs_of e) = Some name /\ aget (kw "fixed") (attrs_of e) = Some fixed /\
    super = n /\ xlen st' = n + 5 /\ xpaylen st' /\
    kind_of g n = KDec false true /\ outs_of g n = [n + 1; n + 2] /\
    kind_of g (n + 1) = KLeaf (negb (attr_required e)) /\ xpay st' (n + 1) = XPNone /\ outs_of g (n + 1) = [] /\
    kind_of g (n + 2) = KDec false false /\ xpay st' (n + 2) = XPAttr name /\ outs_of g (n + 2) = [n + 3; n + 4] /\
    kind_of g (n + 3) = KLeaf true /\ xpay st' (n + 3) = XPSet fixed /\
    kind_of g (n + 4) = KLeaf false /\ xpay st' (n + 4) = XPSet (fixed ++ kw "_INVALID") /\
    fixed ++ kw "_INVALID" <> fixed /\
    (forall m, m < n -> kind_of g m = kind_of (x_graph st) m /\ outs_of g m = outs_of (x_graph st) m /\ xpay st' m = xpay st m).
Proof.
  intros P F H n g. destruct (h_attribute_fixed e parsed p st st' super parsed' F H) as (name & fixed & EN & EF & _ & _ & ES & E').
  exists name, fixed. split; [exact EN|]. split; [exact EF|]. split; [exact ES|].
  destruct (attr_fixed_spec (attr_required e) name fixed p st P) as (L & P' & K & O & Y). cbv zeta in *.
  subst g. rewrite <- E' in *. fold n in L, K, O, Y.
  split; [exact L|]. split; [exact P'|].
  repeat match goal with |- _ /\ _ => split end;
    try (rewrite K; eqbs; reflexivity); try (rewrite Y; eqbs; reflexivity).
  - rewrite O. eqbs. reflexivity.
  - rewrite Y. eqbs. destruct (Nat.leb_spec n (n + 1)); destruct (Nat.ltb_spec (n + 1) (n + 2)); try lia. reflexivity.
  - rewrite O. eqbs. destruct (Nat.ltb_spec n (n + 1)); destruct (Nat.ltb_spec (n + 1) (n + 5)); try lia. reflexivity.
  - rewrite O. eqbs. reflexivity.
  - apply app_neq_self. discriminate.
  - intros m Hm. rewrite K, O, Y. eqbs.
    destruct (Nat.ltb_spec n m); destruct (Nat.leb_spec n m); try lia. cbn [andb]. auto.
Qed.
End Attr.

(* XmlFence.v -- what parse_attribute hangs into the graph for an attribute with a fixed value (C07, at the level of the
   builder): the decision it returns offers exactly "attribute left out" -- marked valid exactly when the attribute is
   not required -- and "attribute present"; below the latter hang exactly two leaves, the fixed value marked valid and a
   different value marked invalid.  For every attribute declaration the three nodes it creates first keep their kinds
   (and labels) whatever the handlers called afterwards do. *)
From Coq Require Import String Ascii Lia List Arith.
From Fences Require Import Base Graph GraphSpec GraphLinks Xml XmlLinks.
Local Open Scope list_scope.

Definition xpaylen (st : xbst) : Prop := length (x_pay st) = xlen st.

(* ---------- one node more, one transition more: kinds, successors, payloads at every index ---------- *)
Lemma new_kind g k id m : kind_of (g ++ [mkNode k id [] []]) m = if m =? length g then k else kind_of g m.
Proof.
  unfold kind_of, getn. destruct (Nat.eqb_spec m (length g)) as [->|N].
  - rewrite app_nth2 by lia. rewrite Nat.sub_diag. reflexivity.
  - destruct (Nat.lt_ge_cases m (length g)) as [L|L]; [rewrite app_nth1 by exact L; reflexivity|].
    rewrite !nth_overflow; [reflexivity|lia|rewrite app_length; cbn; lia].
Qed.
Lemma new_outs g k id m : outs_of (g ++ [mkNode k id [] []]) m = if m =? length g then [] else outs_of g m.
Proof.
  unfold outs_of, getn. destruct (Nat.eqb_spec m (length g)) as [->|N].
  - rewrite app_nth2 by lia. rewrite Nat.sub_diag. reflexivity.
  - destruct (Nat.lt_ge_cases m (length g)) as [L|L]; [rewrite app_nth1 by exact L; reflexivity|].
    rewrite !nth_overflow; [reflexivity|lia|rewrite app_length; cbn; lia].
Qed.
Lemma new_pay (l : list xpayload) p m : nth m (l ++ [p]) XPNone = if m =? length l then p else nth m l XPNone.
Proof.
  destruct (Nat.eqb_spec m (length l)) as [->|N].
  - rewrite app_nth2 by lia. rewrite Nat.sub_diag. reflexivity.
  - destruct (Nat.lt_ge_cases m (length l)) as [L|L]; [rewrite app_nth1 by exact L; reflexivity|].
    rewrite !nth_overflow; [reflexivity|lia|rewrite app_length; cbn; lia].
Qed.
Lemma add_len g s t : length (add_transition g s t) = length g.
Proof. unfold add_transition. rewrite !upd_node_length. reflexivity. Qed.
Lemma add_kind g s t m : s < length g -> t < length g -> kind_of (add_transition g s t) m = kind_of g m.
Proof. intros Hs Ht. exact (proj1 (add_transition_spec g s t Hs Ht) m). Qed.
Lemma add_outs g s t m : s < length g -> t < length g ->
  outs_of (add_transition g s t) m = if m =? s then outs_of g s ++ [t] else outs_of g m.
Proof. intros Hs Ht. exact (proj1 (proj2 (add_transition_spec g s t Hs Ht)) m). Qed.

(* the state parse_attribute reaches before it looks at fixed / type / children *)
Definition attr_head3 (required : bool) (name : str) (p : xpath) (st : xbst) : xbst * nat * nat :=
  let '(st, super) := xnoop false (Some (path_str p)) st in
  let '(st, omit) := xnoop_leaf (negb required) None st in
  let st := xadd super omit st in
  let '(st, root) := xnew (KDec false false) None (XPAttr name) st in
  (xadd super root st, super, root).
Definition attr_head required name p st : xbst := fst (fst (attr_head3 required name p st)).

Lemma attr_head3_idx required name p st :
  attr_head3 required name p st = (attr_head required name p st, xlen st, xlen st + 2).
Proof.
  unfold attr_head, attr_head3, xnoop, xnoop_leaf, xnew, xadd, xlen. cbn [x_graph x_pay x_draws fst snd].
  f_equal. rewrite add_len, !app_length. cbn [length]. lia.
Qed.

Definition attr_fixed (required : bool) (name fixed : str) (p : xpath) (st : xbst) : xbst :=
  let '(st5, _, root) := attr_head3 required name p st in
  let '(st, l1) := xset true None fixed st5 in
  let st := xadd root l1 st in
  let '(st, l2) := xset false None (fixed ++ kw "_INVALID") st in
  xadd root l2 st.

Definition attr_required (e : xml) : bool :=
  match aget (kw "use") (attrs_of e) with Some u => str_eqb u (kw "required") | None => false end.

Ltac eqbs := repeat match goal with |- context [?a =? ?b] => destruct (Nat.eqb_spec a b); try lia end.

Lemma attr_head_spec required name p st : xpaylen st ->
  let n := xlen st in let st5 := attr_head required name p st in let g := x_graph st5 in
  xlen st5 = n + 3 /\ xpaylen st5 /\
  (forall m, kind_of g m = if m =? n then KDec false true else if m =? n + 1 then KLeaf (negb required)
                           else if m =? n + 2 then KDec false false else kind_of (x_graph st) m) /\
  (forall m, outs_of g m = if m =? n then [n + 1; n + 2] else if m =? n + 1 then [] else if m =? n + 2 then []
                           else outs_of (x_graph st) m) /\
  (forall m, xpay st5 m = if m =? n then XPNone else if m =? n + 1 then XPNone else if m =? n + 2 then XPAttr name
                          else xpay st m).
Proof.
  intros P n st5 g. unfold xpaylen, xlen in *. subst st5 g. unfold attr_head, attr_head3, xnoop, xnoop_leaf, xnew, xadd, xpay.
  cbn [x_graph x_pay x_draws fst snd]. fold n.
  set (g1 := x_graph st ++ [mkNode (KDec false true) (Some (path_str p)) [] []]).
  assert (L1 : length g1 = n + 1) by (unfold g1; rewrite app_length; cbn; lia).
  set (g2 := g1 ++ [mkNode (KLeaf (negb required)) (@None str) [] []]).
  assert (L2 : length g2 = n + 2) by (unfold g2; rewrite app_length; cbn; lia).
  set (g3 := add_transition g2 n (length g1)).
  assert (L3 : length g3 = n + 2) by (unfold g3; rewrite add_len; exact L2).
  set (g4 := g3 ++ [mkNode (KDec false false) (@None str) [] []]).
  assert (L4 : length g4 = n + 3) by (unfold g4; rewrite app_length; cbn; lia).
  split; [rewrite (add_len g4); exact L4|]. split; [rewrite (add_len g4), L4, !app_length, P; cbn; lia|].
  split; [|split].
  - intros m. rewrite add_kind by lia. unfold g4. rewrite new_kind, L3. unfold g3. rewrite add_kind by lia.
    unfold g2. rewrite new_kind, L1. unfold g1. rewrite new_kind. fold n. eqbs; reflexivity.
  - intros m. rewrite add_outs by lia. unfold g4. rewrite !new_outs, L3. unfold g3. rewrite !add_outs by lia.
    unfold g2. rewrite !new_outs, L1. unfold g1. rewrite !new_outs. fold n. eqbs; reflexivity.
  - intros m. rewrite !new_pay, !app_length, P. cbn [length]. fold n. eqbs; reflexivity.
Qed.

Lemma attr_fixed_spec required name fixed p st : xpaylen st ->
  let n := xlen st in let st' := attr_fixed required name fixed p st in let g := x_graph st' in
  xlen st' = n + 5 /\ xpaylen st' /\
  (forall m, kind_of g m = if m =? n then KDec false true else if m =? n + 1 then KLeaf (negb required)
                           else if m =? n + 2 then KDec false false else if m =? n + 3 then KLeaf true
                           else if m =? n + 4 then KLeaf false else kind_of (x_graph st) m) /\
  (forall m, outs_of g m = if m =? n then [n + 1; n + 2] else if m =? n + 2 then [n + 3; n + 4]
                           else if (n <? m) && (m <? n + 5) then [] else outs_of (x_graph st) m) /\
  (forall m, xpay st' m = if m =? n + 2 then XPAttr name else if m =? n + 3 then XPSet fixed
                          else if m =? n + 4 then XPSet (fixed ++ kw "_INVALID")
                          else if (n <=? m) && (m <? n + 2) then XPNone else xpay st m).
Proof.
  intros P n st' g. destruct (attr_head_spec required name p st P) as (L5 & P5 & K5 & O5 & Y5). cbv zeta in *.
  subst st' g. unfold attr_fixed. rewrite attr_head3_idx. set (st5 := attr_head required name p st) in *. fold n in L5, K5, O5, Y5 |- *.
  unfold xpaylen, xlen in *. unfold xset, xnew, xadd, xpay in *. cbn [x_graph x_pay x_draws fst snd].
  set (g5 := x_graph st5) in *.
  set (g6 := g5 ++ [mkNode (KLeaf true) (@None str) [] []]).
  assert (L6 : length g6 = n + 4) by (unfold g6; rewrite app_length, L5; cbn [length]; lia).
  set (g7 := add_transition g6 (n + 2) (length g5)).
  assert (L7 : length g7 = n + 4) by (unfold g7; rewrite add_len; exact L6).
  set (g8 := g7 ++ [mkNode (KLeaf false) (@None str) [] []]).
  assert (L8 : length g8 = n + 5) by (unfold g8; rewrite app_length, L7; cbn [length]; lia).
  split; [rewrite (add_len g8); exact L8|]. split; [rewrite (add_len g8), L8, !app_length, P5, L5; cbn; lia|].
  split; [|split].
  - intros m. rewrite add_kind by lia. unfold g8. rewrite new_kind, L7. unfold g7. rewrite add_kind by lia.
    unfold g6. rewrite new_kind, L5, K5. eqbs; reflexivity.
  - intros m. rewrite add_outs by lia. unfold g8. rewrite !new_outs, L7. unfold g7. rewrite !add_outs by lia.
    unfold g6. rewrite !new_outs, L5, !O5.
    destruct (Nat.ltb_spec n m); destruct (Nat.ltb_spec m (n + 5)); cbn [andb]; eqbs; reflexivity.
  - intros m. rewrite !new_pay, !app_length, P5, L5. cbn [length]. rewrite Y5.
    destruct (Nat.leb_spec n m); destruct (Nat.ltb_spec m (n + 2)); cbn [andb]; eqbs; reflexivity.
Qed.

Lemma app_neq_self (a b : str) : b <> [] -> a ++ b <> a.
Proof. intros Hb E. apply Hb. apply (app_inv_head a). rewrite app_nil_r. exact E. Qed.

Section Attr.
Variable rec : xml -> xpath -> xbst -> res (xbst * nat).

(* parse_attribute on a declaration with a fixed value is exactly that construction *)
Lemma h_attribute_fixed e parsed p st st' super parsed' :
  ahas "fixed" (attrs_of e) = true ->
  h_attribute rec e parsed p st = Ok (st', super, parsed') ->
  exists name fixed, aget (kw "name") (attrs_of e) = Some name /\ aget (kw "fixed") (attrs_of e) = Some fixed /\
    ahas "ref" (attrs_of e) = false /\ ahas "default" (attrs_of e) = false /\
    super = xlen st /\ st' = attr_fixed (attr_required e) name fixed p st.
Proof.
  intros F H. unfold h_attribute in H. destruct (ahas "ref" (attrs_of e)) eqn:ER; [discriminate|].
  unfold lookup in H. destruct (aget (kw "name") (attrs_of e)) as [name|] eqn:EN; cbn [bind] in H; [|discriminate].
  exists name. unfold attr_required.
  assert (HU : forall parsed1, (if ahas "use" (attrs_of e)
            then do '(u, parsed0) <- match aget (kw "use") (attrs_of e) with None => xerr | Some v => Ok (v, remove_key (kw "use") parsed1) end;
                 Ok (str_eqb u (kw "required"), parsed0) else Ok (false, parsed1))
          = Ok (match aget (kw "use") (attrs_of e) with Some u => str_eqb u (kw "required") | None => false end,
                if ahas "use" (attrs_of e) then remove_key (kw "use") parsed1 else parsed1)).
  { intros parsed1. unfold ahas. destruct (aget (kw "use") (attrs_of e)); reflexivity. }
  rewrite HU in H. cbn [bind] in H. clear HU.
  set (required := match aget (kw "use") (attrs_of e) with Some u => str_eqb u (kw "required") | None => false end) in *.
  set (parsed2 := if ahas "use" (attrs_of e) then _ else _) in H.
  rewrite F in H.
  destruct (ahas "default" (attrs_of e)) eqn:ED.
  { destruct required; cbn [bind] in H; [discriminate|].
    destruct (aget (kw "default") (attrs_of e)); cbn [bind] in H; [|discriminate].
    destruct (xnoop false (Some (path_str p)) st) as [s1 a1]. destruct (xnoop_leaf (negb false) None s1) as [s2 a2].
    destruct (xnew (KDec false false) None (XPAttr name) (xadd a1 a2 s2)) as [s3 a3].
    destruct (if ahas "type" (attrs_of e) then _ else _); cbn [bind] in H; discriminate. }
  cbn [bind] in H.
  unfold ahas in F. destruct (aget (kw "fixed") (attrs_of e)) as [fixed|] eqn:EF; [|discriminate].
  exists fixed. split; [reflexivity|]. split; [reflexivity|]. split; [reflexivity|]. split; [reflexivity|].
  unfold attr_fixed, attr_head3. unfold xnoop, xnoop_leaf, xset, xnew in *. cbn [fst snd] in *.
  assert (HT : forall parsed3, exists parsed4,
            (if ahas "type" (attrs_of e) then
               do '(_, parsed0) <- match aget (kw "type") (attrs_of e) with None => xerr | Some v => Ok (v, remove_key (kw "type") parsed3) end;
               Ok parsed0 else Ok parsed3) = Ok parsed4).
  { intros parsed3. unfold ahas. destruct (aget (kw "type") (attrs_of e)); cbn [bind]; eauto. }
  destruct (HT parsed2) as [parsed4 E4]. rewrite E4 in H. cbn [bind] in H.
  inversion H; subst. split; reflexivity.
Qed.

(* THE FENCE of a fixed attribute, on the state parse_attribute returns *)
Theorem attribute_fixed_fence e parsed p st st' super parsed' :
  xpaylen st -> ahas "fixed" (attrs_of e) = true ->
  h_attribute rec e parsed p st = Ok (st', super, parsed') ->
  let n := xlen st in let g := x_graph st' in
  exists name fixed, aget (kw "name") (attrs_of e) = Some name /\ aget (kw "fixed") (attrs_of e) = Some fixed /\
    super = n /\ xlen st' = n + 5 /\ xpaylen st' /\
    kind_of g n = KDec false true /\ outs_of g n = [n + 1; n + 2] /\
    kind_of g (n + 1) = KLeaf (negb (attr_required e)) /\ xpay st' (n + 1) = XPNone /\ outs_of g (n + 1) = [] /\
    kind_of g (n + 2) = KDec false false /\ xpay st' (n + 2) = XPAttr name /\ outs_of g (n + 2) = [n + 3; n + 4] /\
    kind_of g (n + 3) = KLeaf true /\ xpay st' (n + 3) = XPSet fixed /\
    kind_of g (n + 4) = KLeaf false /\ xpay st' (n + 4) = XPSet (fixed ++ kw "_INVALID") /\
    fixed ++ kw "_INVALID" <> fixed /\
    (forall m, m < n -> kind_of g m = kind_of (x_graph st) m /\ outs_of g m = outs_of (x_graph st) m /\ xpay st' m = xpay st m).
Proof.
  intros P F H n g. destruct (h_attribute_fixed e parsed p st st' super parsed' F H) as (name & fixed & EN & EF & _ & _ & ES & E').
  exists name, fixed. split; [exact EN|]. split; [exact EF|]. split; [exact ES|].
  destruct (attr_fixed_spec (attr_required e) name fixed p st P) as (L & P' & K & O & Y). cbv zeta in *.
  subst g. rewrite <- E' in *. fold n in L, K, O, Y.
  split; [exact L|]. split; [exact P'|].
  repeat match goal with |- _ /\ _ => split end;
    try (rewrite K; eqbs; reflexivity); try (rewrite Y; eqbs; reflexivity).
  - rewrite O. eqbs. reflexivity.
  - rewrite Y. eqbs. destruct (Nat.leb_spec n (n + 1)); destruct (Nat.ltb_spec (n + 1) (n + 2)); try lia. reflexivity.
  - rewrite O. eqbs. destruct (Nat.ltb_spec n (n + 1)); destruct (Nat.ltb_spec (n + 1) (n + 5)); try lia. reflexivity.
  - rewrite O. eqbs. reflexivity.
  - apply app_neq_self. discriminate.
  - intros m Hm. rewrite K, O, Y. eqbs.
    destruct (Nat.ltb_spec n m); destruct (Nat.leb_spec n m); try lia. cbn [andb]. auto.
Qed.
End Attr.

(* ---------- _repeat: what hangs below the decision it returns ---------- *)
Lemma xadd_times_spec : forall k s t st, s < xlen st -> t < xlen st ->
  let st' := xadd_times k s t st in
  xlen st' = xlen st /\ x_pay st' = x_pay st /\
  (forall m, kind_of (x_graph st') m = kind_of (x_graph st) m) /\
  (forall m, outs_of (x_graph st') m = if m =? s then outs_of (x_graph st) s ++ repeat t k else outs_of (x_graph st) m).
Proof.
  induction k as [|k IH]; intros s t st Hs Ht; cbn [xadd_times].
  - split; [reflexivity|]. split; [reflexivity|]. split; [reflexivity|]. intros m. cbn [repeat]. rewrite app_nil_r.
    destruct (Nat.eqb_spec m s) as [->|]; reflexivity.
  - assert (L1 : xlen (xadd s t st) = xlen st) by (unfold xlen, xadd; cbn [x_graph]; apply add_len).
    destruct (IH s t (xadd s t st)) as (L & Y & K & O); [lia|lia|]. cbv zeta in *.
    split; [lia|]. split; [rewrite Y; reflexivity|]. unfold xlen in *. split.
    + intros m. rewrite K. unfold xadd. cbn [x_graph]. apply add_kind; assumption.
    + intros m. rewrite O. unfold xadd. cbn [x_graph]. rewrite !add_outs by assumption. rewrite Nat.eqb_refl.
      destruct (Nat.eqb_spec m s); [|reflexivity]. rewrite <- app_assoc. reflexivity.
Qed.

(* one alternative more: a do-all with k copies of the child, optionally followed by an invalid leaf *)
Definition rep_stage (root child k : nat) (leaf : bool) (st : xbst) : xbst :=
  let '(st, sub) := xnoop true None st in
  let st := xadd_times k sub child st in
  let st := if leaf then let '(st, l) := xnoop_leaf false None st in xadd sub l st else st in
  xadd root sub st.

Lemma rep_stage_spec root child k leaf st : root < xlen st -> child < xlen st ->
  let n := xlen st in let st' := rep_stage root child k leaf st in let g := x_graph st' in
  xlen st' = n + (if leaf then 2 else 1) /\
  (forall m, m < n -> kind_of g m = kind_of (x_graph st) m) /\
  (forall m, m < n -> outs_of g m = if m =? root then outs_of (x_graph st) root ++ [n] else outs_of (x_graph st) m) /\
  kind_of g n = KDec true true /\
  outs_of g n = repeat child k ++ (if leaf then [n + 1] else []) /\
  (leaf = true -> kind_of g (n + 1) = KLeaf false /\ outs_of g (n + 1) = []).
Proof.
  intros Hr Hc n st' g. subst st' g. unfold rep_stage, xnoop, xnoop_leaf, xnew. cbn [fst snd].
  set (s1 := mkXbst (x_graph st ++ [mkNode (KDec true true) (@None str) [] []]) (x_pay st ++ [XPNone]) (x_draws st)).
  assert (L1 : xlen s1 = n + 1) by (unfold s1, xlen; cbn [x_graph]; rewrite app_length; cbn [length]; fold (xlen st); lia).
  fold (xlen st). fold n.
  destruct (xadd_times_spec k n child s1) as (L2 & _ & K2 & O2); [lia|lia|]. cbv zeta in *.
  set (s2 := xadd_times k n child s1) in *.
  assert (K1 : forall m, kind_of (x_graph s1) m = if m =? n then KDec true true else kind_of (x_graph st) m)
    by (intros m; unfold s1; cbn [x_graph]; apply new_kind).
  assert (O1 : forall m, outs_of (x_graph s1) m = if m =? n then [] else outs_of (x_graph st) m)
    by (intros m; unfold s1; cbn [x_graph]; apply new_outs).
  destruct leaf.
  - set (g3 := x_graph s2 ++ [mkNode (KLeaf false) (@None str) [] []]).
    assert (L3 : length g3 = n + 2) by (unfold g3; rewrite app_length; cbn [length]; fold (xlen s2); lia).
    unfold xadd, xlen in *. cbn [x_graph x_pay x_draws]. fold g3.
    set (g4 := add_transition g3 n (length (x_graph s2))).
    assert (L4 : length g4 = n + 2) by (unfold g4; rewrite add_len; exact L3).
    split; [rewrite (add_len g4); exact L4|].
    split; [intros m Hm; rewrite add_kind by lia; unfold g4; rewrite add_kind by lia; unfold g3; rewrite new_kind, K2, K1; eqbs; reflexivity|].
    split; [intros m Hm; rewrite add_outs by lia; unfold g4; rewrite !add_outs by lia; unfold g3; rewrite !new_outs, !O2, !O1; eqbs; reflexivity|].
    split; [rewrite add_kind by lia; unfold g4; rewrite add_kind by lia; unfold g3; rewrite new_kind, K2, K1; eqbs; reflexivity|].
    split; [rewrite add_outs by lia; unfold g4; rewrite !add_outs by lia; unfold g3; rewrite !new_outs, !O2, !O1, L2, L1; eqbs; reflexivity|].
    intros _. split.
    + rewrite add_kind by lia. unfold g4. rewrite add_kind by lia. unfold g3. rewrite new_kind. eqbs. reflexivity.
    + rewrite add_outs by lia. unfold g4. rewrite !add_outs by lia. unfold g3. rewrite !new_outs. eqbs. reflexivity.
  - unfold xadd, xlen in *. cbn [x_graph x_pay x_draws].
    split; [rewrite (add_len (x_graph s2)); lia|].
    split; [intros m Hm; rewrite add_kind by lia; rewrite K2, K1; eqbs; reflexivity|].
    split; [intros m Hm; rewrite add_outs by lia; rewrite !O2, !O1; eqbs; reflexivity|].
    split; [rewrite add_kind by lia; rewrite K2, K1; eqbs; reflexivity|].
    split; [rewrite add_outs by lia; rewrite !O2, !O1; eqbs; rewrite app_nil_r; reflexivity|].
    discriminate.
Qed.

(* an alternative below the decision of _repeat: no occurrence (valid exactly when minOccurs = 0), k occurrences with
   k = minOccurs or k = maxOccurs, or minOccurs - 1 occurrences followed by a leaf marked invalid *)
Definition RAlt (mn mx child root : nat) (g : graph) (a : nat) : Prop :=
  (kind_of g a = KLeaf (mn =? 0) /\ outs_of g a = []) \/
  (kind_of g a = KDec true true /\ exists k, outs_of g a = repeat child k /\ (k = mn \/ k = mx) /\ mn <= k <= mx) \/
  (kind_of g a = KDec true true /\ 1 < mn /\ exists l, outs_of g a = repeat child (mn - 1) ++ [l] /\
     root < l < length g /\ kind_of g l = KLeaf false /\ outs_of g l = []).
Definition RI (mn mx child root : nat) (st0 st : xbst) : Prop :=
  let g := x_graph st in
  child < root /\ root = xlen st0 /\ root < xlen st /\ kind_of g root = KDec false true /\
  (forall a, In a (outs_of g root) -> root < a < xlen st /\ RAlt mn mx child root g a) /\
  (forall m, m < xlen st0 -> kind_of g m = kind_of (x_graph st0) m /\ outs_of g m = outs_of (x_graph st0) m).

Lemma RI_stage mn mx child root k leaf st0 st :
  RI mn mx child root st0 st ->
  (leaf = false -> (k = mn \/ k = mx) /\ mn <= k <= mx) -> (leaf = true -> k = mn - 1 /\ 1 < mn) ->
  RI mn mx child root st0 (rep_stage root child k leaf st).
Proof.
  intros (Hc & Hr0 & Hr & Kr & A & Old) HF HT.
  destruct (rep_stage_spec root child k leaf st Hr ltac:(lia)) as (L & K & O & Kn & On & Ln). cbv zeta in *.
  set (st' := rep_stage root child k leaf st) in *. set (n := xlen st) in *.
  assert (Lgt : n < xlen st') by (destruct leaf; cbv iota in L; lia).
  assert (Ln' : leaf = true -> n + 1 < xlen st') by (intros E; rewrite E in L; cbv iota in L; lia).
  clear L.
  unfold RI. cbv zeta. split; [exact Hc|]. split; [exact Hr0|]. split; [lia|]. split; [rewrite K by lia; exact Kr|]. split.
  - intros a Ha. rewrite O in Ha by lia. rewrite Nat.eqb_refl in Ha. apply in_app_or in Ha. destruct Ha as [Ha|[<-|[]]].
    + destruct (A a Ha) as [Ra Alt]. split; [lia|].
      assert (Ea : a =? root = false) by (apply Nat.eqb_neq; lia).
      destruct Alt as [(Ka & Oa)|[(Ka & kk & Oa & Hk)|(Ka & Hm & l & Oa & Rl & Kl & Ol)]].
      * left. rewrite K, O by lia. rewrite Ea. auto.
      * right; left. rewrite K, O by lia. rewrite Ea. eauto.
      * right; right. rewrite K, O by lia. rewrite Ea. split; [exact Ka|]. split; [exact Hm|]. exists l.
        assert (El : l =? root = false) by (apply Nat.eqb_neq; lia). fold (xlen st) in Rl. fold (xlen st').
        rewrite K, O by lia. rewrite El. repeat split; auto; lia.
    + split; [lia|]. destruct leaf.
      * destruct (HT eq_refl) as [-> Hm]. destruct (Ln eq_refl) as [Kl Ol]. right; right. split; [exact Kn|]. split; [exact Hm|].
        exists (n + 1). fold (xlen st'). pose proof (Ln' eq_refl). repeat split; auto; lia.
      * destruct (HF eq_refl) as [Hk Hb]. right; left. split; [exact Kn|]. exists k. rewrite On, app_nil_r. auto.
  - intros m Hm. destruct (Old m Hm) as [E1 E2]. assert (Em : m =? root = false) by (apply Nat.eqb_neq; lia).
    assert (Lm : m < n) by (unfold n; lia). rewrite K, O by exact Lm. rewrite Em. auto.
Qed.

Theorem repeat_node_alternatives child mn mx st st' root :
  child < xlen st -> repeat_node child mn mx st = Ok (st', root) ->
  let mx' := match mx with None => mn + 1 | Some m => m end in
  mn <= mx' /\ RI mn mx' child root st st'.
Proof.
  intros Hc H mx'. unfold repeat_node in H. unfold xnoop, xnoop_leaf, xnew in H. cbn [fst snd] in H. fold mx' in H.
  destruct (Nat.ltb_spec mx' mn) as [|Hle]; [discriminate|]. split; [exact Hle|].
  set (n := length (x_graph st)) in *.
  set (s1 := mkXbst (x_graph st ++ [mkNode (KDec false true) (@None str) [] []]) (x_pay st ++ [XPNone]) (x_draws st)) in *.
  set (s2 := mkXbst (x_graph s1 ++ [mkNode (KLeaf (mn =? 0)) (@None str) [] []]) (x_pay s1 ++ [XPNone]) (x_draws s1)) in *.
  set (s3 := xadd n (length (x_graph s1)) s2) in *.
  assert (L1 : length (x_graph s1) = n + 1) by (unfold s1; cbn [x_graph]; rewrite app_length; cbn [length]; fold n; lia).
  assert (L2 : length (x_graph s2) = n + 2) by (unfold s2; cbn [x_graph]; rewrite app_length, L1; cbn [length]; lia).
  assert (R3 : RI mn mx' child n st s3).
  { unfold RI, s3, xadd, xlen. cbn [x_graph]. cbv zeta. fold n. rewrite add_len, L2.
    assert (KK : forall m, kind_of (add_transition (x_graph s2) n (length (x_graph s1))) m =
                           if m =? n + 1 then KLeaf (mn =? 0) else if m =? n then KDec false true else kind_of (x_graph st) m).
    { intros m. rewrite add_kind by lia. unfold s2. cbn [x_graph]. rewrite new_kind, L1. unfold s1. cbn [x_graph].
      rewrite new_kind. fold n. reflexivity. }
    assert (OO : forall m, outs_of (add_transition (x_graph s2) n (length (x_graph s1))) m =
                           if m =? n then [n + 1] else if m =? n + 1 then [] else outs_of (x_graph st) m).
    { intros m. rewrite add_outs by lia. unfold s2. cbn [x_graph]. rewrite !new_outs, L1. unfold s1. cbn [x_graph].
      rewrite !new_outs. fold n. eqbs; reflexivity. }
    split; [exact Hc|]. split; [reflexivity|]. split; [lia|]. split; [rewrite KK; eqbs; reflexivity|]. split.
    - intros a Ha. rewrite OO, Nat.eqb_refl in Ha. destruct Ha as [<-|[]]. split; [lia|]. left.
      rewrite KK, OO. eqbs; split; reflexivity.
    - intros m Hm. rewrite KK, OO. eqbs; split; reflexivity. }
  clearbody s3. clear s1 s2 L1 L2.
  set (s4 := if 0 <? mn then _ else s3) in H.
  assert (R4 : RI mn mx' child n st s4).
  { unfold s4. destruct (Nat.ltb_spec 0 mn); [|exact R3].
    apply (RI_stage mn mx' child n mn false st s3 R3); [intros _; split; [left; reflexivity|lia]|discriminate]. }
  clearbody s4.
  set (s5 := if 1 <? mn then _ else s4) in H.
  assert (R5 : RI mn mx' child n st s5).
  { unfold s5. destruct (Nat.ltb_spec 1 mn); [|exact R4].
    apply (RI_stage mn mx' child n (mn - 1) true st s4 R4); [discriminate|intros _; split; [reflexivity|assumption]]. }
  clearbody s5.
  destruct (Nat.eqb_spec mx' mn) as [E|NE]; injection H as <- <-; [exact R5|].
  apply (RI_stage mn mx' child n mx' false st s5 R5); [intros _; split; [right; reflexivity|lia]|discriminate].
Qed.

(* ---------- the other direction: the boundary cases are all offered ---------- *)
Inductive rshape := SEmpty (b : bool) | SK (k : nat) | SInv (k : nat).
Definition Has (child root : nat) (g : graph) (s : rshape) : Prop :=
  exists a, In a (outs_of g root) /\ root < a < length g /\
    match s with
    | SEmpty b => kind_of g a = KLeaf b /\ outs_of g a = []
    | SK k => kind_of g a = KDec true true /\ outs_of g a = repeat child k
    | SInv k => kind_of g a = KDec true true /\ exists l, outs_of g a = repeat child k ++ [l] /\ root < l < length g /\
                                                     kind_of g l = KLeaf false /\ outs_of g l = []
    end.

Lemma Has_stage_keep child root k leaf st s : root < xlen st -> child < xlen st ->
  Has child root (x_graph st) s -> Has child root (x_graph (rep_stage root child k leaf st)) s.
Proof.
  intros Hr Hc (a & Ha & Ra & Sa).
  destruct (rep_stage_spec root child k leaf st Hr Hc) as (L & K & O & _). cbv zeta in *.
  set (st' := rep_stage root child k leaf st) in *. unfold xlen in *.
  assert (Lgt : length (x_graph st) < length (x_graph st')) by (destruct leaf; cbv iota in L; lia).
  exists a. split; [rewrite O by lia; rewrite Nat.eqb_refl; apply in_or_app; left; exact Ha|]. split; [lia|].
  assert (Ea : a =? root = false) by (apply Nat.eqb_neq; lia).
  destruct s as [b|kk|kk].
  - rewrite K, O by lia. rewrite Ea. exact Sa.
  - rewrite K, O by lia. rewrite Ea. exact Sa.
  - destruct Sa as (Ka & l & Oa & Rl & Kl & Ol). rewrite K, O by lia. rewrite Ea. split; [exact Ka|]. exists l.
    assert (El : l =? root = false) by (apply Nat.eqb_neq; lia). rewrite K, O by lia. rewrite El. repeat split; auto; lia.
Qed.

Lemma Has_stage_new child root k leaf st : root < xlen st -> child < xlen st ->
  Has child root (x_graph (rep_stage root child k leaf st)) (if leaf then SInv k else SK k).
Proof.
  intros Hr Hc. destruct (rep_stage_spec root child k leaf st Hr Hc) as (L & K & O & Kn & On & Ln). cbv zeta in *.
  set (st' := rep_stage root child k leaf st) in *. unfold xlen in *. set (n := length (x_graph st)) in *.
  exists n. split; [rewrite O by lia; rewrite Nat.eqb_refl; apply in_or_app; right; left; reflexivity|].
  destruct leaf; cbv iota in L.
  - split; [lia|]. split; [exact Kn|]. exists (n + 1). destruct (Ln eq_refl) as [Kl Ol]. repeat split; auto; lia.
  - split; [lia|]. split; [exact Kn|]. rewrite On, app_nil_r. reflexivity.
Qed.

Lemma rep_stage_len root child k leaf st : root < xlen st -> child < xlen st -> xlen st < xlen (rep_stage root child k leaf st).
Proof. intros Hr Hc. destruct (rep_stage_spec root child k leaf st Hr Hc) as (L & _). cbv zeta in L. destruct leaf; cbv iota in L; lia. Qed.

Theorem repeat_node_offers child mn mx st st' root :
  child < xlen st -> repeat_node child mn mx st = Ok (st', root) ->
  let mx' := match mx with None => mn + 1 | Some m => m end in
  let g := x_graph st' in
  Has child root g (SEmpty (mn =? 0)) /\
  (0 < mn -> Has child root g (SK mn)) /\
  (1 < mn -> Has child root g (SInv (mn - 1))) /\
  (mx' <> mn -> Has child root g (SK mx')).
Proof.
  intros Hc H mx' g. subst g. unfold repeat_node in H. unfold xnoop, xnoop_leaf, xnew in H. cbn [fst snd] in H. fold mx' in H.
  destruct (Nat.ltb_spec mx' mn) as [|Hle]; [discriminate|].
  set (n := length (x_graph st)) in *.
  set (s1 := mkXbst (x_graph st ++ [mkNode (KDec false true) (@None str) [] []]) (x_pay st ++ [XPNone]) (x_draws st)) in *.
  set (s2 := mkXbst (x_graph s1 ++ [mkNode (KLeaf (mn =? 0)) (@None str) [] []]) (x_pay s1 ++ [XPNone]) (x_draws s1)) in *.
  set (s3 := xadd n (length (x_graph s1)) s2) in *.
  assert (L1 : length (x_graph s1) = n + 1) by (unfold s1; cbn [x_graph]; rewrite app_length; cbn [length]; fold n; lia).
  assert (L2 : length (x_graph s2) = n + 2) by (unfold s2; cbn [x_graph]; rewrite app_length, L1; cbn [length]; lia).
  assert (L3 : xlen s3 = n + 2) by (unfold s3, xadd, xlen; cbn [x_graph]; rewrite add_len; exact L2).
  assert (H3 : Has child n (x_graph s3) (SEmpty (mn =? 0))).
  { exists (n + 1). unfold s3, xadd. cbn [x_graph]. rewrite add_len, L2.
    rewrite add_kind, !add_outs by lia. rewrite Nat.eqb_refl. unfold s2. cbn [x_graph]. rewrite new_kind, !new_outs, L1.
    unfold s1. cbn [x_graph]. rewrite !new_outs. fold n. rewrite Nat.eqb_refl.
    eqbs; (split; [left; reflexivity|]; split; [lia|]; split; reflexivity). }
  unfold xlen in Hc. fold n in Hc.
  clearbody s3. clear s1 s2 L1 L2.
  set (s4 := if 0 <? mn then _ else s3) in H.
  assert (R4 : n + 2 <= xlen s4 /\ Has child n (x_graph s4) (SEmpty (mn =? 0)) /\ (0 < mn -> Has child n (x_graph s4) (SK mn))).
  { unfold s4. destruct (Nat.ltb_spec 0 mn); [|split; [lia|split; [exact H3|lia]]].
    pose proof (rep_stage_len n child mn false s3 ltac:(lia) ltac:(lia)).
    split; [unfold rep_stage, xnoop, xnew in *; cbn [fst snd] in *; lia|].
    split; [apply (Has_stage_keep child n mn false s3); [lia|lia|exact H3]|intros _; apply (Has_stage_new child n mn false s3); lia]. }
  clearbody s4. clear H3 L3 s3. destruct R4 as (L4 & E4 & M4).
  set (s5 := if 1 <? mn then _ else s4) in H.
  assert (R5 : n + 2 <= xlen s5 /\ Has child n (x_graph s5) (SEmpty (mn =? 0)) /\ (0 < mn -> Has child n (x_graph s5) (SK mn)) /\
               (1 < mn -> Has child n (x_graph s5) (SInv (mn - 1)))).
  { unfold s5. destruct (Nat.ltb_spec 1 mn); [|split; [lia|split; [exact E4|split; [exact M4|lia]]]].
    pose proof (rep_stage_len n child (mn - 1) true s4 ltac:(lia) ltac:(lia)).
    split; [unfold rep_stage, xnoop, xnoop_leaf, xnew in *; cbn [fst snd] in *; lia|].
    split; [apply (Has_stage_keep child n (mn - 1) true s4); [lia|lia|exact E4]|].
    split; [intros Hm; apply (Has_stage_keep child n (mn - 1) true s4); [lia|lia|exact (M4 Hm)]|].
    intros _. apply (Has_stage_new child n (mn - 1) true s4); lia. }
  clearbody s5. clear E4 M4 L4 s4. destruct R5 as (L5 & E5 & M5 & I5).
  destruct (Nat.eqb_spec mx' mn) as [E|NE]; injection H as <- <-.
  - split; [exact E5|]. split; [exact M5|]. split; [exact I5|]. intros X; contradiction.
  - split; [apply (Has_stage_keep child n mx' false s5); [lia|lia|exact E5]|].
    split; [intros Hm; apply (Has_stage_keep child n mx' false s5); [lia|lia|exact (M5 Hm)]|].
    split; [intros Hm; apply (Has_stage_keep child n mx' false s5); [lia|lia|exact (I5 Hm)]|].
    intros _. apply (Has_stage_new child n mx' false s5); lia.
Qed.

(* ---------- every attribute declaration: the three nodes parse_attribute creates first keep their kinds ---------- *)
Lemma attr_head_gi required name p st : gi st -> gi (attr_head required name p st).
Proof.
  intros G. unfold attr_head, attr_head3, xnoop, xnoop_leaf.
  destruct (gi_new (KDec false true) (Some (path_str p)) XPNone st G) as (G1 & E1 & L1 & K1 & S1). cbv zeta in *.
  destruct (xnew (KDec false true) (Some (path_str p)) XPNone st) as [st1 super] eqn:EN1. cbn [fst snd] in *. subst super.
  assert (D1 : is_dec (x_graph st1) (xlen st) = true) by (unfold is_dec; rewrite K1; reflexivity).
  destruct (gi_new (KLeaf (negb required)) None XPNone st1 G1) as (G2 & E2 & L2 & K2 & S2). cbv zeta in *.
  destruct (xnew (KLeaf (negb required)) None XPNone st1) as [st2 omit] eqn:EN2. cbn [fst snd] in *. subst omit.
  destruct (gi_add (xlen st) (xlen st1) st2 G2) as (G3 & E3 & L3); [apply (xext_dec st1); auto; lia|lia|].
  set (st3 := xadd (xlen st) (xlen st1) st2) in *.
  destruct (gi_new (KDec false false) None (XPAttr name) st3 G3) as (G4 & E4 & L4 & K4 & S4). cbv zeta in *.
  destruct (xnew (KDec false false) None (XPAttr name) st3) as [st4 root] eqn:EN4. cbn [fst snd] in *. subst root.
  assert (E14 : xext st1 st4) by (eapply xext_trans; [exact E2|eapply xext_trans; eauto]).
  destruct (gi_add (xlen st) (xlen st3) st4 G4) as (G5 & E5 & L5); [apply (xext_dec st1); auto; lia|lia|].
  exact G5.
Qed.

Section AttrAll.
Variable rec : xml -> xpath -> xbst -> res (xbst * nat).

Theorem attribute_omission_label e parsed p st st' super parsed' :
  rec_good rec e -> gi st -> xpaylen st ->
  h_attribute rec e parsed p st = Ok (st', super, parsed') ->
  let n := xlen st in let g := x_graph st' in
  super = n /\ n + 3 <= xlen st' /\
  kind_of g n = KDec false true /\ kind_of g (n + 1) = KLeaf (negb (attr_required e)) /\ kind_of g (n + 2) = KDec false false.
Proof.
  intros HR G P H n g.
  assert (Goal5 : forall name, xext (attr_head (attr_required e) name p st) st' ->
            n + 3 <= xlen st' /\ kind_of g n = KDec false true /\ kind_of g (n + 1) = KLeaf (negb (attr_required e)) /\
            kind_of g (n + 2) = KDec false false).
  { intros name [Lx Kx]. destruct (attr_head_spec (attr_required e) name p st P) as (L5 & _ & K5 & _). cbv zeta in *.
    fold n in L5, K5. rewrite L5 in *. split; [lia|]. subst g. rewrite !Kx by lia. rewrite !K5. eqbs. auto. }
  unfold h_attribute in H. destruct (ahas "ref" (attrs_of e)) eqn:ER; [discriminate|].
  unfold lookup in H. destruct (aget (kw "name") (attrs_of e)) as [name|] eqn:EN; cbn [bind] in H; [|discriminate].
  assert (HU : forall parsed1, (if ahas "use" (attrs_of e)
            then do '(u, parsed0) <- match aget (kw "use") (attrs_of e) with None => xerr | Some v => Ok (v, remove_key (kw "use") parsed1) end;
                 Ok (str_eqb u (kw "required"), parsed0) else Ok (false, parsed1))
          = Ok (attr_required e, if ahas "use" (attrs_of e) then remove_key (kw "use") parsed1 else parsed1)).
  { intros parsed1. unfold attr_required, ahas. destruct (aget (kw "use") (attrs_of e)); reflexivity. }
  rewrite HU in H. cbn [bind] in H. clear HU.
  set (parsed2 := if ahas "use" (attrs_of e) then _ else _) in H.
  match type of H with bind ?X _ = _ => destruct X as [parsed3| | |] end; cbn [bind] in H; try discriminate.
  pose proof (attr_head3_idx (attr_required e) name p st) as E3. unfold attr_head3 in E3.
  pose proof (attr_head_gi (attr_required e) name p st G) as G5.
  destruct (attr_head_spec (attr_required e) name p st P) as (L5 & _ & K5 & _). cbv zeta in L5, K5.
  set (st5 := attr_head (attr_required e) name p st) in *.
  destruct (xnoop false (Some (path_str p)) st) as [s1 a1]. destruct (xnoop_leaf (negb (attr_required e)) None s1) as [s2 a2].
  destruct (xnew (KDec false false) None (XPAttr name) (xadd a1 a2 s2)) as [s3 a3].
  pose proof (f_equal (fun x => fst (fst x)) E3) as E3a. pose proof (f_equal (fun x => snd (fst x)) E3) as E3b.
  pose proof (f_equal snd E3) as E3c. cbn [fst snd] in E3a, E3b, E3c. clear E3.
  rewrite E3b, E3c in *. rewrite E3a in H. clear E3a E3b E3c.
  assert (D5 : is_dec (x_graph st5) (xlen st + 2) = true) by (unfold is_dec; rewrite K5; fold n; eqbs; reflexivity).
  destruct (ahas "fixed" (attrs_of e)).
  - match type of H with bind ?X _ = _ => destruct X as [parsed4| | |] end; cbn [bind] in H; try discriminate.
    destruct (ahas "default" (attrs_of e)); [discriminate|].
    destruct (aget (kw "fixed") (attrs_of e)) as [fixed|]; cbn [bind] in H; [|discriminate].
    destruct (xset_good true None fixed st5 G5) as (G6 & E6 & L6). destruct (xset true None fixed st5) as [st6 l1]. cbn [fst snd] in *.
    destruct (gi_add (xlen st + 2) l1 st6 G6) as (G7 & E7 & L7); [apply (xext_dec st5); auto; lia|exact L6|].
    destruct (xset_good false None (fixed ++ kw "_INVALID") (xadd (xlen st + 2) l1 st6) G7) as (G8 & E8 & L8).
    destruct (xset false None (fixed ++ kw "_INVALID") (xadd (xlen st + 2) l1 st6)) as [st8 l2]. cbn [fst snd] in *.
    assert (E58 : xext st5 st8) by (eapply xext_trans; [exact E6|eapply xext_trans; eauto]).
    destruct (gi_add (xlen st + 2) l2 st8 G8) as (G9 & E9 & L9); [apply (xext_dec st5); auto; lia|exact L8|].
    injection H as <- <- _. split; [reflexivity|]. apply (Goal5 name). eapply xext_trans; eauto.
  - destruct (ahas "type" (attrs_of e)).
    + destruct (kids_of e); [|discriminate].
      destruct (aget (kw "type") (attrs_of e)) as [ty|]; cbn [bind] in H; [|discriminate].
      destruct (resolve_type_good ty st5 G5) as (G6 & E6 & L6). destruct (resolve_type ty st5) as [st6 t]. cbn [fst snd] in *.
      destruct (gi_add (xlen st + 2) t st6 G6) as (G7 & E7 & L7); [apply (xext_dec st5); auto; lia|exact L6|].
      injection H as <- <- _. split; [reflexivity|]. apply (Goal5 name). eapply xext_trans; eauto.
    + destruct (attach_children rec (xlen st + 2) e p st5) as [st6| | |] eqn:EA; cbn [bind] in H; try discriminate.
      destruct (attach_good rec (xlen st + 2) e p st5 st6 HR G5) as [G6 E6]; [lia|exact D5|exact EA|].
      injection H as <- <- _. split; [reflexivity|]. apply (Goal5 name). exact E6.
Qed.
End AttrAll.

(* ---------- _parse_occurs: what the two numbers handed to _repeat are ---------- *)
Theorem parse_occurs_spec a parsed mn mx parsed' : parse_occurs a parsed = Ok (mn, mx, parsed') ->
  (match aget (kw "minOccurs") a with None => mn = 1 | Some s => parse_int s = Some mn end) /\
  (match aget (kw "maxOccurs") a with
   | None => mx = Some 1
   | Some s => if str_eqb s (kw "unbounded") then mx = None else parse_int s = mx /\ mx <> None
   end).
Proof.
  unfold parse_occurs, lookup, ahas. intros H.
  destruct (aget (kw "minOccurs") a) as [s1|]; cbn [bind] in H.
  - destruct (parse_int s1) as [n1|] eqn:E1; cbn [bind] in H; [|discriminate].
    destruct (aget (kw "maxOccurs") a) as [s2|]; cbn [bind] in H.
    + destruct (str_eqb s2 (kw "unbounded")); cbn [bind] in H; [injection H as <- <- _; auto|].
      destruct (parse_int s2) as [n2|] eqn:E2; cbn [bind] in H; [|discriminate]. injection H as <- <- _. split; [reflexivity|]. split; [reflexivity|discriminate].
    + injection H as <- <- _. auto.
  - destruct (aget (kw "maxOccurs") a) as [s2|]; cbn [bind] in H.
    + destruct (str_eqb s2 (kw "unbounded")); cbn [bind] in H; [injection H as <- <- _; auto|].
      destruct (parse_int s2) as [n2|] eqn:E2; cbn [bind] in H; [|discriminate]. injection H as <- <- _. split; [reflexivity|]. split; [reflexivity|discriminate].
    + injection H as <- <- _. auto.
Qed.

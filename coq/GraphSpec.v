(* GraphSpec.v -- SPECIFICATION vocabulary for the decision-graph properties (C03-C05, C11, C14, C15).
   Short definitions meant to be read; the proofs are in the Graph*Proofs files. *)
From Fences Require Export Graph.

(* both directions of every parent/child link are recorded, with the right index
   (= fences.core.debug.check_consistency, for every node of the table) *)
Definition ins_ok (g : graph) : Prop :=
  forall n s i, In (s, i) (ins_of g n) -> is_dec g s = true /\ nth_error (outs_of g s) i = Some n.
Definition outs_ok (g : graph) : Prop :=
  forall s i t, nth_error (outs_of g s) i = Some t -> In (s, i) (ins_of g t).
Definition consistent (g : graph) : Prop := ins_ok g /\ outs_ok g.

Definition norefs (g : graph) : Prop := forall n name, kind_of g n <> KRef name.
Definition nonempty_decs (g : graph) : Prop := forall n, is_dec g n = true -> outs_of g n <> [].

Inductive reach (g : graph) (r : nat) : nat -> Prop :=
| reach_refl : reach g r r
| reach_step s i t : reach g r s -> nth_error (outs_of g s) i = Some t -> reach g r t.

(* "well-formed decision graph" of C03/C04/C05 *)
Record wf (g : graph) (root : nat) : Prop := mkWf {
  wf_cons : consistent g;
  wf_norefs : norefs g;
  wf_nonempty : nonempty_decs g;
  wf_reach : forall n, n < length g -> reach g root n;
  wf_root_in : root < length g;
  wf_root : ins_of g root = []
}.

(* n has a completion that applies valid leaves only *)
Inductive VC (g : graph) : nat -> Prop :=
| VC_leaf n : leaf_is g true n = true -> VC g n
| VC_all n : is_dec g n = true -> is_all g n = true ->
             (forall t, In t (outs_of g n) -> VC g t) -> VC g n
| VC_one n t : is_dec g n = true -> is_all g n = false ->
               In t (outs_of g n) -> VC g t -> VC g n.

Definition invalid_leaves (g : graph) (tr : list nat) : list nat := filter (leaf_is g false) tr.

(* [spine g n p l e]: following the indices [p] from [n] passes exactly the nodes [l] and ends in [e] *)
Inductive spine (g : graph) : nat -> list nat -> list nat -> nat -> Prop :=
| spine_nil n : spine g n [] [n] n
| spine_cons s i t p l e :
    is_dec g s = true -> nth_error (outs_of g s) i = Some t ->
    spine g t p l e -> spine g s (i :: p) (s :: l) e.

(* every branch that a do-all decision on the spine must take besides the spine itself
   can be completed with valid leaves *)
Fixpoint sibs_VC (g : graph) (n : nat) (p : list nat) : Prop :=
  match p with
  | [] => True
  | i :: p' =>
    (is_all g n = true -> forall j t, j <> i -> nth_error (outs_of g n) j = Some t -> VC g t) /\
    match nth_error (outs_of g n) i with Some t => sibs_VC g t p' | None => True end
  end.

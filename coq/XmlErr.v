(* XmlErr.v -- the XSD front end can only fail with the library's own exception (or run out of recursion depth) unless
   a restriction carries an ill-typed facet: no other Python exception is reachable from any element tree (C17). *)
From Coq Require Import String Ascii ZArith Lia.
From Fences Require Import Xml ErrClass.
Local Open Scope list_scope.

(* descendant-or-self *)
Inductive subel : xml -> xml -> Prop :=
| sub_refl e : subel e e
| sub_kid d c e : In c (kids_of e) -> subel d c -> subel d e.

(* the first child with the given tag: the value of its attribute 'value' *)
Fixpoint first_facet (t : str) (l : list xml) : option (option str) :=
  match l with
  | [] => None
  | c :: r => if str_eqb (tag_of c) t then Some (aget (kw "value") (attrs_of c)) else first_facet t r
  end.

Definition facet_nat (t : string) (e : xml) : option (option nat) :=
  match first_facet (kw t) (kids_of e) with
  | Some (Some s) => Some (parse_int s)
  | _ => None
  end.

(* the facets of a restriction are well typed: every enumeration has a value; minLength / maxLength are numbers in
   order; no pattern facet (outside the model) *)
Definition rok (e : xml) : bool :=
  match kids_of e with
  | [] => true
  | first :: _ =>
    if is_tag (tag_of first) "enumeration" then forallb (fun c => ahas "value" (attrs_of c)) (kids_of e)
    else
      forallb (fun c => negb (is_tag (tag_of c) "pattern")) (kids_of e)
      && match facet_nat "minLength" e with Some None => false | _ => true end
      && match facet_nat "maxLength" e with Some None => false | _ => true end
      && match facet_nat "minLength" e, facet_nat "maxLength" e with
         | Some (Some mn), Some (Some mx) => mn <=? mx
         | _, _ => true
         end
  end.

Lemma lookup_own a k parsed : own (lookup a k parsed).
Proof. unfold lookup. destruct (aget (kw k) a); exact I. Qed.

Lemma parse_occurs_own a parsed : own (parse_occurs a parsed).
Proof.
  unfold parse_occurs. apply own_bind.
  - destruct (ahas "minOccurs" a); [|exact I]. apply own_bind; [apply lookup_own|]. intros [s p] _. destruct (parse_int s); exact I.
  - intros [mn p1] _. apply own_bind; [|intros [mx p2] _; exact I].
    destruct (ahas "maxOccurs" a); [|exact I]. apply own_bind; [apply lookup_own|]. intros [s p] _.
    destruct (str_eqb s (kw "unbounded")); [exact I|]. destruct (parse_int s); exact I.
Qed.

Lemma repeat_node_own child mn mx st : own (repeat_node child mn mx st).
Proof.
  unfold repeat_node. destruct (xnoop false None st) as [st1 root]. destruct (xnoop_leaf (mn =? 0) None st1) as [st2 l].
  destruct (match mx with Some m => m | None => mn + 1 end <? mn); exact I.
Qed.

Section Handlers.
Variable rec : xml -> xpath -> xbst -> res (xbst * nat).

Lemma attach_own root e p st : (forall c sp st, In c (kids_of e) -> own (rec c sp st)) -> own (attach_children rec root e p st).
Proof.
  intros H. unfold attach_children. apply own_foldM. intros st0 [sp c] Hin. apply own_bind.
  - apply H. clear - Hin. revert Hin. generalize (@nil str). generalize (kids_of e).
    induction l as [|c0 l IH]; intros seen Hin; cbn [enum_kids] in Hin; [destruct Hin|].
    destruct Hin as [E|Hin]; [inversion E; subst; left; reflexivity|right; eapply IH; eauto].
  - intros [st1 n] _. exact I.
Qed.

Lemma opt_name_own (e : xml) parsed :
  own (if ahas "name" (attrs_of e) then do '(_, parsed) <- lookup (attrs_of e) "name" parsed; Ok parsed else Ok parsed).
Proof. destruct (ahas "name" (attrs_of e)); [|exact I]. apply own_bind; [apply lookup_own|]. intros [a b] _. exact I. Qed.

Lemma h_sequence_own e parsed p st : (forall c sp st, In c (kids_of e) -> own (rec c sp st)) -> own (h_sequence rec e parsed p st).
Proof.
  intros H. unfold h_sequence. apply own_bind; [apply opt_name_own|]. intros parsed1 _.
  destruct (xnoop true (Some (path_str p)) st) as [st1 root]. apply own_bind; [apply attach_own; exact H|].
  intros st2 _. destruct (outs_of (x_graph st2) root); [destruct (xnoop_leaf true None st2)|]; exact I.
Qed.

Lemma h_choice_own e parsed p st : (forall c sp st, In c (kids_of e) -> own (rec c sp st)) -> own (h_choice rec e parsed p st).
Proof.
  intros H. unfold h_choice. apply own_bind; [apply opt_name_own|]. intros parsed1 _.
  destruct (xnoop false (Some (path_str p)) st) as [st1 root]. apply own_bind; [apply attach_own; exact H|].
  intros st2 _. exact I.
Qed.

Lemma h_type_own e parsed p st : (forall c sp st, In c (kids_of e) -> own (rec c sp st)) -> own (h_type rec e parsed p st).
Proof.
  intros H. unfold h_type. apply own_bind.
  - destruct (ahas "name" (attrs_of e)); [|exact I]. apply own_bind; [apply lookup_own|]. intros [a b] _. exact I.
  - intros [name parsed1] _. destruct (xnoop true name st) as [st1 root]. apply own_bind; [apply attach_own; exact H|].
    intros st2 _. destruct (outs_of (x_graph st2) root); [destruct (xnoop_leaf true None st2)|]; exact I.
Qed.

Lemma h_content_own e parsed p st : (forall c sp st, In c (kids_of e) -> own (rec c sp st)) -> own (h_content rec e parsed p st).
Proof.
  intros H. unfold h_content. destruct (xnoop true (Some (path_str p)) st) as [st1 root].
  apply own_bind; [apply attach_own; exact H|]. intros st2 _. exact I.
Qed.

Lemma h_extension_own e parsed p st : (forall c sp st, In c (kids_of e) -> own (rec c sp st)) -> own (h_extension rec e parsed p st).
Proof.
  intros H. unfold h_extension. destruct (xnoop true (Some (path_str p)) st) as [st1 root].
  apply own_bind; [apply lookup_own|]. intros [base parsed1] _. destruct (resolve_type base st1) as [st2 b].
  apply own_bind; [apply attach_own; exact H|]. intros st3 _. exact I.
Qed.

Lemma h_leaf_own p parsed st : own (h_leaf p parsed st).
Proof. unfold h_leaf. destruct (xnoop_leaf true (Some (path_str p)) st). exact I. Qed.

Lemma h_any_own e parsed p st : own (h_any e parsed p st).
Proof.
  unfold h_any. apply own_bind; [|intros; apply h_leaf_own].
  destruct (ahas "processContents" (attrs_of e)); [|exact I]. apply own_bind; [apply lookup_own|]. intros [a b] _. exact I.
Qed.

Lemma h_element_own e parsed p st : (forall c sp st, In c (kids_of e) -> own (rec c sp st)) -> own (h_element rec e parsed p st).
Proof.
  intros H. unfold h_element. apply own_bind; [apply lookup_own|]. intros [name parsed1] _.
  destruct (ahas "type" (attrs_of e)).
  - apply own_bind; [apply lookup_own|]. intros [ty parsed2] _.
    destruct (xnew (KDec false false) (Some (path_str p)) (XPElem name) st) as [st1 root].
    destruct (resolve_type ty st1). exact I.
  - destruct (kids_of e) as [|c [|c2 r]] eqn:K; try exact I.
    destruct (xnew (KDec false false) (Some (path_str p)) (XPElem name) st) as [st1 root].
    apply own_bind; [apply H; left; reflexivity|]. intros [st2 n] _. exact I.
Qed.

Lemma h_attribute_own e parsed p st : (forall c sp st, In c (kids_of e) -> own (rec c sp st)) -> own (h_attribute rec e parsed p st).
Proof.
  intros H. unfold h_attribute. destruct (ahas "ref" (attrs_of e)); [exact I|].
  apply own_bind; [apply lookup_own|]. intros [name parsed1] _.
  apply own_bind.
  { destruct (ahas "use" (attrs_of e)); [|exact I]. apply own_bind; [apply lookup_own|]. intros [u p2] _. exact I. }
  intros [required parsed2] _. apply own_bind.
  { destruct (ahas "default" (attrs_of e)); [|exact I]. destruct required; [exact I|].
    apply own_bind; [apply lookup_own|]. intros [u p2] _. exact I. }
  intros parsed3 _.
  destruct (xnoop false (Some (path_str p)) st) as [st1 super]. destruct (xnoop_leaf (negb required) None st1) as [st2 omit].
  destruct (xnew (KDec false false) None (XPAttr name) (xadd super omit st2)) as [st3 root].
  destruct (ahas "fixed" (attrs_of e)).
  - apply own_bind.
    { destruct (ahas "type" (attrs_of e)); [|exact I]. apply own_bind; [apply lookup_own|]. intros [u p2] _. exact I. }
    intros parsed4 _. destruct (ahas "default" (attrs_of e)); [exact I|].
    apply own_bind; [apply lookup_own|]. intros [fixed parsed5] _.
    destruct (xset true None fixed (xadd super root st3)) as [st4 l1].
    destruct (xset false None (fixed ++ kw "_INVALID") (xadd root l1 st4)). exact I.
  - destruct (ahas "type" (attrs_of e)).
    + destruct (kids_of e); [|exact I]. apply own_bind; [apply lookup_own|]. intros [ty parsed4] _.
      destruct (resolve_type ty (xadd super root st3)). exact I.
    + apply own_bind; [apply attach_own; exact H|]. intros st4 _. exact I.
Qed.
End Handlers.

(* ---------- restrictions ---------- *)
Lemma aget_app t acc t' v : aget t (acc ++ [(t', v)]) =
  match aget t acc with Some x => Some x | None => if str_eqb t' t then Some v else None end.
Proof.
  induction acc as [|[k x] acc IH]; cbn [app aget]; [reflexivity|]. destruct (str_eqb k t); [reflexivity|exact IH].
Qed.

Definition props_step := (fun (acc : list (str * str)) (c : xml) =>
   match attrs_of c with
   | [(k, v)] => if str_eqb k (kw "value")
                 then (match aget (tag_of c) acc with Some _ => xerr | None => Ok (acc ++ [(tag_of c, v)]) end)
                 else xerr
   | _ => xerr
   end).

Lemma str_eqb_eq' a b : str_eqb a b = true -> a = b.
Proof. unfold str_eqb. destruct (list_eq_dec Nat.eq_dec a b); [auto|discriminate]. Qed.
Lemma str_eqb_refl' a : str_eqb a a = true.
Proof. unfold str_eqb. destruct (list_eq_dec Nat.eq_dec a a); congruence. Qed.

Lemma props_spec : forall kids acc props, foldM props_step kids acc = Ok props ->
  forall t, aget t props =
    match aget t acc with
    | Some v => Some v
    | None => match first_facet t kids with Some (Some v) => Some v | _ => None end
    end.
Proof.
  induction kids as [|c kids IH]; intros acc props H t; cbn [foldM first_facet] in *.
  - inversion H; subst. destruct (aget t props); reflexivity.
  - unfold props_step at 1 in H.
    destruct (attrs_of c) as [|[k v] [|x r]] eqn:A; try discriminate H.
    destruct (str_eqb k (kw "value")) eqn:Ek; [|discriminate H].
    destruct (aget (tag_of c) acc) eqn:G; [discriminate H|]. cbn [bind] in H.
    rewrite (IH _ _ H t), aget_app.
    destruct (aget t acc) eqn:Gt; [reflexivity|].
    destruct (str_eqb (tag_of c) t) eqn:Et.
    + apply str_eqb_eq' in Ek. subst k. cbn [aget]. rewrite str_eqb_refl'. reflexivity.
    + reflexivity.
Qed.

Lemma props_own kids acc : own (foldM props_step kids acc).
Proof.
  apply own_foldM. intros a c _. unfold props_step. destruct (attrs_of c) as [|[k v] [|x r]]; try exact I.
  destruct (str_eqb k (kw "value")); [|exact I]. destruct (aget (tag_of c) a); exact I.
Qed.

Lemma first_facet_pattern kids : first_facet (kw "pattern") kids <> None ->
  forallb (fun c => negb (is_tag (tag_of c) "pattern")) kids = false.
Proof.
  induction kids as [|c kids IH]; cbn [first_facet forallb]; [congruence|].
  unfold is_tag at 1. destruct (str_eqb (tag_of c) (kw "pattern")); cbn [negb andb]; auto.
Qed.

Lemma h_restriction_own e parsed p st : rok e = true -> own (h_restriction e parsed p st).
Proof.
  intros R. unfold h_restriction. apply own_bind; [apply lookup_own|]. intros [base parsed1] _.
  unfold rok in R. destruct (kids_of e) as [|first rest] eqn:K.
  - destruct (resolve_type base st). exact I.
  - destruct (is_tag (tag_of first) "enumeration").
    + destruct (negb (forallb (fun c => is_tag (tag_of c) "enumeration") (first :: rest))); [exact I|].
      destruct (xnoop false (Some (path_str p)) st) as [st1 root]. apply own_bind; [|intros; exact I].
      apply own_foldM. intros st0 c Hin. rewrite forallb_forall in R. specialize (R c Hin). unfold ahas in R.
      destruct (aget (kw "value") (attrs_of c)); [|discriminate]. destruct (xset true None s st0). exact I.
    + destruct (negb (existsb (fun c => is_tag (tag_of c) "pattern" || is_tag (tag_of c) "minLength" || is_tag (tag_of c) "maxLength") (first :: rest))); [exact I|].
      apply andb_true_iff in R. destruct R as [R R4]. apply andb_true_iff in R. destruct R as [R R3].
      apply andb_true_iff in R. destruct R as [R1 R2].
      apply own_bind; [apply (props_own (first :: rest) [])|]. intros props Hp.
      pose proof (props_spec _ _ _ Hp) as PS. cbn [aget] in PS.
      destruct (negb (str_eqb base (kw "xs:string") || str_eqb base (kw "xs:token"))); [exact I|].
      destruct (aget (kw "pattern") props) eqn:Gp.
      { exfalso. rewrite PS in Gp. assert (N : first_facet (kw "pattern") (first :: rest) <> None) by (destruct (first_facet (kw "pattern") (first :: rest)); congruence).
        rewrite (first_facet_pattern _ N) in R1. discriminate. }
      unfold facet_nat in R2, R3, R4. rewrite K in R2, R3, R4.
      pose proof (PS (kw "minLength")) as Pm. pose proof (PS (kw "maxLength")) as Px.
      assert (Fin : forall (mn : nat) (mx : option nat), (match mx with Some m => m <? mn | None => false end) = false ->
                own (let rest0 := filter (fun '(k, _) => negb (str_eqb k (kw "minLength") || str_eqb k (kw "maxLength"))) props in
                     if match mx with Some m => m <? mn | None => false end then PyErr EAssertionError else
                     match rest0 with
                     | [] => let '(st, l) := xset true (Some (path_str p)) (repeat 120 mn) st in Ok (st, l, parsed1)
                     | _ => xerr
                     end)).
      { intros mn mx E. cbv zeta. rewrite E. destruct (filter _ props); [destruct (xset true (Some (path_str p)) (repeat 120 mn) st)|]; exact I. }
      destruct (first_facet (kw "minLength") (first :: rest)) as [[sm|]|] eqn:Fm; rewrite Pm;
        destruct (first_facet (kw "maxLength") (first :: rest)) as [[sx|]|] eqn:Fx; rewrite Px;
        try (destruct (parse_int sm) as [nm|]; [|discriminate]); try (destruct (parse_int sx) as [nx|]; [|discriminate]);
        cbn [bind];
        first [ exact (Fin 0 None eq_refl) | exact (Fin nm None eq_refl)
              | exact (Fin 0 (Some nx) eq_refl)
              | refine (Fin nm (Some nx) _); apply Nat.ltb_ge; apply Nat.leb_le; exact R4 ].
Qed.

(* ---------- the dispatcher, parse_xml_element, parse ---------- *)
Lemma dispatch_own rec e parsed p st :
  (forall c sp st, In c (kids_of e) -> own (rec c sp st)) ->
  (is_tag (tag_of e) "restriction" = true -> rok e = true) ->
  own (dispatch rec e parsed p st).
Proof.
  intros H R. unfold dispatch.
  destruct (is_tag (tag_of e) "all" || is_tag (tag_of e) "sequence"); [apply h_sequence_own; exact H|].
  destruct (is_tag (tag_of e) "element"); [apply h_element_own; exact H|].
  destruct (is_tag (tag_of e) "choice"); [apply h_choice_own; exact H|].
  destruct (is_tag (tag_of e) "simpleType" || is_tag (tag_of e) "complexType"); [apply h_type_own; exact H|].
  destruct (is_tag (tag_of e) "simpleContent" || is_tag (tag_of e) "complexContent"); [apply h_content_own; exact H|].
  destruct (is_tag (tag_of e) "attribute"); [apply h_attribute_own; exact H|].
  destruct (is_tag (tag_of e) "annotation"); [apply h_leaf_own|].
  destruct (is_tag (tag_of e) "extension"); [apply h_extension_own; exact H|].
  destruct (is_tag (tag_of e) "restriction"); [apply h_restriction_own; apply R; reflexivity|].
  destruct (is_tag (tag_of e) "any"); [apply h_any_own|exact I].
Qed.

Definition facets_ok (e : xml) : Prop :=
  forall r, subel r e -> is_tag (tag_of r) "restriction" = true -> rok r = true.

Lemma parse_element_own : forall fuel e p st, facets_ok e -> own (parse_element fuel e p st).
Proof.
  induction fuel as [|f IH]; intros e p st F; cbn [parse_element]; [exact I|].
  apply own_bind.
  - apply dispatch_own.
    + intros c sp st0 Hin. apply IH. intros r Hr. apply F. eapply sub_kid; eauto.
    + apply F. constructor.
  - intros [[st1 node] parsed1] _. apply own_bind.
    + destruct (ahas "minOccurs" (attrs_of e) || ahas "maxOccurs" (attrs_of e)); [|exact I].
      apply own_bind; [apply parse_occurs_own|]. intros [[mn mx] parsed2] _.
      apply own_bind; [apply repeat_node_own|]. intros [st2 n] _. exact I.
    + intros [[st2 node2] parsed2] _. destruct parsed2; exact I.
Qed.

Theorem parse_xsd_own fuel schema draws : facets_ok schema -> own (parse_xsd fuel schema draws).
Proof.
  intros F. unfold parse_xsd. destruct (negb (is_tag (tag_of schema) "schema")); [exact I|].
  apply own_bind.
  - apply own_foldM. intros [[st elems] others] [sp c] Hin. apply own_bind.
    + apply parse_element_own. intros r Hr. apply F. eapply sub_kid; [|exact Hr].
      clear - Hin. revert Hin. generalize (@nil str). generalize (kids_of schema).
      induction l as [|c0 l IH]; intros seen Hin; cbn [enum_kids] in Hin; [destruct Hin|].
      destruct Hin as [E|Hin]; [inversion E; subst; left; reflexivity|right; eapply IH; eauto].
    + intros [st1 n] _. destruct (is_tag (tag_of c) "element"); exact I.
  - intros [[st elems] others] _. destruct elems as [|root rest]; [exact I|].
    apply own_bind; [apply resolve_own|]. intros [g r] _. apply own_bind; [apply optimize_own|]. intros g' _.
    destruct (xnew (KDec true false) (Some (path_str [(kw "schema", 0)])) XPStart (mkXbst g' (x_pay st) (x_draws st))) as [st2 super].
    destruct (xnew (KLeaf true) None (XPFetch (aget (kw "targetNamespace") (attrs_of schema))) (xadd super r st2)). exact I.
Qed.

(* the three ways a Python exception can escape, each with an ill-typed facet as its cause (XSD processors reject these) *)
Example bad_enumeration :
  parse_xsd 20 (XEl (kw "schema") [] [XEl (kw "element") [(kw "name", kw "r")]
     [XEl (kw "simpleType") [] [XEl (kw "restriction") [(kw "base", kw "xs:string")] [XEl (kw "enumeration") [] []]]]]) []
  = PyErr EKeyError.
Proof. vm_compute. reflexivity. Qed.

(* JsonLinks.v -- the table the JSON generator builds from a normal form is consistently linked; hence, after resolve(),
   optimize() and the input / output nodes, every node reachable from the root of the graph parse_nf returns is linked on
   both ends and is not a Reference (C14 for the JSON front end). *)
From Coq Require Import String Ascii ZArith Lia.
From Fences Require Import JsonGen GraphSpec GraphLinks GraphOps GraphResolve GraphOpt GraphOptLinks RegexLinks XmlLinks.
Local Open Scope list_scope.

Definition jlen (st : jbst) : nat := length (jb_graph st).
Definition jgi (st : jbst) : Prop := consistent (jb_graph st) /\ outs_dec (jb_graph st).
Definition jext (st st' : jbst) : Prop :=
  jlen st <= jlen st' /\ forall m, m < jlen st -> kind_of (jb_graph st') m = kind_of (jb_graph st) m.
Definition jgood (st st' : jbst) (n : nat) : Prop := jgi st' /\ jext st st' /\ n < jlen st'.

Lemma jext_refl st : jext st st. Proof. split; auto. Qed.
Lemma jext_trans a b c : jext a b -> jext b c -> jext a c.
Proof. intros [L1 K1] [L2 K2]. split; [lia|]. intros m Hm. rewrite K2 by lia. apply K1. exact Hm. Qed.
Lemma jext_dec st st' n : jext st st' -> n < jlen st -> is_dec (jb_graph st) n = true -> is_dec (jb_graph st') n = true.
Proof. intros [_ K] L D. unfold is_dec in *. rewrite (K n L). exact D. Qed.

Lemma jgi_new k id p st : jgi st ->
  let st' := fst (jnew k id p st) in
  jgi st' /\ jext st st' /\ jlen st' = S (jlen st) /\ kind_of (jb_graph st') (jlen st) = k /\ snd (jnew k id p st) = jlen st.
Proof.
  intros [C O]. cbn [jnew fst snd]. unfold gi, jext, jlen. cbn [jb_graph].
  split; [split; [apply new_node_consistent; exact C|exact (apply_op_outs_dec _ (NewNode k id) O)]|].
  split; [split; [rewrite app_length; cbn; lia|]|split; [rewrite app_length; cbn; lia|split; [|reflexivity]]].
  - intros m Hm. unfold kind_of, getn. rewrite app_nth1 by exact Hm. reflexivity.
  - unfold kind_of, getn. rewrite app_nth2 by lia. rewrite Nat.sub_diag. reflexivity.
Qed.

Lemma jgi_add s t st : jgi st -> is_dec (jb_graph st) s = true -> t < jlen st ->
  jgi (jadd s t st) /\ jext st (jadd s t st) /\ jlen (jadd s t st) = jlen st.
Proof.
  intros [C O] D L. unfold gi, jext, jlen, jadd in *. cbn [jb_graph].
  destruct (add_transition_spec (jb_graph st) s t (is_dec_lt _ _ D) L) as (K & _ & _ & Ln).
  split; [split; [apply add_transition_consistent; auto|]|split; [split; [lia|intros m _; apply K]|exact Ln]].
  pose proof (apply_op_outs_dec _ (AddT s t) O) as X. cbn [apply_op] in X. rewrite D in X.
  destruct (Nat.ltb_spec t (length (jb_graph st))); [exact X|lia].
Qed.

Lemma jgi_add_times : forall k s t st, jgi st -> is_dec (jb_graph st) s = true -> t < jlen st ->
  jgi (jadd_times k s t st) /\ jext st (jadd_times k s t st) /\ jlen (jadd_times k s t st) = jlen st.
Proof.
  induction k as [|k IH]; intros s t st G D L; cbn [jadd_times]; [split; [exact G|split; [apply jext_refl|reflexivity]]|].
  destruct (jgi_add s t st G D L) as (G1 & E1 & L1).
  destruct (IH s t (jadd s t st) G1) as (G2 & E2 & L2).
  - apply (jext_dec st); auto. exact (is_dec_lt _ _ D).
  - lia.
  - split; [exact G2|]. split; [eapply jext_trans; eauto|lia].
Qed.

(* a decision just created, then children created and attached one by one *)
Lemma jfold_leaves {A} (mk : A -> jbst -> jbst * nat) root : forall (l : list A) st,
  (forall a st0, jgi st0 -> let st1 := fst (mk a st0) in jgi st1 /\ jext st0 st1 /\ snd (mk a st0) < jlen st1) ->
  jgi st -> root < jlen st -> is_dec (jb_graph st) root = true ->
  let st' := fold_left (fun st a => let '(st, l) := mk a st in jadd root l st) l st in
  jgi st' /\ jext st st'.
Proof.
  induction l as [|a l IH]; intros st HM G Lr D; cbn [fold_left]; [split; [exact G|apply jext_refl]|].
  destruct (mk a st) as [st1 n] eqn:E. pose proof (HM a st G) as X. rewrite E in X. cbn [fst snd] in X. destruct X as (G1 & E1 & L1).
  assert (D1 : is_dec (jb_graph st1) root = true) by (apply (jext_dec st); auto).
  destruct (jgi_add root n st1 G1 D1 L1) as (G2 & E2 & L2).
  destruct (IH (jadd root n st1) HM G2) as [G3 E3].
  - destruct E1. lia.
  - apply (jext_dec st1); auto. destruct E1; lia.
  - split; [exact G3|]. eapply jext_trans; [exact E1|eapply jext_trans; eauto].
Qed.


Lemma jleaf_good valid v st : jgi st ->
  let st1 := fst (jleaf valid v st) in jgi st1 /\ jext st st1 /\ snd (jleaf valid v st) < jlen st1.
Proof.
  intros G. unfold jleaf. destruct (jgi_new (KLeaf valid) None (JPSet v) st G) as (G1 & E1 & L1 & _ & S1).
  cbv zeta in *. split; [exact G1|]. split; [exact E1|]. rewrite S1. lia.
Qed.

(* a fresh choose-one decision and one leaf per value of some lists *)
Lemma star_good (all : bool) id pl (vs : list (bool * json)) st :
  jgi st ->
  let '(st1, root) := jnew (KDec all true) id pl st in
  let st2 := fold_left (fun s '(b, v) => let '(s', l) := jleaf b v s in jadd root l s') vs st1 in
  jgood st st2 root.
Proof.
  intros G. destruct (jgi_new (KDec all true) id pl st G) as (G1 & E1 & L1 & K1 & S1). cbv zeta in *.
  destruct (jnew (KDec all true) id pl st) as [st1 root] eqn:EN. cbn [fst snd] in *. subst root.
  assert (D1 : is_dec (jb_graph st1) (jlen st) = true) by (unfold is_dec; rewrite K1; reflexivity).
  rewrite (fold_left_ext _ (fun s a => let '(s', l) := (fun (a0 : bool * json) s0 => jleaf (fst a0) (snd a0) s0) a s in jadd (jlen st) l s'))
    by (intros s [b v]; reflexivity).
  destruct (jfold_leaves (fun (a0 : bool * json) s0 => jleaf (fst a0) (snd a0) s0) (jlen st) vs st1) as [G2 E2]; auto; [|lia|].
  - intros a s Gs. apply jleaf_good. exact Gs.
  - split; [exact G2|]. split; [eapply jext_trans; eauto|destruct E2; lia].
Qed.

Lemma fold_map_pair (root : nat) (b : bool) : forall (l : list json) st,
  fold_left (fun s '(b0, v) => let '(s', l0) := jleaf b0 v s in jadd root l0 s') (map (pair b) l) st =
  fold_left (fun s v => let '(s', l0) := jleaf b v s in jadd root l0 s') l st.
Proof. induction l as [|v l IH]; intros st; cbn [map fold_left]; auto. Qed.

Lemma two_folds (root : nat) (l1 l2 : list json) (b1 b2 : bool) st :
  fold_left (fun s v => let '(s', l) := jleaf b2 v s in jadd root l s') l2
    (fold_left (fun s v => let '(s', l) := jleaf b1 v s in jadd root l s') l1 st) =
  fold_left (fun s '(b, v) => let '(s', l) := jleaf b v s in jadd root l s') (map (pair b1) l1 ++ map (pair b2) l2) st.
Proof. rewrite fold_left_app, !fold_map_pair. reflexivity. Qed.

Definition jrgood (st : jbst) (r : res (jbst * nat)) : Prop :=
  match r with Ok (st', n) => jgood st st' n | _ => True end.

(* root created, then leaves attached by a sequence of folds *)
Ltac new_root G k id pl st st1 G1 E1 L1 K1 D1 :=
  destruct (jgi_new k id pl st G) as (G1 & E1 & L1 & K1 & ?S1); cbv zeta in *;
  destruct (jnew k id pl st) as [st1 ?root] eqn:?EN; cbn [fst snd] in *; subst;
  assert (D1 : is_dec (jb_graph st1) (jlen st) = true) by (unfold is_dec; rewrite K1; reflexivity).

Lemma gen_default_good st : jgi st -> let r := gen_default_samples st in jgood st (fst r) (snd r).
Proof.
  intros G. unfold gen_default_samples, jnoop.
  new_root G (KDec false true) (@None str) JPNone st st1 G1 E1 L1 K1 D1.
  assert (Gen : forall (l : list (str * list json)) s, jgi s -> jext st1 s ->
            let s' := fold_left (fun st0 '(_, samples) => fold_left (fun st2 s0 => let '(st3, l0) := jleaf true s0 st2 in jadd (jlen st) l0 st3) samples st0) l s in
            jgi s' /\ jext s s').
  { induction l as [|[ty samples] l IH]; intros s Gs Es; cbn [fold_left]; [split; [exact Gs|apply jext_refl]|].
    destruct (jfold_leaves (fun v s0 => jleaf true v s0) (jlen st) samples s) as [Ga Ea]; auto.
    - intros a s0 G0. apply jleaf_good. exact G0.
    - destruct Es. lia.
    - apply (jext_dec st1); auto. lia.
    - destruct (IH _ Ga (jext_trans _ _ _ Es Ea)) as [Gb Eb]. split; [exact Gb|eapply jext_trans; eauto]. }
  destruct (Gen default_samples st1 G1 (jext_refl _)) as [G2 E2]. cbn [fst snd].
  split; [exact G2|]. split; [eapply jext_trans; eauto|destruct E2; lia].
Qed.

Lemma parse_enum_good d p st : jgi st -> jrgood st (parse_enum d p st).
Proof.
  intros G. unfold parse_enum.
  destruct (read_list d "NOT_enum") as [ne| | |]; cbn [bind jrgood]; try exact I.
  destruct (read_list d "enum") as [en| | |]; cbn [bind jrgood]; try exact I.
  match goal with |- context [if ?c then jerr else _] => destruct c end; [exact I|].
  unfold jnoop. new_root G (KDec false true) (Some (pstr p)) JPNone st st1 G1 E1 L1 K1 D1.
  match goal with |- jrgood st (Ok (fold_left ?f2 ?l2 (fold_left ?f1 ?l1 st1), _)) =>
    destruct (jfold_leaves (fun v s0 => jleaf true v s0) (jlen st) l1 st1) as [G2 E2]; auto;
      [intros a s0 G0; apply jleaf_good; exact G0|lia|];
    destruct (jfold_leaves (fun v s0 => jleaf false v s0) (jlen st) l2 (fold_left f1 l1 st1)) as [G3 E3]; auto;
      [intros a s0 G0; apply jleaf_good; exact G0|destruct E2; lia|apply (jext_dec st1); auto; lia|]
  end.
  cbn [jrgood]. split; [exact G3|]. split; [eapply jext_trans; [exact E1|eapply jext_trans; eauto]|destruct E2, E3; lia].
Qed.

Lemma parse_number_good d p st : jgi st -> jrgood st (parse_number d p st).
Proof.
  intros G. unfold parse_number.
  destruct (read_num d "minimum") as [mn| | |]; cbn [bind jrgood]; try exact I.
  destruct (read_num d "exclusiveMinimum") as [emn| | |]; cbn [bind jrgood]; try exact I.
  destruct (read_num d "maximum") as [mx| | |]; cbn [bind jrgood]; try exact I.
  destruct (read_num d "exclusiveMaximum") as [emx| | |]; cbn [bind jrgood]; try exact I.
  destruct (read_num d "multipleOf") as [mo| | |]; cbn [bind jrgood]; try exact I.
  destruct (number_bounds mn emn mx emx) as [mn' mx'].
  unfold jnoop. new_root G (KDec false true) (sfx p "_NUMBER") JPNone st st1 G1 E1 L1 K1 D1.
  destruct (jleaf_good true (JNum (number_valid_value mn' mx' mo)) st1 G1) as (G2 & E2 & L2).
  destruct (jleaf true (JNum (number_valid_value mn' mx' mo)) st1) as [st2 l]. cbn [fst snd] in *.
  destruct (jgi_add (jlen st) l st2 G2) as (G3 & E3 & L3); [apply (jext_dec st1); auto; lia|exact L2|].
  match goal with |- jrgood st (Ok (fold_left ?f ?l0 ?s0, _)) =>
    destruct (jfold_leaves (fun x s1 => jleaf false (JNum x) s1) (jlen st) l0 s0) as [G4 E4]; auto;
      [intros a s1 Gs; apply jleaf_good; exact Gs|destruct E2; lia|apply (jext_dec st1); [eapply jext_trans; eauto|lia|exact D1]|]
  end.
  cbn [jrgood]. split; [exact G4|]. split; [eapply jext_trans; [exact E1|eapply jext_trans; [exact E2|eapply jext_trans; eauto]]|destruct E2, E4; lia].
Qed.

Lemma parse_string_good d p st : jgi st -> jrgood st (parse_string d p st).
Proof.
  intros G. unfold parse_string.
  destruct (check_str d "pattern"); cbn [bind jrgood]; try exact I.
  destruct (check_str d "contentMediaType"); cbn [bind jrgood]; try exact I.
  destruct (check_str d "contentEncoding"); cbn [bind jrgood]; try exact I.
  destruct (check_dict d "contentSchema"); cbn [bind jrgood]; try exact I.
  destruct (read_nat d "minLength" 0) as [mn| | |]; cbn [bind jrgood]; try exact I.
  destruct (read_num d "maxLength") as [mx| | |]; cbn [bind jrgood]; try exact I.
  destruct (dget (kw "format") d) as [[]|]; try exact I.
  match goal with |- context [if ?c then jerr else _] => destruct c end; [exact I|].
  unfold jnoop. new_root G (KDec false true) (@None str) JPNone st st1 G1 E1 L1 K1 D1.
  destruct (jleaf_good true (JStr (repeat 120 mn)) st1 G1) as (G2 & E2 & L2).
  destruct (jleaf true (JStr (repeat 120 mn)) st1) as [st2 l]. cbn [fst snd jrgood] in *.
  destruct (jgi_add (jlen st) l st2 G2) as (G3 & E3 & L3); [apply (jext_dec st1); auto; lia|exact L2|].
  split; [exact G3|]. split; [eapply jext_trans; [exact E1|eapply jext_trans; eauto]|destruct E2; lia].
Qed.

Lemma parse_boolean_good p st : jgi st -> jrgood st (parse_boolean p st).
Proof.
  intros G. unfold parse_boolean, jnoop. new_root G (KDec false true) (sfx p "_BOOLEAN") JPNone st st1 G1 E1 L1 K1 D1.
  destruct (jleaf_good true (JBool true) st1 G1) as (G2 & E2 & L2). destruct (jleaf true (JBool true) st1) as [st2 l1]. cbn [fst snd] in *.
  destruct (jgi_add (jlen st) l1 st2 G2) as (G3 & E3 & L3); [apply (jext_dec st1); auto; lia|exact L2|].
  destruct (jleaf_good true (JBool false) _ G3) as (G4 & E4 & L4). destruct (jleaf true (JBool false) (jadd (jlen st) l1 st2)) as [st4 l2]. cbn [fst snd jrgood] in *.
  assert (E14 : jext st1 st4) by (eapply jext_trans; [exact E2|eapply jext_trans; eauto]).
  destruct (jgi_add (jlen st) l2 st4 G4) as (G5 & E5 & L5); [apply (jext_dec st1); auto; lia|exact L4|].
  split; [exact G5|]. split; [eapply jext_trans; [exact E1|eapply jext_trans; eauto]|destruct E14; lia].
Qed.

Lemma parse_null_good p st : jgi st -> jrgood st (parse_null p st).
Proof.
  intros G. unfold parse_null, jnoop. new_root G (KDec false true) (sfx p "_NULL") JPNone st st1 G1 E1 L1 K1 D1.
  destruct (jleaf_good true JNull st1 G1) as (G2 & E2 & L2). destruct (jleaf true JNull st1) as [st2 l]. cbn [fst snd jrgood] in *.
  destruct (jgi_add (jlen st) l st2 G2) as (G3 & E3 & L3); [apply (jext_dec st1); auto; lia|exact L2|].
  split; [exact G3|]. split; [eapply jext_trans; [exact E1|eapply jext_trans; eauto]|destruct E2; lia].
Qed.
Lemma parse_dict_eq f (data : json) (p : pointer) (st : jbst) : parse_dict (S f) data p st =
 (do d <- match data with JObj d => Ok d | _ => PyErr EAttributeError end;
  let '(st, root) := jnoop false (Some (pstr p)) st in
  do any_of <- match dget (kw "anyOf") d with Some (JArr l) => Ok l | Some _ => jerr | None => jerr end;
  do st <- foldM (fun st '(idx, entry) =>
                    do '(st, n) <- parse_entry f entry (paddn (padd p (kw "anyOf")) idx) st;
                    Ok (jadd root n st)) (enumerate any_of) st;
  Ok (st, root)).
Proof. reflexivity. Qed.

Lemma parse_entry_eq f (entry : json) (p : pointer) (st : jbst) : parse_entry (S f) entry p st =
 (do d <- match entry with JObj d => Ok d | _ => PyErr EAttributeError end;
  if dhas (kw "enum") d || dhas (kw "NOT_enum") d then parse_enum d p st
  else if dhas (kw "$ref") d then
    match dget (kw "$ref") d with
    | Some (JStr r) => Ok (jnew (KRef r) (Some (pstr p)) JPNone st)
    | _ => jerr
    end
  else
    let '(st, root) := jnoop false None st in
    do types <- match dget (kw "type") d with
                | Some t => let l := to_list t in
                            if hashable_all l then Ok (pset l) else PyErr ETypeError
                | None => Ok (map JStr handler_types)
                end;
    do st <- foldM (fun st t =>
                      do '(st, n) <-
                        match t with
                        | JStr s =>
                          if str_eqb s (kw "object") then parse_object f d p st
                          else if str_eqb s (kw "string") then parse_string d p st
                          else if str_eqb s (kw "array") then parse_array f d p st
                          else if str_eqb s (kw "boolean") then parse_boolean p st
                          else if str_eqb s (kw "number") then parse_number d p st
                          else if str_eqb s (kw "null") then parse_null p st
                          else jerr
                        | _ => jerr
                        end;
                      Ok (jadd root n st)) types st;
    Ok (fold_left (fun st '(ty, samples) =>
                     if pmem (JStr ty) types then st
                     else fold_left (fun st s => let '(st, l) := jleaf false s st in jadd root l st) samples st)
                  default_samples st, root)).
Proof. reflexivity. Qed.

Lemma parse_object_eq f (d : dict) (p : pointer) (st : jbst) : parse_object (S f) d p st =
 (do props <- read_dict d "properties";
  let props := match props with Some x => x | None => [] end in
  do _ <- check_dict d "additionalProperties";
  do _ <- read_num d "minProperties"; do _ <- read_num d "maxProperties";
  do _ <- check_dict d "patternProperties"; do _ <- check_dict d "propertyNames";
  do _ <- check_dict d "unevaluatedProperties"; do _ <- check_dict d "dependentRequired";
  do _ <- check_dict d "dependentSchemas";
  do required <- read_list d "required";
  let required := match required with Some x => x | None => [] end in
  do req <- foldM (fun acc tok => match tok with
                                  | JStr s => if smem s acc then jerr else Ok (acc ++ [s])
                                  | _ => jerr end) required [];
  let '(st, super) := jnoop false (sfx p "_OBJECT") st in
  let '(st, root) := jnew (KDec true false) None JPObj st in
  let st := jadd super root st in
  do '(st, remaining) <-
    foldM (fun '(st, remaining) '(key, value) =>
             let sp := padd (padd p (kw "properties")) key in
             let '(st, prop_root) := jnoop false (sfx sp "__PROP") st in
             let st := jadd root prop_root st in
             let '(st, key_node) := jnew (KDec false false) (sfx sp "__KEY") (JPKey key) st in
             let st := jadd prop_root key_node st in
             do '(st, vn) <- parse_dict f value sp st;
             let st := jadd key_node vn st in
             let isreq := smem key remaining in
             let '(st, omit) := jnoop_leaf (negb isreq) st in
             Ok (jadd prop_root omit st, filter (fun x => negb (str_eqb x key)) remaining))
          props (st, req);
  let st := fold_left (fun st key =>
                         let sp := padd (padd p (kw "required")) key in
                         let '(st, prop_root) := jnoop false (sfx sp "__PROP") st in
                         let st := jadd root prop_root st in
                         let '(st, key_node) := jnew (KDec false false) (sfx sp "__KEY") (JPKey key) st in
                         let st := jadd prop_root key_node st in
                         let '(st, vn) := gen_default_samples st in
                         jadd key_node vn st) remaining st in
  let st := match outs_of (jb_graph st) root with
            | [] => let '(st, l) := jnoop_leaf true st in jadd root l st
            | _ => st end in
  Ok (st, super)).
Proof. reflexivity. Qed.

Lemma parse_array_eq f (d : dict) (p : pointer) (st : jbst) : parse_array (S f) d p st =
 (do min_items <- read_nat d "minItems" 1;
  do _ <- read_num d "maxItems";
  do prefix <- read_list d "prefixItems";
  let prefix := match prefix with Some x => x | None => [] end in
  do _ <- check_dict d "uniqueItems";
  do contains <- read_dict d "contains";
  do min_contains <- read_nat d "minContains" 1;
  do _ <- read_num d "maxContains";
  do items <- read_dict d "items";
  let '(st, root) := jnew (KDec true false) (sfx p "_ARRAY") JPArr st in
  do st <- match prefix with
           | [] => Ok st
           | _ =>
             let '(st, pn) := jnoop true (sfx p "_PREFIX") st in
             let st := jadd root pn st in
             foldM (fun st '(idx, item) =>
                      do '(st, n) <- parse_dict f item (paddn (padd p (kw "prefixItems")) idx) st;
                      let '(st, an) := jnew (KDec false false) None JPAppend st in
                      Ok (jadd pn an (jadd an n st))) (enumerate prefix) st
           end;
  do '(st, min_items) <-
    match contains with
    | Some c =>
      if min_contains =? 0 then Ok (st, min_items) else
      let '(st, cn) := jnoop true (sfx p "_CONTAINS") st in
      let st := jadd root cn st in
      do '(st, n) <- parse_dict f (JObj c) (padd p (kw "contains")) st;
      let '(st, an) := jnew (KDec false false) None JPAppend st in
      let st := jadd an n st in
      Ok (jadd_times min_contains cn an st, min_items - min_contains)
    | None => Ok (st, min_items)
    end;
  if min_items =? 0 then
    (* an array without any item is closed with a valid do-nothing leaf (after the fix) *)
    match outs_of (jb_graph st) root with
    | [] => let '(st, l) := jnoop_leaf true st in Ok (jadd root l st, root)
    | _ => Ok (st, root)
    end
  else
  let '(st, all_items) := jnoop true (sfx p "_ITEMS") st in
  let st := jadd root all_items st in
  do '(st, items_node) <- match items with
                          | None => Ok (gen_default_samples st)
                          | Some i => parse_dict f (JObj i) (padd p (kw "items")) st
                          end;
  Ok ((fix go (k : nat) (st : jbst) : jbst :=
         match k with 0 => st | S k' =>
           let '(st, an) := jnew (KDec false false) None JPAppend st in
           go k' (jadd all_items an (jadd an items_node st)) end) min_items st, root)).
Proof. reflexivity. Qed.

Lemma foldM_ext {A B} (f h : A -> B -> res A) : (forall a b, f a b = h a b) -> forall l a0, foldM f l a0 = foldM h l a0.
Proof. intros E l. induction l as [|x l IH]; intros a0; cbn [foldM]; [reflexivity|]. rewrite E. destruct (h a0 x); cbn [bind]; auto. Qed.

(* children built one after the other and attached to the same decision *)
Lemma jattach {A} (B : A -> jbst -> res (jbst * nat)) root : forall l st st',
  (forall a s, jgi s -> jrgood s (B a s)) -> jgi st -> root < jlen st -> is_dec (jb_graph st) root = true ->
  foldM (fun s a => do '(s1, n) <- B a s; Ok (jadd root n s1)) l st = Ok st' -> jgi st' /\ jext st st'.
Proof.
  induction l as [|a l IH]; intros st st' HB G Lr D H; cbn [foldM] in H.
  - inversion H; subst. split; [exact G|apply jext_refl].
  - pose proof (HB a st G) as X. destruct (B a st) as [[s1 n]| | |]; cbn [bind jrgood] in *; try discriminate.
    destruct X as (G1 & E1 & L1).
    assert (D1 : is_dec (jb_graph s1) root = true) by (apply (jext_dec st); auto).
    destruct (jgi_add root n s1 G1 D1 L1) as (G2 & E2 & L2).
    destruct (IH (jadd root n s1) st' HB G2) as [G3 E3]; auto.
    + destruct E1. lia.
    + apply (jext_dec s1); auto. destruct E1; lia.
    + split; [exact G3|]. eapply jext_trans; [exact E1|eapply jext_trans; eauto].
Qed.

Section Step.
Variable f : nat.
Hypothesis HD : forall data p st, jgi st -> jrgood st (parse_dict f data p st).
Hypothesis HE : forall entry p st, jgi st -> jrgood st (parse_entry f entry p st).
Hypothesis HO : forall d p st, jgi st -> jrgood st (parse_object f d p st).
Hypothesis HA : forall d p st, jgi st -> jrgood st (parse_array f d p st).

Lemma parse_dict_step data p st : jgi st -> jrgood st (parse_dict (S f) data p st).
Proof.
  intros G. rewrite parse_dict_eq. destruct data as [| | | | |d]; cbn [bind jrgood]; try exact I.
  unfold jnoop. new_root G (KDec false true) (Some (pstr p)) JPNone st st1 G1 E1 L1 K1 D1.
  destruct (dget (kw "anyOf") d) as [[| | | |l|]|]; cbn [bind jrgood]; try exact I.
  rewrite (foldM_ext _ (fun s a => do '(s1, n) <- (fun (a0 : nat * json) s0 => parse_entry f (snd a0) (paddn (padd p (kw "anyOf")) (fst a0)) s0) a s; Ok (jadd (jlen st) n s1)))
    by (intros s [idx entry]; reflexivity).
  match goal with |- jrgood st (bind ?X _) => destruct X as [st2| | |] eqn:EF end; cbn [bind jrgood]; try exact I.
  destruct (jattach _ (jlen st) _ st1 st2 (fun a s Gs => HE (snd a) _ s Gs) G1 ltac:(lia) D1 EF) as [G2 E2].
  split; [exact G2|]. split; [eapply jext_trans; eauto|destruct E2; lia].
Qed.

Lemma parse_entry_step entry p st : jgi st -> jrgood st (parse_entry (S f) entry p st).
Proof.
  intros G. rewrite parse_entry_eq. destruct entry as [| | | | |d]; cbn [bind jrgood]; try exact I.
  destruct (dhas (kw "enum") d || dhas (kw "NOT_enum") d); [apply parse_enum_good; exact G|].
  destruct (dhas (kw "$ref") d).
  { destruct (dget (kw "$ref") d) as [[| | |r| |]|]; try exact I.
    destruct (jgi_new (KRef r) (Some (pstr p)) JPNone st G) as (G1 & E1 & L1 & _ & S1). cbv zeta in *.
    destruct (jnew (KRef r) (Some (pstr p)) JPNone st) as [st1 n]. cbn [fst snd jrgood] in *. subst n.
    split; [exact G1|]. split; [exact E1|lia]. }
  unfold jnoop. new_root G (KDec false true) (@None str) JPNone st st1 G1 E1 L1 K1 D1.
  match goal with |- jrgood st (bind ?X _) => destruct X as [types| | |] end; cbn [bind jrgood]; try exact I.
  set (B := fun (t : json) (s : jbst) =>
              match t with
              | JStr s0 =>
                if str_eqb s0 (kw "object") then parse_object f d p s
                else if str_eqb s0 (kw "string") then parse_string d p s
                else if str_eqb s0 (kw "array") then parse_array f d p s
                else if str_eqb s0 (kw "boolean") then parse_boolean p s
                else if str_eqb s0 (kw "number") then parse_number d p s
                else if str_eqb s0 (kw "null") then parse_null p s
                else jerr
              | _ => jerr
              end).
  assert (HB : forall a s, jgi s -> jrgood s (B a s)).
  { intros a s Gs. unfold B. destruct a; try exact I.
    destruct (str_eqb s0 (kw "object")); [apply HO; exact Gs|].
    destruct (str_eqb s0 (kw "string")); [apply parse_string_good; exact Gs|].
    destruct (str_eqb s0 (kw "array")); [apply HA; exact Gs|].
    destruct (str_eqb s0 (kw "boolean")); [apply parse_boolean_good; exact Gs|].
    destruct (str_eqb s0 (kw "number")); [apply parse_number_good; exact Gs|].
    destruct (str_eqb s0 (kw "null")); [apply parse_null_good; exact Gs|exact I]. }
  match goal with |- jrgood st (bind ?X _) => change X with (foldM (fun s a => do '(s1, n) <- B a s; Ok (jadd (jlen st) n s1)) types st1) end.
  destruct (foldM (fun s a => do '(s1, n) <- B a s; Ok (jadd (jlen st) n s1)) types st1) as [st2| | |] eqn:EF; cbn [bind jrgood]; try exact I.
  destruct (jattach B (jlen st) types st1 st2 HB G1 ltac:(lia) D1 EF) as [G2 E2].
  (* the counter-examples of the types that are not allowed *)
  assert (Gen : forall (l : list (str * list json)) s, jgi s -> jext st1 s ->
            let s' := fold_left (fun st0 '(ty, samples) =>
                                   if pmem (JStr ty) types then st0
                                   else fold_left (fun st3 s0 => let '(st4, l0) := jleaf false s0 st3 in jadd (jlen st) l0 st4) samples st0) l s in
            jgi s' /\ jext s s').
  { induction l as [|[ty samples] l IH]; intros s Gs Es; cbn [fold_left]; [split; [exact Gs|apply jext_refl]|].
    destruct (pmem (JStr ty) types); [apply IH; auto|].
    destruct (jfold_leaves (fun v s0 => jleaf false v s0) (jlen st) samples s) as [Ga Ea]; auto.
    - intros a s0 G0. apply jleaf_good. exact G0.
    - destruct Es. lia.
    - apply (jext_dec st1); auto. lia.
    - destruct (IH _ Ga (jext_trans _ _ _ Es Ea)) as [Gb Eb]. split; [exact Gb|eapply jext_trans; eauto]. }
  destruct (Gen default_samples st2 G2 E2) as [G3 E3].
  split; [exact G3|]. split; [eapply jext_trans; [exact E1|eapply jext_trans; eauto]|destruct E2, E3; lia].
Qed.


Definition obj_step (p : pointer) (root : nat) :=
  (fun '((st, remaining) : jbst * list str) '((key, value) : str * json) =>
             let sp := padd (padd p (kw "properties")) key in
             let '(st, prop_root) := jnoop false (sfx sp "__PROP") st in
             let st := jadd root prop_root st in
             let '(st, key_node) := jnew (KDec false false) (sfx sp "__KEY") (JPKey key) st in
             let st := jadd prop_root key_node st in
             do '(st, vn) <- parse_dict f value sp st;
             let st := jadd key_node vn st in
             let isreq := smem key remaining in
             let '(st, omit) := jnoop_leaf (negb isreq) st in
             Ok (jadd prop_root omit st, filter (fun x => negb (str_eqb x key)) remaining)).

Definition rem_step (p : pointer) (root : nat) :=
  (fun (st : jbst) (key : str) =>
                         let sp := padd (padd p (kw "required")) key in
                         let '(st, prop_root) := jnoop false (sfx sp "__PROP") st in
                         let st := jadd root prop_root st in
                         let '(st, key_node) := jnew (KDec false false) (sfx sp "__KEY") (JPKey key) st in
                         let st := jadd prop_root key_node st in
                         let '(st, vn) := gen_default_samples st in
                         jadd key_node vn st).

Lemma obj_step_good p root s0 s rem key value s' rem' :
  jgi s -> jext s0 s -> root < jlen s0 -> is_dec (jb_graph s0) root = true ->
  obj_step p root (s, rem) (key, value) = Ok (s', rem') -> jgi s' /\ jext s s'.
Proof.
  intros Gs Es Lr Dr H. unfold obj_step, jnoop, jnoop_leaf in H. cbv zeta in H.
  set (sp := padd (padd p (kw "properties")) key) in *.
  destruct (jgi_new (KDec false true) (sfx sp "__PROP") JPNone s Gs) as (Ga & Ea & La & Ka & Sa). cbv zeta in *.
  destruct (jnew (KDec false true) (sfx sp "__PROP") JPNone s) as [sa pr] eqn:ENa. cbn [fst snd] in *. subst pr.
  assert (Dpr : is_dec (jb_graph sa) (jlen s) = true) by (unfold is_dec; rewrite Ka; reflexivity).
  destruct (jgi_add root (jlen s) sa Ga) as (Gb & Eb & Lb);
    [apply (jext_dec s0); [eapply jext_trans; eauto|exact Lr|exact Dr]|lia|].
  set (sb := jadd root (jlen s) sa) in *.
  destruct (jgi_new (KDec false false) (sfx sp "__KEY") (JPKey key) sb Gb) as (Gc & Ec & Lc & Kc & Sc). cbv zeta in *.
  destruct (jnew (KDec false false) (sfx sp "__KEY") (JPKey key) sb) as [sc kn] eqn:ENc. cbn [fst snd] in *. subst kn.
  assert (Dkn : is_dec (jb_graph sc) (jlen sb) = true) by (unfold is_dec; rewrite Kc; reflexivity).
  assert (Eac : jext sa sc) by (eapply jext_trans; eauto).
  destruct (jgi_add (jlen s) (jlen sb) sc Gc) as (Gd & Ed & Ld); [apply (jext_dec sa); auto; lia|lia|].
  set (sd := jadd (jlen s) (jlen sb) sc) in *.
  pose proof (HD value sp sd Gd) as X.
  destruct (parse_dict f value sp sd) as [[se vn]| | |]; cbn [bind jrgood] in *; try discriminate.
  destruct X as (Ge & Ee & Le).
  assert (Ece : jext sc se) by (eapply jext_trans; eauto).
  destruct (jgi_add (jlen sb) vn se Ge) as (Gf & Ef & Lf); [apply (jext_dec sc); auto; lia|exact Le|].
  set (sf := jadd (jlen sb) vn se) in *.
  destruct (jgi_new (KLeaf (negb (smem key rem))) None JPNone sf Gf) as (Gg & Eg & Lg & Kg & Sg). cbv zeta in *.
  destruct (jnew (KLeaf (negb (smem key rem))) None JPNone sf) as [sg om] eqn:ENg. cbn [fst snd] in *. subst om.
  assert (Eag : jext sa sg) by (eapply jext_trans; [exact Eac|eapply jext_trans; [exact Ece|eapply jext_trans; eauto]]).
  destruct (jgi_add (jlen s) (jlen sf) sg Gg) as (Gh & Eh & Lh); [apply (jext_dec sa); auto; lia|lia|].
  inversion H; subst s' rem'. split; [exact Gh|]. eapply jext_trans; [exact Ea|eapply jext_trans; eauto].
Qed.

Lemma rem_step_good p root s0 s key :
  jgi s -> jext s0 s -> root < jlen s0 -> is_dec (jb_graph s0) root = true ->
  jgi (rem_step p root s key) /\ jext s (rem_step p root s key).
Proof.
  intros Gs Es Lr Dr. unfold rem_step, jnoop. cbv zeta.
  set (sp := padd (padd p (kw "required")) key) in *.
  destruct (jgi_new (KDec false true) (sfx sp "__PROP") JPNone s Gs) as (Ga & Ea & La & Ka & Sa). cbv zeta in *.
  destruct (jnew (KDec false true) (sfx sp "__PROP") JPNone s) as [sa pr] eqn:ENa. cbn [fst snd] in *. subst pr.
  assert (Dpr : is_dec (jb_graph sa) (jlen s) = true) by (unfold is_dec; rewrite Ka; reflexivity).
  destruct (jgi_add root (jlen s) sa Ga) as (Gb & Eb & Lb);
    [apply (jext_dec s0); [eapply jext_trans; eauto|exact Lr|exact Dr]|lia|].
  set (sb := jadd root (jlen s) sa) in *.
  destruct (jgi_new (KDec false false) (sfx sp "__KEY") (JPKey key) sb Gb) as (Gc & Ec & Lc & Kc & Sc). cbv zeta in *.
  destruct (jnew (KDec false false) (sfx sp "__KEY") (JPKey key) sb) as [sc kn] eqn:ENc. cbn [fst snd] in *. subst kn.
  assert (Dkn : is_dec (jb_graph sc) (jlen sb) = true) by (unfold is_dec; rewrite Kc; reflexivity).
  assert (Eac : jext sa sc) by (eapply jext_trans; eauto).
  destruct (jgi_add (jlen s) (jlen sb) sc Gc) as (Gd & Ed & Ld); [apply (jext_dec sa); auto; lia|lia|].
  set (sd := jadd (jlen s) (jlen sb) sc) in *.
  destruct (gen_default_good sd Gd) as (Ge & Ee & Le). destruct (gen_default_samples sd) as [se vn]. cbn [fst snd] in *.
  destruct (jgi_add (jlen sb) vn se Ge) as (Gf & Ef & Lf); [apply (jext_dec sc); [eapply jext_trans; eauto|lia|exact Dkn]|exact Le|].
  split; [exact Gf|]. eapply jext_trans; [exact Ea|]. eapply jext_trans; [exact Eb|]. eapply jext_trans; [exact Ec|].
  eapply jext_trans; [exact Ed|]. eapply jext_trans; eauto.
Qed.

Lemma obj_fold p root s0 : root < jlen s0 -> is_dec (jb_graph s0) root = true ->
  forall l s rem s' rem', jgi s -> jext s0 s -> foldM (obj_step p root) l (s, rem) = Ok (s', rem') -> jgi s' /\ jext s s'.
Proof.
  intros Lr Dr. induction l as [|[key value] l IH]; intros s rem s' rem' Gs Es H; cbn [foldM] in H.
  - inversion H; subst. split; [exact Gs|apply jext_refl].
  - destruct (obj_step p root (s, rem) (key, value)) as [[s1 rem1]| | |] eqn:E1; cbn [bind] in H; try discriminate.
    destruct (obj_step_good p root s0 s rem key value s1 rem1 Gs Es Lr Dr E1) as [G1 E1'].
    destruct (IH s1 rem1 s' rem' G1 (jext_trans _ _ _ Es E1') H) as [G2 E2].
    split; [exact G2|eapply jext_trans; eauto].
Qed.

Lemma rem_fold p root s0 : root < jlen s0 -> is_dec (jb_graph s0) root = true ->
  forall l s, jgi s -> jext s0 s -> jgi (fold_left (rem_step p root) l s) /\ jext s (fold_left (rem_step p root) l s).
Proof.
  intros Lr Dr. induction l as [|key l IH]; intros s Gs Es; cbn [fold_left]; [split; [exact Gs|apply jext_refl]|].
  destruct (rem_step_good p root s0 s key Gs Es Lr Dr) as [G1 E1].
  destruct (IH _ G1 (jext_trans _ _ _ Es E1)) as [G2 E2]. split; [exact G2|eapply jext_trans; eauto].
Qed.

Lemma parse_object_step d p st : jgi st -> jrgood st (parse_object (S f) d p st).
Proof.
  intros G. rewrite parse_object_eq.
  do 10 (match goal with |- jrgood st (bind ?X _) => destruct X; cbn [bind jrgood]; try exact I end).
  cbv zeta.
  match goal with |- jrgood st (bind ?X _) => destruct X as [req| | |]; cbn [bind jrgood]; try exact I end.
  unfold jnoop at 1. new_root G (KDec false true) (sfx p "_OBJECT") JPNone st st1 G1 E1 L1 K1 D1.
  destruct (jgi_new (KDec true false) None JPObj st1 G1) as (G2 & E2 & L2 & K2 & S2). cbv zeta in *.
  destruct (jnew (KDec true false) None JPObj st1) as [st2 root] eqn:EN2. cbn [fst snd] in *. subst root.
  assert (D2 : is_dec (jb_graph st2) (jlen st1) = true) by (unfold is_dec; rewrite K2; reflexivity).
  destruct (jgi_add (jlen st) (jlen st1) st2 G2) as (G3 & E3 & L3); [apply (jext_dec st1); auto; lia|lia|].
  set (st3 := jadd (jlen st) (jlen st1) st2) in *.
  assert (D3 : is_dec (jb_graph st3) (jlen st1) = true) by (apply (jext_dec st2); auto; lia).
  assert (Lr3 : jlen st1 < jlen st3) by lia.
  match goal with |- jrgood st (bind (foldM _ ?props _) _) =>
    change (jrgood st (bind (foldM (obj_step p (jlen st1)) props (st3, req))
       (fun '(st4, remaining) =>
          let st5 := fold_left (rem_step p (jlen st1)) remaining st4 in
          let st6 := match outs_of (jb_graph st5) (jlen st1) with
                     | [] => let '(st7, l) := jnoop_leaf true st5 in jadd (jlen st1) l st7
                     | _ => st5 end in
          Ok (st6, jlen st))));
    destruct (foldM (obj_step p (jlen st1)) props (st3, req)) as [[st4 remaining]| | |] eqn:EF; cbn [bind jrgood]; try exact I
  end.
  destruct (obj_fold p (jlen st1) st3 Lr3 D3 _ st3 req st4 remaining G3 (jext_refl _) EF) as [G4 E4].
  destruct (rem_fold p (jlen st1) st3 Lr3 D3 remaining st4 G4 E4) as [G5 E5].
  set (st5 := fold_left (rem_step p (jlen st1)) remaining st4) in *.
  assert (E35 : jext st3 st5) by (eapply jext_trans; eauto).
  assert (E05 : jext st st5) by (eapply jext_trans; [exact E1|eapply jext_trans; [exact E2|eapply jext_trans; eauto]]).
  cbv zeta. destruct (outs_of (jb_graph st5) (jlen st1)).
  - unfold jnoop_leaf. destruct (jgi_new (KLeaf true) None JPNone st5 G5) as (G6 & E6 & L6 & K6 & S6). cbv zeta in *.
    destruct (jnew (KLeaf true) None JPNone st5) as [st6 l] eqn:EN6. cbn [fst snd] in *. subst l.
    destruct (jgi_add (jlen st1) (jlen st5) st6 G6) as (G7 & E7 & L7);
      [apply (jext_dec st3); [eapply jext_trans; eauto|exact Lr3|exact D3]|lia|].
    split; [exact G7|]. split; [eapply jext_trans; [exact E05|eapply jext_trans; eauto]|destruct E35; lia].
  - split; [exact G5|]. split; [exact E05|destruct E35; lia].
Qed.

Definition items_loop (all_items items_node : nat) : nat -> jbst -> jbst :=
  fix go (k : nat) (st : jbst) : jbst :=
  match k with 0 => st | S k' =>
    let '(st, an) := jnew (KDec false false) None JPAppend st in
    go k' (jadd all_items an (jadd an items_node st)) end.
Lemma items_loop_S a i k st : items_loop a i (S k) st =
  let '(st, an) := jnew (KDec false false) None JPAppend st in items_loop a i k (jadd a an (jadd an i st)).
Proof. reflexivity. Qed.

Lemma items_loop_good all_items items_node s0 : all_items < jlen s0 -> is_dec (jb_graph s0) all_items = true -> items_node < jlen s0 ->
  forall k s, jgi s -> jext s0 s -> jgi (items_loop all_items items_node k s) /\ jext s (items_loop all_items items_node k s).
Proof.
  intros La Da Li. induction k as [|k IH]; intros s Gs Es; [split; [exact Gs|apply jext_refl]|]. rewrite items_loop_S.
  destruct (jgi_new (KDec false false) None JPAppend s Gs) as (G1 & E1 & L1 & K1 & S1). cbv zeta in *.
  destruct (jnew (KDec false false) None JPAppend s) as [s1 an] eqn:EN. cbn [fst snd] in *. subst an.
  assert (D1 : is_dec (jb_graph s1) (jlen s) = true) by (unfold is_dec; rewrite K1; reflexivity).
  destruct (jgi_add (jlen s) items_node s1 G1 D1) as (G2 & E2 & L2); [destruct Es; lia|].
  destruct (jgi_add all_items (jlen s) (jadd (jlen s) items_node s1) G2) as (G3 & E3 & L3);
    [apply (jext_dec s0); [eapply jext_trans; [exact Es|eapply jext_trans; eauto]|exact La|exact Da]|lia|].
  destruct (IH _ G3) as [G4 E4]; [eapply jext_trans; [exact Es|eapply jext_trans; [exact E1|eapply jext_trans; eauto]]|].
  split; [exact G4|]. eapply jext_trans; [exact E1|eapply jext_trans; [exact E2|eapply jext_trans; eauto]].
Qed.

Definition pre_step (p : pointer) (pn : nat) :=
  (fun (st : jbst) '((idx, item) : nat * json) =>
     do '(st, n) <- parse_dict f item (paddn (padd p (kw "prefixItems")) idx) st;
     let '(st, an) := jnew (KDec false false) None JPAppend st in
     Ok (jadd pn an (jadd an n st))).

Lemma pre_fold p pn s0 : pn < jlen s0 -> is_dec (jb_graph s0) pn = true ->
  forall l s s', jgi s -> jext s0 s -> foldM (pre_step p pn) l s = Ok s' -> jgi s' /\ jext s s'.
Proof.
  intros Lp Dp. induction l as [|[idx item] l IH]; intros s s' Gs Es H; cbn [foldM] in H.
  - inversion H; subst. split; [exact Gs|apply jext_refl].
  - unfold pre_step at 1 in H.
    pose proof (HD item (paddn (padd p (kw "prefixItems")) idx) s Gs) as X.
    destruct (parse_dict f item (paddn (padd p (kw "prefixItems")) idx) s) as [[s1 n]| | |]; cbn [bind jrgood] in *; try discriminate.
    destruct X as (G1 & E1 & L1).
    destruct (jgi_new (KDec false false) None JPAppend s1 G1) as (G2 & E2 & L2 & K2 & S2). cbv zeta in *.
    destruct (jnew (KDec false false) None JPAppend s1) as [s2 an] eqn:EN. cbn [fst snd bind] in *. subst an.
    assert (D2 : is_dec (jb_graph s2) (jlen s1) = true) by (unfold is_dec; rewrite K2; reflexivity).
    destruct (jgi_add (jlen s1) n s2 G2 D2) as (G3 & E3 & L3); [lia|].
    destruct (jgi_add pn (jlen s1) (jadd (jlen s1) n s2) G3) as (G4 & E4 & L4);
      [apply (jext_dec s0); [eapply jext_trans; [exact Es|eapply jext_trans; [exact E1|eapply jext_trans; eauto]]|exact Lp|exact Dp]|lia|].
    destruct (IH _ s' G4) as [G5 E5]; [eapply jext_trans; [exact Es|eapply jext_trans; [exact E1|eapply jext_trans; [exact E2|eapply jext_trans; eauto]]]|exact H|].
    split; [exact G5|]. eapply jext_trans; [exact E1|eapply jext_trans; [exact E2|eapply jext_trans; [exact E3|eapply jext_trans; eauto]]].
Qed.

Lemma parse_array_step d p st : jgi st -> jrgood st (parse_array (S f) d p st).
Proof.
  intros G. rewrite parse_array_eq.
  destruct (read_nat d "minItems" 1) as [min_items| | |]; cbn [bind jrgood]; try exact I.
  destruct (read_num d "maxItems"); cbn [bind jrgood]; try exact I.
  destruct (read_list d "prefixItems") as [prefix| | |]; cbn [bind jrgood]; try exact I.
  destruct (check_dict d "uniqueItems"); cbn [bind jrgood]; try exact I.
  destruct (read_dict d "contains") as [contains| | |]; cbn [bind jrgood]; try exact I.
  destruct (read_nat d "minContains" 1) as [min_contains| | |]; cbn [bind jrgood]; try exact I.
  destruct (read_num d "maxContains"); cbn [bind jrgood]; try exact I.
  destruct (read_dict d "items") as [items| | |]; cbn [bind jrgood]; try exact I.
  cbv zeta.
  destruct (jgi_new (KDec true false) (sfx p "_ARRAY") JPArr st G) as (G1 & E1 & L1 & K1 & S1). cbv zeta in *.
  destruct (jnew (KDec true false) (sfx p "_ARRAY") JPArr st) as [st1 root] eqn:EN1. cbn [fst snd] in *. subst root.
  assert (D1 : is_dec (jb_graph st1) (jlen st) = true) by (unfold is_dec; rewrite K1; reflexivity).
  assert (Lr1 : jlen st < jlen st1) by lia.
  (* prefixItems *)
  match goal with |- jrgood st (bind ?X _) => destruct X as [st2| | |] eqn:EP end; cbn [bind jrgood]; try exact I.
  assert (P2 : jgi st2 /\ jext st1 st2).
  { destruct (match prefix with Some x => x | None => [] end) as [|it0 its] eqn:Epre; [inversion EP; subst; split; [exact G1|apply jext_refl]|].
    unfold jnoop in EP.
    destruct (jgi_new (KDec true true) (sfx p "_PREFIX") JPNone st1 G1) as (Ga & Ea & La & Ka & Sa). cbv zeta in *.
    destruct (jnew (KDec true true) (sfx p "_PREFIX") JPNone st1) as [sa pn] eqn:ENa. cbn [fst snd] in *. subst pn.
    assert (Da : is_dec (jb_graph sa) (jlen st1) = true) by (unfold is_dec; rewrite Ka; reflexivity).
    destruct (jgi_add (jlen st) (jlen st1) sa Ga) as (Gb & Eb & Lb); [apply (jext_dec st1); auto|lia|].
    set (sb := jadd (jlen st) (jlen st1) sa) in *.
    change (foldM (pre_step p (jlen st1)) (enumerate (it0 :: its)) sb = Ok st2) in EP.
    destruct (pre_fold p (jlen st1) sb ltac:(lia) ltac:(apply (jext_dec sa); auto; lia) _ sb st2 Gb (jext_refl _) EP) as [Gc Ec].
    split; [exact Gc|]. eapply jext_trans; [exact Ea|eapply jext_trans; eauto]. }
  destruct P2 as [G2 E2].
  assert (D2 : is_dec (jb_graph st2) (jlen st) = true) by (apply (jext_dec st1); auto).
  assert (Lr2 : jlen st < jlen st2) by (destruct E2; lia).
  (* contains *)
  match goal with |- jrgood st (bind ?X _) => destruct X as [[st3 mi]| | |] eqn:EC end; cbn [bind jrgood]; try exact I.
  assert (P3 : jgi st3 /\ jext st2 st3).
  { destruct contains as [c|]; [|inversion EC; subst; split; [exact G2|apply jext_refl]].
    destruct (min_contains =? 0); [inversion EC; subst; split; [exact G2|apply jext_refl]|].
    unfold jnoop in EC.
    destruct (jgi_new (KDec true true) (sfx p "_CONTAINS") JPNone st2 G2) as (Ga & Ea & La & Ka & Sa). cbv zeta in *.
    destruct (jnew (KDec true true) (sfx p "_CONTAINS") JPNone st2) as [sa cn] eqn:ENa. cbn [fst snd] in *. subst cn.
    assert (Da : is_dec (jb_graph sa) (jlen st2) = true) by (unfold is_dec; rewrite Ka; reflexivity).
    destruct (jgi_add (jlen st) (jlen st2) sa Ga) as (Gb & Eb & Lb); [apply (jext_dec st2); auto|lia|].
    set (sb := jadd (jlen st) (jlen st2) sa) in *.
    pose proof (HD (JObj c) (padd p (kw "contains")) sb Gb) as X.
    destruct (parse_dict f (JObj c) (padd p (kw "contains")) sb) as [[sc n]| | |]; cbn [bind jrgood] in *; try discriminate.
    destruct X as (Gc & Ec & Lc).
    destruct (jgi_new (KDec false false) None JPAppend sc Gc) as (Gd & Ed & Ld & Kd & Sd). cbv zeta in *.
    destruct (jnew (KDec false false) None JPAppend sc) as [sd an] eqn:ENd. cbn [fst snd] in *. subst an.
    assert (Dd : is_dec (jb_graph sd) (jlen sc) = true) by (unfold is_dec; rewrite Kd; reflexivity).
    destruct (jgi_add (jlen sc) n sd Gd Dd) as (Ge & Ee & Le); [lia|].
    assert (Eae : jext sa (jadd (jlen sc) n sd)) by (eapply jext_trans; [exact Eb|eapply jext_trans; [exact Ec|eapply jext_trans; eauto]]).
    destruct (jgi_add_times min_contains (jlen st2) (jlen sc) (jadd (jlen sc) n sd) Ge) as (Gf & Ef & Lf);
      [apply (jext_dec sa); auto; lia|lia|].
    inversion EC; subst st3 mi. split; [exact Gf|]. eapply jext_trans; [exact Ea|eapply jext_trans; eauto]. }
  destruct P3 as [G3 E3].
  assert (E13 : jext st1 st3) by (eapply jext_trans; eauto).
  assert (E03 : jext st st3) by (eapply jext_trans; eauto).
  assert (D3 : is_dec (jb_graph st3) (jlen st) = true) by (apply (jext_dec st1); auto).
  assert (Lr3 : jlen st < jlen st3) by (destruct E13; lia).
  destruct (mi =? 0).
  - destruct (outs_of (jb_graph st3) (jlen st)); cbn [jrgood].
    + unfold jnoop_leaf. destruct (jgi_new (KLeaf true) None JPNone st3 G3) as (G4 & E4 & L4 & K4 & S4). cbv zeta in *.
      destruct (jnew (KLeaf true) None JPNone st3) as [st4 l] eqn:EN4. cbn [fst snd jrgood] in *. subst l.
      destruct (jgi_add (jlen st) (jlen st3) st4 G4) as (G5 & E5 & L5); [apply (jext_dec st3); auto|lia|].
      split; [exact G5|]. split; [eapply jext_trans; [exact E03|eapply jext_trans; eauto]|lia].
    + split; [exact G3|]. split; [exact E03|exact Lr3].
  - unfold jnoop.
    destruct (jgi_new (KDec true true) (sfx p "_ITEMS") JPNone st3 G3) as (G4 & E4 & L4 & K4 & S4). cbv zeta in *.
    destruct (jnew (KDec true true) (sfx p "_ITEMS") JPNone st3) as [st4 ai] eqn:EN4. cbn [fst snd] in *. subst ai.
    assert (D4 : is_dec (jb_graph st4) (jlen st3) = true) by (unfold is_dec; rewrite K4; reflexivity).
    destruct (jgi_add (jlen st) (jlen st3) st4 G4) as (G5 & E5 & L5); [apply (jext_dec st3); auto|lia|].
    set (st5 := jadd (jlen st) (jlen st3) st4) in *.
    match goal with |- jrgood st (bind ?X _) => destruct X as [[st6 items_node]| | |] eqn:EI end; cbn [bind jrgood]; try exact I.
    assert (P6 : jgood st5 st6 items_node).
    { destruct items as [it|].
      - pose proof (HD (JObj it) (padd p (kw "items")) st5 G5) as X. rewrite EI in X. exact X.
      - assert (EI' : gen_default_samples st5 = (st6, items_node)).
        { set (r := gen_default_samples st5) in *. clearbody r. inversion EI; reflexivity. }
        pose proof (gen_default_good st5 G5) as X. rewrite EI' in X. exact X. }
    destruct P6 as (G6 & E6 & L6).
    assert (E46 : jext st4 st6) by (eapply jext_trans; eauto).
    change (jgood st (items_loop (jlen st3) items_node mi st6) (jlen st)).
    destruct (items_loop_good (jlen st3) items_node st6 ltac:(destruct E46; lia) ltac:(apply (jext_dec st4); auto; lia) L6 mi st6 G6 (jext_refl _)) as [G7 E7].
    split; [exact G7|]. split; [eapply jext_trans; [exact E03|eapply jext_trans; [exact E4|eapply jext_trans; [exact E46|exact E7]]]|destruct E46, E7; lia].
Qed.
End Step.

Lemma parse_all_good : forall f,
  (forall data p st, jgi st -> jrgood st (parse_dict f data p st)) /\
  (forall entry p st, jgi st -> jrgood st (parse_entry f entry p st)) /\
  (forall d p st, jgi st -> jrgood st (parse_object f d p st)) /\
  (forall d p st, jgi st -> jrgood st (parse_array f d p st)).
Proof.
  induction f as [|f (HD & HE & HO & HA)].
  - repeat split; intros; exact I.
  - split; [|split; [|split]]; intros.
    + apply parse_dict_step; auto.
    + apply parse_entry_step; auto.
    + apply parse_object_step; auto.
    + apply parse_array_step; auto.
Qed.

Lemma parse_dict_good f data p st st' n : jgi st -> parse_dict f data p st = Ok (st', n) -> jgood st st' n.
Proof. intros G H. pose proof (proj1 (parse_all_good f) data p st G) as X. rewrite H in X. exact X. Qed.

(* ---------- parse(): definitions, root, resolve, optimize, input / output wrapping ---------- *)
Theorem parse_nf_links : forall fuel nf st root,
  parse_nf fuel nf = Ok (st, root) ->
  forall x, reach (jb_graph st) root x -> LC (jb_graph st) x /\ is_ref (jb_graph st) x = false.
Proof.
  intros fuel nf st root H. unfold parse_nf in H.
  destruct nf as [| | | | |d]; cbn [bind] in H; try discriminate.
  destruct (read_dict d "$defs") as [defs| | |]; cbn [bind] in H; try discriminate. cbv zeta in H.
  match type of H with bind ?X _ = _ => destruct X as [[st0 all_nodes]| | |] eqn:EF end; cbn [bind] in H; try discriminate.
  assert (Fold : forall l s acc s' acc', jgi s -> (forall n, In n acc -> n < jlen s) ->
            foldM (fun '(st, acc) '(key, definition) =>
                     do '(st, n) <- parse_dict fuel definition [kw "$defs"; key] st;
                     Ok (st, acc ++ [n])) l (s, acc) = Ok (s', acc') ->
            jgi s' /\ forall n, In n acc' -> n < jlen s').
  { induction l as [|[key c] l IH]; intros s acc s' acc' G B HF; cbn [foldM] in HF.
    - inversion HF; subst. auto.
    - destruct (parse_dict fuel c [kw "$defs"; key] s) as [[s1 n]| | |] eqn:EP; cbn [bind] in HF; try discriminate.
      destruct (parse_dict_good fuel c _ s s1 n G EP) as (G1 & E1 & L1).
      apply (IH s1 (acc ++ [n]) s' acc' G1); [|exact HF].
      intros m Hm. apply in_app_or in Hm. destruct Hm as [Hm|[<-|[]]]; [specialize (B m Hm); destruct E1; lia|exact L1]. }
  assert (Gempty : jgi jbempty).
  { split; [exact empty_consistent|]. intros s X. exfalso. apply X. unfold outs_of, getn. cbn. destruct s; reflexivity. }
  destruct (Fold (match defs with Some x => x | None => [] end) jbempty [] st0 all_nodes Gempty) as [G0 B0]; [intros n []|exact EF|].
  destruct (parse_dict fuel (JObj d) [] st0) as [[st1 r0]| | |] eqn:EP; cbn [bind] in H; try discriminate.
  destruct (parse_dict_good fuel _ _ st0 st1 r0 G0 EP) as (G1 & E1 & L1).
  destruct (resolve fuel (jb_graph st1) r0 all_nodes) as [[gr r]| | |] eqn:ER; cbn [bind] in H; try discriminate.
  destruct G1 as [[IOc OOc] ODc].
  destruct (resolve_spec _ _ _ _ _ _ ER OOc (ins_ok_nr_of_ins_ok _ IOc) ODc) as (OOr & INr & (_ & _ & LenR) & _ & Clo).
  pose proof (resolve_root_lt _ _ _ _ _ _ ER L1) as Lr. unfold jlen in Lr. rewrite <- LenR in Lr.
  destruct (optimize fuel gr r) as [g'| | |] eqn:EO; cbn [bind] in H; try discriminate.
  pose proof (resolved_live gr r OOr INr Clo) as L0.
  assert (H0 : ~ ~ reach gr r r) by (intros X; apply X; constructor).
  pose proof (optimize_length fuel gr r g' EO) as LenO.
  assert (Live : exists D, live_inv g' D /\ ~ D r /\ (forall x, ~ D x -> is_ref g' x = false)).
  { destruct (is_dec gr r) eqn:Dr.
    - destruct (optimize_inv fuel gr r g' _ L0 H0 Dr EO) as (D & LD & NRt & _ & KD & _ & SD).
      exists D. split; [exact LD|]. split; [exact NRt|].
      intros x Nx. rewrite (optimize_is_ref fuel gr r g' _ L0 H0 EO x).
      destruct (is_ref gr x) eqn:Rx; [|reflexivity]. exfalso. apply Nx. apply SD. intros R. specialize (Clo x R). congruence.
    - unfold optimize in EO. rewrite Dr in EO. inversion EO; subst g'.
      exists (fun x => ~ reach gr r x). split; [exact L0|]. split; [exact H0|].
      intros x Nx. destruct (is_ref gr x) eqn:Rx; [|reflexivity]. exfalso. apply Nx. intros R. specialize (Clo x R). congruence. }
  destruct Live as (D & LD & NRt & NoRef).
  pose proof (live_restrict g' D LD) as LR. set (D' := fun x => D x /\ x < length g') in *.
  assert (B : forall x, D' x -> x < length g') by (intros x [_ X]; exact X).
  assert (NR' : forall x, x < length g' -> ~ D' x -> is_ref g' x = false).
  { intros x Lx Nx. apply NoRef. intros Dx. apply Nx. split; auto. }
  assert (Nr : ~ D' r) by (intros [X _]; exact (NRt X)).
  assert (Lr' : r < length g') by lia.
  cbv beta iota zeta delta [jnoop jnew jadd jb_graph jb_pay fst snd] in H.
  set (n1 := mkNode (KDec false false) (@None str) [] []) in *.
  set (n2 := mkNode (KDec true true) (@None str) [] []) in *.
  set (n3 := mkNode (KLeaf true) (@None str) [] []) in *.
  set (sup := length g') in *.
  set (g1 := g' ++ [n1]) in *.
  assert (L1' : live_inv g1 D') by (apply live_app; auto).
  assert (Len1 : length g1 = S sup) by (unfold g1; rewrite app_length; cbn; lia).
  assert (N0 : ~ D' sup) by (intros [_ X]; unfold sup in X; lia).
  assert (N1 : ~ D' (S sup)) by (intros [_ X]; unfold sup in X; lia).
  assert (N2 : ~ D' (S (S sup))) by (intros [_ X]; unfold sup in X; lia).
  set (g2 := g1 ++ [n2]) in *.
  assert (B1 : forall x, D' x -> x < length g1) by (intros x X; specialize (B x X); lia).
  assert (L2' : live_inv g2 D') by (apply live_app; auto).
  assert (Len2 : length g2 = S (S sup)) by (unfold g2; rewrite app_length; cbn; lia).
  assert (K2a : is_dec g2 sup = true).
  { unfold is_dec, g2, n2. rewrite kind_app by lia. unfold g1, sup, n1. rewrite kind_app_new. reflexivity. }
  assert (K2b : is_dec g2 (S sup) = true).
  { unfold is_dec, g2, n2. rewrite <- Len1. rewrite kind_app_new. reflexivity. }
  set (g3 := add_transition g2 sup (S sup)) in *.
  assert (L3' : live_inv g3 D') by (apply live_add; auto; lia).
  destruct (add_transition_spec g2 sup (S sup) ltac:(lia) ltac:(lia)) as (K3 & _ & _ & Len3). fold g3 in K3, Len3.
  assert (K3b : is_dec g3 (S sup) = true) by (unfold is_dec; rewrite K3; exact K2b).
  set (g4 := add_transition g3 (S sup) r) in *.
  assert (L4' : live_inv g4 D') by (apply live_add; auto; lia).
  destruct (add_transition_spec g3 (S sup) r ltac:(lia) ltac:(lia)) as (K4 & _ & _ & Len4). fold g4 in K4, Len4.
  set (g5 := g4 ++ [n3]) in *.
  assert (B4 : forall x, D' x -> x < length g4) by (intros x X; specialize (B x X); lia).
  assert (L5' : live_inv g5 D') by (apply live_app; auto).
  assert (Len5 : length g5 = S (S (S sup))) by (unfold g5; rewrite app_length; cbn; lia).
  assert (K5b : is_dec g5 (S sup) = true).
  { unfold is_dec, g5, n3. rewrite kind_app by lia. rewrite K4. exact K3b. }
  set (g6 := add_transition g5 (S sup) (S (S sup))) in *.
  assert (L6' : live_inv g6 D') by (apply live_add; auto; lia).
  destruct (add_transition_spec g5 (S sup) (S (S sup)) ltac:(lia) ltac:(lia)) as (K6 & _ & _ & Len6). fold g6 in K6, Len6.
  assert (X : jb_graph st = g6 /\ root = sup).
  { assert (H' := f_equal (fun r => match r with Ok (s, n) => (jb_graph s, n) | _ => ([], 0) end) H).
    cbv beta iota delta [jb_graph] in H'. apply pair_equal_spec in H'. destruct H' as [H1 H2].
    split; [|symmetry; exact H2]. rewrite <- (H1 : _ = jb_graph st).
    rewrite Len1. fold g3. fold g4. fold g5. rewrite Len4, Len3, Len2. reflexivity. }
  destruct X as [-> ->].
  intros x R. pose proof (live_reach g6 D' sup L6' N0 x R) as Nx. split; [exact (proj1 (L6' x Nx))|].
  unfold is_ref. rewrite K6.
  destruct (Nat.lt_ge_cases x (length g4)) as [Lt|Ge].
  - unfold g5, n3. rewrite kind_app by exact Lt. rewrite K4, K3.
    destruct (Nat.lt_ge_cases x (length g1)) as [Lt1|Ge1].
    + unfold g2, n2. rewrite kind_app by exact Lt1.
      destruct (Nat.lt_ge_cases x (length g')) as [Lt'|Ge'].
      * unfold g1, n1. rewrite kind_app by exact Lt'. exact (NR' x Lt' Nx).
      * assert (x = sup) by (unfold sup in *; lia). subst x. unfold g1, sup, n1. rewrite kind_app_new. reflexivity.
    + assert (x = length g1) by lia. subst x. unfold g2, n2. rewrite kind_app_new. reflexivity.
  - destruct (Nat.eq_dec x (length g4)) as [->|Ne].
    + unfold g5, n3. rewrite kind_app_new. reflexivity.
    + unfold kind_of, getn. rewrite nth_overflow by (unfold g5; rewrite app_length; cbn; lia). reflexivity.
Qed.

Theorem parse_json_schema_links : forall SV fuel schema st root,
  parse_json_schema SV fuel schema = Ok (st, root) ->
  forall x, reach (jb_graph st) root x -> LC (jb_graph st) x /\ is_ref (jb_graph st) x = false.
Proof.
  intros SV fuel schema st root H. unfold parse_json_schema in H.
  destruct (normalize SV _ fuel schema) as [nf| | |]; cbn [bind] in H; try discriminate.
  exact (parse_nf_links fuel nf st root H).
Qed.

(* FormatProofs.v -- serialising by format.py and decoding by the OpenAPI style table is the
   identity on flat values (C19). *)
From Fences Require Import Format.

Lemma split_go_app sep : forall s r cur, ~ In sep s ->
  split_go sep (s ++ r) cur = split_go sep r (rev s ++ cur).
Proof.
  induction s as [|c s IH]; intros r cur H; simpl; auto.
  destruct (Nat.eqb_spec c sep) as [->|N]; [exfalso; apply H; left; reflexivity|].
  rewrite IH by (intros X; apply H; right; exact X). rewrite <- app_assoc. reflexivity.
Qed.

Definition part_ok (sep : nat) (s : str) : Prop := s <> [] /\ ~ In sep s.

Lemma split_go_join sep : forall p ps, Forall (part_ok sep) (p :: ps) ->
  split_go sep (join sep (p :: ps)) [] = p :: ps.
Proof.
  intros p ps; revert p; induction ps as [|q qs IH]; intros p H.
  - inversion H as [|? ? [_ Hp] _]; subst. simpl.
    rewrite <- (app_nil_r p) at 1. rewrite split_go_app by exact Hp. simpl.
    rewrite app_nil_r, rev_involutive. reflexivity.
  - inversion H as [|? ? [_ Hp] Hq]; subst.
    change (join sep (p :: q :: qs)) with (p ++ sep :: join sep (q :: qs)).
    rewrite split_go_app by exact Hp. rewrite app_nil_r. cbn [split_go]. rewrite Nat.eqb_refl, rev_involutive.
    rewrite IH by exact Hq. reflexivity.
Qed.

Lemma join_nonempty sep p ps : p <> [] -> join sep (p :: ps) <> [].
Proof. destruct p; [congruence|]. destruct ps; simpl; discriminate. Qed.

Lemma split_join sep l : Forall (part_ok sep) l -> split sep (join sep l) = l.
Proof.
  destruct l as [|p ps]; intros H; [reflexivity|].
  assert (N : join sep (p :: ps) <> []) by (inversion H as [|? ? [Hp _] _]; apply join_nonempty; exact Hp).
  unfold split. destruct (join sep (p :: ps)) eqn:E; [congruence|]. rewrite <- E.
  apply split_go_join. exact H.
Qed.

Lemma str_eqb_refl s : str_eqb s s = true.
Proof. unfold str_eqb. destruct (list_eq_dec Nat.eq_dec s s); congruence. Qed.

Lemma clean_part_comma s : clean s -> part_ok comma s.
Proof. intros (A & B & C). split; auto. Qed.

Lemma pair_up_flat (d : list (str * elem)) :
  pair_up (flat_map (fun '(k, e) => [k; estr e]) d) = Some (map (fun '(k, e) => (k, estr e)) d).
Proof. induction d as [|[k e] d IH]; simpl; auto. rewrite IH. reflexivity. Qed.

Lemma split_kv_ok k v : clean k -> clean v -> split_kv (k ++ equals :: v) = Some (k, v).
Proof.
  intros (K1 & K2 & K3) (V1 & V2 & V3). unfold split_kv.
  change (k ++ equals :: v) with (join equals [k; v]).
  rewrite split_join; [reflexivity|]. repeat constructor; auto.
Qed.

Lemma kv_part_ok k v : clean k -> clean v -> part_ok comma (k ++ equals :: v).
Proof.
  intros (K1 & K2 & K3) (V1 & V2 & V3). split.
  - destruct k; discriminate.
  - intros H. apply in_app_or in H. destruct H as [H|[H|H]]; auto. discriminate.
Qed.

Lemma all_some_kv (d : list (str * elem)) :
  Forall (fun '(k, e) => clean k /\ clean (estr e)) d ->
  all_some (map split_kv (map (fun '(k, e) => k ++ equals :: estr e) d)) =
  Some (map (fun '(k, e) => (k, estr e)) d).
Proof.
  induction d as [|[k e] d IH]; intros H; simpl; auto.
  inversion H as [|? ? Hx Hd]; subst. destruct Hx as [Hk He]. rewrite split_kv_ok by assumption. rewrite IH by exact Hd.
  reflexivity.
Qed.

Lemma decode_text_simple explode v s :
  flat_ok v -> format_simple v explode = Ok s -> decode_text explode (shape_of v) s = strs v.
Proof.
  destruct v as [t|b|r|l|d|]; simpl; intros F H; try (inversion H; subst; reflexivity); try contradiction.
  - inversion H; subst. rewrite split_join; auto.
    rewrite Forall_map. eapply Forall_impl; [|exact F]. intros e He. apply clean_part_comma. exact He.
  - destruct explode; inversion H; subst; clear H.
    + rewrite split_join.
      * rewrite all_some_kv by exact F. reflexivity.
      * rewrite Forall_map. eapply Forall_impl; [|exact F]. intros [k e] [Hk He]. apply kv_part_ok; auto.
    + rewrite split_join.
      * rewrite pair_up_flat. reflexivity.
      * clear - F. induction d as [|[k e] d IH]; simpl; [constructor|].
        inversion F as [|? ? Hx Hd]; subst. destruct Hx as [Hk He].
        constructor; [apply clean_part_comma; exact Hk|].
        constructor; [apply clean_part_comma; exact He|]. apply IH. exact Hd.
Qed.

Theorem format_roundtrip : forall name st explode v,
  flat_ok v ->
  ~ (st = Form /\ explode = true /\ shape_of v = ShArray) ->
  exists out, format_parameter_value name st explode v = Ok out /\
              decode st explode name (shape_of v) out = strs v.
Proof.
  intros name st explode v F NE.
  assert (S : exists s, format_simple v explode = Ok s).
  { destruct v; simpl in *; try contradiction; eauto. destruct explode; eauto. }
  destruct S as [s S].
  destruct st.
  - (* simple *)
    unfold format_parameter_value. rewrite S. simpl. eexists. split; [reflexivity|].
    unfold decode. simpl. rewrite str_eqb_refl. simpl. apply decode_text_simple; auto.
  - (* form *)
    unfold format_parameter_value, format_form.
    destruct v as [t|b|r|l|d|]; simpl in *; try contradiction.
    + eexists; split; [reflexivity|]. destruct explode; simpl; rewrite str_eqb_refl; reflexivity.
    + eexists; split; [reflexivity|]. destruct explode; simpl; rewrite str_eqb_refl; reflexivity.
    + eexists; split; [reflexivity|]. destruct explode; simpl; rewrite str_eqb_refl; reflexivity.
    + destruct explode; [exfalso; apply NE; auto|].
      eexists; split; [reflexivity|]. simpl. rewrite str_eqb_refl. simpl.
      apply (decode_text_simple false (VList l)); simpl; auto.
    + destruct explode.
      * eexists; split; [reflexivity|]. simpl.
        clear. induction d as [|[k e] d IH]; simpl; auto.
        destruct (all_some _) eqn:E; inversion IH; subst. reflexivity.
      * eexists; split; [reflexivity|]. simpl. rewrite str_eqb_refl. simpl.
        apply (decode_text_simple false (VDict d)); simpl; auto.
Qed.

(* the documented exception: of an exploded form array only the last element is kept, raw *)
Theorem form_explode_array : forall name l,
  format_parameter_value name Form true (VList l) =
  Ok [(name, match rev l with [] => OStr [] | e :: _ => ORaw e end)].
Proof. reflexivity. Qed.

(* anything that is neither scalar, list nor dict is rejected with the library's exception *)
Theorem format_rejects : forall name st explode,
  format_parameter_value name st explode VOther = LibErr EOpenApi.
Proof. intros name [] explode; reflexivity. Qed.

Theorem format_total : forall name st explode v,
  match format_parameter_value name st explode v with
  | Ok _ => v <> VOther | LibErr c => c = EOpenApi /\ v = VOther | _ => False end.
Proof.
  intros name st explode v.
  destruct st, v; simpl; try discriminate; auto; destruct explode; simpl; try discriminate; auto.
Qed.

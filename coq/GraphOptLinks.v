(* GraphOptLinks.v -- optimize() keeps the reachable graph consistently linked and does not make new
   nodes reachable (the part of C15 about links and node count).

   The nodes that optimize() splices out stay in the table (as the Python objects stay in memory) with
   stale records; [live_inv g D] says that every node outside the set D of spliced-out nodes has both
   directions of its links recorded and points to nodes outside D only. *)
From Fences Require Import GraphSpec GraphLinks GraphExec GraphAnalysis GraphTheorems GraphOps GraphOpt.

Definition LC (g : graph) (x : nat) : Prop :=
  (forall s i, In (s, i) (ins_of g x) -> is_dec g s = true /\ nth_error (outs_of g s) i = Some x) /\
  (forall i t, nth_error (outs_of g x) i = Some t -> In (x, i) (ins_of g t)).

Definition live_inv (g : graph) (D : nat -> Prop) : Prop :=
  forall x, ~ D x -> LC g x /\ (forall t, In t (outs_of g x) -> ~ D t).

Lemma mem_In n l : mem n l = true <-> In n l.
Proof.
  induction l as [|x r IH]; cbn [mem In]; [split; [discriminate|tauto]|].
  rewrite orb_true_iff, IH, Nat.eqb_eq. tauto.
Qed.
Lemma mem_nIn n l : mem n l = false <-> ~ In n l.
Proof. rewrite <- mem_In. destruct (mem n l); split; congruence. Qed.

(* ---------- the incoming records after splice ---------- *)
Lemma fold_rename_ins (f : nat * nat -> nat * nat) (Idem : forall r, f (f r) = f r) : forall o g x,
  ins_of (fold_left (fun g t => upd_node g t (fun nd => mkNode (nkind nd) (nid nd) (outs nd) (map f (ins nd)))) o g) x =
  if mem x o then map f (ins_of g x) else ins_of g x.
Proof.
  induction o as [|t o IH]; intros g x; cbn [fold_left mem]; [reflexivity|].
  set (g2 := upd_node g t (fun nd => mkNode (nkind nd) (nid nd) (outs nd) (map f (ins nd)))).
  assert (E : ins_of g2 x = if t =? x then map f (ins_of g x) else ins_of g x).
  { unfold ins_of, g2. destruct (Nat.eqb_spec t x) as [->|Ne].
    - destruct (Nat.lt_ge_cases x (length g)) as [Lt|Ge].
      + rewrite getn_upd_same by exact Lt. reflexivity.
      + rewrite upd_node_out by exact Ge. unfold getn. rewrite nth_overflow by exact Ge. reflexivity.
    - rewrite getn_upd_other by congruence. reflexivity. }
  rewrite IH, E. destruct (t =? x); destruct (mem x o); cbn [orb]; auto.
  rewrite map_map. apply map_ext. exact Idem.
Qed.

Lemma resource_idem mw n : n <> mw -> forall r, resource mw n (resource mw n r) = resource mw n r.
Proof.
  intros Ne [s i]. unfold resource. destruct (Nat.eqb_spec s mw) as [->|N1]; cbn.
  - destruct (Nat.eqb_spec n mw); [congruence|reflexivity].
  - destruct (Nat.eqb_spec s mw); [congruence|reflexivity].
Qed.

Lemma splice_ins g n mw : n <> mw -> forall x,
  ins_of (splice g n mw) x =
  if mem x (outs_of g mw) then map (resource mw n) (ins_of g x) else ins_of g x.
Proof.
  intros Ne x. unfold splice.
  set (k := match kind_of g n with KDec _ noop => KDec (is_all g mw) noop | k => k end).
  set (g1 := upd_node g n (fun nd => mkNode k (nid nd) (outs_of g mw) (ins nd))).
  rewrite (fold_rename_ins _ (resource_idem mw n Ne)).
  assert (E : ins_of g1 x = ins_of g x).
  { unfold ins_of, g1. destruct (Nat.eq_dec x n) as [->|N1].
    - destruct (Nat.lt_ge_cases n (length g)) as [Lt|Ge].
      + rewrite getn_upd_same by exact Lt. reflexivity.
      + rewrite upd_node_out by exact Ge. reflexivity.
    - rewrite getn_upd_other by exact N1. reflexivity. }
  rewrite E. reflexivity.
Qed.

(* ---------- the chain that the while loop follows, as a list ---------- *)
Fixpoint lastd (l : list nat) (d : nat) : nat := match l with [] => d | x :: r => lastd r x end.

Lemma lastd_app l1 l2 d : lastd (l1 ++ l2) d = lastd l2 (lastd l1 d).
Proof. revert d; induction l1 as [|x r IH]; intros d; cbn; auto. Qed.
Lemma lastd_in l d : l <> [] -> In (lastd l d) l.
Proof.
  revert d; induction l as [|x r IH]; intros d H; [congruence|]. cbn [lastd].
  destruct r as [|y r']; [left; reflexivity|]. right. apply IH. discriminate.
Qed.

Lemma lastd_in_cons l d : In (lastd l d) (d :: l).
Proof.
  revert d; induction l as [|x r IH]; intros d; cbn [lastd]; [left; reflexivity|]. right. apply IH.
Qed.

Fixpoint chain_list (k : nat) (g : graph) (vis : list nat) (m : nat) : list nat :=
  match k with
  | 0 => []
  | S k' =>
    match outs_of g m with
    | [s] => if (length (ins_of g s) =? 1) && is_noop g s && negb (mem s vis)
             then s :: chain_list k' g vis s else []
    | _ => []
    end
  end.

Lemma chain_lastd : forall k g vis m, chain k g vis m = lastd (chain_list k g vis m) m.
Proof.
  induction k as [|k IH]; intros g vis m; cbn [chain chain_list]; [reflexivity|].
  destruct (outs_of g m) as [|s [|s2 r]]; try reflexivity.
  destruct ((length (ins_of g s) =? 1) && is_noop g s && negb (mem s vis)); [|reflexivity].
  cbn [lastd]. apply IH.
Qed.

(* every step: single successor, which has exactly one incoming record, is a NoOpDecision, unvisited *)
Inductive pchain (g : graph) (vis : list nat) : nat -> list nat -> Prop :=
| pc_nil m : pchain g vis m []
| pc_cons m s r : outs_of g m = [s] -> ins_of g s = [(m, 0)] -> is_noop g s = true -> mem s vis = false ->
                  pchain g vis s r -> pchain g vis m (s :: r).

Lemma chain_list_pchain (D : nat -> Prop) : forall k g vis m, live_inv g D -> ~ D m ->
  pchain g vis m (chain_list k g vis m) /\ forall x, In x (chain_list k g vis m) -> ~ D x.
Proof.
  induction k as [|k IH]; intros g vis m L Hm; cbn [chain_list]; [split; [constructor|intros x []]|].
  destruct (outs_of g m) as [|s [|s2 r]] eqn:O; try (split; [constructor|intros x []]).
  destruct ((length (ins_of g s) =? 1) && is_noop g s && negb (mem s vis)) eqn:C; [|split; [constructor|intros x []]].
  apply andb_true_iff in C. destruct C as [C C3]. apply andb_true_iff in C. destruct C as [C1 C2].
  apply Nat.eqb_eq in C1. apply negb_true_iff in C3.
  destruct (L m Hm) as [[_ Lb] Lc].
  assert (Hs : ~ D s) by (apply Lc; rewrite O; left; reflexivity).
  assert (Hin : In (m, 0) (ins_of g s)) by (apply Lb; rewrite O; reflexivity).
  assert (Ei : ins_of g s = [(m, 0)]).
  { destruct (ins_of g s) as [|a [|b l]]; cbn in C1; try discriminate. destruct Hin as [->|[]]. reflexivity. }
  destruct (IH g vis s L Hs) as [P N]. split.
  - constructor; auto.
  - intros x [<-|Hx]; auto.
Qed.

Lemma pchain_unvisited g vis m ms : pchain g vis m ms -> forall x, In x ms -> mem x vis = false.
Proof. induction 1 as [|m s r O I N V P IH]; intros x Hx; [destruct Hx|]. destruct Hx as [<-|Hx]; auto. Qed.

Lemma pchain_noop g vis m ms : pchain g vis m ms -> forall x, In x ms -> is_noop g x = true.
Proof. induction 1 as [|m s r O I N V P IH]; intros x Hx; [destruct Hx|]. destruct Hx as [<-|Hx]; auto. Qed.

Lemma pchain_split g vis : forall l1 m t l2, pchain g vis m (l1 ++ t :: l2) -> ins_of g t = [(lastd l1 m, 0)].
Proof.
  induction l1 as [|a l1 IH]; intros m t l2 P; cbn [app lastd] in *.
  - inversion P; subst. assumption.
  - inversion P; subst. eauto.
Qed.

Lemma pchain_nodup g vis : forall ms m, pchain g vis m ms -> ~ In m ms -> NoDup ms.
Proof.
  induction ms as [|s r IH]; intros m P Hm; [constructor|].
  inversion P as [|m' s' r' O I N V P']; subst.
  assert (Hs : ~ In s r).
  { intros Hin. apply in_split in Hin. destruct Hin as (l1 & l2 & ->).
    pose proof (pchain_split g vis l1 s s l2 P') as E. rewrite I in E. inversion E as [E1].
    apply Hm. destruct l1 as [|a l1]; cbn [lastd] in E1.
    - left. symmetry. exact E1.
    - right. apply in_or_app. left. rewrite E1. apply lastd_in_cons. }
  constructor; [exact Hs|]. exact (IH s P' Hs).
Qed.

Lemma pchain_path g vis : forall ms m, pchain g vis m ms ->
  forall root, reach g root m -> reach g root (lastd ms m).
Proof.
  induction ms as [|s r IH]; intros m P root R; cbn [lastd]; auto.
  inversion P; subst. apply IH; auto. apply (reach_step g root m 0 s); auto.
  match goal with H : outs_of g m = [s] |- _ => rewrite H end. reflexivity.
Qed.

Lemma nodup_app_disj (l1 l2 : list nat) x : NoDup (l1 ++ l2) -> In x l1 -> In x l2 -> False.
Proof.
  induction l1 as [|a l1 IH]; intros N H1 H2; [destruct H1|]. cbn in N. inversion N; subst.
  destruct H1 as [->|H1]; [|eauto]. match goal with H : ~ In x (l1 ++ l2) |- _ => apply H end. apply in_or_app. auto.
Qed.

(* ---------- one splice keeps the invariant; the chain joins the spliced-out nodes ---------- *)
Lemma resource_other mw n s i : s <> mw -> resource mw n (s, i) = (s, i).
Proof. intros H. unfold resource. destruct (Nat.eqb_spec s mw); [congruence|reflexivity]. Qed.
Lemma resource_mw mw n i : resource mw n (mw, i) = (n, i).
Proof. unfold resource. rewrite Nat.eqb_refl. reflexivity. Qed.

Lemma splice_live g (D : nat -> Prop) vis n ms :
  live_inv g D -> ~ D n -> mem n vis = true -> is_dec g n = true ->
  pchain g vis n ms -> (forall x, In x ms -> ~ D x) -> ms <> [] ->
  live_inv (splice g n (lastd ms n)) (fun x => D x \/ In x ms).
Proof.
  intros L Hn Vn Dn P PD NE.
  set (mw := lastd ms n). set (g' := splice g n mw). set (o := outs_of g mw).
  assert (Hmw : In mw ms) by (apply lastd_in; exact NE).
  assert (Nn : ~ In n ms).
  { intros H. pose proof (pchain_unvisited _ _ _ _ P n H). congruence. }
  assert (ND : NoDup ms) by (eapply pchain_nodup; eauto).
  assert (Ne : n <> mw) by (intros E; apply Nn; rewrite E; exact Hmw).
  assert (Lmw : ~ D mw) by (apply PD; exact Hmw).
  destruct (kind_of g n) as [v|all noop|nm] eqn:Kn; try (unfold is_dec in Dn; rewrite Kn in Dn; discriminate).
  destruct (splice_spec g n mw all noop Kn (is_dec_lt _ _ Dn)) as (Soth & Skn & Son & _). fold g' in Soth, Skn, Son.
  assert (Sins : forall x, ins_of g' x = if mem x o then map (resource mw n) (ins_of g x) else ins_of g x)
    by (intros x; apply splice_ins; exact Ne).
  assert (Dn' : is_dec g' n = true) by (unfold is_dec; rewrite Skn; reflexivity).
  assert (Dec' : forall s, s <> n -> is_dec g' s = is_dec g s)
    by (intros s Hs; unfold is_dec; rewrite (proj1 (Soth s Hs)); reflexivity).
  (* the first node of the chain is the only successor of n *)
  assert (X : exists m1, outs_of g n = [m1] /\ In m1 ms).
  { clear - P NE. destruct ms as [|m1 r]; [congruence|]. inversion P; subst. exists m1. split; [assumption|left; reflexivity]. }
  destruct X as (m1 & On & Hm1).
  (* a chain node is a successor of its predecessor only *)
  assert (Par : forall x i t, ~ D x -> nth_error (outs_of g x) i = Some t -> In t ms -> x = n \/ In x ms).
  { intros x i t Hx Ht Hin. apply in_split in Hin. destruct Hin as (l1 & l2 & E).
    rewrite E in P. pose proof (pchain_split _ _ _ _ _ _ P) as Ei.
    destruct (L x Hx) as [[_ Lb] _]. specialize (Lb i t Ht). rewrite Ei in Lb. destruct Lb as [Lb|[]].
    inversion Lb as [[E1 E2]]. destruct l1 as [|a l1]; cbn [lastd]; [left; reflexivity|].
    right. rewrite E. apply in_or_app. left. apply lastd_in_cons. }
  intros x Hx. assert (HxD : ~ D x) by (intros H; apply Hx; auto).
  assert (Hxm : ~ In x ms) by (intros H; apply Hx; auto).
  destruct (L x HxD) as [[La Lb] Lc]. destruct (L mw Lmw) as [[_ Lbm] Lcm].
  assert (Xmw : x <> mw) by (intros E; apply Hxm; rewrite E; exact Hmw).
  split; [split|].
  - (* incoming records of x *)
    intros s i Hin. rewrite Sins in Hin.
    assert (Core : forall s0 i0, In (s0, i0) (ins_of g x) -> s0 <> mw ->
                   is_dec g' s0 = true /\ nth_error (outs_of g' s0) i0 = Some x).
    { intros s0 i0 H0 N0. destruct (La s0 i0 H0) as [A B].
      destruct (Nat.eq_dec s0 n) as [->|N1].
      - exfalso. rewrite On in B. destruct i0 as [|[|i0]]; cbn in B; try discriminate.
        inversion B; subst x. exact (Hxm Hm1).
      - rewrite (Dec' s0 N1). rewrite (proj2 (Soth s0 N1)). auto. }
    destruct (mem x o) eqn:Mx.
    + apply in_map_iff in Hin. destruct Hin as ([s0 i0] & E & H0).
      destruct (Nat.eq_dec s0 mw) as [->|N0].
      * rewrite resource_mw in E. inversion E; subst s i. split; [exact Dn'|].
        rewrite Son. exact (proj2 (La mw i0 H0)).
      * rewrite resource_other in E by exact N0. inversion E; subst s i. apply Core; auto.
    + destruct (Nat.eq_dec s mw) as [->|N0].
      * exfalso. apply mem_nIn in Mx. apply Mx. destruct (La mw i Hin) as [_ B].
        eapply nth_error_In; eauto.
      * apply Core; auto.
  - (* outgoing transitions of x *)
    intros i t Ht. rewrite Sins.
    destruct (Nat.eq_dec x n) as [->|N1].
    + rewrite Son in Ht. assert (Mt : mem t o = true) by (apply mem_In; eapply nth_error_In; eauto).
      rewrite Mt. apply in_map_iff. exists (mw, i). split; [apply resource_mw|]. apply Lbm. exact Ht.
    + rewrite (proj2 (Soth x N1)) in Ht. specialize (Lb i t Ht).
      destruct (mem t o); [|exact Lb]. apply in_map_iff. exists (x, i). split; [apply resource_other; exact Xmw|exact Lb].
  - (* successors of x are neither spliced out earlier nor now *)
    intros t Ht Hin.
    destruct (Nat.eq_dec x n) as [->|N1].
    + rewrite Son in Ht. destruct Hin as [Hin|Hin]; [exact (Lcm t Ht Hin)|].
      apply In_nth_error in Ht. destruct Ht as [i Ht].
      (* t in the chain with predecessor mw = the last node: impossible without a repetition *)
      apply in_split in Hin. destruct Hin as (l1 & l2 & E).
      assert (P' := P). rewrite E in P'. pose proof (pchain_split _ _ _ _ _ _ P') as Ei.
      specialize (Lbm i t Ht). rewrite Ei in Lbm. destruct Lbm as [Lbm|[]]. inversion Lbm as [[E1 E2]].
      assert (Emw : mw = lastd l2 t).
      { unfold mw. rewrite E, lastd_app. reflexivity. }
      destruct l1 as [|a l1]; cbn [lastd] in E1; [congruence|].
      assert (I1 : In mw (a :: l1)) by (rewrite <- E1; apply lastd_in_cons).
      assert (I2 : In mw (t :: l2)) by (rewrite Emw; apply lastd_in_cons).
      rewrite E in ND. exact (nodup_app_disj _ _ _ ND I1 I2).
    + rewrite (proj2 (Soth x N1)) in Ht. destruct Hin as [Hin|Hin]; [exact (Lc t Ht Hin)|].
      apply In_nth_error in Ht. destruct Ht as [i Ht].
      destruct (Par x i t HxD Ht Hin) as [->|H]; [congruence|exact (Hxm H)].
Qed.

(* ---------- the traversal ---------- *)
Definition disj (a : list nat) (D : nat -> Prop) : Prop := forall x, In x a -> ~ D x.
Definition sub (D D' : nat -> Prop) : Prop := forall x, D x -> D' x.
Lemma sub_refl D : sub D D. Proof. intros x H; exact H. Qed.
Lemma sub_trans D1 D2 D3 : sub D1 D2 -> sub D2 D3 -> sub D1 D3. Proof. intros A B x H; auto. Qed.

(* every transition of g is a path of g0 *)
Definition paths_in (g0 g : graph) : Prop :=
  forall s i t, nth_error (outs_of g s) i = Some t -> reach g0 s t.

Lemma reach_trans g a b c : reach g a b -> reach g b c -> reach g a c.
Proof. intros H1 H2. induction H2 as [|s i t R IH N]; auto. eapply reach_step; eauto. Qed.

Lemma paths_in_reach g0 g a b : paths_in g0 g -> reach g a b -> reach g0 a b.
Proof.
  intros P H. induction H as [|s i t R IH N]; [constructor|]. eapply reach_trans; eauto.
Qed.

Record opt_post' (g0 g : graph) (vis : list nat) (n : nat) (g' : graph) (vis' : list nat) (D' : nat -> Prop) : Prop := {
  op_live : live_inv g' D';
  op_disj : disj vis' D';
  op_vis : incl vis vis';
  op_n : In n vis';
  op_outs : forall x, In x vis -> outs_of g' x = outs_of g x;
  op_dec : forall x, is_dec g' x = is_dec g x;
  op_kind : forall x, is_dec g x = false -> kind_of g' x = kind_of g x;
  op_paths : paths_in g0 g'
}.

Lemma opt_live g0 : forall f g vis n g' vis' (D : nat -> Prop),
  opt f g vis n = Ok (g', vis') ->
  live_inv g D -> disj vis D -> ~ D n -> is_dec g n = true -> paths_in g0 g ->
  exists D', sub D D' /\ opt_post' g0 g vis n g' vis' D'.
Proof.
  induction f as [|f IH]; intros g vis n g' vis' D H L Dj Hn Dn Pg; cbn [opt] in H; [discriminate|].
  destruct (mem n vis) eqn:Mn.
  { inversion H; subst g' vis'. exists D. split; [apply sub_refl|].
    constructor; auto; [apply incl_refl|apply mem_In; exact Mn]. }
  set (vis1 := n :: vis) in *.
  set (ms := chain_list (length g) g vis1 n).
  assert (Emw : chain (length g) g vis1 n = lastd ms n) by apply chain_lastd.
  rewrite Emw in H. set (mw := lastd ms n) in *.
  destruct (chain_list_pchain D (length g) g vis1 n L Hn) as [P PD]. fold ms in P, PD.
  assert (Vn : mem n vis1 = true) by (unfold vis1; cbn [mem]; rewrite Nat.eqb_refl; reflexivity).
  assert (Dj1 : disj vis1 D) by (intros x [<-|Hx]; auto).
  (* the graph after the splice at n, and its invariant *)
  set (g1 := if mw =? n then g else splice g n mw) in *.
  assert (S1 : exists D1, sub D D1 /\ live_inv g1 D1 /\ disj vis1 D1 /\
                (forall x, In x vis -> outs_of g1 x = outs_of g x) /\
                (forall x, is_dec g1 x = is_dec g x) /\ (forall x, is_dec g x = false -> kind_of g1 x = kind_of g x) /\ paths_in g0 g1).
  { unfold g1. destruct (Nat.eqb_spec mw n) as [E|Ne].
    - exists D. split; [apply sub_refl|]. split; [exact L|]. split; [exact Dj1|].
      split; [intros; reflexivity|]. split; [intros; reflexivity|]. split; [intros; reflexivity|exact Pg].
    - assert (NE : ms <> []) by (intros E; apply Ne; unfold mw; rewrite E; reflexivity).
      exists (fun x => D x \/ In x ms). split; [intros x Hx; left; exact Hx|].
      split; [apply splice_live with (vis := vis1); auto|].
      destruct (kind_of g n) as [v|all noop|nm] eqn:Kn; try (unfold is_dec in Dn; rewrite Kn in Dn; discriminate).
      destruct (splice_spec g n mw all noop Kn (is_dec_lt _ _ Dn)) as (Soth & Skn & Son & _).
      assert (Nvis : ~ In n vis) by (apply mem_nIn; exact Mn).
      split; [|split; [|split; [|split]]].
      + intros x Hx Hin. destruct Hin as [Hin|Hin]; [exact (Dj1 x Hx Hin)|].
        pose proof (pchain_unvisited _ _ _ _ P x Hin) as U. apply mem_nIn in U. exact (U Hx).
      + intros x Hx. apply Soth. intros ->. exact (Nvis Hx).
      + intros x. destruct (Nat.eq_dec x n) as [->|Nx].
        * unfold is_dec. rewrite Skn, Kn. reflexivity.
        * unfold is_dec. rewrite (proj1 (Soth x Nx)). reflexivity.
      + intros x Dx. apply Soth. intros ->. congruence.
      + intros s i t Ht. destruct (Nat.eq_dec s n) as [->|Ns].
        * rewrite Son in Ht.
          assert (R : reach g n mw) by (apply pchain_path with (vis := vis1); [exact P|constructor]).
          eapply reach_trans; [exact (paths_in_reach g0 g n mw Pg R)|]. exact (Pg mw i t Ht).
        * rewrite (proj2 (Soth s Ns)) in Ht. exact (Pg s i t Ht). }
  destruct S1 as (D1 & I1 & L1 & Dj1' & O1 & K1 & KK1 & P1).
  (* the loop over the successors *)
  assert (Fold : forall l g2 vis2 (D2 : nat -> Prop) g3 vis3,
    foldM (fun '(g, vis) t => if is_dec g t then opt f g vis t else Ok (g, vis)) l (g2, vis2) = Ok (g3, vis3) ->
    live_inv g2 D2 -> disj vis2 D2 -> In n vis2 -> (forall t, In t l -> In t (outs_of g2 n)) -> paths_in g0 g2 ->
    exists D3, sub D2 D3 /\ live_inv g3 D3 /\ disj vis3 D3 /\ incl vis2 vis3 /\
               (forall x, In x vis2 -> outs_of g3 x = outs_of g2 x) /\ (forall x, is_dec g3 x = is_dec g2 x) /\
               (forall x, is_dec g2 x = false -> kind_of g3 x = kind_of g2 x) /\ paths_in g0 g3).
  { induction l as [|t l IHl]; intros g2 vis2 D2 g3 vis3 HF L2 Dj2 N2 Sub P2; cbn [foldM] in HF.
    - inversion HF; subst g3 vis3. exists D2. split; [apply sub_refl|]. split; [exact L2|]. split; [exact Dj2|].
      split; [apply incl_refl|]. split; [intros; reflexivity|]. split; [intros; reflexivity|]. split; [intros; reflexivity|exact P2].
    - assert (Ht : ~ D2 t).
      { destruct (L2 n (Dj2 n N2)) as [_ C]. apply C. apply Sub. left. reflexivity. }
      destruct (is_dec g2 t) eqn:Dt.
      + destruct (opt f g2 vis2 t) as [[g4 vis4]| | |] eqn:Eo; cbn [bind] in HF; try discriminate.
        destruct (IH _ _ _ _ _ D2 Eo L2 Dj2 Ht Dt P2) as (D4 & I4 & [L4 Dj4 V4 _ O4 K4 KK4 P4]).
        destruct (IHl g4 vis4 D4 g3 vis3 HF L4 Dj4 (V4 n N2)) as (D3 & I3 & L3 & Dj3 & V3 & O3 & K3 & KK3 & P3); auto.
        { intros t' Ht'. rewrite (O4 n N2). apply Sub. right. exact Ht'. }
        exists D3. split; [eapply sub_trans; eauto|]. split; [exact L3|]. split; [exact Dj3|].
        split; [eapply incl_tran; eauto|]. split; [|split; [|split; [|exact P3]]].
        * intros x Hx. rewrite (O3 x (V4 x Hx)). apply O4. exact Hx.
        * intros x. rewrite K3. apply K4.
        * intros x Dx. rewrite KK3 by (rewrite K4; exact Dx). apply KK4. exact Dx.
      + cbn [bind] in HF. apply (IHl g2 vis2 D2 g3 vis3 HF L2 Dj2 N2); auto.
        intros t' Ht'. apply Sub. right. exact Ht'. }
  destruct (Fold (outs_of g1 n) g1 vis1 D1 g' vis' H L1 Dj1' (or_introl eq_refl) (fun t Ht => Ht) P1)
    as (D3 & I3 & L3 & Dj3 & V3 & O3 & K3 & KK3 & P3).
  exists D3. split; [eapply sub_trans; eauto|].
  constructor; auto.
  - intros x Hx. apply V3. right. exact Hx.
  - apply V3. left. reflexivity.
  - intros x Hx. rewrite (O3 x (or_intror Hx)). apply O1. exact Hx.
  - intros x. rewrite K3. apply K1.
  - intros x Dx. rewrite KK3 by (rewrite K1; exact Dx). apply KK1. exact Dx.
Qed.

(* ---------- optimize() ---------- *)
Lemma consistent_live g : consistent g -> live_inv g (fun _ => False).
Proof.
  intros [IO OO] x _. split; [split|].
  - intros s i H. exact (IO x s i H).
  - intros i t H. exact (OO x i t H).
  - intros t _ [].
Qed.

Lemma paths_in_refl g : paths_in g g.
Proof. intros s i t H. eapply reach_step; [constructor|exact H]. Qed.

Lemma live_reach g D root : live_inv g D -> ~ D root -> forall x, reach g root x -> ~ D x.
Proof.
  intros L Hr x R. induction R as [|s i t R IH N]; [exact Hr|].
  destruct (L s IH) as [_ Cl]. apply Cl. eapply nth_error_In; eauto.
Qed.

Lemma optimize_inv fuel g root g' D0 : live_inv g D0 -> ~ D0 root -> is_dec g root = true ->
  optimize fuel g root = Ok g' ->
  exists D, live_inv g' D /\ ~ D root /\ paths_in g g' /\
            (forall x, is_dec g' x = is_dec g x) /\ (forall x, is_dec g x = false -> kind_of g' x = kind_of g x) /\
            sub D0 D.
Proof.
  intros L0 H0 Dr H. unfold optimize in H. rewrite Dr in H.
  destruct (opt fuel g [] root) as [[g1 vis1]| | |] eqn:E; cbn [bind] in H; try discriminate.
  inversion H; subst g1.
  destruct (opt_live g fuel g [] root g' vis1 D0 E L0) as (D & SD & [L Dj _ N _ KD KK P]); auto.
  - intros x [].
  - apply paths_in_refl.
  - exists D. split; [exact L|]. split; [exact (Dj root N)|]. split; [exact P|]. split; [exact KD|]. split; [exact KK|exact SD].
Qed.

(* The checks of fences.core.debug.check_consistency hold at every node reachable from the root after
   optimize(), for every table in which they held at the nodes outside some set D0 closed under predecessors
   (D0 empty: a table linked consistently throughout; D0 = the nodes resolve() left unreachable). *)
Theorem optimize_links_gen fuel g root g' D0 : live_inv g D0 -> ~ D0 root ->
  optimize fuel g root = Ok g' -> forall x, reach g' root x -> LC g' x.
Proof.
  intros L0 H0 H x R. destruct (is_dec g root) eqn:Dr.
  - destruct (optimize_inv fuel g root g' D0 L0 H0 Dr H) as (D & L & Hr & _).
    exact (proj1 (L x (live_reach g' D root L Hr x R))).
  - unfold optimize in H. rewrite Dr in H. inversion H; subst g'.
    exact (proj1 (L0 x (live_reach g D0 root L0 H0 x R))).
Qed.

(* no node becomes reachable that was not reachable before *)
Theorem optimize_reach_gen fuel g root g' D0 : live_inv g D0 -> ~ D0 root ->
  optimize fuel g root = Ok g' -> forall x, reach g' root x -> reach g root x.
Proof.
  intros L0 H0 H x R. destruct (is_dec g root) eqn:Dr.
  - destruct (optimize_inv fuel g root g' D0 L0 H0 Dr H) as (D & _ & _ & P & _). exact (paths_in_reach g g' root x P R).
  - unfold optimize in H. rewrite Dr in H. inversion H; subst g'. exact R.
Qed.

(* items() yields every reachable node when the reachable nodes are consistently linked *)
Lemma items_complete_live g D root f its : live_inv g D -> ~ D root ->
  items f g root = Ok its -> forall x, reach g root x -> In x its.
Proof.
  intros L Hr H. unfold items in H.
  destruct (dfs_closed g _ _ _ _ (fun _ => False) H) as (_ & R & C); [intros x []|].
  intros x Hx. induction Hx as [|s i t Rs IHs N]; auto.
  pose proof (live_reach g D root L Hr s Rs) as Ls.
  destruct (L s Ls) as [[_ Lb] Cl].
  assert (Lt : ~ D t) by (apply Cl; eapply nth_error_In; eauto).
  destruct (L t Lt) as [[La _] _]. destruct (La s i (Lb i t N)) as [Ds _].
  eapply C; eauto. eapply nth_error_In; eauto.
Qed.

(* hence Node.items() does not grow *)
Theorem optimize_count_gen fuel g root g' D0 f1 f2 its its' : live_inv g D0 -> ~ D0 root ->
  optimize fuel g root = Ok g' ->
  items f1 g root = Ok its -> items f2 g' root = Ok its' -> length its' <= length its.
Proof.
  intros L0 H0 H I1 I2. apply NoDup_incl_length.
  - unfold items in I2. eapply dfs_nodup; eauto. constructor.
  - intros x Hx. unfold items in I2.
    destruct (dfs_reach g' root f2 [] root its' I2) as [R _]; [intros y []|constructor|].
    eapply items_complete_live; eauto. eapply optimize_reach_gen; eauto.
Qed.

(* the table itself keeps its size, and only decisions are rewritten *)
Lemma opt_length : forall f g vis n g' vis', opt f g vis n = Ok (g', vis') -> length g' = length g.
Proof.
  induction f as [|f IH]; intros g vis n g' vis' H; cbn [opt] in H; [discriminate|].
  destruct (mem n vis); [inversion H; reflexivity|].
  set (mw := chain (length g) g (n :: vis) n) in *.
  set (g1 := if mw =? n then g else splice g n mw) in *.
  assert (L1 : length g1 = length g).
  { unfold g1. destruct (mw =? n); [reflexivity|]. unfold splice.
    match goal with |- length (fold_left _ ?o ?g0) = _ =>
      destruct (fold_upd_ins_spec (fun nd => map (resource mw n) (ins nd)) o g0) as (_ & _ & E) end.
    rewrite E. apply upd_node_length. }
  rewrite <- L1. clear L1. revert H. generalize (outs_of g1 n) as l. generalize (n :: vis) as vis2. generalize g1 as g2.
  intros g2 vis2 l. revert g2 vis2.
  induction l as [|t l IHl]; intros g2 vis2 HF; cbn [foldM] in HF; [inversion HF; reflexivity|].
  destruct (is_dec g2 t).
  - destruct (opt f g2 vis2 t) as [[g3 vis3]| | |] eqn:E; cbn [bind] in HF; try discriminate.
    rewrite (IHl _ _ HF). eapply IH; eauto.
  - cbn [bind] in HF. eauto.
Qed.

Theorem optimize_length fuel g root g' : optimize fuel g root = Ok g' -> length g' = length g.
Proof.
  unfold optimize. destruct (is_dec g root); [|intros H; inversion H; reflexivity].
  destruct (opt fuel g [] root) as [[g1 v]| | |] eqn:E; cbn [bind]; try discriminate.
  intros H. inversion H; subst. eapply opt_length; eauto.
Qed.

(* ---------- the two instances ---------- *)
Theorem optimize_links fuel g root g' : consistent g -> optimize fuel g root = Ok g' ->
  forall x, reach g' root x -> LC g' x.
Proof. intros C. apply optimize_links_gen with (D0 := fun _ => False); [apply consistent_live; exact C|tauto]. Qed.

Theorem optimize_count fuel g root g' f1 f2 its its' : consistent g -> optimize fuel g root = Ok g' ->
  items f1 g root = Ok its -> items f2 g' root = Ok its' -> length its' <= length its.
Proof. intros C. apply optimize_count_gen with (D0 := fun _ => False); [apply consistent_live; exact C|tauto]. Qed.

(* optimize() rewrites decisions only: what is a Reference stays one, and nothing becomes one *)
Theorem optimize_is_ref fuel g root g' D0 : live_inv g D0 -> ~ D0 root ->
  optimize fuel g root = Ok g' -> forall x, is_ref g' x = is_ref g x.
Proof.
  intros L0 H0 H x. destruct (is_dec g root) eqn:Dr.
  - destruct (optimize_inv fuel g root g' D0 L0 H0 Dr H) as (D & _ & _ & _ & KD & KK & _).
    destruct (is_dec g x) eqn:Dx.
    + pose proof (KD x) as Dx'. rewrite Dx in Dx'. unfold is_ref, is_dec in *.
      destruct (kind_of g x); try discriminate. destruct (kind_of g' x); try discriminate. reflexivity.
    + unfold is_ref. rewrite (KK x Dx). reflexivity.
  - unfold optimize in H. rewrite Dr in H. inversion H; subst. reflexivity.
Qed.

(* a table as resolve() leaves it: links truthful except at Reference nodes, none of which is reachable *)
From Fences Require Import GraphResolve.

Lemma resolved_live g r : outs_ok g -> ins_ok_nr g -> (forall x, reach g r x -> is_ref g x = false) ->
  live_inv g (fun x => ~ reach g r x).
Proof.
  intros OO IN NR x Hx. split; [split|].
  - intros s i H. apply (IN x s i); [|exact H].
    destruct (is_ref g x) eqn:E; [|reflexivity]. exfalso. apply Hx. intros R. specialize (NR x R). congruence.
  - intros i t H. exact (OO x i t H).
  - intros t Ht Hn. apply Hx. intros R. apply Hn. apply In_nth_error in Ht. destruct Ht as [i Ht].
    eapply reach_step; eauto.
Qed.

Theorem optimize_links_resolved fuel g r g' :
  outs_ok g -> ins_ok_nr g -> (forall x, reach g r x -> is_ref g x = false) ->
  optimize fuel g r = Ok g' -> forall x, reach g' r x -> LC g' x.
Proof.
  intros OO IN NR. apply optimize_links_gen with (D0 := fun x => ~ reach g r x).
  - apply resolved_live; auto.
  - intros H. apply H. constructor.
Qed.

Theorem optimize_count_resolved fuel g r g' f1 f2 its its' :
  outs_ok g -> ins_ok_nr g -> (forall x, reach g r x -> is_ref g x = false) ->
  optimize fuel g r = Ok g' ->
  items f1 g r = Ok its -> items f2 g' r = Ok its' -> length its' <= length its.
Proof.
  intros OO IN NR. apply optimize_count_gen with (D0 := fun x => ~ reach g r x).
  - apply resolved_live; auto.
  - intros H. apply H. constructor.
Qed.

Theorem optimize_closed_resolved fuel g r g' :
  outs_ok g -> ins_ok_nr g -> (forall x, reach g r x -> is_ref g x = false) ->
  optimize fuel g r = Ok g' -> forall x, reach g' r x -> is_ref g' x = false.
Proof.
  intros OO IN NR H x R.
  assert (L : live_inv g (fun x => ~ reach g r x)) by (apply resolved_live; auto).
  assert (H0 : ~ ~ reach g r r) by (intros X; apply X; constructor).
  rewrite (optimize_is_ref fuel g r g' _ L H0 H x). apply NR. eapply optimize_reach_gen; eauto.
Qed.

#!/bin/bash
# usage: goal.sh File.v LINE  -- show goals after line LINE
f=$1; n=$2
head -n $n $f > /tmp/_goal_$$.v
echo "Show." >> /tmp/_goal_$$.v
cd $(dirname $f)
timeout 120 coqc -Q . Fences /tmp/_goal_$$.v 2>&1 | grep -v "^File\|Error: There are pending proofs\|in file" | head -${3:-60}
rm -f /tmp/_goal_$$.*  /tmp/._goal_$$.aux

(* NormRef.v -- after _inline_refs no "$ref" keyword is left where _to_dnf looks (the schema itself and everything
   reachable through anyOf / allOf / oneOf / not / if / then / else), and _to_dnf keeps it that way: the
   alternatives of its result carry no "$ref". *)
From Fences Require Import Normalize NormShape.
From Coq Require Import String.
Local Open Scope list_scope.

Definition LISTC : list str := kws ["anyOf"; "allOf"; "oneOf"]%string.
Definition SINGC : list str := kws ["not"; "if"; "then"; "else"]%string.
Definition REF : str := kw "$ref".

(* [sub s x]: x is s, or a schema _to_dnf may descend into from s *)
Inductive sub : json -> json -> Prop :=
| sub_refl s : sub s s
| sub_list d k l x y : In k LISTC -> dget k d = Some (JArr l) -> In x l -> sub x y -> sub (JObj d) y
| sub_single d k x y : In k SINGC -> dget k d = Some x -> sub x y -> sub (JObj d) y.

Definition noref (x : json) : Prop := forall d, x = JObj d -> dget REF d = None.
Definition RF (s : json) : Prop := forall x, sub s x -> noref x.

Lemma sub_trans a b c : sub a b -> sub b c -> sub a c.
Proof.
  intros H. revert c. induction H; intros c Hc; auto.
  - eapply sub_list; eauto.
  - eapply sub_single; eauto.
Qed.

Lemma RF_sub s x : RF s -> sub s x -> RF x.
Proof. intros H S y Hy. apply H. eapply sub_trans; eauto. Qed.

Lemma RF_bool b : RF (JBool b).
Proof. intros x H. inversion H; subst. intros d E. discriminate. Qed.

(* a dict whose combinator entries are known *)
Lemma RF_obj d : dget REF d = None ->
  (forall k l x, In k LISTC -> dget k d = Some (JArr l) -> In x l -> RF x) ->
  (forall k x, In k SINGC -> dget k d = Some x -> RF x) -> RF (JObj d).
Proof.
  intros N HL HS x H. inversion H; subst.
  - intros d' E. inversion E; subst. exact N.
  - eapply HL; eauto.
  - eapply HS; eauto.
Qed.

Lemma RF_list_elem d k l x : RF (JObj d) -> In k LISTC -> dget k d = Some (JArr l) -> In x l -> RF x.
Proof. intros H Hk G Hx. eapply RF_sub; [exact H|]. eapply sub_list; eauto. apply sub_refl. Qed.
Lemma RF_single_elem d k x : RF (JObj d) -> In k SINGC -> dget k d = Some x -> RF x.
Proof. intros H Hk G. eapply RF_sub; [exact H|]. eapply sub_single; eauto. apply sub_refl. Qed.
Lemma RF_top d : RF (JObj d) -> dget REF d = None.
Proof. intros H. apply (H (JObj d) (sub_refl _) d eq_refl). Qed.

(* RF only depends on the "$ref" entry and the combinator entries *)
Definition WATCH : list str := REF :: LISTC ++ SINGC.
Lemma RF_same d d' : (forall k, In k WATCH -> dget k d' = dget k d) -> RF (JObj d) -> RF (JObj d').
Proof.
  intros E H. apply RF_obj.
  - rewrite E; [apply RF_top; exact H|left; reflexivity].
  - intros k l x Hk G Hx. rewrite E in G by (right; apply in_or_app; auto). eapply RF_list_elem; eauto.
  - intros k x Hk G. rewrite E in G by (right; apply in_or_app; auto). eapply RF_single_elem; eauto.
Qed.

(* entries can only disappear *)
Lemma RF_less d d' : (forall k v, In k WATCH -> dget k d' = Some v -> dget k d = Some v) -> RF (JObj d) -> RF (JObj d').
Proof.
  intros E H. apply RF_obj.
  - destruct (dget REF d') eqn:G; auto. apply E in G; [|left; reflexivity]. rewrite (RF_top d H) in G. discriminate.
  - intros k l x Hk G Hx. apply E in G; [|right; apply in_or_app; auto]. eapply RF_list_elem; eauto.
  - intros k x Hk G. apply E in G; [|right; apply in_or_app; auto]. eapply RF_single_elem; eauto.
Qed.

Lemma dget_dset_same k v d : dget k (dset k v d) = Some v.
Proof.
  induction d as [|[k' v'] r IH]; cbn [dset dget]; [rewrite str_eqb_refl; reflexivity|].
  destruct (str_eqb k' k) eqn:E; cbn [dget]; [rewrite str_eqb_refl; reflexivity|rewrite E; exact IH].
Qed.

Lemma dget_ddel_some k c d v : dget c (ddel k d) = Some v -> dget c d = Some v.
Proof.
  induction d as [|[k' v'] r IH]; cbn [ddel dget]; auto.
  destruct (str_eqb k' k) eqn:E.
  - intros H. specialize (IH H). destruct (str_eqb k' c) eqn:Ec; auto.
    (* k' = k = c: the entry was deleted, so c cannot be found in the rest either *)
    apply str_eqb_eq in E. apply str_eqb_eq in Ec. subst. rewrite dget_ddel_same in H. discriminate.
  - cbn [dget]. destruct (str_eqb k' c); auto.
Qed.

Lemma dget_filter_some (p : str * json -> bool) c d v : dget c (filter p d) = Some v -> exists v', dget c d = Some v'.
Proof.
  induction d as [|[k' v'] r IH]; cbn [filter dget]; [discriminate|].
  destruct (p (k', v')); cbn [dget]; destruct (str_eqb k' c); eauto.
Qed.

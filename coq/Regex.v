(* Regex.v -- regex AST of the C09 dialect, MODEL of fences/regex/parse.py (tree converters,
   _repeat, parse) and of core/random.py generate_random_string (definitions only).
   The lark-generated LALR parser and unescape() are not modelled: the model starts from the AST,
   the correspondence prints the AST to concrete syntax and lets the implementation parse it. *)
From Fences Require Export Graph GraphOps Format.

Inductive quant :=
| QStar | QPlus | QOpt
| QRange (n : nat) (m : option (option nat)).   (* {n} = None, {n,} = Some None, {n,m} = Some (Some m) *)

Inductive citem := CChar (c : nat) | CRange (a b : nat).

Inductive regex :=                                (* expression : subexpression ("|" expression)? *)
| RAlt1 (s : subexp)
| RAlt (s : subexp) (r : regex)
with subexp :=                                    (* subexpression : subexpressionitem+ *)
| SOne (i : item)
| SCons (i : item) (s : subexp)
with item :=
| IChar (c : nat) (q : option quant)
| IClass (first : citem) (rest : list citem) (q : option quant)
| IGroup (noncapturing : bool) (r : regex) (q : option quant).

(* ---------- graph under construction, with the payload of the AppendCharsLeaf nodes ---------- *)
Inductive payload := PNone | PChars (s : str) | PInput | POutput.
Record bst := mkBst { b_graph : graph; b_pay : list payload }.
Definition bempty := mkBst [] [].
Definition new_node (k : kind) (p : payload) (st : bst) : bst * nat :=
  (mkBst (b_graph st ++ [mkNode k None [] []]) (b_pay st ++ [p]), length (b_graph st)).
Definition add_t (s t : nat) (st : bst) : bst := mkBst (add_transition (b_graph st) s t) (b_pay st).
Definition noop_dec (all : bool) := new_node (KDec all true) PNone.
Definition char_leaf (c : nat) := new_node (KLeaf true) (PChars [c]).
Definition noop_leaf := new_node (KLeaf true) PNone.

(* _parse_repetition *)
Definition rep_of (q : quant) : res (nat * option nat) :=
  match q with
  | QStar => Ok (0, None)
  | QPlus => Ok (1, None)
  | QOpt => Ok (0, Some 1)
  | QRange n None => Ok (n, Some n)
  | QRange n (Some None) => Ok (n, None)          (* open range (after the fix; the pinned grammar read {n,} as {n}) *)
  | QRange n (Some (Some m)) => if m <? n then LibErr ERegex else Ok (n, Some m)
  end.

Fixpoint add_times (k s t : nat) (st : bst) : bst :=
  match k with 0 => st | S k' => add_times k' s t (add_t s t st) end.

(* _add_repetition *)
Definition add_repetition (root it times : nat) (st : bst) : bst :=
  let '(st, sub) := noop_dec true st in
  add_t root sub (add_times times sub it st).

(* _repeat *)
Definition repeat_ (root it : nat) (rp : nat * option nat) (st : bst) : bst :=
  let '(mn, mx) := rp in
  let mx := match mx with None => mn + 2 | Some m => m end in
  let st := if (mn =? 0) || (mx =? 0)
            then let '(st, l) := noop_leaf st in add_t root l st else st in
  let st := if 0 <? mn then add_repetition root it mn st else st in
  if mx =? mn then st else add_repetition root it mx st.

Definition with_quant (q : option quant) (it : nat) (st : bst) : res (bst * nat) :=
  match q with
  | None => Ok (st, it)
  | Some q =>
    do rp <- rep_of q;
    let '(st, root) := noop_dec false st in
    Ok (repeat_ root it rp st, root)
  end.

(* CharacterGroupItemConverter (+ CharacterRangeConverter) *)
Definition conv_citem (ci : citem) (st : bst) : res (bst * nat) :=
  let '(st, root) := noop_dec false st in
  match ci with
  | CChar c => let '(st, l) := char_leaf c st in Ok (add_t root l st, root)
  | CRange a b =>
    if b <? a then LibErr ERegex else
    let '(st, rr) := noop_dec false st in
    let '(st, l1) := char_leaf a st in
    let st := add_t rr l1 st in
    let '(st, l2) := char_leaf b st in
    let st := add_t rr l2 st in
    Ok (add_t root rr st, root)
  end.

Fixpoint conv_citems (cg : nat) (l : list citem) (st : bst) : res bst :=
  match l with
  | [] => Ok st
  | ci :: r => do '(st, n) <- conv_citem ci st; conv_citems cg r (add_t cg n st)
  end.

Fixpoint conv_expr (r : regex) (st : bst) : res (bst * nat) :=
  let '(st, root) := noop_dec false st in                    (* ExpressionConverter *)
  match r with
  | RAlt1 s => do '(st, c) <- conv_sub s st; Ok (add_t root c st, root)
  | RAlt s r' =>
    do '(st, c) <- conv_sub s st;
    let st := add_t root c st in
    do '(st, c2) <- conv_expr r' st;
    Ok (add_t root c2 st, root)
  end
with conv_sub (s : subexp) (st : bst) : res (bst * nat) :=
  let '(st, root) := noop_dec true st in                     (* SubExpressionConverter *)
  do st <- (fix go (s : subexp) (st : bst) : res bst :=
     match s with
     | SOne i => do '(st, c) <- conv_item i st; Ok (add_t root c st)
     | SCons i s' => do '(st, c) <- conv_item i st; go s' (add_t root c st)
     end) s st;
  Ok (st, root)
with conv_item (i : item) (st : bst) : res (bst * nat) :=
  let '(st, wrap) := noop_dec false st in                    (* SubExpressionItemConverter *)
  do '(st, inner) <-
    match i with
    | IChar c q =>                                           (* MatchConverter, MatchItemConverter *)
      let '(st, mi) := noop_dec false st in
      let '(st, l) := char_leaf c st in
      with_quant q mi (add_t mi l st)
    | IClass c0 cs q =>
      let '(st, mi) := noop_dec false st in                  (* MatchItemConverter *)
      let '(st, mcc) := noop_dec false st in                 (* MatchCharacterClassConverter *)
      let '(st, cg) := noop_dec false st in                  (* CharacterGroupConverter *)
      do st <- conv_citems cg (c0 :: cs) st;
      with_quant q mi (add_t mi mcc (add_t mcc cg st))
    | IGroup _ r q =>                                        (* GroupConverter *)
      do '(st, e) <- conv_expr r st;
      with_quant q e st
    end;
  Ok (add_t wrap inner st, wrap).

(* parse(): StartConverter, optimize(), CreateInputNode / super root / FetchOutputNode *)
Definition parse_regex (fuel : nat) (r : regex) : res (bst * nat) :=
  let '(st, start) := noop_dec true bempty in                  (* StartConverter *)
  do '(st, e) <- conv_expr r st;
  let st := add_t start e st in
  do g <- optimize fuel (b_graph st) start;
  let st := mkBst g (b_pay st) in
  let '(st, ci) := new_node (KDec false false) PInput st in     (* CreateInputNode *)
  let '(st, sr) := noop_dec true st in
  let st := add_t ci sr st in
  let st := add_t sr start st in
  let '(st, fo) := new_node (KLeaf true) POutput st in          (* FetchOutputNode *)
  Ok (add_t sr fo st, ci).

(* the string an execution produces: the characters appended by the leaves applied, in order
   (one list object is created by the input node, mutated by the leaves, joined by the output node) *)
Definition pay_of (st : bst) (n : nat) : payload := nth n (b_pay st) PNone.
Definition output_of (st : bst) (tr : list nat) : str :=
  flat_map (fun n => match pay_of st n with PChars s => s | _ => [] end) tr.

(* ---------- core/random.py generate_random_string ---------- *)
Definition xchar : nat := 120.   (* "x" *)

(* first entry labelled valid, executed *)
Fixpoint first_valid (fuel : nat) (st : bst) (root : nat) (es : list entry) : res (option str) :=
  match es with
  | [] => Ok None
  | e :: r => if evalid e
              then do tr <- execute fuel (b_graph st) root (epath e); Ok (Some (output_of st tr))
              else first_valid fuel st root r
  end.

Definition gen_random_string (V : variant) (fuel : nat) (mn : nat) (mx : option nat) (pat : option regex)
  : res str :=
  if match mx with Some m => m <? mn | None => false end then PyErr EAssertionError else
  match pat with
  | None => Ok (repeat xchar mn)
  | Some r =>
    do '(st, root) <- parse_regex fuel r;
    do '(_, (es, status)) <- generate_paths V fuel (b_graph st) root aempty aempty;
    do fv <- first_valid fuel st root es;
    match fv with
    | Some result =>
      if match mx with Some m => m <? length result | None => false end then LibErr EInternal
      else Ok (repeat xchar (mn - length result) ++ result)
    | None =>
      (* the generator ended (normally or not) before a valid entry was seen *)
      match status with Ok _ => LibErr EInternal | e => cast_err e end
    end
  end.

(* ---------- specification: which strings an expression matches (full match) ---------- *)
Definition citem_has (ci : citem) (c : nat) : Prop :=
  match ci with CChar x => c = x | CRange a b => a <= c <= b end.

Inductive count_ok : quant -> nat -> Prop :=
| C_star k : count_ok QStar k
| C_plus k : 1 <= k -> count_ok QPlus k
| C_opt k : k <= 1 -> count_ok QOpt k
| C_exact n : count_ok (QRange n None) n
| C_atleast n k : n <= k -> count_ok (QRange n (Some None)) k
| C_between n m k : n <= k <= m -> count_ok (QRange n (Some (Some m))) k.

Definition quant_of (i : item) : option quant :=
  match i with IChar _ q => q | IClass _ _ q => q | IGroup _ _ q => q end.

Inductive matches : regex -> str -> Prop :=
| M_alt1 s w : smatches s w -> matches (RAlt1 s) w
| M_altl s r w : smatches s w -> matches (RAlt s r) w
| M_altr s r w : matches r w -> matches (RAlt s r) w
with smatches : subexp -> str -> Prop :=
| M_one i w : imatches i w -> smatches (SOne i) w
| M_cons i s w1 w2 : imatches i w1 -> smatches s w2 -> smatches (SCons i s) (w1 ++ w2)
with imatches : item -> str -> Prop :=
| M_noq i w : quant_of i = None -> amatches i w -> imatches i w
| M_rep i q ws : quant_of i = Some q -> count_ok q (length ws) -> Forall (amatches i) ws ->
                 imatches i (concat ws)
with amatches : item -> str -> Prop :=          (* the atom of an item, without its quantifier *)
| M_char c q : amatches (IChar c q) [c]
| M_class c0 cs q ci c : In ci (c0 :: cs) -> citem_has ci c -> amatches (IClass c0 cs q) [c]
| M_group nc r q w : matches r w -> amatches (IGroup nc r q) w.

(* GraphWalk.v -- the backward walk of generate_paths terminates and never meets a node without a
   predecessor transition: after _analyze_forwards every node reachable from the root carries a finite
   distance on one of its incoming transitions, and following the minimum strictly decreases it. *)
From Fences Require Import GraphSpec GraphLinks GraphExec GraphAnalysis GraphFuel GraphTerm.

(* ---------- argmin returns a smallest entry ---------- *)
Lemma dist_lt_false_le d bv : dist_lt d bv = false -> dle bv d.
Proof.
  destruct d as [x|], bv as [y|]; simpl; intros H; auto; try discriminate.
  apply Nat.ltb_ge in H. exact H.
Qed.

Lemma argmin_go_min l : forall k best bv j,
  (best = None -> bv = None) -> (forall b, best = Some b -> bv <> None) ->
  argmin_go l k best bv = Some j ->
  exists v, dle (Some v) bv /\ (forall d, In d l -> dle (Some v) d) /\
    ((best = Some j /\ bv = Some v) \/ (k <= j /\ nth_error l (j - k) = Some (Some v))).
Proof.
  induction l as [|d r IH]; intros k best bv j P1 P2 H; cbn [argmin_go] in H.
  - subst best. destruct bv as [v|]; [|exfalso; eapply P2; eauto].
    exists v. split; [simpl; lia|]. split; [intros d []|]. left. auto.
  - destruct (dist_lt d bv) eqn:E.
    + destruct d as [x|]; [|discriminate].
      destruct (IH (S k) (Some k) (Some x) j) as (v & A & B & C); auto; try discriminate.
      exists v. split; [|split].
      * destruct bv as [y|]; simpl in *; auto. apply Nat.ltb_lt in E. lia.
      * intros d' [<-|Hd]; auto.
      * right. destruct C as [[C1 C2]|[C1 C2]].
        -- inversion C1; inversion C2; subst. split; [lia|]. rewrite Nat.sub_diag. reflexivity.
        -- split; [lia|]. replace (j - k) with (S (j - S k)) by lia. exact C2.
    + destruct (IH (S k) best bv j P1 P2 H) as (v & A & B & C).
      exists v. split; auto. split.
      * intros d' [<-|Hd]; auto. eapply dle_trans; [exact A|]. apply dist_lt_false_le. exact E.
      * destruct C as [C|[C1 C2]]; [left; exact C|right].
        split; [lia|]. replace (j - k) with (S (j - S k)) by lia. exact C2.
Qed.

Lemma argmin_min l j : argmin l = Some j ->
  exists v, nth_error l j = Some (Some v) /\ forall d, In d l -> dle (Some v) d.
Proof.
  unfold argmin. intros H.
  destruct (argmin_go_min l 0 None None j) as (v & _ & B & C); auto; try discriminate.
  destruct C as [[C _]|[_ C]]; [discriminate|]. rewrite Nat.sub_0_r in C. eauto.
Qed.

Lemma argmin_finite l d : In d l -> d <> None -> argmin l <> None.
Proof. intros Hd Nd A. apply Nd. eapply argmin_none; eauto. Qed.

Lemma In_enum_from {A} (l : list A) : forall k i t, In (i, t) (enum_from k l) <-> (k <= i /\ nth_error l (i - k) = Some t).
Proof.
  induction l as [|x r IH]; intros k i t; simpl.
  - split; [intros []|]. intros [_ H]. destruct (i - k); discriminate.
  - rewrite IH. split.
    + intros [E|[L N]].
      * inversion E; subst. split; [lia|]. rewrite Nat.sub_diag. reflexivity.
      * split; [lia|]. replace (i - k) with (S (i - S k)) by lia. exact N.
    + intros [L N]. destruct (Nat.eq_dec i k) as [->|Ne].
      * rewrite Nat.sub_diag in N. simpl in N. inversion N; subst. left. reflexivity.
      * right. split; [lia|]. replace (i - k) with (S (i - S k)) in N by lia. exact N.
Qed.

Lemma In_enumerate {A} (l : list A) i t : In (i, t) (enumerate l) <-> nth_error l i = Some t.
Proof.
  unfold enumerate. rewrite In_enum_from. rewrite Nat.sub_0_r. split; [intros [_ H]; exact H|intros H; split; [lia|exact H]].
Qed.

Section AfComplete.
Variable V : variant.
Variable g : graph.
Variable root : nat.
Hypothesis FA : fix_af V = true.
Hypothesis OO : outs_ok g.
Hypothesis IO : ins_ok g.

Notation Jr := (Jr g root).
Notation Qr := (Qr g).
Notation analysed := (analysed g root).
Notation InvQ := (InvQ g root).

Lemma ins_of_out n : length g <= n -> ins_of g n = [].
Proof. intros L. unfold ins_of. rewrite getn_out by exact L. reflexivity. Qed.

Lemma InvQ_aupd lr t pos len m : m <> t -> InvQ lr m -> InvQ (aupd lr t pos (Some len)) m.
Proof.
  intros Ne I A D. unfold GraphTerm.InvQ in I.
  assert (A0 : analysed lr m).
  { destruct A as [A|(p & Lp & Hp)]; [left; exact A|right]. exists p. split; auto.
    rewrite aupd_other in Hp by congruence. exact Hp. }
  specialize (I A0 D). intros idx t' N. destruct (I idx t' N) as (p & Np & F).
  exists p. split; auto. unfold aupd. destruct ((t' =? t) && (p =? pos)); [discriminate|exact F].
Qed.

Lemma af_complete : forall f lr n len lr' (P : nat -> Prop),
  af V f g lr n len = Ok lr' ->
  (forall m, ~ P m -> m <> n -> InvQ lr m) ->
  map_le lr' lr /\ (forall m, ~ P m -> InvQ lr' m).
Proof.
  induction f as [|f IH]; intros lr n len lr' P H Pre; cbn [af] in H; [discriminate|].
  destruct (is_dec g n) eqn:D.
  2:{ inversion H; subst lr'. split; [apply map_le_refl|]. intros m NP.
      destruct (Nat.eq_dec m n) as [->|Ne]; [|auto]. intros _ D'. congruence. }
  assert (G : forall l lr0 lr1,
     foldM (fun lr '(idx, t) =>
               match index_where (af_pick V n idx) (ins_of g t) 0 with
               | None => PyErr EIndexError
               | Some pos => if dist_lt (Some len) (lr t pos) then af V f g (aupd lr t pos (Some len)) t (S len) else Ok lr
               end) l lr0 = Ok lr1 ->
     (forall m, ~ P m -> m <> n -> InvQ lr0 m) ->
     map_le lr1 lr0 /\ (forall m, ~ P m -> m <> n -> InvQ lr1 m) /\
     (forall idx t, In (idx, t) l -> exists pos, nth_error (ins_of g t) pos = Some (n, idx) /\ lr1 t pos <> None)).
  { induction l as [|[idx t] l IHl]; intros lr0 lr1 F I0; cbn [foldM bind] in F.
    - inversion F; subst lr1. split; [apply map_le_refl|]. split; auto. intros ? ? [].
    - destruct (index_where (af_pick V n idx) (ins_of g t) 0) as [pos|] eqn:IW; [|discriminate].
      destruct (index_where_spec _ _ _ _ IW) as (_ & [s i] & Np & Pk). rewrite Nat.sub_0_r in Np.
      unfold af_pick in Pk. rewrite FA in Pk. apply andb_true_iff in Pk. destruct Pk as [Ei Es].
      apply Nat.eqb_eq in Ei, Es. subst i s.
      destruct (dist_lt (Some len) (lr0 t pos)) eqn:DL.
      + destruct (af V f g (aupd lr0 t pos (Some len)) t (S len)) as [lr2| | |] eqn:E1; cbn [bind] in F; try discriminate.
        set (lrA := aupd lr0 t pos (Some len)) in *.
        assert (MA : map_le lrA lr0) by (apply map_le_aupd; exact DL).
        assert (PA : forall m, ~ (P m \/ m = n) -> m <> t -> InvQ lrA m).
        { intros m NP Ne. apply InvQ_aupd; [exact Ne|]. apply I0; intros X; apply NP; auto. }
        destruct (IH _ _ _ _ (fun m => P m \/ m = n) E1 PA) as (M2 & I2).
        assert (P2 : forall m, ~ P m -> m <> n -> InvQ lr2 m).
        { intros m NP Ne. apply I2. intros [X|X]; auto. }
        destruct (IHl _ _ F P2) as (M3 & I3 & R3).
        split; [eapply map_le_trans; [exact M3|eapply map_le_trans; eauto]|]. split; auto.
        intros idx' t' [E|Hin]; [|auto].
        inversion E; subst idx' t'. exists pos. split; auto.
        eapply mono_of_le; [exact M3|]. eapply mono_of_le; [exact M2|]. unfold lrA. rewrite aupd_same. discriminate.
      + cbn [bind] in F. destruct (IHl _ _ F I0) as (M3 & I3 & R3). split; auto. split; auto.
        intros idx' t' [E|Hin]; [|auto].
        inversion E; subst idx' t'. exists pos. split; auto.
        eapply mono_of_le; [exact M3|]. eapply dist_lt_none_r; eauto. }
  destruct (G _ _ _ H Pre) as (M & I & R). split; auto.
  intros m NP. destruct (Nat.eq_dec m n) as [->|Ne]; [|auto].
  intros _ _ idx t N. apply R. apply In_enumerate. exact N.
Qed.

(* after the pass from the root on a map that is blank on the table, every reachable node is analysed *)
Lemma af_root_complete f lr0 lr : blank g lr0 -> af V f g lr0 root 0 = Ok lr ->
  forall x, reach g root x -> analysed lr x.
Proof.
  intros B H.
  assert (P0 : forall m, ~ False -> m <> root -> InvQ lr0 m).
  { intros m _ Ne [A|(p & Lp & Hp)] _; [congruence|]. exfalso. apply Hp. apply B.
    destruct (Nat.lt_ge_cases m (length g)) as [L|L]; auto. rewrite ins_of_out in Lp by exact L. simpl in Lp. lia. }
  destruct (af_complete _ _ _ _ _ (fun _ => False) H P0) as (_ & I).
  intros x R. induction R as [|s i t R IHR N]; [left; reflexivity|].
  pose proof (OO _ _ _ N) as Hin. destruct (IO _ _ _ Hin) as [D _].
  destruct (I s (fun X => X) IHR D i t N) as (pos & Np & F).
  right. exists pos. split; auto. apply nth_error_Some. congruence.
Qed.

Lemma Jr_blank lr0 : blank g lr0 -> Jr lr0.
Proof.
  intros B t pos s idx d N Hd. exfalso.
  destruct (Nat.lt_ge_cases t (length g)) as [L|L].
  - rewrite B in Hd by exact L. discriminate.
  - rewrite ins_of_out in N by exact L. destruct pos; discriminate.
Qed.

(* ---------- _backward ---------- *)
Lemma backward_terminates lr : Jr lr -> ins_of g root = [] ->
  forall d n f, (ins_of g n = [] \/ exists pos, pos < length (ins_of g n) /\ dlt (lr n pos) (S d)) ->
    d + 2 <= f -> exists res, backward f g lr n = Ok res.
Proof.
  intros J R0. induction d as [d IHd] using lt_wf_ind. intros n f Hn F.
  destruct f as [|f]; [lia|]. cbn [backward].
  destruct (ins_of g n) as [|r0 rs] eqn:In_; [eauto|].
  destruct Hn as [Hn|(p & Lp & Hp)]; [discriminate|].
  destruct (argmin (row lr n (length (r0 :: rs)))) as [pos|] eqn:A.
  2:{ exfalso. eapply argmin_finite; [| |exact A].
      - eapply nth_error_In. apply row_nth. exact Lp.
      - destruct (lr n p); [discriminate|contradiction]. }
  destruct (argmin_min _ _ A) as (v & Nv & Mv).
  assert (Lpos : pos < length (r0 :: rs)).
  { rewrite <- (row_length lr n (length (r0 :: rs))). apply nth_error_Some. congruence. }
  rewrite row_nth in Nv by exact Lpos. inversion Nv as [Ev].
  assert (Vd : v <= d).
  { specialize (Mv (lr n p)). destruct (lr n p) as [w|] eqn:Ew; [|contradiction].
    simpl in Hp. assert (X : dle (Some v) (Some w)).
    { apply Mv. rewrite <- Ew. eapply nth_error_In. apply row_nth. exact Lp. }
    simpl in X. lia. }
  destruct (nth pos (r0 :: rs) r0) as [s idx] eqn:Nth.
  assert (Ns : nth_error (ins_of g n) pos = Some (s, idx)).
  { rewrite In_. rewrite (nth_error_nth_lt _ _ r0 Lpos). rewrite Nth. reflexivity. }
  destruct (J _ _ _ _ _ Ns Ev) as [[-> ->]|(p' & Lp' & Hp')].
  - destruct f as [|f]; [lia|]. cbn [backward]. rewrite R0. cbn [bind]. eauto.
  - destruct v as [|v']; [destruct (lr s p'); simpl in Hp'; [lia|contradiction]|].
    destruct (IHd v' ltac:(lia) s f) as ([[r bp] vs] & E); [right; eauto|lia|].
    rewrite E. cbn [bind]. eauto.
Qed.

End AfComplete.

(* ---------- _analyze_backwards: every finite distance is justified by smaller ones below ---------- *)
Section AbBound.
Variable g : graph.
Hypothesis IO : ins_ok g.
Hypothesis NE : nonempty_decs g.

(* the distances on the transitions out of [t] justify the value [m] on a transition into [t] *)
Definition bnd (lv : amap) (t m : nat) : Prop :=
  if is_dec g t then
    if is_all g t then forall j, j < length (outs_of g t) -> dle (lv t j) (Some m)
    else exists j, j < length (outs_of g t) /\ dlt (lv t j) m
  else True.
Definition LB (lv : amap) : Prop :=
  forall s i t d, nth_error (outs_of g s) i = Some t -> lv s i = Some d -> bnd lv t d.

Lemma bnd_mono lv lv' t m m' : map_le lv' lv -> m <= m' -> bnd lv t m -> bnd lv' t m'.
Proof.
  intros M L B. unfold bnd in *. destruct (is_dec g t); auto. destruct (is_all g t).
  - intros j Lj. eapply dle_trans; [apply M|]. eapply dle_trans; [apply B; exact Lj|]. simpl. exact L.
  - destruct B as (j & Lj & Hj). exists j. split; auto. eapply dlt_weaken; [exact L|]. eapply dlt_le; [apply M|exact Hj].
Qed.

Lemma LB_blank lv : blank g lv -> LB lv.
Proof.
  intros B s i t d N Hd. exfalso.
  destruct (Nat.lt_ge_cases s (length g)) as [L|L].
  - rewrite B in Hd by exact L. discriminate.
  - unfold outs_of in N. rewrite getn_out in N by exact L. destruct i; discriminate.
Qed.

Lemma ab_LB : forall f lv n len lv',
  ab f g lv n len = Ok lv' -> LB lv -> (is_all g n = false -> bnd lv n len) -> LB lv'.
Proof.
  induction f as [|f IH]; intros lv n len lv' H HL Pre; [discriminate|]. rewrite ab_unfold in H.
  assert (G : forall L l lv0 lv1, foldM (ab_loop g f L) l lv0 = Ok lv1 ->
            (forall s i, In (s, i) l -> In (s, i) (ins_of g n)) -> LB lv0 -> bnd lv0 n L -> LB lv1).
  { intros L. induction l as [|[s idx] l IHl]; intros lv0 lv1 F Hin L0 B0; cbn [foldM bind] in F; [inversion F; subst; auto|].
    unfold ab_loop at 1 in F. destruct (idx <? length (outs_of g s)) eqn:Li; [|discriminate].
    apply Nat.ltb_lt in Li.
    destruct (IO _ _ _ (Hin s idx (or_introl eq_refl))) as [Ds Ns].
    assert (Hin' : forall s0 i0, In (s0, i0) l -> In (s0, i0) (ins_of g n)) by (intros; apply Hin; right; auto).
    destruct (dist_lt (Some L) (lv0 s idx)) eqn:E.
    - destruct (ab f g (aupd lv0 s idx (Some L)) s (S L)) as [lv2| | |] eqn:E1; cbn [bind] in F; try discriminate.
      set (lvA := aupd lv0 s idx (Some L)) in *.
      assert (MA : map_le lvA lv0) by (apply map_le_aupd; exact E).
      assert (LA : LB lvA).
      { intros s' i' t' d N' Hd. unfold lvA, aupd in Hd.
        destruct ((s' =? s) && (i' =? idx)) eqn:Eq.
        - apply andb_true_iff in Eq. destruct Eq as [E1' E2']. apply Nat.eqb_eq in E1', E2'. subst s' i'.
          rewrite Ns in N'. inversion N'; subst t'. inversion Hd; subst d.
          eapply bnd_mono; [exact MA|apply le_n|exact B0].
        - eapply bnd_mono; [exact MA|apply le_n|]. eapply L0; eauto. }
      assert (PA : is_all g s = false -> bnd lvA s (S L)).
      { intros As. unfold bnd. rewrite Ds, As. exists idx. split; auto. unfold lvA. rewrite aupd_same. simpl. lia. }
      pose proof (IH _ _ _ _ E1 LA PA) as L2.
      pose proof (ab_decreases g _ _ _ _ _ E1) as M2.
      eapply IHl; [exact F|exact Hin'|exact L2|].
      eapply bnd_mono; [eapply map_le_trans; eauto|apply le_n|exact B0].
    - cbn [bind] in F. eapply IHl; eauto. }
  destruct (is_all g n) eqn:A.
  - destruct (outs_of g n) as [|o0 os] eqn:O; [discriminate|].
    destruct (max_outs g lv n) as [L|] eqn:Mx; [|inversion H; subst; auto].
    eapply G; [exact H|auto|exact HL|].
    unfold bnd. destruct (is_dec g n); auto. rewrite A. intros j Lj. eapply max_outs_ub; eauto.
  - eapply G; [exact H|auto|exact HL|auto].
Qed.

Lemma ab_fold_LB fuel : forall leaves lv0 lv1,
  foldM (fun lv l => ab fuel g lv l 0) leaves lv0 = Ok lv1 ->
  (forall l, In l leaves -> is_dec g l = false) -> LB lv0 -> LB lv1.
Proof.
  induction leaves as [|l ls IH]; intros lv0 lv1 F HL L0; cbn [foldM bind] in F; [inversion F; subst; auto|].
  destruct (ab fuel g lv0 l 0) as [lv2| | |] eqn:E; cbn [bind] in F; try discriminate.
  eapply IH; [exact F|intros; apply HL; right; auto|].
  eapply ab_LB; [exact E|exact L0|]. intros _. unfold bnd. rewrite (HL l (or_introl eq_refl)). exact I.
Qed.

End AbBound.

(* ---------- _generate and _forward ---------- *)
Section GenTerm.
Variable V : variant.
Variable g : graph.
Variable lv : amap.
Hypothesis HLB : LB g lv.
Hypothesis SO : sound g lv.
Hypothesis CO : complete g lv.

Definition gen_ok (f t : nat) : Prop := exists r, gen V f g lv t = Ok r.

Lemma gen_ok_mono f f' t : f <= f' -> gen_ok f t -> gen_ok f' t.
Proof. intros L [r E]. exists r. eapply gen_mono; eauto. discriminate. Qed.

Lemma gen_ok_list l : (forall t, In t l -> exists f, gen_ok f t) -> exists F, forall t, In t l -> gen_ok F t.
Proof.
  induction l as [|x l IH]; intros H; [exists 0; intros t []|].
  destruct (H x (or_introl eq_refl)) as [f1 H1].
  destruct IH as [f2 H2]; [intros; apply H; right; auto|].
  exists (Nat.max f1 f2). intros t [<-|Ht].
  - eapply gen_ok_mono; [|exact H1]. lia.
  - eapply gen_ok_mono; [|apply H2; exact Ht]. lia.
Qed.

Lemma gen_fold_ok f : forall l acc, (forall t, In t l -> gen_ok f t) ->
  exists r, foldM (gen_step V g lv f) l acc = Ok r.
Proof.
  induction l as [|t l IH]; intros [[p vs] b] H; cbn [foldM bind]; [eauto|].
  destruct (H t (or_introl eq_refl)) as [[[p' vs'] b'] E]. unfold gen_step at 1. rewrite E. cbn [bind].
  apply IH. intros; apply H; right; auto.
Qed.

Lemma bnd_finite_row t m : is_dec g t = true -> is_all g t = false -> bnd g lv t m ->
  exists idx v, argmin (row lv t (length (outs_of g t))) = Some idx /\ idx < length (outs_of g t) /\
                lv t idx = Some v /\ v < m.
Proof.
  intros D A B. unfold bnd in B. rewrite D, A in B. destruct B as (j & Lj & Hj).
  destruct (argmin (row lv t (length (outs_of g t)))) as [idx|] eqn:E.
  - destruct (argmin_min _ _ E) as (v & Nv & Mv).
    assert (Li : idx < length (outs_of g t)).
    { rewrite <- (row_length lv t (length (outs_of g t))). apply nth_error_Some. congruence. }
    rewrite row_nth in Nv by exact Li. inversion Nv as [Ev].
    exists idx, v. repeat split; auto.
    destruct (lv t j) as [w|] eqn:Ew; [|contradiction]. simpl in Hj.
    assert (X : dle (Some v) (Some w)).
    { apply Mv. rewrite <- Ew. eapply nth_error_In. apply row_nth. exact Lj. }
    simpl in X. lia.
  - exfalso. eapply argmin_finite; [| |exact E].
    + eapply nth_error_In. apply row_nth. exact Lj.
    + destruct (lv t j); [discriminate|contradiction].
Qed.

(* a node with a valid completion whose outgoing distances justify [m]: _generate returns *)
Lemma gen_terminates_bnd : forall m t, VC g t -> bnd g lv t m -> exists f, gen_ok f t.
Proof.
  induction m as [m IHm] using lt_wf_ind. intros t HV. induction HV as [n Ln|n D A HC IHC|n t D A Hin HVt _]; intros B.
  - exists 1. unfold gen_ok. cbn [gen]. unfold leaf_is in Ln. destruct (kind_of g n); try discriminate. eauto.
  - (* do-all: every child is bounded by the same m, and has a smaller derivation *)
    assert (K : exists noop, kind_of g n = KDec true noop).
    { unfold is_dec, is_all in *. destruct (kind_of g n) as [|a noop|]; try discriminate. subst a. eauto. }
    destruct K as [noop K].
    destruct (gen_ok_list (outs_of g n)) as [F HF].
    { intros t Ht. apply IHC; auto.
      apply In_nth_error in Ht. destruct Ht as [j Nj].
      assert (Lj : j < length (outs_of g n)) by (apply nth_error_Some; congruence).
      unfold bnd in B. rewrite D, A in B. specialize (B j Lj).
      destruct (lv n j) as [d|] eqn:Ed; [|contradiction]. simpl in B.
      eapply bnd_mono; [apply map_le_refl|exact B|]. eapply HLB; eauto. }
    exists (S F). unfold gen_ok. cbn [gen]. rewrite K.
    destruct (outs_of g n) as [|o0 os] eqn:O; [eauto|].
    fold (gen_step V g lv F). apply gen_fold_ok. exact HF.
  - (* choose-one: the minimum is below m and justifies the chosen child *)
    assert (K : exists noop, kind_of g n = KDec false noop).
    { unfold is_dec, is_all in *. destruct (kind_of g n) as [|a noop|]; try discriminate. subst a. eauto. }
    destruct K as [noop K].
    destruct (bnd_finite_row _ _ D A B) as (idx & v & E & Li & Ev & Lv).
    destruct (nth_error (outs_of g n) idx) as [c|] eqn:Nc; [|apply nth_error_None in Nc; lia].
    assert (VCc : VC g c) by (eapply SO; [exact Nc|congruence]).
    destruct (IHm v Lv c VCc) as [f [[[p vs] b] Ef]]; [eapply HLB; eauto|].
    exists (S f). unfold gen_ok. cbn [gen]. rewrite K.
    destruct (outs_of g n) as [|o0 os] eqn:O; [eauto|].
    rewrite E. rewrite (nth_error_nth _ _ o0 Nc). rewrite Ef. cbn [bind]. eauto.
Qed.

Lemma row_bound t : (forall j, j < length (outs_of g t) -> lv t j <> None) ->
  exists m, forall j, j < length (outs_of g t) -> dle (lv t j) (Some m).
Proof.
  generalize (length (outs_of g t)). induction n as [|n IH]; intros H; [exists 0; intros; lia|].
  destruct IH as [m Hm]; [intros; apply H; lia|].
  destruct (lv t n) as [d|] eqn:E; [|exfalso; eapply H; [|exact E]; lia].
  exists (Nat.max m d). intros j Lj. destruct (Nat.eq_dec j n) as [->|Ne].
  - rewrite E. simpl. lia.
  - eapply dle_trans; [apply Hm; lia|]. simpl. lia.
Qed.

Lemma VC_bnd t : VC g t -> exists m, bnd g lv t m.
Proof.
  intros HV. inversion HV as [n Ln|n D A HC|n c D A Hin HVc]; subst.
  - exists 0. unfold bnd. unfold leaf_is, is_dec in *. destruct (kind_of g t); try discriminate. exact I.
  - destruct (row_bound t) as [m Hm].
    { intros j Lj. destruct (nth_error (outs_of g t) j) as [c|] eqn:Nc; [|apply nth_error_None in Nc; lia].
      eapply CO; [exact Nc|]. apply HC. eapply nth_error_In; eauto. }
    exists m. unfold bnd. rewrite D, A. exact Hm.
  - apply In_nth_error in Hin. destruct Hin as [j Nj].
    assert (F : lv t j <> None) by (eapply CO; eauto).
    destruct (lv t j) as [d|] eqn:Ed; [|congruence].
    exists (S d). unfold bnd. rewrite D, A. exists j. split; [apply nth_error_Some; congruence|].
    rewrite Ed. simpl. lia.
Qed.

Hypothesis PR : forall n, is_dec g n = true -> VC g n.

Lemma gen_terminates t : exists f, gen_ok f t.
Proof.
  destruct (is_dec g t) eqn:D.
  - destruct (VC_bnd t (PR t D)) as [m B]. eapply gen_terminates_bnd; eauto.
  - exists 1. unfold gen_ok. cbn [gen]. unfold is_dec in D. destruct (kind_of g t); try discriminate; eauto.
Qed.

(* one recursion budget that serves every node of the table *)
Lemma gen_budget_exists : exists F, forall t, gen_ok F t.
Proof.
  destruct (gen_ok_list (seq 0 (length g))) as [F HF]; [intros; apply gen_terminates|].
  exists (S F). intros t. destruct (Nat.lt_ge_cases t (length g)) as [L|L].
  - eapply gen_ok_mono; [|apply HF; apply in_seq; lia]. lia.
  - unfold gen_ok. cbn [gen]. unfold kind_of. rewrite getn_out by exact L. simpl. eauto.
Qed.

Lemma forward_terminates F : (forall t, gen_ok F t) ->
  forall n bp l m, spine g n bp l m ->
  forall f, length bp + F + 1 <= f -> exists r, forward V f g lv n bp = Ok r.
Proof.
  intros GF n bp l m Sp. induction Sp as [n|s i t p l e D N Sp IH]; intros f Lf.
  - destruct f as [|f]; [lia|]. cbn [forward]. eauto.
  - destruct f as [|f]; [simpl in Lf; lia|]. simpl in Lf. cbn [forward].
    destruct (kind_of g s) as [v|all noop|name] eqn:K; try (unfold is_dec in D; rewrite K in D; discriminate).
    assert (GF' : forall x, gen_ok f x) by (intros x; eapply gen_ok_mono; [|apply GF]; lia).
    destruct (IH f ltac:(lia)) as [[[[p' vs'] b'] rest'] Fw].
    destruct all.
    + fold (fwd_step V g lv f i).
      destruct (nth_error_split_len _ _ _ N) as (l1 & l2 & O & Li).
      unfold enumerate. rewrite O, enum_from_app. cbn [enum_from]. rewrite foldM_app.
      rewrite fwd_fold_gen by (intros idx x Hin; apply enum_from_idx_lt in Hin; lia).
      rewrite map_snd_enum_from.
      destruct (gen_fold_ok f l1 ([], [], true) (fun x _ => GF' x)) as [[[pa vsa] ba] Ea]. rewrite Ea. cbn [bind foldM].
      unfold fwd_step at 1. rewrite Nat.add_0_l, Li, Nat.eqb_refl, Fw. cbn [bind].
      rewrite fwd_fold_gen by (intros idx x Hin; apply enum_from_idx in Hin; lia).
      rewrite map_snd_enum_from.
      destruct (gen_fold_ok f l2 (pa ++ p', vsa ++ vs', ba && b') (fun x _ => GF' x)) as [[[pc vsc] bc] Ec]. rewrite Ec. cbn [bind]. eauto.
    + rewrite N, Fw. cbn [bind]. eauto.
Qed.

End GenTerm.

(* ---------- generate_paths as a whole ---------- *)
Lemma ok_list (P : nat -> nat -> Prop) :
  (forall f f' t, f <= f' -> P f t -> P f' t) ->
  forall l, (forall t, In t l -> exists f, P f t) -> exists F, forall t, In t l -> P F t.
Proof.
  intros M. induction l as [|x l IH]; intros H; [exists 0; intros t []|].
  destruct (H x (or_introl eq_refl)) as [f1 H1].
  destruct IH as [f2 H2]; [intros; apply H; right; auto|].
  exists (Nat.max f1 f2). intros t [<-|Ht].
  - eapply M; [|exact H1]. lia.
  - eapply M; [|apply H2; exact Ht]. lia.
Qed.

Lemma analyse_mono V g root f f' lr0 lv0 a : f <= f' ->
  analyse V f g root lr0 lv0 = Ok a -> analyse V f' g root lr0 lv0 = Ok a.
Proof.
  intros L H. unfold analyse in *.
  destruct (items f g root) as [its| | |] eqn:I; cbn [bind] in H; try discriminate.
  unfold items in *. rewrite (dfs_mono g f f' _ _ _ L I) by discriminate. cbn [bind].
  destruct (af V f g _ root 0) as [lr| | |] eqn:A; cbn [bind] in H; try discriminate.
  rewrite (af_mono V g f f' _ _ _ _ L A) by discriminate. cbn [bind].
  destruct (foldM _ _ _) as [lv| | |] eqn:F in H; cbn [bind] in H; try discriminate.
  erewrite foldM_mono; [| |exact F|discriminate].
  - cbn [bind]. exact H.
  - intros a0 x r _ E Hs. eapply ab_mono; eauto.
Qed.

Lemma gp_loop_mono V g lv lr : forall k f f' tv es, f <= f' ->
  gp_loop V k f g lv lr tv = (es, Ok tt) -> gp_loop V k f' g lv lr tv = (es, Ok tt).
Proof.
  induction k as [|k IH]; intros f f' tv es L H.
  - destruct tv; simpl in *; [exact H|discriminate].
  - destruct tv as [|next tv0] eqn:TV; [simpl in *; exact H|]. rewrite <- TV in *.
    rewrite (gp_loop_S V g f lv lr k tv next tv0 TV) in H.
    rewrite (gp_loop_S V g f' lv lr k tv next tv0 TV).
    destruct (backward f g lr next) as [[[r bp] vs]| | |] eqn:B; try (simpl in H; discriminate).
    rewrite (backward_mono g lr f f' _ _ L B) by discriminate.
    destruct (forward V f g lv r (rev bp)) as [[[[fp vs'] sat] rest]| | |] eqn:F; try (simpl in H; discriminate).
    rewrite (forward_mono V g lv f f' _ _ _ L F) by discriminate.
    cbv zeta in *.
    destruct (gp_loop V k f g lv lr (filter (fun x => negb (mem x (vs ++ vs'))) tv)) as [es0 st0] eqn:E.
    inversion H; subst es st0.
    rewrite (IH f f' _ _ L E). reflexivity.
Qed.

Section GpTerm.
Variable V : variant.
Variable g : graph.
Variable root : nat.
Hypothesis W : wf g root.
Hypothesis FA : fix_af V = true.

Lemma analyse_walk fuel lr0 lv0 a :
  (fix_reset V = true \/ (blank g lr0 /\ blank g lv0)) ->
  analyse V fuel g root lr0 lv0 = Ok a ->
  Jr g root (a_lr a) /\ (forall x, reach g root x -> analysed g root (a_lr a) x) /\ LB g (a_lv a).
Proof.
  pose proof W as W'. destruct W' as [[IO OO] NR NE RE RI R0].
  unfold analyse. intros HB H.
  destruct (items fuel g root) as [its| | |] eqn:I; cbn [bind] in H; try discriminate.
  set (lr1 := if fix_reset V then areset its lr0 else lr0) in *.
  set (lv1 := if fix_reset V then areset its lv0 else lv0) in *.
  assert (B1 : blank g lr1 /\ blank g lv1).
  { unfold lr1, lv1. destruct (fix_reset V).
    - split; apply blank_reset; intros x Lx; eapply items_complete; eauto.
    - destruct HB as [HB|HB]; [discriminate|exact HB]. }
  destruct B1 as [Br Bv].
  destruct (af V fuel g lr1 root 0) as [lr| | |] eqn:A; cbn [bind] in H; try discriminate.
  destruct (foldM _ _ lv1) as [lv| | |] eqn:F; cbn [bind] in H; try discriminate.
  inversion H; subst a; cbn [a_lr a_lv]. clear H.
  split; [|split].
  - eapply af_Jr; [exact FA|exact A|apply Jr_blank; exact Br|left; auto].
  - eapply (af_root_complete V g root FA OO IO); [exact Br|exact A].
  - eapply ab_fold_LB; [exact IO|exact F| |apply LB_blank; exact Bv].
    intros l Hl. apply filter_In in Hl. destruct Hl as [_ Hl].
    unfold leaf_is, is_dec in *. destruct (kind_of g l); auto; discriminate.
Qed.

Variables lr lv : amap.

(* one round of the work-list loop for the target x succeeds with recursion budget f *)
Definition good_at (f x : nat) : Prop :=
  exists r bp vs, backward f g lr x = Ok (r, bp, vs) /\ exists res, forward V f g lv r (rev bp) = Ok res.

Lemma good_at_mono f f' x : f <= f' -> good_at f x -> good_at f' x.
Proof.
  intros L (r & bp & vs & B & res & F). exists r, bp, vs. split.
  - eapply backward_mono; eauto. discriminate.
  - exists res. eapply forward_mono; eauto. discriminate.
Qed.

Lemma gp_loop_ok fuel : forall k tv, length tv <= k -> (forall x, In x tv -> good_at fuel x) ->
  exists es, gp_loop V k fuel g lv lr tv = (es, Ok tt).
Proof.
  induction k as [|k IH]; intros tv L G.
  - destruct tv; [simpl; eauto|simpl in L; lia].
  - destruct tv as [|next tv0] eqn:TV; [simpl; eauto|]. rewrite <- TV in *.
    rewrite (gp_loop_S V g fuel lv lr k tv next tv0 TV).
    destruct (G next) as (r & bp & vs & B & [[[fp vs'] sat] rest] & F); [rewrite TV; left; reflexivity|].
    rewrite B, F. cbv zeta.
    set (tv' := filter (fun x => negb (mem x (vs ++ vs'))) tv).
    assert (Lt : length tv' < length tv).
    { destruct (backward_vs_head g lr _ _ _ _ _ B) as [vs0 ->].
      apply filter_length_lt with (x := next).
      - rewrite TV. left. reflexivity.
      - simpl. rewrite Nat.eqb_refl. reflexivity. }
    destruct (IH tv') as [es E]; [lia| |].
    + intros x Hx. apply G. unfold tv' in Hx. apply filter_In in Hx. tauto.
    + rewrite E. eauto.
Qed.

Hypothesis HJ : Jr g root lr.
Hypothesis HA : forall x, reach g root x -> analysed g root lr x.
Hypothesis GB : exists F, forall t, gen_ok V g lv F t.

Lemma round_ok x : reach g root x -> exists f, good_at f x.
Proof.
  pose proof W as W'. destruct W' as [[IO OO] NR NE RE RI R0].
  intros R.
  assert (B : exists f res, backward f g lr x = Ok res).
  { destruct (HA x R) as [->|(pos & Lp & Hp)].
    - exists 2. eapply (backward_terminates g root lr HJ R0 0); [left; exact R0|lia].
    - destruct (lr x pos) as [d|] eqn:Ed; [|congruence].
      exists (d + 2). eapply (backward_terminates g root lr HJ R0 d); [|lia].
      right. exists pos. split; auto. rewrite Ed. simpl. lia. }
  destruct B as (f1 & [[r bp] vs] & B).
  destruct (backward_spec g IO _ _ _ _ _ _ B) as [_ Sp].
  destruct GB as [F GF].
  destruct (forward_terminates V g lv F GF _ _ _ _ Sp (length (rev bp) + F + 1) (le_n _)) as [res Fw].
  exists (Nat.max f1 (length (rev bp) + F + 1)). exists r, bp, vs. split.
  - eapply backward_mono; [|exact B|discriminate]. lia.
  - exists res. eapply forward_mono; [|exact Fw|discriminate]. lia.
Qed.

Lemma loop_terminates tv : (forall x, In x tv -> reach g root x) ->
  exists F, forall fuel k, F <= fuel -> length tv <= k -> exists es, gp_loop V k fuel g lv lr tv = (es, Ok tt).
Proof.
  intros Htv. destruct (ok_list good_at good_at_mono tv) as [F HF].
  - intros x Hx. apply round_ok. auto.
  - exists F. intros fuel k Lf Lk. apply gp_loop_ok; auto.
    intros x Hx. eapply good_at_mono; [exact Lf|auto].
Qed.

End GpTerm.

(* a graph without cycles: _generate ends whatever the annotations say *)
Definition acyclic (g : graph) : Prop :=
  exists rank : nat -> nat, forall s i t, nth_error (outs_of g s) i = Some t -> rank t < rank s.

Lemma gen_terminates_acyclic V g lv (rank : nat -> nat) :
  (forall s i t, nth_error (outs_of g s) i = Some t -> rank t < rank s) ->
  forall k t, rank t < k -> gen_ok V g lv k t.
Proof.
  intros HR. induction k as [|k IH]; intros t L; [lia|]. unfold gen_ok. cbn [gen].
  destruct (kind_of g t) as [v|all noop|name] eqn:K; eauto.
  destruct (outs_of g t) as [|o0 os] eqn:O; [eauto|].
  destruct all.
  - fold (gen_step V g lv k). apply gen_fold_ok. intros x Hx. apply IH.
    rewrite <- O in Hx. apply In_nth_error in Hx. destruct Hx as [i Hi]. specialize (HR _ _ _ Hi). lia.
  - destruct (match argmin (row lv t (length (o0 :: os))) with Some i => (i, true) | None => (0, false) end) as [idx b0] eqn:Sel.
    assert (Hin : In (nth idx (o0 :: os) o0) (o0 :: os)).
    { destruct (Nat.lt_ge_cases idx (length (o0 :: os))) as [Li|Li]; [apply nth_In; exact Li|].
      rewrite nth_overflow by exact Li. left. reflexivity. }
    set (c := nth idx (o0 :: os) o0) in *.
    assert (Hin' : In c (outs_of g t)) by (rewrite O; exact Hin).
    apply In_nth_error in Hin'. destruct Hin' as [i Hi]. specialize (HR _ _ _ Hi).
    destruct (IH c ltac:(lia)) as [[[p vs] b] E]. rewrite E. cbn [bind]. eauto.
Qed.

(* generate_paths on a well-formed graph for which _generate has a sufficient recursion budget: there is a
   budget from which on the enumeration ends normally -- it neither runs out of recursion depth nor raises --
   and yields the same entries whatever the budget.  (The budget of the analysis phase is the explicit
   [analysis_budget]; the budget of the walks depends on the distances found.) *)
Lemma generate_paths_terminates_gen V g root lr0 lv0 :
  wf g root ->
  fix_af V = true -> (fix_reset V = true \/ (blank g lr0 /\ blank g lv0)) ->
  (forall a, analyse V (analysis_budget g) g root lr0 lv0 = Ok a -> exists F, forall t, gen_ok V g (a_lv a) F t) ->
  exists F a es, forall fuel, F <= fuel ->
    generate_paths V fuel g root lr0 lv0 = Ok (a, (es, Ok tt)).
Proof.
  intros W FA HB HG. pose proof W as W'. destruct W' as [[IO OO] NR NE RE RI R0].
  destruct (analyse_terminates V g root (conj IO OO) NE FA RI (analysis_budget g) lr0 lv0 (le_n _)) as [a EA].
  destruct (analyse_walk V g root W FA _ _ _ _ HB EA) as (HJ & HAn & HL).
  assert (HB' : fix_reset V = true \/ blank g lv0) by (destruct HB as [HB|[_ HB]]; auto).
  destruct (analyse_spec V g root W _ _ _ _ HB' EA) as (SO & CO & TV & _).
  destruct (loop_terminates V g root W (a_lr a) (a_lv a) HJ HAn (HG a EA) (a_valid a ++ a_invalid a)) as [F HF].
  { intros x Hx. apply TV. exact Hx. }
  destruct (HF (Nat.max F (analysis_budget g)) (length (a_valid a ++ a_invalid a)) ltac:(lia) (le_n _)) as [es E0].
  exists (Nat.max F (analysis_budget g)), a, es. intros fuel Lf.
  unfold generate_paths.
  rewrite (analyse_mono V g root (analysis_budget g) fuel _ _ _ ltac:(lia) EA). cbn [bind].
  destruct (HF fuel (length (a_valid a ++ a_invalid a)) ltac:(lia) (le_n _)) as [es' E1].
  rewrite E1. repeat f_equal.
  pose proof (gp_loop_mono V g (a_lv a) (a_lr a) _ _ _ _ _ Lf E0) as E2.
  congruence.
Qed.

(* every decision has a completion made of valid leaves only (cycles allowed) *)
Theorem generate_paths_terminates V g root lr0 lv0 :
  wf g root -> (forall n, is_dec g n = true -> VC g n) ->
  fix_af V = true -> (fix_reset V = true \/ (blank g lr0 /\ blank g lv0)) ->
  exists F a es, forall fuel, F <= fuel ->
    generate_paths V fuel g root lr0 lv0 = Ok (a, (es, Ok tt)).
Proof.
  intros W PR FA HB. apply generate_paths_terminates_gen; auto.
  intros a EA.
  destruct (analyse_walk V g root W FA _ _ _ _ HB EA) as (HJ & HAn & HL).
  assert (HB' : fix_reset V = true \/ blank g lv0) by (destruct HB as [HB|[_ HB]]; auto).
  destruct (analyse_spec V g root W _ _ _ _ HB' EA) as (SO & CO & _).
  exact (gen_budget_exists V g (a_lv a) HL SO CO PR).
Qed.

(* no cycle at all (valid completions or not) *)
Theorem generate_paths_terminates_acyclic V g root lr0 lv0 :
  wf g root -> acyclic g ->
  fix_af V = true -> (fix_reset V = true \/ (blank g lr0 /\ blank g lv0)) ->
  exists F a es, forall fuel, F <= fuel ->
    generate_paths V fuel g root lr0 lv0 = Ok (a, (es, Ok tt)).
Proof.
  intros W [rank HR] FA HB. apply generate_paths_terminates_gen; auto.
  intros a _.
  destruct (ok_list (gen_ok V g (a_lv a)) (fun f f' t => gen_ok_mono V g (a_lv a) f f' t) (seq 0 (length g))) as [F HF].
  { intros t _. exists (S (rank t)). eapply gen_terminates_acyclic; eauto. }
  exists (S F). intros t. destruct (Nat.lt_ge_cases t (length g)) as [L|L].
  - eapply gen_ok_mono; [|apply HF; apply in_seq; lia]. lia.
  - unfold gen_ok. cbn [gen]. unfold kind_of. rewrite getn_out by exact L. simpl. eauto.
Qed.

(* ---------- the boolean checkers used by the harness decide the hypotheses above ---------- *)
From Fences Require Import GraphCheck.

Lemma nth_map_seq (F : nat -> bool) N n : nth n (map F (seq 0 N)) false = true -> n < N /\ F n = true.
Proof.
  intros H. destruct (Nat.lt_ge_cases n N) as [L|L].
  - split; auto. rewrite <- H. symmetry.
    erewrite nth_error_nth; [reflexivity|]. erewrite map_nth_error; [reflexivity|]. apply nth_error_seq_lt. exact L.
  - rewrite nth_overflow in H; [discriminate|]. rewrite map_length, seq_length. exact L.
Qed.

Lemma nth_map_seq_eq (F : nat -> bool) N n : n < N -> nth n (map F (seq 0 N)) false = F n.
Proof.
  intros L. erewrite nth_error_nth; [reflexivity|]. erewrite map_nth_error; [reflexivity|]. apply nth_error_seq_lt. exact L.
Qed.

Lemma nth_repeat_false N n : nth n (repeat false N) false = false.
Proof.
  revert n; induction N as [|N IH]; intros n; simpl; destruct n; auto.
Qed.

Lemma vc_iter_sound g : forall k n, nth n (Nat.iter k (vc_step g) (repeat false (length g))) false = true -> VC g n.
Proof.
  induction k as [|k IH]; intros n H; cbn [Nat.iter nat_rect] in H.
  - rewrite nth_repeat_false in H. discriminate.
  - unfold vc_step at 1 in H. apply nth_map_seq in H. destruct H as [L H].
    destruct (kind_of g n) as [v|[] noop|name] eqn:K; try discriminate.
    + subst v. apply VC_leaf. unfold leaf_is. rewrite K. reflexivity.
    + apply VC_all; [unfold is_dec; rewrite K; reflexivity|unfold is_all; rewrite K; reflexivity|].
      intros t Ht. apply IH. rewrite forallb_forall in H. apply H. exact Ht.
    + apply existsb_exists in H. destruct H as (t & Ht & Hv).
      eapply VC_one; [unfold is_dec; rewrite K; reflexivity|unfold is_all; rewrite K; reflexivity|exact Ht|].
      apply IH. exact Hv.
Qed.

Lemma productiveb_sound g : productiveb g = true -> forall n, is_dec g n = true -> VC g n.
Proof.
  unfold productiveb. intros H n D. rewrite forallb_forall in H.
  assert (L : n < length g).
  { destruct (Nat.lt_ge_cases n (length g)) as [L|L]; auto.
    unfold is_dec, kind_of in D. rewrite getn_out in D by exact L. discriminate. }
  specialize (H n ltac:(apply in_seq; lia)). rewrite D in H. simpl in H.
  eapply vc_iter_sound. exact H.
Qed.

Fixpoint least (p : nat -> bool) (fuel base : nat) : nat :=
  match fuel with 0 => base | S f => if p base then base else least p f (S base) end.

Lemma least_spec p : forall fuel base k, p k = true -> base <= k -> k <= base + fuel ->
  p (least p fuel base) = true /\ least p fuel base <= k.
Proof.
  induction fuel as [|f IH]; intros base k Pk L1 L2; cbn [least].
  - assert (k = base) by lia. subst. auto.
  - destruct (p base) eqn:Pb; [auto|].
    assert (k <> base) by (intros ->; congruence).
    destruct (IH (S base) k Pk ltac:(lia) ltac:(lia)) as [A B]. split; auto.
Qed.

Lemma acyclicb_sound g : acyclicb g = true -> acyclic g.
Proof.
  unfold acyclicb. intros H.
  set (it := fun k => Nat.iter k (safe_step g) (repeat false (length g))) in *.
  set (p := fun n k => nth n (it k) false).
  exists (fun n => least (p n) (length g) 0).
  intros s i t N.
  assert (Ls : s < length g).
  { destruct (Nat.lt_ge_cases s (length g)) as [L|L]; auto.
    unfold outs_of in N. rewrite getn_out in N by exact L. destruct i; discriminate. }
  assert (Len : forall k, length (it k) = length g).
  { intros k. unfold it. destruct k; cbn [Nat.iter nat_rect]; [apply repeat_length|].
    unfold safe_step. rewrite map_length, seq_length. reflexivity. }
  assert (Ps : p s (length g) = true).
  { unfold p. rewrite forallb_forall in H. apply H. apply nth_In. fold (it (length g)). rewrite Len. exact Ls. }
  destruct (least_spec (p s) (length g) 0 (length g) Ps ltac:(lia) ltac:(lia)) as [A B].
  set (rs := least (p s) (length g) 0) in *.
  destruct rs as [|k] eqn:Ers.
  - unfold p, it in A. cbn [Nat.iter nat_rect] in A. rewrite nth_repeat_false in A. discriminate.
  - unfold p, it in A. cbn [Nat.iter nat_rect] in A. unfold safe_step at 1 in A.
    rewrite nth_map_seq_eq in A by exact Ls. rewrite forallb_forall in A.
    assert (Pt : p t k = true) by (apply A; eapply nth_error_In; eauto).
    destruct (least_spec (p t) (length g) 0 k Pt ltac:(lia) ltac:(lia)) as [_ B']. lia.
Qed.

(* JsonSemAlts.v -- merge / invert on any-of lists of keyword sets of the fragment (C06). *)
From Fences Require Import Normalize NormShape JsonValid JsonGen JsonEnum JsonSem.
From Coq Require Import String ZArith Lia.
Local Open Scope list_scope.

(* ---------- merge (full): the any-of lists are multiplied out ---------- *)
Definition row_step (o : dict) := (fun (acc : list dict) (i : dict) => do ii <- merge2 i o; Ok (acc ++ [ii])).

Lemma row_sem o : scalar_alt o -> forall result acc row,
  Forall galt result -> foldM (row_step o) result acc = Ok row ->
  exists ms, row = acc ++ ms /\ Forall galt ms /\
             forall x, alts_valid ms x <-> alts_valid result x /\ dvalid o x.
Proof.
  intros So. induction result as [|i result IH]; intros acc row Fg H; cbn [foldM] in H.
  - inversion H; subst. exists []. rewrite app_nil_r. split; [reflexivity|]. split; [constructor|].
    intros x. split; [intros (d & [] & _)|intros [(d & [] & _) _]].
  - inversion Fg as [|? ? Gi Fg']; subst. unfold row_step at 1 in H.
    destruct (merge2 i o) as [ii| | |] eqn:E; cbn [bind] in H; try discriminate.
    destruct (merge2_scalar i o ii Gi So E) as [Gii Eq].
    destruct (IH _ _ Fg' H) as (ms & -> & Fm & Eqs).
    exists (ii :: ms). rewrite <- app_assoc. split; [reflexivity|]. split; [constructor; auto|].
    intros x. split.
    + intros (d & [<-|Hd] & V).
      * apply Eq in V. destruct V as [V1 V2]. split; [exists i; split; [left; reflexivity|exact V1]|exact V2].
      * destruct (proj1 (Eqs x) (ex_intro _ d (conj Hd V))) as [(d1 & H1 & V1) V2].
        split; [exists d1; split; [right; exact H1|exact V1]|exact V2].
    + intros [(d & [<-|Hd] & V1) V2].
      * exists ii. split; [left; reflexivity|]. apply Eq. auto.
      * destruct (proj2 (Eqs x) (conj (ex_intro _ d (conj Hd V1)) V2)) as (d1 & H1 & W1).
        exists d1. split; [right; exact H1|exact W1].
Qed.

Definition opt_step (result : list dict) := (fun (new_result : list dict) (option : json) =>
   do o <- as_dict option;
   do row <- foldM (fun acc i => do ii <- merge2 i o; Ok (acc ++ [ii])) result [];
   Ok (new_result ++ row)).

Lemma opts_sem result : Forall galt result -> forall (opts : list dict) acc new,
  Forall galt opts -> foldM (opt_step result) (map JObj opts) acc = Ok new ->
  exists ms, new = acc ++ ms /\ Forall galt ms /\
             forall x, alts_valid ms x <-> alts_valid result x /\ alts_valid opts x.
Proof.
  intros Fr. induction opts as [|o opts IH]; intros acc new Fo H; cbn [map foldM] in H.
  - inversion H; subst. exists []. rewrite app_nil_r. split; [reflexivity|]. split; [constructor|].
    intros x. split; [intros (d & [] & _)|intros [_ (d & [] & _)]].
  - inversion Fo as [|? ? Go Fo']; subst. unfold opt_step at 1 in H. cbn [as_dict bind] in H.
    match type of H with bind (bind ?X _) _ = _ => destruct X as [row| | |] eqn:E end; cbn [bind] in H; try discriminate.
    destruct (row_sem o (proj1 Go) result [] row Fr E) as (ms1 & -> & F1 & Eq1). cbn [app] in H.
    destruct (IH _ _ Fo' H) as (ms & -> & Fm & Eqs).
    exists (ms1 ++ ms). rewrite app_assoc. split; [reflexivity|]. split; [apply Forall_app; auto|].
    intros x. split.
    + intros (d & Hd & V). apply in_app_or in Hd. destruct Hd as [Hd|Hd].
      * destruct (proj1 (Eq1 x) (ex_intro _ d (conj Hd V))) as [R V2]. split; [exact R|exists o; split; [left; reflexivity|exact V2]].
      * destruct (proj1 (Eqs x) (ex_intro _ d (conj Hd V))) as [R (d1 & H1 & V1)]. split; [exact R|exists d1; split; [right; exact H1|exact V1]].
    + intros [R (d & [<-|Hd] & V)].
      * destruct (proj2 (Eq1 x) (conj R V)) as (d1 & H1 & V1). exists d1. split; [apply in_or_app; left; exact H1|exact V1].
      * destruct (proj2 (Eqs x) (conj R (ex_intro _ d (conj Hd V)))) as (d1 & H1 & V1). exists d1. split; [apply in_or_app; right; exact H1|exact V1].
Qed.

Definition schema_step := (fun (result : list dict) (schema : json) =>
   do opts <- any_of schema;
   foldM (fun new_result option =>
            do o <- as_dict option;
            do row <- foldM (fun acc i => do ii <- merge2 i o; Ok (acc ++ [ii])) result [];
            Ok (new_result ++ row)) opts []).

Lemma schemas_sem : forall (ls : list (list dict)) result final,
  Forall galt result -> Forall (Forall galt) ls ->
  foldM schema_step (map dnf_of ls) result = Ok final ->
  Forall galt final /\ forall x, alts_valid final x <-> alts_valid result x /\ Forall (fun l => alts_valid l x) ls.
Proof.
  induction ls as [|l ls IH]; intros result final Fr Fl H; cbn [map foldM] in H.
  - inversion H; subst. split; [exact Fr|]. intros x. split; [intros V; split; [exact V|constructor]|tauto].
  - inversion Fl as [|? ? Gl Fl']; subst. unfold schema_step at 1 in H. rewrite any_of_dnf in H. cbn [bind] in H.
    match type of H with bind ?X _ = _ => destruct X as [new| | |] eqn:E end; cbn [bind] in H; try discriminate.
    destruct (opts_sem result Fr l [] new Gl E) as (ms & -> & Fm & Eq). cbn [app] in H.
    destruct (IH _ _ Fm Fl' H) as [Ff Eqs]. split; [exact Ff|].
    intros x. rewrite (Eqs x), (Eq x). split.
    + intros [[R L] Ls]. split; [exact R|constructor; auto].
    + intros [R Ls]. inversion Ls; subst. tauto.
Qed.

Lemma dvalid_nil x : dvalid [] x.
Proof. intros k v G. discriminate G. Qed.

Lemma galt_nil : galt [].
Proof. split; [intros k v G; discriminate G|constructor]. Qed.

(* merge with full_merge: the result is satisfied exactly by the instances satisfying every argument *)
Theorem merge_full_sem ls n : Forall (Forall galt) ls ->
  merge_full_ (map dnf_of ls) = Ok n ->
  exists l, n = dnf_of l /\ Forall galt l /\ forall x, alts_valid l x <-> Forall (fun l' => alts_valid l' x) ls.
Proof.
  intros Fl H. unfold merge_full_ in H.
  destruct ls as [|l0 ls0]; [discriminate H|]. remember (l0 :: ls0) as ls eqn:E. clear E l0 ls0.
  destruct (map dnf_of ls) eqn:Em; [discriminate H|]. rewrite <- Em in H. clear Em.
  match type of H with bind ?X _ = _ => destruct X as [final| | |] eqn:E end; cbn [bind] in H; try discriminate.
  inversion H; subst n.
  destruct (schemas_sem ls [[]] final (Forall_cons _ galt_nil (Forall_nil _)) Fl E) as [Ff Eq].
  exists final. split; [reflexivity|]. split; [exact Ff|].
  intros x. rewrite (Eq x). split; [tauto|]. intros Hx. split; [|exact Hx].
  exists []. split; [left; reflexivity|apply dvalid_nil].
Qed.

(* ---------- invert ---------- *)
Lemma invert_list : forall (l : list dict) acc, Forall galt l ->
  exists ls', foldM (fun acc i => do x <- invert1 i; Ok (acc ++ [x])) (map JObj l) acc = Ok (acc ++ map dnf_of ls') /\
              Forall (Forall galt) ls' /\
              Forall2 (fun d l' => forall x, alts_valid l' x <-> ~ dvalid d x) l ls'.
Proof.
  induction l as [|d l IH]; intros acc Fl; cbn [map foldM].
  - exists []. cbn [map]. rewrite app_nil_r. split; [reflexivity|]. split; constructor.
  - inversion Fl as [|? ? Gd Fl']; subst.
    destruct (invert1_sem d Gd) as (l' & E & Fg & Eq). rewrite E. cbn [bind].
    destruct (IH (acc ++ [dnf_of l']) Fl') as (ls' & EF & FF & F2).
    exists (l' :: ls'). cbn [map]. rewrite EF, <- app_assoc. split; [reflexivity|]. split; constructor; auto.
Qed.

Theorem invert_sem cfg l n : full_merge cfg = true -> Forall galt l ->
  invert cfg (dnf_of l) = Ok n ->
  exists l', n = dnf_of l' /\ Forall galt l' /\ forall x, alts_valid l' x <-> ~ alts_valid l x.
Proof.
  intros FM Fl H. unfold invert in H. rewrite any_of_dnf in H. cbn [bind] in H.
  destruct (invert_list l [] Fl) as (ls' & E & FF & F2). rewrite E in H. cbn [bind app] in H.
  unfold merge in H. rewrite FM in H.
  destruct (merge_full_sem ls' n FF H) as (l'' & -> & Fg & Eq).
  exists l''. split; [reflexivity|]. split; [exact Fg|].
  intros x. rewrite (Eq x). clear - F2. induction F2 as [|d l' l ls' Hd F2 IH].
  - split; [intros _ (d & [] & _)|constructor].
  - split.
    + intros Hx. inversion Hx as [|? ? Hl' Hls]; subst. intros (d1 & [<-|H1] & V).
      * apply (Hd x) in Hl'. exact (Hl' V).
      * apply IH in Hls. apply Hls. exists d1. auto.
    + intros H. constructor.
      * apply Hd. intros V. apply H. exists d. split; [left; reflexivity|exact V].
      * apply IH. intros (d1 & H1 & V). apply H. exists d1. split; [right; exact H1|exact V].
Qed.

